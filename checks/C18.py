CONFIG = {
    "id": "C18",
    "coq_dirs": ["theories/Nfs41"],
    "coq_targets": ["theories/Nfs41/Properties.vo", "theories/Nfs41/PropertiesC20.vo", "theories/Nfs41/Corr.vo"],
    "properties_files": ["theories/Nfs41/Properties.v"],
    "required_theorems": [],
    "violation_kinds": ["C18:"],
    "harnesses": [
        {"cmd": "nfs41", "shared": True, "cases_quick": 200, "cases_thorough": 2000, "shards_quick": 8, "shards_thorough": 32},
    ],
    "trusted_base": [
        "hand-written model coq/theories/Nfs41/Model.v of the state accounting of nfs41_program.go + opened_files_pool.go (one event = one critical section; VirtualClose calls of leavesToClose are merged into the section that collected them), byte-range lock tables = VF.LockSet.Model; tied to the code by harness/cmd/nfs41 (replies, leaf open/close counters, VerifDump41 state dump after every step)",
        "verif hooks VerifStateCounts / VerifDump41 (read-only dumps under the program's locks)",
        "Go harness: instrumented fake file system (one directory, regular files; handle <-> leaf bijection), fake clock, counter as random generator, goroutine controller (park/release, blocked-goroutine detection through runtime.Stack), Gallina printer, case evaluator Corr.v (P on implementation observations)",
    ],
    "manifest": {
        "level_text": "Theorems in Coq about an executable model of the NFSv4.1 server's client/session/open/lock bookkeeping, for all interleavings of compounds at critical-section granularity, all file system results and all clock advances; tied to nfs41_program.go by a differential correspondence check (full state dump + replies + leaf open/close counters after every step) whose monitor is the predicate family proved of the model.",
        "level_note": "Trusted: Coq kernel+VM, hand-written model (validated by correspondence on generated histories incl. parked compounds), Go harness with fake file system/clock/generator and the verif dump hooks. NFSv4.0 program is covered by the Nfs40 area.",
        "technique": "machine-checked proof in Coq (state invariants by induction over events of an executable model) + model/implementation correspondence evaluated with vm_compute",
        "design_ref": "DESIGN.md §4 NFS — C18, C19, C20",
    },
    "assumptions": [
        "VirtualClose calls are performed right after the critical section that scheduled them (same goroutine); the model emits them with that section",
        "a file handle identifies one leaf (file system contract); directory operations and attributes are stubs",
        "uint32 sequence IDs as N with explicit wrap-around; time in milliseconds of the injected clock",
    ],
}


# ---- merged by the coordinator: NFSv4.0 area (checks/snippets/nfs40.json)
import json as _json40, os as _os40
_n40 = _json40.load(open(_os40.path.join(_os40.path.dirname(_os40.path.abspath(__file__)), "snippets", "nfs40.json")))
CONFIG["coq_dirs"] = CONFIG["coq_dirs"] + [d for d in _n40["coq_dirs"] if d not in CONFIG["coq_dirs"]]
CONFIG["coq_targets"] = CONFIG["coq_targets"] + ["theories/Nfs40/PropertiesC18.vo", "theories/Nfs40/Examples.vo", "theories/Nfs40/Corr.vo"]
CONFIG["properties_files"] = CONFIG["properties_files"] + ["theories/Nfs40/PropertiesC18.v"]
CONFIG["harnesses"] = CONFIG["harnesses"] + [dict(_n40["harness"], shared=True, coq_dirs=["theories/Nfs40"])]
CONFIG["trusted_base"] = CONFIG.get("trusted_base", []) + (_n40["trusted_base"] if isinstance(_n40["trusted_base"], list) else [_n40["trusted_base"]])
CONFIG["assumptions"] = CONFIG.get("assumptions", []) + (_n40["assumptions"] if isinstance(_n40["assumptions"], list) else [_n40["assumptions"]])
CONFIG["required_theorems"] = CONFIG.get("required_theorems", []) + _n40.get("required_theorems", {}).get("C18", [])

# ---- merged by the coordinator: second proof pass of Nfs41 (docs/areas/Nfs41-proofs2.md)
CONFIG["coq_targets"] = CONFIG["coq_targets"] + ['theories/Nfs41/Properties2.vo', 'theories/Nfs41/Properties2Mon.vo']
CONFIG["properties_files"] = CONFIG["properties_files"] + ['theories/Nfs41/Properties2.v', 'theories/Nfs41/Properties2Mon.v']
CONFIG["required_theorems"] = CONFIG.get("required_theorems", []) + ['pool_usecount_exact', 'open_stays_resolvable', 'open_file_putfh_succeeds', 'pool_entry_is_referenced', 'idle_list_ordered_by_last_seen', 'no_lapsed_idle_client', 'expiry_leaves_nothing', 'monitor_pool_holds_on_model', 'monitor_lease_holds_on_model']

# ---- NFSv4.1 lease rule: independent lease monitor (coq/theories/Nfs41/SpecLease.v, kinds C18:client-expired-within-lease /
# C18:client-expired-during-io evaluated in Nfs41/Corr.v) and the model facts it rests on (ProofsLease41.v)
CONFIG["coq_targets"] = CONFIG["coq_targets"] + ['theories/Nfs41/Properties2Lease.vo']
CONFIG["properties_files"] = CONFIG["properties_files"] + ['theories/Nfs41/Properties2Lease.v']
CONFIG["required_theorems"] = CONFIG.get("required_theorems", []) + ['enter_clock_monotone41', 'expiry_only_after_lease41', 'enter_keeps_record41', 'held_client_survives_enter41', 'release_records_now41', 'sequence_pins_client41', 'sequence_end_renews_lease41', 'sequence_end_keeps_held41', 'create_session_touch_records_now41', 'reachable_expiry_only_after_lease_partial', 'inflight_compound_pins_client41', 'reachable_now_le_clock41', 'reachable_expiry_before_clock41', 'dump_expiry_before_clock41', 'dump_inflight_client_survives41', 'lease_check_sound_for_expiry_partial', 'lease_monitor_accepts_model_trace', 'lease_monitor_rejects_early_expiry']
