CONFIG = {
    "id": "C15",
    "coq_dirs": ["theories/Pool"],
    "coq_targets": ["theories/Pool/Properties.vo", "theories/Pool/Corr.vo"],
    "properties_files": ["theories/Pool/Properties.v"],
    "required_theorems": ["sectors_partition", "all_closed_all_free", "quota_conserved", "quota_monitor_accepts_model", "isolation", "write_refines_bytes", "read_refines_bytes", "file_refines_bytes", "truncate_refines_bytes", "seek_refines_regions", "allocator_words_init", "allocator_words_refine_flat", "allocator_words_free_contig", "allocator_words_free_list"],
    "harnesses": [
        {"cmd": "pool", "cases_quick": 320, "cases_thorough": 6000, "shards_quick": 8, "shards_thorough": 96},
    ],
    "trusted_base": [
        "hand-written model coq/theories/Pool/Model.v of block_device_backed_file_pool.go, bitmap_sector_allocator.go (flat free bitmap + nextSector; the 64-bit word algorithm is transcribed separately in ProofsWords.v and proved equal to it), quota_enforcing_file_pool.go; tied by correspondence harness/cmd/pool on outputs, every allocator/device/hole-source call, Len() of every file and probed quota after every operation",
        "Go harness: fake block device / hole source / failing base pool, recording wrappers, quota probe through NewFile+Close, Gallina printer; case evaluator Pool/Corr.v (P on implementation traces)",
    ],
    "manifest": {
        "level_text": "Theorems in Coq about an executable transcription of the block-device-backed file, the bitmap sector allocator and the quota layer, for all operation histories and failure oracles (induction over operation lists); tied to the Go code by a differential correspondence check whose oracle is the proved model and whose monitor is the proved predicate P (reference: one byte array per file, sector ownership partition, quota equation).",
        "level_note": "Trusted: Coq kernel+VM, hand-written model (checked by correspondence on generated histories incl. every sector number the real allocator hands out), Go harness and fakes. Go int/uint64 as nat/N; offsets bounded (< 2^40) in the code, unbounded in the model.",
        "technique": "machine-checked proof in Coq (invariants/refinement by induction over histories) + model/implementation correspondence evaluated with vm_compute",
        "design_ref": "DESIGN.md §4 Pool/C15",
    },
    "assumptions": [
        "file_refines_bytes (the complete monitor p_step accepts every model trace) is proved for histories whose NewFile operations satisfy op_wf: the hole source is not longer than the file (HoleSource contract of the harness; the generator only produces such histories)",
        "offsets and sizes < 2^40 (Go int/int64 overflow is not modelled; the model uses unbounded N/nat)",
        "hole sources obey the HoleSource contract: never EOF, null bytes beyond their length, length <= file size at NewFile",
        "the allocator of the correspondence model is the flat bit list; its equality with the uint64 word algorithm (three scan phases, bits.TrailingZeros64, shift/mask expressions, full-word loops) is proved for the Coq transcription allocate_w/free_contig_w/free_list_w in ProofsWords.v (allocator_words_* theorems); that transcription is hand-written from bitmap_sector_allocator.go and is itself not executed against the Go code (the flat model it is proved equal to is, on every allocation)",
    ],
}
