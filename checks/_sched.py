"""Shared configuration of the scheduler checks C01-C06 (+ the scheduler part of C07)."""

TEXT = {
 "C01": "every task is held by exactly one queue or one worker; Synchronize only names the assigned, uncompleted task",
 "C02": "each Execute/WaitExecution stream gets exactly one faithful final message, stages advance monotonically",
 "C03": "identical cacheable actions in flight are deduplicated; do_not_cache requests are never merged",
 "C04": "work is handed out in the documented fair order; nothing stays queued while an undrained worker waits",
 "C05": "tasks only reach the longest-prefix, same-platform, selected-size-class queue and undrained workers; rejection codes",
 "C06": "worker / no-waiter / retry / queue timeouts are armed, blocked calls wake, nothing leaks after quiescence",
 "C07": "exactly one of Select/Abandoned per request, one terminal call per learner, retry once on the largest size class, background learning uncacheable and bounded",
}

def extend(history, step):
    """Histories near a disagreeing one: for the disagreeing event and the next
    few events that let a call run, the prefix up to and including that event,
    followed by a clock jump to just before / just after each configured
    timeout (a mis-armed timeout, a lost wake-up or a leaked object shows up
    once the clock passes it), the release of every parked call, and a jump
    past everything."""
    all_ops = history["ops"]
    cfg = history["cfg"]
    out = []
    sync_calls = {o["c"] for o in all_ops if o["k"] == "sync"}
    # the disagreeing event, then the events after it in which a parked Synchronize
    # call is released (a worker that waited is typically handed a task there),
    # then other events that let a call run
    later = [i for i in range(step + 1, len(all_ops))]
    woken = [i for i in later if all_ops[i]["k"] in ("enter", "timer") and all_ops[i].get("c") in sync_calls][:10]
    other = [i for i in later if all_ops[i]["k"] in ("sync", "enter", "timer") and i not in woken][:4]
    steps = [step] + woken + other
    for n, st in enumerate(steps):
        ops = all_ops[:st + 1]
        calls = sorted({o["c"] for o in ops if "c" in o})
        nxt = (max(calls) + 1) if calls else 0
        jumps = set()
        for k in ("nowait", "pq", "idle", "worker"):
            jumps.add(cfg[k] - 1_000)
            jumps.add(cfg[k] - 1_000_000)
            if n == 0:
                jumps.add(cfg[k] + 1_000_000)
        for j in sorted(x for x in jumps if x > 0):
            tail = [{"k": "tick", "c": nxt, "dt": j}]
            tail += [{"k": "enter", "c": c, "dt": 1} for c in calls]
            tail += [{"k": "tick", "c": nxt + 1, "dt": 3000_000_000_000}]
            out.append({"cfg": cfg, "ops": ops + tail})
    return out


REQUIRED = {
 "C01": ["completed_absorbing", "completed_absorbing_run", "sync_tells_assigned", "workers_tasks_inverse", "queued_ops_sane", "ops_tasks_inverse", "completed_task_released", "no_start_after_complete", "tables_structure", "parked_workers", "sched_exclusive", "platform_queues_structure", "p_step_components", "monitor_state_components_on_model", "monitor_components_on_model", "monitor_exec_on_model", "monitor_sync_on_model", "monitor_c06_final_on_model", "uncompleted_task_has_action", "trace_sub_all"],
 "C02": ["call_trace_shape", "stream_done_once", "nothing_after_end", "return_follows_done", "done_faithful", "done_enabled", "stages_monotone", "causes_okb_sound", "responses_have_a_cause", "stream_step_spec", "monitor_stream_on_model", "monitor_cancel_on_model", "monitor_gone_on_model"],
 "C03": ["inflight_exact", "live_cacheable_unique", "dup_exec_no_new_task", "exec_start_dnc_keeps_inflight", "fresh_after_completion", "c03_dump_holds", "c03_waited_holds"],
 "C04": ["pick_minimal", "assign_next_in_policy", "descend_cases", "sticky_only_breaks_ties", "minimal_sound", "minimal_complete", "minimal_nonempty", "no_queued_while_parked", "tree_consistent", "qchildren_less_irrefl", "qchildren_less_trans", "assign_next_finds_queued", "schedule_finds_parked", "direct_assign_closest"],
 "C05": ["longest_prefix_pq_sound", "longest_prefix_pq_none", "exec_routes_longest_prefix", "exec_routes_longest_prefix_reachable", "reject_codes", "drained_gets_nothing", "undrain_eligible"],
 "C06": ["waiters_exact", "parked_on_registered", "armed_only_unwaited", "armed_when_unwaited", "enter_fires_all_overdue", "maybe_start_cleanup_arms", "retry_limit", "worker_timeout", "no_waiter_timeout", "worker_attended", "workerless_queue_armed", "gc_complete", "sync_answer_armed", "monitor_arm_on_model", "retry_counter_step", "retry_counter_step_nonsync", "retry_counter_bounded", "assigned_retry_step", "held_retry_step", "retry_positions_isolated"],
 "C07": ["selector_linear", "selector_only_at_execute", "learner_linear", "no_learner_no_call", "learner_after_complete", "completed_has_no_learner", "retry_once_largest", "background_bounded", "background_ops_not_cacheable", "background_learners_no_retry", "monitor_learners_on_model", "learner_holder_has_action", "learner_ids_uniqueb_sound", "bg_scripts_okb_sound"],
}


def config(pid, extra_props=None):
    return {
        "id": pid,
        "coq_dirs": ["theories/Sched"],
        "coq_targets": ["theories/Sched/Corr.vo", "theories/Sched/Properties%s.vo" % (pid if pid != "C07" else "C07s")]
                       + (["theories/Sched/PropertiesC06r.vo"] if pid == "C06" else []),
        "properties_files": ["theories/Sched/Properties%s.v" % (pid if pid != "C07" else "C07s")]
                            + (["theories/Sched/PropertiesC06r.v"] if pid == "C06" else []),
        "required_theorems": REQUIRED.get(pid, []),
        # kinds of other properties' predicates that also state part of this property
        "violation_kinds": [pid + ":"] + {"C03": ["C02:cancelled-for-lack-of-waiters", "C02:progress-message-for-unregistered"],
                                          "C02": ["C06:task-reissued-beyond-retry-limit", "C06:task-failed-before-retry-limit"]}.get(pid, []),
        "extend": extend,
        "harnesses": [
            {"cmd": "sched", "cases_quick": 96, "cases_thorough": 1200, "shards_quick": 16, "shards_thorough": 96, "shared": True, "procs": 4},
        ],
        "trusted_base": [
            "hand-written model coq/theories/Sched/{Types,Model,Steps}.v of in_memory_build_queue.go: one event = one critical section; binary heaps as sets with minimum-by-Less selection, ties and Go map iteration order resolved by admissible hints taken from the observed post-state; float64 score comparison modelled exactly in Z (priorities chosen so that no exact or near tie between different priorities arises)",
            "verif hook InMemoryBuildQueue.VerifDump (read-only state dump + structural walk of index fields)",
            "Go harness harness/cmd/sched: goroutine controller (fake clock gate, quiescence from runtime.Stack), scripted router/selector/learners, fake CAS and streams, delta-encoded dumps rebuilt by Obs.apply_delta",
            "case evaluator Sched/Corr.v (Spec.p_step on implementation traces; model run for mismatches)",
        ],
        "assumptions": [
            "Go runtime: mutex/channel semantics, eventual scheduling of runnable goroutines and timers (liveness is enabledness + progress on the model: a call whose wake-up condition holds is at the clock gate; compared as the gated-calls set after every event)",
            "container/heap, sort and IEEE math.Pow are modelled not verified",
            "histories with two cleanup entries at the same timestamp are skipped (callback order depends on heap layout); counted in evidence",
        ],
        "manifest": {
            "level_text": "Coq theorems about an executable model of the in-memory build queue quantify over every event list (= every interleaving at lock granularity, every cancellation point, every clock reading); the model is tied to the Go code by a differential correspondence run that drives the real scheduler goroutines deterministically and compares every RPC output and the full state dump after every event; the proved predicate P (" + TEXT[pid] + ") is also evaluated on the implementation's own trace.",
            "level_note": "Trusted: Coq kernel+VM; hand model (correspondence-checked each run); harness/controller/hook; Go runtime fairness and timers, float rounding of math.Pow, container/heap are modelled not verified. Where a theorem is proved only partially this is named ..._partial in PropertiesC0x.v and in docs/areas/Sched.md.",
            "technique": "machine-checked proof in Coq (invariants by induction over event lists of an executable state-machine model) + model/implementation correspondence evaluated with vm_compute",
            "design_ref": "DESIGN.md §4 Sched",
        },
    }
