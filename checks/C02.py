import importlib.util, os
_spec = importlib.util.spec_from_file_location("_sched", os.path.join(os.path.dirname(os.path.abspath(__file__)), "_sched.py"))
_m = importlib.util.module_from_spec(_spec); _spec.loader.exec_module(_m)
CONFIG = _m.config("C02")
