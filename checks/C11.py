import os
import re

_UNITS = {
    "Nanosecond": 1, "Microsecond": 10**3, "Millisecond": 10**6, "Second": 10**9,
    "Minute": 60 * 10**9, "Hour": 3600 * 10**9,
}


def _duration_ns(expr):
    """Evaluate a constant Go duration expression of the shapes
    time.Unit, time.Unit/N, time.Unit*N, N*time.Unit. Returns None if the
    shape is not recognised."""
    e = re.sub(r"\s+", "", expr)
    m = re.fullmatch(r"time\.(\w+)", e)
    if m and m.group(1) in _UNITS:
        return _UNITS[m.group(1)]
    m = re.fullmatch(r"time\.(\w+)([/*])(\d+)", e)
    if m and m.group(1) in _UNITS:
        u, n = _UNITS[m.group(1)], int(m.group(3))
        if m.group(2) == "/":
            return u // n if n and u % n == 0 else None
        return u * n
    m = re.fullmatch(r"(\d+)\*time\.(\w+)", e)
    if m and m.group(2) in _UNITS:
        return int(m.group(1)) * _UNITS[m.group(2)]
    return None


def threshold_wiring(tier, seed, build, repo, verif):
    """The termination bound of the re-arm loop (rearm_bounded) needs
    timeoutThreshold > 0.  Read the value bb_worker passes to
    NewSuspendableClock from the source, every run."""
    name = "bb_worker wires a positive timeoutThreshold into NewSuspendableClock"
    path = os.path.join(repo, "cmd", "bb_worker", "main.go")
    try:
        src = open(path).read()
    except OSError as e:
        yield (name, False, "cannot read %s: %s" % (path, e), None)
        return
    src = re.sub(r"//[^\n]*", "", src)
    calls = re.findall(r"re_clock\.NewSuspendableClock\(([^()]*)\)", src)
    if len(calls) != 1:
        yield (name, False, "expected exactly one re_clock.NewSuspendableClock(...) call without nested parentheses in %s, found %d" % (path, len(calls)), None)
        return
    args = [a.strip() for a in calls[0].split(",") if a.strip()]
    if len(args) != 3:
        yield (name, False, "NewSuspendableClock call has %d arguments, expected (base, maximumSuspension, timeoutThreshold): %r" % (len(args), args), None)
        return
    thr = _duration_ns(args[2])
    if thr is None:
        yield (name, False, "timeoutThreshold argument %r is not a recognised constant duration expression" % args[2], None)
        return
    if thr <= 0:
        yield (name, False, "timeoutThreshold %r = %d ns is not positive: the re-arm loop may spin (rearm_unbounded_at_zero_threshold)" % (args[2], thr), None)
        return
    if args[0] != "clock.SystemClock":
        yield (name, False, "base clock argument is %r, expected clock.SystemClock" % args[0], None)
        return
    # maximumSuspension must come from the validated configuration field
    ok_max = re.search(r"MaximumExecutionTimeoutCompensation\.CheckValid\(\)", src) and \
        re.search(re.escape(args[1]) + r"\s*=\s*[\w.]+\.MaximumExecutionTimeoutCompensation\.AsDuration\(\)", src)
    if not ok_max:
        yield (name, False, "maximumSuspension argument %r is not assigned from a CheckValid()ed MaximumExecutionTimeoutCompensation" % args[1], None)
        return
    yield (name, True, "timeoutThreshold = %s = %d ns > 0; maximumSuspension = %s (validated configuration duration)" % (args[2], thr, args[1]), None)


CONFIG = {
    "id": "C11",
    "coq_dirs": ["theories/Clock"],
    "coq_targets": ["theories/Clock/Properties.vo", "theories/Clock/Corr.vo"],
    "properties_files": ["theories/Clock/Properties.v"],
    "required_theorems": [
        "accounting_exact", "monitor_accepts_model", "deadline_sound", "within_budget_not_cancelled",
        "canceled_only_on_request", "reported_duration_exact", "deadline_wall_bound_progress",
        "deadline_wall_bound", "deadline_complete", "rearm_bounded", "rearm_unbounded_at_zero_threshold",
        "timer_delivery", "timer_stop_result",
    ],
    "harnesses": [
        {"cmd": "clock", "cases_quick": 400, "cases_thorough": 8000, "shards_quick": 8, "shards_thorough": 32},
    ],
    "static_obligations": [threshold_wiring],
    "trusted_base": [
        "hand-written model coq/theories/Clock/Model.v of suspendable_clock.go (one event = one critical section under SuspendableClock.lock or one action of the base clock), tied by correspondence harness/cmd/clock",
        "fake base clock / base context / base timers of the harness (time only moves by Advance; a base timer delivers a value in [deadline, now])",
        "Go harness, goroutine controller (parks the re-arm loops inside the fake NewTimer), Gallina printer, case evaluator Corr.v (P on implementation traces)",
        "source reader for the NewSuspendableClock call in cmd/bb_worker/main.go (fails on any unrecognised shape)",
    ],
    "manifest": {
        "level_text": "Theorems in Coq about a transcription of SuspendableClock (Suspend/Resume accounting, the re-arm loops of NewContextWithTimeout and NewTimer, cancellation and base-context expiry) for all timelines, nestings of suspensions, timer latenesses and orders of expiry versus cancellation; tied to the Go code by a differential correspondence check over a fake base clock whose oracle is the proved model and whose monitor is the proved predicate P; suspend/resume bracketing of the storage decorators observed on every call path.",
        "level_note": "Trusted: Coq kernel+VM, hand-written model (checked by correspondence on generated timelines), Go harness with fake base clock. Partial: real timers and goroutine scheduling (that an enabled goroutine runs and that base timers eventually fire) are assumed, NewTicker is not modelled.",
        "technique": "machine-checked proof in Coq (simulation invariant between the clock's bookkeeping and a specification-side integral of unsuspended time, over all event lists) + model/implementation correspondence evaluated with vm_compute + source-read wiring obligation",
        "design_ref": "DESIGN.md §4 Worker/C11",
    },
    "assumptions": [
        "partial: real timers - that base timers fire at or after their deadline and that the Go runtime eventually runs an enabled goroutine is assumed, not proved (the model proves enabledness and progress of the step)",
        "partial: when a base timer value and base-context cancellation are ready at the same time Go's select picks either; both orders exist as event orders in the model, the harness only exercises one at a time",
        "time.Duration / time.Time arithmetic modelled as unbounded Z nanoseconds (no int64 overflow, no saturation of Time.Sub)",
        "SuspendableClock.NewTicker is out of scope",
        "timeoutThreshold > 0 for the bound on loop iterations (read from cmd/bb_worker/main.go on every run)",
    ],
}
