"""C14 — no call leaves a lock behind; concurrent calls never deadlock.

Static part (re-derived from the sources on every run):
  translator (Go, go/ast)  ->  <build>/locksgen_<tag>/Skeleton.v
  coqc RepoBalanced.v      ->  Theorem repo_balanced by vm_compute, and its
                               corollary through Checker.balanced_sound
Dynamic part: harness/cmd/locks (VerifLockIsFree after every call, storms).
"""
import hashlib
import json
import os
import re
import shutil
import subprocess

REPO_V = r"""
Definition failing_all := Eval vm_compute in filter (fun f => negb (balanced prog f)) (map fst prog).

(* declared atomic sections that do not hold, and among their functions those that pass
   once their sections are left out (balance, floor and panic paths are fine: only the section is broken) *)
Definition strip (p : program) : program :=
  map (fun fe => (fst fe, (fst (snd fe), let sm := snd (snd fe) in
                           mkSum (s_delta sm) (s_dirty sm) (s_pre sm) (s_plow sm) (s_panics sm) []))) p.
Definition atomic_failing := Eval vm_compute in
  map fst (filter (fun fe => negb (atomic_section prog (fst fe) (snd fe))) atomic_table).
Print atomic_failing.
Definition atomic_only := Eval vm_compute in filter (fun f => balanced (strip prog) f) atomic_failing.
Print atomic_only.
Definition failing := Eval vm_compute in
  filter (fun f => negb (existsb (String.eqb f) atomic_only)) failing_all.
Print failing.

(* a function without a declared summary: no net effect, no entry assumption
   (it may have a panic bound inherited from what it calls, and may panic) *)
Definition is_plain (sm : summary) : bool :=
  match s_delta sm, s_dirty sm, s_pre sm with [], [], [] => true | _, _, _ => false end.

Definition unknown_entry_points := Eval vm_compute in
  filter (fun f => match assoc f prog with Some (_, sm) => negb (is_plain sm) | None => true end) entry_points.
Print unknown_entry_points.

(* lock-class order graph: what is left after peeling lies on or leads into a cycle *)
Definition order_residue := Eval vm_compute in residue lock_edges.
Print order_residue.

(* Every function of the repository's lock skeleton passes the check ... *)
Theorem repo_balanced : forallb (balanced prog) (map fst prog) = true.
Proof. vm_compute. reflexivity. Qed.

Lemma entry_points_plain :
  forallb (fun f => match assoc f prog with Some (_, sm) => is_plain sm | None => false end) entry_points = true.
Proof. vm_compute. reflexivity. Qed.

(* ... hence every returning path of every function without a declared
   summary leaves every lock exactly as it found it ... *)
Theorem repo_entry_points_release_everything :
  forall f, In f entry_points -> forall h, fn_returns prog f h -> forall i, cnt h i = 0%Z.
Proof.
  intros f Hin h Hr i.
  pose proof (proj1 (forallb_forall _ _) entry_points_plain f Hin) as Hn.
  cbv beta in Hn.
  destruct (assoc f prog) as [[body sm]|] eqn:Ha; [|discriminate].
  unfold is_plain in Hn.
  destruct (s_delta sm) eqn:Hd; [|discriminate]. destruct (s_dirty sm) eqn:Hp; [|discriminate].
  exact (balanced_sound prog repo_balanced f body sm Ha Hd Hp h Hr i).
Qed.
Print Assumptions repo_entry_points_release_everything.

(* ... no function ever releases a mutex it does not hold (relative to its
   entry assumption), on returning and on panicking paths, at any depth ... *)
Theorem repo_never_underflows : forall f, ~ fn_faults prog f.
Proof. exact (balanced_no_fault prog repo_balanced). Qed.
Print Assumptions repo_never_underflows.

(* ... and when a function panics by itself, the locks its pending deferred
   statements cover are released exactly. *)
Theorem repo_panic_paths_release_covered :
  forall f sm ds h, fn_panics_own prog f sm ds h ->
  forall i, covered prog ds i = true -> in_piles (s_dirty sm) i = false -> cnt h i = cnt (s_delta sm) i.
Proof. exact (balanced_panic_covered prog repo_balanced). Qed.
Print Assumptions repo_panic_paths_release_covered.

(* Every declared atomic section holds (check-then-act under one hold of the mutex). *)
Theorem repo_atomic_sections :
  forallb (fun fe => atomic_section prog (fst fe) (snd fe)) atomic_table = true.
Proof. vm_compute. reflexivity. Qed.

Theorem repo_atomic_sections_hold : forall f e, In (f, e) atomic_table ->
  exists body sm, assoc f prog = Some (body, sm) /\ In e (s_atomic sm) /\
    forall o fr, exec prog (ctx_of sm) body frame0 o fr -> o <> OFault.
Proof.
  intros f e Hin.
  exact (atomic_section_sound prog repo_balanced f e
           (proj1 (forallb_forall _ _) repo_atomic_sections (f, e) Hin)).
Qed.
Print Assumptions repo_atomic_sections_hold.

(* Lock classes outside LockPile are acquired in an acyclic order. *)
Theorem repo_lock_order_acyclic : acyclic lock_edges = true.
Proof. vm_compute. reflexivity. Qed.

Theorem repo_lock_order_no_cycle : forall v, ~ Relations.Relation_Operators.clos_trans string (edge lock_edges) v v.
Proof. exact (acyclic_sound lock_edges repo_lock_order_acyclic). Qed.
Print Assumptions repo_lock_order_no_cycle.
"""


def _sh(cmd, cwd=None, timeout=600, env=None):
    p = subprocess.run(cmd, cwd=cwd, stdout=subprocess.PIPE, stderr=subprocess.STDOUT, timeout=timeout, env=env, text=True)
    return p.returncode, p.stdout


def static_locks(tier, seed, build, repo, verif):
    """Translator + generated obligation.  Yields (name, discharged, note, payload)."""
    env = dict(os.environ, GOFLAGS="-mod=mod", GOPROXY="off")
    env.pop("GOSUMDB", None)
    tdir = os.path.join(verif, "translator")
    tbin = os.path.join(build, "bin", "locks_translator")
    os.makedirs(os.path.dirname(tbin), exist_ok=True)
    rc, out = _sh(["go", "build", "-o", tbin, "."], cwd=tdir, env=env)
    if rc:
        yield ("translator-build", False, "translator does not build:\n" + out[-1500:], None)
        return
    tag = hashlib.sha1(os.path.realpath(repo).encode()).hexdigest()[:10]
    gen = os.path.join(build, "locksgen_" + tag)
    shutil.rmtree(gen, ignore_errors=True)
    os.makedirs(gen)
    rc, out = _sh([tbin, "-repo", repo, "-out", os.path.join(gen, "Skeleton.v"), "-stats", os.path.join(gen, "stats.json"),
                   "-order", os.path.join(gen, "order.json")], env=env)
    order_msgs = []
    if rc == 3:
        # the skeleton was written; some nested acquisition cannot be placed in the lock-class order
        order_msgs = [l for l in out.splitlines() if l.startswith("translator:")]
        rc = 0
    if rc:
        msgs = [l for l in out.splitlines() if l.startswith("translator:")]
        yield ("lock-skeleton-extracted", False,
               "the translator does not understand a construct that touches locks, or finds a nested acquisition it cannot place in the "
               "lock-class order (the skeleton/graph the theorems are about can no longer be extracted from the sources):\n" + "\n".join(msgs[:20]),
               {"translator": msgs[:50]})
        return
    stats = json.load(open(os.path.join(gen, "stats.json")))
    order = json.load(open(os.path.join(gen, "order.json")))
    yield ("lock-skeleton-extracted", True,
           "%d functions and function literals seen in %d packages, %d with lock operations, %d emitted (touch locks directly or through calls), "
           "%d with a declared summary, %d with a panic bound, %d modelled in Pile.v; lock-order graph: %d classes, %d edges, %d justified nestings kept out of it" % (
               stats["functions_seen"], len(stats["packages"]), stats["functions_with_lock_operations"],
               stats["functions_emitted"], stats["functions_with_declared_summary"], stats["functions_with_panic_bound"],
               stats["functions_modelled_elsewhere"], stats["lock_classes"], stats["lock_order_edges"], stats["justified_nestings"]), None)
    if order_msgs:
        yield ("lock-order-graph-extracted", False,
               "a nested acquisition cannot be placed in the lock-class order (class unknown, or a blocking acquisition of a mutex of the "
               "same class as one that is held, outside one LockPile, without a justification in translator/summaries.json); "
               "the graph repo_lock_order_acyclic is about cannot be extracted from the sources:\n" + "\n".join(order_msgs[:12]),
               {"translator": order_msgs[:50]})
    else:
        yield ("lock-order-graph-extracted", True, "every nested blocking acquisition has a class and a place in the graph", None)
    # one file: the generated skeleton followed by the obligations
    src = open(os.path.join(gen, "Skeleton.v")).read().replace(
        "From Coq Require Import String List ZArith.", "From Coq Require Import String List Bool ZArith.").replace(
        "From VF Require Import Locks.Checker.", "From VF Require Import Locks.Checker Locks.Order.")
    open(os.path.join(gen, "RepoBalanced.v"), "w").write(src + REPO_V)
    rc, out = _sh(["timeout", "900", "coqc", "-Q", os.path.join(verif, "coq", "theories"), "VF", "RepoBalanced.v"], cwd=gen, timeout=960)
    flat = " ".join(out.split())
    m = re.search(r"(?<![\w])failing = (\[.*?\]) : list string", flat)
    failing = re.findall(r'"([^"]+)"', m.group(1)) if m else None
    m2 = re.search(r"unknown_entry_points = (\[.*?\]) : list string", flat)
    unknown = re.findall(r'"([^"]+)"', m2.group(1)) if m2 else None
    ma = re.search(r"atomic_failing = (\[.*?\]) : list string", flat)
    atomic_failing = re.findall(r'"([^"]+)"', ma.group(1)) if ma else None
    m3 = re.search(r"order_residue = (\[.*?\]) : (?:graph|list \(string \* string\))", flat)
    residue = re.findall(r'\("([^"]+)", "([^"]+)"\)', m3.group(1)) if m3 else None
    if failing is None or (unknown is None and not failing):
        yield ("repo_balanced", False, "could not evaluate the checker on the generated skeleton:\n" + out[-1500:], None)
        return
    atomic_note = None
    if atomic_failing:
        sections = json.load(open(os.path.join(verif, "translator", "summaries.json")))["atomic"]["sections"]
        desc = []
        for f in sorted(set(atomic_failing)):
            for sc in sections.get(f, []):
                desc.append("%s: %s%s under %s held %s" % (f, sc["a"], (" -> " + sc["b"]) if sc.get("b") else "", sc["lock"],
                                                          "exclusively" if sc["mode"] == "exclusive" else "at least shared"))
        atomic_note = ("Theorem repo_atomic_sections does not hold for the current sources: on some path of these functions the declared section is "
                       "broken (the mutex is not held, or not in the declared mode, at the opening/closing event, or it is released -- or a function "
                       "whose summary mentions it is called -- between them): " + "; ".join(desc))
    if failing or unknown:
        # tell the harness where to look (it biases its generator towards these methods)
        focus = sorted(set(f.split(".")[-1].split("$")[0] for f in failing))
        os.environ["VERIF_LOCKS_FOCUS"] = ",".join(focus)
        note = ("Theorem repo_balanced does not hold for the current sources: on some path these functions do not end with the "
                "locks they started with (plus their declared summary), release a mutex they do not hold, call a function whose entry "
                "assumption they do not meet, or leave a lock their pending defers cover behind when they panic: " + ", ".join(failing))
        if unknown:
            note += "; entry points missing from the skeleton: " + ", ".join(unknown)
        yield ("repo_balanced", False, note, {"failing_functions": failing, "skeleton": os.path.join(gen, "Skeleton.v")})
        if atomic_note:
            yield ("repo_atomic_sections", False, atomic_note, {"failing_functions": atomic_failing, "skeleton": os.path.join(gen, "Skeleton.v"), "search": {"cmd": "lockrace", "kind": "concurrent-locks-not-linearizable"}})
        return
    if atomic_note:
        yield ("repo_atomic_sections", False, atomic_note, {"failing_functions": atomic_failing, "skeleton": os.path.join(gen, "Skeleton.v"), "search": {"cmd": "lockrace", "kind": "concurrent-locks-not-linearizable"}})
        return
    if order_msgs:
        residue = []  # reported above; the graph is incomplete, nothing to say about cycles
    if residue is None:
        yield ("repo_lock_order_acyclic", False, "could not evaluate the order checker on the generated graph:\n" + out[-1500:], None)
        return
    if residue:
        # a cycle: report the edges that survive peeling with their acquisition sites
        # (peel from the other side too, for the report only: edges whose source nothing points to lead into the cycle)
        core = list(residue)
        while True:
            keep = [e for e in core if any(f[1] == e[0] for f in core)]
            if len(keep) == len(core):
                break
            core = keep
        residue = core or residue
        lines, sites = [], {}
        for a, b in residue:
            ss = order["sites"].get(a + " -> " + b, [])
            sites[a + " -> " + b] = ss[:2]
            where = "; ".join("%s holds %s (acquired at %s) and at %s acquires %s (%s, in %s)" % (
                x["in_function"], x["held_lock"], x["held_acquired_at"], x["at"], x["acquired_lock"], x["acquired_at"], x["acquired_in"]) for x in ss[:2])
            lines.append("%s -> %s [%s]" % (a, b, where))
        yield ("repo_lock_order_acyclic", False,
               "Theorem repo_lock_order_acyclic does not hold for the current sources: the lock-class order graph has a cycle "
               "(call paths acquire mutexes of these classes in opposite orders). Edges on the cycle(s), each with up to two acquisition sites:\n  " + "\n  ".join(lines),
               {"cycle_edges": [list(e) for e in residue], "sites": sites, "graph": os.path.join(gen, "order.json")})
        return
    if rc or out.count("Closed under the global context") < 5:
        yield ("repo_balanced", False, "RepoBalanced.v failed:\n" + out[-1500:], None)
        return
    yield ("repo_balanced", True, "forallb (balanced prog) (map fst prog) = true by vm_compute over %d functions" % stats["functions_emitted"], None)
    yield ("repo_entry_points_release_everything", True,
           "corollary of balanced_sound for the %d entry points; Closed under the global context" % stats["entry_points"], None)
    yield ("repo_never_underflows", True,
           "corollary of balanced_no_fault: no function releases a mutex it does not hold (relative to its declared entry assumption), "
           "on returning and panicking paths; Closed under the global context", None)
    yield ("repo_atomic_sections", True,
           "forallb atomic_section over the %d declared sections of %d functions (summaries.json atomic/sections; every other call site of the watched "
           "methods stops the translator) by vm_compute; repo_atomic_sections_hold through atomic_section_sound, Closed under the global context" % (
               stats["atomic_sections"], stats["functions_with_atomic_sections"]), None)
    yield ("repo_panic_paths_release_covered", True,
           "corollary of balanced_panic_covered: on a function's own panic the locks its pending defers cover are released exactly", None)
    if order_msgs:
        return
    yield ("repo_lock_order_acyclic", True,
           "acyclic lock_edges = true by vm_compute (%d classes, %d edges; %d justified nestings listed in translator/summaries.json); "
           "repo_lock_order_no_cycle through acyclic_sound, Closed under the global context" % (
               stats["lock_classes"], stats["lock_order_edges"], stats["justified_nestings"]), None)


def static_atomic(tier, seed, build, repo, verif):
    """For C20 (exclusion of byte-range locks): the generated obligation repo_atomic_sections alone
    (and whatever keeps it from being evaluated)."""
    for (name, ok, note, payload) in static_locks(tier, seed, build, repo, verif):
        if name == "repo_atomic_sections" or (not ok and name in ("translator-build", "lock-skeleton-extracted")):
            yield (name, ok, note, payload)


CONFIG = {
    "id": "C14",
    "coq_dirs": ["theories/Locks"],
    "coq_targets": ["theories/Locks/Properties.vo", "theories/Locks/Corr.vo", "theories/Dir/Corr.vo", "theories/Dir/Front.vo", "theories/File/Corr.vo"],
    "properties_files": ["theories/Locks/Properties.v"],
    "required_theorems": ["balanced_sound", "balanced_sound_all", "balanced_no_fault", "balanced_panic_covered", "atomic_section_sound", "acyclic_sound",
                          "order_no_deadlock", "pile_holds_exactly", "pile_blocks_bare", "no_deadlock", "pile_runner_satisfies_monitor"],
    "static_obligations": [static_locks],
    "harnesses": [
        {"cmd": "locks", "cases_quick": 240, "cases_thorough": 1200, "shards_quick": 8, "shards_thorough": 16,
         "race": True, "timeout": 1400},
        # dynamic part on the directory harness of C13: after every call (including every error
        # return) the lock of every touched directory must be free; kinds "C14:lock-leak:<method>"
        {"cmd": "dir", "cases_quick": 320, "cases_thorough": 8000, "shards_quick": 8, "shards_thorough": 32, "race": True,
         "shared": True, "coq_dirs": ["theories/Dir"]},
        # termination of concurrent calls on one pool-backed file (pool_backed_file_allocator.go is one of C14's
        # files): a mutator or upload parked on a frozen / busy file is woken when its condition holds; the file
        # harness of C16 parks real goroutines and reports a sleeper that is not woken as "lost-wakeup"
        {"cmd": "file", "cases_quick": 320, "cases_thorough": 8000, "shards_quick": 8, "shards_thorough": 32, "race": True,
         "shared": True, "coq_dirs": ["theories/File"]},
    ],
    "violation_kinds": ["lock-leak", "hang", "pile-", "C14:", "lost-wakeup"],
    "trusted_base": [
        "translator /verif/translator (Go, go/ast): emits the lock skeleton and the lock-class order graph faithfully; fails on constructs touching locks it does not understand "
        "and on nested acquisitions it cannot place (unknown class, same class outside one LockPile without a listed justification); "
        "assumes calls it cannot resolve inside the package (other packages, interfaces, function values) are lock-neutral for the caller, which the "
        "obligation itself establishes for every function of the analysed packages except the unexported helpers listed with justification in translator/summaries.json",
        "path semantics Checker.exec as the meaning of Go control flow for lock purposes (branches, loops, defer LIFO also on panic, a deferred call that panics does not stop the older ones; "
        "only explicit panic statements are panics; no recover() in the packages, checked by the translator)",
        "lock identity = syntactic lock expression (locals defined once as a field path of the receiver/a parameter are rendered through the path); a variable naming a lock is assigned at most once per function (checked by the translator)",
        "lock-order graph: may-held analysis and call resolution of translator/order.go (static type -> implementers by method set; unknown/foreign static type -> every method of that name and arity in the analysed packages; "
        "standard library types other than io do not call back; callbacks made by other packages are not followed); lock class = struct type + field; "
        "the 9 justified nestings and 3 excluded call targets of translator/summaries.json (order)",
        "Pile.v: hand-written model of pkg/sync/lock_pile.go (mutexes without ownership, try-lock atomic); anchored call-for-call by the pile histories of the harness, the mutation exercise and the concurrent storms",
        "verif hook VerifLockIsFree (TryLock+Unlock), Go harness harness/cmd/locks, Gallina printer, evaluator Corr.v",
    ],
    "manifest": {
        "level_text": "Machine-checked soundness (Coq) of an executable lock checker over all control-flow paths of a structured skeleton language (branches, unbounded loops, LIFO defers that also run on panics, recursive calls through checked summaries): "
                      "every returning path has exactly the declared net effect (balanced_sound), no path at any call depth releases a mutex it does not hold relative to its declared entry assumption (balanced_no_fault), and on a function's own panic "
                      "the locks its pending defers cover are released exactly (balanced_panic_covered). The skeleton of every function of the seven packages (plus pkg/clock) and the lock-class order graph of all blocking nested acquisitions outside LockPile "
                      "are regenerated from the Go sources on every run; repo_balanced, repo_never_underflows, repo_panic_paths_release_covered and repo_lock_order_acyclic (verified checker: acyclic_sound, order_no_deadlock) are re-proved by vm_compute. "
                      "LockPile's algorithm is modelled as a small-step system over threads and try-lockable mutexes with theorems pile_holds_exactly, pile_blocks_bare and no_deadlock for all interleavings, and its sequential runner is proved to satisfy the "
                      "monitor evaluated on the code's mutex calls for all scripts (pile_runner_satisfies_monitor). A harness checks the directory mutexes after every call through a TryLock hook and runs concurrent storms with a watchdog.",
        "level_note": "Trusted: Coq kernel+VM, the translator (fails loudly on unknown lock constructs and unplaceable nestings), the semantics of the skeleton language, the hand-written LockPile model, the justified nestings kept out of the class graph. "
                      "Partial: absence of livelock under try-lock back-off needs a fairness assumption and is not proved; implicit panics are not modelled; the order graph is class-level (instances of one class are ordered by listed arguments, not by proof).",
        "technique": "machine-checked proof in Coq (abstract interpretation proved sound against a big-step path semantics; verified graph-acyclicity checker; invariant over a small-step concurrent system) + source-to-Coq translation re-checked on every run + dynamic lock-free hook",
        "design_ref": "DESIGN.md §4 Locks — C14",
    },
    "assumptions": [
        "partial: livelock-freedom of LockPile's try-lock back-off is not proved (needs scheduler fairness); only deadlock-freedom is",
        "panicking paths: deferred statements are checked not to underflow and to release what they cover; locks no pending defer covers are exempt (no recover() in the analysed packages); only explicit panic statements are modelled",
        "declared exemption (summaries.json plow): if nfs40Program.enter() panics while re-entering after a wait, callers' deferred leave() runs with the mutex not held (finding candidate F-C14-a, process is ending)",
        "lock classes outside LockPile: acyclic class graph proved on every run; same-class nestings (named-attribute subtree, clone->source files, decorator chains) are ordered by justifications listed in translator/summaries.json, not by proof",
        "Go mutex semantics; data-race freedom outside the locks (thorough tier runs under -race)",
    ],
}
