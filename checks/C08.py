CONFIG = {
    "id": "C08",
    "coq_dirs": ["theories/Client"],
    "coq_targets": ["theories/Client/Properties.vo", "theories/Client/Corr.vo"],
    "properties_files": ["theories/Client/Properties.v"],
    "required_theorems": [
        "one_executor", "report_honest", "completion_reported", "idle_after_failure", "shutdown_never_solicits",
        "terminate_only_when_safe", "client_trace_ok", "safe_shutdown", "late_cancel_prefers_idle",
        "observer_ok_all", "until_nil_means_idle", "until_none_nothing_running", "shutdown_keeps_synchronizing", "channel_bounded",
    ],
    "harnesses": [
        {"cmd": "client", "cases_quick": 400, "cases_thorough": 6000, "shards_quick": 8, "shards_thorough": 32, "race": True},
    ],
    "trusted_base": [
        "hand-written model coq/theories/Client/Model.v of build_client.go (Run as one step with its two readings of ctx.Err() and a cancellation in between as an input; the context as a sticky flag; executor goroutine as a second thread with update/finish/close steps; 10-slot channel incl. a sender parked on a full buffer), tied by correspondence harness/cmd/client",
        "verif hook BuildClient.VerifState (read-only snapshot of schedulerMayThinkExecutingUntil, nextSynchronizationAt, executionCancellation != nil, PreferBeingIdle)",
        "constants: time.Minute grace and channel capacity 10 are read from build_client.go by the harness' go/ast extractor on every run (and cap(updates) at run time) and compared with Model.grace_ms / Model.chan_cap by Corr.v",
        "observer monitor Spec.obm: the scheduler-side bound is reconstructed from the Synchronize traffic (requests, replies, clock, timer-vs-update outcome of the select) and grace_ms, never from the client's fields; the field is only compared against it",
        "Go harness: scripted OperationQueueClient, controllable BuildExecutor (goroutine controller keyed by goroutine id), fake clock, Gallina printer, case evaluator Corr.v (checks of Spec.v on implementation traces)",
        "Go runtime semantics of buffered channels (a receive from a full buffer admits the parked sender's value in the same operation), select, context cancellation",
    ],
    "manifest": {
        "level_text": "Theorems in Coq about an executable model of BuildClient.Run and its executor goroutine, for all sequences of scheduler replies, clock readings, readiness results, shutdown instants (between two Runs, or inside a Run between its two readings of the context) and all interleavings of executor progress/finish/close steps with Run (no bound on length); tied to the Go code by a differential correspondence check whose oracle is the proved model and whose monitor is the proved trace predicate.",
        "level_note": "Trusted: Coq kernel+VM, hand-written model (validated on generated histories against the real BuildClient), Go harness with goroutine controller, verif snapshot hook, Go channel/select semantics. Partial: LaunchWorkerThread's random back-off sleeps are not modelled; the window between 'updates <- Completed' and 'close(updates)' is covered by the theorems (separate XClose step) but not exercised on the implementation (the harness always lets both happen back to back).",
        "technique": "machine-checked proof in Coq (invariant relating model state and monitor ghost state, preserved by every step; trace predicate = run-time monitor) + model/implementation correspondence evaluated with vm_compute",
        "design_ref": "DESIGN.md §4 Worker/C08",
    },
    "assumptions": [
        "LaunchWorkerThread's random back-off sleeps and the Go scheduler's fairness are not modelled (partial)",
        "the context is modelled as a sticky flag (a cancelled context stays cancelled: property of context.Context, assumed); when it is cancelled is an input of each Run (before the Run / between the two readings of ctx.Err()); a cancellation while an idle worker whose scheduler-may-think-executing bound is set passes from the first to the second reading without blocking is covered by the theorems but cannot be provoked on the implementation (no blocking point to hook)",
        "the executor is honest about its own digest (updates carry the digest of the request it was given), as the protocol demands of BuildExecutor implementations",
    ],
}
