# Private pipeline of the Nfs40 area (not registered in the manifest): all
# violation kinds of C18, C19 and C20 as seen through the NFSv4.0 program.
CONFIG = {
    "id": "X40",
    "coq_dirs": ["theories/Nfs40"],
    "coq_targets": ["theories/Nfs40/PropertiesC18.vo", "theories/Nfs40/PropertiesC19.vo", "theories/Nfs40/PropertiesC20.vo", "theories/Nfs40/Examples.vo", "theories/Nfs40/Corr.vo"],
    "properties_files": ["theories/Nfs40/PropertiesC18.v", "theories/Nfs40/PropertiesC19.v", "theories/Nfs40/PropertiesC20.v"],
    "required_theorems": [],
    "harnesses": [
        {"cmd": "nfs40", "cases_quick": 240, "cases_thorough": 2400, "shards_quick": 12, "shards_thorough": 32},
    ],
    "violation_kinds": ["C18:", "C19:", "C20:"],
    "trusted_base": [
        "hand-written model coq/theories/Nfs40/Model.v of nfs40_program.go + opened_files_pool.go (state-accounting core; directory operations and attributes stubbed), tied by correspondence harness/cmd/nfs40 on reply, leaf calls and full state dump after every critical section",
        "verif hooks VerifDump40 / VerifStateCounts (read-only), ByteRangeLockSet.VerifEntries",
        "Go harness: fake clock, counting RNG, fake one-directory file system, goroutine controller, Gallina printer; evaluator Corr.v",
    ],
    "manifest": {},
    "assumptions": [
        "one model event = one critical section of nfs40Program.lock; Go mutex/channel semantics and data-race freedom outside the lock are assumed",
        "state-ID 'other' fields, client IDs and verifiers drawn from the injected generator are pairwise distinct",
    ],
}
