CONFIG = {
    "id": "C13",
    "coq_dirs": ["theories/Dir"],
    "coq_targets": ["theories/Dir/Properties.vo", "theories/Dir/Corr.vo", "theories/Dir/Front.vo", "theories/Dir/FrontProperties.vo"],
    "properties_files": ["theories/Dir/Properties.v", "theories/Dir/FrontProperties.v"],
    "required_theorems": ["trace_ok_model", "trace_ok_refuted", "dir_refines", "changeid_strict", "readdir_complete", "reachable_well_formed",
                          "front_status_decoding", "front_status_injective", "front_offsets", "front_listing_transfers", "front_readdir_complete"],
    "harnesses": [
        {"cmd": "dir", "cases_quick": 320, "cases_thorough": 5000, "shards_quick": 8, "shards_thorough": 32, "race": True, "shared": True, "coq_dirs": ["theories/Dir"]},
    ],
    # the dir harness also reports leaked directory locks ("C14:lock-leak:<method>"); those belong to C14
    "violation_kinds": ["C13:"],
    "trusted_base": [
        "hand-written model coq/theories/Dir/Model.v of in_memory_prepopulated_directory.go (entriesMap+entriesList -> one list, pointers -> allocation-order ids, single-threaded histories), tied by correspondence harness/cmd/dir",
        "reference hierarchy and predicate P in coq/theories/Dir/Spec.v (finite maps + removed flag + link counts; ghost birth stamps)",
        "harness fakes: file allocator, symlink factory, handle allocator, leaves with counted Link/Unlink; verif hook VerifLockIsFree (TryLock+Unlock)",
        "Go harness, Gallina printer, case evaluator Corr.v (P on implementation traces)",
        "front-end adapter harness/cmd/dir/front*.go + coq/theories/Dir/Front.v: the harness plays the FUSE kernel (node ids, lookup counts, offsets) and an NFSv4.1 client (one session, PUTFH by handle); statuses and offsets are decoded by Front.v functions inside the case files (proved inverse to the Go encodings on all statuses the directory code returns, offsets strictly monotone); canonicalisation rules listed in docs/areas/Dir.md (what a front end does not transport is taken from the dump: FUSE change counters/ChangeInfo)",
    ],
    "manifest": {
        "level_text": "Theorems in Coq about a transcription of inMemoryPrepopulatedDirectory (all Virtual* calls and the worker-facing bulk calls) for all operation sequences: refinement of a reference POSIX-style hierarchy, completeness/no-duplication of paginated listings under interleaved mutation, strict monotonicity of change counters; tied to the Go code by a differential correspondence check whose oracle is the proved model and whose monitor is the proved predicate P; the same histories are also delivered through the FUSE RawFileSystem and NFSv4.1 COMPOUND front ends and judged by the same monitor (theorem front_readdir_complete transfers the listing property to offsets).",
        "level_note": "Trusted: Coq kernel+VM, hand-written model (checked by correspondence on generated histories), reference hierarchy, Go harness and fakes. Lazily fetched non-empty initial contents are C17. Known finding: rename of a directory into its own descendant is not refused (theorems carry the hypothesis no_rename_into_own_descendant).",
        "technique": "machine-checked proof in Coq (simulation between model and reference hierarchy, invariants over all histories) + model/implementation correspondence evaluated with vm_compute",
        "design_ref": "DESIGN.md §4 Dir — C13",
    },
    "assumptions": [
        "histories are sequential except for one scripted race (VirtualReadDir dropping its lock while a mutation of the same directory runs); other interleavings and LockPile ordering are not explored (C14 covers lock balance)",
        "uint64 change counters modelled as N (no wrap-around)",
        "directories are created with EmptyInitialContentsFetcher (lazy non-empty contents: C17)",
        "front ends: in process, no kernel and no network (FUSE: fuse.NewSimpleRawFileSystem called directly, without Init/mount; NFSv4.1: NfsV4Nfsproc4Compound called directly, one client/session/slot, frozen clock); the kernel's dentry/attribute caching and an NFS client's caching are not modelled; NFSv4.0's copies of the directory operations are not driven",
        "calls the front end cannot deliver (FUSE: node not held by the kernel; NFSv4: stale handle of a removed directory; link of a file without links) use the direct API or are not sent; counted in the evidence histograms (<method>@<front>:direct-fallback)",
    ],
}
