# C09 — worker: only complete, successful results reach the Action Cache.
import os
import re
import subprocess


def order_obligations(tier, seed, build, repo, verif):
    """Static obligation: regenerate the decorator order / storage wiring from
    cmd/bb_worker/main.go and compare it (reflexivity) with the order the
    theorems of VF.Upload assume."""
    gen = os.path.join(build, "gen", "C09")
    os.makedirs(gen, exist_ok=True)
    out = os.path.join(gen, "UploadOrderGen.v")
    env = dict(os.environ, GOFLAGS="-mod=mod", GOPROXY="off", GOTOOLCHAIN="auto")
    env.pop("GOSUMDB", None)
    p = subprocess.run(["go", "run", "./cmd/uploadorder", "-repo", repo, "-out", out],
                       cwd=os.path.join(verif, "harness"), env=env, stdout=subprocess.PIPE,
                       stderr=subprocess.STDOUT, text=True, timeout=900)
    names = ["extraction_clean", "order_matches", "decorators_known", "wiring_matches"]
    if p.returncode != 0:
        for n in names:
            yield ("generated:" + n, False, "extractor failed on cmd/bb_worker/main.go: " + p.stdout[-800:], None)
        return
    src = open(out).read()
    head, _, rest = src.partition("Theorem ")
    theorems = ["Theorem " + t for t in rest.split("Theorem ")]
    order = re.search(r"Definition extracted_order[^\n]*", head)
    for n, t in zip(names, theorems):
        f = os.path.join(gen, "Gen_" + n + ".v")
        open(f, "w").write(head + t)
        q = subprocess.run(["timeout", "300", "coqc", "-Q", os.path.join(verif, "coq", "theories"), "VF", f],
                           cwd=gen, stdout=subprocess.PIPE, stderr=subprocess.STDOUT, text=True)
        ok = q.returncode == 0 and ("Theorem " + n) in t
        note = (order.group(0) if order else "") if ok else (
            "generated theorem %s does not hold for %s/cmd/bb_worker/main.go: %s | %s" % (
                n, repo, (order.group(0) if order else "?"), q.stdout.strip()[-500:]))
        yield ("generated:" + n, ok, note,
               None if ok else {"generated_file": f, "theorem": n, "extracted": head[-1500:]})


CONFIG = {
    "id": "C09",
    "coq_dirs": ["theories/Upload"],
    "coq_targets": ["theories/Upload/Properties.vo", "theories/Upload/Corr.vo", "theories/Upload/Order.vo"],
    "properties_files": ["theories/Upload/Properties.v"],
    "required_theorems": ["ack_stored_or_reported", "ac_only_complete", "failure_pruned", "buffers_consumed_once", "trace_ok",
                          "unissued_put_reported", "flush_error_source", "lost_ack_not_cached"],
    "static_obligations": [order_obligations],
    "harnesses": [
        {"cmd": "upload", "cases_quick": 400, "cases_thorough": 16000, "shards_quick": 8, "shards_thorough": 32, "race": True},
    ],
    "trusted_base": [
        "hand-written model coq/theories/Upload/Model.v of batched_store_blob_access.go and the flushing / caching executors (storage call results, which Puts of a batch are issued at all -- after a failed one or on a cancelled context --, and which of several concurrent errors the errgroup reports, are oracles), tied by correspondence harness/cmd/upload",
        "extractor harness/cmd/uploadorder (go/ast) for the decorator order and storage wiring of cmd/bb_worker/main.go",
        "Go harness: fake CAS/AC (truthful FindMissing, Put consumes its buffer), fake innermost executor that attaches upload errors like local_build_executor does, Gallina printer, evaluator Upload/Corr.v",
    ],
    "manifest": {
        "level_text": "Theorems in Coq about a model of the worker's upload pipeline (batched store, storage flushing executor, caching executor composed in main.go's order) for all failure positions, batch sizes, upload lists with duplicates and action outcomes; tied to the Go code by a correspondence check on the real decorators and by a generated obligation for the decorator order.",
        "level_note": "Trusted: Coq kernel+VM, hand-written model (checked by correspondence), extractor, Go harness with fake storage. The innermost (local) executor is represented by its upload script.",
        "technique": "machine-checked proof in Coq (case analysis / induction over the upload list for all oracles) + model/implementation correspondence evaluated with vm_compute + reflexive obligation regenerated from main.go",
        "design_ref": "DESIGN.md §4 Worker / C09",
    },
    "assumptions": [
        "the innermost executor uploads every blob its result references through the batching layer and attaches upload errors to the response (this is what the fake does; local_build_executor.go / output_hierarchy.go are C10's subject)",
        "FindMissing of the CAS is truthful and a successful Put stores the blob",
        "cancellation of the caller's context is exercised at scripted points (before the action, between uploads, while a FindMissing / CAS Put is in progress, before the flush, before the final write); the fake storage returns CANCELLED for calls entered with a done context (gRPC client behaviour); a context deadline is not exercised (the model admits DEADLINE_EXCEEDED as well)",
    ],
}
