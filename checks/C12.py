CONFIG = {
    "id": "C12",
    "coq_dirs": ["theories/Idle"],
    "coq_targets": ["theories/Idle/Properties.vo", "theories/Idle/Corr.vo"],
    "properties_files": ["theories/Idle/Properties.v"],
    "required_theorems": [
        "idle_model_trace_ok", "accepted_trace_invariant", "clean_exclusive", "use_implies_cleaned",
        "clean_at_transitions", "no_start_after_failed_clean", "panic_only_without_users", "no_panic",
        "dirs_model_trace_ok", "dir_removed_on_every_path", "last_close_empties_root", "failed_get_leaves_nothing",
        "names_unique", "released_once", "existing_name_refused", "name_in_use_refused", "handed_out_fresh",
        "close_keeps_others",
    ],
    "harnesses": [
        {"cmd": "idle", "cases_quick": 400, "cases_thorough": 8000, "shards_quick": 8, "shards_thorough": 32, "race": True},
    ],
    "trusted_base": [
        "hand-written model coq/theories/Idle/Model.v of idle_invoker.go (one event = one critical section of i.lock; wakeup channels as generation numbers), tied by correspondence harness/cmd/idle",
        "Go harness: goroutine controller (parking Cleaner, parking context Done(), parking base runner), Gallina printer, case evaluator Corr.v (P on implementation traces)",
        "Go mutex/channel/select semantics; data-race freedom outside i.lock (thorough tier builds the harness with -race)",
    ],
    "manifest": {
        "level_text": "Theorems in Coq about an executable model of IdleInvoker for all interleavings of its critical sections (any number of threads, cleaner failures, cancellations) and about the directory creator stack for all failure scripts; the monitor automaton P proved of the model is evaluated on traces of the real code driven through controlled interleavings.",
        "level_note": "Trusted: Coq kernel+VM, hand-written models (checked by correspondence on generated schedules), Go harness with parking fakes. Partial: naive_build_directory on a real OS directory is not modelled.",
        "technique": "machine-checked proof in Coq (refinement of a specification monitor by the model, invariants over all event lists) + model/implementation correspondence evaluated with vm_compute",
        "design_ref": "DESIGN.md §4 Worker/C12",
    },
    "assumptions": [
        "Go runtime: mutex, channel close wakes every receiver, select; goroutine fairness is not needed for the safety theorems",
        "partial: naive_build_directory / real OS directories are exercised by nothing here; the BuildDirectory under the creators is an in-memory fake with failure injection",
    ],
}
