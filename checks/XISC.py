# Private alias used while developing the ISC area (size-class analyzers of
# C07).  The coordinator merges checks/snippets/isc.json into checks/C07.py.
CONFIG = {
    "id": "XISC",
    "coq_dirs": ["theories/ISC"],
    "coq_targets": ["theories/ISC/Properties.vo", "theories/ISC/Corr.vo"],
    "properties_files": ["theories/ISC/Properties.v"],
    "required_theorems": [],
    "harnesses": [
        {"cmd": "isc", "cases_quick": 400, "cases_thorough": 16000, "shards_quick": 8, "shards_thorough": 32},
    ],
    "violation_kinds": ["C07:isc-"],
    "trusted_base": [],
    "manifest": {},
    "assumptions": [],
}
