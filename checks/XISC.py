# Private alias: runs only the ISC area (size-class analyzers, strategy
# calculators, Outcomes) of C07.  The coordinator merges
# checks/snippets/isc.json into checks/C07.py; the values here are read from
# that snippet so the two cannot drift.
import json
import os

_snip = json.load(open(os.path.join(os.path.dirname(os.path.abspath(__file__)), "snippets", "isc.json")))

CONFIG = {
    "id": "XISC",
    "coq_dirs": _snip["coq_dirs"],
    "coq_targets": _snip["coq_targets"],
    "properties_files": _snip["properties_files"],
    "required_theorems": _snip["required_theorems"],
    "harnesses": _snip["harnesses"],
    "violation_kinds": _snip["violation_kinds"],
    "trusted_base": _snip["trusted_base"],
    "manifest": {
        "level_text": _snip["manifest_text_addition"],
        "technique": "machine-checked proof in Coq + model/implementation correspondence evaluated with vm_compute",
        "design_ref": "DESIGN.md §4 ISC",
    },
    "assumptions": _snip["assumptions"],
}
