CONFIG = {
    "id": "C10",
    "coq_dirs": ["theories/Outputs"],
    "coq_targets": ["theories/Outputs/Properties.vo", "theories/Outputs/Corr.vo"],
    "properties_files": ["theories/Outputs/Properties.v"],
    "required_theorems": ["accepted_iff_inside", "escape_rejected", "parents_exist", "tree_wellformed", "outputs_exact", "parents_frame", "model_satisfies_P"],
    "harnesses": [
        {"cmd": "outputs", "cases_quick": 400, "cases_thorough": 16000, "shards_quick": 8, "shards_thorough": 32},
    ],
    "trusted_base": [
        "hand-written model coq/theories/Outputs/Model.v of output_hierarchy.go (maps with sorted iteration -> sorted association lists), tied by correspondence harness/cmd/outputs",
        "digests: hash : blob -> D assumed injective on Directory messages (SHA-256 collision-free and proto.Marshal injective on remoteexecution.Directory); nothing is assumed across blob kinds (the empty file and the empty Directory have the same digest)",
        "modelled, not verified: bb-storage path.Resolve / UNIXFormat parser / path.Builder (transcribed as resolve / norm_target), protobuf marshalling, the UploadableDirectory implementations (in-memory stand-in in the harness)",
        "Go harness, Gallina printer, case evaluator Corr.v (P on implementation traces)",
    ],
    "manifest": {
        "level_text": "Theorems in Coq about a transcription of NewOutputHierarchy / CreateParentDirectories / UploadOutputs for all commands, input roots and produced file hierarchies (no bound on paths, depth or tree size), tied to the Go code by a differential correspondence check whose oracle is the proved model and whose monitor is the proved predicate P.",
        "level_note": "Trusted: Coq kernel+VM, hand-written model (checked by correspondence on generated commands/trees), Go harness with in-memory directory and CAS. Digest function abstract and injective per blob kind.",
        "technique": "machine-checked proof in Coq (structural induction over the output trie and the nested file tree, invariant of the post-order directory list) + model/implementation correspondence evaluated with vm_compute",
        "design_ref": "DESIGN.md §4 Worker/C10",
    },
    "assumptions": [
        "digest function injective on Directory messages, and on Tree messages (SHA-256 collision-free, protobuf serialisation injective); nothing assumed across blob kinds",
        "parents_exist: the input root has no non-directory on the way to a declared output's parent (otherwise Mkdir's EEXIST is ignored and no error is raised: Example parents_exist_unconditional_refuted)",
        "parents_frame / model_satisfies_P: the input root is a directory tree, i.e. names within each listing are distinct (names_distinct; checked by Corr.v of every recorded input root; Example frame_needs_distinct_names shows the monitor itself is meaningless otherwise)",
        "legacy Command.output_files/output_directories are ignored by this snapshot's code and by the model (the harness fills them in 30% of commands)",
        "failures of the environment (ReadDir, UploadFile, Readlink, CAS Put, Mkdir other than EEXIST) are not modelled; C09 covers storage failures",
    ],
}
