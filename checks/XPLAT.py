# Private alias: runs only the Platform area (platform.Key / platform.Trie /
# DemultiplexingActionRouter) of C05.  The coordinator merges
# checks/snippets/platform.json into checks/C05.py; the values here are read
# from that snippet so the two cannot drift.
import json
import os

_snip = json.load(open(os.path.join(os.path.dirname(os.path.abspath(__file__)), "snippets", "platform.json")))

CONFIG = {
    "id": "XPLAT",
    "coq_dirs": _snip["coq_dirs"],
    "coq_targets": _snip["coq_targets"],
    "properties_files": _snip["properties_files"],
    "required_theorems": _snip["required_theorems"],
    "harnesses": [_snip["harness"]],
    "violation_kinds": _snip["violation_kinds"],
    "trusted_base": _snip["trusted_base"],
    "manifest": {
        "level_text": _snip["manifest_text_addition"],
        "technique": "machine-checked proof in Coq + model/implementation correspondence evaluated with vm_compute",
        "design_ref": "DESIGN.md §4 Sched (C05)",
    },
    "assumptions": _snip["assumptions"],
}
