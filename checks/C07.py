# C07 — size-class selection: linear protocol, valid choices, no lost stats.
# This file currently carries the "statistics are never lost" part (mutable
# proto store).  Further harnesses / Coq directories of C07 (ISC analyzers,
# scheduler call log) are ADDED to the lists below; violation kinds of the
# store part are prefixed "C07:store-".
CONFIG = {
    "id": "C07",
    "coq_dirs": ["theories/Store"],
    "coq_targets": ["theories/Store/Properties.vo", "theories/Store/Corr.vo"],
    "properties_files": ["theories/Store/Properties.v"],
    "required_theorems": ["no_lost_update", "one_handle_per_digest", "failed_write_requeued", "returned_handle_current",
                          "monitor_accepts_model", "monitor_never_alarms", "monitor_silent_without_stale_read", "corr_accepts_model"],
    "violation_kinds": ["C07:store-"],
    "harnesses": [
        {"cmd": "store", "cases_quick": 400, "cases_thorough": 16000, "shards_quick": 8, "shards_thorough": 32, "race": True},
    ],
    "trusted_base": [
        "hand-written model coq/theories/Store/Model.v of blob_access_mutable_proto_store.go (one event = one critical section under ss.lock; messages = lists of update tokens), tied by correspondence harness/cmd/store",
        "Go harness: fake BlobAccess whose Get/Put park, quiescence detection through runtime.Stack, Gallina printer, evaluator Store/Corr.v (monitor on implementation traces)",
    ],
    "manifest": {
        "level_text": "Theorems in Coq about a transcription of blobAccessMutableProtoStore (Get / write-back queue / Release) for all interleavings of critical sections, any number of digests, handles and concurrent Get calls; tied to the Go code by a deterministic-interleaving correspondence check whose oracle is the proved model and whose monitor is the proved trace predicate.",
        "level_note": "Trusted: Coq kernel+VM, hand-written model (checked by correspondence), Go harness and goroutine controller. Write completion and its critical section are one event.",
        "technique": "machine-checked proof in Coq (state invariant over all event lists) + model/implementation correspondence evaluated with vm_compute",
        "design_ref": "DESIGN.md §4 ISC / Mutable proto store",
    },
    "assumptions": [
        "a storage call's completion and the critical section that follows it are one atomic event (the harness cannot separate them either)",
        "data-race freedom outside ss.lock; Go mutex/errgroup semantics",
        "the trace monitor (Store/Spec.v mon_step) is proved of the model at fold level (monitor_accepts_model, monitor_never_alarms; simulation Sim in Store/Monitor.v), and Corr.v's check_case accepts the model's own case file (corr_accepts_model) for event lists over the harness' digest range 0..4",
        "known finding C07:store-stale-read (read overtaken by a completed write-back) is a property of the repaired code too: returned_handle_latest_refuted",
    ],
}


# ---- merged by the coordinator: ISC analyzers (checks/snippets/isc.json) and the
# scheduler's selector/learner call protocol (shared harness "sched", kinds "C07:...")
import json as _json, os as _os, importlib.util as _ilu
_here = _os.path.dirname(_os.path.abspath(__file__))
_isc = _json.load(open(_os.path.join(_here, "snippets", "isc.json")))
_spec = _ilu.spec_from_file_location("_sched", _os.path.join(_here, "_sched.py"))
_sm = _ilu.module_from_spec(_spec); _spec.loader.exec_module(_sm)
_sched = _sm.config("C07") if "C07" in _sm.TEXT else None
CONFIG["coq_dirs"] += _isc["coq_dirs"] + ["theories/Sched"]
CONFIG["coq_targets"] += _isc["coq_targets"] + ["theories/Sched/Corr.vo", "theories/Sched/PropertiesC07s.vo"]
CONFIG["properties_files"] += _isc["properties_files"] + ["theories/Sched/PropertiesC07s.v"]
CONFIG["required_theorems"] += _isc["required_theorems"] + (_sched["required_theorems"] if _sched else [])
CONFIG["violation_kinds"] = ["C07:"]
CONFIG["harnesses"] += _isc["harnesses"] + (_sched["harnesses"] if _sched else [])
CONFIG["trusted_base"] += _isc["trusted_base"] + (_sched["trusted_base"] if _sched else [])
CONFIG["assumptions"] += _isc["assumptions"] + (_sched["assumptions"] if _sched else [])
CONFIG["manifest"]["level_text"] += " " + _isc["manifest_text_addition"] + " Scheduler part: the selector/learner call protocol (exactly one of Select/Abandoned per request, one terminal call per learner, retry once on the largest size class, background learning uncacheable and bounded) is part of the scheduler model's ghost output, proved over all event lists and monitored on the real scheduler's calls on scripted analyzers."
