CONFIG = {
    "id": "C17",
    "coq_dirs": ["theories/Cas"],
    "coq_targets": ["theories/Cas/Properties.vo", "theories/Cas/Corr.vo"],
    "properties_files": ["theories/Cas/Properties.v"],
    "required_theorems": [
        "cas_leaf_immutable",
        "cas_leaf_open_child_refused",
        "cas_leaf_contents_stable",
    ],
    "harnesses": [
        {"cmd": "cas", "cases_quick": 300, "cases_thorough": 6000, "shards_quick": 8, "shards_thorough": 32},
    ],
    "violation_kinds": ["C17:"],
    "trusted_base": [
        "hand-written model coq/theories/Cas/Model.v of cas_initial_contents_fetcher.go, blob_access_cas_file_factory.go, the lazy initialContents handling of in_memory_prepopulated_directory.go and MergeDirectoryContents (heap of directory/leaf objects in allocation order, single-threaded histories), tied by correspondence harness/cmd/cas",
        "hand-written model coq/theories/Cas/Cache.v of caching_directory_fetcher.go over the LRU eviction set; Digest.GetKey modelled as the tuple of the fields it prints",
        "harness fakes: DirectoryFetcher (digest -> Directory map, error script, call log), BlobAccess (contents by digest, Put recorded), handle allocator (numbers directory objects, wraps leaves in link counting leaves), local file allocator",
        "Go harness, Gallina printer, case evaluator Corr.v (P on implementation traces)",
    ],
    "manifest": {
        "level_text": "Theorems in Coq about a transcription of the lazily populated, CAS backed input root (validation in fetchContentsUnwrapped, getContents and every directory operation that calls it, CAS backed files, MergeDirectoryContents, cachingDirectoryFetcher) for all Directory maps, all operation sequences and all storage-error scripts; tied to the Go code by a differential correspondence check whose oracle is the proved model and whose monitor is the proved predicate P.",
        "level_note": "Trusted: Coq kernel+VM, hand-written models (checked by correspondence on generated histories), Go harness and fakes. Digest key strings are modelled as field tuples; SHA/MD5 collision freedom and the hash check of the real BlobAccess based DirectoryFetcher are outside the model.",
        "technique": "machine-checked proof in Coq (heap invariant over all histories, denotation of digests as trees) + model/implementation correspondence evaluated with vm_compute",
        "design_ref": "DESIGN.md §4 Dir — C13 and C17 (C17 paragraph)",
    },
    "assumptions": [
        "single-threaded histories (lock order is C14)",
        "hidden-files matcher matches nothing and the normaliser is case sensitive (C13 covers both)",
        "path.NewComponent's NUL check is transcribed but not exercised (a NUL byte cannot be written in a Gallina string literal by the printer)",
    ],
}
