CONFIG = {
    "id": "C20",
    "coq_dirs": ["theories/LockSet"],
    "coq_targets": ["theories/LockSet/Properties.vo", "theories/LockSet/Corr.vo"],
    "properties_files": ["theories/LockSet/Properties.v"],
    "required_theorems": [],
    "harnesses": [
        {"cmd": "lockset", "cases_quick": 400, "cases_thorough": 16000, "shards_quick": 8, "shards_thorough": 32},
    ],
    "trusted_base": [
        "hand-written model coq/theories/LockSet/Model.v of byte_range_lock_set.go (linked list -> list, panics -> flag), tied by correspondence harness/cmd/lockset",
        "verif hook ByteRangeLockSet.VerifEntries (read-only list dump)",
        "Go harness, Gallina printer, case evaluator Corr.v (P on implementation traces)",
    ],
    "assumptions": ["uint64 offsets modelled as N (only comparisons, no arithmetic in Set/Test)"],
}
