CONFIG = {
    "id": "C20",
    "coq_dirs": ["theories/LockSet", "theories/Nfs41"],
    "coq_targets": ["theories/LockSet/Properties.vo", "theories/LockSet/Corr.vo", "theories/Nfs41/PropertiesC20.vo", "theories/Nfs41/Corr.vo"],
    "properties_files": ["theories/LockSet/Properties.v", "theories/Nfs41/PropertiesC20.v"],
    "violation_kinds": ["C20:", "bytes", "delta", "denied-", "empty-range", "exclusion", "granted-", "inval-", "lock-outcome", "nfs-outcome", "not-a-table-op", "set-outcome", "test-", "valid-range", "wf"],
    "required_theorems": [
        "test_reports_real_conflict",
        "round_granted_never_conflict",
        "round_first_granted",
        "round_denied_has_cause",
        "test_misses_no_conflict",
        "test_iff_no_conflict",
        "test_iff_denied",
        "own_locks_never_conflict",
        "lockt_iff_lock",
        "lockt_ok_iff_lock_granted",
        "wf_preserved",
        "set_never_panics",
        "set_refines_bytes",
        "unlock_releases_exactly",
        "lock_grants_exactly",
        "delta_is_length_change",
        "compatible_iff_excl_bytes",
        "set_preserves_exclusion",
        "wf_all_histories",
        "exclusion",
        "exclusion_per_byte",
        "monitor_holds_on_model",
        "monitor_refuted_on_empty_range",
        "offset_length_exact",
        "offset_length_range",
        "offset_length_nonempty_partial",
        "offset_length_nonempty_refuted",
    ],
    "harnesses": [
        {"cmd": "lockset", "cases_quick": 400, "cases_thorough": 4800, "shards_quick": 8, "shards_thorough": 32},
        # the lock table as driven by the NFSv4.1 program (LOCK/LOCKT/LOCKU/CLOSE/FREE_STATEID/expiry): kinds "C20:..."
        {"cmd": "nfs41", "shared": True, "coq_dirs": ["theories/Nfs41"], "cases_quick": 200, "cases_thorough": 2000, "shards_quick": 8, "shards_thorough": 32},
    ],
    "trusted_base": [
        "hand-written model coq/theories/LockSet/Model.v of byte_range_lock_set.go (linked list -> list, panics -> flag), tied by correspondence harness/cmd/lockset",
        "verif hooks ByteRangeLockSet.VerifEntries, OpenedFile.VerifLocks (read-only list dumps)",
        "Go harness, Gallina printer, case evaluator Corr.v (P on implementation traces)",
    ],
    "manifest": {
        "level_text": "Theorems in Coq about a transcription of ByteRangeLockSet.Set/Test for all lock tables and requests (no bound on entries, owners or offsets), tied to the Go code by a differential correspondence check whose oracle is the proved model and whose monitor is the proved predicate P.",
        "level_note": "Trusted: Coq kernel+VM, hand-written model (checked by correspondence on generated histories), Go harness and verif dump hook. uint64 as N.",
        "technique": "machine-checked proof in Coq (induction over the list walks of Set/Test, invariant over all histories) + model/implementation correspondence evaluated with vm_compute",
        "design_ref": "DESIGN.md §4 NFS/C20",
    },
    "assumptions": [
        "uint64 offsets modelled as N (only comparisons, no arithmetic in Set/Test; offsetLengthToStartEnd under off, len <= 2^64-1)",
        "history theorems carry valid_ops: ranges non-empty, which offsetLengthToStartEnd guarantees for every uint64 pair except offset = length = 2^64-1 (known finding empty-range-accepted; model witness monitor_refuted_on_empty_range)",
    ],
}


# ---- merged by the coordinator: NFSv4.0 area (checks/snippets/nfs40.json)
import json as _json40, os as _os40
_n40 = _json40.load(open(_os40.path.join(_os40.path.dirname(_os40.path.abspath(__file__)), "snippets", "nfs40.json")))
CONFIG["coq_dirs"] = CONFIG["coq_dirs"] + [d for d in _n40["coq_dirs"] if d not in CONFIG["coq_dirs"]]
CONFIG["coq_targets"] = CONFIG["coq_targets"] + ["theories/Nfs40/PropertiesC20.vo", "theories/Nfs40/Examples.vo", "theories/Nfs40/Corr.vo"]
CONFIG["properties_files"] = CONFIG["properties_files"] + ["theories/Nfs40/PropertiesC20.v"]
CONFIG["harnesses"] = CONFIG["harnesses"] + [dict(_n40["harness"], shared=True, coq_dirs=["theories/Nfs40"])]
CONFIG["trusted_base"] = CONFIG.get("trusted_base", []) + (_n40["trusted_base"] if isinstance(_n40["trusted_base"], list) else [_n40["trusted_base"]])
CONFIG["assumptions"] = CONFIG.get("assumptions", []) + (_n40["assumptions"] if isinstance(_n40["assumptions"], list) else [_n40["assumptions"]])

# ---- merged by the coordinator: second proof pass of Nfs41 (docs/areas/Nfs41-proofs2.md)
CONFIG["coq_targets"] = CONFIG["coq_targets"] + ['theories/Nfs41/Properties2C20.vo']
CONFIG["properties_files"] = CONFIG["properties_files"] + ['theories/Nfs41/Properties2C20.v']
CONFIG["required_theorems"] = CONFIG.get("required_theorems", []) + ['one_owner_one_object', 'lock_owner_object_stable', 'nfs_lock_tables_exclusive', 'lockcount_exact', 'lockcount_never_panics', 'no_panic', 'close_releases_exactly', 'remove_releases_exactly', 'expiry_releases_exactly', 'free_stateid_releases_nothing', 'locku_releases_exactly', 'locku_other_tables', 'shared_lock_owner_refutes']
CONFIG["assumptions"] = CONFIG.get("assumptions", []) + ['the NFSv4.1 lockCount and no-panic theorems assume uint64 (offset, length) other than (2^64-1, 2^64-1) and no lock-owner holding lock state on one file through two open-owners (known finding C20:shared-lock-owner)']

# ---- appended by the Locks area (C14): generated atomicity obligation repo_atomic_sections
# (translator/summaries.json atomic/sections: OpenedFile.Lock tests and sets the byte-range lock table
# under one exclusive hold of of.locksLock, ...; coq/theories/Locks/Checker.v atomic_section_sound).
# C20's exclusion rests on it; the sequential harnesses cannot see a broken section.
import importlib.util as _ilu14, os as _os14
_spec14 = _ilu14.spec_from_file_location("check_C14_for_C20", _os14.path.join(_os14.path.dirname(_os14.path.abspath(__file__)), "C14.py"))
_c14 = _ilu14.module_from_spec(_spec14)
_spec14.loader.exec_module(_c14)
CONFIG["static_obligations"] = CONFIG.get("static_obligations", []) + [_c14.static_atomic]
CONFIG["coq_targets"] = CONFIG["coq_targets"] + [t for t in ["theories/Locks/Checker.vo", "theories/Locks/Order.vo"] if t not in CONFIG["coq_targets"]]
CONFIG["trusted_base"] = CONFIG.get("trusted_base", []) + ["repo_atomic_sections: translator /verif/translator (call events and lock operations of the functions listed in translator/summaries.json atomic/sections; every other call site of ByteRangeLockSet.Set/Test stops it) and the path semantics Locks/Checker.exec (see checks/C14.py)"]
