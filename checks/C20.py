CONFIG = {
    "id": "C20",
    "coq_dirs": ["theories/LockSet"],
    "coq_targets": ["theories/LockSet/Properties.vo", "theories/LockSet/Corr.vo"],
    "properties_files": ["theories/LockSet/Properties.v"],
    "required_theorems": [],
    "harnesses": [
        {"cmd": "lockset", "cases_quick": 400, "cases_thorough": 16000, "shards_quick": 8, "shards_thorough": 32},
    ],
    "trusted_base": [
        "hand-written model coq/theories/LockSet/Model.v of byte_range_lock_set.go (linked list -> list, panics -> flag), tied by correspondence harness/cmd/lockset",
        "verif hook ByteRangeLockSet.VerifEntries (read-only list dump)",
        "Go harness, Gallina printer, case evaluator Corr.v (P on implementation traces)",
    ],
    "manifest": {
        "level_text": "Theorems in Coq about a transcription of ByteRangeLockSet.Set/Test for all lock tables and requests (no bound on entries, owners or offsets), tied to the Go code by a differential correspondence check whose oracle is the proved model and whose monitor is the proved predicate P.",
        "level_note": "Trusted: Coq kernel+VM, hand-written model (checked by correspondence on generated histories), Go harness and verif dump hook. uint64 as N.",
        "technique": "machine-checked proof in Coq (induction over the list walks of Set/Test, invariant over all histories) + model/implementation correspondence evaluated with vm_compute",
        "design_ref": "DESIGN.md §4 NFS/C20",
    },
    "assumptions": ["uint64 offsets modelled as N (only comparisons, no arithmetic in Set/Test)"],
}
