CONFIG = {
    "id": "C16",
    "coq_dirs": ["theories/File"],
    "coq_targets": ["theories/File/Properties.vo", "theories/File/Corr.vo"],
    "properties_files": ["theories/File/Properties.v"],
    "required_theorems": ["trace_ok_all", "refcount_exact", "closed_exactly_once_at_zero", "no_use_after_release", "frozen_implies_referenced", "frozen_content_stable", "upload_digest_matches", "cache_invalidated", "wake_enabled"],
    "harnesses": [
        {"cmd": "file", "cases_quick": 320, "cases_thorough": 8000, "shards_quick": 8, "shards_thorough": 32, "race": True, "shared": True, "coq_dirs": ["theories/File"]},
    ],
    "trusted_base": [
        "hand-written model coq/theories/File/Model.v of pool_backed_file_allocator.go (fileBackedFile, frozenFileBackedFile, uploadFile, getBazelOutputServiceStat) and of the Link/Unlink/link-count layer of fuse_handle_allocator.go / nfs_handle_allocator.go; one model event = one critical section under f.lock; tied to the code by the correspondence harness harness/cmd/file",
        "digests are modelled by the hashed byte list (injective hash): SHA-256 / MD5 collision freedom",
        "Go harness: goroutine controller (parked-ness read from runtime.Stack), instrumented in-memory FilePool/NamedAttributes, fake CAS whose Put is stepped by the harness, Gallina printer, case evaluator Corr.v (P on implementation traces)",
        "Go runtime: sync.RWMutex, channels, select; data-race freedom outside f.lock (thorough tier builds the harness with -race)",
    ],
    "manifest": {
        "level_text": "Theorems in Coq about an executable model of the pool-backed file (reference count, writers, frozen readers, size, bytes, cached digest, change ID, pool-file Close, sleepers) behind the FUSE/NFS/bare link layer, for every sequence of critical sections (= every interleaving of open/close/link/unlink/read/write/truncate/allocate/setattr/seek/upload/frozen-read/stat and their wake-ups), tied to the Go code by a differential correspondence check whose oracle is the proved model and whose monitor is the proved predicate P.",
        "level_note": "Trusted: Coq kernel+VM, hand-written model (checked by correspondence on generated histories incl. uploads racing writers and stale-leaf calls), Go harness with goroutine controller and fakes, SHA-256/MD5 collision freedom. Partial: liveness is enabledness only (a sleeper whose condition holds has its channel closed); sections of uploadFile between freeze and Put cannot be interleaved by the harness (proved for all interleavings, exercised consecutively).",
        "technique": "machine-checked proof in Coq (inductive invariant over all event sequences, trace predicate proved for all traces) + model/implementation correspondence evaluated with vm_compute",
        "design_ref": "DESIGN.md §4 File — C16, §6 F9",
    },
    "assumptions": [
        "share masks are never empty (type mask has no 0); callers close only masks they hold, unlink only existing links, use frozen handles only until Close (caller contract, encoded as enabledness of events)",
        "offsets/sizes are N (no uint64 wrap-around in off+len, no int64 cast overflow): harness inputs < 2^7, stated bound < 2^63",
        "hashing read of updateCachedDigest is one ReadAt (files <= 32 KiB in the harness); model reads [0,size) in one section",
        "liveness partial: proved = every parked call whose wake-up condition holds has had its channel closed (wake event enabled) and its step makes progress; not proved = the Go scheduler runs it, timers fire",
        "harness parks at most two mutators (kinds whose wake-up order is visible in the pool file call log) and one upload per wake-up channel (the order in which goroutines woken by one close() re-acquire f.lock is observed, not controlled); the theorems cover any number of sleepers",
    ],
}
