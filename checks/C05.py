import importlib.util, os
_spec = importlib.util.spec_from_file_location("_sched", os.path.join(os.path.dirname(os.path.abspath(__file__)), "_sched.py"))
_m = importlib.util.module_from_spec(_spec); _spec.loader.exec_module(_m)
CONFIG = _m.config("C05")

# ---- merged by the coordinator: Platform area (platform.NewKey, platform.Trie, DemultiplexingActionRouter)
import json as _jsonp, os as _osp
_pl = _jsonp.load(open(_osp.path.join(_osp.path.dirname(_osp.path.abspath(__file__)), "snippets", "platform.json")))
CONFIG["coq_dirs"] = CONFIG["coq_dirs"] + _pl["coq_dirs"]
CONFIG["coq_targets"] = CONFIG["coq_targets"] + _pl["coq_targets"]
CONFIG["properties_files"] = CONFIG["properties_files"] + _pl["properties_files"]
CONFIG["required_theorems"] = CONFIG["required_theorems"] + list(_pl["required_theorems"])
CONFIG["harnesses"] = CONFIG["harnesses"] + [_pl["harness"]]
for _k in ("trusted_base", "assumptions"):
    _v = _pl.get(_k, [])
    CONFIG[_k] = CONFIG.get(_k, []) + (_v if isinstance(_v, list) else [_v])
