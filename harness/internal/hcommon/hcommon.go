// Package hcommon is the shared driver of every correspondence harness.
//
//	<cmd> gen    -seed S -cases N -shards K -out DIR [-thorough]
//	<cmd> replay -in FILE.json -out DIR
//
// "gen" generates N histories from the seed, runs each on the real
// implementation, and writes DIR/cases_<k>.v (Gallina case terms with the
// observed outputs, evaluated by coqc), DIR/cases_<k>.json (the histories
// themselves, for replay/minimisation) and DIR/meta.json (distribution of
// what was generated and observed).  "replay" does the same for histories
// read from a file (a JSON list of history objects, each with an "ops"
// list).
package hcommon

import (
	"crypto/sha256"
	"encoding/hex"
	"encoding/json"
	"flag"
	"fmt"
	"os"
	"path/filepath"
	"runtime/coverage"
	"sort"
	"strings"

	"verif/harness/internal/gallina"
	"verif/harness/internal/rng"
)

// Info describes one executed history.
type Info struct {
	Events     int            // number of operations / events run
	Ops        map[string]int // histogram of operation kinds
	Outs       map[string]int // histogram of outcome kinds (incl. error kinds)
	Nontrivial bool           // by the area's stated rule
	Extra      map[string]int // area specific maxima / counters
}

func NewInfo() *Info {
	return &Info{Ops: map[string]int{}, Outs: map[string]int{}, Extra: map[string]int{}}
}

// Area is implemented by each harness command.
type Area interface {
	Requires() string // Coq Require line(s)
	Check() string    // name of the Coq function case -> verdict
	Rule() string     // how histories are generated and what non-trivial means
	// Generate one history (a JSON object with an "ops" list).
	Generate(r *rng.R, thorough bool, index int) json.RawMessage
	// Execute a history on the implementation; return the Gallina case term.
	Execute(history json.RawMessage) (string, *Info, error)
}

type metaOut struct {
	Cases      int               `json:"cases"`
	Events     int               `json:"events"`
	Nontrivial int               `json:"distinct_nontrivial"`
	Ops        map[string]int    `json:"op_histogram"`
	Outs       map[string]int    `json:"outcome_histogram"`
	Extra      map[string]int    `json:"extra_max"`
	Rule       string            `json:"rule"`
	Samples    []json.RawMessage `json:"samples"`
	Shards     []string          `json:"shards"`
	Seed       uint64            `json:"seed"`
	ExecErrors []string          `json:"exec_errors"`
	Skipped    int               `json:"skipped"`
}

func addHist(dst, src map[string]int) {
	for k, v := range src {
		dst[k] += v
	}
}

func Main(a Area) {
	if len(os.Args) < 2 {
		fmt.Fprintln(os.Stderr, "usage: gen|replay ...")
		os.Exit(2)
	}
	mode := os.Args[1]
	fs := flag.NewFlagSet(mode, flag.ExitOnError)
	seed := fs.Uint64("seed", 1, "PRNG seed")
	ncases := fs.Int("cases", 100, "number of histories")
	shards := fs.Int("shards", 1, "number of case files")
	out := fs.String("out", ".", "output directory")
	in := fs.String("in", "", "history file for replay")
	thorough := fs.Bool("thorough", false, "longer histories")
	fs.Parse(os.Args[2:])
	if err := os.MkdirAll(*out, 0o755); err != nil {
		panic(err)
	}

	var histories []json.RawMessage
	switch mode {
	case "gen":
		root := rng.New(*seed)
		for i := 0; i < *ncases; i++ {
			r, _ := root.Split()
			histories = append(histories, a.Generate(r, *thorough, i))
		}
	case "replay":
		data, err := os.ReadFile(*in)
		if err != nil {
			panic(err)
		}
		if err := json.Unmarshal(data, &histories); err != nil {
			panic(err)
		}
		if *shards > len(histories) {
			*shards = 1
		}
	default:
		fmt.Fprintln(os.Stderr, "unknown mode", mode)
		os.Exit(2)
	}
	if *shards < 1 {
		*shards = 1
	}

	meta := metaOut{Ops: map[string]int{}, Outs: map[string]int{}, Extra: map[string]int{}, Rule: a.Rule(), Seed: *seed}
	seen := map[string]bool{}
	terms := make([][]string, *shards)
	hists := make([][]json.RawMessage, *shards)
	for i, h := range histories {
		term, info, err := a.Execute(h)
		if err != nil {
			if strings.HasPrefix(err.Error(), "SKIP:") {
				// the history is outside what the model determines (e.g. an
				// exact timestamp tie); counted, not an error
				meta.Skipped++
				continue
			}
			meta.ExecErrors = append(meta.ExecErrors, fmt.Sprintf("case %d: %v", i, err))
			continue
		}
		k := i % *shards
		terms[k] = append(terms[k], term)
		hists[k] = append(hists[k], h)
		meta.Cases++
		meta.Events += info.Events
		addHist(meta.Ops, info.Ops)
		addHist(meta.Outs, info.Outs)
		for key, v := range info.Extra {
			if v > meta.Extra[key] {
				meta.Extra[key] = v
			}
		}
		sum := sha256.Sum256([]byte(term))
		fp := hex.EncodeToString(sum[:8])
		if info.Nontrivial && !seen[fp] {
			seen[fp] = true
			meta.Nontrivial++
		}
		if len(meta.Samples) < 2 {
			meta.Samples = append(meta.Samples, h)
		}
	}
	for k := 0; k < *shards; k++ {
		base := fmt.Sprintf("cases_%d", k)
		if err := gallina.WriteCases(filepath.Join(*out, base+".v"), a.Requires(), a.Check(), terms[k]); err != nil {
			panic(err)
		}
		data, _ := json.Marshal(hists[k])
		if err := os.WriteFile(filepath.Join(*out, base+".json"), data, 0o644); err != nil {
			panic(err)
		}
		meta.Shards = append(meta.Shards, base)
	}
	sort.Strings(meta.ExecErrors)
	data, _ := json.MarshalIndent(meta, "", " ")
	if err := os.WriteFile(filepath.Join(*out, "meta.json"), data, 0o644); err != nil {
		panic(err)
	}
	// binaries built with -cover: flush coverage explicitly (harnesses may
	// leave parked goroutines behind, the exit hook is not relied upon)
	if dir := os.Getenv("GOCOVERDIR"); dir != "" {
		if err := coverage.WriteMetaDir(dir); err != nil {
			fmt.Fprintln(os.Stderr, "coverage meta:", err)
		}
		if err := coverage.WriteCountersDir(dir); err != nil {
			fmt.Fprintln(os.Stderr, "coverage counters:", err)
		}
	}
}
