// Package gallina prints Go values as Gallina terms and writes the case
// files evaluated by coqc.
package gallina

import (
	"fmt"
	"os"
	"strings"
)

func N(v uint64) string  { return fmt.Sprintf("%d%%N", v) }
func Z(v int64) string {
	if v < 0 {
		return fmt.Sprintf("(%d)%%Z", v)
	}
	return fmt.Sprintf("%d%%Z", v)
}
func Nat(v int) string   { return fmt.Sprintf("%d%%nat", v) }
func Bool(b bool) string {
	if b {
		return "true"
	}
	return "false"
}
func Str(s string) string {
	return "\"" + strings.ReplaceAll(s, "\"", "\"\"") + "\"%string"
}
func List(items []string) string {
	if len(items) == 0 {
		return "[]"
	}
	return "[" + strings.Join(items, "; ") + "]"
}
func Option(s *string) string {
	if s == nil {
		return "None"
	}
	return "(Some " + *s + ")"
}
func Some(s string) string { return "(Some " + s + ")" }
func App(f string, args ...string) string {
	return "(" + f + " " + strings.Join(args, " ") + ")"
}

// WriteCases writes a case file: each case term is bound to c<i>, evaluated
// with vm_compute through check (a function case -> verdict) and printed
// on one line as r<i>.
func WriteCases(path, requires, check string, cases []string) error {
	var b strings.Builder
	b.WriteString(requires)
	b.WriteString("\nSet Printing Width 100000.\nSet Printing Depth 100000.\n")
	for i, c := range cases {
		fmt.Fprintf(&b, "Definition c%d := %s.\n", i, c)
		fmt.Fprintf(&b, "Definition r%d := Eval vm_compute in %s c%d.\nPrint r%d.\n", i, check, i, i)
	}
	return os.WriteFile(path, []byte(b.String()), 0o644)
}
