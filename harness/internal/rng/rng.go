// Package rng provides the single deterministic PRNG (splitmix64) all
// harness generators derive their choices from.
package rng

type R struct{ s uint64 }

func New(seed uint64) *R { return &R{s: seed} }

func (r *R) U64() uint64 {
	r.s += 0x9e3779b97f4a7c15
	z := r.s
	z = (z ^ (z >> 30)) * 0xbf58476d1ce4e5b9
	z = (z ^ (z >> 27)) * 0x94d049bb133111eb
	return z ^ (z >> 31)
}

// Intn returns a value in [0,n).
func (r *R) Intn(n int) int {
	if n <= 0 {
		return 0
	}
	return int(r.U64() % uint64(n))
}

// Chance returns true with probability pct/100.
func (r *R) Chance(pct int) bool { return r.Intn(100) < pct }

// Split derives an independent generator (sub-seed) for one case.
func (r *R) Split() (*R, uint64) {
	s := r.U64()
	return New(s), s
}
