// Package uploadorder extracts the BuildExecutor decorator chain of
// cmd/bb_worker/main.go (go/ast).  Used by cmd/uploadorder (generated Coq
// obligation) and by cmd/upload (which composes the real decorators in the
// extracted order, so that a wrong order shows up as a concrete history).
package uploadorder

import (
	"go/ast"
	"go/parser"
	"go/token"
	"path/filepath"
	"strings"
)

type ChainEntry struct {
	Name string   // "Local", "StorageFlushing", ...
	Args []string // root identifiers of the remaining arguments ("" if not a plain identifier)
}

type Extractor struct {
	roots  map[string]string // variable -> the variable it wraps (through New*BlobAccess(x, ...) decorators)
	Chain  []ChainEntry
	Chains int // number of complete assignments to buildExecutor seen
	// NewBatchedStoreBlobAccess(base, ...) results
	BatchedWriter, BatchedFlusher, BatchedBase string
	Problems                                   []string
}

func selName(e ast.Expr) (pkg, name string) {
	if s, ok := e.(*ast.SelectorExpr); ok {
		if x, ok := s.X.(*ast.Ident); ok {
			return x.Name, s.Sel.Name
		}
	}
	return "", ""
}

func (x *Extractor) root(v string) string {
	for i := 0; i < 32; i++ {
		r, ok := x.roots[v]
		if !ok || r == v {
			return v
		}
		v = r
	}
	return v
}

// rootOf gives the variable an expression denotes, looking through
// decorator constructors whose first argument is the decorated object.
func (x *Extractor) rootOf(e ast.Expr) string {
	switch e := e.(type) {
	case *ast.Ident:
		return x.root(e.Name)
	case *ast.CallExpr:
		if _, name := selName(e.Fun); strings.HasPrefix(name, "New") && len(e.Args) > 0 {
			return x.rootOf(e.Args[0])
		}
	}
	return ""
}

func decoratorName(name string) (string, bool) {
	if strings.HasPrefix(name, "New") && strings.HasSuffix(name, "BuildExecutor") {
		return strings.TrimSuffix(strings.TrimPrefix(name, "New"), "BuildExecutor"), true
	}
	return "", false
}

// evalExecutor turns an expression of type BuildExecutor into a chain.
func (x *Extractor) evalExecutor(e ast.Expr) ([]ChainEntry, bool) {
	switch e := e.(type) {
	case *ast.Ident:
		if e.Name == "buildExecutor" {
			return append([]ChainEntry(nil), x.Chain...), true
		}
	case *ast.CallExpr:
		pkg, name := selName(e.Fun)
		d, ok := decoratorName(name)
		if pkg != "builder" || !ok {
			return nil, false
		}
		if d == "Local" {
			var args []string
			for _, a := range e.Args {
				args = append(args, x.rootOf(a))
			}
			return []ChainEntry{{Name: d, Args: args}}, true
		}
		if len(e.Args) == 0 {
			return nil, false
		}
		inner, ok := x.evalExecutor(e.Args[0])
		if !ok {
			return nil, false
		}
		var args []string
		for _, a := range e.Args[1:] {
			args = append(args, x.rootOf(a))
		}
		return append(inner, ChainEntry{Name: d, Args: args}), true
	}
	return nil, false
}

func (x *Extractor) assign(s *ast.AssignStmt) {
	// writer, flusher := re_blobstore.NewBatchedStoreBlobAccess(base, ...)
	if len(s.Rhs) == 1 {
		if call, ok := s.Rhs[0].(*ast.CallExpr); ok {
			if _, name := selName(call.Fun); name == "NewBatchedStoreBlobAccess" && len(s.Lhs) == 2 && len(call.Args) > 0 {
				w, ok1 := s.Lhs[0].(*ast.Ident)
				f, ok2 := s.Lhs[1].(*ast.Ident)
				if ok1 && ok2 {
					x.BatchedWriter, x.BatchedFlusher, x.BatchedBase = w.Name, f.Name, x.rootOf(call.Args[0])
					x.roots[w.Name] = w.Name
					return
				}
			}
		}
	}
	if len(s.Lhs) != 1 || len(s.Rhs) != 1 {
		return
	}
	lhs, ok := s.Lhs[0].(*ast.Ident)
	if !ok {
		return
	}
	if lhs.Name == "buildExecutor" {
		c, ok := x.evalExecutor(s.Rhs[0])
		if !ok {
			x.Problems = append(x.Problems, "assignment to buildExecutor that is not a chain of builder.New*BuildExecutor calls")
			return
		}
		x.Chain = c
		x.Chains++
		return
	}
	// v = somepkg.NewXxx(v', ...): v decorates v'
	if call, ok := s.Rhs[0].(*ast.CallExpr); ok {
		if _, name := selName(call.Fun); strings.HasPrefix(name, "New") && strings.HasSuffix(name, "BlobAccess") && len(call.Args) > 0 {
			if r := x.rootOf(call.Args[0]); r != "" && r != lhs.Name {
				x.roots[lhs.Name] = r
			}
		}
	}
}

// Extract parses cmd/bb_worker/main.go below repo.
func Extract(repo string) (*Extractor, string, error) {
	path := filepath.Join(repo, "cmd", "bb_worker", "main.go")
	fset := token.NewFileSet()
	file, err := parser.ParseFile(fset, path, nil, 0)
	if err != nil {
		return nil, path, err
	}
	x := &Extractor{roots: map[string]string{}}
	ast.Inspect(file, func(n ast.Node) bool {
		if s, ok := n.(*ast.AssignStmt); ok {
			x.assign(s)
		}
		return true
	})
	if x.Chains == 0 {
		x.Problems = append(x.Problems, "no assignment to buildExecutor found")
	}
	if x.BatchedWriter == "" {
		x.Problems = append(x.Problems, "no call of NewBatchedStoreBlobAccess found")
	}
	return x, path, nil
}

// CachingInsideFlushing reports whether the caching executor is wrapped by
// (runs before the flush of) the storage flushing executor.
func (x *Extractor) CachingInsideFlushing() bool {
	ci, fi := -1, -1
	for i, c := range x.Chain {
		switch c.Name {
		case "Caching":
			ci = i
		case "StorageFlushing":
			fi = i
		}
	}
	return ci >= 0 && fi >= 0 && ci < fi
}
