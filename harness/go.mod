module verif/harness

go 1.26.6

replace github.com/buildbarn/bb-remote-execution => /repo

replace go.uber.org/mock => go.uber.org/mock v0.4.0

replace cel.dev/expr => cel.dev/expr v0.25.1

require (
	cloud.google.com/go/longrunning v1.0.0
	github.com/bazelbuild/remote-apis v0.0.0-20260331222004-becdd8f9ff81
	github.com/buildbarn/bb-remote-execution v0.0.0-00010101000000-000000000000
	github.com/buildbarn/bb-storage v0.0.0-20260805174928-33530b6bb903
	github.com/buildbarn/go-xdr v0.0.0-20240702182809-236788cf9e89
	github.com/google/uuid v1.6.0
	github.com/hanwen/go-fuse/v2 v2.10.1
	golang.org/x/sync v0.20.0
	google.golang.org/genproto/googleapis/rpc v0.0.0-20260526163538-3dc84a4a5aaa
	google.golang.org/grpc v1.81.1
	google.golang.org/protobuf v1.36.12-0.20260120151049-f2248ac996af
)

require (
	cel.dev/expr v0.25.2 // indirect
	cloud.google.com/go v0.123.0 // indirect
	cloud.google.com/go/auth v0.20.0 // indirect
	cloud.google.com/go/auth/oauth2adapt v0.2.8 // indirect
	cloud.google.com/go/compute/metadata v0.9.0 // indirect
	cloud.google.com/go/iam v1.11.0 // indirect
	cloud.google.com/go/monitoring v1.29.0 // indirect
	cloud.google.com/go/storage v1.62.2 // indirect
	github.com/GoogleCloudPlatform/opentelemetry-operations-go/detectors/gcp v1.32.0 // indirect
	github.com/GoogleCloudPlatform/opentelemetry-operations-go/exporter/metric v0.56.0 // indirect
	github.com/GoogleCloudPlatform/opentelemetry-operations-go/internal/resourcemapping v0.56.0 // indirect
	github.com/aws/aws-sdk-go-v2 v1.41.7 // indirect
	github.com/aws/aws-sdk-go-v2/aws/protocol/eventstream v1.7.10 // indirect
	github.com/aws/aws-sdk-go-v2/config v1.32.18 // indirect
	github.com/aws/aws-sdk-go-v2/credentials v1.19.17 // indirect
	github.com/aws/aws-sdk-go-v2/feature/ec2/imds v1.18.23 // indirect
	github.com/aws/aws-sdk-go-v2/internal/configsources v1.4.23 // indirect
	github.com/aws/aws-sdk-go-v2/internal/endpoints/v2 v2.7.23 // indirect
	github.com/aws/aws-sdk-go-v2/internal/v4a v1.4.24 // indirect
	github.com/aws/aws-sdk-go-v2/service/internal/accept-encoding v1.13.9 // indirect
	github.com/aws/aws-sdk-go-v2/service/internal/checksum v1.9.15 // indirect
	github.com/aws/aws-sdk-go-v2/service/internal/presigned-url v1.13.23 // indirect
	github.com/aws/aws-sdk-go-v2/service/internal/s3shared v1.19.23 // indirect
	github.com/aws/aws-sdk-go-v2/service/s3 v1.101.0 // indirect
	github.com/aws/aws-sdk-go-v2/service/signin v1.0.11 // indirect
	github.com/aws/aws-sdk-go-v2/service/sso v1.30.17 // indirect
	github.com/aws/aws-sdk-go-v2/service/ssooidc v1.36.0 // indirect
	github.com/aws/aws-sdk-go-v2/service/sts v1.42.1 // indirect
	github.com/aws/smithy-go v1.25.1 // indirect
	github.com/beorn7/perks v1.0.1 // indirect
	github.com/buildbarn/go-sha256tree v0.0.0-20250310211320-0f70f20e855b // indirect
	github.com/cespare/xxhash/v2 v2.3.0 // indirect
	github.com/cncf/xds/go v0.0.0-20260202195803-dba9d589def2 // indirect
	github.com/envoyproxy/go-control-plane/envoy v1.37.0 // indirect
	github.com/envoyproxy/protoc-gen-validate v1.3.3 // indirect
	github.com/felixge/httpsnoop v1.0.4 // indirect
	github.com/go-jose/go-jose/v3 v3.0.5 // indirect
	github.com/go-jose/go-jose/v4 v4.1.4 // indirect
	github.com/go-logr/logr v1.4.3 // indirect
	github.com/go-logr/stdr v1.2.2 // indirect
	github.com/golang/protobuf v1.5.4 // indirect
	github.com/google/go-jsonnet v0.22.0 // indirect
	github.com/google/s2a-go v0.1.9 // indirect
	github.com/googleapis/enterprise-certificate-proxy v0.3.16 // indirect
	github.com/googleapis/gax-go/v2 v2.22.0 // indirect
	github.com/grpc-ecosystem/go-grpc-middleware v1.4.0 // indirect
	github.com/grpc-ecosystem/go-grpc-prometheus v1.2.0 // indirect
	github.com/grpc-ecosystem/grpc-gateway/v2 v2.29.0 // indirect
	github.com/jhump/protoreflect/v2 v2.0.0-beta.2 // indirect
	github.com/jmespath/go-jmespath v0.4.0 // indirect
	github.com/kballard/go-shellquote v0.0.0-20180428030007-95032a82bc51 // indirect
	github.com/klauspost/compress v1.18.6 // indirect
	github.com/klauspost/cpuid/v2 v2.3.0 // indirect
	github.com/munnerz/goautoneg v0.0.0-20191010083416-a7dc8b61c822 // indirect
	github.com/prometheus/client_golang v1.23.2 // indirect
	github.com/prometheus/client_model v0.6.2 // indirect
	github.com/prometheus/common v0.67.5 // indirect
	github.com/prometheus/procfs v0.20.1 // indirect
	github.com/spiffe/go-spiffe/v2 v2.6.0 // indirect
	github.com/zeebo/blake3 v0.2.4 // indirect
	go.opentelemetry.io/auto/sdk v1.2.1 // indirect
	go.opentelemetry.io/contrib/detectors/gcp v1.43.0 // indirect
	go.opentelemetry.io/contrib/instrumentation/google.golang.org/grpc/otelgrpc v0.68.0 // indirect
	go.opentelemetry.io/contrib/instrumentation/net/http/otelhttp v0.68.0 // indirect
	go.opentelemetry.io/otel v1.43.0 // indirect
	go.opentelemetry.io/otel/exporters/otlp/otlptrace v1.43.0 // indirect
	go.opentelemetry.io/otel/metric v1.43.0 // indirect
	go.opentelemetry.io/otel/sdk v1.43.0 // indirect
	go.opentelemetry.io/otel/sdk/metric v1.43.0 // indirect
	go.opentelemetry.io/otel/trace v1.43.0 // indirect
	go.opentelemetry.io/proto/otlp v1.10.0 // indirect
	go.yaml.in/yaml/v2 v2.4.4 // indirect
	golang.org/x/crypto v0.52.0 // indirect
	golang.org/x/net v0.55.0 // indirect
	golang.org/x/oauth2 v0.36.0 // indirect
	golang.org/x/sys v0.45.0 // indirect
	golang.org/x/text v0.37.0 // indirect
	golang.org/x/time v0.15.0 // indirect
	google.golang.org/api v0.281.0 // indirect
	google.golang.org/genproto v0.0.0-20260526163538-3dc84a4a5aaa // indirect
	google.golang.org/genproto/googleapis/api v0.0.0-20260526163538-3dc84a4a5aaa // indirect
	google.golang.org/grpc/security/advancedtls v1.0.0 // indirect
	sigs.k8s.io/yaml v1.6.0 // indirect
)
