// Harness for the ISC part of C07: drives the real size-class analyzers,
// strategy calculators and Outcomes.IsFaster of
// pkg/scheduler/initialsizeclass and records everything observable.
//
// Three kinds of histories (field "kind"):
//
//	session  NewFeedbackDrivenAnalyzer (or NewFallbackAnalyzer) over an
//	         in-memory fake of the ISCC MutableProtoStore that records
//	         Get and Release(dirty) calls, a scripted / smallest / real
//	         page-rank StrategyCalculator, an injected random source and
//	         clock; "ops" are protocol calls (select, selabandon, succ,
//	         fail, abandon); calls the protocol does not permit in the
//	         current phase are skipped.
//	pr       direct GetStrategies + GetBackgroundExecutionTimeout of the real
//	         page-rank calculator on a stored statistics message; "ops" are
//	         the message's previous executions.
//	faster   Outcomes.IsFaster in both directions; "ops" are the samples.
package main

import (
	"context"
	"encoding/json"
	"fmt"
	"math"
	"math/big"
	"sort"
	"time"

	remoteexecution "github.com/bazelbuild/remote-apis/build/bazel/remote/execution/v2"
	re_blobstore "github.com/buildbarn/bb-remote-execution/pkg/blobstore"
	isc "github.com/buildbarn/bb-remote-execution/pkg/scheduler/initialsizeclass"
	"github.com/buildbarn/bb-storage/pkg/clock"
	"github.com/buildbarn/bb-storage/pkg/digest"
	"github.com/buildbarn/bb-storage/pkg/proto/iscc"
	"google.golang.org/protobuf/proto"
	"google.golang.org/protobuf/types/known/durationpb"
	"google.golang.org/protobuf/types/known/emptypb"
	"google.golang.org/protobuf/types/known/timestamppb"

	g "verif/harness/internal/gallina"
	"verif/harness/internal/hcommon"
	"verif/harness/internal/rng"
)

// ---------------------------------------------------------------------------
// History format

type execJ struct {
	SC uint32 `json:"sc,omitempty"` // pr histories: size class of this execution
	O  string `json:"o"`            // f(ailed) t(imed out) s(ucceeded)
	D  int64  `json:"d,omitempty"`  // nanoseconds
}

type scJ struct {
	K  uint32  `json:"k"`
	PE []execJ `json:"pe"`
	P  float64 `json:"p"`
}

type statsJ struct {
	SC  []scJ  `json:"sc"`
	LSF *int64 `json:"lsf"` // nanoseconds since the epoch
}

type stratJ struct {
	P  float64 `json:"p"`
	BG bool    `json:"bg,omitempty"`
	T  int64   `json:"t"`
}

type tmoJ struct {
	Kind string `json:"kind"` // absent invalid val
	NS   int64  `json:"ns,omitempty"`
}

type prJ struct {
	MinNS    int64   `json:"min"`
	Exponent float64 `json:"exp"`
	Mult     float64 `json:"mult"`
	Err      float64 `json:"err"`
}

type opJ struct {
	K      string   `json:"k,omitempty"` // select selabandon succ fail abandon
	Tmo    *tmoJ    `json:"tmo,omitempty"`
	SCS    []uint32 `json:"scs,omitempty"`
	Now    int64    `json:"now,omitempty"`
	R      float64  `json:"r,omitempty"`
	Script []stratJ `json:"script,omitempty"`
	D      int64    `json:"d,omitempty"`
	BGT    int64    `json:"bgt,omitempty"`
	TO     bool     `json:"to,omitempty"`
	// pr / faster histories
	SC   uint32 `json:"sc,omitempty"`
	O    string `json:"o,omitempty"`
	Side string `json:"side,omitempty"`
}

type history struct {
	Kind     string `json:"kind"`
	Fallback bool   `json:"fallback,omitempty"`
	Calc     string `json:"calc,omitempty"` // script smallest pagerank
	PR       *prJ   `json:"pr,omitempty"`
	Hist     int    `json:"hist,omitempty"`
	FCD      int64  `json:"fcd,omitempty"`
	DefT     int64  `json:"deft,omitempty"`
	MaxT     int64  `json:"maxt,omitempty"`
	Init     statsJ `json:"init"`
	// pr
	SCS  []uint32           `json:"scs,omitempty"`
	Orig int64              `json:"orig,omitempty"`
	IPRP map[string]float64 `json:"iprp,omitempty"`
	// faster
	FA  int   `json:"fa,omitempty"`
	FB  int   `json:"fb,omitempty"`
	Ops []opJ `json:"ops"`
}

// ---------------------------------------------------------------------------
// Fakes

type fakeHandle struct {
	store *fakeStore
	msg   *iscc.PreviousExecutionStats
}

func (h *fakeHandle) GetMutableProto() *iscc.PreviousExecutionStats { return h.msg }
func (h *fakeHandle) Release(isDirty bool) {
	h.store.releases = append(h.store.releases, isDirty)
}

// fakeStore hands out the one stored message and records the calls.
type fakeStore struct {
	msg      *iscc.PreviousExecutionStats
	gets     int
	releases []bool
}

func (s *fakeStore) Get(ctx context.Context, d digest.Digest) (re_blobstore.MutableProtoHandle[*iscc.PreviousExecutionStats], error) {
	s.gets++
	return &fakeHandle{store: s, msg: s.msg}, nil
}

type fakeClock struct{ now time.Time }

func (c *fakeClock) Now() time.Time { return c.now }
func (c *fakeClock) NewContextWithTimeout(parent context.Context, d time.Duration) (context.Context, context.CancelFunc) {
	panic("not used")
}
func (c *fakeClock) NewTimer(d time.Duration) (clock.Timer, <-chan time.Time)   { panic("not used") }
func (c *fakeClock) NewTicker(d time.Duration) (clock.Ticker, <-chan time.Time) { panic("not used") }

type fakeRandom struct{ next float64 }

func (r *fakeRandom) Float64() float64                   { return r.next }
func (r *fakeRandom) Int64N(n int64) int64               { panic("not used") }
func (r *fakeRandom) IntN(n int) int                     { panic("not used") }
func (r *fakeRandom) Read(p []byte) (int, error)         { panic("not used") }
func (r *fakeRandom) Shuffle(n int, swap func(i, j int)) { panic("not used") }
func (r *fakeRandom) Uint32() uint32                     { panic("not used") }
func (r *fakeRandom) Uint64() uint64                     { panic("not used") }

// scriptedCalculator returns what the history says.
type scriptedCalculator struct {
	script []isc.Strategy
	bgt    time.Duration
}

func (c *scriptedCalculator) GetStrategies(m map[uint32]*iscc.PerSizeClassStats, sizeClasses []uint32, originalTimeout time.Duration) []isc.Strategy {
	return c.script
}

func (c *scriptedCalculator) GetBackgroundExecutionTimeout(m map[uint32]*iscc.PerSizeClassStats, sizeClasses []uint32, sizeClassIndex int, originalTimeout time.Duration) time.Duration {
	return c.bgt
}

// ---------------------------------------------------------------------------
// Gallina printing

func qOfFloat(f float64) string {
	if math.IsNaN(f) || math.IsInf(f, 0) {
		// never generated; kept visible if the code produces one
		return "(Qmake (-7)%Z 1%positive)"
	}
	r := new(big.Rat).SetFloat64(f)
	n := r.Num().String()
	if r.Num().Sign() < 0 {
		n = "(" + n + ")"
	}
	return fmt.Sprintf("(Qmake %s%%Z %s%%positive)", n, r.Denom().String())
}

func scList(scs []uint32) string {
	var l []string
	for _, s := range scs {
		l = append(l, g.N(uint64(s)))
	}
	return g.List(l)
}

func execTerm(pe *iscc.PreviousExecution) string {
	switch o := pe.Outcome.(type) {
	case *iscc.PreviousExecution_Failed:
		return "OFailed"
	case *iscc.PreviousExecution_TimedOut:
		return g.App("OTimedOut", g.Z(int64(o.TimedOut.AsDuration())))
	case *iscc.PreviousExecution_Succeeded:
		return g.App("OSucceeded", g.Z(int64(o.Succeeded.AsDuration())))
	}
	return "OFailed"
}

func smapTerm(m map[uint32]*iscc.PerSizeClassStats) string {
	keys := make([]uint32, 0, len(m))
	for k := range m {
		keys = append(keys, k)
	}
	sort.Slice(keys, func(i, j int) bool { return keys[i] < keys[j] })
	var l []string
	for _, k := range keys {
		var pes []string
		for _, pe := range m[k].PreviousExecutions {
			pes = append(pes, execTerm(pe))
		}
		l = append(l, fmt.Sprintf("(%s, mkPscs %s %s)", g.N(uint64(k)), g.List(pes), qOfFloat(m[k].InitialPageRankProbability)))
	}
	return g.List(l)
}

func statsTerm(msg *iscc.PreviousExecutionStats) string {
	lsf := "None"
	if ts := msg.LastSeenFailure; ts.CheckValid() == nil {
		lsf = g.Some(g.Z(ts.AsTime().UnixNano()))
	}
	return g.App("mkStats", smapTerm(msg.SizeClasses), lsf)
}

func stratTerm(s isc.Strategy) string {
	return g.App("mkStrat", qOfFloat(s.Probability), g.Bool(s.RunInBackground), g.Z(int64(s.ForegroundExecutionTimeout)))
}

func stratList(ss []isc.Strategy) string {
	var l []string
	for _, s := range ss {
		l = append(l, stratTerm(s))
	}
	return g.List(l)
}

func boolList(bs []bool) string {
	var l []string
	for _, b := range bs {
		l = append(l, g.Bool(b))
	}
	return g.List(l)
}

func zList(zs []int64) string {
	var l []string
	for _, z := range zs {
		l = append(l, g.Z(z))
	}
	return g.List(l)
}

// factor table for the page-rank model: math.Pow is an input of the model
func prTerm(p *prJ, universe []uint32) string {
	var l []string
	for _, a := range universe {
		for _, b := range universe {
			if a == 0 {
				continue
			}
			f := math.Pow(float64(b)/float64(a), p.Exponent)
			l = append(l, fmt.Sprintf("(%s, %s, %s)", g.N(uint64(a)), g.N(uint64(b)), qOfFloat(f)))
		}
	}
	return g.App("mkPr", g.Z(p.MinNS), qOfFloat(p.Mult), qOfFloat(p.Err), g.List(l))
}

func newPR(p *prJ) isc.StrategyCalculator {
	return isc.NewPageRankStrategyCalculator(time.Duration(p.MinNS), p.Exponent, p.Mult, p.Err)
}

// ---------------------------------------------------------------------------
// Building messages

func execProto(e execJ) *iscc.PreviousExecution {
	switch e.O {
	case "t":
		return &iscc.PreviousExecution{Outcome: &iscc.PreviousExecution_TimedOut{TimedOut: durationpb.New(time.Duration(e.D))}}
	case "s":
		return &iscc.PreviousExecution{Outcome: &iscc.PreviousExecution_Succeeded{Succeeded: durationpb.New(time.Duration(e.D))}}
	}
	return &iscc.PreviousExecution{Outcome: &iscc.PreviousExecution_Failed{Failed: &emptypb.Empty{}}}
}

func statsProto(s statsJ) *iscc.PreviousExecutionStats {
	msg := &iscc.PreviousExecutionStats{}
	if len(s.SC) > 0 {
		msg.SizeClasses = map[uint32]*iscc.PerSizeClassStats{}
	}
	for _, e := range s.SC {
		p := &iscc.PerSizeClassStats{InitialPageRankProbability: e.P}
		for _, x := range e.PE {
			p.PreviousExecutions = append(p.PreviousExecutions, execProto(x))
		}
		msg.SizeClasses[e.K] = p
	}
	if s.LSF != nil {
		msg.LastSeenFailure = timestamppb.New(time.Unix(0, *s.LSF))
	}
	return msg
}

// ---------------------------------------------------------------------------

type area struct{}

func (area) Requires() string {
	return "From Coq Require Import ZArith NArith QArith.\nFrom VF Require Import Common.Verdict ISC.Outcomes ISC.PageRank ISC.Model ISC.Corr."
}
func (area) Check() string { return "check_case" }
func (area) Rule() string {
	return "60% sessions: 1-6 Analyze sessions on one stored PreviousExecutionStats message (<=5 size classes, history size 1-6, stored lists up to history+2, LastSeenFailure absent/recent/old) against the real feedback-driven analyzer with a scripted (50%), real page-rank (30%, exactly representable parameters) or smallest calculator, or the fallback analyzer (10%); each session = Select (action timeout absent/invalid/negative/above maximum/valid) or selector abandonment followed by 1-3 outcome calls (success, non-zero exit, timeout, abandonment) with the size-class list at Succeeded sometimes changed (class removed, new largest). 30% direct GetStrategies/GetBackgroundExecutionTimeout of the real page-rank calculator on random stored messages (<=6 size classes, <=24 samples per class, convergence error from {0.002,0.001,0.01,0.05,0.1,0.3}, stored probabilities 0/random/near 1, exponents incl. irrational factors). 10% IsFaster pairs (<=12 samples, heavy ties, failures). Non-trivial: session with a retry or background run and a dirty release; pr reaching the power iteration; any IsFaster pair; distinct by hash of the case term"
}

var durationsMenu = []int64{0, 1, 500e6, 1e9, 1500e6, 2e9, 3e9, 4e9, 5e9, 7e9, 10e9, 20e9, 40e9, 90e9, 600e9}

func genDuration(r *rng.R) int64 {
	if r.Chance(15) {
		return int64(r.Intn(60000)) * 1e6
	}
	return durationsMenu[r.Intn(len(durationsMenu))]
}

func genExec(r *rng.R, failPct int) execJ {
	x := r.Intn(100)
	switch {
	case x < failPct/2:
		return execJ{O: "f"}
	case x < failPct:
		return execJ{O: "t", D: genDuration(r)}
	}
	return execJ{O: "s", D: genDuration(r)}
}

func subset(r *rng.R, universe []uint32) []uint32 {
	for {
		var s []uint32
		for _, u := range universe {
			if r.Chance(75) {
				s = append(s, u)
			}
		}
		if len(s) > 0 {
			return s
		}
	}
}

func genIPRP(r *rng.R) float64 {
	switch r.Intn(5) {
	case 0:
		return float64(r.Intn(1<<20)) / float64(1<<20)
	case 1:
		return 0.9 + float64(r.Intn(1000))/10010.0
	case 2:
		return []float64{-0.25, 1, 1.5, 0.5, 0.25}[r.Intn(5)]
	}
	return 0
}

func genPRParams(r *rng.R, exact bool) *prJ {
	p := &prJ{MinNS: []int64{0, 1e9, 5e9, 30e9}[r.Intn(4)]}
	if exact {
		p.Exponent = []float64{0, 1, 2, 1}[r.Intn(4)]
		p.Mult = []float64{1.5, 2, 1.25, 1}[r.Intn(4)]
		p.Err = []float64{0.002, 0.001, 0.01, 0.05}[r.Intn(4)]
	} else {
		p.Exponent = []float64{0, 1, 0.5, 0.7, 2, 0.25}[r.Intn(6)]
		p.Mult = []float64{1.5, 2, 1.1, 3, 1}[r.Intn(5)]
		p.Err = []float64{0.002, 0.001, 0.01, 0.05, 0.1, 0.3}[r.Intn(6)]
	}
	return p
}

func genSession(r *rng.R, thorough bool) history {
	h := history{Kind: "session"}
	universe := []uint32{1, 2, 4, 8, 16}[:1+r.Intn(5)]
	if r.Chance(10) {
		universe = []uint32{2, 8, 32, 64}[:1+r.Intn(4)]
	}
	switch x := r.Intn(100); {
	case x < 10:
		h.Fallback = true
		h.Calc = "script"
	case x < 55:
		h.Calc = "script"
	case x < 90:
		h.Calc = "pagerank"
		h.PR = genPRParams(r, true)
	default:
		h.Calc = "smallest"
	}
	h.Hist = 1 + r.Intn(6)
	h.FCD = []int64{0, 60e9, 3600e9}[r.Intn(3)]
	h.DefT = []int64{0, 30e9, 600e9, 3600e9}[r.Intn(4)]
	h.MaxT = []int64{600e9, 3600e9, 7200e9}[r.Intn(3)]
	now := int64(1700000000e9)
	for _, u := range universe {
		if r.Chance(70) {
			e := scJ{K: u, P: genIPRP(r), PE: []execJ{}}
			n := r.Intn(h.Hist + 3)
			fail := []int{0, 20, 60, 100}[r.Intn(4)]
			for i := 0; i < n; i++ {
				e.PE = append(e.PE, genExec(r, fail))
			}
			h.Init.SC = append(h.Init.SC, e)
		}
	}
	switch r.Intn(5) {
	case 0:
		v := now - 30e9
		h.Init.LSF = &v
	case 1:
		v := now - 86400e9
		h.Init.LSF = &v
	}
	sessions := 1 + r.Intn(6)
	if thorough {
		sessions = 2 + r.Intn(12)
	}
	for s := 0; s < sessions; s++ {
		now += int64(r.Intn(200)) * 1e9
		tmo := &tmoJ{Kind: "val"}
		orig := int64(0)
		switch x := r.Intn(100); {
		case x < 15:
			tmo.Kind = "absent"
			orig = h.DefT
		case x < 18:
			tmo.Kind = "invalid"
		case x < 21:
			tmo.NS = -1e9
		case x < 24:
			tmo.NS = h.MaxT + 1
		default:
			tmo.NS = []int64{0, 1e9, 30e9, 600e9, 3600e9}[r.Intn(5)]
			if tmo.NS > h.MaxT {
				tmo.NS = h.MaxT
			}
			orig = tmo.NS
		}
		if r.Chance(8) {
			h.Ops = append(h.Ops, opJ{K: "selabandon", Tmo: tmo})
			continue
		}
		scs := subset(r, universe)
		sel := opJ{K: "select", Tmo: tmo, SCS: scs, Now: now, R: float64(r.Intn(64)) / 64}
		if h.Calc == "script" {
			k := r.Intn(len(scs))
			if r.Chance(10) {
				k = len(scs)
			}
			left := 16
			for i := 0; i < k; i++ {
				p := r.Intn(left + 1)
				if r.Chance(30) {
					p = 0
				}
				left -= p
				st := stratJ{P: float64(p) / 16, BG: r.Chance(35)}
				if !st.BG && orig > 0 {
					st.T = []int64{0, orig, orig / 2, orig / 3, 1}[r.Intn(5)]
				}
				sel.Script = append(sel.Script, st)
			}
		}
		h.Ops = append(h.Ops, sel)
		for k, n := 0, 1+r.Intn(3); k < n; k++ {
			now += int64(r.Intn(100)) * 1e9
			switch x := r.Intn(100); {
			case x < 45:
				o := opJ{K: "succ", D: genDuration(r), SCS: scs}
				switch r.Intn(8) {
				case 0:
					o.SCS = subset(r, universe)
				case 1:
					o.SCS = append(append([]uint32{}, scs...), scs[len(scs)-1]*2+64)
				case 2:
					if len(scs) > 1 {
						o.SCS = scs[:len(scs)-1]
					}
				}
				if orig > 0 {
					o.BGT = []int64{0, orig, orig / 2, 1}[r.Intn(4)]
				}
				h.Ops = append(h.Ops, o)
			case x < 65:
				h.Ops = append(h.Ops, opJ{K: "fail", Now: now})
			case x < 85:
				h.Ops = append(h.Ops, opJ{K: "fail", TO: true, Now: now})
			default:
				h.Ops = append(h.Ops, opJ{K: "abandon"})
			}
		}
	}
	return h
}

// genStalePR: a message whose stored page-rank probabilities do not belong
// to the size-class list it is evaluated for (written for another list or
// configuration, or by another tool): several stored values close to 1.  A
// few hopeless small classes, the others succeed quickly.
func genStalePR(r *rng.R, thorough bool) history {
	h := history{Kind: "pr", PR: genPRParams(r, false), IPRP: map[string]float64{}}
	n := 4 + r.Intn(4)
	pool := []uint32{1, 2, 4, 8, 16, 32, 64}
	h.SCS = append([]uint32{}, pool[:n]...)
	h.Orig = []int64{600e9, 3600e9}[r.Intn(2)]
	h.PR.Err = []float64{0.01, 0.05, 0.1, 0.2, 0.3, 0.2}[r.Intn(6)]
	h.PR.Exponent = []float64{1, 0.5, 0}[r.Intn(3)]
	samples := 8 + r.Intn(40)
	hopeless := 1 + r.Intn(n-1)
	for i, sc := range h.SCS {
		for j := 0; j < samples; j++ {
			if i < hopeless && !r.Chance(10) {
				h.Ops = append(h.Ops, opJ{SC: sc, O: "f"})
			} else {
				h.Ops = append(h.Ops, opJ{SC: sc, O: "s", D: int64(1+r.Intn(3)) * 1e9 / int64(i+1)})
			}
		}
		switch r.Intn(4) {
		case 0:
		case 1:
			h.IPRP[fmt.Sprint(sc)] = float64(r.Intn(1<<20)) / float64(1<<20)
		default:
			h.IPRP[fmt.Sprint(sc)] = 0.9 + float64(r.Intn(1000))/10010.0
		}
	}
	return h
}

func genPR(r *rng.R, thorough bool) history {
	if r.Chance(35) {
		return genStalePR(r, thorough)
	}
	h := history{Kind: "pr", PR: genPRParams(r, false), IPRP: map[string]float64{}}
	n := 2 + r.Intn(5)
	if r.Chance(5) {
		n = 1
	}
	pool := []uint32{1, 2, 3, 4, 6, 8, 12, 16, 32, 64}
	if r.Chance(50) {
		pool = []uint32{1, 2, 4, 8, 16, 32, 64}
	}
	start := r.Intn(len(pool) - n + 1)
	h.SCS = append([]uint32{}, pool[start:start+n]...)
	h.Orig = []int64{600e9, 3600e9, 30e9, 1e9, 0}[r.Intn(5)]
	maxSamples := 24
	if thorough {
		maxSamples = 60
	}
	// shape: how failure-prone the classes are, smallest first
	hopeless := r.Intn(n)
	for i, sc := range h.SCS {
		k := 1 + r.Intn(maxSamples)
		if r.Chance(10) {
			k = 0
		}
		fail := []int{0, 10, 50}[r.Intn(3)]
		if i < hopeless && r.Chance(70) {
			fail = 95
		}
		if i == n-1 {
			fail = []int{0, 0, 0, 10, 10, 100}[r.Intn(6)]
		}
		base := int64(1+r.Intn(20)) * 1e9
		for j := 0; j < k; j++ {
			e := genExec(r, fail)
			if e.O != "f" && r.Chance(60) {
				// execution times that scale with the size class
				e.D = base * int64(h.SCS[n-1]) / int64(sc) / int64(1+r.Intn(3))
			}
			h.Ops = append(h.Ops, opJ{SC: sc, O: e.O, D: e.D})
		}
		if p := genIPRP(r); p != 0 || r.Chance(20) {
			h.IPRP[fmt.Sprint(sc)] = p
		}
	}
	return h
}

func genFaster(r *rng.R) history {
	h := history{Kind: "faster", FA: r.Intn(4), FB: r.Intn(4)}
	if r.Chance(30) {
		h.FA, h.FB = 0, 0
	}
	vals := 1 + r.Intn(6)
	for i, n := 0, r.Intn(13); i < n; i++ {
		h.Ops = append(h.Ops, opJ{Side: "a", D: int64(r.Intn(vals)) * 1e9})
	}
	for i, n := 0, r.Intn(13); i < n; i++ {
		h.Ops = append(h.Ops, opJ{Side: "b", D: int64(r.Intn(vals)) * 1e9})
	}
	return h
}

func (area) Generate(r *rng.R, thorough bool, index int) json.RawMessage {
	var h history
	switch x := index % 10; {
	case x < 6:
		h = genSession(r, thorough)
	case x < 9:
		h = genPR(r, thorough)
	default:
		h = genFaster(r)
	}
	if h.Ops == nil {
		h.Ops = []opJ{}
	}
	data, _ := json.Marshal(h)
	return data
}

// ---------------------------------------------------------------------------
// Execution

// guarded runs f; false if it panics or does not return within 20 s (a power
// iteration on a matrix that is not stochastic need not converge).  A hung
// call keeps spinning in its goroutine until the harness exits.
func guarded(f func()) (ok bool) {
	done := make(chan bool, 1)
	go func() {
		defer func() {
			if r := recover(); r != nil {
				done <- false
			}
		}()
		f()
		done <- true
	}()
	select {
	case ok = <-done:
		return ok
	case <-time.After(20 * time.Second):
		return false
	}
}

func (area) Execute(raw json.RawMessage) (string, *hcommon.Info, error) {
	var h history
	if err := json.Unmarshal(raw, &h); err != nil {
		return "", nil, err
	}
	switch h.Kind {
	case "session":
		return execSession(&h)
	case "pr":
		return execPR(&h)
	case "faster":
		return execFaster(&h)
	}
	return "", nil, fmt.Errorf("unknown history kind %q", h.Kind)
}

func execFaster(h *history) (string, *hcommon.Info, error) {
	info := hcommon.NewInfo()
	var sa, sb []time.Duration
	var za, zb []int64
	for _, o := range h.Ops {
		info.Events++
		info.Ops["sample"]++
		if o.Side == "a" {
			sa = append(sa, time.Duration(o.D))
			za = append(za, o.D)
		} else {
			sb = append(sb, time.Duration(o.D))
			zb = append(zb, o.D)
		}
	}
	// NewOutcomes takes ownership of (sorts) the slices: give each call its own
	a := isc.NewOutcomes(append([]time.Duration{}, sa...), h.FA)
	b := isc.NewOutcomes(append([]time.Duration{}, sb...), h.FB)
	pab := a.IsFaster(b)
	pba := b.IsFaster(a)
	info.Outs["is-faster"]++
	info.Nontrivial = true
	return g.App("CaseFaster", zList(za), g.Z(int64(h.FA)), zList(zb), g.Z(int64(h.FB)), qOfFloat(pab), qOfFloat(pba)), info, nil
}

func execPR(h *history) (string, *hcommon.Info, error) {
	info := hcommon.NewInfo()
	m := map[uint32]*iscc.PerSizeClassStats{}
	for _, o := range h.Ops {
		info.Events++
		info.Ops["exec-"+o.O]++
		p, ok := m[o.SC]
		if !ok {
			p = &iscc.PerSizeClassStats{}
			m[o.SC] = p
		}
		p.PreviousExecutions = append(p.PreviousExecutions, execProto(execJ{O: o.O, D: o.D}))
	}
	var universe []uint32
	universe = append(universe, h.SCS...)
	for k, v := range h.IPRP {
		var sc uint32
		fmt.Sscan(k, &sc)
		p, ok := m[sc]
		if !ok {
			p = &iscc.PerSizeClassStats{}
			m[sc] = p
		}
		p.InitialPageRankProbability = v
	}
	if len(h.SCS) == 0 {
		return "", nil, fmt.Errorf("pr history without size classes")
	}
	pre := smapTerm(m)
	calc := newPR(h.PR)
	orig := time.Duration(h.Orig)
	oss := "None"
	var ss []isc.Strategy
	if guarded(func() { ss = calc.GetStrategies(m, h.SCS, orig) }) {
		oss = g.Some(stratList(ss))
	} else {
		info.Outs["panic-or-hang-get-strategies"]++
		return g.App("CasePR", prTerm(h.PR, universe), pre, scList(h.SCS), g.Z(h.Orig), oss, pre, "[]"), info, nil
	}
	info.Events++
	iterated := false
	for _, s := range ss {
		if s.Probability != 0 && s.Probability != 1 {
			iterated = true
		}
	}
	sum, illFormed := 0.0, false
	for _, s := range ss {
		sum += s.Probability
		if s.Probability < -1e-9 || s.Probability > 1+1e-9 {
			illFormed = true
		}
	}
	if illFormed || sum > 1+1e-9 {
		info.Outs["ill-formed-probabilities"]++
	}
	if iterated {
		info.Outs["power-iteration"]++
	} else {
		info.Outs["forced-choice"]++
	}
	if len(ss) > info.Extra["max_strategies"] {
		info.Extra["max_strategies"] = len(ss)
	}
	// GetBackgroundExecutionTimeout is only ever called after a success on
	// the largest size class has been recorded: same precondition here.
	var bgs []string
	n := len(h.SCS)
	largestHasSuccess := false
	if p, ok := m[h.SCS[n-1]]; ok {
		for _, pe := range p.PreviousExecutions {
			if _, ok := pe.Outcome.(*iscc.PreviousExecution_Succeeded); ok {
				largestHasSuccess = true
			}
		}
	}
	if largestHasSuccess {
		for i := 0; i < n-1; i++ {
			t := "None"
			var bt time.Duration
			if guarded(func() { bt = calc.GetBackgroundExecutionTimeout(m, h.SCS, i, orig) }) {
				t = g.Some(g.Z(int64(bt)))
			} else {
				info.Outs["panic-background-timeout"]++
			}
			bgs = append(bgs, t)
		}
	}
	info.Nontrivial = iterated
	return g.App("CasePR", prTerm(h.PR, universe), pre, scList(h.SCS), g.Z(h.Orig), oss, smapTerm(m), g.List(bgs)), info, nil
}

func execSession(h *history) (string, *hcommon.Info, error) {
	info := hcommon.NewInfo()
	store := &fakeStore{msg: statsProto(h.Init)}
	clk := &fakeClock{now: time.Unix(1700000000, 0)}
	rnd := &fakeRandom{}
	script := &scriptedCalculator{}
	var calc isc.StrategyCalculator
	calcTerm := "CScript"
	universe := map[uint32]bool{}
	for _, e := range h.Init.SC {
		universe[e.K] = true
	}
	for _, o := range h.Ops {
		for _, s := range o.SCS {
			universe[s] = true
		}
	}
	var uni []uint32
	for k := range universe {
		uni = append(uni, k)
	}
	sort.Slice(uni, func(i, j int) bool { return uni[i] < uni[j] })
	switch h.Calc {
	case "pagerank":
		if h.PR == nil {
			return "", nil, fmt.Errorf("pagerank without parameters")
		}
		calc = newPR(h.PR)
		calcTerm = g.App("CPageRank", prTerm(h.PR, uni))
	case "smallest":
		calc = isc.SmallestSizeClassStrategyCalculator
		calcTerm = "CSmallest"
	default:
		calc = script
	}
	hist := h.Hist
	if hist < 1 {
		hist = 1
	}
	extractor := isc.NewActionTimeoutExtractor(time.Duration(h.DefT), time.Duration(h.MaxT))
	var analyzer isc.Analyzer
	if h.Fallback {
		analyzer = isc.NewFallbackAnalyzer(extractor)
	} else {
		analyzer = isc.NewFeedbackDrivenAnalyzer(store, rnd, clk, extractor, time.Duration(h.FCD), calc, hist)
	}
	cfgTerm := g.App("mkCfg", g.Bool(h.Fallback), calcTerm, g.Nat(hist), g.Z(h.FCD), g.Z(h.DefT), g.Z(h.MaxT))
	initTerm := statsTerm(store.msg)
	digestFunction := digest.MustNewFunction("isc", remoteexecution.DigestFunction_SHA256)

	var learner isc.Learner
	dead := false
	retried, background, dirty := false, false, false
	var steps []string

	tmoTerm := func(t *tmoJ) (string, *remoteexecution.Action) {
		action := &remoteexecution.Action{
			CommandDigest: &remoteexecution.Digest{Hash: "e3b0c44298fc1c149afbf4c8996fb92427ae41e4649b934ca495991b7852b855", SizeBytes: 0},
		}
		if t == nil {
			return "TAbsent", action
		}
		switch t.Kind {
		case "absent":
			return "TAbsent", action
		case "invalid":
			action.Timeout = &durationpb.Duration{Seconds: 1, Nanos: -5}
			return "TInvalid", action
		}
		action.Timeout = durationpb.New(time.Duration(t.NS))
		return g.App("TVal", g.Z(t.NS)), action
	}

	// run one call; returns the out term
	record := func(opTerm string, call func() string) {
		gets0, rels0 := store.gets, len(store.releases)
		out := "OutPanic"
		if !guarded(func() { out = call() }) {
			out = "OutPanic"
			info.Outs["panic-or-hang"]++
			dead = true
			learner = nil
		}
		rels := store.releases[rels0:]
		for _, d := range rels {
			if d {
				dirty = true
				info.Outs["release-dirty"]++
			} else {
				info.Outs["release-clean"]++
			}
		}
		obs := g.App("mkObs", out, g.Nat(store.gets-gets0), boolList(rels), statsTerm(store.msg))
		steps = append(steps, fmt.Sprintf("(%s, %s)", opTerm, obs))
		info.Events++
	}
	choice := func(idx int, exp, tmo time.Duration, l isc.Learner) string {
		return g.App("OutChoice", g.Nat(idx), g.Z(int64(exp)), g.Z(int64(tmo)), g.Bool(l != nil))
	}

	for _, o := range h.Ops {
		if dead {
			break
		}
		switch o.K {
		case "select":
			if learner != nil || len(o.SCS) == 0 {
				continue
			}
			info.Ops["select"]++
			tt, action := tmoTerm(o.Tmo)
			clk.now = time.Unix(0, o.Now)
			var strategies []isc.Strategy
			for _, s := range o.Script {
				strategies = append(strategies, isc.Strategy{Probability: s.P, RunInBackground: s.BG, ForegroundExecutionTimeout: time.Duration(s.T)})
			}
			script.script = strategies
			r := o.R
			if h.Calc == "pagerank" && !h.Fallback {
				// keep the random draw away from the float boundaries of the
				// cumulative probabilities (the model's are exact)
				r = awayFromBoundaries(h, store.msg, o, extractor, action, r)
			}
			rnd.next = r
			opTerm := g.App("OpSelect", tt, scList(o.SCS), g.Z(o.Now), qOfFloat(r), stratList(strategies))
			record(opTerm, func() string {
				sel, err := analyzer.Analyze(context.Background(), digestFunction, action)
				if err != nil {
					info.Outs["analyze-error"]++
					return "OutErr"
				}
				idx, exp, tmo, l := sel.Select(o.SCS)
				learner = l
				info.Outs[fmt.Sprintf("select-%T", l)]++
				return choice(idx, exp, tmo, l)
			})
		case "selabandon":
			if learner != nil {
				continue
			}
			info.Ops["selabandon"]++
			tt, action := tmoTerm(o.Tmo)
			record(g.App("OpSelAbandon", tt), func() string {
				sel, err := analyzer.Analyze(context.Background(), digestFunction, action)
				if err != nil {
					info.Outs["analyze-error"]++
					return "OutErr"
				}
				sel.Abandoned()
				return "OutNone"
			})
		case "succ":
			if learner == nil || len(o.SCS) == 0 {
				continue
			}
			info.Ops["succ"]++
			script.bgt = time.Duration(o.BGT)
			record(g.App("OpSucceeded", g.Z(o.D), scList(o.SCS), g.Z(o.BGT)), func() string {
				l := learner
				learner = nil
				idx, exp, tmo, next := l.Succeeded(time.Duration(o.D), o.SCS)
				learner = next
				if next != nil {
					background = true
					info.Outs["background-run"]++
				} else {
					info.Outs["succeeded-final"]++
				}
				return choice(idx, exp, tmo, next)
			})
		case "fail":
			if learner == nil {
				continue
			}
			info.Ops["fail"]++
			clk.now = time.Unix(0, o.Now)
			record(g.App("OpFailed", g.Bool(o.TO), g.Z(o.Now)), func() string {
				l := learner
				learner = nil
				exp, tmo, next := l.Failed(o.TO)
				learner = next
				if next != nil {
					retried = true
					info.Outs["retry"]++
				} else {
					info.Outs["failed-final"]++
				}
				return g.App("OutRetry", g.Z(int64(exp)), g.Z(int64(tmo)), g.Bool(next != nil))
			})
		case "abandon":
			if learner == nil {
				continue
			}
			info.Ops["abandon"]++
			record("OpAbandoned", func() string {
				l := learner
				learner = nil
				l.Abandoned()
				info.Outs["abandoned"]++
				return "OutNone"
			})
		default:
			return "", nil, fmt.Errorf("unknown op %q", o.K)
		}
	}
	for _, p := range store.msg.SizeClasses {
		if n := len(p.PreviousExecutions); n > info.Extra["max_history"] {
			info.Extra["max_history"] = n
		}
	}
	info.Nontrivial = (retried || background) && dirty
	return g.App("CaseSession", cfgTerm, initTerm, g.List(steps)), info, nil
}

// awayFromBoundaries evaluates the real GetStrategies on a copy of the stored
// message and moves r if it is within 1e-6 of a cumulative probability.
func awayFromBoundaries(h *history, msg *iscc.PreviousExecutionStats, o opJ, extractor *isc.ActionTimeoutExtractor, action *remoteexecution.Action, r float64) float64 {
	orig, err := extractor.ExtractTimeout(action)
	if err != nil {
		return r
	}
	clone := proto.Clone(msg).(*iscc.PreviousExecutionStats)
	if clone.SizeClasses == nil {
		clone.SizeClasses = map[uint32]*iscc.PerSizeClassStats{}
	}
	var ss []isc.Strategy
	if !guarded(func() { ss = newPR(h.PR).GetStrategies(clone.SizeClasses, o.SCS, orig) }) {
		return r
	}
	for tries := 0; tries < 50; tries++ {
		cum, ok := 0.0, true
		for _, s := range ss {
			cum += s.Probability
			if math.Abs(r-cum) < 1e-6 {
				ok = false
			}
		}
		if ok {
			return r
		}
		r += 3e-6
		if r >= 1 {
			r = 1e-5
		}
	}
	return r
}

func main() { hcommon.Main(area{}) }
