// Harness for the dynamic part of C14: runs short call sequences (and, in
// "storm" operations, concurrent workloads) on the real
// virtual.NewInMemoryPrepopulatedDirectory and reports after every call
// whether the mutex of every directory created so far is free again
// (VerifLockIsFree), whether the call returned at all, and how.  Error
// returns of every method are reached on purpose: removed directories,
// failing initial-contents fetchers, failing file allocator / symlink
// factory, wrong kinds, existing/missing names.
package main

import (
	"context"
	"encoding/json"
	"errors"
	"fmt"
	"os"
	"runtime"
	"sort"
	"strings"
	"sync"
	"sync/atomic"
	"syscall"
	"time"

	"github.com/buildbarn/bb-remote-execution/pkg/filesystem/pool"
	"github.com/buildbarn/bb-remote-execution/pkg/filesystem/virtual"
	re_sync "github.com/buildbarn/bb-remote-execution/pkg/sync"
	"github.com/buildbarn/bb-storage/pkg/clock"
	"github.com/buildbarn/bb-storage/pkg/filesystem"
	"github.com/buildbarn/bb-storage/pkg/filesystem/path"

	g "verif/harness/internal/gallina"
	"verif/harness/internal/hcommon"
	"verif/harness/internal/rng"
)

// ---- histories -------------------------------------------------------------

type op struct {
	K  string `json:"k"`
	D  int    `json:"d"`            // directory index, modulo the number of directories created so far
	N  int    `json:"n,omitempty"`  // name index
	D2 int    `json:"d2,omitempty"` // second directory (rename)
	N2 int    `json:"n2,omitempty"`
	A  bool   `json:"a,omitempty"` // method specific switch
	B  bool   `json:"b,omitempty"`
	F  bool   `json:"f,omitempty"` // make the next allocation fail
	M  int    `json:"m,omitempty"` // kind / variant
	C  []int  `json:"c,omitempty"` // createchildren: kinds of the children
	S  uint64 `json:"s,omitempty"` // storm: seed
	T  int    `json:"t,omitempty"` // storm: goroutines
	R  int    `json:"r,omitempty"` // storm: calls per goroutine
	L  []int  `json:"l,omitempty"` // pile: locks to lock
	X  bool   `json:"x,omitempty"` // issued from a storm: kinds follow names (a,b directories; others files)
	O  []bool `json:"o,omitempty"` // pile: answers of the scripted TryLocks
}

type history struct {
	Pile bool `json:"pile,omitempty"` // ops are LockPile commands of one thread
	Ops  []op `json:"ops"`
}

var names = []string{"a", "b", "c", "d", ".hidden"}

var methods = []string{
	"LookupChild", "LookupAllChildren", "ReadDir", "Remove", "RemoveAll", "RemoveAllChildren",
	"CreateChildren", "CreateAndEnterPrepopulatedDirectory", "FilterChildren", "InstallHooks",
	"VirtualLookup", "VirtualOpenChild", "VirtualMkdir", "VirtualMknod", "VirtualLink",
	"VirtualReadDir", "VirtualRename", "VirtualRemove", "VirtualGetAttributes",
	"VirtualSetAttributes", "VirtualApply",
}

type area struct{}

func (area) Requires() string {
	return "From VF Require Import Common.Verdict Locks.Model Locks.Pile Locks.Spec Locks.Corr.\nOpen Scope string_scope."
}
func (area) Check() string { return "check_case" }
func (area) Rule() string {
	return "histories of 12-40 calls (thorough: up to 120, plus concurrent storms of 4-8 goroutines x 1000-4000 calls with a 30 s watchdog) on a tree below a fresh in-memory root; every exported method of the directory (21 methods) with names from {a,b,c,d,.hidden}; directories are referred to by creation index, including directories that have been removed (calls on removed directories are deliberate); failing initial-contents fetchers (getContents error paths), failing file allocator and symlink factory in 10% of creations; after every call VerifLockIsFree on every directory ever created; a history stops at the first leak or hang; non-trivial = at least one error return, one call on a removed directory and one successful removal of a directory; distinct by hash of the full case term. Every fourth history instead drives one real sync.LockPile with 6-20 (thorough: up to 70) Lock(1-3 of <=5 mutexes, sometimes none)/Unlock/UnlockAll commands over TryLockers whose TryLock answers are scripted (55% success) and records every mutex call (non-trivial = at least one back-off after a failed TryLock and one recursive unlock). If VERIF_LOCKS_FOCUS names methods (set by the static obligation when functions fail it), half of all calls are drawn from those methods."
}

func focusMethods() []string {
	var out []string
	for _, m := range strings.Split(os.Getenv("VERIF_LOCKS_FOCUS"), ",") {
		for _, k := range methods {
			if m == k {
				out = append(out, m)
			}
		}
	}
	return out
}

func genOp(r *rng.R, nd int, focus []string) op {
	o := op{D: r.Intn(nd), N: r.Intn(len(names))}
	m := methods[r.Intn(len(methods))]
	if len(focus) > 0 && r.Chance(50) {
		m = focus[r.Intn(len(focus))]
	}
	// removals and (re)creations are what make the other calls interesting
	if len(focus) == 0 || r.Chance(50) {
		switch x := r.Intn(100); {
		case x < 12:
			m = "VirtualMkdir"
		case x < 20:
			m = "VirtualRemove"
		case x < 26:
			m = "CreateChildren"
		case x < 32:
			m = "VirtualRename"
		case x < 36:
			m = "Remove"
		}
	}
	o.K = m
	o.A, o.B = r.Chance(50), r.Chance(50)
	o.F = r.Chance(10)
	o.M = r.Intn(4)
	switch m {
	case "VirtualRename":
		o.D2, o.N2 = r.Intn(nd), r.Intn(len(names))
		if r.Chance(30) {
			o.D2 = o.D
		}
	case "CreateChildren":
		for i, n := 0, 1+r.Intn(3); i < n; i++ {
			o.C = append(o.C, r.Intn(4))
		}
	case "VirtualRemove":
		if r.Chance(60) {
			o.A, o.B = true, true
		}
	}
	return o
}

func genPile(r *rng.R, thorough bool) json.RawMessage {
	n := 6 + r.Intn(15)
	if thorough {
		n = 10 + r.Intn(60)
	}
	nm := 2 + r.Intn(4)
	h := history{Pile: true}
	for i := 0; i < n; i++ {
		var o op
		switch x := r.Intn(100); {
		case x < 55:
			o.K = "plock"
			for j, k := 0, 1+r.Intn(3); j < k; j++ {
				o.L = append(o.L, r.Intn(nm))
			}
			if r.Chance(3) {
				o.L = nil // Lock() of nothing
			}
			for j, k := 0, r.Intn(7); j < k; j++ {
				o.O = append(o.O, r.Chance(55))
			}
		case x < 85:
			o.K = "punlock"
			o.N = r.Intn(nm)
		default:
			o.K = "punlockall"
		}
		h.Ops = append(h.Ops, o)
	}
	data, _ := json.Marshal(h)
	return data
}

func (area) Generate(r *rng.R, thorough bool, index int) json.RawMessage {
	if index%4 == 3 {
		return genPile(r, thorough)
	}
	n := 12 + r.Intn(29)
	if thorough {
		n = 20 + r.Intn(101)
	}
	focus := focusMethods()
	var h history
	nd := 2 + r.Intn(5)
	for i := 0; i < n; i++ {
		h.Ops = append(h.Ops, genOp(r, nd, focus))
	}
	if thorough && index%4 == 0 {
		// a concurrent storm in the middle and one at the end
		s := op{K: "storm", S: r.U64(), T: 4 + r.Intn(5), R: 1000 + r.Intn(3001)}
		mid := len(h.Ops) / 2
		h.Ops = append(h.Ops[:mid], append([]op{s}, h.Ops[mid:]...)...)
		h.Ops = append(h.Ops, op{K: "storm", S: r.U64(), T: 4 + r.Intn(5), R: 1000 + r.Intn(3001)})
	}
	data, _ := json.Marshal(h)
	return data
}

// ---- fakes (safe for concurrent use) ----------------------------------------

type world struct {
	mu       sync.Mutex
	dirs     []virtual.PrepopulatedDirectory
	leaves   []*leaf
	failNext atomic.Bool
	root     virtual.PrepopulatedDirectory
}

func (w *world) dir(i int) (virtual.PrepopulatedDirectory, int) {
	w.mu.Lock()
	defer w.mu.Unlock()
	if i < 0 {
		i = -i
	}
	i %= len(w.dirs)
	return w.dirs[i], i
}

func (w *world) ndirs() int {
	w.mu.Lock()
	defer w.mu.Unlock()
	return len(w.dirs)
}

type leaf struct {
	kind  filesystem.FileType
	nlink atomic.Int64
}

func (w *world) newLeaf(kind filesystem.FileType) *leaf {
	l := &leaf{kind: kind}
	l.nlink.Store(1)
	w.mu.Lock()
	w.leaves = append(w.leaves, l)
	w.mu.Unlock()
	return l
}

func (l *leaf) VirtualGetAttributes(ctx context.Context, requested virtual.AttributesMask, attributes *virtual.Attributes) {
	attributes.SetChangeID(0)
	attributes.SetFileType(l.kind)
	attributes.SetLinkCount(uint32(l.nlink.Load()))
	attributes.SetPermissions(virtual.PermissionsRead | virtual.PermissionsWrite)
	attributes.SetSizeBytes(0)
}
func (l *leaf) VirtualSetAttributes(ctx context.Context, in *virtual.Attributes, requested virtual.AttributesMask, attributes *virtual.Attributes) virtual.Status {
	l.VirtualGetAttributes(ctx, requested, attributes)
	return virtual.StatusOK
}
func (l *leaf) VirtualApply(data any) bool { return false }
func (l *leaf) VirtualOpenNamedAttributes(ctx context.Context, createDirectory bool, requested virtual.AttributesMask, attributes *virtual.Attributes) (virtual.Directory, virtual.Status) {
	return nil, virtual.StatusErrNoEnt
}
func (l *leaf) VirtualAllocate(ctx context.Context, off, size uint64) virtual.Status {
	return virtual.StatusErrWrongType
}
func (l *leaf) VirtualSeek(ctx context.Context, offset uint64, regionType filesystem.RegionType) (*uint64, virtual.Status) {
	return nil, virtual.StatusErrWrongType
}
func (l *leaf) VirtualOpenSelf(ctx context.Context, shareAccess virtual.ShareMask, options *virtual.OpenExistingOptions, requested virtual.AttributesMask, attributes *virtual.Attributes) virtual.Status {
	if l.kind != filesystem.FileTypeRegularFile {
		return virtual.StatusErrSymlink
	}
	l.VirtualGetAttributes(ctx, requested, attributes)
	return virtual.StatusOK
}
func (l *leaf) VirtualRead(ctx context.Context, buf []byte, offset uint64) (int, bool, virtual.Status) {
	return 0, true, virtual.StatusOK
}
func (l *leaf) VirtualClose(shareAccess virtual.ShareMask) {}
func (l *leaf) VirtualWrite(ctx context.Context, buf []byte, offset uint64) (int, virtual.Status) {
	return 0, virtual.StatusErrWrongType
}
func (l *leaf) Link() virtual.Status {
	if l.nlink.Load() <= 0 {
		return virtual.StatusErrStale
	}
	l.nlink.Add(1)
	return virtual.StatusOK
}
func (l *leaf) Unlink() { l.nlink.Add(-1) }

type foreignLeaf struct{ virtual.Leaf }

type fileAllocator struct{ w *world }

func (a fileAllocator) NewFile(holeSource pool.HoleSource, isExecutable bool, size uint64, shareAccess virtual.ShareMask) (virtual.LinkableLeaf, error) {
	if a.w.failNext.Swap(false) {
		return nil, errors.New("injected allocation failure")
	}
	return a.w.newLeaf(filesystem.FileTypeRegularFile), nil
}

type symlinkFactory struct{ w *world }

func (f symlinkFactory) LookupSymlink(target path.Parser) (virtual.LinkableLeaf, error) {
	if f.w.failNext.Swap(false) {
		return nil, errors.New("injected symlink failure")
	}
	return f.w.newLeaf(filesystem.FileTypeSymlink), nil
}

type errorLogger struct{}

func (errorLogger) Log(err error) {}

type handleAllocator struct{ w *world }

func (a handleAllocator) New() virtual.StatefulHandleAllocation { return &handleAllocation{w: a.w} }

type handleAllocation struct{ w *world }

func (h *handleAllocation) AsStatelessAllocator() virtual.StatelessHandleAllocator {
	panic("harness: AsStatelessAllocator not expected")
}
func (h *handleAllocation) AsResolvableAllocator(resolver virtual.HandleResolver) virtual.ResolvableHandleAllocator {
	panic("harness: AsResolvableAllocator not expected")
}
func (h *handleAllocation) AsStatelessDirectory(directory virtual.Directory) virtual.Directory {
	panic("harness: AsStatelessDirectory not expected")
}
func (h *handleAllocation) AsLeaf(l virtual.Leaf) virtual.Leaf {
	panic("harness: AsLeaf not expected")
}
func (h *handleAllocation) AsLinkableLeaf(l virtual.LinkableLeaf) virtual.LinkableLeaf {
	return h.w.newLeaf(filesystem.FileTypeFIFO)
}
func (h *handleAllocation) AsStatefulDirectory(directory virtual.Directory) virtual.StatefulDirectoryHandle {
	w := h.w
	w.mu.Lock()
	id := len(w.dirs)
	w.dirs = append(w.dirs, directory.(virtual.PrepopulatedDirectory))
	w.mu.Unlock()
	return dirHandle{id: id}
}

type dirHandle struct{ id int }

func (h dirHandle) GetAttributes(requested virtual.AttributesMask, attributes *virtual.Attributes) {
	attributes.SetInodeNumber(uint64(h.id))
}
func (h dirHandle) NotifyRemoval(name path.Component) {}
func (h dirHandle) Release()                          {}

// fetcher is an InitialContentsFetcher that fails or yields a small subtree.
type fetcher struct {
	w     *world
	fail  bool
	depth int
}

func (f *fetcher) VirtualApply(data any) bool { return false }
func (f *fetcher) FetchContents(fileReadMonitorFactory virtual.FileReadMonitorFactory) (map[path.Component]virtual.InitialChild, error) {
	if f.fail {
		return nil, errors.New("injected fetch failure")
	}
	m := map[path.Component]virtual.InitialChild{}
	if f.depth > 0 {
		// names a, b are directories and c is a file: the storms rely on it
		m[path.MustNewComponent("a")] = virtual.InitialChild{}.FromDirectory(&fetcher{w: f.w, fail: true})
		m[path.MustNewComponent("b")] = virtual.InitialChild{}.FromDirectory(&fetcher{w: f.w, depth: f.depth - 1})
		m[path.MustNewComponent("c")] = virtual.InitialChild{}.FromLeaf(f.w.newLeaf(filesystem.FileTypeRegularFile))
	}
	return m, nil
}

func hiddenMatcher(s string) bool { return strings.HasPrefix(s, ".h") }

type reporter struct{ left int }

func (r *reporter) ReportEntry(nextCookie uint64, name path.Component, child virtual.DirectoryChild, attributes *virtual.Attributes) bool {
	if r.left <= 0 {
		return false
	}
	r.left--
	return true
}

// ---- execution -------------------------------------------------------------

const lockedMask = virtual.AttributesMaskChangeID | virtual.AttributesMaskLastDataModificationTime | virtual.AttributesMaskFileType
const plainMask = virtual.AttributesMaskFileType | virtual.AttributesMaskInodeNumber

func mask(locked bool) virtual.AttributesMask {
	if locked {
		return lockedMask
	}
	return plainMask
}

// run performs one call; it returns "ok" or "err" (the class of the result).
func (w *world) run(o op) string { return w.runOn(o, nil) }

func (w *world) runOn(o op, fixed []virtual.PrepopulatedDirectory) string {
	ctx := context.Background()
	pick := func(i int) virtual.PrepopulatedDirectory {
		if fixed != nil {
			if i < 0 {
				i = -i
			}
			return fixed[i%len(fixed)]
		}
		d, _ := w.dir(i)
		return d
	}
	d := pick(o.D)
	name := path.MustNewComponent(names[o.N%len(names)])
	errClass := func(err error) string {
		if err != nil {
			return "err"
		}
		return "ok"
	}
	stClass := func(s virtual.Status) string {
		if s != virtual.StatusOK {
			return "err"
		}
		return "ok"
	}
	if o.F {
		w.failNext.Store(true)
		defer w.failNext.Store(false)
	}
	switch o.K {
	case "LookupChild":
		_, err := d.LookupChild(name)
		return errClass(err)
	case "LookupAllChildren":
		_, _, err := d.LookupAllChildren()
		return errClass(err)
	case "ReadDir":
		_, err := d.ReadDir()
		return errClass(err)
	case "Remove":
		return errClass(d.Remove(name))
	case "RemoveAll":
		return errClass(d.RemoveAll(name))
	case "RemoveAllChildren":
		return errClass(d.RemoveAllChildren(o.A))
	case "CreateChildren":
		children := map[path.Component]virtual.InitialChild{}
		for i, k := range o.C {
			ni := (o.N + i) % len(names)
			cn := path.MustNewComponent(names[ni])
			if o.X {
				if ni < 2 {
					k = []int{0, 2, 3}[k%3]
				} else {
					k = 1
				}
			}
			switch k % 4 {
			case 0:
				children[cn] = virtual.InitialChild{}.FromDirectory(&fetcher{w: w})
			case 1:
				children[cn] = virtual.InitialChild{}.FromLeaf(w.newLeaf(filesystem.FileTypeRegularFile))
			case 2:
				children[cn] = virtual.InitialChild{}.FromDirectory(&fetcher{w: w, fail: true})
			default:
				children[cn] = virtual.InitialChild{}.FromDirectory(&fetcher{w: w, depth: 2})
			}
		}
		return errClass(d.CreateChildren(children, o.A))
	case "CreateAndEnterPrepopulatedDirectory":
		_, err := d.CreateAndEnterPrepopulatedDirectory(name)
		return errClass(err)
	case "FilterChildren":
		n := 0
		err := d.FilterChildren(func(node virtual.InitialChild, remove virtual.ChildRemover) bool {
			n++
			if o.A {
				remove()
			}
			return !(o.B && n >= 2)
		})
		return errClass(err)
	case "InstallHooks":
		d.InstallHooks(fileAllocator{w}, symlinkFactory{w}, errorLogger{}, func(virtual.AttributesMask, *virtual.Attributes) {}, virtual.NoNamedAttributesFactory)
		return "ok"
	case "VirtualLookup":
		var out virtual.Attributes
		_, s := d.VirtualLookup(ctx, name, mask(o.A), &out)
		return stClass(s)
	case "VirtualOpenChild":
		var out virtual.Attributes
		var create *virtual.Attributes
		var existing *virtual.OpenExistingOptions
		if o.A || !o.B {
			create = (&virtual.Attributes{}).SetPermissions(virtual.PermissionsRead)
		}
		if o.B {
			existing = &virtual.OpenExistingOptions{}
		}
		_, _, _, s := d.VirtualOpenChild(ctx, name, virtual.ShareMaskRead, create, existing, mask(false), &out)
		return stClass(s)
	case "VirtualMkdir":
		var out virtual.Attributes
		_, _, s := d.VirtualMkdir(ctx, name, &virtual.Attributes{}, mask(o.A), &out)
		return stClass(s)
	case "VirtualMknod":
		var out virtual.Attributes
		attrs := &virtual.Attributes{}
		switch o.M % 4 {
		case 0:
			attrs.SetFileType(filesystem.FileTypeFIFO)
		case 1:
			attrs.SetFileType(filesystem.FileTypeSocket)
		case 2:
			attrs.SetFileType(filesystem.FileTypeSymlink)
			attrs.SetSymlinkTarget(path.UNIXFormat.NewParser("target"))
		default:
			attrs.SetFileType(filesystem.FileTypeBlockDevice)
		}
		_, _, s := d.VirtualMknod(ctx, name, attrs, mask(false), &out)
		return stClass(s)
	case "VirtualLink":
		var out virtual.Attributes
		var l virtual.Leaf = foreignLeaf{}
		w.mu.Lock()
		if len(w.leaves) > 0 && !o.A {
			l = w.leaves[o.M%len(w.leaves)]
		}
		w.mu.Unlock()
		_, s := d.VirtualLink(ctx, name, l, mask(false), &out)
		return stClass(s)
	case "VirtualReadDir":
		return stClass(d.VirtualReadDir(ctx, uint64(o.M), mask(o.A), &reporter{left: 1 + o.N}))
	case "VirtualRename":
		d2 := pick(o.D2)
		if !o.X {
			// Moving a directory into itself or its own subtree is not refused by the
			// code (TODO in VirtualRename; recorded under C13).  The resulting cycle
			// makes FilterChildren recurse until the process dies of stack overflow,
			// which no harness survives: such renames are not issued.
			if child, err := d.LookupChild(name); err == nil {
				if x, _ := child.GetPair(); x != nil && (x == d2 || w.below(x, d2, 0)) {
					return "skip"
				}
			}
		}
		_, _, s := d.VirtualRename(ctx, name, d2, path.MustNewComponent(names[o.N2%len(names)]))
		return stClass(s)
	case "VirtualRemove":
		_, s := d.VirtualRemove(ctx, name, o.A, o.B)
		return stClass(s)
	case "VirtualGetAttributes":
		var out virtual.Attributes
		d.VirtualGetAttributes(ctx, mask(o.A), &out)
		return "ok"
	case "VirtualSetAttributes":
		var out virtual.Attributes
		in := &virtual.Attributes{}
		switch o.M % 3 {
		case 0:
			in.SetSizeBytes(1)
		case 1:
			in.SetOwnerUserID(1)
		}
		return stClass(d.VirtualSetAttributes(ctx, in, mask(o.A), &out))
	case "VirtualApply":
		if d.VirtualApply(&struct{}{}) {
			return "ok"
		}
		return "err"
	}
	return "skip"
}

// below reports whether target is a directory in the subtree of x.
func (w *world) below(x, target virtual.PrepopulatedDirectory, depth int) bool {
	if depth > 64 {
		return true
	}
	dirs, _, err := x.LookupAllChildren()
	if err != nil {
		return false
	}
	for _, e := range dirs {
		if e.Child == target || w.below(e.Child, target, depth+1) {
			return true
		}
	}
	return false
}

var stormMethods = []string{
	"VirtualRename", "VirtualRename", "VirtualRename", "VirtualRemove", "VirtualRemove", "RemoveAllChildren",
	"CreateAndEnterPrepopulatedDirectory", "CreateAndEnterPrepopulatedDirectory", "VirtualMkdir", "VirtualMkdir",
	"VirtualLookup", "VirtualReadDir", "LookupChild", "Remove", "RemoveAll", "CreateChildren", "FilterChildren",
	"VirtualOpenChild", "LookupAllChildren", "VirtualGetAttributes",
}

// storm runs T goroutines, each issuing R calls on random directories;
// returns false if they do not all finish in time.
func (w *world) storm(o op) bool {
	t := o.T
	if t < 2 {
		t = 2
	}
	if t > 16 {
		t = 16
	}
	n := o.R
	if n < 1 {
		n = 1
	}
	if n > 5000 {
		n = 5000
	}
	root := rng.New(o.S)
	// Goroutines address only directories that existed before the storm: a
	// directory under construction is not visible to other threads in the real
	// system either (VirtualMkdir reads the new child's attributes without its
	// lock, relying on exactly that).  Directories created during the storm are
	// still reached through their parents, by name.
	w.mu.Lock()
	snapshot := append([]virtual.PrepopulatedDirectory(nil), w.dirs...)
	w.mu.Unlock()
	if len(snapshot) > 8 {
		snapshot = snapshot[:8] // stay on the oldest directories: more contention
	}
	var wg sync.WaitGroup
	for i := 0; i < t; i++ {
		r, _ := root.Split()
		wg.Add(1)
		go func() {
			defer wg.Done()
			for j := 0; j < n; j++ {
				nd := len(snapshot)
				c := op{K: stormMethods[r.Intn(len(stormMethods))], D: r.Intn(nd), N: r.Intn(4), D2: r.Intn(nd), N2: r.Intn(4),
					A: r.Chance(70), B: r.Chance(70), M: r.Intn(3), X: true}
				// Names a, b (0, 1) are only ever directories, c, d (2, 3) only ever files,
				// and directories are only renamed within their parent: no concurrent
				// interleaving can then move a directory below itself.
				switch c.K {
				case "VirtualMkdir", "CreateAndEnterPrepopulatedDirectory":
					c.N = r.Intn(2)
				case "VirtualOpenChild", "VirtualMknod", "VirtualLink":
					c.N = 2 + r.Intn(2)
				case "VirtualRename":
					if r.Chance(35) {
						c.D2, c.N, c.N2 = c.D, r.Intn(2), r.Intn(2)
					} else {
						c.N, c.N2 = 2+r.Intn(2), 2+r.Intn(2)
					}
				}
				if c.K == "CreateChildren" {
					c.C = []int{r.Intn(4), r.Intn(4)}
				}
				if c.K == "RemoveAllChildren" {
					c.A = r.Chance(20)
					if c.D == 0 {
						c.A = false // keep the root alive
					}
				}
				if c.K == "VirtualLookup" || c.K == "VirtualReadDir" {
					c.A = true // attributes that need the child's lock
				}
				w.runOn(c, snapshot)
			}
		}()
	}
	done := make(chan struct{})
	go func() { wg.Wait(); close(done) }()
	select {
	case <-done:
		return true
	case <-time.After(30 * time.Second):
		return false
	}
}

// call runs f on its own goroutine so that a panic or a call that never
// returns ends the history instead of the harness.
func call(f func() string, timeout time.Duration) (class string, result string) {
	done := make(chan [2]string, 1)
	go func() {
		defer func() {
			if r := recover(); r != nil {
				done <- [2]string{"panic", "RPanicked"}
			}
		}()
		done <- [2]string{f(), "RReturned"}
	}()
	select {
	case s := <-done:
		return s[0], s[1]
	case <-time.After(timeout):
		if os.Getenv("VERIF_LOCKS_DEBUG") != "" {
			buf := make([]byte, 1<<20)
			os.Stderr.Write(buf[:runtime.Stack(buf, true)])
		}
		hangs++
		return "hang", "RHung"
	}
}

// scriptedMutex is a TryLocker whose TryLock answers come from a script and
// which records every call made on it.
type scriptedMutex struct {
	id  int
	run *pileRun
}

type pileRun struct {
	calls  []string
	script []bool
	used   []bool
}

func (m *scriptedMutex) Lock() { m.run.calls = append(m.run.calls, g.App("ALock", fmt.Sprint(m.id))) }
func (m *scriptedMutex) Unlock() {
	m.run.calls = append(m.run.calls, g.App("AUnlock", fmt.Sprint(m.id)))
}
func (m *scriptedMutex) TryLock() bool {
	b := true
	if len(m.run.script) > 0 {
		b, m.run.script = m.run.script[0], m.run.script[1:]
	}
	m.run.used = append(m.run.used, b)
	m.run.calls = append(m.run.calls, g.App("ATryLock", fmt.Sprint(m.id), g.Bool(b)))
	return b
}

func executePile(h history, info *hcommon.Info) string {
	run := &pileRun{}
	mutexes := map[int]*scriptedMutex{}
	mu := func(i int) *scriptedMutex {
		if i < 0 {
			i = -i
		}
		i %= 8
		if mutexes[i] == nil {
			mutexes[i] = &scriptedMutex{id: i, run: run}
		}
		return mutexes[i]
	}
	var lp re_sync.LockPile
	var obs []string
	backedOff, recursive := false, false
	for _, o := range h.Ops {
		run.calls, run.script, run.used = nil, append([]bool(nil), o.O...), nil
		var cmd string
		var f func()
		switch o.K {
		case "plock":
			var ls []re_sync.TryLocker
			var ids []string
			for _, l := range o.L {
				ls = append(ls, mu(l))
				ids = append(ids, fmt.Sprint(mu(l).id))
			}
			cmd = g.App("CLock", g.List(ids))
			f = func() { lp.Lock(ls...) }
		case "punlock":
			cmd = g.App("CUnlock", fmt.Sprint(mu(o.N).id))
			f = func() { lp.Unlock(mu(o.N)) }
		case "punlockall":
			cmd = "CUnlockAll"
			f = func() { lp.UnlockAll() }
		default:
			continue
		}
		class, result := call(func() string { f(); return "ok" }, 5*time.Second)
		info.Events++
		info.Ops[o.K]++
		info.Outs[o.K+":"+class]++
		if result == "RHung" {
			info.Outs["hang:"+o.K]++
			obs = append(obs, g.App("mkPO", cmd, "[]", "false", g.List([]string{g.App("ALock", "99"), g.App("ALock", "99")})))
			break
		}
		var oracle []string
		for _, b := range o.O {
			oracle = append(oracle, g.Bool(b))
		}
		for _, c := range run.calls {
			if strings.HasPrefix(c, "(ATryLock") && strings.HasSuffix(c, "false)") {
				backedOff = true
			}
		}
		if o.K == "punlock" && class == "ok" && len(run.calls) == 0 {
			recursive = true
		}
		if len(lp) > info.Extra["max_pile"] {
			info.Extra["max_pile"] = len(lp)
		}
		obs = append(obs, g.App("mkPO", cmd, g.List(oracle), g.Bool(result == "RPanicked"), g.List(run.calls)))
	}
	info.Nontrivial = backedOff && recursive
	return g.App("mkPileCase", g.List(obs))
}

// hangs counts calls that did not return in this process.  Every one costs
// its full timeout and leaves a goroutine behind; after a few, the remaining
// histories are not run (recorded as "not-run-after-hangs").
var hangs int

func (area) Execute(raw json.RawMessage) (term string, info *hcommon.Info, err error) {
	var h history
	if err := json.Unmarshal(raw, &h); err != nil {
		return "", nil, err
	}
	info = hcommon.NewInfo()
	if hangs >= 3 {
		info.Outs["not-run-after-hangs"]++
		return g.App("mkCase", "[]"), info, nil
	}
	if h.Pile {
		return executePile(h, info), info, nil
	}
	w := &world{}
	w.root = virtual.NewInMemoryPrepopulatedDirectory(
		fileAllocator{w}, symlinkFactory{w}, errorLogger{}, handleAllocator{w},
		sort.Sort, hiddenMatcher, clock.SystemClock, virtual.CaseSensitiveComponentNormalizer,
		func(virtual.AttributesMask, *virtual.Attributes) {}, virtual.NoNamedAttributesFactory)

	var steps []string
	sawErr, sawRemovedDirCall, sawRmdir := false, false, false
	removed := map[int]bool{}
	for _, o := range h.Ops {
		known := false
		for _, m := range methods {
			known = known || m == o.K
		}
		var class, result string
		method := o.K
		switch {
		case o.K == "storm":
			class, result = call(func() string {
				if w.storm(o) {
					return "ok"
				}
				return "hang"
			}, 40*time.Second)
			if class == "hang" {
				result = "RHung"
			}
		case known:
			_, di := w.dir(o.D)
			if removed[di] {
				sawRemovedDirCall = true
			}
			before := w.ndirs()
			class, result = call(func() string { return w.run(o) }, 3*time.Second)
			_ = before
		default:
			continue // unknown operation: no-op (keeps minimised histories valid)
		}
		info.Events++
		info.Ops[method]++
		info.Outs[method+":"+class]++
		if class == "err" {
			sawErr = true
		}
		// lock state of every directory created so far
		w.mu.Lock()
		dirs := append([]virtual.PrepopulatedDirectory(nil), w.dirs...)
		w.mu.Unlock()
		var free []string
		leak := false
		for _, d := range dirs {
			f := virtual.VerifLockIsFree(d)
			free = append(free, g.Bool(f))
			leak = leak || !f
		}
		if len(dirs) > info.Extra["max_directories"] {
			info.Extra["max_directories"] = len(dirs)
		}
		steps = append(steps, g.App("mkStep", g.Str(method), result, g.List(free)))
		if leak {
			info.Outs["lock-leak:"+method]++
		}
		if leak || result != "RReturned" {
			break // later calls would block on the leaked lock
		}
		// which directories are gone (for the non-triviality rule)
		if class == "ok" && (o.K == "VirtualRemove" || o.K == "Remove" || o.K == "RemoveAll" || o.K == "RemoveAllChildren" || o.K == "VirtualRename") {
			for i, d := range dirs {
				if !removed[i] && i != 0 {
					if err := d.CreateChildren(map[path.Component]virtual.InitialChild{}, false); errors.Is(err, syscall.ENOENT) {
						removed[i] = true
						sawRmdir = true
					}
				}
			}
		}
	}
	info.Nontrivial = sawErr && sawRemovedDirCall && sawRmdir
	return g.App("mkCase", g.List(steps)), info, nil
}

func main() {
	_ = fmt.Sprint
	hcommon.Main(area{})
}
