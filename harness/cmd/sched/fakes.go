package main

import (
	"context"
	"crypto/sha256"
	"encoding/binary"
	"encoding/hex"
	"encoding/json"
	"fmt"
	"strconv"
	"strings"
	"time"

	remoteexecution "github.com/bazelbuild/remote-apis/build/bazel/remote/execution/v2"
	"github.com/buildbarn/bb-remote-execution/pkg/scheduler/initialsizeclass"
	"github.com/buildbarn/bb-remote-execution/pkg/scheduler/invocation"
	"github.com/buildbarn/bb-remote-execution/pkg/scheduler/platform"
	"github.com/buildbarn/bb-storage/pkg/blobstore/buffer"
	"github.com/buildbarn/bb-storage/pkg/blobstore/slicing"
	"github.com/buildbarn/bb-storage/pkg/digest"
	"github.com/google/uuid"
	"google.golang.org/grpc/metadata"
	"google.golang.org/protobuf/types/known/anypb"
	"google.golang.org/protobuf/types/known/durationpb"
	"google.golang.org/protobuf/types/known/wrapperspb"

	"cloud.google.com/go/longrunning/autogen/longrunningpb"

	g "verif/harness/internal/gallina"
)

const backgroundKey = 4294967295

// ---- naming tables --------------------------------------------------------------

var instanceComponents = []string{"", "a", "b", "c"} // component ids 1..3

func instanceString(comps []uint64) string {
	var parts []string
	for _, c := range comps {
		parts = append(parts, instanceComponents[c])
	}
	return strings.Join(parts, "/")
}

func instanceComps(s string) []uint64 {
	if s == "" {
		return nil
	}
	var out []uint64
	for _, p := range strings.Split(s, "/") {
		for i, n := range instanceComponents {
			if n == p && i > 0 {
				out = append(out, uint64(i))
			}
		}
	}
	return out
}

func platformMessage(id uint64) *remoteexecution.Platform {
	return &remoteexecution.Platform{Properties: []*remoteexecution.Platform_Property{{Name: "p", Value: strconv.FormatUint(id, 10)}}}
}

var platformStrings = map[string]uint64{}

func init() {
	for id := uint64(0); id < 8; id++ {
		k, err := platform.NewKey(digest.EmptyInstanceName, platformMessage(id))
		if err != nil {
			panic(err)
		}
		platformStrings[k.GetPlatformString()] = id
	}
}

func digestHash(id uint64) string {
	sum := sha256.Sum256([]byte(fmt.Sprintf("action-%d", id)))
	return hex.EncodeToString(sum[:])
}

var hashToDigest = map[string]uint64{}

func init() {
	for id := uint64(0); id < 128; id++ {
		hashToDigest[digestHash(id)] = id
	}
}

func invocationKey(k uint64) invocation.Key {
	a, err := anypb.New(wrapperspb.UInt64(k))
	if err != nil {
		panic(err)
	}
	key, err := invocation.NewKey(a)
	if err != nil {
		panic(err)
	}
	return key
}

var keyStrings = map[string]uint64{}

func init() {
	for k := uint64(0); k < 16; k++ {
		keyStrings[string(invocationKey(k))] = k
	}
	keyStrings[string(invocation.BackgroundLearningKeys[0])] = backgroundKey
}

func workerID(h, t uint64) map[string]string {
	return map[string]string{"h": strconv.FormatUint(h, 10), "t": strconv.FormatUint(t, 10)}
}

func parseWorkerKey(k string) (uint64, uint64) {
	var m map[string]string
	if err := json.Unmarshal([]byte(k), &m); err != nil {
		// a corrupted scheduler state can show a worker without a key: report
		// it as a worker nobody registered instead of giving up on the run
		return 999999, 999999
	}
	h, _ := strconv.ParseUint(m["h"], 10, 64)
	t, _ := strconv.ParseUint(m["t"], 10, 64)
	return h, t
}

// sequential UUIDs: the operation index is stored big-endian in the last 8 bytes
type uuidSeq struct{ n uint64 }

func (u *uuidSeq) next() (uuid.UUID, error) {
	var id uuid.UUID
	binary.BigEndian.PutUint64(id[8:], u.n)
	u.n++
	return id, nil
}

func opIndex(name string) int {
	id, err := uuid.Parse(name)
	if err != nil {
		panic(err)
	}
	return int(binary.BigEndian.Uint64(id[8:]))
}

func opName(idx int) string {
	var id uuid.UUID
	binary.BigEndian.PutUint64(id[8:], uint64(idx))
	return id.String()
}

// ---- CAS --------------------------------------------------------------------------

type fakeCAS struct{ ct *controller }

func (f fakeCAS) Get(ctx context.Context, d digest.Digest) buffer.Buffer {
	c, _ := ctx.Value(callKey{}).(*call)
	if c == nil || c.script == nil {
		return buffer.NewBufferFromError(fmt.Errorf("no script"))
	}
	return buffer.NewProtoBufferFromProto(c.script.action(), buffer.UserProvided)
}

func (f fakeCAS) GetFromComposite(ctx context.Context, parentDigest, childDigest digest.Digest, slicer slicing.BlobSlicer) buffer.Buffer {
	panic("unused")
}
func (f fakeCAS) Put(ctx context.Context, d digest.Digest, b buffer.Buffer) error { panic("unused") }
func (f fakeCAS) FindMissing(ctx context.Context, digests digest.Set) (digest.Set, error) {
	panic("unused")
}
func (f fakeCAS) GetCapabilities(ctx context.Context, instanceName digest.InstanceName) (*remoteexecution.ServerCapabilities, error) {
	panic("unused")
}

// ---- action router, selector, learners -----------------------------------------------

type learnerScript struct {
	ID   uint64      `json:"id"`
	Succ *succScript `json:"succ,omitempty"`
	Fail *failScript `json:"fail,omitempty"`
}
type succScript struct {
	Idx     int            `json:"idx"`
	Dur     int64          `json:"dur"`
	Timeout int64          `json:"timeout"`
	L       *learnerScript `json:"l"`
}
type failScript struct {
	Dur     int64          `json:"dur"`
	Timeout int64          `json:"timeout"`
	L       *learnerScript `json:"l"`
}

func (l *learnerScript) term() string {
	succ, fail := "None", "None"
	if l.Succ != nil {
		succ = g.Some("(" + g.Nat(l.Succ.Idx) + ", " + g.Z(l.Succ.Dur) + ", " + g.Z(l.Succ.Timeout) + ", " + l.Succ.L.term() + ")")
	}
	if l.Fail != nil {
		fail = g.Some("(" + g.Z(l.Fail.Dur) + ", " + g.Z(l.Fail.Timeout) + ", " + l.Fail.L.term() + ")")
	}
	return g.App("Learner", g.N(l.ID), succ, fail)
}

type execScript struct {
	Inst    []uint64       `json:"inst"`
	Plat    uint64         `json:"plat"`
	Digest  uint64         `json:"d"`
	DNC     bool           `json:"dnc,omitempty"`
	Prio    int32          `json:"prio"`
	Keys    []uint64       `json:"keys"`
	SelIdx  int            `json:"idx"`
	SelDur  int64          `json:"dur"`
	SelTO   int64          `json:"timeout"`
	Learner *learnerScript `json:"l"`
}

func (x *execScript) action() *remoteexecution.Action {
	return &remoteexecution.Action{
		Platform:   platformMessage(x.Plat),
		DoNotCache: x.DNC,
		Timeout:    durationpb.New(time.Hour),
	}
}

type scriptedRouter struct{ ct *controller }

func (r scriptedRouter) RouteAction(ctx context.Context, digestFunction digest.Function, action *remoteexecution.Action, requestMetadata *remoteexecution.RequestMetadata) (*remoteexecution.Action, platform.Key, []invocation.Key, initialsizeclass.Selector, error) {
	c := ctx.Value(callKey{}).(*call)
	x := c.script
	key, err := platform.NewKey(digestFunction.GetInstanceName(), action.Platform)
	if err != nil {
		return nil, platform.Key{}, nil, nil, err
	}
	var keys []invocation.Key
	for _, k := range x.Keys {
		keys = append(keys, invocationKey(k))
	}
	return action, key, keys, &scriptedSelector{ct: r.ct, x: x}, nil
}

type scriptedSelector struct {
	ct *controller
	x  *execScript
}

func (s *scriptedSelector) Select(sizeClasses []uint32) (int, time.Duration, time.Duration, initialsizeclass.Learner) {
	s.ct.emit("(OGhost GSelect)")
	return s.x.SelIdx, time.Duration(s.x.SelDur), time.Duration(s.x.SelTO), &scriptedLearner{ct: s.ct, l: s.x.Learner}
}
func (s *scriptedSelector) Abandoned() { s.ct.emit("(OGhost GSelAbandoned)") }

type scriptedLearner struct {
	ct *controller
	l  *learnerScript
}

func (l *scriptedLearner) Succeeded(duration time.Duration, sizeClasses []uint32) (int, time.Duration, time.Duration, initialsizeclass.Learner) {
	l.ct.emit(g.App("OGhost", g.App("GSucceeded", g.N(l.l.ID))))
	if l.l.Succ == nil {
		return 0, 0, 0, nil
	}
	return l.l.Succ.Idx, time.Duration(l.l.Succ.Dur), time.Duration(l.l.Succ.Timeout), &scriptedLearner{ct: l.ct, l: l.l.Succ.L}
}
func (l *scriptedLearner) Failed(timedOut bool) (time.Duration, time.Duration, initialsizeclass.Learner) {
	l.ct.emit(g.App("OGhost", g.App("GFailed", g.N(l.l.ID), g.Bool(timedOut))))
	if l.l.Fail == nil {
		return 0, 0, nil
	}
	return time.Duration(l.l.Fail.Dur), time.Duration(l.l.Fail.Timeout), &scriptedLearner{ct: l.ct, l: l.l.Fail.L}
}
func (l *scriptedLearner) Abandoned() {
	l.ct.emit(g.App("OGhost", g.App("GAbandoned", g.N(l.l.ID))))
}

// ---- Execute / WaitExecution stream -----------------------------------------------------

type fakeStream struct {
	ct *controller
	c  *call
}

func respTerm(r *remoteexecution.ExecuteResponse) string {
	code := uint64(0)
	if r.Status != nil {
		code = uint64(r.Status.Code)
	}
	exit := int64(0)
	if r.Result != nil {
		exit = int64(r.Result.ExitCode)
	}
	tag := uint64(0)
	if strings.HasPrefix(r.Message, "r") {
		tag, _ = strconv.ParseUint(r.Message[1:], 10, 64)
	}
	return g.App("mkResp", g.N(code), g.Z(exit), g.N(tag))
}

func (s *fakeStream) Send(op *longrunningpb.Operation) error {
	var md remoteexecution.ExecuteOperationMetadata
	if err := op.Metadata.UnmarshalTo(&md); err != nil {
		panic(err)
	}
	done := "None"
	if op.Done {
		var r remoteexecution.ExecuteResponse
		if err := op.GetResponse().UnmarshalTo(&r); err != nil {
			panic(err)
		}
		done = g.Some(respTerm(&r))
	}
	s.ct.emit(g.App("OMsg", g.Nat(s.c.id), g.Nat(opIndex(op.Name)), g.N(uint64(md.Stage)), done))
	return nil
}
func (s *fakeStream) Context() context.Context     { return s.c.ctx }
func (s *fakeStream) SetHeader(metadata.MD) error  { return nil }
func (s *fakeStream) SendHeader(metadata.MD) error { return nil }
func (s *fakeStream) SetTrailer(metadata.MD)       {}
func (s *fakeStream) SendMsg(m interface{}) error  { return nil }
func (s *fakeStream) RecvMsg(m interface{}) error  { return nil }
