package main

// History generator for the scheduler harness. It generates online: it
// runs the implementation while choosing the next action, so that actions
// refer to calls, operations and workers that exist.

import (
	"sort"

	"github.com/buildbarn/bb-remote-execution/pkg/scheduler"

	"verif/harness/internal/rng"
)

var priorities = []int32{0, 0, 0, 1, -3, 7, 50}

const sec = int64(1_000_000_000)

func genCfg(r *rng.R) cfgJSON {
	j := func() int64 { return int64(r.Intn(1000)) }
	return cfgJSON{
		Update:   []int64{1, 5}[r.Intn(2)]*sec + j(),
		NoWait:   []int64{10, 60}[r.Intn(2)]*sec + j(),
		PQ:       []int64{30, 900}[r.Intn(2)]*sec + j(),
		Busy:     10*sec + j(),
		Idle:     []int64{5, 60}[r.Intn(2)]*sec + j(),
		Retry:    []int{0, 1, 3}[r.Intn(3)],
		WorkerTO: []int64{20, 60}[r.Intn(2)]*sec + j(),
	}
}

type genPQ struct {
	prefix []uint64
	plat   uint64
	scs    []uint32
	pre    bool
}

func genLearner(r *rng.R, id *uint64, nsc int, depth int) *learnerScript {
	l := &learnerScript{ID: *id}
	*id++
	if depth < 2 && nsc > 1 && r.Chance(50) {
		l.Fail = &failScript{Dur: int64(r.Intn(50)) * sec, Timeout: int64(1+r.Intn(100)) * sec, L: genLearner(r, id, nsc, depth+1)}
	}
	if depth < 2 && r.Chance(30) {
		l.Succ = &succScript{Idx: r.Intn(nsc), Dur: int64(r.Intn(50)) * sec, Timeout: int64(1+r.Intn(100)) * sec, L: genLearner(r, id, nsc, 2)}
	}
	return l
}

func isPrefix(a, b []uint64) bool {
	if len(a) > len(b) {
		return false
	}
	for i := range a {
		if a[i] != b[i] {
			return false
		}
	}
	return true
}

func cleanupTie(d *scheduler.VerifState) bool {
	seen := map[int64]bool{}
	check := func(t int64) bool {
		if t == 0 {
			return false
		}
		if seen[t] {
			return true
		}
		seen[t] = true
		return false
	}
	for _, o := range d.Operations {
		if check(o.Cleanup) {
			return true
		}
	}
	for _, pq := range d.PlatformQueues {
		for _, scq := range pq.SizeClassQueues {
			if check(scq.Cleanup) {
				return true
			}
			for _, w := range scq.Workers {
				if check(w.Cleanup) {
					return true
				}
			}
		}
	}
	return false
}

func generate(r *rng.R, thorough bool, index int) *history {
	// every third history concentrates on the hand-out policy: one
	// predeclared queue with stickiness limits, few workers, many queued
	// tasks of equal priority in sibling invocations, clock steps of the
	// order of the stickiness windows
	policy := index%3 == 2
	// every third history concentrates on size-class retries: one predeclared
	// queue with 2-3 size classes, workers on the smallest and the largest,
	// learners that retry on the largest, many failing completions, workers
	// that re-request their task (Idle re-synchronisation while executing)
	retry := index%3 == 1
	h := &history{Cfg: genCfg(r)}
	w := newWorld(h.Cfg)
	defer w.ct.shutdown()
	nextCall := 0
	var learnerID uint64 = 1
	var respTag uint64 = 1
	var last *scheduler.VerifState

	do := func(o opJSON) {
		if w.ct.hung {
			return // the implementation is wedged: the history ends here
		}
		h.Ops = append(h.Ops, o)
		w.apply(o)
		w.ct.takeObs()
		if !w.ct.hung {
			if d := w.bq.VerifDump(); d != nil {
				last = d
			} else {
				w.ct.hung = true // the queue lock is stuck: the history ends here
			}
		}
	}
	dt := func() int64 {
		if (policy && r.Chance(80)) || (retry && r.Chance(92)) {
			return int64(r.Intn(4))*sec + 1 + int64(r.Intn(1000))
		}
		switch x := r.Intn(100); {
		case x < 70:
			return 1 + int64(r.Intn(1000))
		case x < 90:
			return 1_000_000 + int64(r.Intn(1_000_000_000))
		default:
			return []int64{2, 6, 11, 25, 61, 100, 1000}[r.Intn(7)]*sec + int64(r.Intn(1000))
		}
	}
	newCall := func() int { c := nextCall; nextCall++; return c }

	// platform queues
	var pqs []genPQ
	npre := r.Intn(3)
	if policy || retry {
		npre = 1
	}
	prefixes := [][]uint64{{}, {1}, {1, 2}, {2}}
	for i := 0; i < npre; i++ {
		p := genPQ{prefix: prefixes[r.Intn(len(prefixes))], plat: uint64(r.Intn(2)), pre: true}
		nsc := 1 + r.Intn(3)
		if retry {
			nsc = 2 + r.Intn(2)
		}
		for s := 0; s < nsc; s++ {
			p.scs = append(p.scs, uint32(1+s*2+r.Intn(2)))
		}
		var limits []int64
		nl := r.Intn(4)
		if policy {
			nl = 2 + r.Intn(2)
			p.scs = p.scs[:1]
		}
		for l := nl; l > 0; l-- {
			limits = append(limits, int64(1+r.Intn(12))*sec)
		}
		dup := false
		for _, q := range pqs {
			if q.plat == p.plat && isPrefix(q.prefix, p.prefix) && len(q.prefix) == len(p.prefix) {
				dup = true
			}
		}
		do(opJSON{K: "reg", C: newCall(), DT: dt(), SK: &skeyJSON{Prefix: p.prefix, Plat: p.plat}, Limits: limits,
			MaxBG: r.Intn(3), BGPrio: priorities[r.Intn(len(priorities))], SCs: p.scs})
		if !dup {
			pqs = append(pqs, p)
		}
	}
	// workers
	var workers []workerJSON
	nw := 1 + r.Intn(6)
	if retry {
		nw = 2 + r.Intn(3)
	}
	if policy {
		nw = 1 + r.Intn(3)
	}
	for i := 0; i < nw; i++ {
		var sk skeyJSON
		if len(pqs) > 0 && (policy || retry || r.Chance(75)) {
			p := pqs[r.Intn(len(pqs))]
			sk = skeyJSON{Prefix: p.prefix, Plat: p.plat, SC: p.scs[r.Intn(len(p.scs))]}
			if retry {
				// alternate between the smallest and the largest size class
				sk.SC = p.scs[0]
				if i%2 == 1 {
					sk.SC = p.scs[len(p.scs)-1]
				}
			}
		} else {
			sk = skeyJSON{Prefix: prefixes[r.Intn(len(prefixes))], Plat: uint64(r.Intn(2)), SC: uint32(r.Intn(2))}
			known := false
			for _, q := range pqs {
				if q.plat == sk.Plat && len(q.prefix) == len(sk.Prefix) && isPrefix(q.prefix, sk.Prefix) {
					known = true
				}
			}
			if !known {
				pqs = append(pqs, genPQ{prefix: sk.Prefix, plat: sk.Plat, scs: []uint32{sk.SC}})
			}
		}
		workers = append(workers, workerJSON{SK: sk, H: uint64(r.Intn(3)), T: uint64(i)})
	}
	instances := [][]uint64{{}, {1}, {1, 2}, {1, 2, 3}, {2}, {3}}
	keyPaths := [][]uint64{{}, {1}, {2}, {1, 3}, {1, 4}, {2, 3}, {1, 3, 5}, {1, 3, 6}}

	scsFor := func(inst []uint64, plat uint64) int {
		best := -1
		n := 1
		for _, q := range pqs {
			if q.plat == plat && isPrefix(q.prefix, inst) && len(q.prefix) > best {
				best = len(q.prefix)
				n = len(q.scs)
			}
		}
		return n
	}

	syncing := func(wk workerJSON) bool {
		// a Synchronize call is in progress iff the worker exists and has no cleanup armed
		for _, pq := range last.PlatformQueues {
			for _, scq := range pq.SizeClassQueues {
				for _, x := range scq.Workers {
					hh, tt := parseWorkerKey(x.Key)
					if hh == wk.H && tt == wk.T && scq.SizeClass == wk.SK.SC && platformStrings[pq.Platform] == wk.SK.Plat &&
						instanceString(wk.SK.Prefix) == pq.InstanceNamePrefix {
						return x.Cleanup == 0
					}
				}
			}
		}
		return false
	}
	belief := func(wk workerJSON) (uint64, bool) {
		for _, o := range last.Operations {
			if o.CurrentWorker != "" && o.CurrentWorker[0] == '{' {
				hh, tt := parseWorkerKey(o.CurrentWorker)
				if hh == wk.H && tt == wk.T && o.SizeClass == wk.SK.SC && platformStrings[o.Platform] == wk.SK.Plat &&
					instanceString(wk.SK.Prefix) == o.InstanceNamePrefix {
					_, d := parseDigestKey(o.ActionDigestHash)
					return d, true
				}
			}
		}
		return 0, false
	}

	type usedDigest struct {
		d    uint64
		inst []uint64
	}
	var policyUsed []usedDigest
	last = w.bq.VerifDump()
	if last == nil {
		last = &scheduler.VerifState{}
	}
	// stale re-attachment: two clients share one task; the first leaves; just
	// before its operation's abandonment timeout a WaitExecution call for that
	// operation looks it up and is held at its second critical section; the
	// timeout passes and the operation is removed; only then the call goes on.
	// If it still gets attached, it leaves again and the timeout passes once more.
	live := func(id int) (atGate, returned bool) {
		w.ct.mu.Lock()
		defer w.ct.mu.Unlock()
		c := w.ct.calls[id]
		if c == nil {
			return false, true
		}
		return c.atGate, c.returned
	}
	leave := func(id int) {
		for i := 0; i < 3; i++ {
			at, ret := live(id)
			if ret {
				return
			}
			if at {
				do(opJSON{K: "enter", C: id, DT: 1 + int64(r.Intn(500))})
			} else {
				do(opJSON{K: "cancel", C: id})
			}
		}
	}
	staleReattach := func() {
		var cands []genPQ
		for _, p := range pqs {
			for _, q := range last.PlatformQueues {
				if q.InstanceNamePrefix == instanceString(p.prefix) && platformStrings[q.Platform] == p.plat {
					cands = append(cands, p)
					break
				}
			}
		}
		if len(cands) == 0 {
			return
		}
		p := cands[r.Intn(len(cands))]
		dg := 40 + uint64(r.Intn(5))*2 + p.plat%2
		if dg%5 == 3 {
			dg += 2
		}
		inst := append(append([]uint64{}, p.prefix...), instances[r.Intn(2)]...)
		nsc := scsFor(inst, dg%2)
		mk := func(keys []uint64) *execScript {
			return &execScript{Inst: inst, Plat: dg % 2, Digest: dg, Prio: 0, Keys: keys, SelIdx: r.Intn(nsc),
				SelDur: int64(r.Intn(50)) * sec, SelTO: int64(1+r.Intn(100)) * sec, Learner: genLearner(r, &learnerID, nsc, 0)}
		}
		idxA := int(w.uuids.n)
		ca := newCall()
		do(opJSON{K: "exec", C: ca, DT: dt() % 1000, Exec: mk([]uint64{1, 3})})
		if int(w.uuids.n) != idxA+1 {
			return
		}
		cb := newCall()
		do(opJSON{K: "exec", C: cb, DT: dt() % 1000, Exec: mk([]uint64{2, 3})})
		if _, ret := live(cb); ret || int(w.uuids.n) != idxA+2 {
			return
		}
		leave(ca)
		if _, ret := live(ca); !ret {
			return
		}
		cw := newCall()
		do(opJSON{K: "wait", C: cw, DT: h.Cfg.NoWait - 2000 - int64(r.Intn(1000)), Name: idxA})
		if at, ret := live(cw); ret || !at {
			return
		}
		do(opJSON{K: "tick", C: newCall(), DT: 4000 + int64(r.Intn(1000))})
		do(opJSON{K: "enter", C: cw, DT: 1 + int64(r.Intn(500))})
		if _, ret := live(cw); ret {
			return
		}
		leave(cw)
		do(opJSON{K: "tick", C: newCall(), DT: h.Cfg.NoWait + 1000 + int64(r.Intn(1000))})
	}
	// the first client of an operation leaves; before the abandonment timeout a
	// second Execute of the same action in the same invocation attaches to that
	// very operation (or, with other invocation keys, to its task); the original
	// deadline passes while the second client waits
	reExecute := func() {
		var cands []genPQ
		for _, p := range pqs {
			for _, q := range last.PlatformQueues {
				if q.InstanceNamePrefix == instanceString(p.prefix) && platformStrings[q.Platform] == p.plat {
					cands = append(cands, p)
					break
				}
			}
		}
		if len(cands) == 0 {
			return
		}
		p := cands[r.Intn(len(cands))]
		dg := 60 + uint64(r.Intn(5))*2 + p.plat%2
		if dg%5 == 3 {
			dg += 2
		}
		inst := append(append([]uint64{}, p.prefix...), instances[r.Intn(2)]...)
		nsc := scsFor(inst, dg%2)
		mk := func(keys []uint64) *execScript {
			return &execScript{Inst: inst, Plat: dg % 2, Digest: dg, Prio: 0, Keys: keys, SelIdx: r.Intn(nsc),
				SelDur: int64(r.Intn(50)) * sec, SelTO: int64(1+r.Intn(100)) * sec, Learner: genLearner(r, &learnerID, nsc, 0)}
		}
		idxA := int(w.uuids.n)
		ca := newCall()
		do(opJSON{K: "exec", C: ca, DT: dt() % 1000, Exec: mk([]uint64{1, 3})})
		if int(w.uuids.n) != idxA+1 {
			return
		}
		leave(ca)
		if _, ret := live(ca); !ret {
			return
		}
		do(opJSON{K: "tick", C: newCall(), DT: h.Cfg.NoWait/2 + int64(r.Intn(1000))})
		keys := []uint64{1, 3}
		if r.Chance(30) {
			keys = []uint64{2, 3}
		}
		cb := newCall()
		do(opJSON{K: "exec", C: cb, DT: dt() % 1000, Exec: mk(keys)})
		do(opJSON{K: "tick", C: newCall(), DT: h.Cfg.NoWait/2 + 5000 + int64(r.Intn(1000))})
		do(opJSON{K: "tick", C: newCall(), DT: h.Cfg.NoWait/2 + int64(r.Intn(1000))})
	}
	n := 30 + r.Intn(61)
	if thorough {
		n = 60 + r.Intn(120)
	}
	lateLarge := retry && r.Chance(50)
	lateUntil := n/3 + r.Intn(n/3+1)
	for step := 0; step < n; step++ {
		// classify live calls
		var gated, blockedTimer, blocked []int
		w.ct.mu.Lock()
		for id, c := range w.ct.calls {
			if c.returned {
				continue
			}
			if c.atGate {
				gated = append(gated, id)
			} else {
				blocked = append(blocked, id)
				if c.timerCh != nil {
					blockedTimer = append(blockedTimer, id)
				}
			}
		}
		w.ct.mu.Unlock()
		sort.Ints(gated)
		sort.Ints(blocked)
		sort.Ints(blockedTimer)

		x := r.Intn(100)
		switch {
		case len(gated) > 0 && x < 35:
			do(opJSON{K: "enter", C: gated[r.Intn(len(gated))], DT: dt()})
		case x < 55:
			inst := instances[r.Intn(len(instances))]
			dg := uint64(r.Intn(6))
			if policy {
				// route to the predeclared queue, distinct digests, equal priority
				dg = uint64(r.Intn(32))*2 + pqs[0].plat%2
				for dg%5 == 3 {
					dg = uint64(r.Intn(32))*2 + pqs[0].plat%2
				}
				inst = append(append([]uint64{}, pqs[0].prefix...), instances[r.Intn(2)]...)
				// now and then a duplicate of an earlier request (same digest and
				// instance name, usually another invocation): deduplication onto a
				// task that is already executing changes its invocations' scores
				var executing []usedDigest
				for _, o := range last.Operations {
					if o.CurrentWorker != "" && !o.HasResponse {
						ui, ud := parseDigestKey(o.ActionDigestHash)
						executing = append(executing, usedDigest{ud, ui})
					}
				}
				if len(executing) > 0 && r.Chance(25) {
					// deduplicate onto a task that is executing right now
					u := executing[r.Intn(len(executing))]
					dg, inst = u.d, u.inst
				} else if len(policyUsed) > 0 && r.Chance(10) {
					u := policyUsed[r.Intn(len(policyUsed))]
					dg, inst = u.d, u.inst
				} else {
					policyUsed = append(policyUsed, usedDigest{dg, inst})
				}
			}
			plat := dg % 2 // the platform is part of the action, hence a function of its digest
			nsc := scsFor(inst, plat)
			// do_not_cache is a field of the Action, hence a function of its digest
			ex := &execScript{Inst: inst, Plat: plat, Digest: dg, DNC: dg%5 == 3, Prio: priorities[r.Intn(len(priorities))],
				Keys: keyPaths[r.Intn(len(keyPaths))], SelIdx: r.Intn(nsc), SelDur: int64(r.Intn(50)) * sec, SelTO: int64(1+r.Intn(100)) * sec}
			if policy {
				ex.Prio = 0
				ex.DNC = false
				ex.Keys = keyPaths[3+r.Intn(5)]
			}
			ex.Learner = genLearner(r, &learnerID, nsc, 0)
			if retry {
				ex.Inst = append(append([]uint64{}, pqs[0].prefix...), instances[r.Intn(2)]...)
				ex.Plat = pqs[0].plat
				ex.Digest = uint64(r.Intn(16))*2 + pqs[0].plat%2
				ex.DNC = ex.Digest%5 == 3
				ex.SelIdx = 0
				nsc = len(pqs[0].scs)
				ex.Learner = genLearner(r, &learnerID, nsc, 0)
				if ex.Learner.Fail == nil {
					ex.Learner.Fail = &failScript{Dur: int64(r.Intn(50)) * sec, Timeout: int64(1+r.Intn(100)) * sec, L: genLearner(r, &learnerID, nsc, 2)}
				}
			}
			do(opJSON{K: "exec", C: newCall(), DT: dt(), Exec: ex})
		case x < 80:
			wk := workers[r.Intn(len(workers))]
			if lateLarge && step < lateUntil && wk.SK.SC == pqs[0].scs[len(pqs[0].scs)-1] {
				// the workers of the largest size class show up late: retries are queued, not handed over directly
				continue
			}
			if syncing(wk) && !r.Chance(5) {
				continue
			}
			o := opJSON{K: "sync", C: newCall(), DT: dt(), W: &wk, Prefer: r.Chance(8)}
			d, has := belief(wk)
			if retry && has && r.Chance(30) {
				// the worker re-requests its task (Idle re-synchronisation) and then
				// reports a failure: the learner retries on the largest size class
				do(opJSON{K: "sync", C: newCall(), DT: dt(), W: &wk, St: "idle"})
				if d2, has2 := belief(wk); has2 && d2 == d && !syncing(wk) {
					do(opJSON{K: "sync", C: newCall(), DT: dt(), W: &wk, St: "done", D: d, RCode: 0, RExit: 1, RTag: respTag})
					respTag++
				}
				continue
			}
			y := r.Intn(100)
			if policy && has {
				y = r.Intn(45) // workers mostly finish their task and ask for the next one
			}
			if retry && has {
				y = []int{10, 10, 50, 50, 80, 80, 80}[r.Intn(7)] // done / still executing / lost it (Idle)
			}
			switch {
			case has && y < 45:
				o.St, o.D, o.RTag = "done", d, respTag
				respTag++
				z := r.Intn(10)
				if retry {
					z = 4 + r.Intn(6) // mostly failures, so that learners retry on the largest size class
				}
				switch {
				case z < 6:
					o.RCode, o.RExit = 0, 0
				case z < 7:
					o.RCode, o.RExit = 0, -1 // no result at all
				case z < 8:
					o.RCode, o.RExit = 0, 1
				case z < 9:
					o.RCode, o.RExit = 4, -1 // DEADLINE_EXCEEDED
				default:
					o.RCode, o.RExit = 13, -1
				}
			case has && y < 75:
				o.St, o.D = "exec", d
			case has && y < 85:
				o.St = "idle"
			case y < 89:
				o.St, o.D = "exec", uint64(r.Intn(6)) // possibly wrong digest
			case y < 92:
				// a (possibly stale) completion report for a digest that need not be the assigned one
				o.St, o.D, o.RTag = "done", uint64(r.Intn(6)), respTag
				respTag++
				o.RCode, o.RExit = 0, 0
			case y < 97 || !has:
				o.St = "idle"
			default:
				o.St = "none"
			}
			do(o)
		case x < 85 && len(blockedTimer) > 0:
			do(opJSON{K: "timer", C: blockedTimer[r.Intn(len(blockedTimer))], DT: dt()})
		case x < 89 && len(blocked) > 0:
			do(opJSON{K: "cancel", C: blocked[r.Intn(len(blocked))]})
		case x < 91:
			do(opJSON{K: "wait", C: newCall(), DT: dt(), Name: r.Intn(int(w.uuids.n) + 2)})
		case x < 93:
			do(opJSON{K: "kill", C: newCall(), DT: dt(), Name: r.Intn(int(w.uuids.n) + 2), Code: []uint32{1, 8, 10}[r.Intn(3)]})
		case x < 96:
			wk := workers[r.Intn(len(workers))]
			var p patJSON
			if r.Chance(50) {
				p.H = &wk.H
			}
			if r.Chance(40) {
				p.T = &wk.T
			}
			k := "drain"
			if r.Chance(45) {
				k = "undrain"
			}
			do(opJSON{K: k, C: newCall(), DT: dt(), SK: &wk.SK, Pat: &p})
		case x < 97:
			wk := workers[r.Intn(len(workers))]
			var p patJSON
			if r.Chance(70) {
				p.T = &wk.T
			}
			do(opJSON{K: "term", C: newCall(), DT: dt(), Pat: &p})
		case x < 98:
			wk := workers[r.Intn(len(workers))]
			do(opJSON{K: "killq", C: newCall(), DT: dt(), SK: &wk.SK, Code: 10})
		case x >= 98 && !policy && !retry && r.Chance(60):
			if r.Chance(50) {
				staleReattach()
			} else {
				reExecute()
			}
		default:
			do(opJSON{K: "tick", C: newCall(), DT: dt()})
		}
		if cleanupTie(last) {
			// exact timestamp tie in the cleanup queue: order of callbacks is
			// decided by heap layout; restart with fresh choices
			return generate(r, thorough, index)
		}
	}
	// final phase: everybody leaves, all timeouts pass
	for round := 0; round < 6; round++ {
		var ids []int
		w.ct.mu.Lock()
		for id, c := range w.ct.calls {
			if !c.returned {
				ids = append(ids, id)
			}
		}
		w.ct.mu.Unlock()
		sort.Ints(ids)
		if len(ids) == 0 {
			break
		}
		for _, id := range ids {
			w.ct.mu.Lock()
			c := w.ct.calls[id]
			at, ret := c.atGate, c.returned
			w.ct.mu.Unlock()
			if ret {
				continue
			}
			if at {
				do(opJSON{K: "enter", C: id, DT: dt() % 1000})
			} else {
				do(opJSON{K: "cancel", C: id})
			}
		}
	}
	for i := 0; i < 4; i++ {
		do(opJSON{K: "tick", C: newCall(), DT: 2000*sec + int64(r.Intn(1000))})
	}
	return h
}
