package main

// Goroutine controller: every RPC issued against the scheduler runs in its
// own goroutine ("call"). The fake clock's Now() is a gate: a call blocks
// there until the harness releases it with a clock reading, so that every
// critical section of the scheduler is entered at a moment chosen by the
// harness. After every action the harness waits until all calls are parked
// (at the gate, in a select, or returned), which it determines from the
// goroutine states reported by runtime.Stack.

import (
	"bytes"
	"context"
	"fmt"
	"os"
	"regexp"
	"runtime"
	"sort"
	"strconv"
	"sync"
	"time"

	"github.com/buildbarn/bb-storage/pkg/clock"
)

type call struct {
	id       int
	kind     string
	gid      uint64
	gate     chan time.Time
	atGate   bool
	returned bool
	timerCh  chan time.Time
	ctx      context.Context
	cancel   context.CancelFunc
	script   *execScript
}

type controller struct {
	mu    sync.Mutex
	now   time.Time
	calls map[int]*call
	byGID map[uint64]*call
	obs   []string // Gallina terms of the current event's observations
	late  []lateObs
	hung  bool
	down  bool // shutting down: gates are open
}

// shutdown opens all gates and cancels all calls, then waits for them to return.
func (ct *controller) shutdown() {
	ct.mu.Lock()
	ct.down = true
	var cs []*call
	for _, c := range ct.calls {
		cs = append(cs, c)
	}
	ct.mu.Unlock()
	for _, c := range cs {
		c.cancel()
		close(c.gate)
	}
	deadline := time.Now().Add(2 * time.Second)
	for {
		ct.mu.Lock()
		all := true
		for _, c := range cs {
			if !c.returned {
				all = false
			}
		}
		ct.mu.Unlock()
		if all || time.Now().After(deadline) {
			return
		}
		time.Sleep(100 * time.Microsecond)
	}
}

func newController(t0 time.Time) *controller {
	return &controller{now: t0, calls: map[int]*call{}, byGID: map[uint64]*call{}}
}

func curGID() uint64 {
	var buf [64]byte
	n := runtime.Stack(buf[:], false)
	// "goroutine 123 ["
	f := bytes.Fields(buf[:n])
	id, _ := strconv.ParseUint(string(f[1]), 10, 64)
	return id
}

func (ct *controller) current() *call {
	gid := curGID()
	ct.mu.Lock()
	defer ct.mu.Unlock()
	return ct.byGID[gid]
}

func (ct *controller) emit(term string) {
	ct.mu.Lock()
	ct.obs = append(ct.obs, term)
	ct.mu.Unlock()
}

// emitLate records an observation of a call that returns concurrently with
// the acting call (TerminateWorkers): reported after the acting call's
// observations, ordered by call id.
func (ct *controller) emitLate(id int, term string) {
	ct.mu.Lock()
	ct.late = append(ct.late, lateObs{id, term})
	ct.mu.Unlock()
}

type lateObs struct {
	id   int
	term string
}

func (ct *controller) takeObs() []string {
	ct.mu.Lock()
	defer ct.mu.Unlock()
	o := ct.obs
	ct.obs = nil
	sort.Slice(ct.late, func(i, j int) bool { return ct.late[i].id < ct.late[j].id })
	for _, l := range ct.late {
		o = append(o, l.term)
	}
	ct.late = nil
	return o
}

// start launches f as call id and waits for quiescence.
func (ct *controller) start(id int, kind string, script *execScript, f func(c *call)) *call {
	ctx, cancel := context.WithCancel(context.Background())
	c := &call{id: id, kind: kind, gate: make(chan time.Time), ctx: ctx, cancel: cancel, script: script}
	ctx = context.WithValue(ctx, callKey{}, c)
	c.ctx = ctx
	ready := make(chan struct{})
	go func() {
		c.gid = curGID()
		ct.mu.Lock()
		ct.calls[id] = c
		ct.byGID[c.gid] = c
		ct.mu.Unlock()
		close(ready)
		defer func() {
			if r := recover(); r != nil {
				// the panic text itself is kept out of the Gallina term (quoting)
				fmt.Fprintln(os.Stderr, "scheduler panicked:", r)
				ct.emit("(OPanic \"panic\"%string)")
			}
			ct.mu.Lock()
			c.returned = true
			delete(ct.byGID, c.gid)
			ct.mu.Unlock()
		}()
		f(c)
	}()
	<-ready
	ct.waitQuiescent()
	return c
}

type callKey struct{}

var stateRe = regexp.MustCompile(`(?m)^goroutine (\d+) \[([^\],]+)`)

// waitQuiescent blocks until every live call is parked.
func (ct *controller) waitQuiescent() {
	deadline := time.Now().Add(6 * time.Second)
	buf := make([]byte, 1<<20)
	for spins := 0; ; spins++ {
		// Read the flags BEFORE taking the goroutine snapshot: a call flagged
		// as returned / at the gate before the snapshot is still so at the
		// snapshot; reading them afterwards would mix two instants.
		type flags struct {
			gid              uint64
			returned, atGate bool
		}
		ct.mu.Lock()
		fl := make([]flags, 0, len(ct.calls))
		for _, c := range ct.calls {
			fl = append(fl, flags{c.gid, c.returned, c.atGate})
		}
		ct.mu.Unlock()
		n := runtime.Stack(buf, true)
		if n == len(buf) {
			buf = make([]byte, 2*len(buf))
			continue
		}
		states := map[uint64]string{}
		for _, m := range stateRe.FindAllSubmatch(buf[:n], -1) {
			id, _ := strconv.ParseUint(string(m[1]), 10, 64)
			states[id] = string(m[2])
		}
		quiet := true
		for _, f := range fl {
			if f.returned {
				continue
			}
			st := states[f.gid]
			if st == "select" || (st == "chan receive" && f.atGate) {
				continue
			}
			quiet = false
			break
		}
		if quiet {
			return
		}
		if time.Now().After(deadline) {
			ct.hung = true
			return
		}
		if spins < 50 {
			runtime.Gosched()
		} else {
			time.Sleep(50 * time.Microsecond)
		}
	}
}

// release lets a call parked at the clock gate continue with reading t.
func (ct *controller) release(c *call, t time.Time) bool {
	ct.mu.Lock()
	ok := c.atGate && !c.returned
	ct.mu.Unlock()
	if !ok || ct.down {
		return false
	}
	c.gate <- t
	ct.waitQuiescent()
	return true
}

func (ct *controller) gated() []int {
	ct.mu.Lock()
	defer ct.mu.Unlock()
	var ids []int
	for id, c := range ct.calls {
		if c.atGate && !c.returned {
			ids = append(ids, id)
		}
	}
	return ids
}

// ---- fake clock -----------------------------------------------------------------

type fakeClock struct{ ct *controller }

func (fc fakeClock) Now() time.Time {
	c := fc.ct.current()
	if c == nil {
		fc.ct.mu.Lock()
		defer fc.ct.mu.Unlock()
		return fc.ct.now
	}
	fc.ct.mu.Lock()
	if fc.ct.down {
		defer fc.ct.mu.Unlock()
		return fc.ct.now
	}
	c.atGate = true
	fc.ct.mu.Unlock()
	t, ok := <-c.gate
	fc.ct.mu.Lock()
	c.atGate = false
	if !ok {
		t = fc.ct.now
	}
	fc.ct.mu.Unlock()
	return t
}

func (fc fakeClock) NewContextWithTimeout(parent context.Context, timeout time.Duration) (context.Context, context.CancelFunc) {
	return context.WithCancel(parent)
}

type fakeTimer struct{}

func (fakeTimer) Stop() bool { return true }

type fakeTicker struct{}

func (fakeTicker) Stop() {}

func (fc fakeClock) NewTicker(d time.Duration) (clock.Ticker, <-chan time.Time) {
	return fakeTicker{}, make(chan time.Time)
}

func (fc fakeClock) NewTimer(d time.Duration) (clock.Timer, <-chan time.Time) {
	ch := make(chan time.Time, 1)
	if c := fc.ct.current(); c != nil {
		fc.ct.mu.Lock()
		c.timerCh = ch
		fc.ct.mu.Unlock()
	}
	return fakeTimer{}, ch
}

// debugStates prints the goroutine state of every live call (debugging aid).
func (ct *controller) debugStates() string {
	buf := make([]byte, 1<<20)
	n := runtime.Stack(buf, true)
	states := map[uint64]string{}
	for _, m := range stateRe.FindAllSubmatch(buf[:n], -1) {
		id, _ := strconv.ParseUint(string(m[1]), 10, 64)
		states[id] = string(m[2])
	}
	out := ""
	ct.mu.Lock()
	for id, c := range ct.calls {
		out += fmt.Sprintf("call %d kind=%s gid=%d returned=%v atGate=%v state=%q\n", id, c.kind, c.gid, c.returned, c.atGate, states[c.gid])
	}
	ct.mu.Unlock()
	return out
}
