// Harness for C01-C07 (scheduler): drives the real InMemoryBuildQueue
// through exported RPC methods under a goroutine controller, records every
// observable output and the VerifDump after every event.
package main

import (
	"encoding/json"
	"fmt"
	"os"
	"sort"
	"strings"
	"time"

	remoteexecution "github.com/bazelbuild/remote-apis/build/bazel/remote/execution/v2"
	"github.com/buildbarn/bb-remote-execution/pkg/proto/buildqueuestate"
	"github.com/buildbarn/bb-remote-execution/pkg/proto/remoteworker"
	"github.com/buildbarn/bb-remote-execution/pkg/scheduler"
	"github.com/buildbarn/bb-storage/pkg/auth"
	"github.com/buildbarn/bb-storage/pkg/digest"
	"google.golang.org/genproto/googleapis/rpc/status"
	grpcstatus "google.golang.org/grpc/status"
	"google.golang.org/protobuf/types/known/emptypb"

	g "verif/harness/internal/gallina"
	"verif/harness/internal/hcommon"
	"verif/harness/internal/rng"
)

type cfgJSON struct {
	Update   int64 `json:"update"`
	NoWait   int64 `json:"nowait"`
	PQ       int64 `json:"pq"`
	Busy     int64 `json:"busy"`
	Idle     int64 `json:"idle"`
	Retry    int   `json:"retry"`
	WorkerTO int64 `json:"worker"`
}

type skeyJSON struct {
	Prefix []uint64 `json:"prefix"`
	Plat   uint64   `json:"plat"`
	SC     uint32   `json:"sc"`
}

type workerJSON struct {
	SK skeyJSON `json:"sk"`
	H  uint64   `json:"h"`
	T  uint64   `json:"t"`
}

type patJSON struct {
	H *uint64 `json:"h,omitempty"`
	T *uint64 `json:"t,omitempty"`
}

type opJSON struct {
	K      string      `json:"k"`
	C      int         `json:"c"`
	DT     int64       `json:"dt,omitempty"`
	Exec   *execScript `json:"exec,omitempty"`
	Name   int         `json:"name,omitempty"`
	Code   uint32      `json:"code,omitempty"`
	W      *workerJSON `json:"w,omitempty"`
	St     string      `json:"st,omitempty"` // idle, exec, done, none
	D      uint64      `json:"d,omitempty"`
	RCode  uint32      `json:"rcode,omitempty"`
	RExit  int32       `json:"rexit,omitempty"`
	RTag   uint64      `json:"rtag,omitempty"`
	Prefer bool        `json:"prefer,omitempty"`
	SK     *skeyJSON   `json:"sk,omitempty"`
	Pat    *patJSON    `json:"pat,omitempty"`
	Limits []int64     `json:"limits,omitempty"`
	MaxBG  int         `json:"maxbg,omitempty"`
	BGPrio int32       `json:"bgprio,omitempty"`
	SCs    []uint32    `json:"scs,omitempty"`
}

type history struct {
	Cfg cfgJSON  `json:"cfg"`
	Ops []opJSON `json:"ops"`
}

// ---- world ---------------------------------------------------------------------------

type world struct {
	ct    *controller
	bq    *scheduler.InMemoryBuildQueue
	uuids *uuidSeq
	cfg   cfgJSON
	t0    time.Time
	// bookkeeping for the generator
	started map[int]bool
	// previous dump, per object, for delta encoding
	prevOps   map[int]string
	prevScqs  map[string]string
	prevHints map[string]bool
	// the last dump re-encoded as a delta without changes
	lastNullDelta string
}

const t0Nanos = int64(1_000_000_000_000)

func newWorld(cfg cfgJSON) *world {
	t0 := time.Unix(0, t0Nanos)
	ct := newController(t0)
	w := &world{ct: ct, uuids: &uuidSeq{}, cfg: cfg, t0: t0, started: map[int]bool{}, prevOps: map[int]string{}, prevScqs: map[string]string{}, prevHints: map[string]bool{}}
	allow := auth.NewStaticAuthorizer(func(digest.InstanceName) bool { return true })
	w.lastNullDelta = "(mkDelta 0 [] [] [] [] [] 0 [])"
	w.bq = scheduler.NewInMemoryBuildQueue(
		fakeCAS{ct}, fakeClock{ct}, w.uuids.next,
		&scheduler.InMemoryBuildQueueConfiguration{
			ExecutionUpdateInterval:              time.Duration(cfg.Update),
			OperationWithNoWaitersTimeout:        time.Duration(cfg.NoWait),
			PlatformQueueWithNoWorkersTimeout:    time.Duration(cfg.PQ),
			BusyWorkerSynchronizationInterval:    time.Duration(cfg.Busy),
			GetIdleWorkerSynchronizationInterval: func() time.Duration { return time.Duration(cfg.Idle) },
			WorkerTaskRetryCount:                 cfg.Retry,
			WorkerWithNoSynchronizationsTimeout:  time.Duration(cfg.WorkerTO),
		},
		1<<20, scriptedRouter{ct}, allow, allow, allow, allow)
	return w
}

func (sk skeyJSON) name() *buildqueuestate.SizeClassQueueName {
	return &buildqueuestate.SizeClassQueueName{
		PlatformQueueName: &buildqueuestate.PlatformQueueName{
			InstanceNamePrefix: instanceString(sk.Prefix),
			Platform:           platformMessage(sk.Plat),
		},
		SizeClass: sk.SC,
	}
}

func (p *patJSON) m() map[string]string {
	m := map[string]string{}
	if p != nil && p.H != nil {
		m["h"] = fmt.Sprint(*p.H)
	}
	if p != nil && p.T != nil {
		m["t"] = fmt.Sprint(*p.T)
	}
	return m
}

func codeOf(err error) uint64 {
	if err == nil {
		return 0
	}
	return uint64(grpcstatus.Code(err))
}

func (w *world) retTerm(c int, err error) string {
	return g.App("ORet", g.Nat(c), g.N(codeOf(err)))
}

func (w *world) now() time.Time {
	w.ct.mu.Lock()
	defer w.ct.mu.Unlock()
	return w.ct.now
}

func (w *world) advance(dt int64) time.Time {
	w.ct.mu.Lock()
	defer w.ct.mu.Unlock()
	if dt < 0 {
		dt = 0
	}
	w.ct.now = w.ct.now.Add(time.Duration(dt))
	return w.ct.now
}

// launch starts an RPC goroutine and releases it at its first clock gate.
func (w *world) launch(o opJSON, kind string, t time.Time, f func(c *call) string) {
	if w.started[o.C] {
		return
	}
	w.started[o.C] = true
	c := w.ct.start(o.C, kind, o.Exec, func(c *call) {
		if term := f(c); term != "" {
			if kind == "term" {
				w.ct.emitLate(c.id, term)
			} else {
				w.ct.emit(term)
			}
		}
	})
	w.ct.release(c, t)
}

// apply runs one harness action; returns the Gallina event term (without hints).
func (w *world) apply(o opJSON) string {
	t := w.advance(o.DT)
	tz := g.Z(t.UnixNano())
	switch o.K {
	case "reg":
		w.launch(o, "simple", t, func(c *call) string {
			var lim []time.Duration
			for _, l := range o.Limits {
				lim = append(lim, time.Duration(l))
			}
			prefix, _ := digest.NewInstanceName(instanceString(o.SK.Prefix))
			err := w.bq.RegisterPredeclaredPlatformQueue(prefix, platformMessage(o.SK.Plat), lim, o.MaxBG, o.BGPrio, o.SCs)
			return w.retTerm(c.id, err)
		})
		var lim, scs []string
		for _, l := range o.Limits {
			lim = append(lim, g.Z(l))
		}
		for _, s := range o.SCs {
			scs = append(scs, g.N(uint64(s)))
		}
		return g.App("ERegister", g.Nat(o.C), pkeyTerm(o.SK.Prefix, o.SK.Plat), g.List(lim), g.Nat(o.MaxBG), g.Z(int64(o.BGPrio)), g.List(scs), tz)
	case "exec":
		x := o.Exec
		w.launch(o, "stream", t, func(c *call) string {
			err := w.bq.Execute(&remoteexecution.ExecuteRequest{
				InstanceName:    instanceString(x.Inst),
				ActionDigest:    &remoteexecution.Digest{Hash: digestHash(x.Digest), SizeBytes: 100},
				ExecutionPolicy: &remoteexecution.ExecutionPolicy{Priority: x.Prio},
			}, &fakeStream{ct: w.ct, c: c})
			return w.retTerm(c.id, err)
		})
		args := g.App("mkExec", nList(x.Inst), g.N(x.Plat), g.N(x.Digest), g.Bool(x.DNC), g.Z(int64(x.Prio)), nList(x.Keys),
			"("+g.Nat(x.SelIdx)+", "+g.Z(x.SelDur)+", "+g.Z(x.SelTO)+", "+x.Learner.term()+")")
		return g.App("EStartExecute", g.Nat(o.C), args, tz)
	case "wait":
		w.launch(o, "stream", t, func(c *call) string {
			err := w.bq.WaitExecution(&remoteexecution.WaitExecutionRequest{Name: opName(o.Name)}, &fakeStream{ct: w.ct, c: c})
			return w.retTerm(c.id, err)
		})
		return g.App("EStartWait", g.Nat(o.C), g.Nat(o.Name), tz)
	case "sync":
		req := &remoteworker.SynchronizeRequest{
			WorkerId:           workerID(o.W.H, o.W.T),
			InstanceNamePrefix: instanceString(o.W.SK.Prefix),
			Platform:           platformMessage(o.W.SK.Plat),
			SizeClass:          o.W.SK.SC,
			PreferBeingIdle:    o.Prefer,
		}
		var st string
		switch o.St {
		case "idle":
			req.CurrentState = &remoteworker.CurrentState{WorkerState: &remoteworker.CurrentState_Idle{Idle: &emptypb.Empty{}}}
			st = "WIdle"
		case "exec":
			req.CurrentState = &remoteworker.CurrentState{WorkerState: &remoteworker.CurrentState_Executing_{Executing: &remoteworker.CurrentState_Executing{
				ActionDigest:   &remoteexecution.Digest{Hash: digestHash(o.D), SizeBytes: 100},
				ExecutionState: &remoteworker.CurrentState_Executing_Running{Running: &emptypb.Empty{}},
			}}}
			st = g.App("WExecuting", g.N(o.D))
		case "done":
			resp := &remoteexecution.ExecuteResponse{Message: fmt.Sprintf("r%d", o.RTag)}
			if o.RCode != 0 {
				resp.Status = &status.Status{Code: int32(o.RCode), Message: "scripted"}
			}
			if o.RExit >= 0 {
				resp.Result = &remoteexecution.ActionResult{ExitCode: o.RExit}
			}
			req.CurrentState = &remoteworker.CurrentState{WorkerState: &remoteworker.CurrentState_Executing_{Executing: &remoteworker.CurrentState_Executing{
				ActionDigest:   &remoteexecution.Digest{Hash: digestHash(o.D), SizeBytes: 100},
				ExecutionState: &remoteworker.CurrentState_Executing_Completed{Completed: resp},
			}}}
			exit := int64(o.RExit)
			if exit < 0 {
				exit = 0
			}
			st = g.App("WCompleted", g.N(o.D), g.App("mkResp", g.N(uint64(o.RCode)), g.Z(exit), g.N(o.RTag)))
		default:
			st = "WNoState"
		}
		w.launch(o, "sync", t, func(c *call) string {
			resp, err := w.bq.Synchronize(c.ctx, req)
			if err != nil {
				return w.retTerm(c.id, err)
			}
			return g.App("OSync", g.Nat(c.id), desiredTerm(resp), g.Z(resp.NextSynchronizationAt.AsTime().UnixNano()))
		})
		return g.App("EStartSync", g.Nat(o.C), g.App("mkSync", wrefTerm(*o.W), st, g.Bool(o.Prefer)), tz)
	case "kill":
		w.launch(o, "kill", t, func(c *call) string {
			_, err := w.bq.KillOperations(c.ctx, &buildqueuestate.KillOperationsRequest{
				Filter: &buildqueuestate.KillOperationsRequest_Filter{Type: &buildqueuestate.KillOperationsRequest_Filter_OperationName{OperationName: opName(o.Name)}},
				Status: &status.Status{Code: int32(o.Code), Message: "killed"},
			})
			return w.retTerm(c.id, err)
		})
		return g.App("EStartKill", g.Nat(o.C), g.Nat(o.Name), g.N(uint64(o.Code)), tz)
	case "killq":
		w.launch(o, "simple", t, func(c *call) string {
			_, err := w.bq.KillOperations(c.ctx, &buildqueuestate.KillOperationsRequest{
				Filter: &buildqueuestate.KillOperationsRequest_Filter{Type: &buildqueuestate.KillOperationsRequest_Filter_SizeClassQueueWithoutWorkers{SizeClassQueueWithoutWorkers: o.SK.name()}},
				Status: &status.Status{Code: int32(o.Code), Message: "killed"},
			})
			return w.retTerm(c.id, err)
		})
		return g.App("EKillQueue", g.Nat(o.C), skeyTerm(*o.SK), g.N(uint64(o.Code)), tz)
	case "drain", "undrain":
		w.launch(o, "simple", t, func(c *call) string {
			req := &buildqueuestate.AddOrRemoveDrainRequest{SizeClassQueueName: o.SK.name(), WorkerIdPattern: o.Pat.m()}
			var err error
			if o.K == "drain" {
				_, err = w.bq.AddDrain(c.ctx, req)
			} else {
				_, err = w.bq.RemoveDrain(c.ctx, req)
			}
			return w.retTerm(c.id, err)
		})
		ctor := "EAddDrain"
		if o.K == "undrain" {
			ctor = "ERemoveDrain"
		}
		return g.App(ctor, g.Nat(o.C), skeyTerm(*o.SK), patTerm(o.Pat), tz)
	case "term":
		w.launch(o, "term", t, func(c *call) string {
			_, err := w.bq.TerminateWorkers(c.ctx, &buildqueuestate.TerminateWorkersRequest{WorkerIdPattern: o.Pat.m()})
			return w.retTerm(c.id, err)
		})
		return g.App("EStartTerminate", g.Nat(o.C), patTerm(o.Pat), tz)
	case "tick":
		w.launch(o, "simple", t, func(c *call) string {
			_, err := w.bq.ListPlatformQueues(c.ctx, &emptypb.Empty{})
			return w.retTerm(c.id, err)
		})
		return g.App("ETick", g.Nat(o.C), tz)
	case "enter":
		if c := w.ct.calls[o.C]; c != nil {
			w.ct.release(c, t)
		}
		return g.App("EEnter", g.Nat(o.C), tz)
	case "timer":
		w.ct.mu.Lock()
		c := w.ct.calls[o.C]
		ok := c != nil && !c.returned && !c.atGate && c.timerCh != nil
		w.ct.mu.Unlock()
		if ok {
			select {
			case c.timerCh <- t:
			default:
			}
			w.ct.waitQuiescent()
		}
		return g.App("ETimer", g.Nat(o.C), tz)
	case "cancel":
		w.ct.mu.Lock()
		c := w.ct.calls[o.C]
		ok := c != nil && !c.returned && !c.atGate
		w.ct.mu.Unlock()
		if ok {
			c.cancel()
			w.ct.waitQuiescent()
		}
		return g.App("ECancel", g.Nat(o.C))
	}
	panic("unknown op " + o.K)
}

// ---- Gallina printers -------------------------------------------------------------------

func nList(l []uint64) string {
	var s []string
	for _, x := range l {
		s = append(s, g.N(x))
	}
	return g.List(s)
}
func natList(l []int) string {
	var s []string
	for _, x := range l {
		s = append(s, g.Nat(x))
	}
	return g.List(s)
}
func zList(l []int64) string {
	var s []string
	for _, x := range l {
		s = append(s, g.Z(x))
	}
	return g.List(s)
}
func pkeyTerm(prefix []uint64, plat uint64) string {
	return g.App("mkPK", nList(prefix), g.N(plat))
}
func skeyTerm(sk skeyJSON) string {
	return g.App("mkSK", pkeyTerm(sk.Prefix, sk.Plat), g.N(uint64(sk.SC)))
}
func wrefTerm(w workerJSON) string {
	return g.App("mkW", skeyTerm(w.SK), g.N(w.H), g.N(w.T))
}
func patTerm(p *patJSON) string {
	h, t := "None", "None"
	if p != nil && p.H != nil {
		h = g.Some(g.N(*p.H))
	}
	if p != nil && p.T != nil {
		t = g.Some(g.N(*p.T))
	}
	return "(" + h + ", " + t + ")"
}
func optZ(v int64) string {
	if v == 0 {
		return "None"
	}
	return g.Some(g.Z(v))
}
func keysOf(l []string) []uint64 {
	var out []uint64
	for _, k := range l {
		id, ok := keyStrings[k]
		if !ok {
			panic("unknown invocation key " + k)
		}
		out = append(out, id)
	}
	return out
}
func opIdxs(l []string) []int {
	var out []int
	for _, n := range l {
		out = append(out, opIndex(n))
	}
	sort.Ints(out)
	return out
}

func desiredTerm(r *remoteworker.SynchronizeResponse) string {
	if r.DesiredState == nil {
		return "DNone"
	}
	switch s := r.DesiredState.WorkerState.(type) {
	case *remoteworker.DesiredState_Idle:
		return "DIdle"
	case *remoteworker.DesiredState_Executing_:
		e := s.Executing
		dnc, to := false, int64(0)
		if e.Action != nil {
			dnc = e.Action.DoNotCache
			to = int64(e.Action.Timeout.AsDuration())
		}
		return g.App("DExec", g.N(hashToDigest[e.ActionDigest.Hash]), g.Bool(dnc), g.Z(to),
			g.Z(e.QueuedTimestamp.AsTime().UnixNano()), nList(instanceComps(e.InstanceNameSuffix)))
	}
	return "DNone"
}

type hint struct {
	op int
	w  workerJSON
}

func (w *world) dumpTerm() (string, []hint, *scheduler.VerifState) {
	d := w.bq.VerifDump()
	if d == nil {
		// the queue lock is stuck although no call is running
		w.ct.hung = true
		return w.lastNullDelta, nil, nil
	}
	var hints, lateHints []hint
	var pqs, changedScqs []string
	newScqs := map[string]string{}
	newHints := map[string]bool{}
	for _, pq := range d.PlatformQueues {
		prefix := instanceComps(pq.InstanceNamePrefix)
		plat := platformStrings[pq.Platform]
		var scs, scqs []string
		for _, sc := range pq.SizeClasses {
			scs = append(scs, g.N(uint64(sc)))
		}
		for _, scq := range pq.SizeClassQueues {
			sk := skeyJSON{Prefix: prefix, Plat: plat, SC: scq.SizeClass}
			var drains, workers, invs []string
			for _, dk := range scq.Drains {
				var m map[string]string
				json.Unmarshal([]byte(dk), &m)
				p := &patJSON{}
				if v, ok := m["h"]; ok {
					var x uint64
					fmt.Sscan(v, &x)
					p.H = &x
				}
				if v, ok := m["t"]; ok {
					var x uint64
					fmt.Sscan(v, &x)
					p.T = &x
				}
				drains = append(drains, patTerm(p))
			}
			for _, wk := range scq.Workers {
				h, t := parseWorkerKey(wk.Key)
				task := "None"
				if wk.HasTask {
					task = g.Some(natList(opIdxs(wk.TaskOperations)))
					for _, n := range wk.TaskOperations {
						hk := fmt.Sprintf("%d@%s/%d/%d/%s", opIndex(n), pq.InstanceNamePrefix, plat, scq.SizeClass, wk.Key)
						newHints[hk] = true
						if !w.prevHints[hk] {
							hints = append(hints, hint{op: opIndex(n), w: workerJSON{SK: sk, H: h, T: t}})
						}
					}
				}
				last := "None"
				if wk.HasLastInv {
					last = g.Some(nList(keysOf(wk.LastInvocation)))
				}
				if wk.HasTask {
					// how many leading stickiness start times were retained by the latest assignment
					retained := 0
					for _, st := range wk.StickinessTimes {
						if st == d.Now {
							break
						}
						retained++
					}
					hk := fmt.Sprintf("retained%d@%s/%d/%d/%s/%v", retained, pq.InstanceNamePrefix, plat, scq.SizeClass, wk.Key, wk.TaskOperations)
					newHints[hk] = true
					if !w.prevHints[hk] {
						lateHints = append(lateHints, hint{op: 4000 + retained, w: workerJSON{SK: sk, H: h, T: t}})
					}
				}
				workers = append(workers, g.App("mkDWorker", "("+g.N(h)+", "+g.N(t)+")", task, optZ(wk.Cleanup), g.Bool(wk.Terminating), last, g.Bool(wk.Waiting), zList(wk.StickinessTimes)))
			}
			for _, iv := range scq.Invocations {
				var exec, isync []string
				for _, e := range iv.ExecutingWorkers {
					// "workerKey=count"
					idx := len(e) - 1
					for e[idx] != '=' {
						idx--
					}
					h, t := parseWorkerKey(e[:idx])
					var n int
					fmt.Sscan(e[idx+1:], &n)
					exec = append(exec, "(("+g.N(h)+", "+g.N(t)+"), "+g.Nat(n)+")")
				}
				for _, k := range iv.IdleSyncWorkers {
					h, t := parseWorkerKey(k)
					isync = append(isync, "("+g.N(h)+", "+g.N(t)+")")
				}
				invs = append(invs, g.App("mkDInv", nList(keysOf(iv.Path)), natList(opIdxs(iv.QueuedOperations)),
					nList(keysOf(iv.QueuedChildren)), nList(keysOf(iv.IdleSyncChildren)), nList(keysOf(iv.Children)),
					g.Z(int64(iv.FirstPriority)), g.List(exec), g.Z(iv.LastStarted), g.Z(iv.LastCompletion),
					g.N(uint64(iv.IdleWorkersCount)), g.List(isync)))
			}
			term := g.App("mkDScq", g.N(uint64(scq.SizeClass)), g.Bool(scq.MayBeRemoved), optZ(scq.Cleanup),
				g.List(drains), g.List(workers), g.List(invs))
			key := fmt.Sprintf("%s/%d/%d", pq.InstanceNamePrefix, plat, scq.SizeClass)
			newScqs[key] = term
			if w.prevScqs[key] != term {
				changedScqs = append(changedScqs, "("+pkeyTerm(prefix, plat)+", "+term+")")
			}
		}
		_ = scqs
		pqs = append(pqs, g.App("mkDPqH", pkeyTerm(prefix, plat), g.List(scs), zList(pq.StickinessLimits),
			g.Nat(pq.MaximumQueuedBackgroundLearningOperations), g.Z(int64(pq.BackgroundLearningOperationPriority))))
	}
	w.prevScqs = newScqs
	w.prevHints = newHints
	hints = append(hints, lateHints...)
	var ops []string
	newOps := map[int]string{}
	for _, o := range d.Operations {
		sk := skeyJSON{Prefix: instanceComps(o.InstanceNamePrefix), Plat: platformStrings[o.Platform], SC: o.SizeClass}
		action := "None"
		if o.HasAction {
			action = g.Some("(" + g.Bool(o.DoNotCache) + ", " + g.Z(o.TimeoutNanos) + ")")
		}
		worker := "None"
		if o.CurrentWorker != "" {
			if o.CurrentWorker == `""` || o.CurrentWorker[0] != '{' {
				worker = g.Some("(4294967295%N, 4294967295%N)")
			} else {
				h, t := parseWorkerKey(o.CurrentWorker)
				worker = g.Some("(" + g.N(h) + ", " + g.N(t) + ")")
			}
		}
		resp := "None"
		if o.HasResponse {
			tag := uint64(0)
			if len(o.ResponseMessage) > 1 && o.ResponseMessage[0] == 'r' {
				fmt.Sscan(o.ResponseMessage[1:], &tag)
			}
			exit := int64(0)
			if o.ResponseHasResult {
				exit = int64(o.ResponseExitCode)
			}
			resp = g.Some(g.App("mkResp", g.N(uint64(o.ResponseCode)), g.Z(exit), g.N(tag)))
		}
		inst, dig := parseDigestKey(o.ActionDigestHash)
		opTerm := g.App("mkDOp", g.Nat(opIndex(o.Name)), natList(opIdxs(o.TaskOperations)), g.Z(int64(o.Priority)),
			skeyTerm(sk), nList(keysOf(o.InvocationPath)), g.Bool(o.Queued), g.Nat(int(o.Waiters)), g.Bool(o.MayExistWithoutWaiters),
			optZ(o.Cleanup), nList(inst), g.N(dig), action, g.Z(o.QueuedTimestamp), nList(instanceComps(o.InstanceNameSuffix)),
			worker, g.Nat(o.RetryCount), g.Z(o.ExpectedDuration), g.Bool(o.HasLearner), g.N(uint64(o.Stage)), resp)
		newOps[opIndex(o.Name)] = opTerm
		if w.prevOps[opIndex(o.Name)] != opTerm {
			ops = append(ops, opTerm)
		}
	}
	var gone []int
	for idx := range w.prevOps {
		if _, ok := newOps[idx]; !ok {
			gone = append(gone, idx)
		}
	}
	sort.Ints(gone)
	w.prevOps = newOps
	var inflight []string
	for _, e := range d.InFlight {
		idx := len(e) - 1
		for e[idx] != '=' {
			idx--
		}
		inst, dig := parseDigestKey(e[:idx])
		first := 0
		if e[idx+1:] != "" {
			first = opIndex(e[idx+1:])
		}
		inflight = append(inflight, "(("+nList(inst)+", "+g.N(dig)+"), "+g.Nat(first)+")")
	}
	gated := w.ct.gated()
	sort.Ints(gated)
	w.lastNullDelta = g.App("mkDelta", g.Z(d.Now), g.List(pqs), "[]", "[]", "[]", g.List(inflight), g.Nat(errorCode(d.Errors)), natList(gated))
	return g.App("mkDelta", g.Z(d.Now), g.List(pqs), g.List(changedScqs), g.List(ops), natList(gone), g.List(inflight), g.Nat(errorCode(d.Errors)), natList(gated)), hints, d
}

// errorCode packs the hook's findings into one number: structural
// inconsistencies (index fields, back pointers) count 1 each, violations of
// binary heap order 1000 each.
func errorCode(errs []string) int {
	n := 0
	for _, e := range errs {
		if strings.HasPrefix(e, "info:") {
			continue
		}
		if strings.HasPrefix(e, "heap-order") {
			n += 1000
		} else {
			n++
		}
	}
	return n
}

// digest keys look like "1-<hash>-<size>-<instance>"
func parseDigestKey(k string) ([]uint64, uint64) {
	for h, id := range hashToDigest {
		if i := indexOf(k, h); i >= 0 {
			rest := k[i+len(h):]
			// "-100-<instance>"
			n := 0
			for j := 1; j < len(rest); j++ {
				if rest[j] == '-' {
					n = j
					break
				}
			}
			inst := ""
			if n > 0 {
				inst = rest[n+1:]
			}
			return instanceComps(inst), id
		}
	}
	panic("unknown digest key " + k)
}

func indexOf(s, sub string) int {
	for i := 0; i+len(sub) <= len(s); i++ {
		if s[i:i+len(sub)] == sub {
			return i
		}
	}
	return -1
}

// ---- hcommon.Area --------------------------------------------------------------------------

type area struct{}

func (area) Requires() string {
	return "From VF Require Import Common.Verdict Sched.Corr.\nOpen Scope Z_scope."
}
func (area) Check() string { return "check_case" }
func (area) Rule() string {
	return "histories of 30-90 harness actions on the real InMemoryBuildQueue under a goroutine controller: Execute (duplicate digests 40%, do_not_cache 20%, nested invocation keys, priorities from {0,1,-3,7,50}), WaitExecution, Synchronize (idle/executing/completed/wrong digest/prefer idle) for <=6 workers over <=3 platform queues x <=3 size classes, KillOperations, drains, TerminateWorkers, context cancellations, timer expiries, clock jumps past each timeout, and a final phase where everyone leaves and the clock passes all timeouts; non-trivial = at least one task was executed by a worker and completed and at least one call blocked; distinct by hash of the case term"
}

func (area) Generate(r *rng.R, thorough bool, index int) json.RawMessage {
	h := generate(r, thorough, index)
	data, _ := json.Marshal(h)
	return data
}

func cfgTerm(c cfgJSON) string {
	return g.App("mkConfig", g.Z(c.Update), g.Z(c.NoWait), g.Z(c.PQ), g.Z(c.Busy), g.Z(c.Idle), g.Nat(c.Retry), g.Z(c.WorkerTO))
}

func runHistory(h *history, each func(w *world, o opJSON, d *scheduler.VerifState)) (string, *hcommon.Info, error) {
	info := hcommon.NewInfo()
	w := newWorld(h.Cfg)
	var events, obss, dumps []string
	executed, blocked := false, false
	for _, o := range h.Ops {
		ev := w.apply(o)
		if w.ct.hung {
			// Some call neither parked nor returned within the watchdog's time:
			// the scheduler is wedged (e.g. a goroutine died holding the lock).
			// This is an observation, not a harness error: the history ends here
			// with the observation (OPanic "hang") and an unchanged dump (the dump
			// hook needs the lock and must not be called any more).
			obs := append(w.ct.takeObs(), "(OPanic \"hang\"%string)")
			events = append(events, "("+ev+", [])")
			obss = append(obss, g.List(obs))
			dumps = append(dumps, w.lastNullDelta)
			info.Events++
			info.Ops[o.K]++
			info.Outs["hang"]++
			info.Nontrivial = executed && blocked
			go w.ct.shutdown()
			return g.App("mkCase", cfgTerm(h.Cfg), g.Z(t0Nanos), g.List(events), g.List(obss), g.List(dumps)), info, nil
		}
		obs := w.ct.takeObs()
		if os.Getenv("SCHED_DEBUG") != "" {
			fmt.Fprintf(os.Stderr, "after op %d (%s c=%d):\n%s", len(events), o.K, o.C, w.ct.debugStates())
		}
		dump, hints, d := w.dumpTerm()
		if d == nil {
			obs = append(obs, "(OPanic \"hang\"%string)")
			events = append(events, "("+ev+", [])")
			obss = append(obss, g.List(obs))
			dumps = append(dumps, dump)
			info.Events++
			info.Ops[o.K]++
			info.Outs["lock-stuck"]++
			info.Nontrivial = executed && blocked
			go w.ct.shutdown()
			return g.App("mkCase", cfgTerm(h.Cfg), g.Z(t0Nanos), g.List(events), g.List(obss), g.List(dumps)), info, nil
		}
		var hs []string
		for _, x := range hints {
			hs = append(hs, "("+g.Nat(x.op)+", "+wrefTerm(x.w)+")")
		}
		events = append(events, "("+ev+", "+g.List(hs)+")")
		obss = append(obss, g.List(obs))
		dumps = append(dumps, dump)
		info.Events++
		info.Ops[o.K]++
		for _, t := range obs {
			kind := t
			if len(kind) > 6 {
				kind = kind[1:6]
			}
			info.Outs[kind]++
		}
		if len(hints) > 0 {
			executed = true
		}
		if len(w.ct.gated()) > 0 {
			blocked = true
		}
		if n := len(d.Operations); n > info.Extra["max_operations"] {
			info.Extra["max_operations"] = n
		}
		if n := d.CleanupEntries; n > info.Extra["max_cleanup_entries"] {
			info.Extra["max_cleanup_entries"] = n
		}
		if len(d.Errors) > 0 {
			info.Outs["hook-structure-error"]++
		}
		if cleanupTie(d) {
			w.ct.shutdown()
			return "", nil, fmt.Errorf("SKIP: two cleanup entries with the same timestamp (callback order depends on heap layout)")
		}
		if each != nil {
			each(w, o, d)
		}
	}
	// let remaining goroutines go: cancel everything so they do not leak
	w.ct.shutdown()
	info.Nontrivial = executed && blocked
	return g.App("mkCase", cfgTerm(h.Cfg), g.Z(t0Nanos), g.List(events), g.List(obss), g.List(dumps)), info, nil
}

func (area) Execute(raw json.RawMessage) (string, *hcommon.Info, error) {
	var h history
	if err := json.Unmarshal(raw, &h); err != nil {
		return "", nil, err
	}
	return runHistory(&h, nil)
}

func main() { hcommon.Main(area{}) }
