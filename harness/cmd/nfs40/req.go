// Requests as the model sees them: construction of the COMPOUND arguments,
// Gallina terms for requests, replies and the state dump.
package main

import (
	"bytes"
	"crypto/sha256"
	"encoding/binary"
	"fmt"
	"sort"

	nfs "github.com/buildbarn/bb-remote-execution/pkg/filesystem/virtual/nfsv4"
	"github.com/buildbarn/go-xdr/pkg/protocols/nfsv4"

	g "verif/harness/internal/gallina"
)

var sidPrefix = [4]byte{0x53, 0x54, 0x49, 0x44}

// ---- file handle of a request -------------------------------------------------

type curfh struct {
	kind   int // 0 none, 1 root, 2 file
	h      uint64
	linked bool
}

func (f curfh) term() string {
	switch f.kind {
	case 1:
		return "FhRoot"
	case 2:
		return g.App("FhFile", g.N(f.h), g.Bool(f.linked))
	}
	return "FhNone"
}

func (f curfh) ops() []nfsv4.NfsArgop4 {
	switch f.kind {
	case 1:
		return []nfsv4.NfsArgop4{&nfsv4.NfsArgop4_OP_PUTROOTFH{}}
	case 2:
		return []nfsv4.NfsArgop4{&nfsv4.NfsArgop4_OP_PUTFH{Opputfh: nfsv4.Putfh4args{Object: fileHandle(f.h)}}}
	}
	return nil
}

// ---- state IDs ----------------------------------------------------------------

func sidTerm(s nfsv4.Stateid4) string {
	var other string
	zero, ones := true, true
	for _, b := range s.Other {
		if b != 0 {
			zero = false
		}
		if b != 0xff {
			ones = false
		}
	}
	switch {
	case zero:
		other = "SoAnon"
	case ones:
		other = "SoBypass"
	case !bytes.Equal(s.Other[:4], sidPrefix[:]):
		other = "SoStale"
	default:
		other = g.App("SoReg", g.N(binary.BigEndian.Uint64(s.Other[4:])))
	}
	return g.App("mkSid", g.N(uint64(s.Seqid)), other)
}

func ownerBytes(k uint64) []byte { return []byte{0x6f, byte(k)} }
func ownerKey(b []byte) uint64 {
	if len(b) == 2 && b[0] == 0x6f {
		return uint64(b[1])
	}
	return 999
}
func longBytes(k uint64) []byte { return []byte{0x63, byte(k)} }
func longKey(s string) uint64 {
	if len(s) == 2 && s[0] == 0x63 {
		return uint64(s[1])
	}
	return 999
}
func verf8(v uint64) (out [8]byte) { binary.BigEndian.PutUint64(out[:], v); return }
func verfN(v [8]byte) uint64       { return binary.BigEndian.Uint64(v[:]) }

// ---- requests -------------------------------------------------------------------

type mreq struct {
	kind string
	// generic fields
	long, cverf      uint64
	short, sverf     uint64
	client, owner    uint64
	seq, lseq        uint32
	access, deny     uint32
	how, claim, name int
	nameIdx          int
	deleg            uint32
	sid              nfsv4.Stateid4
	ltype            uint32
	off, length      uint64
	lclient, lowner  uint64
	iokind           int    // 0 read 1 write 2 setattr
	openErr, ioErr   uint64 // NFS statuses the leaf will answer with (oracle)
}

var names = []string{"n0", "n1", "n2"}

func (r *mreq) term() string {
	switch r.kind {
	case "setclientid":
		return g.App("RSetClientId", g.N(r.long), g.N(r.cverf))
	case "confirm":
		return g.App("RSetClientIdConfirm", g.N(r.short), g.N(r.sverf))
	case "renew":
		return g.App("RRenew", g.N(r.short))
	case "open":
		how := []string{"HowNoCreate", "HowUnchecked", "HowGuarded", "HowExclusive"}[r.how]
		var claim string
		switch r.claim {
		case 0:
			nm := []string{g.App("NmOk", g.N(uint64(r.nameIdx))), "NmEmpty", "NmBad"}[r.name]
			claim = g.App("ClNull", nm)
		case 1:
			claim = g.App("ClPrev", g.N(uint64(r.deleg)))
		case 2:
			claim = "ClDelegCur"
		default:
			claim = "ClDelegPrev"
		}
		return g.App("ROpen", g.App("mkOpenArgs", g.N(r.client), g.N(r.owner), g.N(uint64(r.seq)), g.N(uint64(r.access)), g.N(uint64(r.deny)), how, claim))
	case "openconfirm":
		return g.App("ROpenConfirm", sidTerm(r.sid), g.N(uint64(r.seq)))
	case "downgrade":
		return g.App("ROpenDowngrade", sidTerm(r.sid), g.N(uint64(r.seq)), g.N(uint64(r.access)), g.N(uint64(r.deny)))
	case "close":
		return g.App("RClose", sidTerm(r.sid), g.N(uint64(r.seq)))
	case "locknew":
		return g.App("RLockNew", g.N(uint64(r.ltype)), g.N(r.off), g.N(r.length), sidTerm(r.sid), g.N(uint64(r.seq)), g.N(uint64(r.lseq)), g.N(r.lclient), g.N(r.lowner))
	case "lockold":
		return g.App("RLockOld", g.N(uint64(r.ltype)), g.N(r.off), g.N(r.length), sidTerm(r.sid), g.N(uint64(r.lseq)))
	case "lockt":
		return g.App("RLockT", g.N(uint64(r.ltype)), g.N(r.off), g.N(r.length), g.N(r.client), g.N(r.owner))
	case "locku":
		return g.App("RLockU", g.N(uint64(r.ltype)), g.N(uint64(r.lseq)), sidTerm(r.sid), g.N(r.off), g.N(r.length))
	case "release_lockowner":
		return g.App("RReleaseLockOwner", g.N(r.client), g.N(r.owner))
	case "io":
		k := []string{"IoRead", "IoWrite", "IoSetattr"}[r.iokind]
		return g.App("RIo", k, sidTerm(r.sid), g.N(r.openErr), g.N(r.ioErr))
	case "resolve":
		return "RResolve"
	}
	panic("unknown request kind " + r.kind)
}

func (r *mreq) op() nfsv4.NfsArgop4 {
	switch r.kind {
	case "setclientid":
		return &nfsv4.NfsArgop4_OP_SETCLIENTID{Opsetclientid: nfsv4.Setclientid4args{
			Client:   nfsv4.NfsClientId4{Verifier: verf8(r.cverf), Id: longBytes(r.long)},
			Callback: nfsv4.CbClient4{CbProgram: 1, CbLocation: nfsv4.Netaddr4{NaRNetid: "tcp", NaRAddr: "127.0.0.1.0.1"}},
		}}
	case "confirm":
		return &nfsv4.NfsArgop4_OP_SETCLIENTID_CONFIRM{OpsetclientidConfirm: nfsv4.SetclientidConfirm4args{Clientid: r.short, SetclientidConfirm: verf8(r.sverf)}}
	case "renew":
		return &nfsv4.NfsArgop4_OP_RENEW{Oprenew: nfsv4.Renew4args{Clientid: r.short}}
	case "open":
		a := nfsv4.Open4args{Seqid: r.seq, ShareAccess: r.access, ShareDeny: r.deny,
			Owner: nfsv4.OpenOwner4{Clientid: r.client, Owner: ownerBytes(r.owner)}}
		switch r.how {
		case 0:
			a.Openhow = &nfsv4.Openflag4_default{Opentype: nfsv4.OPEN4_NOCREATE}
		case 1:
			a.Openhow = &nfsv4.Openflag4_OPEN4_CREATE{How: &nfsv4.Createhow4_UNCHECKED4{}}
		case 2:
			a.Openhow = &nfsv4.Openflag4_OPEN4_CREATE{How: &nfsv4.Createhow4_GUARDED4{}}
		default:
			a.Openhow = &nfsv4.Openflag4_OPEN4_CREATE{How: &nfsv4.Createhow4_EXCLUSIVE4{}}
		}
		switch r.claim {
		case 0:
			nm := []string{names[r.nameIdx%len(names)], "", ".."}[r.name]
			a.Claim = &nfsv4.OpenClaim4_CLAIM_NULL{File: nm}
		case 1:
			a.Claim = &nfsv4.OpenClaim4_CLAIM_PREVIOUS{DelegateType: nfsv4.OpenDelegationType4(r.deleg)}
		case 2:
			a.Claim = &nfsv4.OpenClaim4_CLAIM_DELEGATE_CUR{DelegateCurInfo: nfsv4.OpenClaimDelegateCur4{File: "n0"}}
		default:
			a.Claim = &nfsv4.OpenClaim4_CLAIM_DELEGATE_PREV{FileDelegatePrev: "n0"}
		}
		return &nfsv4.NfsArgop4_OP_OPEN{Opopen: a}
	case "openconfirm":
		return &nfsv4.NfsArgop4_OP_OPEN_CONFIRM{OpopenConfirm: nfsv4.OpenConfirm4args{OpenStateid: r.sid, Seqid: r.seq}}
	case "downgrade":
		return &nfsv4.NfsArgop4_OP_OPEN_DOWNGRADE{OpopenDowngrade: nfsv4.OpenDowngrade4args{OpenStateid: r.sid, Seqid: r.seq, ShareAccess: r.access, ShareDeny: r.deny}}
	case "close":
		return &nfsv4.NfsArgop4_OP_CLOSE{Opclose: nfsv4.Close4args{Seqid: r.seq, OpenStateid: r.sid}}
	case "locknew":
		return &nfsv4.NfsArgop4_OP_LOCK{Oplock: nfsv4.Lock4args{Locktype: nfsv4.NfsLockType4(r.ltype), Offset: r.off, Length: r.length,
			Locker: &nfsv4.Locker4_TRUE{OpenOwner: nfsv4.OpenToLockOwner4{OpenSeqid: r.seq, OpenStateid: r.sid, LockSeqid: r.lseq,
				LockOwner: nfsv4.LockOwner4{Clientid: r.lclient, Owner: ownerBytes(r.lowner)}}}}}
	case "lockold":
		return &nfsv4.NfsArgop4_OP_LOCK{Oplock: nfsv4.Lock4args{Locktype: nfsv4.NfsLockType4(r.ltype), Offset: r.off, Length: r.length,
			Locker: &nfsv4.Locker4_FALSE{LockOwner: nfsv4.ExistLockOwner4{LockStateid: r.sid, LockSeqid: r.lseq}}}}
	case "lockt":
		return &nfsv4.NfsArgop4_OP_LOCKT{Oplockt: nfsv4.Lockt4args{Locktype: nfsv4.NfsLockType4(r.ltype), Offset: r.off, Length: r.length,
			Owner: nfsv4.LockOwner4{Clientid: r.client, Owner: ownerBytes(r.owner)}}}
	case "locku":
		return &nfsv4.NfsArgop4_OP_LOCKU{Oplocku: nfsv4.Locku4args{Locktype: nfsv4.NfsLockType4(r.ltype), Seqid: r.lseq, LockStateid: r.sid, Offset: r.off, Length: r.length}}
	case "release_lockowner":
		return &nfsv4.NfsArgop4_OP_RELEASE_LOCKOWNER{OpreleaseLockowner: nfsv4.ReleaseLockowner4args{LockOwner: nfsv4.LockOwner4{Clientid: r.client, Owner: ownerBytes(r.owner)}}}
	case "io":
		switch r.iokind {
		case 0:
			return &nfsv4.NfsArgop4_OP_READ{Opread: nfsv4.Read4args{Stateid: r.sid, Offset: 0, Count: 4}}
		case 1:
			return &nfsv4.NfsArgop4_OP_WRITE{Opwrite: nfsv4.Write4args{Stateid: r.sid, Offset: 0, Stable: nfsv4.FILE_SYNC4, Data: []byte{1, 2}}}
		default:
			return &nfsv4.NfsArgop4_OP_SETATTR{Opsetattr: nfsv4.Setattr4args{Stateid: r.sid,
				ObjAttributes: nfsv4.Fattr4{Attrmask: nfsv4.Bitmap4{1 << nfsv4.FATTR4_SIZE}, AttrVals: []byte{0, 0, 0, 0, 0, 0, 0, 0}}}}
		}
	case "resolve":
		return &nfsv4.NfsArgop4_OP_GETFH{}
	}
	panic("unknown request kind " + r.kind)
}

// ---- replies --------------------------------------------------------------------

func sidRes(s nfsv4.Stateid4) (string, string) {
	return g.N(uint64(s.Seqid)), g.N(binary.BigEndian.Uint64(s.Other[4:]))
}

func deniedTerm(d nfsv4.Lock4denied) string {
	return g.App("ResDenied", g.N(d.Offset), g.N(d.Length), g.N(uint64(d.Locktype)), g.N(d.Owner.Clientid), g.N(ownerKey(d.Owner.Owner)))
}

func status(st nfsv4.Nfsstat4) string { return g.App("ResStatus", g.N(uint64(st))) }

// opresTerm renders the result of the main operation (also used for cached
// responses in the dump).
func opresTerm(r interface{}) string {
	switch v := r.(type) {
	case *nfsv4.Setclientid4res_NFS4_OK:
		return g.App("ResSetClientId", g.N(v.Resok4.Clientid), g.N(verfN(v.Resok4.SetclientidConfirm)))
	case nfsv4.Setclientid4res:
		return status(v.GetStatus())
	case nfsv4.SetclientidConfirm4res:
		return status(v.Status)
	case *nfsv4.SetclientidConfirm4res:
		return status(v.Status)
	case nfsv4.Renew4res:
		return status(v.Status)
	case *nfsv4.Open4res_NFS4_OK:
		s, o := sidRes(v.Resok4.Stateid)
		return g.App("ResOpen", s, o, g.Bool(v.Resok4.Rflags&nfsv4.OPEN4_RESULT_CONFIRM != 0))
	case nfsv4.Open4res:
		return status(v.GetStatus())
	case *nfsv4.OpenConfirm4res_NFS4_OK:
		s, o := sidRes(v.Resok4.OpenStateid)
		return g.App("ResStateid", s, o)
	case nfsv4.OpenConfirm4res:
		return status(v.GetStatus())
	case *nfsv4.OpenDowngrade4res_NFS4_OK:
		s, o := sidRes(v.Resok4.OpenStateid)
		return g.App("ResStateid", s, o)
	case nfsv4.OpenDowngrade4res:
		return status(v.GetStatus())
	case *nfsv4.Close4res_NFS4_OK:
		s, o := sidRes(v.OpenStateid)
		return g.App("ResStateid", s, o)
	case nfsv4.Close4res:
		return status(v.GetStatus())
	case *nfsv4.Lock4res_NFS4_OK:
		s, o := sidRes(v.Resok4.LockStateid)
		return g.App("ResStateid", s, o)
	case *nfsv4.Lock4res_NFS4ERR_DENIED:
		return deniedTerm(v.Denied)
	case nfsv4.Lock4res:
		return status(v.GetStatus())
	case *nfsv4.Lockt4res_NFS4ERR_DENIED:
		return deniedTerm(v.Denied)
	case nfsv4.Lockt4res:
		return status(v.GetStatus())
	case *nfsv4.Locku4res_NFS4_OK:
		s, o := sidRes(v.LockStateid)
		return g.App("ResStateid", s, o)
	case nfsv4.Locku4res:
		return status(v.GetStatus())
	case nfsv4.ReleaseLockowner4res:
		return status(v.Status)
	case nfsv4.Read4res:
		return status(v.GetStatus())
	case nfsv4.Write4res:
		return status(v.GetStatus())
	case nfsv4.Setattr4res:
		return status(v.Status)
	case nfsv4.Getfh4res:
		return status(v.GetStatus())
	}
	panic(fmt.Sprintf("unknown result type %T", r))
}

func mainResult(op nfsv4.NfsResop4) interface{} {
	switch v := op.(type) {
	case *nfsv4.NfsResop4_OP_SETCLIENTID:
		return v.Opsetclientid
	case *nfsv4.NfsResop4_OP_SETCLIENTID_CONFIRM:
		return v.OpsetclientidConfirm
	case *nfsv4.NfsResop4_OP_RENEW:
		return v.Oprenew
	case *nfsv4.NfsResop4_OP_OPEN:
		return v.Opopen
	case *nfsv4.NfsResop4_OP_OPEN_CONFIRM:
		return v.OpopenConfirm
	case *nfsv4.NfsResop4_OP_OPEN_DOWNGRADE:
		return v.OpopenDowngrade
	case *nfsv4.NfsResop4_OP_CLOSE:
		return v.Opclose
	case *nfsv4.NfsResop4_OP_LOCK:
		return v.Oplock
	case *nfsv4.NfsResop4_OP_LOCKT:
		return v.Oplockt
	case *nfsv4.NfsResop4_OP_LOCKU:
		return v.Oplocku
	case *nfsv4.NfsResop4_OP_RELEASE_LOCKOWNER:
		return v.OpreleaseLockowner
	case *nfsv4.NfsResop4_OP_READ:
		return v.Opread
	case *nfsv4.NfsResop4_OP_WRITE:
		return v.Opwrite
	case *nfsv4.NfsResop4_OP_SETATTR:
		return v.Opsetattr
	case *nfsv4.NfsResop4_OP_GETFH:
		return v.Opgetfh
	}
	panic(fmt.Sprintf("unknown resop type %T", op))
}

// replyTerm renders a COMPOUND result: a failing PUTFH, or the main result.
func replyTerm(res *nfsv4.Compound4res, hasFh bool) (string, interface{}) {
	if hasFh {
		var st nfsv4.Nfsstat4
		switch v := res.Resarray[0].(type) {
		case *nfsv4.NfsResop4_OP_PUTFH:
			st = v.Opputfh.Status
		case *nfsv4.NfsResop4_OP_PUTROOTFH:
			st = v.Opputrootfh.Status
		}
		if st != nfsv4.NFS4_OK {
			return g.App("RpPutfhFail", g.N(uint64(st))), nil
		}
	}
	main := mainResult(res.Resarray[len(res.Resarray)-1])
	return g.App("RpOp", opresTerm(main)), main
}

// replyHash hashes the XDR bytes of the result of the main operation (the
// last one of the COMPOUND).
func replyHash(res *nfsv4.Compound4res) uint64 {
	var b bytes.Buffer
	if n := len(res.Resarray); n > 0 {
		res.Resarray[n-1].WriteTo(&b)
	}
	sum := sha256.Sum256(b.Bytes())
	return binary.BigEndian.Uint64(sum[:8]) >> 34
}

// ---- dump -----------------------------------------------------------------------

func maskTerm(m uint32) string { return g.App("mkMask", g.Bool(m&1 != 0), g.Bool(m&2 != 0)) }

func zTime(zero bool, nanos int64) string {
	if zero {
		return g.Z(0)
	}
	return g.Z(nanos)
}

func cachedTerm(resp interface{}, closed *[8]byte) string {
	if resp == nil {
		return "None"
	}
	var kind string
	switch resp.(type) {
	case nfsv4.Open4res:
		kind = "KOpen"
	case nfsv4.OpenConfirm4res:
		kind = "KOpenConfirm"
	case nfsv4.OpenDowngrade4res:
		kind = "KOpenDowngrade"
	case nfsv4.Close4res:
		kind = "KClose"
	case nfsv4.Lock4res:
		kind = "KLock"
	case nfsv4.Locku4res:
		kind = "KLocku"
	default:
		panic(fmt.Sprintf("unknown cached response %T", resp))
	}
	cl := "None"
	if closed != nil {
		cl = g.Some(g.N(binary.BigEndian.Uint64(closed[:])))
	}
	return g.Some(g.App("mkCached", kind, opresTerm(resp), cl))
}

func sortedBy[T any](l []T, key func(T) [2]uint64) []T {
	sort.SliceStable(l, func(i, j int) bool {
		a, b := key(l[i]), key(l[j])
		return a[0] < b[0] || (a[0] == b[0] && a[1] < b[1])
	})
	return l
}

// dumpTerm renders VerifDump40 as a Dump.dump term; it also returns
// consistency problems of the redundant fields of the dump.
func dumpTerm(d *nfs.Verif40Dump, prev *[10]string) (string, []string) {
	var problems []string
	bad := func(f string, a ...interface{}) { problems = append(problems, fmt.Sprintf(f, a...)) }

	confs := sortedBy(d.Confirmations, func(c nfs.Verif40Confirmation) [2]uint64 { return [2]uint64{c.ShortClientID, 0} })
	var tConfs, tConfirmed []string
	type lp struct{ long, short uint64 }
	var confirmed []lp
	longs := map[string]bool{}
	for _, c := range confs {
		tConfs = append(tConfs, g.App("mkConf", g.N(c.ShortClientID), g.N(verfN(c.ServerVerifier)), g.N(longKey(c.LongID)), g.N(verfN(c.ClientVerifier)),
			zTime(c.LastSeenZero, c.LastSeenNanos), g.N(uint64(c.HoldCount))))
		if c.Confirmed {
			confirmed = append(confirmed, lp{longKey(c.LongID), c.ShortClientID})
		}
		longs[c.LongID] = true
	}
	if len(longs) != d.ClientsLen {
		bad("clientsByLongID has %d entries, confirmations name %d clients", d.ClientsLen, len(longs))
	}
	sort.Slice(confirmed, func(i, j int) bool { return confirmed[i].long < confirmed[j].long })
	for _, c := range confirmed {
		tConfirmed = append(tConfirmed, fmt.Sprintf("(%s, %s)", g.N(c.long), g.N(c.short)))
	}
	var tIdle []string
	for _, s := range d.IdleList {
		tIdle = append(tIdle, g.N(s))
	}
	oos := sortedBy(d.OpenOwners, func(o nfs.Verif40OpenOwner) [2]uint64 { return [2]uint64{o.ShortClientID, ownerKey([]byte(o.Key))} })
	var tOos []string
	for _, o := range oos {
		var cl *[8]byte
		if o.HasClosedFile {
			c := o.ClosedFileOther
			cl = &c
		}
		tOos = append(tOos, g.App("mkOos", g.N(o.ShortClientID), g.N(ownerKey([]byte(o.Key))), g.Bool(o.Confirmed), g.N(uint64(o.LastSeqID)),
			cachedTerm(o.LastResponse, cl), g.Bool(o.InTransaction), zTime(o.LastUsedZero, o.LastUsedNanos)))
	}
	var tUnused []string
	for _, u := range d.UnusedList {
		tUnused = append(tUnused, fmt.Sprintf("(%s, %s)", g.N(u.ShortClientID), g.N(ownerKey([]byte(u.Key)))))
	}
	oofs := sortedBy(d.OpenOwnerFiles, func(o nfs.Verif40OpenOwnerFile) [2]uint64 { return [2]uint64{binary.BigEndian.Uint64(o.Other[:]), 0} })
	var tOofs []string
	for _, o := range oofs {
		h, _ := handleID(o.Handle)
		if !o.InFilesByHandle {
			bad("open-owner file %x is not linked in its owner's filesByHandle", o.Other)
		}
		tOofs = append(tOofs, g.App("mkOofs", g.N(binary.BigEndian.Uint64(o.Other[:])), g.N(uint64(o.SeqID)), g.N(o.ShortClientID), g.N(ownerKey([]byte(o.OwnerKey))),
			g.N(h), maskTerm(o.ShareAccess), g.N(uint64(o.Readers)), g.N(uint64(o.Writers)), "true"))
	}
	los := sortedBy(d.LockOwners, func(o nfs.Verif40LockOwner) [2]uint64 { return [2]uint64{o.ShortClientID, ownerKey([]byte(o.Key))} })
	var tLos []string
	for _, o := range los {
		if !o.IndicesOK {
			bad("lock-owner %d/%s has inconsistent files list", o.ShortClientID, o.Key)
		}
		tLos = append(tLos, g.App("mkDlos", g.N(o.ShortClientID), g.N(ownerKey([]byte(o.Key))), g.N(uint64(o.LastSeqID)), cachedTerm(o.LastResponse, nil)))
	}
	lofs := sortedBy(d.LockOwnerFiles, func(o nfs.Verif40LockOwnerFile) [2]uint64 { return [2]uint64{binary.BigEndian.Uint64(o.Other[:]), 0} })
	var tLofs []string
	for _, o := range lofs {
		if !o.InLockOwnerFiles || !o.InOpenOwnerFile || !o.LockOwnerIsLinked {
			bad("lock-owner file %x is not linked (%v %v %v)", o.Other, o.InLockOwnerFiles, o.InOpenOwnerFile, o.LockOwnerIsLinked)
		}
		tLofs = append(tLofs, g.App("mkLofs", g.N(binary.BigEndian.Uint64(o.Other[:])), g.N(uint64(o.SeqID)), g.N(o.ShortClientID), g.N(ownerKey([]byte(o.LockOwnerKey))),
			g.N(binary.BigEndian.Uint64(o.OpenOwnerFile[:])), maskTerm(o.ShareAccess), g.Z(int64(o.LockCount))))
	}
	pool := sortedBy(d.PoolFiles, func(p nfs.Verif40PoolFile) [2]uint64 { h, _ := handleID(p.Handle); return [2]uint64{h, 0} })
	var tPool []string
	for _, p := range pool {
		h, _ := handleID(p.Handle)
		var locks []string
		for _, l := range p.Locks {
			locks = append(locks, g.App("mkDlock", g.N(l.Start), g.N(l.End), g.N(l.ShortClientID), g.N(ownerKey([]byte(l.OwnerKey))), g.Bool(l.Exclusive), g.Bool(l.OwnerIsCurrent)))
		}
		tPool = append(tPool, g.App("mkDpfile", g.N(h), g.N(uint64(p.UseCount)), g.List(locks)))
	}
	fields := [10]string{zTime(d.NowZero, d.NowNanos), g.List(tConfs), g.List(tConfirmed), g.List(tIdle), g.List(tOos), g.List(tUnused),
		g.List(tOofs), g.List(tLos), g.List(tLofs), g.List(tPool)}
	ctors := [10]string{"DNow", "DConfs", "DConfirmed", "DIdle", "DOos", "DUnused", "DOofs", "DLos", "DLofs", "DPool"}
	var delta []string
	for i, f := range fields {
		if f != prev[i] {
			delta = append(delta, g.App(ctors[i], f))
			prev[i] = f
		}
	}
	return g.List(delta), problems
}
