// Harness for the NFSv4.0 program (properties C18, C19, C20): drives the real
// NewNFS40Program over a fake one-directory file system with instrumented
// leaves, a fake clock and a counting random number generator; every
// COMPOUND runs in its own goroutine that parks at the blocking points
// (VirtualOpenChild / VirtualOpenSelf / leaf I/O / clock after waiting for an
// open-owner transaction) under the executor's control. After every
// critical-section event the reply, the leaf calls and the state dump
// (hook VerifDump40) are recorded as a Gallina trace.
package main

import (
	"context"
	"encoding/json"
	"fmt"
	"math"
	"os"
	"time"

	"github.com/buildbarn/bb-remote-execution/pkg/filesystem/virtual"
	nfs "github.com/buildbarn/bb-remote-execution/pkg/filesystem/virtual/nfsv4"
	"github.com/buildbarn/bb-storage/pkg/filesystem/path"
	"github.com/buildbarn/go-xdr/pkg/protocols/nfsv4"

	g "verif/harness/internal/gallina"
	"verif/harness/internal/hcommon"
	"verif/harness/internal/rng"
)

const leaseNanos = 100

type op struct {
	K        string `json:"k"`
	C        int    `json:"c,omitempty"`
	O        int    `json:"o,omitempty"`
	F        int    `json:"f,omitempty"`
	L        int    `json:"l,omitempty"`
	Dt       int    `json:"dt,omitempty"`
	V        int    `json:"v,omitempty"`
	Access   int    `json:"acc,omitempty"`
	Deny     int    `json:"deny,omitempty"`
	How      int    `json:"how,omitempty"`
	Claim    int    `json:"claim,omitempty"`
	Name     int    `json:"name,omitempty"`
	Park     bool   `json:"park,omitempty"`
	OpenErr  int    `json:"oerr,omitempty"`
	IoErr    int    `json:"ioerr,omitempty"`
	SeqMode  int    `json:"seqm,omitempty"`
	LSeqMode int    `json:"lseqm,omitempty"` // LOCK with a new lock-owner file: fault of the lock seqid
	SidMode  int    `json:"sidm,omitempty"`
	FhMode   int    `json:"fhm,omitempty"`
	LType    int    `json:"lt,omitempty"`
	Off      uint64 `json:"off,omitempty"`
	Len      uint64 `json:"len,omitempty"`
	Kind     int    `json:"kind,omitempty"`
	N        int    `json:"n,omitempty"`
	New      bool   `json:"new,omitempty"`

	fileID uint64 // chosen by the executor among existing state
}

type history struct {
	Ops []op `json:"ops"`
}

type area struct{}

func (area) Requires() string {
	return "From VF Require Import Common.Verdict Nfs40.Model Nfs40.Dump Nfs40.Spec Nfs40.Corr."
}
func (area) Check() string { return "check_case" }
func (area) Rule() string {
	return "histories of 20-60 NFSv4.0 compounds (SETCLIENTID/CONFIRM, RENEW, OPEN with all claims/create modes, OPEN_CONFIRM, OPEN_DOWNGRADE, CLOSE, LOCK new/existing, LOCKT, LOCKU, RELEASE_LOCKOWNER, READ/WRITE/SETATTR with open/lock/special/garbage state IDs, unlink, PUTFH of closed handles) by <=3 clients x <=3 open-owners x <=3 lock-owners over <=3 names; ~12% verbatim retransmissions (recent or delayed), ~10% old/skipped seqids, ~12% wrong/old/foreign state IDs or file handles; in a third of the histories OPEN and I/O calls stay parked in the leaf while other requests (same owner: must wait; re-registration; lease expiry) run; clock advances of 0-150 against a lease of 100; every history ends with all parked calls released and the clock advanced past every lease; non-trivial = at least one lock granted, one replayed reply, one close of a leaf and one lease expiry or re-registration; distinct by hash of the full trace term"
}

var lockEnds = []uint64{0, 1, 2, 3, 4, 5, 6, math.MaxUint64 - 1, math.MaxUint64}

func (area) Generate(r *rng.R, thorough bool, index int) json.RawMessage {
	n := 20 + r.Intn(41)
	if thorough {
		n = 40 + r.Intn(140)
	}
	nclients := 1 + r.Intn(3)
	inflight := index%3 == 0
	var h history
	add := func(o op) { h.Ops = append(h.Ops, o) }
	for c := 0; c < nclients; c++ {
		add(op{K: "setclientid", C: c})
		if r.Chance(92) {
			add(op{K: "confirm", C: c})
		}
	}
	faults := func(o *op) {
		if r.Chance(5) {
			o.SeqMode = []int{1, 2, 2, 3, 3}[r.Intn(5)]
		}
		if r.Chance(8) {
			o.SidMode = 1 + r.Intn(7)
		}
		if r.Chance(6) {
			o.FhMode = 1 + r.Intn(3)
		}
	}
	rangeOf := func(o *op) {
		if r.Chance(12) {
			o.Off = lockEnds[r.Intn(len(lockEnds))]
			o.Len = lockEnds[r.Intn(len(lockEnds))]
		} else {
			o.Off = uint64(r.Intn(7))
			o.Len = uint64(1 + r.Intn(5))
		}
	}
	for len(h.Ops) < n {
		o := op{C: r.Intn(nclients), O: r.Intn(3), F: r.Intn(3), L: r.Intn(3)}
		if r.Chance(4) {
			o.Dt = []int{1, 5, 10, 20, 40, 101}[r.Intn(6)]
		}
		switch x := r.Intn(100); {
		case x < 17:
			o.K = "open"
			o.Access = 1 + r.Intn(3)
			if r.Chance(4) {
				o.Access = []int{0, 4, 7}[r.Intn(3)]
			}
			if r.Chance(4) {
				o.Deny = 1 + r.Intn(4)
			}
			o.How = []int{1, 1, 1, 0, 0, 0, 2, 3}[r.Intn(8)]
			if r.Chance(8) {
				o.Claim = 1 + r.Intn(3)
				if o.Claim == 1 && r.Chance(70) {
					o.How = 0
				}
			}
			if r.Chance(3) {
				o.Name = 1 + r.Intn(2)
			}
			if r.Chance(6) {
				o.OpenErr = 1 + r.Intn(2)
			}
			if r.Chance(3) {
				o.SeqMode = []int{1, 2, 2, 3, 3}[r.Intn(5)]
			}
			if r.Chance(3) {
				o.FhMode = 1 + r.Intn(3)
			}
			o.Park = inflight && r.Chance(35)
			add(o)
			if !o.Park && r.Chance(75) {
				add(op{K: "openconfirm", C: o.C, O: o.O, F: o.F, N: 1})
			}
			continue
		case x < 22:
			o.K = "openconfirm"
			faults(&o)
		case x < 31:
			o.K = "close"
			faults(&o)
		case x < 35:
			o.K = "downgrade"
			o.Access = 1 + r.Intn(3)
			if r.Chance(5) {
				o.Deny = 1
			}
			faults(&o)
		case x < 54:
			o.K = "lock"
			o.LType = []int{1, 2, 2, 3, 4, 2}[r.Intn(6)]
			if r.Chance(3) {
				o.LType = 0
			}
			rangeOf(&o)
			o.New = r.Chance(6)
			if r.Chance(3) {
				o.LSeqMode = 1 + r.Intn(3)
			}
			faults(&o)
		case x < 60:
			o.K = "lockt"
			o.LType = 1 + r.Intn(4)
			rangeOf(&o)
			if r.Chance(5) {
				o.FhMode = 1 + r.Intn(3)
			}
		case x < 67:
			o.K = "locku"
			o.LType = 1
			rangeOf(&o)
			faults(&o)
		case x < 69:
			o.K = "release_lockowner"
		case x < 77:
			o.K = "io"
			o.Kind = r.Intn(3)
			o.SidMode = []int{0, 0, 0, 0, 8, 8, 8, 4, 5, 1, 2, 3, 6, 7}[r.Intn(14)]
			if r.Chance(8) {
				o.IoErr = 1
			}
			if r.Chance(5) {
				o.OpenErr = 1
			}
			if r.Chance(6) {
				o.FhMode = 1 + r.Intn(3)
			}
			o.Park = inflight && r.Chance(40)
		case x < 82:
			o.K = "renew"
		case x < 83:
			o.K = "tick"
			o.Dt = []int{10, 50, 99, 101, 150}[r.Intn(5)]
		case x < 86:
			o.K = "setclientid"
			o.V = r.Intn(3)
			add(o)
			if r.Chance(80) {
				add(op{K: "confirm", C: o.C})
			}
			continue
		case x < 87:
			o.K = "confirm"
			o.SidMode = r.Intn(2)
		case x < 89:
			o.K = "unlink"
		case x < 91:
			o.K = "resolve"
		case x < 97:
			o.K = "dup"
			o.N = []int{0, 0, 0, 1, 1, 2, 3, 5}[r.Intn(8)]
		default:
			o.K = "release"
			o.N = r.Intn(4)
		}
		add(o)
	}
	data, _ := json.Marshal(h)
	return data
}

// ---- client-side beliefs ------------------------------------------------------

type cOwner struct {
	next   uint32
	sids   map[uint64]nfsv4.Stateid4 // by file id
	old    map[uint64]nfsv4.Stateid4 // previous state ID by file id
	byName map[int]uint64
}

type lockKey struct {
	o  int
	id uint64
}

type cLockOwner struct {
	next uint32
	sids map[lockKey]nfsv4.Stateid4
}

type cClient struct {
	verifier  uint64
	short     uint64
	sverf     uint64
	confirmed uint64 // short id the beliefs below belong to
	owners    [3]*cOwner
	lowners   [3]*cLockOwner
}

func (c *cClient) reset() {
	for i := range c.owners {
		c.owners[i] = &cOwner{next: 1, sids: map[uint64]nfsv4.Stateid4{}, old: map[uint64]nfsv4.Stateid4{}, byName: map[int]uint64{}}
		c.lowners[i] = &cLockOwner{next: 1, sids: map[lockKey]nfsv4.Stateid4{}}
	}
}

func shouldComplete(st nfsv4.Nfsstat4) bool {
	switch st {
	case nfsv4.NFS4ERR_STALE_CLIENTID, nfsv4.NFS4ERR_STALE_STATEID, nfsv4.NFS4ERR_BAD_STATEID, nfsv4.NFS4ERR_BAD_SEQID,
		nfsv4.NFS4ERR_BADXDR, nfsv4.NFS4ERR_RESOURCE, nfsv4.NFS4ERR_NOFILEHANDLE, nfsv4.NFS4ERR_MOVED:
		return false
	}
	return true
}

func nextSeq(s uint32) uint32 {
	if s == math.MaxUint32 {
		return 1
	}
	return s + 1
}

// ---- executor -------------------------------------------------------------------

type sent struct {
	client  *cClient
	fh      curfh
	req     *mreq
	park    bool
	onReply func(main interface{}, t *task)
}

type pendingTask struct {
	t  *task
	s  *sent
	io bool
}

type exec struct {
	e        *env
	program  nfsv4.Nfs4Program
	clients  [3]*cClient
	sentLog  []*sent
	parked   []*pendingTask
	blocked  []*pendingTask
	nextG    uint64
	obs      []string
	info     *hcommon.Info
	stop     bool
	problems []string
	prevDump [10]string

	locksGranted, replays, leafCloses, expiries int
}

func nfsStatus(s virtual.Status) uint64 {
	switch s {
	case virtual.StatusOK:
		return 0
	case virtual.StatusErrIO:
		return 5
	case virtual.StatusErrAccess:
		return 13
	case virtual.StatusErrExist:
		return 17
	case virtual.StatusErrNoEnt:
		return 2
	}
	panic("unmapped status")
}

var injectable = []virtual.Status{virtual.StatusOK, virtual.StatusErrIO, virtual.StatusErrAccess}

func newExec(info *hcommon.Info) *exec {
	e := &env{tasks: map[uint64]*task{}, leaves: map[uint64]*fakeLeaf{}, nextID: 1, rngNext: 1000}
	e.now.Store(1000)
	e.root = &fakeDir{e: e, names: map[string]uint64{}}
	for _, n := range names[:2] {
		e.root.names[n] = e.newLeaf()
	}
	pool := nfs.NewOpenedFilesPool(e.resolve)
	program := nfs.NewNFS40Program(e.root, pool, countingRNG{e: e}, nfsv4.Verifier4{1, 2, 3, 4, 5, 6, 7, 8}, sidPrefix,
		fakeClock{e: e}, leaseNanos*time.Nanosecond, 120*time.Second, path.UNIXFormat, nil)
	x := &exec{e: e, program: program, info: info, nextG: 1}
	x.prevDump = [10]string{g.Z(0), "[]", "[]", "[]", "[]", "[]", "[]", "[]", "[]", "[]"}
	for i := range x.clients {
		x.clients[i] = &cClient{verifier: 1}
		x.clients[i].reset()
	}
	return x
}

func callsTerm(calls []leafCall) string {
	var l []string
	for _, c := range calls {
		l = append(l, g.App("mkCall", g.N(c.h), g.Bool(c.open), maskTerm(uint32(c.mask))))
	}
	return g.List(l)
}

// recordDead records an event after which the program cannot be inspected any
// more (a panic or a hang may have left its lock held): no dump delta.
func (x *exec) recordDead(ev, reply string, calls []leafCall) {
	x.obs = append(x.obs, g.App("mkIobs", ev, reply, g.N(0), callsTerm(calls), "[]"))
	x.info.Events++
}

func (x *exec) record(ev, reply string, hash uint64, calls []leafCall) {
	d := nfs.VerifDump40(x.program)
	dt, problems := dumpTerm(d, &x.prevDump)
	x.problems = append(x.problems, problems...)
	counts := nfs.VerifStateCounts(x.program)
	for k, v := range map[string]int{"clients": d.ClientsLen, "incarnations": len(d.Confirmations), "open_owners": len(d.OpenOwners),
		"open_owner_files": len(d.OpenOwnerFiles), "lock_owners": len(d.LockOwners), "lock_owner_files": len(d.LockOwnerFiles), "pool_files": len(d.PoolFiles)} {
		if counts[k] != v {
			x.problems = append(x.problems, fmt.Sprintf("VerifStateCounts[%s]=%d but dump has %d", k, counts[k], v))
		}
	}
	for _, c := range calls {
		if !c.open {
			x.leafCloses++
		}
	}
	x.obs = append(x.obs, g.App("mkIobs", ev, reply, g.N(hash), callsTerm(calls), dt))
	x.info.Events++
	for k, v := range map[string]int{"max_open_owner_files": len(d.OpenOwnerFiles), "max_lock_owner_files": len(d.LockOwnerFiles),
		"max_confirmations": len(d.Confirmations), "max_pool_files": len(d.PoolFiles)} {
		if v > x.info.Extra[k] {
			x.info.Extra[k] = v
		}
	}
}

func (x *exec) now() int64 { return x.e.now.Load() }

// finish records the completion of a task (reply or panic) under event ev.
func (x *exec) finish(p *pendingTask, ev string) {
	t := p.t
	calls := t.drainCalls()
	if t.panicked != nil {
		x.info.Outs["panic"]++
		x.recordDead(ev, "RpPanic", calls)
		x.stop = true
		return
	}
	reply, main := replyTerm(t.res, p.s.fh.kind != 0)
	x.info.Outs[p.s.req.kind+":"+outcomeName(t.res, main)]++
	x.record(ev, reply, replyHash(t.res), calls)
	if main != nil && p.s.onReply != nil {
		p.s.onReply(main, t)
	}
	if cl := p.s.client; cl != nil && t.res.Status == nfsv4.NFS4ERR_STALE_CLIENTID {
		// the client learns that its registration is gone
		cl.confirmed = 0
		cl.reset()
	}
}

func outcomeName(res *nfsv4.Compound4res, main interface{}) string {
	if main == nil {
		return fmt.Sprintf("putfh-%d", res.Status)
	}
	return fmt.Sprintf("%d", res.Status)
}

// observe waits for the task and records what happened to it under event ev.
func (x *exec) observe(p *pendingTask, ev string) {
	switch x.e.wait(p.t) {
	case wDone:
		x.finish(p, ev)
	case wParked:
		st := p.t.state.Load()
		reply := "RpParkedOpen"
		if st == stParkedIo {
			reply = "RpParkedIo"
			p.io = true
		}
		x.info.Outs[p.s.req.kind+":parked"]++
		x.record(ev, reply, 0, p.t.drainCalls())
		x.parked = append(x.parked, p)
		if !p.s.park {
			x.releaseParked(len(x.parked) - 1)
		}
	case wBlocked:
		p.t.blocked = true
		x.info.Outs[p.s.req.kind+":blocked"]++
		x.record(ev, "RpBlocked", 0, p.t.drainCalls())
		x.blocked = append(x.blocked, p)
	case wHang:
		x.info.Outs["hang"]++
		x.recordDead(ev, "RpHang", p.t.drainCalls())
		x.stop = true
	}
}

func (x *exec) reqEvent(t *task, s *sent) string {
	return g.App("EReq", g.N(t.id), g.Z(x.now()), s.fh.term(), s.req.term())
}

// wokenEvent is the event of a request that waited for an open-owner
// transaction and now retries: its PUTFH was resolved before it waited, so
// the current file handle is set whatever happened to the file since.
func (x *exec) wokenEvent(t *task, s *sent) string {
	fh := s.fh
	if fh.kind == 2 {
		fh.linked = true
	}
	return g.App("EReq", g.N(t.id), g.Z(x.now()), fh.term(), s.req.term())
}

// send runs a COMPOUND in a new task.
func (x *exec) send(s *sent) {
	if x.stop {
		return
	}
	t := &task{id: x.nextG}
	x.nextG++
	r := s.req
	switch r.kind {
	case "open":
		t.parkOpen = true
	case "io":
		var zero, ones [12]byte
		for i := range ones {
			ones[i] = 0xff
		}
		t.parkIo = r.sid.Other != zero && r.sid.Other != ones
	}
	for _, st := range injectable {
		if nfsStatus(st) == r.openErr {
			t.openErr = st
		}
		if nfsStatus(st) == r.ioErr {
			t.ioErr = st
		}
	}
	args := &nfsv4.Compound4args{Tag: "t", Argarray: append(s.fh.ops(), r.op())}
	x.e.start(t, func() *nfsv4.Compound4res {
		res, err := x.program.NfsV4Nfsproc4Compound(context.Background(), args)
		if err != nil {
			panic(err)
		}
		return res
	})
	x.observe(&pendingTask{t: t, s: s}, x.reqEvent(t, s))
}

// releaseParked lets the i-th parked call return and records the second
// critical section; then woken waiters run.
func (x *exec) releaseParked(i int) {
	if x.stop || len(x.parked) == 0 {
		return
	}
	i %= len(x.parked)
	p := x.parked[i]
	x.parked = append(x.parked[:i:i], x.parked[i+1:]...)
	x.e.release(p.t)
	var ev func() string
	if p.io {
		ev = func() string { return g.App("EIoRet", g.N(p.t.id), g.Z(x.now()), g.N(nfsStatus(p.t.ioErr))) }
	} else {
		ev = func() string {
			res := g.App("OrErr", g.N(5))
			if o := p.t.opened; o != nil {
				if o.ok {
					res = g.App("OrOk", g.N(o.h))
				} else {
					res = g.App("OrErr", g.N(nfsStatus(o.status)))
				}
			}
			return g.App("EOpenRet", g.N(p.t.id), g.Z(x.now()), res)
		}
	}
	switch x.e.wait(p.t) {
	case wDone:
		x.finish(p, ev())
	default:
		x.info.Outs["hang"]++
		x.recordDead(ev(), "RpHang", p.t.drainCalls())
		x.stop = true
		return
	}
	// Waiters of the completed transaction have woken up and are parked in
	// the clock; let them retry one at a time.
	blocked := x.blocked
	x.blocked = nil
	for _, b := range blocked {
		if x.stop {
			return
		}
		switch x.e.wait(b.t) {
		case wBlocked:
			x.blocked = append(x.blocked, b)
		case wParked: // in the clock
			x.e.release(b.t)
			x.observe(b, x.wokenEvent(b.t, b.s))
		default:
			x.info.Outs["hang"]++
			x.recordDead(x.reqEvent(b.t, b.s), "RpHang", nil)
			x.stop = true
		}
	}
}

// ---- building requests from ops ---------------------------------------------------

func (x *exec) fileFor(o op, own *cOwner) (uint64, bool) {
	if o.fileID != 0 {
		return o.fileID, true
	}
	if id, ok := own.byName[o.F%3]; ok {
		return id, true
	}
	if id, ok := x.e.root.lookup(names[o.F%3]); ok {
		return id, false
	}
	return uint64(o.F%3 + 1), false
}

func (x *exec) fhFor(o op, id uint64) curfh {
	switch o.FhMode {
	case 1:
		other := id%3 + 1
		return curfh{kind: 2, h: other, linked: x.e.root.linked(other)}
	case 2:
		return curfh{kind: 1}
	case 3:
		return curfh{}
	}
	return curfh{kind: 2, h: id, linked: x.e.root.linked(id)}
}

func garbageSid() nfsv4.Stateid4 {
	s := nfsv4.Stateid4{Seqid: 1}
	copy(s.Other[:], sidPrefix[:])
	s.Other[11] = 0x77
	return s
}

func mutateSid(mode int, cur, old nfsv4.Stateid4, haveOld bool, foreign *nfsv4.Stateid4) nfsv4.Stateid4 {
	switch mode {
	case 1:
		if haveOld {
			return old
		}
		s := cur
		s.Seqid--
		return s
	case 2:
		if foreign != nil {
			return *foreign
		}
		return garbageSid()
	case 3:
		return garbageSid()
	case 4:
		return nfsv4.Stateid4{}
	case 5:
		s := nfsv4.Stateid4{Seqid: 0xffffffff}
		for i := range s.Other {
			s.Other[i] = 0xff
		}
		return s
	case 6:
		s := cur
		s.Seqid++
		return s
	case 7:
		s := cur
		s.Other[0] ^= 0x40
		return s
	}
	return cur
}

func seqFor(mode int, next uint32) uint32 {
	switch mode {
	case 1:
		return next - 1
	case 2:
		return nextSeq(next)
	case 3:
		return next - 2
	}
	return next
}

// foreign state ID: one of another owner of the same client
func (x *exec) foreignSid(c *cClient, not int) *nfsv4.Stateid4 {
	for i, ow := range c.owners {
		if i == not {
			continue
		}
		for id := uint64(0); id < x.e.nextID; id++ {
			if s, ok := ow.sids[id]; ok {
				return &s
			}
		}
	}
	return nil
}

func (x *exec) run(o op) {
	if x.stop {
		return
	}
	if o.Dt > 0 {
		x.e.now.Add(int64(o.Dt))
	}
	ci := o.C % 3
	if o.K != "setclientid" && o.K != "confirm" {
		// prefer a client that believes it is registered
		var live []int
		for i, cl := range x.clients {
			if cl.confirmed != 0 && cl.confirmed == cl.short {
				live = append(live, i)
			}
		}
		if len(live) > 0 {
			ci = live[o.C%len(live)]
		}
	}
	c := x.clients[ci]
	o.C = ci
	// Operations on existing state pick among the (owner, file) pairs the
	// client holds a state ID for; indices are taken modulo what exists.
	if o.K != "open" && !(o.K == "openconfirm" && o.N == 1) {
		type cand struct {
			oi int
			id uint64
		}
		var cands []cand
		for oi, ow := range c.owners {
			for id := uint64(0); id < x.e.nextID; id++ {
				if _, ok := ow.sids[id]; ok {
					cands = append(cands, cand{oi, id})
				}
			}
		}
		needsState := o.K == "openconfirm" || o.K == "close" || o.K == "downgrade" || o.K == "lock" || o.K == "locku" || o.K == "io"
		if len(cands) > 0 {
			k := cands[(o.O*3+o.F)%len(cands)]
			o.O = k.oi
			o.fileID = k.id
		} else if needsState && (o.O+o.F+o.L+o.LType)%6 != 0 {
			return // nothing to operate on (one in six goes out with a made-up state ID)
		}
		// lock-owners that hold a lock state ID for the chosen pair
		if o.K == "locku" || o.K == "lock" || o.K == "lockt" || (o.K == "io" && o.SidMode == 8) {
			var ls []int
			for li, lo := range c.lowners {
				if _, ok := lo.sids[lockKey{o.O % 3, o.fileID}]; ok {
					ls = append(ls, li)
				}
			}
			if len(ls) > 0 && ((o.K != "lock" && o.K != "lockt") || o.L%2 == 0) {
				o.L = ls[o.L%len(ls)]
			} else if o.K == "locku" {
				// any lock state ID of the client
				found := false
				for li, lo := range c.lowners {
					for oi := 0; oi < 3; oi++ {
						for id := uint64(0); id < x.e.nextID; id++ {
							key := lockKey{oi, id}
							if _, ok := lo.sids[key]; ok && (!found || (key.o*7+int(key.id)+li)%3 == o.L%3) {
								o.L, o.O, o.fileID, found = li, key.o, key.id, true
							}
						}
					}
				}
				if !found && (o.O+o.F+o.L)%6 != 0 {
					return
				}
			}
		}
	}
	own := c.owners[o.O%3]
	low := c.lowners[o.L%3]
	long := uint64(o.C%3 + 1)
	x.info.Ops[o.K]++
	logSend := func(s *sent) {
		s.client = c
		x.sentLog = append(x.sentLog, s)
		x.send(s)
	}
	switch o.K {
	case "tick":
		before := nfs.VerifStateCounts(x.program)["incarnations"]
		x.send(&sent{req: &mreq{kind: "renew", short: 0}})
		// (a panic inside enter() leaves the program's lock held: do not touch it again)
		if !x.stop && nfs.VerifStateCounts(x.program)["incarnations"] < before {
			x.expiries++
		}
	case "setclientid":
		v := uint64(o.V%3 + 1)
		logSend(&sent{req: &mreq{kind: "setclientid", long: long, cverf: v}, onReply: func(main interface{}, t *task) {
			if ok, isOK := main.(*nfsv4.Setclientid4res_NFS4_OK); isOK {
				c.short, c.sverf = ok.Resok4.Clientid, verfN(ok.Resok4.SetclientidConfirm)
			}
		}})
	case "confirm":
		sv := c.sverf
		if o.SidMode == 1 {
			sv++
		}
		short := c.short
		logSend(&sent{req: &mreq{kind: "confirm", short: short, sverf: sv}, onReply: func(main interface{}, t *task) {
			if r := main.(nfsv4.SetclientidConfirm4res); r.Status == nfsv4.NFS4_OK && c.confirmed != short {
				if c.confirmed != 0 {
					x.expiries++
				}
				c.confirmed = short
				c.reset()
			}
		}})
	case "renew":
		logSend(&sent{req: &mreq{kind: "renew", short: c.short}})
	case "open":
		r := &mreq{kind: "open", client: c.short, owner: uint64(o.O % 3), seq: seqFor(o.SeqMode, own.next), access: uint32(o.Access), deny: uint32(o.Deny),
			how: o.How % 4, claim: o.Claim % 4, name: o.Name % 3, nameIdx: o.F % 3, openErr: nfsStatus(injectable[o.OpenErr%3])}
		fh := curfh{kind: 1}
		if r.claim == 1 {
			id, _ := x.fileFor(o, own)
			fh = x.fhFor(o, id)
			if id == 0 {
				fh = curfh{kind: 1}
			}
		} else if o.FhMode == 1 {
			fh = curfh{kind: 2, h: 1, linked: x.e.root.linked(1)}
		} else if o.FhMode == 3 {
			fh = curfh{}
		}
		nameIdx := o.F % 3
		// A client has one request per owner outstanding: while this OPEN
		// stays parked, later requests of the owner use the next seqid.
		advanced := false
		if o.Park && r.seq == own.next {
			own.next = nextSeq(own.next)
			advanced = true
		}
		logSend(&sent{fh: fh, req: r, park: o.Park, onReply: func(main interface{}, t *task) {
			res := main.(nfsv4.Open4res)
			if shouldComplete(res.GetStatus()) && r.seq == own.next && !advanced {
				own.next = nextSeq(own.next)
			}
			if ok, isOK := res.(*nfsv4.Open4res_NFS4_OK); isOK && t.opened != nil && t.opened.ok {
				id := t.opened.h
				if prev, have := own.sids[id]; have {
					own.old[id] = prev
				}
				own.sids[id] = ok.Resok4.Stateid
				own.byName[nameIdx] = id
			}
		}})
	case "openconfirm", "close", "downgrade":
		id, _ := x.fileFor(o, own)
		cur, have := own.sids[id]
		if !have {
			if o.K == "openconfirm" && o.N == 1 {
				return // the OPEN this confirmation follows did not succeed
			}
			cur = garbageSid()
		}
		old, haveOld := own.old[id]
		sid := mutateSid(o.SidMode, cur, old, haveOld, x.foreignSid(c, o.O%3))
		r := &mreq{kind: o.K, sid: sid, seq: seqFor(o.SeqMode, own.next), access: uint32(o.Access), deny: uint32(o.Deny)}
		logSend(&sent{fh: x.fhFor(o, id), req: r, onReply: func(main interface{}, t *task) {
			var st nfsv4.Nfsstat4
			var newSid *nfsv4.Stateid4
			switch v := main.(type) {
			case nfsv4.OpenConfirm4res:
				st = v.GetStatus()
				if ok, isOK := v.(*nfsv4.OpenConfirm4res_NFS4_OK); isOK {
					newSid = &ok.Resok4.OpenStateid
				}
			case nfsv4.OpenDowngrade4res:
				st = v.GetStatus()
				if ok, isOK := v.(*nfsv4.OpenDowngrade4res_NFS4_OK); isOK {
					newSid = &ok.Resok4.OpenStateid
				}
			case nfsv4.Close4res:
				st = v.GetStatus()
				if _, isOK := v.(*nfsv4.Close4res_NFS4_OK); isOK && r.seq == own.next {
					own.old[id] = own.sids[id]
					delete(own.sids, id)
					for k, v := range own.byName {
						if v == id {
							delete(own.byName, k)
						}
					}
					for k := range low.sids {
						if k.id == id && k.o == o.O%3 {
							delete(low.sids, k)
						}
					}
				}
			}
			if shouldComplete(st) && r.seq == own.next {
				own.next = nextSeq(own.next)
				if newSid != nil {
					own.old[id] = own.sids[id]
					own.sids[id] = *newSid
				}
			}
		}})
	case "lock":
		id, _ := x.fileFor(o, own)
		key := lockKey{o.O % 3, id}
		lsid, haveLock := low.sids[key]
		if haveLock && !o.New {
			sid := mutateSid(o.SidMode, lsid, lsid, false, x.foreignSid(c, -1))
			r := &mreq{kind: "lockold", ltype: uint32(o.LType), off: o.Off, length: o.Len, sid: sid, lseq: seqFor(o.SeqMode, low.next)}
			logSend(&sent{fh: x.fhFor(o, id), req: r, onReply: func(main interface{}, t *task) {
				res := main.(nfsv4.Lock4res)
				if shouldComplete(res.GetStatus()) && r.lseq == low.next {
					low.next = nextSeq(low.next)
					if ok, isOK := res.(*nfsv4.Lock4res_NFS4_OK); isOK {
						low.sids[key] = ok.Resok4.LockStateid
						x.locksGranted++
					}
				}
			}})
		} else {
			cur, have := own.sids[id]
			if !have {
				cur = garbageSid()
			}
			old, haveOld := own.old[id]
			sid := mutateSid(o.SidMode, cur, old, haveOld, x.foreignSid(c, o.O%3))
			lclient := c.short
			if o.SidMode == 2 && o.SeqMode == 2 {
				lclient++
			}
			r := &mreq{kind: "locknew", ltype: uint32(o.LType), off: o.Off, length: o.Len, sid: sid, seq: seqFor(o.SeqMode, own.next), lseq: seqFor(o.LSeqMode, low.next),
				lclient: lclient, lowner: uint64(o.L % 3)}
			logSend(&sent{fh: x.fhFor(o, id), req: r, onReply: func(main interface{}, t *task) {
				res := main.(nfsv4.Lock4res)
				if shouldComplete(res.GetStatus()) && r.seq == own.next {
					own.next = nextSeq(own.next)
					low.next = nextSeq(low.next)
					if ok, isOK := res.(*nfsv4.Lock4res_NFS4_OK); isOK {
						low.sids[key] = ok.Resok4.LockStateid
						x.locksGranted++
					}
				}
			}})
		}
	case "lockt":
		id, _ := x.fileFor(o, own)
		logSend(&sent{fh: x.fhFor(o, id), req: &mreq{kind: "lockt", ltype: uint32(o.LType), off: o.Off, length: o.Len, client: c.short, owner: uint64(o.L % 3)}})
	case "locku":
		id, _ := x.fileFor(o, own)
		key := lockKey{o.O % 3, id}
		lsid, have := low.sids[key]
		if !have {
			lsid = garbageSid()
		}
		sid := mutateSid(o.SidMode, lsid, lsid, false, x.foreignSid(c, -1))
		r := &mreq{kind: "locku", ltype: uint32(o.LType), off: o.Off, length: o.Len, sid: sid, lseq: seqFor(o.SeqMode, low.next)}
		logSend(&sent{fh: x.fhFor(o, id), req: r, onReply: func(main interface{}, t *task) {
			res := main.(nfsv4.Locku4res)
			if shouldComplete(res.GetStatus()) && r.lseq == low.next {
				low.next = nextSeq(low.next)
				if ok, isOK := res.(*nfsv4.Locku4res_NFS4_OK); isOK {
					low.sids[key] = ok.LockStateid
				}
			}
		}})
	case "release_lockowner":
		logSend(&sent{req: &mreq{kind: "release_lockowner", client: c.short, owner: uint64(o.L % 3)}, onReply: func(main interface{}, t *task) {
			if main.(nfsv4.ReleaseLockowner4res).Status == nfsv4.NFS4_OK {
				low.sids = map[lockKey]nfsv4.Stateid4{}
			}
		}})
	case "io":
		id, _ := x.fileFor(o, own)
		cur, have := own.sids[id]
		if !have {
			cur = garbageSid()
		}
		old, haveOld := own.old[id]
		var sid nfsv4.Stateid4
		if o.SidMode == 8 {
			if l, ok := low.sids[lockKey{o.O % 3, id}]; ok {
				sid = l
			} else {
				sid = cur
			}
		} else {
			sid = mutateSid(o.SidMode, cur, old, haveOld, x.foreignSid(c, o.O%3))
		}
		r := &mreq{kind: "io", iokind: o.Kind % 3, sid: sid, openErr: nfsStatus(injectable[o.OpenErr%3]), ioErr: nfsStatus(injectable[o.IoErr%3])}
		logSend(&sent{fh: x.fhFor(o, id), req: r, park: o.Park})
	case "unlink":
		x.e.root.unlink(names[o.F%3])
	case "resolve":
		id, _ := x.fileFor(o, own)
		if id == 0 {
			id = uint64(o.F%3 + 1)
		}
		x.send(&sent{fh: curfh{kind: 2, h: id, linked: x.e.root.linked(id)}, req: &mreq{kind: "resolve"}})
	case "dup":
		if len(x.sentLog) > 0 {
			s := x.sentLog[len(x.sentLog)-1-o.N%len(x.sentLog)]
			fh := s.fh
			if fh.kind == 2 {
				fh.linked = x.e.root.linked(fh.h)
			}
			x.replays++
			x.send(&sent{fh: fh, req: s.req, park: false})
		}
	case "release":
		x.releaseParked(o.N)
	}
}

func (area) Execute(raw json.RawMessage) (term string, info *hcommon.Info, err error) {
	var h history
	if err := json.Unmarshal(raw, &h); err != nil {
		return "", nil, err
	}
	if f := os.Getenv("NFS40_LAST_HISTORY"); f != "" {
		// debugging aid: keep the history being executed (a hang of the harness itself)
		os.WriteFile(f, raw, 0o644)
	}
	info = hcommon.NewInfo()
	x := newExec(info)
	for _, o := range h.Ops {
		x.run(o)
	}
	// Epilogue: every parked call returns, then every lease lapses.
	for len(x.parked) > 0 && !x.stop {
		x.releaseParked(0)
	}
	// Nothing is in flight any more: a request that still waits for an
	// open-owner transaction will wait forever.
	for round := 0; round < 3 && !x.stop && len(x.blocked) > 0; round++ {
		blocked := x.blocked
		x.blocked = nil
		for _, b := range blocked {
			if x.stop {
				break
			}
			switch x.e.wait(b.t) {
			case wParked: // woke up late; parked in the clock
				x.e.release(b.t)
				x.observe(b, x.wokenEvent(b.t, b.s))
			case wBlocked:
				if round == 2 {
					x.info.Outs["hang"]++
					x.recordDead(x.reqEvent(b.t, b.s), "RpHang", nil)
					x.stop = true
				} else {
					x.blocked = append(x.blocked, b)
				}
			default:
				x.info.Outs["hang"]++
				x.recordDead(x.reqEvent(b.t, b.s), "RpHang", nil)
				x.stop = true
			}
		}
	}
	for i := 0; i < 2 && !x.stop; i++ {
		x.e.now.Add(3 * leaseNanos)
		x.send(&sent{req: &mreq{kind: "renew", short: 0}})
	}
	if len(x.problems) > 0 {
		return "", nil, fmt.Errorf("harness consistency: %v", x.problems[0])
	}
	info.Nontrivial = x.locksGranted > 0 && x.replays > 0 && x.leafCloses > 0 && x.expiries > 0
	return g.App("mkCase", g.List(x.obs)), info, nil
}

func main() { hcommon.Main(area{}) }
