// Fakes and the goroutine controller of the NFSv4.0 harness: a fake clock, a
// counting random number generator, a one-directory file system with
// instrumented leaves, and tasks (one goroutine per COMPOUND) that park at
// the blocking points of the real code under the executor's control.
package main

import (
	"bytes"
	"context"
	"fmt"
	"io"
	"runtime"
	"strconv"
	"strings"
	"sync"
	"sync/atomic"
	"time"

	"github.com/buildbarn/bb-remote-execution/pkg/filesystem/virtual"
	"github.com/buildbarn/bb-storage/pkg/clock"
	"github.com/buildbarn/bb-storage/pkg/filesystem"
	"github.com/buildbarn/bb-storage/pkg/filesystem/path"
	"github.com/buildbarn/bb-storage/pkg/random"
	"github.com/buildbarn/go-xdr/pkg/protocols/nfsv4"
)

// ---- goroutine identity ------------------------------------------------------

func goid() uint64 {
	var buf [64]byte
	n := runtime.Stack(buf[:], false)
	// "goroutine 123 [running]:"
	f := strings.Fields(string(buf[:n]))
	id, _ := strconv.ParseUint(f[1], 10, 64)
	return id
}

// ---- tasks --------------------------------------------------------------------

const (
	stRunning int32 = iota
	stParkedOpen
	stParkedIo
	stParkedClock
	stDone
)

type leafCall struct {
	h    uint64
	open bool
	mask virtual.ShareMask
}

type task struct {
	id      uint64 // model-level goroutine number
	gid     uint64 // runtime goroutine id
	state   atomic.Int32
	resume  chan struct{}
	blocked bool // the executor saw it waiting for an open-owner transaction

	// plan for this task, set by the executor before it starts
	parkOpen bool
	parkIo   bool
	openErr  virtual.Status // injected failure of VirtualOpenChild/VirtualOpenSelf
	ioErr    virtual.Status // injected failure of the leaf I/O call

	mu     sync.Mutex
	calls  []leafCall
	opened *oresult // result of the directory/leaf open call, once made

	res      *nfsv4.Compound4res
	panicked interface{}
}

type oresult struct {
	ok     bool
	status virtual.Status
	h      uint64
}

func (t *task) park(st int32) {
	t.state.Store(st)
	<-t.resume
}

func (t *task) logCall(h uint64, open bool, mask virtual.ShareMask) {
	t.mu.Lock()
	t.calls = append(t.calls, leafCall{h, open, mask})
	t.mu.Unlock()
}

func (t *task) drainCalls() []leafCall {
	t.mu.Lock()
	defer t.mu.Unlock()
	c := t.calls
	t.calls = nil
	return c
}

// ---- environment --------------------------------------------------------------

type env struct {
	mu      sync.Mutex
	tasks   map[uint64]*task // by runtime goroutine id
	now     atomic.Int64
	rngNext uint64

	root   *fakeDir
	leaves map[uint64]*fakeLeaf // all leaves ever created, by file id
	nextID uint64
}

func (e *env) taskOf() *task {
	g := goid()
	e.mu.Lock()
	defer e.mu.Unlock()
	return e.tasks[g]
}

// fake clock: a woken waiter parks in Now() before it can re-enter the program
type fakeClock struct {
	clock.Clock
	e *env
}

func (c fakeClock) Now() time.Time {
	if t := c.e.taskOf(); t != nil && t.blocked {
		t.blocked = false
		t.park(stParkedClock)
	}
	return time.Unix(0, c.e.now.Load())
}

// counting random number generator
type countingRNG struct {
	random.SingleThreadedGenerator
	e *env
}

func (r countingRNG) Uint64() uint64 {
	v := r.e.rngNext
	r.e.rngNext++
	return v
}

func (r countingRNG) Read(p []byte) (int, error) {
	v := r.Uint64()
	for i := range p {
		p[i] = 0
	}
	for i := 0; i < 8 && i < len(p); i++ {
		p[len(p)-1-i] = byte(v >> (8 * i))
	}
	return len(p), nil
}

// ---- fake file system -----------------------------------------------------------

var rootHandle = []byte{0xAA, 0x00}

func fileHandle(id uint64) []byte { return []byte{0xF0, byte(id >> 8), byte(id)} }

func handleID(h []byte) (uint64, bool) {
	if len(h) == 3 && h[0] == 0xF0 {
		return uint64(h[1])<<8 | uint64(h[2]), true
	}
	return 0, false
}

type fakeDir struct {
	virtual.Directory
	e     *env
	mu    sync.Mutex
	names map[string]uint64 // name -> file id (linked files)
}

func (d *fakeDir) VirtualGetAttributes(ctx context.Context, requested virtual.AttributesMask, a *virtual.Attributes) {
	a.SetFileHandle(rootHandle)
	a.SetFileType(filesystem.FileTypeDirectory)
}

func (d *fakeDir) VirtualSetAttributes(ctx context.Context, in *virtual.Attributes, requested virtual.AttributesMask, a *virtual.Attributes) virtual.Status {
	if t := d.e.taskOf(); t != nil {
		return t.ioErr
	}
	return virtual.StatusOK
}

func (d *fakeDir) VirtualOpenChild(ctx context.Context, name path.Component, shareAccess virtual.ShareMask, createAttributes *virtual.Attributes, existingOptions *virtual.OpenExistingOptions, requested virtual.AttributesMask, out *virtual.Attributes) (virtual.Leaf, virtual.AttributesMask, virtual.ChangeInfo, virtual.Status) {
	t := d.e.taskOf()
	if t != nil && t.parkOpen {
		t.park(stParkedOpen)
	}
	fail := func(s virtual.Status) (virtual.Leaf, virtual.AttributesMask, virtual.ChangeInfo, virtual.Status) {
		if t != nil {
			t.opened = &oresult{status: s}
		}
		return nil, 0, virtual.ChangeInfo{}, s
	}
	if t != nil && t.openErr != virtual.StatusOK {
		return fail(t.openErr)
	}
	d.mu.Lock()
	defer d.mu.Unlock()
	id, ok := d.names[name.String()]
	if ok {
		if existingOptions == nil {
			return fail(virtual.StatusErrExist)
		}
	} else {
		if createAttributes == nil {
			return fail(virtual.StatusErrNoEnt)
		}
		id = d.e.newLeaf()
		d.names[name.String()] = id
	}
	leaf := d.e.leaf(id)
	leaf.open(t, shareAccess)
	if t != nil {
		t.opened = &oresult{ok: true, h: id}
	}
	out.SetFileHandle(fileHandle(id))
	return leaf, 0, virtual.ChangeInfo{Before: 1, After: 2}, virtual.StatusOK
}

func (d *fakeDir) unlink(name string) {
	d.mu.Lock()
	delete(d.names, name)
	d.mu.Unlock()
}

func (d *fakeDir) lookup(name string) (uint64, bool) {
	d.mu.Lock()
	defer d.mu.Unlock()
	id, ok := d.names[name]
	return id, ok
}

func (d *fakeDir) linked(id uint64) bool {
	d.mu.Lock()
	defer d.mu.Unlock()
	for _, v := range d.names {
		if v == id {
			return true
		}
	}
	return false
}

type fakeLeaf struct {
	virtual.Leaf
	e  *env
	id uint64

	mu                    sync.Mutex
	openR, openW          int // ghost: currently open per access bit
	totalOpen, totalClose [2]int
}

func (e *env) newLeaf() uint64 {
	e.mu.Lock()
	defer e.mu.Unlock()
	id := e.nextID
	e.nextID++
	e.leaves[id] = &fakeLeaf{e: e, id: id}
	return id
}

func (e *env) leaf(id uint64) *fakeLeaf {
	e.mu.Lock()
	defer e.mu.Unlock()
	return e.leaves[id]
}

func (l *fakeLeaf) open(t *task, m virtual.ShareMask) {
	l.mu.Lock()
	if m&virtual.ShareMaskRead != 0 {
		l.openR++
		l.totalOpen[0]++
	}
	if m&virtual.ShareMaskWrite != 0 {
		l.openW++
		l.totalOpen[1]++
	}
	l.mu.Unlock()
	if t != nil {
		t.logCall(l.id, true, m)
	}
}

func (l *fakeLeaf) VirtualGetAttributes(ctx context.Context, requested virtual.AttributesMask, a *virtual.Attributes) {
	a.SetFileHandle(fileHandle(l.id))
	a.SetFileType(filesystem.FileTypeRegularFile)
}

func (l *fakeLeaf) VirtualOpenSelf(ctx context.Context, shareAccess virtual.ShareMask, options *virtual.OpenExistingOptions, requested virtual.AttributesMask, a *virtual.Attributes) virtual.Status {
	t := l.e.taskOf()
	if t != nil && t.parkOpen {
		t.park(stParkedOpen)
	}
	if t != nil && t.openErr != virtual.StatusOK {
		t.opened = &oresult{status: t.openErr}
		return t.openErr
	}
	l.open(t, shareAccess)
	if t != nil {
		t.opened = &oresult{ok: true, h: l.id}
	}
	return virtual.StatusOK
}

func (l *fakeLeaf) VirtualClose(shareAccess virtual.ShareMask) {
	l.mu.Lock()
	if shareAccess&virtual.ShareMaskRead != 0 {
		l.openR--
		l.totalClose[0]++
	}
	if shareAccess&virtual.ShareMaskWrite != 0 {
		l.openW--
		l.totalClose[1]++
	}
	l.mu.Unlock()
	if t := l.e.taskOf(); t != nil {
		t.logCall(l.id, false, shareAccess)
	}
}

func (l *fakeLeaf) io() virtual.Status {
	t := l.e.taskOf()
	if t == nil {
		return virtual.StatusOK
	}
	if t.parkIo {
		t.park(stParkedIo)
	}
	return t.ioErr
}

func (l *fakeLeaf) VirtualRead(ctx context.Context, buf []byte, offset uint64) (int, bool, virtual.Status) {
	if s := l.io(); s != virtual.StatusOK {
		return 0, false, s
	}
	return 0, true, virtual.StatusOK
}

func (l *fakeLeaf) VirtualWrite(ctx context.Context, buf []byte, offset uint64) (int, virtual.Status) {
	if s := l.io(); s != virtual.StatusOK {
		return 0, s
	}
	return len(buf), virtual.StatusOK
}

func (l *fakeLeaf) VirtualSetAttributes(ctx context.Context, in *virtual.Attributes, requested virtual.AttributesMask, a *virtual.Attributes) virtual.Status {
	return l.io()
}

// handle resolver: linked files and the root only
func (e *env) resolve(r io.ByteReader) (virtual.DirectoryChild, virtual.Status) {
	var h []byte
	for {
		b, err := r.ReadByte()
		if err != nil {
			break
		}
		h = append(h, b)
	}
	if bytes.Equal(h, rootHandle) {
		return virtual.DirectoryChild{}.FromDirectory(e.root), virtual.StatusOK
	}
	if id, ok := handleID(h); ok && e.root.linked(id) {
		return virtual.DirectoryChild{}.FromLeaf(e.leaf(id)), virtual.StatusOK
	}
	return virtual.DirectoryChild{}, virtual.StatusErrStale
}

// ---- controller -----------------------------------------------------------------

// start runs f in a new goroutine registered as a task.
func (e *env) start(t *task, f func() *nfsv4.Compound4res) {
	t.resume = make(chan struct{})
	ready := make(chan struct{})
	go func() {
		t.gid = goid()
		e.mu.Lock()
		e.tasks[t.gid] = t
		e.mu.Unlock()
		close(ready)
		defer func() {
			if r := recover(); r != nil {
				t.panicked = r
			}
			e.mu.Lock()
			delete(e.tasks, t.gid)
			e.mu.Unlock()
			t.state.Store(stDone)
		}()
		t.res = f()
	}()
	<-ready
}

type waitResult int

const (
	wDone waitResult = iota
	wParked
	wBlocked
	wHang
)

// blockedInProgram reports whether goroutine gid is waiting on the channel of
// an open-owner transaction inside the NFS program.
func blockedInProgram(gid uint64) bool {
	buf := make([]byte, 1<<16)
	for {
		n := runtime.Stack(buf, true)
		if n < len(buf) {
			buf = buf[:n]
			break
		}
		buf = make([]byte, 2*len(buf))
	}
	header := fmt.Sprintf("goroutine %d [", gid)
	for _, g := range strings.Split(string(buf), "\n\n") {
		if strings.HasPrefix(g, header) {
			first := g[:strings.Index(g, "\n")]
			return strings.Contains(first, "chan receive") && strings.Contains(g, "waitForCurrentTransactionCompletion")
		}
	}
	return false
}

// wait until the task has returned, parked in a fake, or blocked inside the
// program. No sleeps: spin with Gosched; the watchdog reports a hang.
func (e *env) wait(t *task) waitResult {
	deadline := time.Now().Add(10 * time.Second)
	for i := 0; ; i++ {
		switch t.state.Load() {
		case stDone:
			return wDone
		case stParkedOpen, stParkedIo, stParkedClock:
			return wParked
		}
		if i > 200 && i%50 == 0 {
			if blockedInProgram(t.gid) {
				return wBlocked
			}
			if time.Now().After(deadline) {
				return wHang
			}
		}
		runtime.Gosched()
	}
}

func (e *env) release(t *task) {
	t.state.Store(stRunning)
	t.resume <- struct{}{}
}
