// Harness for the Platform area of C05: drives the real platform.NewKey,
// platform.Trie and routing.DemultiplexingActionRouter on generated
// histories and records every output.
//
// A history has a pool of key arguments (instance name string + property
// list, some deliberately invalid) and a list of ops that refer to pool
// entries by index (modulo the pool size), so that any sub-list of ops is
// again a history.
package main

import (
	"context"
	"encoding/json"
	"fmt"
	"sort"
	"strings"

	remoteexecution "github.com/bazelbuild/remote-apis/build/bazel/remote/execution/v2"
	"github.com/buildbarn/bb-remote-execution/pkg/scheduler/initialsizeclass"
	"github.com/buildbarn/bb-remote-execution/pkg/scheduler/invocation"
	"github.com/buildbarn/bb-remote-execution/pkg/scheduler/platform"
	"github.com/buildbarn/bb-remote-execution/pkg/scheduler/routing"
	"github.com/buildbarn/bb-storage/pkg/digest"
	"google.golang.org/grpc/codes"
	"google.golang.org/grpc/status"

	g "verif/harness/internal/gallina"
	"verif/harness/internal/hcommon"
	"verif/harness/internal/rng"
)

type karg struct {
	I string      `json:"i"`
	P [][2]string `json:"p"`
}

type op struct {
	// newkey, keyeq, set, remove, contains, getexact, getlongest, register, route
	K string `json:"k"`
	A int    `json:"a"`
	B int    `json:"b,omitempty"`
	V int    `json:"v,omitempty"`
}

type history struct {
	Keys []karg `json:"keys"`
	Ops  []op   `json:"ops"`
}

type area struct{}

func (area) Requires() string {
	return "From Coq Require Import ZArith.\nFrom VF Require Import Common.Verdict Platform.Model Platform.Corr.\nOpen Scope string_scope."
}
func (area) Check() string { return "check_case" }
func (area) Rule() string {
	return "a pool of 5-10 key arguments: instance names of 0-4 components over {a,b,c,d e,é} nested under each other (92%) or invalid (leading/trailing/double slash, reserved keyword), property lists over 3 names x 5 values (incl. empty strings, a quote, JSON punctuation), 85% strictly sorted, else shuffled / with a duplicated pair / with two equal names in descending value order; 20-70 ops (thorough 40-200): Set (values 0..49), Remove (70% of a key that was set, else any key: absent keys make the Go code panic unless the path is an interior node), ContainsExact, GetExact, GetLongestPrefix, NewKey+GetPlatformQueueName, key equality of two pool entries, RegisterActionRouter with stub backends, RouteAction through a stub key extractor; non-trivial = a longest-prefix lookup that returned a strictly shorter registered prefix and a Remove of a registered key"
}

var comps = []string{"a", "b", "c", "d e", "é"}
var reserved = []string{"blobs", "uploads", "actions", "actionResults", "operations", "capabilities", "compressed-blobs"}
var pnames = []string{"arch", "os", ""}
var pvalues = []string{"linux", "arm", "", "a\"b", "x}{,:y"}

func genProps(r *rng.R) [][2]string {
	n := r.Intn(4)
	set := map[[2]string]bool{}
	for i := 0; i < n; i++ {
		set[[2]string{pnames[r.Intn(len(pnames))], pvalues[r.Intn(len(pvalues))]}] = true
	}
	ps := make([][2]string, 0, len(set))
	for p := range set {
		ps = append(ps, p)
	}
	sort.Slice(ps, func(i, j int) bool {
		if ps[i][0] != ps[j][0] {
			return ps[i][0] < ps[j][0]
		}
		return ps[i][1] < ps[j][1]
	})
	switch x := r.Intn(100); {
	case x < 85:
	case x < 90: // swap two
		if len(ps) >= 2 {
			i := r.Intn(len(ps) - 1)
			ps[i], ps[i+1] = ps[i+1], ps[i]
		}
	case x < 95: // duplicate a pair
		if len(ps) >= 1 {
			i := r.Intn(len(ps))
			ps = append(ps[:i+1], ps[i:]...)
		}
	default: // equal names, values descending
		nm := pnames[r.Intn(len(pnames))]
		ps = [][2]string{{nm, "linux"}, {nm, "arm"}}
	}
	return ps
}

func genInst(r *rng.R, base []string) string {
	// extend or truncate a base path so that pool entries nest
	cs := append([]string{}, base...)
	switch r.Intn(4) {
	case 0:
		if len(cs) > 0 {
			cs = cs[:r.Intn(len(cs))]
		}
	case 1:
		cs = append(cs, comps[r.Intn(len(comps))])
	case 2:
		cs = nil
		for i, n := 0, r.Intn(4); i < n; i++ {
			cs = append(cs, comps[r.Intn(3)])
		}
	}
	if len(cs) > 4 {
		cs = cs[:4]
	}
	s := strings.Join(cs, "/")
	if r.Chance(8) {
		switch r.Intn(5) {
		case 0:
			s = "/" + s
		case 1:
			s = s + "/"
		case 2:
			s = "a//" + s
		case 3:
			s = strings.Join(append(cs, reserved[r.Intn(len(reserved))]), "/")
		default:
			s = strings.Join(append([]string{reserved[r.Intn(len(reserved))]}, cs...), "/")
		}
	}
	return s
}

func (area) Generate(r *rng.R, thorough bool, index int) json.RawMessage {
	var h history
	nk := 5 + r.Intn(6)
	nplat := 1 + r.Intn(3)
	plats := make([][][2]string, nplat)
	for i := range plats {
		plats[i] = genProps(r)
	}
	base := []string{}
	for i, n := 0, 1+r.Intn(3); i < n; i++ {
		base = append(base, comps[r.Intn(3)])
	}
	for i := 0; i < nk; i++ {
		h.Keys = append(h.Keys, karg{I: genInst(r, base), P: plats[r.Intn(nplat)]})
	}
	n := 20 + r.Intn(51)
	if thorough {
		n = 40 + r.Intn(161)
	}
	var present []int
	for i := 0; i < n; i++ {
		o := op{A: r.Intn(nk), B: r.Intn(nk)}
		switch x := r.Intn(100); {
		case x < 24:
			o.K = "set"
			o.V = r.Intn(50)
			present = append(present, o.A)
		case x < 38:
			o.K = "remove"
			if len(present) > 0 && r.Chance(70) {
				j := r.Intn(len(present))
				o.A = present[j]
				present = append(present[:j], present[j+1:]...)
			}
		case x < 46:
			o.K = "contains"
		case x < 56:
			o.K = "getexact"
		case x < 74:
			o.K = "getlongest"
		case x < 78:
			o.K = "newkey"
		case x < 83:
			o.K = "keyeq"
		case x < 91:
			o.K = "register"
		default:
			o.K = "route"
		}
		h.Ops = append(h.Ops, o)
	}
	data, _ := json.Marshal(h)
	return data
}

// ---- stubs -----------------------------------------------------------------

type stubRouter struct {
	id     int
	called *int
}

func (s stubRouter) RouteAction(ctx context.Context, digestFunction digest.Function, action *remoteexecution.Action, requestMetadata *remoteexecution.RequestMetadata) (*remoteexecution.Action, platform.Key, []invocation.Key, initialsizeclass.Selector, error) {
	*s.called = s.id
	return action, platform.Key{}, nil, nil, nil
}

type stubExtractor struct {
	key platform.Key
	err error
}

func (e *stubExtractor) ExtractKey(ctx context.Context, digestFunction digest.Function, action *remoteexecution.Action) (platform.Key, error) {
	return e.key, e.err
}

// ---- execution ---------------------------------------------------------------

func toPlatform(ps [][2]string) *remoteexecution.Platform {
	p := &remoteexecution.Platform{}
	for _, x := range ps {
		p.Properties = append(p.Properties, &remoteexecution.Platform_Property{Name: x[0], Value: x[1]})
	}
	return p
}

// class: 0 ok, 1 bad instance name, 2 rejected by NewKey with InvalidArgument
func buildKey(a karg) (platform.Key, digest.InstanceName, int, error) {
	in, err := digest.NewInstanceName(a.I)
	if err != nil {
		return platform.Key{}, in, 1, err
	}
	k, err := platform.NewKey(in, toPlatform(a.P))
	if err != nil {
		if status.Code(err) != codes.InvalidArgument {
			panic(fmt.Sprintf("NewKey: unexpected code %v", err))
		}
		return platform.Key{}, in, 2, err
	}
	return k, in, 0, nil
}

func gProps(ps [][2]string) string {
	items := make([]string, len(ps))
	for i, p := range ps {
		items[i] = "(" + g.Str(p[0]) + ", " + g.Str(p[1]) + ")"
	}
	return g.List(items)
}

func gKarg(a karg) string { return g.App("mkKA", g.Str(a.I), gProps(a.P)) }

func recoverPanic(f func()) (panicked bool) {
	defer func() {
		if r := recover(); r != nil {
			panicked = true
		}
	}()
	f()
	return false
}

func (area) Execute(raw json.RawMessage) (string, *hcommon.Info, error) {
	var h history
	if err := json.Unmarshal(raw, &h); err != nil {
		return "", nil, err
	}
	info := hcommon.NewInfo()
	trie := platform.NewTrie()
	called := -1
	extractor := &stubExtractor{}
	router := routing.NewDemultiplexingActionRouter(extractor, stubRouter{id: 0, called: &called})
	nextBackend := 1

	// for the non-triviality rule
	exact := map[string]int{}
	sawShorter, sawRemove, sawDup := false, false, false

	var ops, outs []string
	for _, o := range h.Ops {
		if len(h.Keys) == 0 {
			continue
		}
		a := h.Keys[((o.A%len(h.Keys))+len(h.Keys))%len(h.Keys)]
		b := h.Keys[((o.B%len(h.Keys))+len(h.Keys))%len(h.Keys)]
		var gop, gout string
		switch o.K {
		case "newkey":
			gop = g.App("ONewKey", gKarg(a))
			k, _, class, _ := buildKey(a)
			switch class {
			case 1:
				gout = "XKeyBadInstance"
			case 2:
				gout = "XKeyUnsorted"
			default:
				qn := k.GetPlatformQueueName()
				var ps [][2]string
				for _, p := range qn.Platform.GetProperties() {
					ps = append(ps, [2]string{p.Name, p.Value})
				}
				if k.GetInstanceNamePrefix().String() != qn.InstanceNamePrefix {
					return "", nil, fmt.Errorf("GetPlatformQueueName/GetInstanceNamePrefix disagree")
				}
				gout = g.App("XKeyOk", g.Str(qn.InstanceNamePrefix), gProps(ps), g.Str(k.GetPlatformString()))
			}
		case "keyeq":
			gop = g.App("OKeyEq", gKarg(a), gKarg(b))
			ka, _, ca, _ := buildKey(a)
			kb, _, cb, _ := buildKey(b)
			if ca == 0 && cb == 0 {
				gout = g.App("XBool", g.Bool(ka == kb))
			} else {
				gout = "XNone"
			}
		case "set", "remove", "contains", "getexact", "getlongest":
			k, _, class, _ := buildKey(a)
			name := map[string]string{"set": "OSet", "remove": "ORemove", "contains": "OContains", "getexact": "OGetExact", "getlongest": "OGetLongest"}[o.K]
			if o.K == "set" {
				v := o.V
				if v < 0 {
					v = -v
				}
				gop = g.App(name, gKarg(a), g.Z(int64(v)))
				o.V = v
			} else {
				gop = g.App(name, gKarg(a))
			}
			if class != 0 {
				gout = "XNone"
				break
			}
			id := k.GetInstanceNamePrefix().String() + "\x00" + k.GetPlatformString()
			switch o.K {
			case "set":
				if recoverPanic(func() { trie.Set(k, o.V) }) {
					gout = "XPanic"
				} else {
					gout = "XDone"
					exact[id] = o.V
				}
			case "remove":
				if recoverPanic(func() { trie.Remove(k) }) {
					gout = "XPanic"
				} else {
					gout = "XDone"
					if _, ok := exact[id]; ok {
						sawRemove = true
					}
					delete(exact, id)
				}
			case "contains":
				gout = g.App("XBool", g.Bool(trie.ContainsExact(k)))
			case "getexact":
				gout = g.App("XInt", g.Z(int64(trie.GetExact(k))))
			case "getlongest":
				v := trie.GetLongestPrefix(k)
				gout = g.App("XInt", g.Z(int64(v)))
				if _, ok := exact[id]; !ok && v >= 0 {
					sawShorter = true
				}
			}
		case "register":
			gop = g.App("ORegister", gKarg(a))
			in, err := digest.NewInstanceName(a.I)
			if err != nil {
				gout = "XNone"
				break
			}
			err = router.RegisterActionRouter(in, toPlatform(a.P), stubRouter{id: nextBackend, called: &called})
			switch status.Code(err) {
			case codes.OK:
				gout = "(XReg RegOk)"
				nextBackend++
			case codes.InvalidArgument:
				gout = "(XReg RegInvalid)"
			case codes.AlreadyExists:
				gout = "(XReg RegExists)"
				sawDup = true
			default:
				return "", nil, fmt.Errorf("RegisterActionRouter: unexpected error %v", err)
			}
		case "route":
			gop = g.App("ORoute", gKarg(a))
			k, _, class, kerr := buildKey(a)
			extractor.key, extractor.err = k, nil
			if class != 0 {
				extractor.key, extractor.err = platform.Key{}, kerr
			}
			called = -1
			var rerr error
			if recoverPanic(func() { _, _, _, _, rerr = router.RouteAction(context.Background(), digest.Function{}, &remoteexecution.Action{}, nil) }) {
				gout = "XPanic"
			} else if rerr != nil {
				gout = "XRouteErr"
			} else {
				gout = g.App("XRoute", g.Z(int64(called)))
			}
		default:
			continue
		}
		info.Ops[o.K]++
		info.Outs[strings.Fields(strings.Trim(gout, "()"))[0]]++
		ops = append(ops, gop)
		outs = append(outs, gout)
	}
	info.Events = len(ops)
	_ = sawDup
	info.Nontrivial = sawShorter && sawRemove
	term := g.App("mkCase", g.List(ops), g.List(outs))
	return term, info, nil
}

func main() { hcommon.Main(area{}) }
