// uploadorder reads cmd/bb_worker/main.go of the repository under
// verification and emits, as a Coq file, the order in which the
// BuildExecutor decorators wrap the local executor, and how the batched
// CAS writer, its flusher and the unbatched CAS are wired into them.  The
// generated definitions are compared by reflexivity with the order the
// theorems of VF.Upload assume (checks/C09.py, static obligation).
//
//	uploadorder -repo /repo -out generated.v
package main

import (
	"flag"
	"fmt"
	"go/ast"
	"go/parser"
	"go/token"
	"os"
	"path/filepath"
	"strings"
)

type chainEntry struct {
	name string   // "Local", "StorageFlushing", ...
	args []string // root identifiers of the remaining arguments ("" if not a plain identifier)
}

type extractor struct {
	roots  map[string]string // variable -> the variable it wraps (through New*BlobAccess(x, ...) decorators)
	chain  []chainEntry
	chains int // number of complete assignments to buildExecutor seen
	// NewBatchedStoreBlobAccess(base, ...) results
	batchedWriter, batchedFlusher, batchedBase string
	problems                                   []string
}

func selName(e ast.Expr) (pkg, name string) {
	if s, ok := e.(*ast.SelectorExpr); ok {
		if x, ok := s.X.(*ast.Ident); ok {
			return x.Name, s.Sel.Name
		}
	}
	return "", ""
}

func (x *extractor) root(v string) string {
	for i := 0; i < 32; i++ {
		r, ok := x.roots[v]
		if !ok || r == v {
			return v
		}
		v = r
	}
	return v
}

// rootOf gives the variable an expression denotes, looking through
// decorator constructors whose first argument is the decorated object.
func (x *extractor) rootOf(e ast.Expr) string {
	switch e := e.(type) {
	case *ast.Ident:
		return x.root(e.Name)
	case *ast.CallExpr:
		if _, name := selName(e.Fun); strings.HasPrefix(name, "New") && len(e.Args) > 0 {
			return x.rootOf(e.Args[0])
		}
	}
	return ""
}

func decoratorName(name string) (string, bool) {
	if strings.HasPrefix(name, "New") && strings.HasSuffix(name, "BuildExecutor") {
		return strings.TrimSuffix(strings.TrimPrefix(name, "New"), "BuildExecutor"), true
	}
	return "", false
}

// evalExecutor turns an expression of type BuildExecutor into a chain.
func (x *extractor) evalExecutor(e ast.Expr) ([]chainEntry, bool) {
	switch e := e.(type) {
	case *ast.Ident:
		if e.Name == "buildExecutor" {
			return append([]chainEntry(nil), x.chain...), true
		}
	case *ast.CallExpr:
		pkg, name := selName(e.Fun)
		d, ok := decoratorName(name)
		if pkg != "builder" || !ok {
			return nil, false
		}
		if d == "Local" {
			var args []string
			for _, a := range e.Args {
				args = append(args, x.rootOf(a))
			}
			return []chainEntry{{name: d, args: args}}, true
		}
		if len(e.Args) == 0 {
			return nil, false
		}
		inner, ok := x.evalExecutor(e.Args[0])
		if !ok {
			return nil, false
		}
		var args []string
		for _, a := range e.Args[1:] {
			args = append(args, x.rootOf(a))
		}
		return append(inner, chainEntry{name: d, args: args}), true
	}
	return nil, false
}

func (x *extractor) assign(s *ast.AssignStmt) {
	// writer, flusher := re_blobstore.NewBatchedStoreBlobAccess(base, ...)
	if len(s.Rhs) == 1 {
		if call, ok := s.Rhs[0].(*ast.CallExpr); ok {
			if _, name := selName(call.Fun); name == "NewBatchedStoreBlobAccess" && len(s.Lhs) == 2 && len(call.Args) > 0 {
				w, ok1 := s.Lhs[0].(*ast.Ident)
				f, ok2 := s.Lhs[1].(*ast.Ident)
				if ok1 && ok2 {
					x.batchedWriter, x.batchedFlusher, x.batchedBase = w.Name, f.Name, x.rootOf(call.Args[0])
					x.roots[w.Name] = w.Name
					return
				}
			}
		}
	}
	if len(s.Lhs) != 1 || len(s.Rhs) != 1 {
		return
	}
	lhs, ok := s.Lhs[0].(*ast.Ident)
	if !ok {
		return
	}
	if lhs.Name == "buildExecutor" {
		c, ok := x.evalExecutor(s.Rhs[0])
		if !ok {
			x.problems = append(x.problems, "assignment to buildExecutor that is not a chain of builder.New*BuildExecutor calls")
			return
		}
		x.chain = c
		x.chains++
		return
	}
	// v = somepkg.NewXxx(v', ...): v decorates v'
	if call, ok := s.Rhs[0].(*ast.CallExpr); ok {
		if _, name := selName(call.Fun); strings.HasPrefix(name, "New") && strings.HasSuffix(name, "BlobAccess") && len(call.Args) > 0 {
			if r := x.rootOf(call.Args[0]); r != "" && r != lhs.Name {
				x.roots[lhs.Name] = r
			}
		}
	}
}

func coqString(s string) string { return "\"" + strings.ReplaceAll(s, "\"", "\"\"") + "\"" }

func main() {
	repo := flag.String("repo", "/repo", "repository root")
	out := flag.String("out", "", "Coq file to write")
	flag.Parse()
	path := filepath.Join(*repo, "cmd", "bb_worker", "main.go")
	fset := token.NewFileSet()
	file, err := parser.ParseFile(fset, path, nil, 0)
	if err != nil {
		fmt.Fprintln(os.Stderr, err)
		os.Exit(1)
	}
	x := &extractor{roots: map[string]string{}}
	ast.Inspect(file, func(n ast.Node) bool {
		if s, ok := n.(*ast.AssignStmt); ok {
			x.assign(s)
		}
		return true
	})
	if x.chains == 0 {
		x.problems = append(x.problems, "no assignment to buildExecutor found")
	}
	if x.batchedWriter == "" {
		x.problems = append(x.problems, "no call of NewBatchedStoreBlobAccess found")
	}

	var names []string
	localCAS, flusher, cachingCAS, cachingAC := "", "", "", ""
	for _, c := range x.chain {
		names = append(names, coqString(c.name))
		switch c.name {
		case "Local":
			if len(c.args) > 0 {
				localCAS = c.args[0]
			}
		case "StorageFlushing":
			if len(c.args) > 0 {
				flusher = c.args[0]
			}
		case "Caching":
			if len(c.args) > 1 {
				cachingCAS, cachingAC = c.args[0], c.args[1]
			}
		}
	}
	b := func(v bool) string {
		if v {
			return "true"
		}
		return "false"
	}
	var sb strings.Builder
	fmt.Fprintf(&sb, "(* Generated by harness/cmd/uploadorder from %s; do not edit. *)\n", path)
	sb.WriteString("From Coq Require Import String List.\nImport ListNotations.\nOpen Scope string_scope.\n")
	sb.WriteString("From VF Require Import Upload.Order.\n\n")
	fmt.Fprintf(&sb, "Definition extracted_order : list string := [%s].\n", strings.Join(names, "; "))
	fmt.Fprintf(&sb, "(* NewLocalBuildExecutor uploads through %q; NewBatchedStoreBlobAccess returned (%q, %q) around %q;\n   NewStorageFlushingBuildExecutor flushes with %q; NewCachingBuildExecutor writes to CAS %q and AC %q. *)\n",
		localCAS, x.batchedWriter, x.batchedFlusher, x.batchedBase, flusher, cachingCAS, cachingAC)
	fmt.Fprintf(&sb, "Definition extracted_wiring : wiring := mkWiring %s %s %s %s.\n",
		b(localCAS != "" && localCAS == x.batchedWriter),
		b(flusher != "" && flusher == x.batchedFlusher),
		b(cachingCAS != "" && cachingCAS == x.batchedBase),
		b(cachingAC != "" && cachingAC != cachingCAS && cachingAC != x.batchedWriter))
	fmt.Fprintf(&sb, "Definition extraction_problems : list string := [%s].\n\n", func() string {
		var ps []string
		for _, p := range x.problems {
			ps = append(ps, coqString(p))
		}
		return strings.Join(ps, "; ")
	}())
	sb.WriteString("Theorem extraction_clean : extraction_problems = [].\nProof. reflexivity. Qed.\n")
	sb.WriteString("Theorem order_matches : storage_decorators extracted_order = assumed_order.\nProof. reflexivity. Qed.\n")
	sb.WriteString("Theorem decorators_known : forallb known_decorator extracted_order = true.\nProof. reflexivity. Qed.\n")
	sb.WriteString("Theorem wiring_matches : extracted_wiring = assumed_wiring.\nProof. reflexivity. Qed.\n")
	if *out == "" {
		fmt.Print(sb.String())
		return
	}
	if err := os.WriteFile(*out, []byte(sb.String()), 0o644); err != nil {
		fmt.Fprintln(os.Stderr, err)
		os.Exit(1)
	}
}
