// Harness for C20: drives virtual.ByteRangeLockSet the way OpenedFile does
// (Test then Set; unlock = Set(Unlocked)) and records results and the list
// after every operation.
package main

import (
	"encoding/json"
	"fmt"
	"math"

	"github.com/buildbarn/bb-remote-execution/pkg/filesystem/virtual"

	g "verif/harness/internal/gallina"
	"verif/harness/internal/hcommon"
	"verif/harness/internal/rng"
)

type op struct {
	K     string `json:"k"` // lock, unlock, test, rawset
	Owner uint64 `json:"o"`
	Excl  bool   `json:"x,omitempty"`
	Type  int    `json:"t,omitempty"` // rawset: 0 unlocked 1 excl 2 shared
	S     uint64 `json:"s"`
	E     uint64 `json:"e"`
}

type history struct {
	Ops []op `json:"ops"`
}

type area struct{}

func (area) Requires() string { return "From VF Require Import Common.Verdict LockSet.Model LockSet.Corr." }
func (area) Check() string    { return "check_case" }
func (area) Rule() string {
	return "histories of 15-60 lock/unlock/test requests (90%) and raw Set calls without Test (10% of histories) by <=4 owners over ranges with endpoints from {0..12, 2^64-2, 2^64-1}, start<end; non-trivial = at least one grant that split, truncated or merged an existing entry (delta != +1 on a lock, or any unlock with delta != 0) and at least one denial; distinct by hash of the full case term"
}

var endpoints = []uint64{0, 1, 2, 3, 4, 5, 6, 7, 8, 9, 10, 11, 12, math.MaxUint64 - 1, math.MaxUint64}

func genRange(r *rng.R) (uint64, uint64) {
	for {
		var a, b uint64
		if r.Chance(15) {
			a, b = endpoints[r.Intn(len(endpoints))], endpoints[r.Intn(len(endpoints))]
		} else {
			a, b = uint64(r.Intn(13)), uint64(r.Intn(13))
		}
		if a > b {
			a, b = b, a
		}
		if a < b {
			return a, b
		}
	}
}

func (area) Generate(r *rng.R, thorough bool, index int) json.RawMessage {
	n := 15 + r.Intn(46)
	if thorough {
		n = 30 + r.Intn(150)
	}
	owners := 1 + r.Intn(4)
	raw := index%10 == 9
	var h history
	for i := 0; i < n; i++ {
		s, e := genRange(r)
		o := op{Owner: uint64(r.Intn(owners)), S: s, E: e, Excl: r.Chance(40)}
		switch x := r.Intn(100); {
		case raw && x < 30:
			o.K = "rawset"
			o.Type = r.Intn(3)
		case x < 55:
			o.K = "lock"
		case x < 80:
			o.K = "unlock"
		default:
			o.K = "test"
		}
		h.Ops = append(h.Ops, o)
	}
	data, _ := json.Marshal(h)
	return data
}

func tyName(t virtual.ByteRangeLockType) string {
	switch t {
	case virtual.ByteRangeLockTypeUnlocked:
		return "Unlocked"
	case virtual.ByteRangeLockTypeLockedExclusive:
		return "Exclusive"
	default:
		return "Shared"
	}
}

func lockTerm(l virtual.ByteRangeLock[uint64]) string {
	return g.App("mkLock", g.N(l.Start), g.N(l.End), g.N(l.Owner), tyName(l.Type))
}

func (area) Execute(raw json.RawMessage) (term string, info *hcommon.Info, err error) {
	var h history
	if err := json.Unmarshal(raw, &h); err != nil {
		return "", nil, err
	}
	info = hcommon.NewInfo()
	var ls virtual.ByteRangeLockSet[uint64]
	ls.Initialize()
	var ops, outs, dumps []string
	reshaped, denied := false, false
	for _, o := range h.Ops {
		info.Events++
		info.Ops[o.K]++
		ty := virtual.ByteRangeLockTypeLockedShared
		if o.Excl {
			ty = virtual.ByteRangeLockTypeLockedExclusive
		}
		var out string
		set := func(l virtual.ByteRangeLock[uint64]) {
			func() {
				defer func() {
					if r := recover(); r != nil {
						out = "Panicked"
						info.Outs["panic"]++
					}
				}()
				d := ls.Set(&l)
				out = g.App("Granted", g.Z(int64(d)))
				info.Outs[fmt.Sprintf("granted%+d", d)]++
				if (l.Type != virtual.ByteRangeLockTypeUnlocked && d != 1) || (l.Type == virtual.ByteRangeLockTypeUnlocked && d != 0) {
					reshaped = true
				}
			}()
		}
		switch o.K {
		case "lock":
			ops = append(ops, g.App("OLock", g.N(o.Owner), g.Bool(o.Excl), g.N(o.S), g.N(o.E)))
			l := virtual.ByteRangeLock[uint64]{Start: o.S, End: o.E, Owner: o.Owner, Type: ty}
			if c := ls.Test(&l); c != nil {
				out = g.App("Denied", lockTerm(*c))
				info.Outs["denied"]++
				denied = true
			} else {
				set(l)
			}
		case "unlock":
			ops = append(ops, g.App("OUnlock", g.N(o.Owner), g.N(o.S), g.N(o.E)))
			set(virtual.ByteRangeLock[uint64]{Start: o.S, End: o.E, Owner: o.Owner, Type: virtual.ByteRangeLockTypeUnlocked})
		case "test":
			ops = append(ops, g.App("OTest", g.N(o.Owner), g.Bool(o.Excl), g.N(o.S), g.N(o.E)))
			l := virtual.ByteRangeLock[uint64]{Start: o.S, End: o.E, Owner: o.Owner, Type: ty}
			if c := ls.Test(&l); c != nil {
				out = g.App("Denied", lockTerm(*c))
				info.Outs["test-denied"]++
			} else {
				out = "TestOk"
				info.Outs["test-ok"]++
			}
		case "rawset":
			t := virtual.ByteRangeLockType(o.Type)
			ops = append(ops, g.App("ORawSet", g.N(o.Owner), tyName(t), g.N(o.S), g.N(o.E)))
			set(virtual.ByteRangeLock[uint64]{Start: o.S, End: o.E, Owner: o.Owner, Type: t})
		default:
			return "", nil, fmt.Errorf("unknown op %q", o.K)
		}
		outs = append(outs, out)
		var d []string
		entries := ls.VerifEntries()
		for _, l := range entries {
			d = append(d, lockTerm(l))
		}
		if len(entries) > info.Extra["max_entries"] {
			info.Extra["max_entries"] = len(entries)
		}
		dumps = append(dumps, g.List(d))
	}
	info.Nontrivial = reshaped && denied
	return g.App("mkCase", g.List(ops), g.List(outs), g.List(dumps)), info, nil
}

func main() { hcommon.Main(area{}) }
