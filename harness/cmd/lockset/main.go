// Harness for C20: drives virtual.ByteRangeLockSet the way OpenedFile does
// (Test then Set; unlock = Set(Unlocked)) and records results and the list
// after every operation. Histories with "via":"nfs" drive the table through
// nfsv4.OpenedFile/OpenedFilesPool instead (Lock, Unlock, TestLock,
// UnlockAll with NFSv4 (offset, length) pairs), which also exercises
// offsetLengthToStartEnd and byteRangeLockToLock4Denied.
package main

import (
	"encoding/json"
	"fmt"
	"math"

	"github.com/buildbarn/bb-remote-execution/pkg/filesystem/virtual"
	vnfs "github.com/buildbarn/bb-remote-execution/pkg/filesystem/virtual/nfsv4"
	"github.com/buildbarn/go-xdr/pkg/protocols/nfsv4"

	g "verif/harness/internal/gallina"
	"verif/harness/internal/hcommon"
	"verif/harness/internal/rng"
)

type op struct {
	// table histories: lock, unlock, test, rawset (S, E);
	// nfs histories: nlock, nunlock, ntest (Off, Len), unlockall.
	// An op of the other family is skipped.
	K     string `json:"k"`
	Owner uint64 `json:"o"`
	Excl  bool   `json:"x,omitempty"`
	Type  int    `json:"t,omitempty"` // rawset: 0 unlocked 1 excl 2 shared
	S     uint64 `json:"s,omitempty"`
	E     uint64 `json:"e,omitempty"`
	Off   uint64 `json:"off,omitempty"`
	Len   uint64 `json:"len,omitempty"`
}

type history struct {
	Via string `json:"via,omitempty"` // "" = table, "nfs" = through OpenedFile
	Ops []op   `json:"ops"`
}

type area struct{}

func (area) Requires() string { return "From VF Require Import Common.Verdict LockSet.Model LockSet.Corr." }
func (area) Check() string    { return "check_case" }
func (area) Rule() string {
	return "histories of 15-60 (thorough 30-180) requests by <=4 owners. 60% of histories: lock/unlock/test on ByteRangeLockSet over ranges with endpoints from {0..12, 2^64-2, 2^64-1}, start<end (never start>=end: callers cannot produce it); 10%: the same plus raw Set calls without Test; 30%: through OpenedFile.Lock/Unlock/UnlockAll and OpenedFilesPool.TestLock with (offset, length): offsets as above, lengths from {0, 1..6, 2^64-1-offset, 2^64-offset (overflow), 2^64-2, 2^64-1}; thorough tier takes endpoints near 2^64-1 twice as often; non-trivial = at least one grant that split, truncated or merged an existing entry (delta != +1 on a lock, or any unlock with delta != 0) and at least one denial; distinct by hash of the full case term"
}

var endpoints = []uint64{0, 1, 2, 3, 4, 5, 6, 7, 8, 9, 10, 11, 12, math.MaxUint64 - 1, math.MaxUint64}

func genOffLen(r *rng.R, thorough bool) (uint64, uint64) {
	var off uint64
	pct := 15
	if thorough {
		pct = 30
	}
	if r.Chance(pct) {
		off = endpoints[r.Intn(len(endpoints))]
	} else {
		off = uint64(r.Intn(13))
	}
	var l uint64
	switch x := r.Intn(100); {
	case x < 4:
		l = 0
	case x < 70:
		l = uint64(1 + r.Intn(6))
	case x < 78:
		l = math.MaxUint64 - off // end = 2^64-1 exactly
	case x < 83:
		l = math.MaxUint64 - off + 1 // one too many (wraps to 0 for off = 0)
	case x < 88:
		l = math.MaxUint64 - 1
	default:
		l = math.MaxUint64 // to end of file
	}
	return off, l
}

func genRange(r *rng.R, thorough bool) (uint64, uint64) {
	pct := 15
	if thorough {
		pct = 30
	}
	for {
		var a, b uint64
		if r.Chance(pct) {
			a, b = endpoints[r.Intn(len(endpoints))], endpoints[r.Intn(len(endpoints))]
		} else {
			a, b = uint64(r.Intn(13)), uint64(r.Intn(13))
		}
		if a > b {
			a, b = b, a
		}
		if a < b {
			return a, b
		}
	}
}

func (area) Generate(r *rng.R, thorough bool, index int) json.RawMessage {
	n := 15 + r.Intn(46)
	if thorough {
		n = 30 + r.Intn(150)
	}
	owners := 1 + r.Intn(4)
	raw := index%10 == 9
	var h history
	if m := index % 10; m == 2 || m == 5 || m == 8 {
		h.Via = "nfs"
		for i := 0; i < n; i++ {
			off, l := genOffLen(r, thorough)
			o := op{Owner: uint64(r.Intn(owners)), Off: off, Len: l, Excl: r.Chance(40)}
			switch x := r.Intn(100); {
			case x < 50:
				o.K = "nlock"
			case x < 72:
				o.K = "nunlock"
			case x < 95:
				o.K = "ntest"
			default:
				o.K = "unlockall"
				o.Off, o.Len = 0, 0
			}
			h.Ops = append(h.Ops, o)
		}
		data, _ := json.Marshal(h)
		return data
	}
	for i := 0; i < n; i++ {
		s, e := genRange(r, thorough)
		o := op{Owner: uint64(r.Intn(owners)), S: s, E: e, Excl: r.Chance(40)}
		switch x := r.Intn(100); {
		case raw && x < 30:
			o.K = "rawset"
			o.Type = r.Intn(3)
		case x < 55:
			o.K = "lock"
		case x < 80:
			o.K = "unlock"
		default:
			o.K = "test"
		}
		h.Ops = append(h.Ops, o)
	}
	data, _ := json.Marshal(h)
	return data
}

func tyName(t virtual.ByteRangeLockType) string {
	switch t {
	case virtual.ByteRangeLockTypeUnlocked:
		return "Unlocked"
	case virtual.ByteRangeLockTypeLockedExclusive:
		return "Exclusive"
	default:
		return "Shared"
	}
}

func lockTerm(l virtual.ByteRangeLock[uint64]) string {
	return g.App("mkLock", g.N(l.Start), g.N(l.End), g.N(l.Owner), tyName(l.Type))
}

func (area) Execute(raw json.RawMessage) (term string, info *hcommon.Info, err error) {
	var h history
	if err := json.Unmarshal(raw, &h); err != nil {
		return "", nil, err
	}
	info = hcommon.NewInfo()
	if h.Via == "nfs" {
		return executeNFS(h, info)
	}
	var ls virtual.ByteRangeLockSet[uint64]
	ls.Initialize()
	var ops, outs, dumps []string
	reshaped, denied := false, false
	for _, o := range h.Ops {
		info.Events++
		info.Ops[o.K]++
		ty := virtual.ByteRangeLockTypeLockedShared
		if o.Excl {
			ty = virtual.ByteRangeLockTypeLockedExclusive
		}
		var out string
		set := func(l virtual.ByteRangeLock[uint64]) {
			func() {
				defer func() {
					if r := recover(); r != nil {
						out = "Panicked"
						info.Outs["panic"]++
					}
				}()
				d := ls.Set(&l)
				out = g.App("Granted", g.Z(int64(d)))
				info.Outs[fmt.Sprintf("granted%+d", d)]++
				if (l.Type != virtual.ByteRangeLockTypeUnlocked && d != 1) || (l.Type == virtual.ByteRangeLockTypeUnlocked && d != 0) {
					reshaped = true
				}
			}()
		}
		switch o.K {
		case "lock":
			ops = append(ops, g.App("OLock", g.N(o.Owner), g.Bool(o.Excl), g.N(o.S), g.N(o.E)))
			l := virtual.ByteRangeLock[uint64]{Start: o.S, End: o.E, Owner: o.Owner, Type: ty}
			if c := ls.Test(&l); c != nil {
				out = g.App("Denied", lockTerm(*c))
				info.Outs["denied"]++
				denied = true
			} else {
				set(l)
			}
		case "unlock":
			ops = append(ops, g.App("OUnlock", g.N(o.Owner), g.N(o.S), g.N(o.E)))
			set(virtual.ByteRangeLock[uint64]{Start: o.S, End: o.E, Owner: o.Owner, Type: virtual.ByteRangeLockTypeUnlocked})
		case "test":
			ops = append(ops, g.App("OTest", g.N(o.Owner), g.Bool(o.Excl), g.N(o.S), g.N(o.E)))
			l := virtual.ByteRangeLock[uint64]{Start: o.S, End: o.E, Owner: o.Owner, Type: ty}
			if c := ls.Test(&l); c != nil {
				out = g.App("Denied", lockTerm(*c))
				info.Outs["test-denied"]++
			} else {
				out = "TestOk"
				info.Outs["test-ok"]++
			}
		case "rawset":
			t := virtual.ByteRangeLockType(o.Type)
			ops = append(ops, g.App("ORawSet", g.N(o.Owner), tyName(t), g.N(o.S), g.N(o.E)))
			set(virtual.ByteRangeLock[uint64]{Start: o.S, End: o.E, Owner: o.Owner, Type: t})
		case "nlock", "nunlock", "ntest", "unlockall":
			info.Events--
			info.Ops[o.K]--
			continue
		default:
			return "", nil, fmt.Errorf("unknown op %q", o.K)
		}
		outs = append(outs, out)
		var d []string
		entries := ls.VerifEntries()
		for _, l := range entries {
			d = append(d, lockTerm(l))
		}
		if len(entries) > info.Extra["max_entries"] {
			info.Extra["max_entries"] = len(entries)
		}
		dumps = append(dumps, g.List(d))
	}
	info.Nontrivial = reshaped && denied
	return g.App("mkCase", g.List(ops), g.List(outs), g.List(dumps)), info, nil
}

// executeNFS runs a history against one opened file of an OpenedFilesPool.
func executeNFS(h history, info *hcommon.Info) (string, *hcommon.Info, error) {
	pool := vnfs.NewOpenedFilesPool(nil)
	handle := nfsv4.NfsFh4{1, 2, 3}
	of := pool.Open(handle, nil)
	owners := map[uint64]*nfsv4.LockOwner4{}
	index := map[*nfsv4.LockOwner4]uint64{}
	ownerOf := func(i uint64) *nfsv4.LockOwner4 {
		if p, ok := owners[i]; ok {
			return p
		}
		p := &nfsv4.LockOwner4{Clientid: 7, Owner: []byte{byte(i)}}
		owners[i] = p
		index[p] = i
		return p
	}
	deniedTerm := func(d nfsv4.Lock4denied) string {
		// The owner is reported by value; owners are told apart by
		// their one-byte opaque.
		var ow uint64
		if len(d.Owner.Owner) == 1 {
			ow = uint64(d.Owner.Owner[0])
		}
		return g.App("DeniedNfs", g.N(d.Offset), g.N(d.Length), g.Bool(d.Locktype == nfsv4.WRITE_LT), g.N(ow))
	}
	var ops, outs, dumps []string
	reshaped, denied := false, false
	for _, o := range h.Ops {
		lt := nfsv4.READ_LT
		if o.Excl {
			lt = nfsv4.WRITE_LT
		}
		var opTerm, out string
		var execErr error
		func() {
			defer func() {
				if r := recover(); r != nil {
					out = "Panicked"
					info.Outs["panic"]++
				}
			}()
			granted := func(d int, isLock bool) {
				out = g.App("Granted", g.Z(int64(d)))
				info.Outs[fmt.Sprintf("nfs-granted%+d", d)]++
				if (isLock && d != 1) || (!isLock && d != 0) {
					reshaped = true
				}
			}
			inval := func(st nfsv4.Nfsstat4) {
				if st == nfsv4.NFS4ERR_INVAL {
					out = "Inval"
					info.Outs["nfs-inval"]++
				} else {
					execErr = fmt.Errorf("unexpected status %d", st)
				}
			}
			switch o.K {
			case "nlock":
				opTerm = g.App("ONfsLock", g.N(o.Owner), g.Bool(o.Excl), g.N(o.Off), g.N(o.Len))
				d, res := of.Lock(ownerOf(o.Owner), o.Off, o.Len, lt)
				switch r := res.(type) {
				case nil:
					granted(d, true)
				case *nfsv4.Lock4res_NFS4ERR_DENIED:
					out = deniedTerm(r.Denied)
					info.Outs["nfs-denied"]++
					denied = true
				case *nfsv4.Lock4res_default:
					inval(r.Status)
				default:
					execErr = fmt.Errorf("unexpected Lock result %T", res)
				}
			case "nunlock":
				opTerm = g.App("ONfsUnlock", g.N(o.Owner), g.N(o.Off), g.N(o.Len))
				d, st := of.Unlock(ownerOf(o.Owner), o.Off, o.Len)
				if st == nfsv4.NFS4_OK {
					granted(d, false)
				} else {
					inval(st)
				}
			case "ntest":
				opTerm = g.App("ONfsTest", g.N(o.Owner), g.Bool(o.Excl), g.N(o.Off), g.N(o.Len))
				switch r := pool.TestLock(handle, ownerOf(o.Owner), o.Off, o.Len, lt).(type) {
				case *nfsv4.Lockt4res_NFS4_OK:
					out = "TestOk"
					info.Outs["nfs-test-ok"]++
				case *nfsv4.Lockt4res_NFS4ERR_DENIED:
					out = deniedTerm(r.Denied)
					info.Outs["nfs-test-denied"]++
				case *nfsv4.Lockt4res_default:
					inval(r.Status)
				default:
					execErr = fmt.Errorf("unexpected TestLock result %T", r)
				}
			case "unlockall":
				opTerm = g.App("OUnlockAll", g.N(o.Owner))
				granted(of.UnlockAll(ownerOf(o.Owner)), false)
			}
		}()
		if execErr != nil {
			return "", nil, execErr
		}
		if opTerm == "" {
			switch o.K {
			case "lock", "unlock", "test", "rawset":
				continue
			}
			return "", nil, fmt.Errorf("unknown op %q", o.K)
		}
		info.Events++
		info.Ops[o.K]++
		ops = append(ops, opTerm)
		outs = append(outs, out)
		var d []string
		entries := of.VerifLocks()
		for _, l := range entries {
			d = append(d, g.App("mkLock", g.N(l.Start), g.N(l.End), g.N(index[l.Owner]), tyName(l.Type)))
		}
		if len(entries) > info.Extra["max_entries"] {
			info.Extra["max_entries"] = len(entries)
		}
		dumps = append(dumps, g.List(d))
	}
	info.Nontrivial = reshaped && denied
	return g.App("mkCase", g.List(ops), g.List(outs), g.List(dumps)), info, nil
}

func main() { hcommon.Main(area{}) }
