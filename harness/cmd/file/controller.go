package main

// Goroutine controller of the C16 harness.
//
// Every call into the file under test runs on its own goroutine.  After
// starting (or releasing) one, the harness waits until that goroutine has
// either returned or is blocked at one of the three places a call can
// block: `<-c` in lockMutatingData, the select in waitAndOpenReadFrozen, or
// the fake CAS's Put (which the harness owns).  "Blocked" is read off a
// stop-the-world goroutine dump (runtime.Stack(all)): the goroutine's
// header says "chan receive" / "select" and its stack names the function.
// A goroutine woken by close(channel) is made runnable inside close(), so
// once the closing call has returned a sleeper that is still reported as
// blocked has not been woken.  No sleeps are used to decide anything; the
// poll loop yields and, after many rounds, naps briefly only to be polite.

import (
	"bytes"
	"fmt"
	"runtime"
	"strconv"
	"time"
)

func goid() int64 {
	var buf [64]byte
	n := runtime.Stack(buf[:], false)
	// "goroutine 123 [running]:"
	f := bytes.Fields(buf[:n])
	if len(f) < 2 {
		return -1
	}
	id, err := strconv.ParseInt(string(f[1]), 10, 64)
	if err != nil {
		return -1
	}
	return id
}

func allStacks() []byte {
	buf := make([]byte, 1<<16)
	for {
		n := runtime.Stack(buf, true)
		if n < len(buf) {
			return buf[:n]
		}
		buf = make([]byte, 2*len(buf))
	}
}

// gblock returns the scheduler state and the stack text of one goroutine.
func gblock(all []byte, gid int64) (string, []byte, bool) {
	hdr := []byte(fmt.Sprintf("goroutine %d [", gid))
	i := 0
	for {
		j := bytes.Index(all[i:], hdr)
		if j < 0 {
			return "", nil, false
		}
		j += i
		if j == 0 || all[j-1] == '\n' {
			rest := all[j+len(hdr):]
			k := bytes.IndexByte(rest, ']')
			if k < 0 {
				return "", nil, false
			}
			state := string(rest[:k])
			end := bytes.Index(rest, []byte("\n\n"))
			if end < 0 {
				end = len(rest)
			}
			return state, rest[:end], true
		}
		i = j + 1
	}
}

const (
	atDone    = "done"
	atMut     = "mut"  // parked in lockMutatingData
	atWait    = "wait" // parked in waitAndOpenReadFrozen
	atPut     = "put"  // parked in the fake CAS
	atUnknown = ""
)

func classify(state string, body []byte) string {
	blocked := len(state) >= 12 && state[:12] == "chan receive" || len(state) >= 6 && state[:6] == "select"
	if !blocked {
		return atUnknown
	}
	switch {
	case bytes.Contains(body, []byte("(*fakeCAS).Put")):
		return atPut
	case bytes.Contains(body, []byte("lockMutatingData")):
		return atMut
	case bytes.Contains(body, []byte("waitAndOpenReadFrozen")):
		return atWait
	}
	return atUnknown
}

// settle waits until the worker has returned or is parked, and says where.
func settle(w *worker) (string, error) {
	deadline := time.Now().Add(10 * time.Second)
	for spin := 0; ; spin++ {
		select {
		case <-w.done:
			return atDone, nil
		default:
		}
		if spin > 2 {
			state, body, ok := gblock(allStacks(), w.gid)
			if ok {
				if at := classify(state, body); at != atUnknown {
					// re-check done: it may have finished in between
					select {
					case <-w.done:
						return atDone, nil
					default:
					}
					return at, nil
				}
			}
			if time.Now().After(deadline) {
				return atUnknown, fmt.Errorf("goroutine %d of thread %d neither returns nor parks (state %q)\n%s", w.gid, w.tid, state, body)
			}
		}
		runtime.Gosched()
		if spin > 2000 {
			time.Sleep(20 * time.Microsecond)
		}
	}
}
