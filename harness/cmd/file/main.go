// Harness for C16: drives the real pool-backed file (fileBackedFile) behind
// the FUSE / NFS handle allocator's link-count layer (or bare), its frozen
// handles, getBazelOutputServiceStat, and the upload path
// builder.virtualBuildDirectory.UploadFile -> VirtualApply(ApplyUploadFile)
// -> uploadFile with a fake CAS, one critical section at a time, and writes
// what it did and saw as a Gallina case for File/Corr.v.
package main

import (
	"context"
	"crypto/md5"
	"crypto/sha256"
	"encoding/hex"
	"encoding/json"
	"fmt"
	"sort"

	remoteexecution "github.com/bazelbuild/remote-apis/build/bazel/remote/execution/v2"
	"github.com/buildbarn/bb-remote-execution/pkg/builder"
	"github.com/buildbarn/bb-remote-execution/pkg/filesystem/virtual"
	bazeloutputservicerev2 "github.com/buildbarn/bb-remote-execution/pkg/proto/bazeloutputservice/rev2"
	"github.com/buildbarn/bb-remote-execution/pkg/proto/outputpathpersistency"
	"github.com/buildbarn/bb-storage/pkg/digest"
	"github.com/buildbarn/bb-storage/pkg/filesystem"
	"github.com/buildbarn/bb-storage/pkg/filesystem/path"
	"github.com/buildbarn/bb-storage/pkg/random"
	"google.golang.org/grpc/codes"
	"google.golang.org/grpc/status"

	g "verif/harness/internal/gallina"
	"verif/harness/internal/hcommon"
	"verif/harness/internal/rng"
)

// ---- histories -------------------------------------------------------------

type op struct {
	K     string `json:"k"`
	M     int    `json:"m,omitempty"`     // share mask 1..3 (open)
	Trunc bool   `json:"trunc,omitempty"` // open with O_TRUNC
	I     int    `json:"i,omitempty"`     // close: index into the held masks; thread ops: index into the applicable threads
	Off   uint64 `json:"off,omitempty"`
	Len   uint64 `json:"len,omitempty"`
	Data  []int  `json:"data,omitempty"`
	WF    int    `json:"wf,omitempty"`   // write: 0 = ok, k>0: WriteAt fails after k-1 bytes
	TF    bool   `json:"tf,omitempty"`   // Truncate fails
	RF    bool   `json:"rf,omitempty"`   // ReadAt fails (read, hashing read, frozen read)
	Size  int64  `json:"size,omitempty"` // setattr: 0 = no size, n>0: size n-1
	Perm  int    `json:"perm,omitempty"` // setattr: 0 = none, 1 = clear x, 2 = set x
	Chown bool   `json:"chown,omitempty"`
	RT    int    `json:"rt,omitempty"` // seek: 0 data, 1 hole
	SC    int    `json:"sc,omitempty"` // seek script: 0 normal, 1 EOF, 2 failure
	Fn    int    `json:"fn,omitempty"` // digest function: 0 SHA256, 1 MD5
	OK    bool   `json:"ok,omitempty"` // putend: CAS accepts
}

type history struct {
	Layer int  `json:"layer"` // 0 bare, 1 FUSE, 2 NFS
	Exec  bool `json:"exec"`
	Size  int  `json:"size"`
	Mask  int  `json:"mask"` // initial share access of NewFile: 0 none
	Ops   []op `json:"ops"`
}

type area struct{}

func (area) Requires() string {
	return "From VF Require Import Common.Verdict File.Model File.Spec File.Corr."
}
func (area) Check() string { return "check_case" }
func (area) Rule() string {
	return "histories of 12-45 calls on one pool-backed file behind the bare/FUSE/NFS link layer: open (masks r/w/rw, O_TRUNC), close, link, unlink, read, write (full/partial/failing), setattr (size/permissions/owner), allocate, seek, getattr, UploadFile (SHA256/MD5, hashing read failure), ApplyOpenReadFrozen + frozen ReadAt/Len/GetNextRegionOffset/Close, getBazelOutputServiceStat, upload-delay expiry, fake-CAS Put stepped chunk by chunk and accepted/refused; <=2 mutators (write, setattr-size, open-trunc: their wake-up order is read off the pool file call log) and <=1 upload parked per wake-up channel; 30% of histories drop every reference mid-way and keep calling the stale leaf; non-trivial = the pool file was released and at least one later call hit the stale leaf, or an upload/frozen handle overlapped a parked mutator or waited for writers; distinct by hash of the full case term"
}

func (area) Generate(r *rng.R, thorough bool, index int) json.RawMessage {
	h := history{Layer: r.Intn(3), Exec: r.Chance(30), Mask: r.Intn(4)}
	if r.Chance(40) {
		h.Size = r.Intn(9)
	}
	n := 12 + r.Intn(34)
	if thorough {
		n = 20 + r.Intn(100)
	}
	teardownAt := -1
	if r.Chance(30) {
		teardownAt = 3 + r.Intn(n-3)
	}
	data := func() []int {
		k := r.Intn(6)
		if r.Chance(10) {
			k = 0
		}
		d := make([]int, k)
		for i := range d {
			d[i] = 1 + r.Intn(250)
		}
		return d
	}
	fail := func(p int) bool { return r.Chance(p) }
	glinks := 1 // the generator's guess of the link count
	for i := 0; i < n; i++ {
		if i == teardownAt {
			// drop every reference the callers hold, then go on
			for j := 0; j < 4; j++ {
				h.Ops = append(h.Ops, op{K: "putend", OK: true}, op{K: "fclose"}, op{K: "timeout"})
			}
			for j := 0; j < 6; j++ {
				h.Ops = append(h.Ops, op{K: "close"})
			}
			for j := 0; j < 4; j++ {
				h.Ops = append(h.Ops, op{K: "unlink"})
			}
			continue
		}
		var o op
		switch x := r.Intn(100); {
		case x < 12:
			o = op{K: "open", M: 1 + r.Intn(3), Trunc: r.Chance(25), TF: fail(10)}
		case x < 24:
			o = op{K: "close", I: r.Intn(4)}
		case x < 28:
			o = op{K: "link"}
			glinks++
		case x < 33:
			// keep the last link most of the time, so that long histories
			// are not dominated by calls on a released file
			if glinks > 1 || r.Chance(25) {
				o = op{K: "unlink"}
				if glinks > 0 {
					glinks--
				}
			} else {
				o = op{K: "getattr"}
			}
		case x < 40:
			o = op{K: "read", Off: uint64(r.Intn(10)), Len: uint64(r.Intn(8)), RF: fail(10)}
		case x < 52:
			o = op{K: "write", Off: uint64(r.Intn(10)), Data: data()}
			if fail(15) {
				o.WF = 1 + r.Intn(4)
			}
		case x < 58:
			o = op{K: "setattr", TF: fail(10)}
			if r.Chance(70) {
				o.Size = int64(1 + r.Intn(12))
			}
			if r.Chance(40) {
				o.Perm = 1 + r.Intn(2)
			}
			o.Chown = r.Chance(5)
		case x < 62:
			o = op{K: "alloc", Off: uint64(r.Intn(8)), Len: uint64(r.Intn(8)), TF: fail(10)}
		case x < 65:
			o = op{K: "seek", Off: uint64(r.Intn(10)), RT: r.Intn(2), SC: []int{0, 0, 0, 1, 2}[r.Intn(5)]}
		case x < 67:
			o = op{K: "getattr"}
		case x < 75:
			o = op{K: "upload", Fn: r.Intn(2), RF: fail(8)}
		case x < 79:
			o = op{K: "ofrozen"}
		case x < 83:
			o = op{K: "stat", Fn: r.Intn(2), RF: fail(8)}
		case x < 86:
			o = op{K: "timeout", I: r.Intn(3)}
		case x < 91:
			o = op{K: "putread", I: r.Intn(3), Len: uint64(1 + r.Intn(6))}
		case x < 95:
			o = op{K: "putend", I: r.Intn(3), OK: !fail(15)}
		case x < 97:
			o = op{K: "fread", I: r.Intn(3), Off: uint64(r.Intn(10)), Len: uint64(1 + r.Intn(6)), RF: fail(10)}
		case x < 98:
			if r.Chance(50) {
				o = op{K: "flen", I: r.Intn(3)}
			} else {
				o = op{K: "fseek", I: r.Intn(3), Off: uint64(r.Intn(10)), RT: r.Intn(2)}
			}
		default:
			o = op{K: "fclose", I: r.Intn(3)}
		}
		h.Ops = append(h.Ops, o)
	}
	out, _ := json.Marshal(h)
	return out
}

// ---- the world ---------------------------------------------------------------

type worker struct {
	tid      uint64
	gid      int64
	kind     string // mut, upload, ofrozen, stat, sync
	done     chan struct{}
	panicked bool
	panicMsg string
	at       string // where it was last seen parked
	sc       *script

	// results
	out       string        // Gallina output term of a finished mutator / sync call
	ledger    func()        // ledger update to apply when the call turns out to have succeeded
	dig       digest.Digest // upload / stat
	hasDig    bool
	err       error
	handle    filesystem.FileReader
	fn        int
	rf        bool
	delay     chan struct{}
	fired     bool
	put       *putCall
	note      string // outcome label for the histogram
	callsFile bool   // a mutator that calls the pool file whenever the file is still referenced
}

type world struct {
	layer    int
	leaf     virtual.LinkableLeaf
	file     *memFile
	attrs    *namedAttrs
	cas      *fakeCAS
	dir      builder.UploadableDirectory
	fns      [2]digest.Function
	contents map[string][]byte

	// the callers' ledger
	links int
	held  []int
	// threads
	nextTid uint64
	workers []*worker // live (parked) workers and open frozen handles, by tid

	steps   []step
	dead    bool
	logMark int // length of the pool file's call log before the current op
	info    *hcommon.Info
	// what made the history interesting
	staleCalls, overlap int
}

type step struct {
	ev, out string
	dump    string // "" = None
}

func maskTerm(m int) string { return [...]string{"", "MRead", "MWrite", "MRW"}[m] }

func bytesTerm(b []byte) string {
	items := make([]string, len(b))
	for i, x := range b {
		items[i] = g.N(uint64(x))
	}
	return g.List(items)
}

func statusTerm(s virtual.Status) string {
	switch s {
	case virtual.StatusOK:
		return "SOk"
	case virtual.StatusErrIO:
		return "SIO"
	case virtual.StatusErrNXIO:
		return "SNXIO"
	case virtual.StatusErrPerm:
		return "SPerm"
	case virtual.StatusErrStale:
		return "SStale"
	}
	panic(fmt.Sprintf("status %d has no model counterpart", s))
}

func ecodeTerm(err error) string {
	if err == nil {
		return "ENone"
	}
	switch status.Code(err) {
	case codes.NotFound:
		return "ENotFound"
	case codes.Internal:
		return "EInternal"
	}
	return "EOther"
}

func (w *world) noteContent() {
	data, _, _, _ := w.file.snapshot()
	s := sha256.Sum256(data)
	w.contents[fmt.Sprintf("0-%s-%d", hex.EncodeToString(s[:]), len(data))] = data
	m := md5.Sum(data)
	w.contents[fmt.Sprintf("1-%s-%d", hex.EncodeToString(m[:]), len(data))] = data
}

// dgTerm names a digest by the content it is the hash of, if the file ever
// had such a content (or the CAS received it); DUnknown otherwise.
func (w *world) dgTerm(hash string, size int64, extra []byte) string {
	w.noteContent()
	fn := 0
	if len(hash) == 32 {
		fn = 1
	}
	if extra != nil {
		s := sha256.Sum256(extra)
		w.contents[fmt.Sprintf("0-%s-%d", hex.EncodeToString(s[:]), len(extra))] = extra
		m := md5.Sum(extra)
		w.contents[fmt.Sprintf("1-%s-%d", hex.EncodeToString(m[:]), len(extra))] = extra
	}
	if c, ok := w.contents[fmt.Sprintf("%d-%s-%d", fn, hash, size)]; ok {
		return g.App("DBytes", g.N(uint64(fn)), bytesTerm(c))
	}
	return "DUnknown"
}

func (w *world) attrMask() virtual.AttributesMask {
	m := virtual.AttributesMaskChangeID | virtual.AttributesMaskPermissions | virtual.AttributesMaskSizeBytes
	if w.layer != 0 {
		m |= virtual.AttributesMaskLinkCount
	}
	return m
}

func (w *world) attrTerm(a *virtual.Attributes) string {
	size, _ := a.GetSizeBytes()
	perm, _ := a.GetPermissions()
	var nlink uint32
	if w.layer != 0 {
		nlink = a.GetLinkCount()
	}
	return g.App("mkAttr", g.N(size), g.N(a.GetChangeID()), g.N(uint64(perm)), g.N(uint64(nlink)))
}

func (w *world) count(at string) int {
	n := 0
	for _, x := range w.workers {
		if x.at == at {
			n++
		}
	}
	return n
}

func (w *world) writers() int {
	n := 0
	for _, m := range w.held {
		if m&2 != 0 {
			n++
		}
	}
	return n
}

func (w *world) frozenHandles() int { return w.count(atPut) + w.count("handle") }

// observe takes an observation through the exported API and the fakes.
func (w *world) observe() string {
	var a virtual.Attributes
	w.leaf.VirtualGetAttributes(context.Background(), w.attrMask(), &a)
	size, _ := a.GetSizeBytes()
	perm, _ := a.GetPermissions()
	var nlink uint32
	if w.layer != 0 {
		nlink = a.GetLinkCount()
	}
	cached := "None"
	d := &outputpathpersistency.Directory{}
	w.leaf.VirtualApply(&virtual.ApplyAppendOutputPathPersistencyDirectoryNode{Directory: d, Name: path.MustNewComponent("f")})
	if len(d.Files) > 0 {
		cached = g.Some(w.dgTerm(d.Files[0].Digest.GetHash(), d.Files[0].Digest.GetSizeBytes(), nil))
	}
	data, closes, calls, cac := w.file.snapshot()
	w.noteContent()
	held := make([]string, len(w.held))
	for i, m := range w.held {
		held[i] = maskTerm(m)
	}
	fh := w.frozenHandles()
	stuck := 0
	if fh == 0 {
		stuck += w.count(atMut)
	}
	if w.writers() == 0 {
		stuck += w.count(atWait)
	}
	if len(data) > w.info.Extra["max_size"] {
		w.info.Extra["max_size"] = len(data)
	}
	return g.App("mkObs", [...]string{"LBare", "LFuse", "LNfs"}[w.layer],
		g.N(uint64(w.links)), g.List(held), g.N(uint64(fh)),
		g.N(uint64(w.count(atMut)+w.count(atWait))), g.N(uint64(stuck)),
		g.N(size), g.N(a.GetChangeID()), g.N(uint64(perm)), g.N(uint64(nlink)),
		cached, g.N(uint64(closes)), g.N(uint64(w.attrs.releases.Load())), g.N(uint64(calls)), g.N(uint64(cac)),
		bytesTerm(data))
}

func (w *world) emit(ev, out string) {
	w.steps = append(w.steps, step{ev: ev, out: out})
	w.info.Events++
	if out == "OPanic" {
		// A panic may leave f.lock held (VirtualSeek does not defer its
		// unlock) and the file half-updated: the history ends here, and
		// no observation is attempted.
		w.dead = true
	}
}

// spawn runs one call into the file on its own goroutine.
func (w *world) spawn(kind string, sc *script, f func(x *worker)) *worker {
	w.nextTid++
	x := &worker{tid: w.nextTid, kind: kind, done: make(chan struct{}), sc: sc}
	ready := make(chan struct{})
	go func() {
		x.gid = goid()
		if sc != nil {
			w.file.scripts.Store(x.gid, sc)
		}
		close(ready)
		defer func() {
			if r := recover(); r != nil {
				x.panicked = true
				x.panicMsg = fmt.Sprint(r)
			}
			w.file.scripts.Delete(x.gid)
			close(x.done)
		}()
		f(x)
	}()
	<-ready
	return x
}

func (w *world) remove(x *worker) {
	for i, y := range w.workers {
		if y == x {
			w.workers = append(w.workers[:i], w.workers[i+1:]...)
			return
		}
	}
}

// ---- emitting what a goroutine did --------------------------------------------

func tidTerm(x *worker) string { return g.N(x.tid) }

func ukindTerm(x *worker) string {
	switch x.kind {
	case "upload":
		return g.App("KUp", g.N(uint64(x.fn)))
	case "stat":
		return g.App("KSt", g.N(uint64(x.fn)))
	}
	return "KFr"
}

func run(x *worker, arg string) string { return g.App("ERun", tidTerm(x), arg) }

// progress reports, as model events, what a freezing call (upload, stat,
// open-frozen) did between its first section (event `first`) and where it
// is now.  `from` is where it was before ("" = just started).
func (w *world) progress(x *worker, first string, at string) {
	if x.panicked {
		w.emit(first, "OPanic")
		w.info.Outs["panic"]++
		w.remove(x)
		return
	}
	internal := func() {
		w.emit(run(x, "RGet"), "OInternal")
		w.emit(run(x, g.App("RHash", g.Bool(x.rf))), "OInternal")
		w.emit(run(x, "RStore"), "OInternal")
	}
	switch at {
	case atWait:
		w.emit(first, "OParked")
		w.info.Outs["upload-waits-for-writers"]++
		w.overlap++
	case atPut:
		x.put = w.cas.take(x.gid)
		w.emit(first, "OFroze")
		internal()
		w.info.Outs["upload-in-put"]++
	case atDone:
		w.remove(x)
		switch x.kind {
		case "upload":
			switch ecodeTerm(x.err) {
			case "ENotFound":
				w.emit(first, g.App("OUpDone", "None", "ENotFound", "[]", "false"))
				w.info.Outs["upload-notfound"]++
			case "EInternal":
				w.emit(first, "OFroze")
				internal()
				w.emit(run(x, "RClose"), g.App("OUpDone", "None", "EInternal", "[]", "false"))
				w.info.Outs["upload-hash-failed"]++
			default:
				// cannot finish without the harness stepping Put
				w.emit(first, "OPanic")
			}
		case "stat":
			switch {
			case x.err != nil && ecodeTerm(x.err) == "ENotFound":
				w.emit(first, g.App("OStat", "ENotFound", "None"))
				w.info.Outs["stat-notfound"]++
			case x.err != nil:
				w.emit(first, "OFroze")
				internal()
				w.emit(run(x, "RClose"), g.App("OStat", ecodeTerm(x.err), "None"))
				w.info.Outs["stat-hash-failed"]++
			case !x.hasDig:
				w.emit(first, g.App("OStat", "ENone", "None"))
				w.info.Outs["stat-no-locator"]++
			default:
				w.emit(first, "OFroze")
				internal()
				w.emit(run(x, "RClose"), g.App("OStat", "ENone", g.Some(w.dgTerm(x.dig.GetHashString(), x.dig.GetSizeBytes(), nil))))
				w.info.Outs["stat-digest"]++
			}
		case "ofrozen":
			if x.err != nil {
				w.emit(first, g.App("OFOpen", "false"))
				w.info.Outs["ofrozen-notfound"]++
			} else {
				w.emit(first, g.App("OFOpen", "true"))
				w.info.Outs["ofrozen-ok"]++
				x.at = "handle"
				w.workers = append(w.workers, x)
				sort.Slice(w.workers, func(i, j int) bool { return w.workers[i].tid < w.workers[j].tid })
				return
			}
		}
		return
	}
	x.at = at
}

// cascade: after an action of the harness, every parked goroutine that was
// woken by it runs until it returns or parks again; report those sections.
func (w *world) cascade(timedOut *worker) error {
	// Mutators woken by one close(unfreezeWakeup) race for f.lock; the order
	// in which they ran is read off the pool file's call log (every mutator
	// that is allowed to park next to another one calls the pool file unless
	// the file has been released, in which case they all return ESTALE and
	// commute).
	var woken []*worker
	for _, x := range append([]*worker(nil), w.workers...) {
		if x.at != atMut {
			continue
		}
		at, err := settle(x)
		if err != nil {
			return err
		}
		if at == atMut {
			continue // still parked on the channel it captured
		}
		if at != atDone {
			return fmt.Errorf("mutator thread %d moved from lockMutatingData to %q", x.tid, at)
		}
		woken = append(woken, x)
	}
	if len(woken) > 1 {
		log := w.file.logFrom(w.logMark)
		pos := func(x *worker) int {
			for i, id := range log {
				if id == x.gid {
					return i
				}
			}
			return len(log) + int(x.tid)
		}
		sort.SliceStable(woken, func(i, j int) bool {
			if woken[i].panicked != woken[j].panicked {
				return !woken[i].panicked
			}
			return pos(woken[i]) < pos(woken[j])
		})
		w.info.Outs["two-mutators-woken"]++
	}
	for _, x := range woken {
		w.remove(x)
		ev := g.App("EWakeMut", tidTerm(x))
		if x.panicked {
			w.emit(ev, "OPanic")
			w.info.Outs["panic"]++
			return nil
		}
		if x.ledger != nil {
			x.ledger()
		}
		if x.note != "" {
			w.info.Outs[x.note]++
		}
		w.emit(ev, x.out)
		w.info.Outs["mutator-woken"]++
	}
	for _, x := range append([]*worker(nil), w.workers...) {
		if x.at != atWait {
			continue
		}
		at, err := settle(x)
		if err != nil {
			return err
		}
		if at == x.at {
			continue // still parked on the channel it captured
		}
		ev := g.App("EWakeWait", tidTerm(x), g.Bool(x == timedOut))
		w.info.Outs[map[bool]string{true: "wait-timeout", false: "wait-writers-closed"}[x == timedOut]]++
		w.progress(x, ev, at)
	}
	return nil
}

// ---- Execute -------------------------------------------------------------------

func (area) Execute(raw json.RawMessage) (term string, info *hcommon.Info, err error) {
	var h history
	if err := json.Unmarshal(raw, &h); err != nil {
		return "", nil, err
	}
	if h.Layer < 0 || h.Layer > 2 || h.Mask < 0 || h.Mask > 3 || h.Size < 0 || h.Size > 64 {
		return "", nil, fmt.Errorf("bad history header")
	}
	info = hcommon.NewInfo()
	w := &world{layer: h.Layer, info: info, contents: map[string][]byte{}, links: 1}
	w.file = &memFile{}
	w.attrs = &namedAttrs{}
	w.cas = &fakeCAS{pending: map[int64]*putCall{}, world: w}
	w.fns = [2]digest.Function{
		digest.MustNewFunction("", remoteexecution.DigestFunction_SHA256),
		digest.MustNewFunction("", remoteexecution.DigestFunction_MD5),
	}
	var fa virtual.FileAllocator = virtual.NewPoolBackedFileAllocator(&memPool{file: w.file}, &countingLogger{},
		func(requested virtual.AttributesMask, attributes *virtual.Attributes) {}, w.attrs)
	switch h.Layer {
	case 1:
		fa = virtual.NewHandleAllocatingFileAllocator(fa, virtual.NewFUSEHandleAllocator(random.FastThreadSafeGenerator))
	case 2:
		fa = virtual.NewHandleAllocatingFileAllocator(fa, virtual.NewNFSHandleAllocator(random.NewFastSingleThreadedGenerator()))
	}
	leaf, nerr := fa.NewFile(nil, h.Exec, uint64(h.Size), virtual.ShareMask(h.Mask))
	if nerr != nil {
		return "", nil, nerr
	}
	w.leaf = leaf
	if h.Mask != 0 {
		w.held = []int{h.Mask}
	}
	w.dir = builder.NewVirtualBuildDirectory(&leafDirectory{leaf: leaf}, nil, w.cas, nil, nil, nil, nil, nil)
	ctx := context.Background()
	obs0 := w.observe()

	pick := func(at string, i int) *worker {
		var c []*worker
		for _, x := range w.workers {
			if x.at == at {
				c = append(c, x)
			}
		}
		if len(c) == 0 {
			return nil
		}
		return c[i%len(c)]
	}
	released := func() bool { _, closes, _, _ := w.file.snapshot(); return closes > 0 }

	// sync: a call that cannot park.
	syncCall := func(name, ev string, sc *script, f func(x *worker)) error {
		wasReleased := released()
		x := w.spawn("sync", sc, f)
		at, err := settle(x)
		if err != nil {
			return err
		}
		if at != atDone {
			return fmt.Errorf("%s parked at %q", name, at)
		}
		if x.panicked {
			w.emit(ev, "OPanic")
			info.Outs["panic"]++
			info.Outs["panic:"+name]++
		} else {
			if x.ledger != nil {
				x.ledger()
			}
			if x.note != "" {
				info.Outs[x.note]++
			}
			w.emit(ev, x.out)
		}
		if wasReleased {
			w.staleCalls++
		}
		return nil
	}
	// mutator: a call that goes through lockMutatingData.
	mutCall := func(name string, mut string, sc *script, f func(x *worker)) error {
		callsFile := name == "write" || name == "setattr-size" || name == "open-trunc"
		if w.frozenHandles() > 0 && w.count(atMut) > 0 {
			// a second call may park on the same channel only if the order
			// in which the two run later can be told from the pool file's log
			ok := callsFile && w.count(atMut) < 2
			for _, y := range w.workers {
				if y.at == atMut && !y.callsFile {
					ok = false
				}
			}
			if !ok {
				info.Outs["skipped-second-sleeper"]++
				return nil
			}
			info.Outs["second-mutator-parked"]++
		}
		wasReleased := released()
		x := w.spawn("mut", sc, f)
		x.callsFile = callsFile
		ev := g.App("EMut", tidTerm(x), mut)
		at, err := settle(x)
		if err != nil {
			return err
		}
		switch {
		case x.panicked:
			w.emit(ev, "OPanic")
			info.Outs["panic"]++
			info.Outs["panic:"+name]++
		case at == atDone:
			if x.ledger != nil {
				x.ledger()
			}
			if x.note != "" {
				info.Outs[x.note]++
			}
			w.emit(ev, x.out)
		case at == atMut:
			x.at = atMut
			w.workers = append(w.workers, x)
			w.emit(ev, "OParked")
			info.Outs["mutator-parked"]++
			w.overlap++
		default:
			return fmt.Errorf("%s parked at %q", name, at)
		}
		if wasReleased {
			w.staleCalls++
		}
		return nil
	}
	freezeCall := func(x *worker, first string) error {
		at, err := settle(x)
		if err != nil {
			return err
		}
		if at == atWait || at == atPut {
			w.workers = append(w.workers, x)
		}
		if at == atMut {
			return fmt.Errorf("freezing call parked in lockMutatingData")
		}
		w.progress(x, first, at)
		return nil
	}

	for _, o := range h.Ops {
		before := len(w.steps)
		w.logMark = w.file.logLen()
		var timedOut *worker
		info.Ops[o.K]++
		switch o.K {
		case "open":
			if o.M < 1 || o.M > 3 {
				continue
			}
			m := o.M
			body := func(x *worker) {
				var a virtual.Attributes
				s := w.leaf.VirtualOpenSelf(ctx, virtual.ShareMask(m), &virtual.OpenExistingOptions{Truncate: o.Trunc}, w.attrMask(), &a)
				if s == virtual.StatusOK {
					x.out = g.App("OAttrs", "SOk", g.Some(w.attrTerm(&a)))
					x.ledger = func() { w.held = append([]int{m}, w.held...) }
				} else {
					x.out = g.App("OAttrs", statusTerm(s), "None")
				}
				x.note = "open:" + statusTerm(s)
			}
			if o.Trunc {
				err = mutCall("open-trunc", g.App("MOpenTrunc", maskTerm(m), g.Bool(o.TF)), &script{truncFail: o.TF, writeFail: -1}, body)
			} else {
				err = syncCall("open", g.App("EOpen", maskTerm(m)), nil, body)
			}
		case "close":
			if len(w.held) == 0 {
				continue
			}
			m := w.held[o.I%len(w.held)]
			err = syncCall("close", g.App("EClose", maskTerm(m)), nil, func(x *worker) {
				w.leaf.VirtualClose(virtual.ShareMask(m))
				x.out = "ODone"
				x.ledger = func() {
					for i, y := range w.held {
						if y == m {
							w.held = append(append([]int(nil), w.held[:i]...), w.held[i+1:]...)
							break
						}
					}
				}
			})
		case "link":
			err = syncCall("link", "ELink", nil, func(x *worker) {
				s := w.leaf.Link()
				x.out = g.App("OStatus", statusTerm(s))
				if s == virtual.StatusOK {
					x.ledger = func() { w.links++ }
				}
				x.note = "link:" + statusTerm(s)
			})
		case "unlink":
			if w.links == 0 {
				continue
			}
			err = syncCall("unlink", "EUnlink", nil, func(x *worker) {
				w.leaf.Unlink()
				x.out = "ODone"
				x.ledger = func() { w.links-- }
			})
		case "read":
			err = syncCall("read", g.App("ERead", g.N(o.Off), g.N(o.Len), g.Bool(o.RF)), func() *script {
				s := &script{writeFail: -1}
				s.readFail.Store(o.RF)
				return s
			}(), func(x *worker) {
				buf := make([]byte, o.Len)
				n, eof, s := w.leaf.VirtualRead(ctx, buf, o.Off)
				x.out = g.App("ORead", statusTerm(s), g.N(uint64(n)), g.Bool(eof), bytesTerm(buf[:n]))
				x.note = "read:" + statusTerm(s)
			})
		case "write":
			if len(o.Data) > 64 {
				continue
			}
			data := make([]byte, len(o.Data))
			for i, v := range o.Data {
				data[i] = byte(v)
			}
			wf := "None"
			sc := &script{writeFail: -1}
			if o.WF > 0 {
				wf = g.Some(g.N(uint64(o.WF - 1)))
				sc.writeFail = o.WF - 1
			}
			err = mutCall("write", g.App("MWriteOp", g.N(o.Off), bytesTerm(data), wf), sc, func(x *worker) {
				n, s := w.leaf.VirtualWrite(ctx, data, o.Off)
				x.out = g.App("OWrite", statusTerm(s), g.N(uint64(n)))
				x.note = "write:" + statusTerm(s)
			})
		case "setattr":
			var in virtual.Attributes
			perm := "None"
			if o.Perm == 1 || o.Perm == 2 {
				p := virtual.PermissionsRead | virtual.PermissionsWrite
				if o.Perm == 2 {
					p |= virtual.PermissionsExecute
				}
				in.SetPermissions(p)
				perm = g.Some(g.Bool(o.Perm == 2))
			}
			body := func(x *worker) {
				var a virtual.Attributes
				s := w.leaf.VirtualSetAttributes(ctx, &in, w.attrMask(), &a)
				if s == virtual.StatusOK {
					x.out = g.App("OAttrs", "SOk", g.Some(w.attrTerm(&a)))
				} else {
					x.out = g.App("OAttrs", statusTerm(s), "None")
				}
				x.note = "setattr:" + statusTerm(s)
			}
			switch {
			case o.Chown:
				in.SetOwnerUserID(1000)
				if o.Size > 0 {
					in.SetSizeBytes(uint64(o.Size - 1))
				}
				err = syncCall("chown", "EChown", nil, body)
			case o.Size > 0:
				in.SetSizeBytes(uint64(o.Size - 1))
				err = mutCall("setattr-size", g.App("MSetSize", g.N(uint64(o.Size-1)), perm, g.Bool(o.TF)), &script{truncFail: o.TF, writeFail: -1}, body)
			default:
				err = syncCall("setattr", g.App("ESetAttr", perm), nil, body)
			}
		case "alloc":
			err = mutCall("allocate", g.App("MAlloc", g.N(o.Off), g.N(o.Len), g.Bool(o.TF)), &script{truncFail: o.TF, writeFail: -1}, func(x *worker) {
				s := w.leaf.VirtualAllocate(ctx, o.Off, o.Len)
				x.out = g.App("OStatus", statusTerm(s))
				x.note = "allocate:" + statusTerm(s)
			})
		case "seek":
			rt, rtT := filesystem.Data, "RData"
			if o.RT == 1 {
				rt, rtT = filesystem.Hole, "RHole"
			}
			if o.SC < 0 || o.SC > 2 {
				continue
			}
			err = syncCall("seek", g.App("ESeek", g.N(o.Off), rtT, [...]string{"SkNormal", "SkEOF", "SkFail"}[o.SC]), &script{writeFail: -1, seek: o.SC}, func(x *worker) {
				r, s := w.leaf.VirtualSeek(ctx, o.Off, rt)
				res := "None"
				if r != nil {
					res = g.Some(g.N(*r))
				}
				x.out = g.App("OSeek", statusTerm(s), res)
				x.note = "seek:" + statusTerm(s)
			})
		case "getattr":
			err = syncCall("getattr", "EGetAttr", nil, func(x *worker) {
				var a virtual.Attributes
				w.leaf.VirtualGetAttributes(ctx, w.attrMask(), &a)
				x.out = g.App("OAttrs", "SOk", g.Some(w.attrTerm(&a)))
			})
		case "upload", "ofrozen":
			if w.writers() > 0 && w.count(atWait) > 0 {
				info.Outs["skipped-second-sleeper"]++
				continue
			}
			if len(w.workers) >= 4 {
				continue
			}
			wasReleased := released()
			fn := o.Fn & 1
			sc := &script{writeFail: -1}
			sc.readFail.Store(o.RF && o.K == "upload")
			delay := make(chan struct{})
			var x *worker
			if o.K == "upload" {
				x = w.spawn("upload", sc, func(x *worker) {
					x.dig, x.err = w.dir.UploadFile(ctx, path.MustNewComponent("f"), w.fns[fn], delay)
					x.hasDig = x.err == nil
				})
				x.rf = o.RF
			} else {
				x = w.spawn("ofrozen", nil, func(x *worker) {
					p := virtual.ApplyOpenReadFrozen{WritableFileDelay: delay}
					if !w.leaf.VirtualApply(&p) {
						panic("ApplyOpenReadFrozen not handled")
					}
					x.handle, x.err = p.Reader, p.Err
				})
			}
			x.fn, x.delay = fn, delay
			err = freezeCall(x, g.App("EFreeze", tidTerm(x), ukindTerm(x)))
			if wasReleased {
				w.staleCalls++
			}
		case "stat":
			wasReleased := released()
			fn := o.Fn & 1
			sc := &script{writeFail: -1}
			sc.readFail.Store(o.RF)
			x := w.spawn("stat", sc, func(x *worker) {
				p := virtual.ApplyGetBazelOutputServiceStat{DigestFunction: &w.fns[fn]}
				if !w.leaf.VirtualApply(&p) {
					panic("ApplyGetBazelOutputServiceStat not handled")
				}
				x.err = p.Err
				if p.Err == nil {
					if loc := p.Stat.GetFile().GetLocator(); loc != nil {
						var l bazeloutputservicerev2.FileArtifactLocator
						if err := loc.UnmarshalTo(&l); err != nil {
							panic(err)
						}
						d, err := w.fns[fn].NewDigestFromProto(l.Digest)
						if err != nil {
							panic(err)
						}
						x.dig, x.hasDig = d, true
					}
				}
			})
			x.fn, x.rf = fn, o.RF
			err = freezeCall(x, g.App("EStat", tidTerm(x), g.N(uint64(fn))))
			if wasReleased {
				w.staleCalls++
			}
		case "timeout":
			x := pick(atWait, o.I)
			if x == nil || x.fired {
				continue
			}
			x.fired = true
			close(x.delay)
			timedOut = x
		case "putread":
			x := pick(atPut, o.I)
			if x == nil || o.Len < 1 || o.Len > 64 {
				continue
			}
			var data []byte
			died := false
			select {
			case x.put.cmd <- putCmd{read: int(o.Len)}:
				select {
				case data = <-x.put.resp:
				case <-x.done:
					died = true
				}
			case <-x.done:
				died = true
			}
			if _, err = settle(x); err != nil {
				break
			}
			if died {
				// the read panicked inside the code under test
				w.remove(x)
				w.emit(run(x, g.App("RPutRead", g.N(o.Len))), "OPanic")
				info.Outs["panic"]++
				break
			}
			w.emit(run(x, g.App("RPutRead", g.N(o.Len))), g.App("OPutRead", bytesTerm(data)))
			if w.count(atMut) > 0 {
				w.overlap++
			}
		case "putend":
			x := pick(atPut, o.I)
			if x == nil {
				continue
			}
			select {
			case x.put.cmd <- putCmd{end: true, ok: o.OK}:
			case <-x.done:
			}
			var at string
			if at, err = settle(x); err != nil {
				break
			}
			if at != atDone {
				err = fmt.Errorf("upload did not return after Put finished (at %q)", at)
				break
			}
			w.remove(x)
			ev := run(x, g.App("RPutEnd", g.Bool(o.OK)))
			recv := x.put.recv
			complete := int64(len(recv)) == x.put.digest.GetSizeBytes()
			switch {
			case x.panicked:
				w.emit(ev, "OPanic")
				info.Outs["panic"]++
			case x.err == nil:
				w.emit(ev, g.App("OUpDone", g.Some(w.dgTerm(x.dig.GetHashString(), x.dig.GetSizeBytes(), recv)), "ENone", bytesTerm(recv), g.Bool(complete)))
				info.Outs["upload-ok"]++
				if complete {
					info.Outs["upload-ok-complete"]++
				}
			default:
				w.emit(ev, g.App("OUpDone", "None", ecodeTerm(x.err), bytesTerm(recv), g.Bool(complete)))
				info.Outs["upload-cas-refused"]++
			}
		case "fread", "flen", "fseek", "fclose":
			x := pick("handle", o.I)
			if x == nil {
				continue
			}
			var ev string
			sc := &script{writeFail: -1}
			var body func(y *worker)
			switch o.K {
			case "fread":
				if o.Len < 1 || o.Len > 64 {
					continue
				}
				sc.readFail.Store(o.RF)
				ev = run(x, g.App("RFRead", g.N(o.Off), g.N(o.Len), g.Bool(o.RF)))
				body = func(y *worker) {
					buf := make([]byte, o.Len)
					n, e := x.handle.ReadAt(buf, int64(o.Off))
					code := uint64(0)
					if e != nil {
						code = 2
						if e.Error() == "EOF" {
							code = 1
						}
					}
					y.out = g.App("OFRead", g.N(uint64(n)), g.N(code), bytesTerm(buf[:n]))
				}
			case "flen":
				ev = run(x, "RFLen")
				body = func(y *worker) {
					n, _ := x.handle.Len()
					y.out = g.App("OFLen", g.N(uint64(n)))
				}
			case "fseek":
				rt, rtT := filesystem.Data, "RData"
				if o.RT == 1 {
					rt, rtT = filesystem.Hole, "RHole"
				}
				ev = run(x, g.App("RFSeek", g.N(o.Off), rtT))
				body = func(y *worker) {
					r, e := x.handle.GetNextRegionOffset(int64(o.Off), rt)
					if e != nil {
						y.out = g.App("OFSeek", g.N(1), g.N(0))
					} else {
						y.out = g.App("OFSeek", g.N(0), g.N(uint64(r)))
					}
				}
			case "fclose":
				ev = run(x, "RFClose")
				body = func(y *worker) {
					x.handle.Close()
					y.out = "ODone"
					y.ledger = func() { w.remove(x) }
				}
			}
			if w.count(atMut) > 0 {
				w.overlap++
			}
			err = syncCall(o.K, ev, sc, body)
		default:
			return "", nil, fmt.Errorf("unknown op %q", o.K)
		}
		if err == nil && !w.dead {
			err = w.cascade(timedOut)
		}
		if err != nil {
			return "", nil, err
		}
		if w.dead {
			break
		}
		if len(w.steps) > before {
			w.steps[len(w.steps)-1].dump = w.observe()
		}
	}

	// let every goroutine of this history finish (not part of the trace)
	if !w.dead {
		w.drain()
	}

	items := make([]string, len(w.steps))
	for i, s := range w.steps {
		d := "None"
		if s.dump != "" {
			d = g.Some(s.dump)
		}
		items[i] = "(" + s.ev + ", " + s.out + ", " + d + ")"
	}
	m0 := "None"
	if h.Mask != 0 {
		m0 = g.Some(maskTerm(h.Mask))
	}
	_, closes, _, _ := w.file.snapshot()
	if closes > 0 {
		info.Outs["released"]++
	}
	if w.dead {
		info.Outs["history-ended-by-panic"]++
	}
	info.Nontrivial = (closes > 0 && w.staleCalls > 0) || w.overlap > 0
	term = g.App("mkCase", [...]string{"LBare", "LFuse", "LNfs"}[h.Layer], g.Bool(h.Exec), g.N(uint64(h.Size)), m0, obs0, g.List(items))
	return term, info, nil
}

// drain releases whatever is still parked so that goroutines do not pile up
// across histories.
func (w *world) drain() {
	for round := 0; round < 8 && len(w.workers) > 0; round++ {
		for _, x := range append([]*worker(nil), w.workers...) {
			switch x.at {
			case atPut:
				select {
				case x.put.cmd <- putCmd{end: true, ok: true}:
				case <-x.done:
				}
				settle(x)
				w.remove(x)
			case "handle":
				func() {
					defer func() { recover() }()
					x.handle.Close()
				}()
				w.remove(x)
			case atWait:
				if !x.fired {
					x.fired = true
					close(x.delay)
				}
				if at, _ := settle(x); at == atPut {
					x.put = w.cas.take(x.gid)
					x.at = atPut
				} else if at == atDone {
					if x.kind == "ofrozen" && x.err == nil && x.handle != nil {
						x.at = "handle"
					} else {
						w.remove(x)
					}
				}
			case atMut:
				if at, _ := settle(x); at == atDone {
					w.remove(x)
				}
			}
		}
	}
}

func main() { hcommon.Main(area{}) }
