package main

// Fakes: the instrumented file pool / pool file, NamedAttributes, error
// logger, the CAS whose Put is stepped by the harness, and the directory
// through which builder.virtualBuildDirectory.UploadFile finds the leaf.

import (
	"context"
	"errors"
	"io"
	"sync"
	"sync/atomic"

	"github.com/buildbarn/bb-remote-execution/pkg/filesystem/pool"
	"github.com/buildbarn/bb-remote-execution/pkg/filesystem/virtual"
	"github.com/buildbarn/bb-storage/pkg/blobstore/buffer"
	"github.com/buildbarn/bb-storage/pkg/blobstore/slicing"
	"github.com/buildbarn/bb-storage/pkg/digest"
	"github.com/buildbarn/bb-storage/pkg/filesystem"
	"github.com/buildbarn/bb-storage/pkg/filesystem/path"

	remoteexecution "github.com/bazelbuild/remote-apis/build/bazel/remote/execution/v2"
	"google.golang.org/grpc/codes"
	"google.golang.org/grpc/status"
)

var errScripted = errors.New("scripted I/O failure")

// script: failures the pool file must produce for calls made by one
// goroutine (the goroutine executing one history op).
type script struct {
	truncFail bool
	writeFail int // <0: none; k>=0: WriteAt fails after k bytes
	readFail  atomic.Bool
	seek      int // 0 normal, 1 io.EOF, 2 failure
}

type memFile struct {
	mu      sync.Mutex
	data    []byte
	closes  int
	calls   int
	cac     int      // calls after Close
	log     []int64  // calling goroutine of every call, in order
	scripts sync.Map // goroutine id -> *script
}

func (f *memFile) enter() *script {
	f.calls++
	f.log = append(f.log, goid())
	if f.closes > 0 {
		f.cac++
	}
	if s, ok := f.scripts.Load(goid()); ok {
		return s.(*script)
	}
	return nil
}

func (f *memFile) ReadAt(p []byte, off int64) (int, error) {
	f.mu.Lock()
	defer f.mu.Unlock()
	s := f.enter()
	if s != nil && s.readFail.Load() {
		return 0, errScripted
	}
	if off < 0 || off >= int64(len(f.data)) {
		return 0, io.EOF
	}
	n := copy(p, f.data[off:])
	if n < len(p) {
		return n, io.EOF
	}
	return n, nil
}

func (f *memFile) WriteAt(p []byte, off int64) (int, error) {
	f.mu.Lock()
	defer f.mu.Unlock()
	s := f.enter()
	var err error
	if s != nil && s.writeFail >= 0 {
		if s.writeFail < len(p) {
			p = p[:s.writeFail]
		}
		err = errScripted
	}
	if len(p) > 0 {
		end := int(off) + len(p)
		if end > len(f.data) {
			f.data = append(f.data, make([]byte, end-len(f.data))...)
		}
		copy(f.data[off:], p)
	}
	return len(p), err
}

func (f *memFile) Truncate(size int64) error {
	f.mu.Lock()
	defer f.mu.Unlock()
	s := f.enter()
	if s != nil && s.truncFail {
		return errScripted
	}
	if int(size) <= len(f.data) {
		f.data = f.data[:size]
	} else {
		f.data = append(f.data, make([]byte, int(size)-len(f.data))...)
	}
	return nil
}

func (f *memFile) GetNextRegionOffset(off int64, rt filesystem.RegionType) (int64, error) {
	f.mu.Lock()
	defer f.mu.Unlock()
	s := f.enter()
	if s != nil {
		switch s.seek {
		case 1:
			return 0, io.EOF
		case 2:
			return 0, errScripted
		}
	}
	if off >= int64(len(f.data)) {
		return 0, io.EOF
	}
	if rt == filesystem.Data {
		return off, nil
	}
	return int64(len(f.data)), nil
}

func (f *memFile) Len() (int64, error) {
	f.mu.Lock()
	defer f.mu.Unlock()
	f.enter()
	return int64(len(f.data)), nil
}

func (f *memFile) Sync() error {
	f.mu.Lock()
	defer f.mu.Unlock()
	f.enter()
	return nil
}

func (f *memFile) Close() error {
	f.mu.Lock()
	defer f.mu.Unlock()
	f.enter()
	f.closes++
	return nil
}

func (f *memFile) logFrom(mark int) []int64 {
	f.mu.Lock()
	defer f.mu.Unlock()
	return append([]int64(nil), f.log[mark:]...)
}

func (f *memFile) logLen() int {
	f.mu.Lock()
	defer f.mu.Unlock()
	return len(f.log)
}

func (f *memFile) snapshot() (data []byte, closes, calls, cac int) {
	f.mu.Lock()
	defer f.mu.Unlock()
	return append([]byte(nil), f.data...), f.closes, f.calls, f.cac
}

type memPool struct{ file *memFile }

func (p *memPool) NewFile(holeSource pool.HoleSource, size uint64) (filesystem.FileReadWriter, error) {
	p.file.data = make([]byte, size)
	return p.file, nil
}

// ---- NamedAttributes ---------------------------------------------------------

type namedAttrs struct {
	releases     atomic.Int64
	usedReleased atomic.Int64
}

func (a *namedAttrs) NewNamedAttributes() virtual.NamedAttributes { return a }
func (a *namedAttrs) VirtualGetAttributes(requested virtual.AttributesMask, attributes *virtual.Attributes) {
	if a.releases.Load() > 0 {
		a.usedReleased.Add(1)
	}
	attributes.SetHasNamedAttributes(false)
	attributes.SetIsInNamedAttributeDirectory(false)
}

func (a *namedAttrs) VirtualOpenNamedAttributes(ctx context.Context, createDirectory bool, requested virtual.AttributesMask, attributes *virtual.Attributes) (virtual.Directory, virtual.Status) {
	return nil, virtual.StatusErrNoEnt
}
func (a *namedAttrs) Release() { a.releases.Add(1) }

type countingLogger struct{ n atomic.Int64 }

func (l *countingLogger) Log(err error) { l.n.Add(1) }

// ---- CAS ---------------------------------------------------------------------

type putCmd struct {
	read int  // >0: read up to this many bytes
	end  bool // finish: close the reader and return
	ok   bool
}

type putCall struct {
	digest digest.Digest
	recv   []byte
	cmd    chan putCmd
	resp   chan []byte
}

// fakeCAS.Put parks until the harness tells it what to do next: read the
// next chunk of the buffer (one ReadAt on the frozen file) or finish
// (closing the frozen file).
type fakeCAS struct {
	mu      sync.Mutex
	pending map[int64]*putCall // by goroutine id
	world   *world
}

func (c *fakeCAS) GetCapabilities(ctx context.Context, instanceName digest.InstanceName) (*remoteexecution.ServerCapabilities, error) {
	return nil, status.Error(codes.Unimplemented, "not used")
}

func (c *fakeCAS) Get(ctx context.Context, d digest.Digest) buffer.Buffer {
	return buffer.NewBufferFromError(status.Error(codes.Unimplemented, "not used"))
}

func (c *fakeCAS) GetFromComposite(ctx context.Context, parent, child digest.Digest, slicer slicing.BlobSlicer) buffer.Buffer {
	return buffer.NewBufferFromError(status.Error(codes.Unimplemented, "not used"))
}

func (c *fakeCAS) FindMissing(ctx context.Context, digests digest.Set) (digest.Set, error) {
	return digests, nil
}

func (c *fakeCAS) Put(ctx context.Context, d digest.Digest, b buffer.Buffer) error {
	id := goid()
	// the hashing phase is over: its scripted read failure no longer applies
	if s, ok := c.world.file.scripts.Load(id); ok {
		s.(*script).readFail.Store(false)
	}
	pc := &putCall{digest: d, cmd: make(chan putCmd), resp: make(chan []byte)}
	c.mu.Lock()
	c.pending[id] = pc
	c.mu.Unlock()
	r := b.ToReader()
	for {
		cmd := <-pc.cmd
		if cmd.end {
			r.Close()
			if cmd.ok {
				return nil
			}
			return status.Error(codes.Unavailable, "scripted CAS failure")
		}
		p := make([]byte, cmd.read)
		n, _ := r.Read(p)
		pc.recv = append(pc.recv, p[:n]...)
		pc.resp <- p[:n]
	}
}

func (c *fakeCAS) take(gid int64) *putCall {
	c.mu.Lock()
	defer c.mu.Unlock()
	return c.pending[gid]
}

// ---- directory ---------------------------------------------------------------

// leafDirectory is the build directory as far as UploadFile is concerned:
// LookupChild resolves the one name to the leaf under test.
type leafDirectory struct {
	virtual.PrepopulatedDirectory
	leaf virtual.LinkableLeaf
}

func (d *leafDirectory) LookupChild(name path.Component) (virtual.PrepopulatedDirectoryChild, error) {
	return virtual.PrepopulatedDirectoryChild{}.FromLeaf(d.leaf), nil
}
