// Harness for C17: the lazily populated input root.
//
// "tree" histories drive the real virtual.NewInMemoryPrepopulatedDirectory
// whose contents come from the real virtual.NewCASInitialContentsFetcher
// (attached with CreateChildren, or merged through the real
// builder.NewVirtualBuildDirectory(...).MergeDirectoryContents), over
//   - a fake cas.DirectoryFetcher backed by a digest -> Directory map with a
//     per-call storage-error script, which logs every GetDirectory,
//   - the real NewStatelessHandleAllocatingCASFileFactory over the real
//     NewBlobAccessCASFileFactory over a fake BlobAccess (contents by digest,
//     every Put recorded),
//   - the real NewBaseSymlinkFactory,
//   - a handle allocator that numbers directory objects and wraps every leaf
//     in a link counting leaf, so that "unlinked" leaves are observable; its
//     stateless allocator serialises the identity it is given (casFileID) and
//     records per leaf which identity byte string it received.
//
// "cache" histories drive the real cas.NewCachingDirectoryFetcher over an LRU
// eviction set and a fake base fetcher.
package main

import (
	"bytes"
	"context"
	"encoding/json"
	"errors"
	"fmt"
	"io"
	"sort"
	"syscall"
	"time"

	remoteexecution "github.com/bazelbuild/remote-apis/build/bazel/remote/execution/v2"
	"github.com/buildbarn/bb-remote-execution/pkg/builder"
	"github.com/buildbarn/bb-remote-execution/pkg/cas"
	"github.com/buildbarn/bb-remote-execution/pkg/filesystem/pool"
	"github.com/buildbarn/bb-remote-execution/pkg/filesystem/virtual"
	"github.com/buildbarn/bb-storage/pkg/blobstore/buffer"
	"github.com/buildbarn/bb-storage/pkg/blobstore/slicing"
	"github.com/buildbarn/bb-storage/pkg/clock"
	"github.com/buildbarn/bb-storage/pkg/digest"
	"github.com/buildbarn/bb-storage/pkg/filesystem"
	"github.com/buildbarn/bb-storage/pkg/filesystem/path"
	"google.golang.org/grpc/codes"
	"google.golang.org/grpc/status"

	g "verif/harness/internal/gallina"
	"verif/harness/internal/hcommon"
	"verif/harness/internal/rng"
)

// ---- histories -------------------------------------------------------------

type jdigest struct {
	H string `json:"h"`
	S int64  `json:"s"`
}

type jfile struct {
	N string   `json:"n"`
	D *jdigest `json:"d"`
	X bool     `json:"x,omitempty"`
}

type jdir struct {
	N string   `json:"n"`
	D *jdigest `json:"d"`
}

type jsym struct {
	N string `json:"n"`
	T string `json:"t"`
}

type jmsg struct {
	D     jdigest `json:"d"`
	Files []jfile `json:"files,omitempty"`
	Dirs  []jdir  `json:"dirs,omitempty"`
	Syms  []jsym  `json:"syms,omitempty"`
}

type jblob struct {
	D jdigest `json:"d"`
	V string  `json:"v"`
}

type jop struct {
	K  string   `json:"k"`
	D  int      `json:"d,omitempty"`  // directory index (modulo the number of directory objects)
	N  string   `json:"n,omitempty"`  // name
	V  bool     `json:"v,omitempty"`  // kernel facing (Virtual*) variant
	F  []bool   `json:"f,omitempty"`  // storage-error script of this call
	G  *jdigest `json:"g,omitempty"`  // digest to merge / attach
	D2 int      `json:"d2,omitempty"` // rename: target directory
	N2 string   `json:"n2,omitempty"` // rename: target name
	L  int      `json:"l,omitempty"`  // leaf index (modulo the number of leaves)
	Rd bool     `json:"rd,omitempty"`
	Wr bool     `json:"wr,omitempty"`
	Tr bool     `json:"tr,omitempty"`
	Ex bool     `json:"ex,omitempty"` // open: existing options given
	Cr bool     `json:"cr,omitempty"` // open: create attributes given
	A  bool     `json:"a,omitempty"`  // remove: directories allowed
	B  bool     `json:"b,omitempty"`  // remove: leaves allowed
	At int      `json:"at,omitempty"` // setattr: 0 size, 1 permissions, 2 owner

	// cache histories
	Tn jidigest `json:"tn,omitempty"`
	Dn jidigest `json:"dn,omitempty"`
}

type jidigest struct {
	I string `json:"i,omitempty"`
	H string `json:"h,omitempty"`
	S int64  `json:"s,omitempty"`
}

type jstored struct {
	D  jidigest `json:"d"`
	ID int      `json:"id"`
}

type history struct {
	Via   string  `json:"via,omitempty"` // "" = tree, "cache"
	Cas   []jmsg  `json:"cas,omitempty"`
	Blobs []jblob `json:"blobs,omitempty"`
	Ops   []jop   `json:"ops"`

	// cache histories
	Fmt   bool      `json:"fmt,omitempty"` // true: KeyWithInstance
	MaxC  int       `json:"maxc,omitempty"`
	MaxS  int64     `json:"maxs,omitempty"`
	Dirs  []jstored `json:"dirs,omitempty"`
	Roots []jstored `json:"roots,omitempty"`
}

type area struct{}

func (area) Requires() string {
	return "From VF Require Import Common.Verdict Cas.Model Cas.Spec Cas.Cache Cas.Corr.\nOpen Scope string_scope."
}
func (area) Check() string { return "check_case" }
func (area) Rule() string {
	return "tree histories (9 of 10): a CAS of 1-25 Directory messages forming a DAG (children mostly with higher index: shared subtrees; chains for deep nesting; empty directories; 3%: a back reference, i.e. a cycle in the map), 0-4 files, 0-3 directories, 0-2 symlinks each, names from a pool of 12; 20% of the CASes have 1-3 malformed messages (mostly near the root) (name \"\", \".\", \"..\", \"a/b\"; a duplicate name within or across files/directories/symlinks; digest absent, short, upper-case, non-hex or negative size), 5% reference a Directory that is not stored, 5% of blobs are not stored; 45% of the CASes get 1-2 blobs placed again in the root Directory and the Directories it names: under both executable bits in one Directory, under both bits in two Directories, the same (blob, bit) twice, or all of these, and a quarter of the calls of such a history list / look up there (the stateless handle allocator of the harness records the bytes casFileID.WriteTo writes for every CAS backed leaf; meta.json outcome_histogram ident:* counts the histories in which lookups and listings showed one blob under both bits / the same file twice); then 30-80 calls (thorough: up to 200): first MergeDirectoryContents or CreateChildren of the root digest, then VirtualLookup/LookupChild, VirtualReadDir/ReadDir, VirtualOpenChild on directory objects chosen among all existing ones (biased to the newest), interleaved with VirtualMkdir/VirtualRemove/Remove/VirtualRename/VirtualLink/CreateChildren/MergeDirectoryContents and with VirtualOpenSelf (read/write/truncate), VirtualSetAttributes (size/permissions/owner), VirtualWrite, VirtualAllocate and reads on leaves; each GetDirectory fails with probability 10%; cache histories (1 of 10): 20-60 GetDirectory/GetTreeRootDirectory/GetTreeChildDirectory calls on cachingDirectoryFetcher (LRU, capacity 1-4 objects / 40-200 bytes) over 3-6 hashes x 2 instance names, Tree digests colliding with Directory digests, both key formats; non-trivial = a tree history with at least 3 successful fetches, one failed fetch and one refused mutation of a CAS backed file, or a cache history with a hit and an eviction; distinct by hash of the full case term"
}

// ---- generator ---------------------------------------------------------------

var namePool = []string{"a", "b", "c", "bin", "lib", "x.txt", "A", "-", "d", "e", "tool", "..."}
var targets = []string{"a", "../b", "/abs/t", "bin/tool", "x.txt"}

func dirDigest(k int) jdigest { return jdigest{H: fmt.Sprintf("%032x", 0xd000+k), S: int64(10 + k)} }
func blobDigest(k int, n int) jdigest {
	return jdigest{H: fmt.Sprintf("%032x", 0xf000+k), S: int64(n)}
}

func badDigest(r *rng.R) *jdigest {
	switch r.Intn(5) {
	case 0:
		return nil
	case 1:
		return &jdigest{H: "abc", S: 3}
	case 2:
		return &jdigest{H: "0000000000000000000000000000D00A", S: 3}
	case 3:
		return &jdigest{H: "0000000000000000000000000000d00g", S: 3}
	default:
		return &jdigest{H: fmt.Sprintf("%032x", 0xd001), S: -1}
	}
}

func genTree(r *rng.R, thorough bool) history {
	var h history
	n := 1 + r.Intn(25)
	chain := r.Chance(25)
	malformed := r.Chance(20)
	missing := r.Chance(5)
	cyclic := r.Chance(3)
	nblobs := 0
	for k := 0; k < n; k++ {
		m := jmsg{D: dirDigest(k)}
		if !r.Chance(15) { // else: an empty directory
			used := map[string]bool{}
			pick := func() string {
				for i := 0; i < 20; i++ {
					s := namePool[r.Intn(len(namePool))]
					if !used[s] {
						used[s] = true
						return s
					}
				}
				s := fmt.Sprintf("n%d", len(used))
				used[s] = true
				return s
			}
			for i, c := 0, r.Intn(5); i < c; i++ {
				var content string
				if !r.Chance(10) {
					content = fmt.Sprintf("c%d", nblobs)[:1+r.Intn(2)]
					if r.Chance(30) {
						content = fmt.Sprintf("blob-%d", nblobs)
					}
				}
				var d jdigest
				if nblobs > 0 && r.Chance(20) && len(h.Blobs) > 0 {
					d = h.Blobs[r.Intn(len(h.Blobs))].D // the same blob under another name
				} else {
					d = blobDigest(nblobs, len(content))
					nblobs++
					if !r.Chance(5) {
						h.Blobs = append(h.Blobs, jblob{D: d, V: content})
					}
				}
				dd := d
				m.Files = append(m.Files, jfile{N: pick(), D: &dd, X: r.Chance(40)})
			}
			if k+1 < n || cyclic {
				c := r.Intn(4)
				if chain {
					c = 1
				}
				for i := 0; i < c; i++ {
					var t int
					switch {
					case chain && k+1 < n:
						t = k + 1
					case cyclic && r.Chance(30):
						t = r.Intn(k + 1)
					case k+1 < n:
						t = k + 1 + r.Intn(n-k-1)
					default:
						continue
					}
					d := dirDigest(t)
					if missing && r.Chance(20) {
						d = dirDigest(100 + t)
					}
					m.Dirs = append(m.Dirs, jdir{N: pick(), D: &d})
				}
			}
			for i, c := 0, r.Intn(3); i < c; i++ {
				m.Syms = append(m.Syms, jsym{N: pick(), T: targets[r.Intn(len(targets))]})
			}
		}
		h.Cas = append(h.Cas, m)
	}
	// One blob under both executable bits, and one (blob, bit) more than
	// once: what the identity handed to the stateless handle allocator has
	// to keep apart / may share. Placed in the root Directory and in the
	// Directories the root names, where exploration gets to.
	var twinNames, twinDirs []string
	if r.Chance(45) {
		near := []int{0}
		seen := map[string]bool{}
		for _, e := range h.Cas[0].Dirs {
			if e.D != nil && !seen[e.D.H] {
				seen[e.D.H] = true
				for k := 1; k < n; k++ {
					if h.Cas[k].D.H == e.D.H {
						near = append(near, k)
						twinDirs = append(twinDirs, e.N)
					}
				}
			}
		}
		add := func(k int, d jdigest, x bool) {
			m := &h.Cas[k]
			used := map[string]bool{}
			for _, e := range m.Files {
				used[e.N] = true
			}
			for _, e := range m.Dirs {
				used[e.N] = true
			}
			for _, e := range m.Syms {
				used[e.N] = true
			}
			nm := ""
			for i := 0; i < 20 && nm == ""; i++ {
				if s := namePool[r.Intn(len(namePool))]; !used[s] {
					nm = s
				}
			}
			if nm == "" {
				nm = fmt.Sprintf("t%d", len(used))
			}
			dd := d
			m.Files = append(m.Files, jfile{N: nm, D: &dd, X: x})
			twinNames = append(twinNames, nm)
		}
		for i, c := 0, 1+r.Intn(2); i < c; i++ {
			var d jdigest
			if len(h.Blobs) > 0 && r.Chance(50) {
				d = h.Blobs[r.Intn(len(h.Blobs))].D
			} else {
				content := fmt.Sprintf("twin-%d", nblobs)[:r.Intn(7)]
				d = blobDigest(nblobs, len(content))
				nblobs++
				h.Blobs = append(h.Blobs, jblob{D: d, V: content})
			}
			x := r.Chance(50)
			a, b := near[r.Intn(len(near))], near[r.Intn(len(near))]
			switch r.Intn(4) {
			case 0: // both bits, one directory
				add(a, d, x)
				add(a, d, !x)
			case 1: // both bits, (mostly) different directories
				add(a, d, x)
				add(b, d, !x)
			case 2: // the same file twice
				add(a, d, x)
				add(b, d, x)
			default:
				add(a, d, x)
				add(a, d, !x)
				add(b, d, x)
				add(b, d, !x)
			}
		}
	}

	if malformed {
		for i, c := 0, 1+r.Intn(3); i < c; i++ {
			// mostly near the root, where exploration gets to
			m := &h.Cas[r.Intn(n)]
			if r.Chance(60) {
				m = &h.Cas[r.Intn((n+2)/3)]
			}
			bad := []string{"", ".", "..", "a/b"}[r.Intn(4)]
			anyName := func() (string, bool) {
				var all []string
				for _, e := range m.Files {
					all = append(all, e.N)
				}
				for _, e := range m.Dirs {
					all = append(all, e.N)
				}
				for _, e := range m.Syms {
					all = append(all, e.N)
				}
				if len(all) == 0 {
					return "", false
				}
				return all[r.Intn(len(all))], true
			}
			kind := r.Intn(3) // what to damage: a name, a duplicate, a digest
			where := r.Intn(3)
			switch kind {
			case 0, 1:
				nm := bad
				if kind == 1 {
					var ok bool
					if nm, ok = anyName(); !ok {
						nm = bad
					}
				}
				switch where {
				case 0:
					d := blobDigest(0, 0)
					m.Files = append(m.Files, jfile{N: nm, D: &d})
				case 1:
					d := dirDigest(0)
					m.Dirs = append(m.Dirs, jdir{N: nm, D: &d})
				default:
					m.Syms = append(m.Syms, jsym{N: nm, T: "t"})
				}
			default:
				if where == 0 && len(m.Dirs) > 0 {
					m.Dirs[r.Intn(len(m.Dirs))].D = badDigest(r)
				} else if len(m.Files) > 0 {
					m.Files[r.Intn(len(m.Files))].D = badDigest(r)
				} else {
					m.Files = append(m.Files, jfile{N: "zz", D: badDigest(r)})
				}
			}
		}
	}

	nops := 30 + r.Intn(51)
	if thorough {
		nops = 40 + r.Intn(161)
	}
	script := func() []bool {
		var f []bool
		for i := 0; i < 3; i++ {
			f = append(f, r.Chance(10))
		}
		for len(f) > 0 && !f[len(f)-1] {
			f = f[:len(f)-1]
		}
		return f
	}
	name := func() string { return namePool[r.Intn(len(namePool))] }
	dirIdx := func() int {
		// indices count from the newest directory object when negative
		if r.Chance(50) {
			return -1 - r.Intn(6)
		}
		return r.Intn(40)
	}
	someDigest := func() *jdigest {
		d := h.Cas[r.Intn(len(h.Cas))].D
		if r.Chance(5) {
			d = dirDigest(200)
		}
		return &d
	}
	root := h.Cas[0].D
	switch x := r.Intn(100); {
	case x < 65:
		h.Ops = append(h.Ops, jop{K: "merge", D: 0, G: &root, F: script()})
	case x < 92:
		h.Ops = append(h.Ops, jop{K: "attach", D: 0, N: "root", G: &root, F: script()})
	}
	for len(h.Ops) < nops {
		o := jop{D: dirIdx(), N: name(), F: script()}
		if len(twinNames) > 0 && r.Chance(25) {
			// explore where the twins are: the root (object 0 after a merge,
			// 1 after an attach), then the directories it names
			o.D = r.Intn(2)
			if r.Chance(40) {
				o.D = -1 - r.Intn(3)
			}
			switch y := r.Intn(100); {
			case y < 40:
				o.K, o.V = "readdir", true
			case y < 70 && len(twinDirs) > 0:
				o.K, o.V, o.N = "lookup", r.Chance(60), twinDirs[r.Intn(len(twinDirs))]
			default:
				o.K, o.V, o.N = "lookup", r.Chance(60), twinNames[r.Intn(len(twinNames))]
			}
			h.Ops = append(h.Ops, o)
			continue
		}
		switch x := r.Intn(100); {
		case x < 27:
			o.K, o.V = "lookup", r.Chance(60)
		case x < 47:
			o.K, o.V = "readdir", r.Chance(60)
		case x < 55:
			o.K = "open"
			o.Rd, o.Wr, o.Tr = !r.Chance(15), r.Chance(45), r.Chance(20)
			switch r.Intn(4) {
			case 0:
				o.Cr = true
			case 1:
				o.Ex, o.Cr = true, true
			default:
				o.Ex = true
			}
		case x < 59:
			o.K = "mkdir"
		case x < 65:
			o.K, o.V = "remove", r.Chance(60)
			o.A, o.B = !r.Chance(20), !r.Chance(20)
		case x < 71:
			o.K = "rename"
			o.D2, o.N2 = dirIdx(), name()
			if r.Chance(30) {
				o.D2 = o.D
			}
		case x < 74:
			o.K, o.L = "link", r.Intn(64)
		case x < 77:
			o.K, o.G = "attach", someDigest()
		case x < 79:
			o.K, o.G = "merge", someDigest()
		default:
			o = jop{L: r.Intn(64)}
			switch y := r.Intn(100); {
			case y < 35:
				o.K = "openself"
				o.Rd, o.Wr, o.Tr = !r.Chance(15), r.Chance(60), r.Chance(25)
			case y < 60:
				o.K, o.At = "setattr", r.Intn(3)
				if r.Chance(40) {
					o.At = 0
				}
			case y < 75:
				o.K = "write"
			case y < 88:
				o.K = "allocate"
			default:
				o.K = "read"
			}
		}
		h.Ops = append(h.Ops, o)
	}
	return h
}

func genCache(r *rng.R, thorough bool) history {
	h := history{Via: "cache", Fmt: r.Chance(50), MaxC: 1 + r.Intn(4), MaxS: int64(40 + r.Intn(161))}
	nh := 3 + r.Intn(4)
	insts := []string{"i1", "i2"}
	id := 0
	// Content addressing: the Directory is determined by (hash, size); with
	// KeyWithInstance every (instance, hash, size) may have its own object.
	for k := 0; k < nh; k++ {
		base := id
		id++
		if r.Chance(15) {
			continue // not stored at all
		}
		for _, in := range insts {
			if h.Fmt && r.Chance(15) {
				continue // not stored under this instance name
			}
			oid := base
			if h.Fmt && r.Chance(50) {
				oid = id
				id++
			}
			h.Dirs = append(h.Dirs, jstored{D: jidigest{I: in, H: fmt.Sprintf("%032x", 0xa000+k), S: int64(10 + 7*k)}, ID: oid})
		}
	}
	for k := 0; k < nh; k++ {
		if !r.Chance(60) {
			continue
		}
		base := id
		id++
		for _, in := range insts {
			oid := base
			if h.Fmt && r.Chance(50) {
				oid = id
				id++
			}
			// Tree digests deliberately collide with Directory digests.
			h.Roots = append(h.Roots, jstored{D: jidigest{I: in, H: fmt.Sprintf("%032x", 0xa000+k), S: int64(10 + 7*k)}, ID: oid})
		}
	}
	n := 20 + r.Intn(41)
	if thorough {
		n = 40 + r.Intn(161)
	}
	dg := func() jidigest {
		return jidigest{I: insts[r.Intn(2)], H: fmt.Sprintf("%032x", 0xa000+r.Intn(nh+1)), S: 0}
	}
	fix := func(d jidigest) jidigest {
		var k int
		fmt.Sscanf(d.H[28:], "%x", &k)
		d.S = int64(10 + 7*(k-0xa000))
		return d
	}
	for i := 0; i < n; i++ {
		var o jop
		switch x := r.Intn(100); {
		case x < 45:
			o = jop{K: "cdir", Dn: fix(dg())}
		case x < 75:
			o = jop{K: "croot", Tn: fix(dg())}
		default:
			o = jop{K: "cchild", Tn: fix(dg()), Dn: fix(dg())}
		}
		h.Ops = append(h.Ops, o)
	}
	return h
}

func (area) Generate(r *rng.R, thorough bool, index int) json.RawMessage {
	var h history
	if index%10 == 7 {
		h = genCache(r, thorough)
	} else {
		h = genTree(r, thorough)
	}
	data, _ := json.Marshal(h)
	return data
}

// ---- fakes -----------------------------------------------------------------

var digestFunction = digest.MustNewFunction("inst", remoteexecution.DigestFunction_MD5)

type dkey struct {
	h string
	s int64
}

type fetchLog struct {
	k   dkey
	res string
}

type world struct {
	dirs  []virtual.PrepopulatedDirectory
	dirID map[virtual.Directory]int

	leaves []*trackedLeaf

	// Stateless handle allocator: what casFileID.WriteTo wrote for every
	// leaf created through StatelessHandleAllocator.New, the way the NFSv4
	// allocator keys its statelessLeaves table. idTab holds the distinct
	// byte strings in order of first appearance; a leaf's token is the
	// index of its byte string.
	idTab   [][]byte
	idIndex map[string]int
	idents  [][2]int             // (leaf number, token) in creation order
	kinds   map[int]fileKind     // CAS backed leaves that were shown by a lookup or listing
	shownIn map[int]map[int]bool // ... and by which directory objects
	curDir  int

	// fake Content Addressable Storage
	directories map[dkey]*remoteexecution.Directory
	blobs       map[dkey][]byte
	puts        int
	script      []bool
	log         []fetchLog
	logged      int
}

// trackedLeaf gives a leaf an identity and counts Link()/Unlink().
type trackedLeaf struct {
	virtual.LinkableLeaf
	id    int
	nlink int
}

func (l *trackedLeaf) Link() virtual.Status {
	s := l.LinkableLeaf.Link()
	if s == virtual.StatusOK {
		l.nlink++
	}
	return s
}

func (l *trackedLeaf) Unlink() {
	l.nlink--
	l.LinkableLeaf.Unlink()
}

func (w *world) track(leaf virtual.LinkableLeaf) *trackedLeaf {
	t := &trackedLeaf{LinkableLeaf: leaf, id: len(w.leaves), nlink: 1}
	w.leaves = append(w.leaves, t)
	return t
}

// directory fetcher

func (w *world) GetDirectory(ctx context.Context, d digest.Digest) (*remoteexecution.Directory, error) {
	k := dkey{d.GetHashString(), d.GetSizeBytes()}
	fail := false
	if len(w.script) > 0 {
		fail = w.script[0]
		w.script = w.script[1:]
	}
	if fail {
		w.log = append(w.log, fetchLog{k, "FInjected"})
		return nil, status.Error(codes.Unavailable, "injected storage error")
	}
	m, ok := w.directories[k]
	if !ok {
		w.log = append(w.log, fetchLog{k, "FMissing"})
		return nil, status.Error(codes.NotFound, "no such directory")
	}
	w.log = append(w.log, fetchLog{k, "FOk"})
	return m, nil
}

func (w *world) GetTreeRootDirectory(ctx context.Context, d digest.Digest) (*remoteexecution.Directory, error) {
	panic("harness: GetTreeRootDirectory not expected")
}

func (w *world) GetTreeChildDirectory(ctx context.Context, t, d digest.Digest) (*remoteexecution.Directory, error) {
	panic("harness: GetTreeChildDirectory not expected")
}

// blob access

type blobAccess struct{ w *world }

func (b blobAccess) Get(ctx context.Context, d digest.Digest) buffer.Buffer {
	data, ok := b.w.blobs[dkey{d.GetHashString(), d.GetSizeBytes()}]
	if !ok {
		return buffer.NewBufferFromError(status.Error(codes.NotFound, "no such blob"))
	}
	return buffer.NewValidatedBufferFromByteSlice(data)
}

func (b blobAccess) GetFromComposite(ctx context.Context, p, c digest.Digest, s slicing.BlobSlicer) buffer.Buffer {
	panic("harness: GetFromComposite not expected")
}

func (b blobAccess) Put(ctx context.Context, d digest.Digest, buf buffer.Buffer) error {
	b.w.puts++
	data, err := buf.ToByteSlice(1 << 20)
	if err != nil {
		return err
	}
	b.w.blobs[dkey{d.GetHashString(), d.GetSizeBytes()}] = data
	return nil
}

func (b blobAccess) FindMissing(ctx context.Context, digests digest.Set) (digest.Set, error) {
	return digest.EmptySet, nil
}

func (b blobAccess) GetCapabilities(ctx context.Context, instanceName digest.InstanceName) (*remoteexecution.ServerCapabilities, error) {
	return nil, status.Error(codes.Unimplemented, "harness")
}

func (w *world) casSnapshot() string {
	var keys []string
	for k, m := range w.directories {
		keys = append(keys, fmt.Sprintf("D %s %d %s", k.h, k.s, m.String()))
	}
	for k, v := range w.blobs {
		keys = append(keys, fmt.Sprintf("B %s %d %q", k.h, k.s, v))
	}
	sort.Strings(keys)
	return fmt.Sprint(keys)
}

// handle allocator

type handleAllocator struct{ w *world }

func (a *handleAllocator) New() virtual.StatefulHandleAllocation { return &handleAllocation{w: a.w} }

type handleAllocation struct{ w *world }

func (h *handleAllocation) AsStatelessAllocator() virtual.StatelessHandleAllocator {
	return statelessAllocator{h.w}
}
func (h *handleAllocation) AsResolvableAllocator(resolver virtual.HandleResolver) virtual.ResolvableHandleAllocator {
	panic("harness: AsResolvableAllocator not expected")
}
func (h *handleAllocation) AsStatelessDirectory(directory virtual.Directory) virtual.Directory {
	panic("harness: AsStatelessDirectory not expected")
}
func (h *handleAllocation) AsLeaf(leaf virtual.Leaf) virtual.Leaf {
	panic("harness: AsLeaf not expected")
}
func (h *handleAllocation) AsLinkableLeaf(leaf virtual.LinkableLeaf) virtual.LinkableLeaf {
	return h.w.track(leaf)
}

type dirHandle struct {
	w  *world
	id int
}

func (h *handleAllocation) AsStatefulDirectory(directory virtual.Directory) virtual.StatefulDirectoryHandle {
	w := h.w
	id := len(w.dirs)
	w.dirs = append(w.dirs, directory.(virtual.PrepopulatedDirectory))
	w.dirID[directory] = id
	return &dirHandle{w: w, id: id}
}
func (h *dirHandle) GetAttributes(requested virtual.AttributesMask, attributes *virtual.Attributes) {
	attributes.SetInodeNumber(uint64(h.id))
}
func (h *dirHandle) NotifyRemoval(name path.Component) {}
func (h *dirHandle) Release()                          {}

// statelessAllocator stands for nfsStatelessHandleAllocator /
// fuseStatelessHandleAllocator: the identity of the object is whatever the
// io.WriterTo writes. The real NFSv4 allocator hashes these bytes (seeded
// per allocator) into the inode number and returns the leaf it already has
// for that number; this one keeps every leaf apart (so that the leaf
// numbering of the model stays the allocation order) and records which
// leaves would have been one file for the kernel.
type statelessAllocator struct{ w *world }

func (a statelessAllocator) New(id io.WriterTo) virtual.StatelessHandleAllocation {
	var buf bytes.Buffer
	if _, err := id.WriteTo(&buf); err != nil {
		panic(err)
	}
	w := a.w
	token, ok := w.idIndex[buf.String()]
	if !ok {
		token = len(w.idTab)
		w.idIndex[buf.String()] = token
		w.idTab = append(w.idTab, append([]byte(nil), buf.Bytes()...))
	}
	return &statelessAllocation{w: w, token: token}
}

type statelessAllocation struct {
	w     *world
	token int
}

func (h *statelessAllocation) AsStatelessAllocator() virtual.StatelessHandleAllocator {
	panic("harness: nested AsStatelessAllocator not expected")
}
func (h *statelessAllocation) AsResolvableAllocator(resolver virtual.HandleResolver) virtual.ResolvableHandleAllocator {
	panic("harness: AsResolvableAllocator not expected")
}
func (h *statelessAllocation) AsStatelessDirectory(directory virtual.Directory) virtual.Directory {
	panic("harness: AsStatelessDirectory not expected")
}
func (h *statelessAllocation) AsLeaf(leaf virtual.Leaf) virtual.Leaf {
	panic("harness: AsLeaf not expected")
}
func (h *statelessAllocation) AsLinkableLeaf(leaf virtual.LinkableLeaf) virtual.LinkableLeaf {
	t := h.w.track(leaf)
	h.w.idents = append(h.w.idents, [2]int{t.id, h.token})
	return t
}

type fileKind struct {
	h string
	s int64
	x bool
}

// symlink factory: the real one, its symlinks wrapped for link counting

type symlinkFactory struct {
	w    *world
	base virtual.SymlinkFactory
}

func (f *symlinkFactory) LookupSymlink(target path.Parser) (virtual.LinkableLeaf, error) {
	leaf, err := f.base.LookupSymlink(target)
	if err != nil {
		return nil, err
	}
	return f.w.track(leaf), nil
}

// file allocator: local files of the action

type localFile struct{}

func (localFile) VirtualGetAttributes(ctx context.Context, requested virtual.AttributesMask, attributes *virtual.Attributes) {
	attributes.SetChangeID(0)
	attributes.SetFileType(filesystem.FileTypeRegularFile)
	attributes.SetPermissions(virtual.PermissionsRead | virtual.PermissionsWrite)
	attributes.SetSizeBytes(0)
}
func (l localFile) VirtualSetAttributes(ctx context.Context, in *virtual.Attributes, requested virtual.AttributesMask, attributes *virtual.Attributes) virtual.Status {
	l.VirtualGetAttributes(ctx, requested, attributes)
	return virtual.StatusOK
}
func (localFile) VirtualApply(data any) bool { return false }
func (localFile) VirtualOpenNamedAttributes(ctx context.Context, createDirectory bool, requested virtual.AttributesMask, attributes *virtual.Attributes) (virtual.Directory, virtual.Status) {
	return nil, virtual.StatusErrNoEnt
}
func (localFile) VirtualAllocate(ctx context.Context, off, size uint64) virtual.Status {
	return virtual.StatusOK
}
func (localFile) VirtualSeek(ctx context.Context, offset uint64, regionType filesystem.RegionType) (*uint64, virtual.Status) {
	return nil, virtual.StatusErrNXIO
}
func (l localFile) VirtualOpenSelf(ctx context.Context, shareAccess virtual.ShareMask, options *virtual.OpenExistingOptions, requested virtual.AttributesMask, attributes *virtual.Attributes) virtual.Status {
	l.VirtualGetAttributes(ctx, requested, attributes)
	return virtual.StatusOK
}
func (localFile) VirtualRead(ctx context.Context, buf []byte, offset uint64) (int, bool, virtual.Status) {
	return 0, true, virtual.StatusOK
}
func (localFile) VirtualClose(shareAccess virtual.ShareMask) {}
func (localFile) VirtualWrite(ctx context.Context, buf []byte, offset uint64) (int, virtual.Status) {
	return len(buf), virtual.StatusOK
}
func (localFile) Link() virtual.Status { return virtual.StatusOK }
func (localFile) Unlink()              {}

type fileAllocator struct{ w *world }

func (a fileAllocator) NewFile(holeSource pool.HoleSource, isExecutable bool, size uint64, shareAccess virtual.ShareMask) (virtual.LinkableLeaf, error) {
	return a.w.track(localFile{}), nil
}

type errorLogger struct{ w *world }

func (e errorLogger) Log(err error) { e.w.logged++ }

// ---- printing --------------------------------------------------------------

var statusNames = map[virtual.Status]string{
	virtual.StatusOK: "SOK", virtual.StatusErrExist: "SExist", virtual.StatusErrIO: "SIO",
	virtual.StatusErrIsDir: "SIsDir", virtual.StatusErrNoEnt: "SNoEnt", virtual.StatusErrNotDir: "SNotDir",
	virtual.StatusErrNotEmpty: "SNotEmpty", virtual.StatusErrPerm: "SPerm", virtual.StatusErrAccess: "SAccess",
	virtual.StatusErrSymlink: "SSymlink", virtual.StatusErrWrongType: "SWrongType",
	virtual.StatusErrInval: "SInval",
}

func statusName(s virtual.Status) string {
	if n, ok := statusNames[s]; ok {
		return n
	}
	return "SOther"
}

func errName(err error) string {
	if err == nil {
		return "SOK"
	}
	var errno syscall.Errno
	if errors.As(err, &errno) {
		switch errno {
		case syscall.ENOENT:
			return "SNoEnt"
		case syscall.EEXIST:
			return "SExist"
		case syscall.ENOTEMPTY:
			return "SNotEmpty"
		}
		return "SOther"
	}
	if s, ok := status.FromError(err); ok {
		return g.App("SCode", fmt.Sprint(int(s.Code())))
	}
	return "SOther"
}

// hashTerm prints a hash; the 32 hex digits of a small number are written
// as (H32 n), which Corr.v expands (coqc spends its time on literals).
func hashTerm(h string) string {
	var v uint64
	if len(h) == 32 {
		if _, err := fmt.Sscanf(h, "%x", &v); err == nil && fmt.Sprintf("%032x", v) == h {
			return g.App("H32", g.N(v))
		}
	}
	return g.Str(h)
}

func digestTerm(h string, s int64) string { return "(" + hashTerm(h) + ", " + g.Z(s) + ")" }

func pdigestTerm(d *jdigest) string {
	if d == nil {
		return "None"
	}
	return g.Some(digestTerm(d.H, d.S))
}

func boolList(bs []bool) string {
	var out []string
	for _, b := range bs {
		out = append(out, g.Bool(b))
	}
	return g.List(out)
}

type result struct {
	status  string
	child   string
	entries []string
	obs     string
}

// symlinkTarget renders the target of a symbolic link the way
// symlink.readlinkString does.
func symlinkTarget(p path.Parser) string {
	b, sw := path.EmptyBuilder.Join(path.VoidScopeWalker)
	if err := path.Resolve(p, sw); err != nil {
		return "<unresolvable>"
	}
	return b.GetUNIXString()
}

const leafMask = virtual.AttributesMaskFileType | virtual.AttributesMaskPermissions | virtual.AttributesMaskSizeBytes | virtual.AttributesMaskSymlinkTarget

// ldesc describes a leaf through what the exported API shows of it.
func (w *world) ldesc(t *trackedLeaf) string {
	if _, ok := t.LinkableLeaf.(localFile); ok {
		return "LLocal"
	}
	var a virtual.Attributes
	t.VirtualGetAttributes(context.Background(), leafMask, &a)
	switch a.GetFileType() {
	case filesystem.FileTypeSymlink:
		target, _ := a.GetSymlinkTarget()
		return g.App("LSym", g.Str(symlinkTarget(target)))
	case filesystem.FileTypeRegularFile:
		p := virtual.ApplyUploadFile{}
		if !t.VirtualApply(&p) || p.Err != nil {
			return "LLocal"
		}
		perm, _ := a.GetPermissions()
		w.kinds[t.id] = fileKind{p.Digest.GetHashString(), p.Digest.GetSizeBytes(), perm&virtual.PermissionsExecute != 0}
		return g.App("LFile", digestTerm(p.Digest.GetHashString(), p.Digest.GetSizeBytes()), g.Bool(perm&virtual.PermissionsExecute != 0))
	}
	return "LLocal"
}

func (w *world) childTerm(directory virtual.Directory, leaf virtual.Leaf) string {
	if directory != nil {
		id, ok := w.dirID[directory]
		if !ok {
			return "(DDir 99999)"
		}
		return g.App("DDir", fmt.Sprint(id))
	}
	t, ok := leaf.(*trackedLeaf)
	if !ok {
		return "(DLeaf 99999 LLocal)"
	}
	if w.shownIn[t.id] == nil {
		w.shownIn[t.id] = map[int]bool{}
	}
	w.shownIn[t.id][w.curDir] = true
	return g.App("DLeaf", fmt.Sprint(t.id), w.ldesc(t))
}

func (w *world) observe(t *trackedLeaf) string {
	if _, ok := t.LinkableLeaf.(localFile); ok {
		return "ObsLocal"
	}
	ctx := context.Background()
	var a virtual.Attributes
	t.VirtualGetAttributes(ctx, leafMask, &a)
	switch a.GetFileType() {
	case filesystem.FileTypeSymlink:
		target, _ := a.GetSymlinkTarget()
		return g.App("ObsSym", g.Str(symlinkTarget(target)))
	case filesystem.FileTypeRegularFile:
		size, _ := a.GetSizeBytes()
		perm, _ := a.GetPermissions()
		data := "None"
		buf := make([]byte, size+4)
		if n, eof, s := t.VirtualRead(ctx, buf, 0); s == virtual.StatusOK && eof {
			data = g.Some(g.Str(string(buf[:n])))
		}
		return g.App("ObsFile", g.Z(int64(size)), g.Bool(perm&virtual.PermissionsExecute != 0), data)
	}
	return "ObsLocal"
}

type pageReporter struct {
	w    *world
	rows []string
}

func (p *pageReporter) ReportEntry(nextCookie uint64, name path.Component, child virtual.DirectoryChild, attributes *virtual.Attributes) bool {
	directory, leaf := child.GetPair()
	p.rows = append(p.rows, "("+g.Str(name.String())+", "+p.w.childTerm(directory, leaf)+")")
	return true
}

// call runs f on its own goroutine so that a panic or a call that never
// returns ends the call instead of the harness.
func call(f func()) string {
	done := make(chan string, 1)
	go func() {
		defer func() {
			if r := recover(); r != nil {
				done <- "SPanic"
			}
		}()
		f()
		done <- ""
	}()
	select {
	case s := <-done:
		return s
	case <-time.After(10 * time.Second):
		return "SHang"
	}
}

// ---- execution -------------------------------------------------------------

func (area) Execute(raw json.RawMessage) (term string, info *hcommon.Info, err error) {
	var h history
	if err := json.Unmarshal(raw, &h); err != nil {
		return "", nil, err
	}
	info = hcommon.NewInfo()
	if h.Via == "cache" {
		return executeCache(h, info)
	}
	ctx := context.Background()
	w := &world{dirID: map[virtual.Directory]int{}, directories: map[dkey]*remoteexecution.Directory{}, blobs: map[dkey][]byte{},
		idIndex: map[string]int{}, kinds: map[int]fileKind{}, shownIn: map[int]map[int]bool{}}

	// The CAS. First message of a digest wins, as in the model.
	var casTerms, blobTerms []string
	for _, m := range h.Cas {
		msg := &remoteexecution.Directory{}
		var fs, ds, ss []string
		toProto := func(d *jdigest) *remoteexecution.Digest {
			if d == nil {
				return nil
			}
			return &remoteexecution.Digest{Hash: d.H, SizeBytes: d.S}
		}
		for _, e := range m.Files {
			msg.Files = append(msg.Files, &remoteexecution.FileNode{Name: e.N, Digest: toProto(e.D), IsExecutable: e.X})
			fs = append(fs, g.App("mkF", g.Str(e.N), pdigestTerm(e.D), g.Bool(e.X)))
		}
		for _, e := range m.Dirs {
			msg.Directories = append(msg.Directories, &remoteexecution.DirectoryNode{Name: e.N, Digest: toProto(e.D)})
			ds = append(ds, g.App("mkD", g.Str(e.N), pdigestTerm(e.D)))
		}
		for _, e := range m.Syms {
			msg.Symlinks = append(msg.Symlinks, &remoteexecution.SymlinkNode{Name: e.N, Target: e.T})
			ss = append(ss, g.App("mkS", g.Str(e.N), g.Str(e.T)))
		}
		k := dkey{m.D.H, m.D.S}
		if _, ok := w.directories[k]; !ok {
			w.directories[k] = msg
		}
		casTerms = append(casTerms, "("+digestTerm(m.D.H, m.D.S)+", "+g.App("mkMsg", g.List(fs), g.List(ds), g.List(ss))+")")
	}
	for _, b := range h.Blobs {
		k := dkey{b.D.H, b.D.S}
		if _, ok := w.blobs[k]; !ok {
			w.blobs[k] = []byte(b.V)
		}
		blobTerms = append(blobTerms, "("+digestTerm(b.D.H, b.D.S)+", "+g.Str(b.V)+")")
	}
	snapshot := w.casSnapshot()

	setter := func(requested virtual.AttributesMask, attributes *virtual.Attributes) {}
	ha := &handleAllocator{w: w}
	symlinks := &symlinkFactory{w: w, base: virtual.NewBaseSymlinkFactory(setter)}
	logger := errorLogger{w}
	ba := blobAccess{w}
	hidden := func(string) bool { return false }
	virtual.NewInMemoryPrepopulatedDirectory(
		fileAllocator{w}, symlinks, logger, ha, sort.Sort, hidden, clock.SystemClock,
		virtual.CaseSensitiveComponentNormalizer, setter, virtual.NoNamedAttributesFactory)
	casFileFactory := virtual.NewStatelessHandleAllocatingCASFileFactory(
		virtual.NewBlobAccessCASFileFactory(ctx, ba, logger), ha.New())

	var ops, outs []string
	okFetches, failedFetches, refused := 0, 0, 0

	for _, o := range h.Ops {
		dir := func(i int) int {
			n := len(w.dirs)
			if i < 0 {
				i = n + i
				if i < 0 {
					i = 0
				}
			}
			return i % n
		}
		var leaf *trackedLeaf
		leafIdx := 0
		isLeafOp := false
		switch o.K {
		case "openself", "setattr", "write", "allocate", "read", "link":
			if len(w.leaves) == 0 {
				continue
			}
			leafIdx = o.L % len(w.leaves)
			if leafIdx < 0 {
				leafIdx = 0
			}
			leaf = w.leaves[leafIdx]
			isLeafOp = o.K != "link"
		case "cdir", "croot", "cchild":
			continue
		}
		nlinkBefore := make([]int, len(w.leaves))
		for i, l := range w.leaves {
			nlinkBefore[i] = l.nlink
		}
		w.script = append([]bool(nil), o.F...)
		w.log = nil
		res := result{status: "SOK", child: "None"}
		var opTerm string
		comp := func(s string) (path.Component, bool) { return path.NewComponent(s) }
		name, nameOK := comp(o.N)
		if !nameOK && !isLeafOp && o.K != "readdir" && o.K != "merge" {
			continue
		}
		fsTerm := boolList(o.F)
		var dg digest.Digest
		if o.K == "merge" || o.K == "attach" {
			if o.G == nil {
				continue
			}
			var derr error
			if dg, derr = digestFunction.NewDigest(o.G.H, o.G.S); derr != nil {
				continue
			}
		}
		di := dir(o.D)
		d := w.dirs[di]
		w.curDir = di
		hang := call(func() {
			switch o.K {
			case "merge":
				opTerm = g.App("OMerge", fmt.Sprint(di), digestTerm(o.G.H, o.G.S), fsTerm)
				bd := builder.NewVirtualBuildDirectory(d, w, ba, symlinks, nil, ha, setter, clock.SystemClock)
				res.status = errName(bd.MergeDirectoryContents(ctx, logger, dg, nil))
			case "attach":
				opTerm = g.App("OAttach", fmt.Sprint(di), g.Str(o.N), digestTerm(o.G.H, o.G.S), fsTerm)
				fetcher := virtual.NewCASInitialContentsFetcher(ctx, cas.NewDecomposedDirectoryWalker(w, dg), casFileFactory, symlinks, digestFunction)
				before := len(w.dirs)
				err := d.CreateChildren(map[path.Component]virtual.InitialChild{
					name: virtual.InitialChild{}.FromDirectory(fetcher),
				}, false)
				res.status = errName(err)
				if err == nil && len(w.dirs) > before {
					res.child = g.Some(g.App("DDir", fmt.Sprint(len(w.dirs)-1)))
				}
			case "lookup":
				opTerm = g.App("OLookup", fmt.Sprint(di), g.Str(o.N), g.Bool(o.V), fsTerm)
				if o.V {
					var a virtual.Attributes
					child, s := d.VirtualLookup(ctx, name, virtual.AttributesMaskFileType, &a)
					res.status = statusName(s)
					if s == virtual.StatusOK {
						directory, leaf := child.GetPair()
						res.child = g.Some(w.childTerm(directory, leaf))
					}
				} else {
					child, err := d.LookupChild(name)
					res.status = errName(err)
					if err == nil {
						directory, leaf := child.GetPair()
						if directory != nil {
							res.child = g.Some(w.childTerm(directory, nil))
						} else {
							res.child = g.Some(w.childTerm(nil, leaf))
						}
					}
				}
			case "readdir":
				opTerm = g.App("OReadDir", fmt.Sprint(di), g.Bool(o.V), fsTerm)
				if o.V {
					rep := &pageReporter{w: w}
					s := d.VirtualReadDir(ctx, 0, virtual.AttributesMaskFileType, rep)
					res.status = statusName(s)
					if s == virtual.StatusOK {
						res.entries = rep.rows
					}
				} else {
					infos, err := d.ReadDir()
					res.status = errName(err)
					for _, fi := range infos {
						var c string
						switch fi.Type() {
						case filesystem.FileTypeDirectory:
							c = "DInfoDir"
						case filesystem.FileTypeRegularFile:
							c = g.App("DInfoLeaf", "0", g.Bool(fi.IsExecutable()))
						case filesystem.FileTypeSymlink:
							c = g.App("DInfoLeaf", "1", g.Bool(fi.IsExecutable()))
						default:
							c = g.App("DInfoLeaf", "2", g.Bool(fi.IsExecutable()))
						}
						res.entries = append(res.entries, "("+g.Str(fi.Name().String())+", "+c+")")
					}
				}
			case "open":
				opTerm = g.App("OOpen", fmt.Sprint(di), g.Str(o.N), g.Bool(o.Rd), g.Bool(o.Wr), g.Bool(o.Tr), g.Bool(o.Ex), g.Bool(o.Cr), fsTerm)
				var share virtual.ShareMask
				if o.Rd {
					share |= virtual.ShareMaskRead
				}
				if o.Wr {
					share |= virtual.ShareMaskWrite
				}
				var create *virtual.Attributes
				if o.Cr {
					create = (&virtual.Attributes{}).SetPermissions(virtual.PermissionsRead | virtual.PermissionsWrite)
				}
				var existing *virtual.OpenExistingOptions
				if o.Ex {
					existing = &virtual.OpenExistingOptions{Truncate: o.Tr}
				}
				var a virtual.Attributes
				l, _, _, s := d.VirtualOpenChild(ctx, name, share, create, existing, virtual.AttributesMaskFileType, &a)
				res.status = statusName(s)
				if l != nil {
					res.child = g.Some(w.childTerm(nil, l))
					if s == virtual.StatusOK {
						l.VirtualClose(share)
					}
				}
			case "mkdir":
				opTerm = g.App("OMkdir", fmt.Sprint(di), g.Str(o.N), fsTerm)
				var a virtual.Attributes
				child, _, s := d.VirtualMkdir(ctx, name, &virtual.Attributes{}, virtual.AttributesMaskFileType, &a)
				res.status = statusName(s)
				if s == virtual.StatusOK {
					res.child = g.Some(w.childTerm(child, nil))
				}
			case "remove":
				if o.V {
					opTerm = g.App("ORemove", fmt.Sprint(di), g.Str(o.N), g.Bool(o.A), g.Bool(o.B), "true", fsTerm)
					_, s := d.VirtualRemove(ctx, name, o.A, o.B)
					res.status = statusName(s)
				} else {
					opTerm = g.App("ORemove", fmt.Sprint(di), g.Str(o.N), "true", "true", "false", fsTerm)
					res.status = errName(d.Remove(name))
				}
			case "rename":
				name2, ok := comp(o.N2)
				if !ok {
					return
				}
				dj := dir(o.D2)
				opTerm = g.App("ORename", fmt.Sprint(di), g.Str(o.N), fmt.Sprint(dj), g.Str(o.N2), fsTerm)
				_, _, s := d.VirtualRename(ctx, name, w.dirs[dj], name2)
				res.status = statusName(s)
			case "link":
				opTerm = g.App("OLink", fmt.Sprint(di), g.Str(o.N), fmt.Sprint(leafIdx), fsTerm)
				var a virtual.Attributes
				_, s := d.VirtualLink(ctx, name, leaf, virtual.AttributesMaskFileType, &a)
				res.status = statusName(s)
				if s == virtual.StatusOK {
					res.child = g.Some(w.childTerm(nil, leaf))
				}
			case "openself":
				opTerm = g.App("OOpenSelf", fmt.Sprint(leafIdx), g.Bool(o.Rd), g.Bool(o.Wr), g.Bool(o.Tr))
				var share virtual.ShareMask
				if o.Rd {
					share |= virtual.ShareMaskRead
				}
				if o.Wr {
					share |= virtual.ShareMaskWrite
				}
				var a virtual.Attributes
				s := leaf.VirtualOpenSelf(ctx, share, &virtual.OpenExistingOptions{Truncate: o.Tr}, virtual.AttributesMaskFileType, &a)
				res.status = statusName(s)
				if s == virtual.StatusOK {
					leaf.VirtualClose(share)
				}
			case "setattr":
				in := &virtual.Attributes{}
				at := "ASize"
				switch o.At {
				case 1:
					at = "APerm"
					in.SetPermissions(virtual.PermissionsRead | virtual.PermissionsWrite | virtual.PermissionsExecute)
				case 2:
					at = "AOwner"
					in.SetOwnerUserID(42)
				default:
					in.SetSizeBytes(1)
				}
				opTerm = g.App("OSetAttr", fmt.Sprint(leafIdx), at)
				var a virtual.Attributes
				res.status = statusName(leaf.VirtualSetAttributes(ctx, in, virtual.AttributesMaskFileType, &a))
			case "write":
				opTerm = g.App("OWrite", fmt.Sprint(leafIdx))
				_, s := leaf.VirtualWrite(ctx, []byte("overwritten"), 0)
				res.status = statusName(s)
			case "allocate":
				opTerm = g.App("OAllocate", fmt.Sprint(leafIdx))
				res.status = statusName(leaf.VirtualAllocate(ctx, 0, 16))
			case "read":
				opTerm = g.App("ORead", fmt.Sprint(leafIdx))
			default:
				err = fmt.Errorf("unknown op %q", o.K)
			}
		})
		if err != nil {
			return "", nil, err
		}
		if hang == "SHang" {
			return "", nil, fmt.Errorf("call %s did not return", o.K)
		}
		if opTerm == "" {
			continue
		}
		if hang == "SPanic" {
			res.status = "SPanic"
		}
		if isLeafOp {
			res.obs = g.Some(w.observe(leaf))
		} else {
			res.obs = "None"
		}
		info.Events++
		info.Ops[o.K]++
		info.Outs[res.status]++
		var fetches, links []string
		for _, f := range w.log {
			fetches = append(fetches, "("+digestTerm(f.k.h, f.k.s)+", "+f.res+")")
			if f.res == "FOk" {
				okFetches++
			} else {
				failedFetches++
			}
		}
		for i, l := range w.leaves {
			if i >= len(nlinkBefore) || nlinkBefore[i] != l.nlink {
				links = append(links, "("+fmt.Sprint(i)+", "+g.Z(int64(l.nlink))+")")
			}
		}
		casOK := w.puts == 0 && w.casSnapshot() == snapshot
		if isLeafOp && res.status != "SOK" {
			if _, local := leaf.LinkableLeaf.(localFile); !local {
				refused++
			}
		}
		ops = append(ops, opTerm)
		outs = append(outs, g.App("mkOut", res.status, res.child, g.List(res.entries), g.List(fetches),
			fmt.Sprint(len(w.dirs)), fmt.Sprint(len(w.leaves)), g.List(links), res.obs, g.Bool(casOK)))
		if len(w.dirs) > info.Extra["max_directories"] {
			info.Extra["max_directories"] = len(w.dirs)
		}
		if len(w.leaves) > info.Extra["max_leaves"] {
			info.Extra["max_leaves"] = len(w.leaves)
		}
	}
	info.Nontrivial = okFetches >= 3 && failedFetches >= 1 && refused >= 1
	return (g.App("mkCase", g.List(casTerms), g.List(blobTerms), g.List(ops), g.List(outs), w.identTerm(info))), info, nil
}

// identTerm prints what the stateless handle allocator was given: the
// digest function / instance name the keys are made with, (leaf, token) for
// every leaf created through it, and the distinct identity byte strings by
// token. It also counts what this history exercises of the identity.
func (w *world) identTerm(info *hcommon.Info) string {
	var idents, tab []string
	for _, e := range w.idents {
		idents = append(idents, "("+fmt.Sprint(e[0])+", "+g.N(uint64(e[1]))+")")
	}
	maxLen := 0
	for _, id := range w.idTab {
		var bs []string
		for _, c := range id {
			bs = append(bs, fmt.Sprint(int(c)))
		}
		if len(bs) == 0 {
			tab = append(tab, "[]")
		} else {
			tab = append(tab, g.List(bs)+"%N")
		}
		if len(id) > maxLen {
			maxLen = len(id)
		}
	}
	if len(w.idTab) > info.Extra["max_distinct_handle_identities"] {
		info.Extra["max_distinct_handle_identities"] = len(w.idTab)
	}
	if maxLen > info.Extra["max_handle_identity_bytes"] {
		info.Extra["max_handle_identity_bytes"] = maxLen
	}

	// Which pairs of leaves did lookups / listings show?
	type dk struct {
		h string
		s int64
	}
	created := map[int]bool{}
	for _, e := range w.idents {
		created[e[0]] = true
	}
	var shown []int
	for id := range w.kinds {
		if created[id] && len(w.shownIn[id]) > 0 {
			shown = append(shown, id)
		}
	}
	sort.Ints(shown)
	bothBits, bothBitsSameDir, bothBitsOtherDir, sameTwice := 0, 0, 0, 0
	for i, a := range shown {
		for _, b := range shown[i+1:] {
			ka, kb := w.kinds[a], w.kinds[b]
			if (dk{ka.h, ka.s}) != (dk{kb.h, kb.s}) {
				continue
			}
			if ka.x == kb.x {
				sameTwice++
				continue
			}
			bothBits++
			same, other := false, false
			for da := range w.shownIn[a] {
				for db := range w.shownIn[b] {
					if da == db {
						same = true
					} else {
						other = true
					}
				}
			}
			if same {
				bothBitsSameDir++
			}
			if other {
				bothBitsOtherDir++
			}
		}
	}
	count := func(key string, n int) {
		if n > 0 {
			info.Outs["ident:histories-"+key]++
		}
		if n > info.Extra["max_pairs_"+key] {
			info.Extra["max_pairs_"+key] = n
		}
	}
	count("shown-one-blob-both-executable-bits", bothBits)
	count("shown-both-bits-in-one-directory", bothBitsSameDir)
	count("shown-both-bits-in-different-directories", bothBitsOtherDir)
	count("shown-same-file-twice", sameTwice)
	if len(w.idents) > len(w.idTab) {
		info.Outs["ident:histories-identity-reused"]++
	}
	fn := fmt.Sprint(int(remoteexecution.DigestFunction_MD5))
	return g.App("mkIds", g.Str(fn), g.Str(digestFunction.GetInstanceName().String()), g.List(idents), g.List(tab))
}

// ---- cachingDirectoryFetcher -----------------------------------------------

type baseFetcher struct {
	dirs, roots map[string]*remoteexecution.Directory
	called      bool
}

func ikey(d digest.Digest) string {
	return d.GetInstanceName().String() + "|" + d.GetHashString() + "|" + fmt.Sprint(d.GetSizeBytes())
}

func (b *baseFetcher) GetDirectory(ctx context.Context, d digest.Digest) (*remoteexecution.Directory, error) {
	b.called = true
	if m, ok := b.dirs[ikey(d)]; ok {
		return m, nil
	}
	return nil, status.Error(codes.NotFound, "no such directory")
}

func (b *baseFetcher) GetTreeRootDirectory(ctx context.Context, t digest.Digest) (*remoteexecution.Directory, error) {
	b.called = true
	if m, ok := b.roots[ikey(t)]; ok {
		return m, nil
	}
	return nil, status.Error(codes.NotFound, "no such tree")
}

func (b *baseFetcher) GetTreeChildDirectory(ctx context.Context, t, d digest.Digest) (*remoteexecution.Directory, error) {
	b.called = true
	if m, ok := b.dirs[ikey(d)]; ok {
		return m, nil
	}
	return nil, status.Error(codes.NotFound, "no such directory")
}

func idigestTerm(d jidigest) string {
	return "(" + g.Str(d.I) + ", " + hashTerm(d.H) + ", " + g.Z(d.S) + ")"
}

func executeCache(h history, info *hcommon.Info) (string, *hcommon.Info, error) {
	ctx := context.Background()
	objects := map[int]*remoteexecution.Directory{}
	ids := map[*remoteexecution.Directory]int{}
	object := func(id int) *remoteexecution.Directory {
		if m, ok := objects[id]; ok {
			return m
		}
		m := &remoteexecution.Directory{}
		for i := 0; i <= id%5; i++ {
			m.Files = append(m.Files, &remoteexecution.FileNode{Name: fmt.Sprintf("f%d_%d", id, i)})
		}
		objects[id] = m
		ids[m] = id
		return m
	}
	base := &baseFetcher{dirs: map[string]*remoteexecution.Directory{}, roots: map[string]*remoteexecution.Directory{}}
	toDigest := func(d jidigest) (digest.Digest, error) {
		in, err := digest.NewInstanceName(d.I)
		if err != nil {
			return digest.BadDigest, err
		}
		f, err := in.GetDigestFunction(remoteexecution.DigestFunction_MD5, 0)
		if err != nil {
			return digest.BadDigest, err
		}
		return f.NewDigest(d.H, d.S)
	}
	var dirTerms, rootTerms []string
	for _, e := range h.Dirs {
		d, err := toDigest(e.D)
		if err != nil {
			return "", nil, err
		}
		if _, ok := base.dirs[ikey(d)]; !ok {
			base.dirs[ikey(d)] = object(e.ID)
		}
		dirTerms = append(dirTerms, "("+idigestTerm(e.D)+", "+fmt.Sprint(e.ID)+")")
	}
	for _, e := range h.Roots {
		d, err := toDigest(e.D)
		if err != nil {
			return "", nil, err
		}
		m := object(e.ID)
		if _, ok := base.roots[ikey(d)]; !ok {
			base.roots[ikey(d)] = m
		}
		rootTerms = append(rootTerms, "("+idigestTerm(e.D)+", ("+fmt.Sprint(e.ID)+", "+g.Z(int64(protoSize(m)))+"))")
	}
	format := digest.KeyWithoutInstance
	if h.Fmt {
		format = digest.KeyWithInstance
	}
	fetcher := cas.NewCachingDirectoryFetcher(base, format, h.MaxC, h.MaxS, newLRU())
	var ops, outs []string
	hits, misses := 0, 0
	for _, o := range h.Ops {
		var m *remoteexecution.Directory
		var err error
		var opTerm string
		base.called = false
		switch o.K {
		case "cdir":
			d, derr := toDigest(o.Dn)
			if derr != nil {
				continue
			}
			opTerm = g.App("CGetDir", idigestTerm(o.Dn))
			m, err = fetcher.GetDirectory(ctx, d)
		case "croot":
			t, derr := toDigest(o.Tn)
			if derr != nil {
				continue
			}
			opTerm = g.App("CGetRoot", idigestTerm(o.Tn))
			m, err = fetcher.GetTreeRootDirectory(ctx, t)
		case "cchild":
			t, derr := toDigest(o.Tn)
			d, derr2 := toDigest(o.Dn)
			if derr != nil || derr2 != nil {
				continue
			}
			opTerm = g.App("CGetChild", idigestTerm(o.Tn), idigestTerm(o.Dn))
			m, err = fetcher.GetTreeChildDirectory(ctx, t, d)
		default:
			continue
		}
		info.Events++
		info.Ops[o.K]++
		res := "None"
		if err == nil {
			id, ok := ids[m]
			if !ok {
				id = 99999
			}
			res = g.Some(fmt.Sprint(id))
			if base.called {
				misses++
				info.Outs["cache-miss"]++
			} else {
				hits++
				info.Outs["cache-hit"]++
			}
		} else {
			info.Outs["cache-error"]++
		}
		ops = append(ops, opTerm)
		outs = append(outs, "("+res+", "+g.Bool(base.called)+")")
	}
	info.Nontrivial = hits > 0 && misses > h.MaxC
	return (g.App("mkCacheCase", g.App("mkStore", g.List(dirTerms), g.List(rootTerms)), g.Bool(h.Fmt),
		fmt.Sprint(h.MaxC), g.Z(h.MaxS), g.List(ops), g.List(outs))), info, nil
}

func main() { hcommon.Main(area{}) }
