package main

import (
	remoteexecution "github.com/bazelbuild/remote-apis/build/bazel/remote/execution/v2"
	"github.com/buildbarn/bb-remote-execution/pkg/cas"
	"github.com/buildbarn/bb-storage/pkg/eviction"
	"google.golang.org/protobuf/proto"
)

func newLRU() cas.CachingDirectoryFetcherEvictionSet {
	return eviction.NewLRUSet[cas.CachingDirectoryFetcherKey]()
}

func protoSize(m *remoteexecution.Directory) int { return proto.Size(m) }
