// Failing-input search for the atomicity obligation repo_atomic_sections
// (C20/C14): when the generated obligation "OpenedFile.Lock tests and sets the
// byte-range lock table under one exclusive hold" no longer checks, a
// sequential history cannot exhibit the failure. This program looks for a
// concrete concurrent schedule instead: rounds of 2..4 LOCK requests by
// different lock-owners on one opened file, issued at the same moment through
// the public API (nfsv4.OpenedFile.Lock), on an empty lock table.
//
// Oracle (sound for every linearizable implementation of the table model
// LockSet/Model.v; LockSet/Properties.v: round_granted_never_conflict,
// round_denied_has_cause, round_first_granted -- for every order of the round): during a round the
// table only grows (no unlock runs), so in every sequential order of the
// requests
//
//	(a) two granted requests of different owners never conflict,
//	(b) every denied request conflicts with some granted request of another owner,
//	(c) the request linearized first is granted: at least one grant per round.
//
// A round whose results break (a), (b) or (c) has no sequential explanation.
//
// Half of the rounds line the requests up behind the mutex guarding the table
// (found by reflection: the sync.RWMutex/sync.Mutex field of OpenedFile named
// locksLock, else the first such field; when none is found these rounds run
// like the others): the requests queue at the entrance of the critical
// section and are released together. The other rounds start the requests from
// a closed channel only.
//
// Prints one JSON object; exit status 0 unless the program itself fails.
package main

import (
	"encoding/json"
	"flag"
	"fmt"
	"os"
	"reflect"
	"sync"
	"time"
	"unsafe"

	vnfs "github.com/buildbarn/bb-remote-execution/pkg/filesystem/virtual/nfsv4"
	"github.com/buildbarn/go-xdr/pkg/protocols/nfsv4"

	"verif/harness/internal/rng"
)

type request struct {
	Owner uint64 `json:"owner"`
	Off   uint64 `json:"off"`
	Len   uint64 `json:"len"`
	Excl  bool   `json:"excl"`
}

type result struct {
	Found    bool      `json:"found"`
	Rounds   int       `json:"rounds"`
	LinedUp  int       `json:"rounds_lined_up"`
	Gate     string    `json:"gate"`
	Round    int       `json:"round,omitempty"`
	Mode     string    `json:"mode,omitempty"`
	Requests []request `json:"requests,omitempty"`
	Granted  []bool    `json:"granted,omitempty"`
	Why      string    `json:"why,omitempty"`
	Seed     uint64    `json:"seed"`
	Wall     float64   `json:"wall_s"`
}

type locker interface {
	Lock()
	Unlock()
}

// gateOf finds the mutex guarding the lock table of an opened file.
func gateOf(of *vnfs.OpenedFile) (locker, string) {
	v := reflect.ValueOf(of).Elem()
	rw := reflect.TypeOf(sync.RWMutex{})
	mu := reflect.TypeOf(sync.Mutex{})
	pick := -1
	for i := 0; i < v.NumField(); i++ {
		ft := v.Type().Field(i)
		if ft.Type != rw && ft.Type != mu {
			continue
		}
		if ft.Name == "locksLock" {
			pick = i
			break
		}
		if pick < 0 {
			pick = i
		}
	}
	if pick < 0 {
		return nil, "none"
	}
	f := v.Field(pick)
	name := v.Type().Field(pick).Name
	if f.Type() == rw {
		return (*sync.RWMutex)(unsafe.Pointer(f.UnsafeAddr())), name
	}
	return (*sync.Mutex)(unsafe.Pointer(f.UnsafeAddr())), name
}

func conflict(a, b request) bool {
	if a.Owner == b.Owner || (!a.Excl && !b.Excl) {
		return false
	}
	return a.Off < b.Off+b.Len && b.Off < a.Off+a.Len
}

func judge(reqs []request, granted []bool) string {
	any := false
	for i := range reqs {
		if !granted[i] {
			continue
		}
		any = true
		for j := i + 1; j < len(reqs); j++ {
			if granted[j] && conflict(reqs[i], reqs[j]) {
				return fmt.Sprintf("requests %d and %d conflict (different owners, overlapping bytes, one exclusive) and were both granted", i, j)
			}
		}
	}
	if !any {
		return "no request of the round was granted although the table was empty"
	}
	for i := range reqs {
		if granted[i] {
			continue
		}
		ok := false
		for j := range reqs {
			if granted[j] && conflict(reqs[i], reqs[j]) {
				ok = true
			}
		}
		if !ok {
			return fmt.Sprintf("request %d was denied although it conflicts with no granted request", i)
		}
	}
	return ""
}

func main() {
	rounds := flag.Int("rounds", 4000, "maximum number of rounds")
	budget := flag.Float64("budget", 20, "seconds")
	maxn := flag.Int("maxn", 4, "maximum number of simultaneous requests per round")
	seed := flag.Uint64("seed", 20260923, "seed")
	flag.Parse()

	r := rng.New(*seed)
	pool := vnfs.NewOpenedFilesPool(nil)
	of := pool.Open(nfsv4.NfsFh4{0x76, 0x66}, nil)
	defer of.Close()
	gate, gateName := gateOf(of)

	t0 := time.Now()
	res := result{Seed: *seed, Gate: gateName}
	for round := 0; round < *rounds && time.Since(t0).Seconds() < *budget; round++ {
		n := 2 + r.Intn(*maxn-1)
		reqs := make([]request, n)
		owners := make([]*nfsv4.LockOwner4, n)
		for i := range reqs {
			reqs[i] = request{Owner: uint64(i + 1), Off: uint64(r.Intn(6)), Len: uint64(1 + r.Intn(8)), Excl: r.Chance(65)}
			owners[i] = &nfsv4.LockOwner4{Clientid: uint64(i + 1), Owner: []byte{byte('A' + i)}}
		}
		lined := gate != nil && round%2 == 0
		granted := make([]bool, n)
		start := make(chan struct{})
		var wg sync.WaitGroup
		if lined {
			gate.Lock()
			res.LinedUp++
		}
		for i := range reqs {
			wg.Add(1)
			go func(i int) {
				defer wg.Done()
				<-start
				lt := nfsv4.READ_LT
				if reqs[i].Excl {
					lt = nfsv4.WRITE_LT
				}
				_, lr := of.Lock(owners[i], reqs[i].Off, reqs[i].Len, lt)
				granted[i] = lr == nil // OpenedFile.Lock returns a nil result for NFS4_OK
			}(i)
		}
		close(start)
		if lined {
			time.Sleep(3 * time.Millisecond)
			// Release and take the gate again at once: the woken waiter, which has waited for more
			// than a millisecond, finds it taken and puts the mutex into starvation mode, so that
			// from here on every Unlock hands the mutex to the next queued request in FIFO order
			// and a request that unlocks and re-locks in mid-section goes to the back of the queue.
			gate.Unlock()
			gate.Lock()
			time.Sleep(200 * time.Microsecond)
			gate.Unlock()
		}
		done := make(chan struct{})
		go func() { wg.Wait(); close(done) }()
		select {
		case <-done:
		case <-time.After(20 * time.Second):
			res.Found, res.Round, res.Requests, res.Why = true, round, reqs, "LOCK requests did not return within 20 s"
			res.Rounds = round + 1
			goto out
		}
		res.Rounds = round + 1
		if why := judge(reqs, granted); why != "" {
			res.Found, res.Round, res.Requests, res.Granted, res.Why = true, round, reqs, granted, why
			res.Mode = "free-running"
			if lined {
				res.Mode = "lined up behind " + gateName
			}
			goto out
		}
		for _, o := range owners {
			of.UnlockAll(o)
		}
	}
out:
	res.Wall = time.Since(t0).Seconds()
	json.NewEncoder(os.Stdout).Encode(res)
}
