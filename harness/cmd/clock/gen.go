package main

import (
	"encoding/json"

	"verif/harness/internal/rng"
)

const (
	ns = int64(1)
	ms = 1000 * 1000 * ns
	s  = 1000 * ms
)

func pick(r *rng.R, xs []int64) int64 { return xs[r.Intn(len(xs))] }

// generate builds one history by running the implementation and choosing
// each next operation from what is currently possible (which goroutines
// are parked, which base timers are due).
func generate(r *rng.R, thorough bool, index int) json.RawMessage {
	var h history
	switch index % 20 {
	case 19:
		h.Thr = 0
	case 0, 1, 2:
		h.Thr = 1
	case 3, 4, 5:
		h.Thr = s
	case 6:
		h.Thr = 20 * s
	default:
		h.Thr = 100 * ms
	}
	h.Max = pick(r, []int64{0, 500 * ms, 2 * s, 2 * s, 3600 * s})
	n := 20 + r.Intn(51)
	if thorough {
		n = 40 + r.Intn(161)
	}
	timers := index%4 == 3 // a quarter of the histories also use NewTimer
	w := newWorld(h.Max, h.Thr)
	defer w.shutdown()

	timeouts := []int64{0, 1, h.Thr, h.Thr + 1, 500 * ms, s, 2500 * ms, 10 * s}
	genTimeout := func() int64 {
		if r.Chance(40) {
			return int64(r.Intn(101)) * 100 * ms
		}
		return pick(r, timeouts)
	}
	genLag := func() int64 {
		switch x := r.Intn(100); {
		case x < 45:
			return 0
		case x < 60:
			return 1
		case x < 80:
			return int64(r.Intn(20)) * 50 * ms
		default:
			return 1 << 50 // the base timer fired exactly at its deadline
		}
	}
	genAdvance := func() int64 {
		now := w.fc.now
		var cands []int64
		add := func(target int64) {
			if target > now && target-now <= 20*s {
				d := target - now
				cands = append(cands, d, d, d+1, d+h.Thr, d+50*ms)
				if d > 1 {
					cands = append(cands, d-1)
				}
			}
		}
		for _, c := range w.ctxs {
			if c.state == stArmed {
				add(c.timer.deadline)
			}
			if c.state != stGone {
				add(c.base.deadline)
			}
		}
		for _, t := range w.tmrs {
			if t.state == stArmed {
				add(t.cur.deadline)
				add(t.maxT.deadline)
			}
		}
		if len(cands) > 0 && r.Chance(55) {
			return pick(r, cands)
		}
		switch x := r.Intn(100); {
		case x < 10:
			return 0
		case x < 20:
			return 1
		case x < 35:
			return h.Thr
		case x < 45:
			if h.Thr > 1 {
				return h.Thr - 1
			}
			return 100 * ms
		case x < 75:
			return int64(r.Intn(31)) * 100 * ms
		default:
			return int64(r.Intn(3000)) * ms
		}
	}

	for len(h.Ops) < n {
		now := w.fc.now
		var parkedC, dueC, liveC, parkedT, dueT, dueMax, liveT []int
		for i, c := range w.ctxs {
			switch c.state {
			case stParked:
				parkedC = append(parkedC, i)
			case stArmed:
				if c.timer.deadline <= now {
					dueC = append(dueC, i)
				}
			}
			if c.state != stGone {
				liveC = append(liveC, i)
			}
		}
		for i, t := range w.tmrs {
			switch t.state {
			case stParked:
				parkedT = append(parkedT, i)
			case stArmed:
				if t.cur.deadline <= now {
					dueT = append(dueT, i)
				}
				if t.maxT.deadline <= now {
					dueMax = append(dueMax, i)
				}
			}
			if t.state != stGone {
				liveT = append(liveT, i)
			}
		}
		anyIdx := func(live []int, total int) int {
			if len(live) > 0 && r.Chance(85) {
				return live[r.Intn(len(live))]
			}
			return r.Intn(total + 1)
		}
		var o op
		x := r.Intn(100)
		switch {
		case len(parkedC) > 0 && r.Chance(55):
			o = op{K: "arm", I: parkedC[r.Intn(len(parkedC))]}
		case len(parkedT) > 0 && r.Chance(55):
			o = op{K: "tarm", I: parkedT[r.Intn(len(parkedT))]}
		case len(dueC) > 0 && r.Chance(50):
			o = op{K: "fire", I: dueC[r.Intn(len(dueC))], Lag: genLag()}
		case len(dueT) > 0 && r.Chance(50):
			o = op{K: "tfire", I: dueT[r.Intn(len(dueT))], Lag: genLag()}
		case len(dueMax) > 0 && r.Chance(30):
			o = op{K: "tmax", I: dueMax[r.Intn(len(dueMax))], Lag: genLag()}
		case x < 28:
			o = op{K: "adv", Dt: genAdvance()}
		case x < 40:
			if w.susp < 6 {
				o = op{K: "sus"}
			} else {
				o = op{K: "res"}
			}
		case x < 52:
			if w.susp > 0 || r.Chance(8) {
				o = op{K: "res"}
			} else {
				o = op{K: "adv", Dt: genAdvance()}
			}
		case x < 62:
			if timers && len(liveT) < 2 && r.Chance(50) {
				o = op{K: "tnew", D: genTimeout()}
			} else if len(liveC) < 3 {
				o = op{K: "new", D: genTimeout()}
			} else {
				o = op{K: "adv", Dt: genAdvance()}
			}
		case x < 66:
			o = op{K: "cancel", I: anyIdx(liveC, len(w.ctxs))}
		case x < 71:
			o = op{K: "expire", I: anyIdx(liveC, len(w.ctxs))}
		case x < 83:
			o = op{K: "stor", M: storageMethods[r.Intn(len(storageMethods))], Fail: r.Chance(30), Lazy: r.Chance(40), Disc: r.Chance(30),
				Dt: pick(r, []int64{0, 1, 50 * ms, h.Thr, 300 * ms, s, int64(r.Intn(50)) * 100 * ms})}
		case x < 86:
			// operations that are usually not enabled
			switch r.Intn(4) {
			case 0:
				o = op{K: "fire", I: r.Intn(4), Lag: genLag()}
			case 1:
				o = op{K: "arm", I: r.Intn(4)}
			case 2:
				o = op{K: "tfire", I: r.Intn(3), Lag: genLag()}
			default:
				o = op{K: "tmax", I: r.Intn(3), Lag: genLag()}
			}
		case x < 90 && timers:
			o = op{K: "tstop", I: anyIdx(liveT, len(w.tmrs))}
		default:
			o = op{K: "adv", Dt: genAdvance()}
		}
		if _, _, _, err := w.apply(o); err != nil {
			// keep the operation: Execute will report the same error
			h.Ops = append(h.Ops, o)
			break
		}
		h.Ops = append(h.Ops, o)
	}
	data, _ := json.Marshal(h)
	return data
}
