// Harness for C11: drives the real SuspendableClock (contexts with
// timeouts, timers) over a fake base clock whose time, timers and contexts
// are under the control of this program, and the real suspending
// BlobAccess / DirectoryFetcher decorators over a scripted base. Every
// goroutine of the code under study is, at any moment, either parked
// inside the fake NewTimer, asleep in its select, or gone; the controller
// releases one at a time and waits for it to park again or to finish.
package main

import (
	"context"
	"encoding/json"
	"errors"
	"fmt"
	"time"

	re_clock "github.com/buildbarn/bb-remote-execution/pkg/clock"
	"github.com/buildbarn/bb-storage/pkg/clock"

	g "verif/harness/internal/gallina"
	"verif/harness/internal/hcommon"
	"verif/harness/internal/rng"
)

const watchdog = 10 * time.Second

type op struct {
	K    string `json:"k"`            // adv sus res new arm fire cancel expire stor tnew tarm tfire tmax tstop
	Dt   int64  `json:"dt,omitempty"` // adv, stor: ns
	D    int64  `json:"d,omitempty"`  // new, tnew: timeout in ns
	I    int    `json:"i,omitempty"`  // object index (modulo the number of objects of that kind)
	Lag  int64  `json:"lag,omitempty"` // fire: the value delivered is max(deadline, now-lag)
	M    string `json:"m,omitempty"`  // stor: method
	Fail bool   `json:"fail,omitempty"`
	Lazy bool   `json:"lazy,omitempty"`
	Disc bool   `json:"disc,omitempty"` // stor Get: Discard() instead of ToByteSlice()
}

type history struct {
	Max int64 `json:"max"` // maximumSuspension, ns
	Thr int64 `json:"thr"` // timeoutThreshold, ns
	Ops []op  `json:"ops"`
}

const (
	stParked = iota
	stArmed
	stGone
)

type ctxObj struct {
	ctx    context.Context
	cancel context.CancelFunc
	base   *fakeCtx
	state  int
	timer  *fakeTimer
}

type tmrObj struct {
	timer   clock.Timer
	result  <-chan time.Time
	maxT    *fakeTimer
	state   int
	cur     *fakeTimer
	stopReq bool
}

type world struct {
	fc   *fakeClock
	sc   *re_clock.SuspendableClock
	ctxs []*ctxObj
	tmrs []*tmrObj
	susp int // controller's own nesting count (generator guidance only)
}

func newWorld(max, thr int64) *world {
	fc := newFakeClock()
	return &world{fc: fc, sc: re_clock.NewSuspendableClock(fc, time.Duration(max), time.Duration(thr))}
}

// shutdown releases every goroutine still owned by the code under study.
func (w *world) shutdown() {
	for _, o := range w.ctxs {
		o.cancel()
		if o.state == stParked {
			close(o.timer.release)
		}
		if o.state != stGone {
			select {
			case <-o.ctx.Done():
			case <-time.After(watchdog):
			}
		}
	}
	for _, o := range w.tmrs {
		o.timer.Stop()
		if o.state == stParked {
			close(o.cur.release)
		}
	}
}

func errTerm(err error) (string, error) {
	switch {
	case err == nil:
		return "ENone", nil
	case errors.Is(err, context.Canceled):
		return "ECanceled", nil
	case errors.Is(err, context.DeadlineExceeded):
		return "EDeadline", nil
	}
	return "", fmt.Errorf("unexpected context error %v", err)
}

// waitCtx waits until the goroutine of o is parked in the fake NewTimer or
// has closed the Done() channel.
func (w *world) waitCtx(o *ctxObj) (string, string, error) {
	select {
	case t := <-w.fc.parked:
		o.state, o.timer = stParked, t
		return g.App("ORearm", g.Z(int64(t.req))), "rearm", nil
	case <-o.ctx.Done():
		o.state = stGone
		e, err := errTerm(o.ctx.Err())
		if err != nil {
			return "", "", err
		}
		dur, ok := o.ctx.Value(re_clock.UnsuspendedDurationKey{}).(time.Duration)
		if !ok {
			return "", "", errors.New("Value(UnsuspendedDurationKey{}) is not a time.Duration")
		}
		return g.App("ODone", e, g.Z(int64(dur))), "done-" + e, nil
	case <-time.After(watchdog):
		return "", "", errors.New("watchdog: context goroutine neither parked nor finished")
	}
}

func bool2(b bool) string { return g.Bool(b) }

// finishTmr is called when the goroutine of o has signalled its end.
func (w *world) finishTmr(o *tmrObj) (delivered bool, term string) {
	o.state = stGone
	select {
	case v := <-o.result:
		return true, g.App("ODeliver", g.Z(v.UnixNano()), bool2(o.maxT.stopped.Load()), bool2(o.cur.stopped.Load()))
	default:
		return false, ""
	}
}

func (w *world) waitTmr(o *tmrObj, stopBranch bool) (string, string, error) {
	if stopBranch {
		// the stop branch ends with baseTimer.Stop()
		select {
		case <-o.cur.stopSig:
			if d, term := w.finishTmr(o); d {
				return term, "deliver-after-stop", nil
			}
			return "", "gone", nil
		case v := <-o.result:
			o.state = stGone
			return g.App("ODeliver", g.Z(v.UnixNano()), bool2(o.maxT.stopped.Load()), bool2(o.cur.stopped.Load())), "deliver-after-stop", nil
		case <-time.After(watchdog):
			return "", "", errors.New("watchdog: timer goroutine did not take the stop branch")
		}
	}
	select {
	case t := <-w.fc.parked:
		o.state, o.cur = stParked, t
		return g.App("ORearm", g.Z(int64(t.req))), "trearm", nil
	case v := <-o.result:
		o.state = stGone
		return g.App("ODeliver", g.Z(v.UnixNano()), bool2(o.maxT.stopped.Load()), bool2(o.cur.stopped.Load())), "deliver", nil
	case <-time.After(watchdog):
		return "", "", errors.New("watchdog: timer goroutine neither parked nor delivered")
	}
}

var skindTerm = map[string]string{
	"Get": "KGet", "GetFromComposite": "KGetFromComposite", "Put": "KPut", "FindMissing": "KFindMissing",
	"GetCapabilities": "KGetCapabilities", "GetDirectory": "KGetDirectory",
	"GetTreeRootDirectory": "KGetTreeRootDirectory", "GetTreeChildDirectory": "KGetTreeChildDirectory",
}

func clampFire(deadline, now, lag int64) int64 {
	tf := now - lag
	if lag < 0 || tf > now {
		tf = now
	}
	if tf < deadline {
		tf = deadline
	}
	return tf
}

// apply runs one operation; returns the Gallina event, the Gallina output
// and a tag for the outcome histogram.
func (w *world) apply(o op) (ev, out, tag string, err error) {
	out, tag = "ONone", "none"
	now := w.fc.now
	switch o.K {
	case "adv":
		if o.Dt < 0 {
			o.Dt = 0
		}
		w.fc.now += o.Dt
		ev = g.App("Advance", g.N(uint64(o.Dt)))
	case "sus":
		w.sc.Suspend()
		w.susp++
		ev = "Suspend"
	case "res":
		ev = "Resume"
		func() {
			defer func() {
				if r := recover(); r != nil {
					out, tag = "OPanic", "panic"
				}
			}()
			w.sc.Resume()
			w.susp--
		}()
	case "new":
		ev = g.App("NewCtx", g.Z(o.D))
		w.fc.lastCtx = nil
		ctx, cancel := w.sc.NewContextWithTimeout(context.Background(), time.Duration(o.D))
		base := w.fc.lastCtx
		if base == nil {
			return "", "", "", errors.New("NewContextWithTimeout did not create a base context")
		}
		c := &ctxObj{ctx: ctx, cancel: cancel, base: base}
		w.ctxs = append(w.ctxs, c)
		select {
		case t := <-w.fc.parked:
			c.state, c.timer = stParked, t
			out, tag = g.App("ONew", g.Z(int64(base.req)), g.Z(int64(t.req))), "new"
		case <-time.After(watchdog):
			return "", "", "", errors.New("watchdog: new context goroutine did not request a timer")
		}
	case "arm", "fire", "cancel", "expire":
		id := 0
		if len(w.ctxs) > 0 {
			id = o.I % len(w.ctxs)
			if id < 0 {
				id += len(w.ctxs)
			}
		}
		switch o.K {
		case "arm":
			ev = g.App("Arm", g.Nat(id))
		case "fire":
			ev = g.App("Fire", g.Nat(id), g.Z(clampFire(now, now, o.Lag)))
		case "cancel":
			ev = g.App("Cancel", g.Nat(id))
		case "expire":
			ev = g.App("BaseExpire", g.Nat(id))
		}
		if len(w.ctxs) == 0 {
			break
		}
		c := w.ctxs[id]
		switch o.K {
		case "arm":
			if c.state != stParked {
				break
			}
			c.timer.deadline = now + int64(c.timer.req)
			baseDone := c.base.Err() != nil
			c.state = stArmed
			close(c.timer.release)
			if baseDone {
				out, tag, err = w.waitCtx(c)
			}
		case "fire":
			if c.state != stArmed || c.timer.deadline > now {
				break
			}
			tf := clampFire(c.timer.deadline, now, o.Lag)
			ev = g.App("Fire", g.Nat(id), g.Z(tf))
			c.timer.fired.Store(true)
			c.timer.ch <- time.Unix(0, tf)
			out, tag, err = w.waitCtx(c)
		case "cancel":
			c.cancel()
			if c.state == stArmed {
				out, tag, err = w.waitCtx(c)
			}
		case "expire":
			if c.base.deadline > now {
				break
			}
			c.base.stop(context.DeadlineExceeded)
			if c.state == stArmed {
				out, tag, err = w.waitCtx(c)
			}
		}
	case "stor":
		k, ok := skindTerm[o.M]
		if !ok {
			return "", "", "", fmt.Errorf("unknown storage method %q", o.M)
		}
		if o.Dt < 0 {
			o.Dt = 0
		}
		ev = g.App("Storage", k, g.Bool(o.Fail), g.Bool(o.Lazy), g.N(uint64(o.Dt)))
		sb, rb, st, rt, serr := storageCall(w.fc, w.sc, o.M, o.Fail, o.Lazy, o.Dt, o.Disc)
		if serr != nil {
			return "", "", "", serr
		}
		out, tag = g.App("OStor", g.N(sb), g.N(rb), g.N(st), g.N(rt)), "stor"
	case "tnew":
		ev = g.App("TNew", g.Z(o.D))
		w.fc.lastImmediate = nil
		timer, result := w.sc.NewTimer(time.Duration(o.D))
		maxT := w.fc.lastImmediate
		if maxT == nil {
			return "", "", "", errors.New("NewTimer did not create a maximum suspension timer")
		}
		t := &tmrObj{timer: timer, result: result, maxT: maxT}
		w.tmrs = append(w.tmrs, t)
		select {
		case p := <-w.fc.parked:
			t.state, t.cur = stParked, p
			out, tag = g.App("ONew", g.Z(int64(maxT.req)), g.Z(int64(p.req))), "tnew"
		case <-time.After(watchdog):
			return "", "", "", errors.New("watchdog: new timer goroutine did not request a timer")
		}
	case "tarm", "tfire", "tmax", "tstop":
		id := 0
		if len(w.tmrs) > 0 {
			id = o.I % len(w.tmrs)
			if id < 0 {
				id += len(w.tmrs)
			}
		}
		switch o.K {
		case "tarm":
			ev = g.App("TArm", g.Nat(id))
		case "tfire":
			ev = g.App("TFire", g.Nat(id), g.Z(clampFire(now, now, o.Lag)))
		case "tmax":
			ev = g.App("TMaxFire", g.Nat(id), g.Z(clampFire(now, now, o.Lag)))
		case "tstop":
			ev = g.App("TStop", g.Nat(id))
		}
		if len(w.tmrs) == 0 {
			break
		}
		t := w.tmrs[id]
		switch o.K {
		case "tarm":
			if t.state != stParked {
				break
			}
			t.cur.deadline = now + int64(t.cur.req)
			t.state = stArmed
			close(t.cur.release)
			if t.stopReq {
				out, tag, err = w.waitTmr(t, true)
				if err == nil && out == "" {
					out = "OTGone"
				}
			}
		case "tfire":
			if t.state != stArmed || t.cur.deadline > now {
				break
			}
			tf := clampFire(t.cur.deadline, now, o.Lag)
			ev = g.App("TFire", g.Nat(id), g.Z(tf))
			t.cur.fired.Store(true)
			t.cur.ch <- time.Unix(0, tf)
			out, tag, err = w.waitTmr(t, false)
		case "tmax":
			if t.state != stArmed || t.maxT.deadline > now || t.maxT.stopped.Load() {
				break
			}
			tf := clampFire(t.maxT.deadline, now, o.Lag)
			ev = g.App("TMaxFire", g.Nat(id), g.Z(tf))
			t.maxT.fired.Store(true)
			t.maxT.ch <- time.Unix(0, tf)
			out, tag, err = w.waitTmr(t, false)
		case "tstop":
			ret := t.timer.Stop()
			gone := false
			tag = "tstop-false"
			if ret {
				tag = "tstop-true"
				switch t.state {
				case stArmed:
					var term string
					term, _, err = w.waitTmr(t, true)
					if err == nil && term != "" {
						// a value was delivered although Stop() returned true
						out, tag = term, "deliver-after-stop"
						return ev, out, tag, nil
					}
					gone = t.maxT.stopped.Load() && t.cur.stopped.Load()
				case stParked:
					t.stopReq = true
				}
			}
			out = g.App("OTStop", g.Bool(ret), g.Bool(gone))
		}
	default:
		return "", "", "", fmt.Errorf("unknown op %q", o.K)
	}
	if err != nil {
		return "", "", "", err
	}
	// Nothing may have happened behind the controller's back.
	for i, c := range w.ctxs {
		if c.state != stGone {
			select {
			case <-c.ctx.Done():
				return "", "", "", fmt.Errorf("context %d became done without being released", i)
			default:
			}
		}
	}
	for i, t := range w.tmrs {
		select {
		case <-t.result:
			return "", "", "", fmt.Errorf("timer %d delivered a value without being released", i)
		default:
		}
	}
	return ev, out, tag, nil
}

type area struct{}

func (area) Requires() string {
	return "From VF Require Import Common.Verdict Clock.Model Clock.Corr.\nOpen Scope Z_scope."
}
func (area) Check() string { return "check_case" }
func (area) Rule() string {
	return "timelines of 20-70 events (thorough: up to 200) over one SuspendableClock on a fake base clock: Advance (to/through armed deadlines, threshold-sized, 0, 1ns, random), Suspend/Resume nested up to 6 (rare Resume at 0), up to 3 concurrent contexts and 2 timers (timeouts from {0,1ns,threshold,threshold+1,0.5s,1s,2.5s,10s, random multiple of 100ms <= 10s}), parked-goroutine release (Arm), base timer firing with value in [deadline, now] (lateness and processing lag), Cancel, base-context expiry, maximum suspension timer firing, Stop, and storage calls through the 8 suspending decorator methods (ok/fail, eager/lazy buffers); configuration classes: threshold in {0 (5%), 1ns, 100ms, 1s, 20s > every timeout}, maximumSuspension in {0, 500ms, 2s, 1h}; the generator steers by running the implementation; non-trivial = at least one loop iteration re-armed (a suspension was compensated) and at least one context or timer completed; distinct by hash of the full case term"
}

func (area) Generate(r *rng.R, thorough bool, index int) json.RawMessage {
	return generate(r, thorough, index)
}

func (area) Execute(raw json.RawMessage) (term string, info *hcommon.Info, err error) {
	var h history
	if err := json.Unmarshal(raw, &h); err != nil {
		return "", nil, err
	}
	info = hcommon.NewInfo()
	w := newWorld(h.Max, h.Thr)
	defer w.shutdown()
	var evs, outs []string
	rearmed, completed := false, false
	for i, o := range h.Ops {
		ev, out, tag, err := w.apply(o)
		if err != nil {
			return "", nil, fmt.Errorf("op %d (%s): %w", i, o.K, err)
		}
		info.Events++
		info.Ops[o.K]++
		info.Outs[tag]++
		if tag == "rearm" || tag == "trearm" {
			rearmed = true
		}
		if tag == "done-EDeadline" || tag == "done-ECanceled" || tag == "deliver" {
			completed = true
		}
		evs = append(evs, ev)
		outs = append(outs, out)
	}
	if len(w.ctxs) > info.Extra["max_contexts"] {
		info.Extra["max_contexts"] = len(w.ctxs)
	}
	if len(w.tmrs) > info.Extra["max_timers"] {
		info.Extra["max_timers"] = len(w.tmrs)
	}
	info.Nontrivial = rearmed && completed
	cfg := g.App("mkCfg", g.Z(h.Max), g.Z(h.Thr))
	return g.App("mkCase", cfg, g.List(evs), g.List(outs)), info, nil
}

func main() { hcommon.Main(area{}) }
