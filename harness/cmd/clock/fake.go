package main

import (
	"context"
	"runtime"
	"strconv"
	"strings"
	"sync"
	"sync/atomic"
	"time"

	"github.com/buildbarn/bb-storage/pkg/clock"
)

// goid returns the id of the calling goroutine (parsed from runtime.Stack).
func goid() uint64 {
	var buf [64]byte
	n := runtime.Stack(buf[:], false)
	s := strings.TrimPrefix(string(buf[:n]), "goroutine ")
	if i := strings.IndexByte(s, ' '); i >= 0 {
		s = s[:i]
	}
	id, _ := strconv.ParseUint(s, 10, 64)
	return id
}

// fakeClock is the base clock under the SuspendableClock. Time is an
// integer number of nanoseconds since time.Unix(0, 0) and only moves when
// the controller says so. NewTimer called by the controller goroutine
// (SuspendableClock.NewTimer's maximum suspension timer) returns at once;
// NewTimer called by any other goroutine (the re-arm loops) reports the
// request to the controller and parks until the controller arms it.
type fakeClock struct {
	now        int64
	controller uint64
	parked     chan *fakeTimer

	lastCtx       *fakeCtx   // most recent NewContextWithTimeout
	lastImmediate *fakeTimer // most recent NewTimer by the controller
}

var _ clock.Clock = (*fakeClock)(nil)

func newFakeClock() *fakeClock {
	return &fakeClock{controller: goid(), parked: make(chan *fakeTimer, 16)}
}

func (f *fakeClock) Now() time.Time { return time.Unix(0, f.now) }

func (f *fakeClock) NewContextWithTimeout(parent context.Context, timeout time.Duration) (context.Context, context.CancelFunc) {
	c := &fakeCtx{parent: parent, req: timeout, deadline: f.now + int64(timeout), done: make(chan struct{})}
	f.lastCtx = c
	return c, func() { c.stop(context.Canceled) }
}

func (f *fakeClock) NewTimer(d time.Duration) (clock.Timer, <-chan time.Time) {
	t := &fakeTimer{req: d, ch: make(chan time.Time, 1), release: make(chan struct{}), stopSig: make(chan struct{}, 1)}
	if goid() == f.controller {
		t.deadline = f.now + int64(d)
		t.immediate = true
		f.lastImmediate = t
		return t, t.ch
	}
	f.parked <- t
	<-t.release
	return t, t.ch
}

func (f *fakeClock) NewTicker(d time.Duration) (clock.Ticker, <-chan time.Time) {
	panic("NewTicker is not used by the code under study")
}

type fakeTimer struct {
	req       time.Duration
	deadline  int64 // set by the controller when it arms the timer
	immediate bool
	ch        chan time.Time
	release   chan struct{}
	stopped   atomic.Bool
	fired     atomic.Bool
	stopSig   chan struct{}
}

func (t *fakeTimer) Stop() bool {
	first := !t.stopped.Swap(true)
	select {
	case t.stopSig <- struct{}{}:
	default:
	}
	return first && !t.fired.Load()
}

// fakeCtx is the base context handed to the SuspendableClock; the
// controller cancels or expires it.
type fakeCtx struct {
	parent   context.Context
	req      time.Duration
	deadline int64

	mu   sync.Mutex
	err  error
	done chan struct{}
}

func (c *fakeCtx) Deadline() (time.Time, bool) { return time.Unix(0, c.deadline), true }
func (c *fakeCtx) Done() <-chan struct{}       { return c.done }
func (c *fakeCtx) Err() error {
	c.mu.Lock()
	defer c.mu.Unlock()
	return c.err
}
func (c *fakeCtx) Value(key interface{}) interface{} { return c.parent.Value(key) }

func (c *fakeCtx) stop(err error) {
	c.mu.Lock()
	defer c.mu.Unlock()
	if c.err == nil {
		c.err = err
		close(c.done)
	}
}
