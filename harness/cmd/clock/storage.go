package main

import (
	"bytes"
	"context"
	"crypto/sha256"
	"encoding/hex"
	"errors"
	"fmt"
	"io"

	remoteexecution "github.com/bazelbuild/remote-apis/build/bazel/remote/execution/v2"
	re_blobstore "github.com/buildbarn/bb-remote-execution/pkg/blobstore"
	"github.com/buildbarn/bb-remote-execution/pkg/cas"
	re_clock "github.com/buildbarn/bb-remote-execution/pkg/clock"
	"github.com/buildbarn/bb-storage/pkg/blobstore/buffer"
	"github.com/buildbarn/bb-storage/pkg/blobstore/slicing"
	"github.com/buildbarn/bb-storage/pkg/digest"
)

var storageMethods = []string{
	"Get", "GetFromComposite", "Put", "FindMissing", "GetCapabilities",
	"GetDirectory", "GetTreeRootDirectory", "GetTreeChildDirectory",
}

var errScripted = errors.New("scripted storage failure")

var (
	blobData   = []byte("hello")
	blobDigest = func() digest.Digest {
		sum := sha256.Sum256(blobData)
		return digest.MustNewDigest("verif", remoteexecution.DigestFunction_SHA256, hex.EncodeToString(sum[:]), int64(len(blobData)))
	}()
)

// loggingSuspendable forwards to the real SuspendableClock and counts.
type loggingSuspendable struct {
	base     re_clock.Suspendable
	suspends uint64
	resumes  uint64
}

func (l *loggingSuspendable) Suspend() { l.suspends++; l.base.Suspend() }
func (l *loggingSuspendable) Resume()  { l.resumes++; l.base.Resume() }

// fakeStorage is the base BlobAccess / DirectoryFetcher: every call takes
// dt on the fake clock and succeeds or fails by script.
type fakeStorage struct {
	fc   *fakeClock
	log  *loggingSuspendable
	dt   int64
	fail bool
	lazy bool

	calls           int
	suspendsAtEntry uint64
	resumesAtExit   uint64
}

func (s *fakeStorage) enter() {
	s.calls++
	s.suspendsAtEntry = s.log.suspends
	s.fc.now += s.dt
}
func (s *fakeStorage) exit() { s.resumesAtExit = s.log.resumes }

type failingReader struct{}

func (failingReader) Read(p []byte) (int, error) { return 0, errScripted }
func (failingReader) Close() error               { return nil }

func (s *fakeStorage) get() buffer.Buffer {
	s.enter()
	defer s.exit()
	switch {
	case s.lazy && s.fail:
		return buffer.NewCASBufferFromReader(blobDigest, failingReader{}, buffer.UserProvided)
	case s.lazy:
		return buffer.NewCASBufferFromReader(blobDigest, io.NopCloser(bytes.NewReader(blobData)), buffer.UserProvided)
	case s.fail:
		return buffer.NewBufferFromError(errScripted)
	default:
		return buffer.NewValidatedBufferFromByteSlice(blobData)
	}
}

func (s *fakeStorage) result() error {
	if s.fail {
		return errScripted
	}
	return nil
}

func (s *fakeStorage) Get(ctx context.Context, d digest.Digest) buffer.Buffer { return s.get() }
func (s *fakeStorage) GetFromComposite(ctx context.Context, parent, child digest.Digest, slicer slicing.BlobSlicer) buffer.Buffer {
	return s.get()
}
func (s *fakeStorage) Put(ctx context.Context, d digest.Digest, b buffer.Buffer) error {
	s.enter()
	defer s.exit()
	b.Discard()
	return s.result()
}
func (s *fakeStorage) FindMissing(ctx context.Context, digests digest.Set) (digest.Set, error) {
	s.enter()
	defer s.exit()
	return digest.EmptySet, s.result()
}
func (s *fakeStorage) GetCapabilities(ctx context.Context, instanceName digest.InstanceName) (*remoteexecution.ServerCapabilities, error) {
	s.enter()
	defer s.exit()
	return &remoteexecution.ServerCapabilities{}, s.result()
}
func (s *fakeStorage) GetDirectory(ctx context.Context, d digest.Digest) (*remoteexecution.Directory, error) {
	s.enter()
	defer s.exit()
	return &remoteexecution.Directory{}, s.result()
}
func (s *fakeStorage) GetTreeRootDirectory(ctx context.Context, d digest.Digest) (*remoteexecution.Directory, error) {
	s.enter()
	defer s.exit()
	return &remoteexecution.Directory{}, s.result()
}
func (s *fakeStorage) GetTreeChildDirectory(ctx context.Context, t, c digest.Digest) (*remoteexecution.Directory, error) {
	s.enter()
	defer s.exit()
	return &remoteexecution.Directory{}, s.result()
}

// storageCall performs one call through the real suspending decorator and
// returns (suspends seen when the base call started, resumes seen when it
// ended, suspends and resumes in total once the result has been consumed).
func storageCall(fc *fakeClock, sc re_clock.Suspendable, method string, fail, lazy bool, dt int64, discard bool) (sb, rb, st, rt uint64, err error) {
	log := &loggingSuspendable{base: sc}
	fs := &fakeStorage{fc: fc, log: log, dt: dt, fail: fail, lazy: lazy}
	ba := re_blobstore.NewSuspendingBlobAccess(fs, log)
	df := cas.NewSuspendingDirectoryFetcher(fs, log)
	ctx := context.Background()
	var callErr error
	consume := func(b buffer.Buffer) {
		if discard {
			b.Discard()
			if fail {
				callErr = errScripted
			}
		} else {
			_, callErr = b.ToByteSlice(1 << 20)
		}
	}
	switch method {
	case "Get":
		consume(ba.Get(ctx, blobDigest))
	case "GetFromComposite":
		consume(ba.GetFromComposite(ctx, blobDigest, blobDigest, nil))
	case "Put":
		callErr = ba.Put(ctx, blobDigest, buffer.NewValidatedBufferFromByteSlice(blobData))
	case "FindMissing":
		_, callErr = ba.FindMissing(ctx, blobDigest.ToSingletonSet())
	case "GetCapabilities":
		_, callErr = ba.GetCapabilities(ctx, blobDigest.GetInstanceName())
	case "GetDirectory":
		_, callErr = df.GetDirectory(ctx, blobDigest)
	case "GetTreeRootDirectory":
		_, callErr = df.GetTreeRootDirectory(ctx, blobDigest)
	case "GetTreeChildDirectory":
		_, callErr = df.GetTreeChildDirectory(ctx, blobDigest, blobDigest)
	default:
		return 0, 0, 0, 0, fmt.Errorf("unknown storage method %q", method)
	}
	if fs.calls != 1 {
		return 0, 0, 0, 0, fmt.Errorf("storage method %s reached the base %d times", method, fs.calls)
	}
	if (callErr != nil) != fail {
		return 0, 0, 0, 0, fmt.Errorf("storage method %s: error %v, scripted failure %v", method, callErr, fail)
	}
	return fs.suspendsAtEntry, fs.resumesAtExit, log.suspends, log.resumes, nil
}
