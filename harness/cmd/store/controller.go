package main

// Goroutine controller for the mutable proto store harness.
//
// Every BlobAccess.Get/Put issued by the code under test parks inside the
// fake until the harness releases exactly that call.  After each action of
// the harness (spawning a Get, releasing one parked call) the harness waits
// for quiescence: a stop-the-world snapshot of all goroutines
// (runtime.Stack(all)) in which every goroutine other than the harness is
// blocked on a channel / mutex / wait group.  In such a state nothing can
// move until the harness acts, so the interleaving is decided by the
// history alone: no sleeps, no reliance on the Go scheduler.

import (
	"bytes"
	"fmt"
	"runtime"
	"sync"
	"time"
)

type call struct {
	gid     int      // which store.Get issued it (from the context)
	method  string   // "get" or "put"
	d       int      // digest index
	payload []uint64 // tokens of the message being written (put)
	resume  chan bool
}

type controller struct {
	mu     sync.Mutex
	parked []*call
}

func (c *controller) park(cl *call) bool {
	cl.resume = make(chan bool)
	c.mu.Lock()
	c.parked = append(c.parked, cl)
	c.mu.Unlock()
	return <-cl.resume
}

// take removes and returns the parked calls matching pred, in a canonical
// order (gid, method, digest, payload) that does not depend on arrival.
func (c *controller) list() []*call {
	c.mu.Lock()
	defer c.mu.Unlock()
	out := append([]*call(nil), c.parked...)
	sortCalls(out)
	return out
}

func (c *controller) remove(cl *call) {
	c.mu.Lock()
	defer c.mu.Unlock()
	for i, x := range c.parked {
		if x == cl {
			c.parked = append(c.parked[:i], c.parked[i+1:]...)
			return
		}
	}
}

func lessPayload(a, b []uint64) bool {
	for i := 0; i < len(a) && i < len(b); i++ {
		if a[i] != b[i] {
			return a[i] < b[i]
		}
	}
	return len(a) < len(b)
}

func eqPayload(a, b []uint64) bool {
	if len(a) != len(b) {
		return false
	}
	for i := range a {
		if a[i] != b[i] {
			return false
		}
	}
	return true
}

func lessCall(a, b *call) bool {
	if a.gid != b.gid {
		return a.gid < b.gid
	}
	if a.method != b.method {
		return a.method < b.method
	}
	if a.d != b.d {
		return a.d < b.d
	}
	return lessPayload(a.payload, b.payload)
}

func sortCalls(cs []*call) {
	for i := 1; i < len(cs); i++ {
		for j := i; j > 0 && lessCall(cs[j], cs[j-1]); j-- {
			cs[j], cs[j-1] = cs[j-1], cs[j]
		}
	}
}

var lastDump []byte
var stackBuf = make([]byte, 1<<18)

// Only states that are left through an action of another user goroutine
// count as blocked.  Plain "semacquire" is excluded on purpose: a goroutine
// that allocates can wait there for a runtime-internal semaphore (e.g. the
// one runtime.Stack itself holds while stopping the world).

var blockedStates = map[string]bool{
	"chan receive":            true,
	"chan send":               true,
	"select":                  true,
	"select (no cases)":       true,
	"sync.Mutex.Lock":         true,
	"sync.RWMutex.Lock":       true,
	"sync.RWMutex.RLock":      true,
	"sync.WaitGroup.Wait":     true,
	"sync.Cond.Wait":          true,
	"chan receive (nil chan)": true,
	"chan send (nil chan)":    true,
}

// waitQuiescent spins until every goroutine except the caller is blocked.
func waitQuiescent() error {
	deadline := time.Now().Add(20 * time.Second)
	buf := stackBuf
	for iter := 0; ; iter++ {
		runtime.Gosched()
		n := runtime.Stack(buf, true)
		for n == len(buf) {
			buf = make([]byte, 2*len(buf))
			stackBuf = buf
			n = runtime.Stack(buf, true)
		}
		all := true
		var culprit string
		for i, g := range bytes.Split(buf[:n], []byte("\n\n")) {
			if i == 0 {
				continue // the calling goroutine
			}
			hdr := g
			if k := bytes.IndexByte(g, '\n'); k >= 0 {
				hdr = g[:k]
			}
			lb, rb := bytes.IndexByte(hdr, '['), bytes.LastIndexByte(hdr, ']')
			if lb < 0 || rb < lb {
				continue
			}
			st := string(hdr[lb+1 : rb])
			if k := bytes.IndexByte([]byte(st), ','); k >= 0 {
				st = st[:k]
			}
			if !blockedStates[st] {
				all = false
				culprit = string(hdr)
				break
			}
		}
		if all {
			lastDump = append(lastDump[:0], buf[:n]...)
			return nil
		}
		if iter%64 == 63 && time.Now().After(deadline) {
			return fmt.Errorf("controller: no quiescence: %s", culprit)
		}
	}
}
