// Harness for C07 (mutable proto store): runs the real
// NewBlobAccessMutableProtoStore over a fake BlobAccess whose Get/Put park
// under a goroutine controller, so that any interleaving of the critical
// sections of concurrent Get calls, write completions and Release calls is
// driven deterministically from the history.
package main

import (
	"context"
	"encoding/json"
	"fmt"
	"runtime"

	remoteexecution "github.com/bazelbuild/remote-apis/build/bazel/remote/execution/v2"
	re_blobstore "github.com/buildbarn/bb-remote-execution/pkg/blobstore"
	"github.com/buildbarn/bb-storage/pkg/blobstore"
	"github.com/buildbarn/bb-storage/pkg/blobstore/buffer"
	"github.com/buildbarn/bb-storage/pkg/blobstore/slicing"
	"github.com/buildbarn/bb-storage/pkg/digest"
	"github.com/buildbarn/bb-storage/pkg/proto/iscc"
	"google.golang.org/grpc/codes"
	"google.golang.org/grpc/status"
	"google.golang.org/protobuf/types/known/durationpb"

	g "verif/harness/internal/gallina"
	"verif/harness/internal/hcommon"
	"verif/harness/internal/rng"
)

type op struct {
	K     string `json:"k"` // get, read, put, rel
	D     int    `json:"d,omitempty"`
	I     int    `json:"i,omitempty"`
	Err   bool   `json:"err,omitempty"`
	Dirty bool   `json:"dirty,omitempty"`
}

type history struct {
	Digests int  `json:"digests"`
	Ops     []op `json:"ops"`
}

const (
	probeDigest   = 4 // never dirtied; used to drain the write queue
	maxDigests    = 4
	maxConcurrent = 3
)

type area struct{}

func (area) Requires() string {
	return "From VF Require Import Common.Verdict Store.Model Store.Spec Store.Corr.\nOpen Scope N_scope."
}
func (area) Check() string { return "check_case" }
func (area) Rule() string {
	return "histories of 20-70 steps over <=4 digests and <=3 concurrent Get calls: start Get(d), complete one parked read (5% error), complete one parked write (10% error), release one held handle (60% dirty with a fresh update token); then drain (complete everything, release everything, probe Gets until the write queue is observed empty); non-trivial = some handle was re-acquired or released while one of its writes was parked, or a write failed; distinct by hash of the case term"
}

func (area) Generate(r *rng.R, thorough bool, index int) json.RawMessage {
	n := 20 + r.Intn(51)
	if thorough {
		n = 40 + r.Intn(160)
	}
	h := history{Digests: 1 + r.Intn(maxDigests)}
	if r.Chance(50) {
		h.Digests = 1 + r.Intn(2)
	}
	for i := 0; i < n; i++ {
		var o op
		switch x := r.Intn(100); {
		case x < 27:
			o = op{K: "get", D: r.Intn(h.Digests)}
		case x < 40:
			o = op{K: "read", I: r.Intn(4), Err: r.Chance(5)}
		case x < 62:
			o = op{K: "put", I: r.Intn(6), Err: r.Chance(10)}
		default:
			o = op{K: "rel", I: r.Intn(4), Dirty: r.Chance(60)}
		}
		h.Ops = append(h.Ops, o)
	}
	data, _ := json.Marshal(h)
	return data
}

// ---- fake BlobAccess ------------------------------------------------------

type gidKey struct{}

type fakeISCC struct {
	blobstore.BlobAccess // nil: GetCapabilities etc. are never called
	ctl                  *controller
	backing              map[int][]uint64
}

func digestOf(i int) digest.Digest {
	return digest.MustNewDigest("iscc", remoteexecution.DigestFunction_SHA256, fmt.Sprintf("%064x", i+1), 100)
}

func indexOf(d digest.Digest) int {
	var i int
	fmt.Sscanf(d.GetHashString(), "%x", &i)
	return i - 1
}

func toMessage(tokens []uint64) *iscc.PreviousExecutionStats {
	m := &iscc.PreviousExecutionStats{}
	if len(tokens) > 0 {
		pe := make([]*iscc.PreviousExecution, 0, len(tokens))
		for _, t := range tokens {
			pe = append(pe, &iscc.PreviousExecution{Outcome: &iscc.PreviousExecution_Succeeded{Succeeded: &durationpb.Duration{Seconds: int64(t)}}})
		}
		m.SizeClasses = map[uint32]*iscc.PerSizeClassStats{0: {PreviousExecutions: pe}}
	}
	return m
}

func tokensOf(m *iscc.PreviousExecutionStats) []uint64 {
	var out []uint64
	if sc := m.GetSizeClasses()[0]; sc != nil {
		for _, pe := range sc.PreviousExecutions {
			out = append(out, uint64(pe.GetSucceeded().GetSeconds()))
		}
	}
	return out
}

func appendToken(m *iscc.PreviousExecutionStats, t uint64) {
	if m.SizeClasses == nil {
		m.SizeClasses = map[uint32]*iscc.PerSizeClassStats{}
	}
	if m.SizeClasses[0] == nil {
		m.SizeClasses[0] = &iscc.PerSizeClassStats{}
	}
	m.SizeClasses[0].PreviousExecutions = append(m.SizeClasses[0].PreviousExecutions,
		&iscc.PreviousExecution{Outcome: &iscc.PreviousExecution_Succeeded{Succeeded: &durationpb.Duration{Seconds: int64(t)}}})
}

func (f *fakeISCC) Get(ctx context.Context, d digest.Digest) buffer.Buffer {
	cl := &call{gid: ctx.Value(gidKey{}).(int), method: "get", d: indexOf(d)}
	if !f.ctl.park(cl) {
		return buffer.NewBufferFromError(status.Error(codes.Internal, "scripted read failure"))
	}
	f.ctl.mu.Lock()
	tokens, ok := f.backing[cl.d]
	f.ctl.mu.Unlock()
	if !ok {
		return buffer.NewBufferFromError(status.Error(codes.NotFound, "no such blob"))
	}
	return buffer.NewProtoBufferFromProto(toMessage(tokens), buffer.UserProvided)
}

func (f *fakeISCC) GetFromComposite(ctx context.Context, parentDigest, childDigest digest.Digest, slicer slicing.BlobSlicer) buffer.Buffer {
	panic("not used")
}

func (f *fakeISCC) Put(ctx context.Context, d digest.Digest, b buffer.Buffer) error {
	m, err := b.ToProto(&iscc.PreviousExecutionStats{}, 1<<20)
	if err != nil {
		panic(err)
	}
	cl := &call{gid: ctx.Value(gidKey{}).(int), method: "put", d: indexOf(d), payload: tokensOf(m.(*iscc.PreviousExecutionStats))}
	if !f.ctl.park(cl) {
		return status.Error(codes.Internal, "scripted write failure")
	}
	f.ctl.mu.Lock()
	f.backing[cl.d] = cl.payload
	f.ctl.mu.Unlock()
	return nil
}

func (f *fakeISCC) FindMissing(ctx context.Context, digests digest.Set) (digest.Set, error) {
	panic("not used")
}

// ---- execution --------------------------------------------------------------

type handleT = re_blobstore.MutableProtoHandle[*iscc.PreviousExecutionStats]

type getResult struct {
	gid int
	h   handleT
	err error
}

type ref struct {
	gid int
	d   int
	h   handleT
}

type run struct {
	ctl      *controller
	fake     *fakeISCC
	store    re_blobstore.MutableProtoStore[*iscc.PreviousExecutionStats]
	results  chan getResult
	inflight []int // gids of Get calls that have not returned
	gdigest  map[int]int
	refs     []ref
	firstGet map[handleT]int
	nextGid  int
	nextTok  uint64
	info     *hcommon.Info

	evs, outs, dumps []string
	racy             bool
}

func nlist(ts []uint64) string {
	items := make([]string, len(ts))
	for i, t := range ts {
		items[i] = g.N(t)
	}
	return g.List(items)
}

func (r *run) record(ev, out string) {
	r.evs = append(r.evs, ev)
	r.outs = append(r.outs, out)
	var d []string
	r.ctl.mu.Lock()
	for i := 0; i <= probeDigest; i++ {
		d = append(d, nlist(r.fake.backing[i]))
	}
	r.ctl.mu.Unlock()
	r.dumps = append(r.dumps, g.List(d))
	r.info.Events++
}

// collect handles Get calls that returned after the last harness action;
// each becomes an EEnd event.
func (r *run) collect() error {
	if err := waitQuiescent(); err != nil {
		return err
	}
	for {
		select {
		case res := <-r.results:
			for i, x := range r.inflight {
				if x == res.gid {
					r.inflight = append(r.inflight[:i], r.inflight[i+1:]...)
					break
				}
			}
			for _, c := range r.ctl.list() {
				if c.gid == res.gid {
					return fmt.Errorf("get %d returned with calls still parked", res.gid)
				}
			}
			ev := g.App("EEnd", g.Nat(res.gid))
			if res.err != nil {
				r.info.Outs["get-failed"]++
				r.record(ev, "(OEnd None)")
			} else {
				first, ok := r.firstGet[res.h]
				if !ok {
					first = res.gid
					r.firstGet[res.h] = first
				} else {
					r.info.Outs["get-shared-handle"]++
				}
				r.info.Outs["get-ok"]++
				r.refs = append(r.refs, ref{gid: res.gid, d: r.gdigest[res.gid], h: res.h})
				r.record(ev, fmt.Sprintf("(OEnd (Some (%s, %s)))", g.Nat(first), nlist(tokensOf(res.h.GetMutableProto()))))
			}
		default:
			// Sanity of the controller: a Get that has not returned must be
			// parked in at least one storage call.
			for _, gid := range r.inflight {
				found := false
				for _, c := range r.ctl.list() {
					if c.gid == gid {
						found = true
					}
				}
				if !found {
					buf := make([]byte, 1<<16)
					n := runtime.Stack(buf, true)
					return fmt.Errorf("controller: get %d neither returned nor parked after quiescence:\n%s\n=== dump at quiescence decision:\n%s", gid, buf[:n], lastDump)
				}
			}
			return nil
		}
	}
}

func (r *run) startGet(d int) error {
	gid := r.nextGid
	r.nextGid++
	r.inflight = append(r.inflight, gid)
	r.gdigest[gid] = d
	ctx := context.WithValue(context.Background(), gidKey{}, gid)
	go func() {
		h, err := r.store.Get(ctx, digestOf(d))
		r.results <- getResult{gid: gid, h: h, err: err}
	}()
	if err := waitQuiescent(); err != nil {
		return err
	}
	hasRead := false
	var puts []string
	for _, c := range r.ctl.list() {
		if c.gid != gid {
			continue
		}
		if c.method == "get" {
			hasRead = true
		} else {
			puts = append(puts, fmt.Sprintf("(%s, %s)", g.N(uint64(c.d)), nlist(c.payload)))
			// a write of a handle of the digest some Get is after / holds
			for _, x := range r.refs {
				if x.d == c.d {
					r.racy = true
				}
			}
		}
	}
	r.info.Ops["get"]++
	r.info.Outs[fmt.Sprintf("get-dequeued-%d", len(puts))]++
	r.record(g.App("EGet", g.N(uint64(d))), g.App("OBegin", g.Bool(hasRead), g.List(puts)))
	return r.collect()
}

func (r *run) parkedOf(method string) []*call {
	var out []*call
	for _, c := range r.ctl.list() {
		if c.method == method {
			out = append(out, c)
		}
	}
	return out
}

func (r *run) complete(c *call, ok bool) error {
	r.ctl.remove(c)
	if c.method == "get" {
		r.info.Ops["read"]++
		if !ok {
			r.info.Outs["read-error"]++
		}
		c.resume <- ok
		if err := waitQuiescent(); err != nil {
			return err
		}
		r.record(g.App("ERead", g.Nat(c.gid), g.Bool(ok)), "ONone")
	} else {
		r.info.Ops["put"]++
		if !ok {
			r.info.Outs["write-error"]++
			r.racy = true
		}
		for _, x := range r.refs {
			if x.d == c.d {
				r.racy = true
			}
		}
		c.resume <- ok
		if err := waitQuiescent(); err != nil {
			return err
		}
		r.record(g.App("EPut", g.Nat(c.gid), g.N(uint64(c.d)), nlist(c.payload), g.Bool(ok)), "ONone")
	}
	return r.collect()
}

func (r *run) release(i int, dirty bool) {
	x := r.refs[i]
	r.refs = append(r.refs[:i], r.refs[i+1:]...)
	tok := uint64(0)
	if dirty {
		r.nextTok++
		tok = r.nextTok
		appendToken(x.h.GetMutableProto(), tok)
	}
	content := tokensOf(x.h.GetMutableProto())
	x.h.Release(dirty)
	for _, c := range r.ctl.list() {
		if c.method == "put" && c.d == x.d {
			r.racy = true
		}
	}
	r.info.Ops["release"]++
	if dirty {
		r.info.Outs["release-dirty"]++
	} else {
		r.info.Outs["release-clean"]++
	}
	r.record(g.App("ERel", g.Nat(x.gid), g.Bool(dirty), g.N(tok)), g.App("ORel", nlist(content)))
}

func (area) Execute(raw json.RawMessage) (term string, info *hcommon.Info, err error) {
	var h history
	if err := json.Unmarshal(raw, &h); err != nil {
		return "", nil, err
	}
	if h.Digests < 1 {
		h.Digests = 1
	}
	if h.Digests > maxDigests {
		h.Digests = maxDigests
	}
	info = hcommon.NewInfo()
	ctl := &controller{}
	fake := &fakeISCC{ctl: ctl, backing: map[int][]uint64{}}
	r := &run{
		ctl: ctl, fake: fake,
		store:    re_blobstore.NewBlobAccessMutableProtoStore[iscc.PreviousExecutionStats](fake, 1<<20),
		results:  make(chan getResult, 1024),
		gdigest:  map[int]int{},
		firstGet: map[handleT]int{},
		info:     info,
	}
	defer func() {
		if p := recover(); p != nil {
			err = fmt.Errorf("panic in implementation: %v", p)
		}
	}()

	for _, o := range h.Ops {
		switch o.K {
		case "get":
			if len(r.inflight) >= maxConcurrent {
				continue
			}
			if o.D < 0 {
				o.D = -o.D
			}
			if err := r.startGet(o.D % h.Digests); err != nil {
				return "", nil, err
			}
		case "read":
			cs := r.parkedOf("get")
			if len(cs) == 0 {
				continue
			}
			if err := r.complete(cs[abs(o.I)%len(cs)], !o.Err); err != nil {
				return "", nil, err
			}
		case "put":
			cs := r.parkedOf("put")
			if len(cs) == 0 {
				continue
			}
			if err := r.complete(cs[abs(o.I)%len(cs)], !o.Err); err != nil {
				return "", nil, err
			}
		case "rel":
			if len(r.refs) == 0 {
				continue
			}
			r.release(abs(o.I)%len(r.refs), o.Dirty)
		default:
			return "", nil, fmt.Errorf("unknown op %q", o.K)
		}
		if len(r.inflight) > info.Extra["max_concurrent_gets"] {
			info.Extra["max_concurrent_gets"] = len(r.inflight)
		}
		if n := len(r.parkedOf("put")); n > info.Extra["max_parked_writes"] {
			info.Extra["max_parked_writes"] = n
		}
	}

	// Drain: complete everything, release everything, then probe until a
	// Get dequeues nothing (the write queue is then known to be empty).
	drainCalls := func() error {
		for {
			cs := r.ctl.list()
			if len(cs) == 0 {
				return nil
			}
			if err := r.complete(cs[0], true); err != nil {
				return err
			}
		}
	}
	if err := drainCalls(); err != nil {
		return "", nil, err
	}
	for len(r.refs) > 0 {
		r.release(0, false)
	}
	for i := 0; ; i++ {
		if i > 64 {
			return "", nil, fmt.Errorf("write queue does not drain")
		}
		if err := r.startGet(probeDigest); err != nil {
			return "", nil, err
		}
		empty := len(r.parkedOf("put")) == 0
		if err := drainCalls(); err != nil {
			return "", nil, err
		}
		for len(r.refs) > 0 {
			r.release(0, false)
		}
		if empty {
			break
		}
	}
	if len(r.inflight) != 0 {
		return "", nil, fmt.Errorf("Get calls still in flight after drain: %v", r.inflight)
	}
	info.Nontrivial = r.racy
	return g.App("mkCase", g.List(r.evs), g.List(r.outs), g.List(r.dumps)), info, nil
}

func abs(i int) int {
	if i < 0 {
		return -i
	}
	return i
}

func main() { hcommon.Main(area{}) }
