// NFSv4 front ends: NewNFS41Program ("nfs41") or NewNFS40Program ("nfs40",
// which has its own copies of the directory operations) in process over
// NewNFSHandleAllocator and an OpenedFilesPool.  The harness plays the
// client: one client id; 4.1: one session, one slot, every COMPOUND led by
// SEQUENCE; 4.0: SETCLIENTID/SETCLIENTID_CONFIRM, a fresh open-owner per OPEN
// (OPEN, OPEN_CONFIRM, CLOSE with consecutive seqids).  Every call of a
// history is one COMPOUND (PUTROOTFH/PUTFH, the operation, GETFH/GETATTR of
// the result).
//
// Canonicalisation (everything else is compared as is):
//   - file handle = the 8 bytes the NFS handle allocator drew for the
//     object; objects are identified by GETFH / the filehandle attribute;
//   - nfsstat4 of the COMPOUND and READDIR cookies go into the case file
//     under Front.v's nfs_status / cookie_of_off; the cookie verifier sent
//     with a cookie is the one the server handed out; now and then a
//     request with the same cookie and a verifier the server never handed
//     out is sent first and must be refused (NFS4ERR_NOT_SAME);
//   - change_info4 of CREATE/OPEN/LINK/REMOVE/RENAME, the change attribute
//     of directories and numlinks of files are compared (taken from the
//     replies, not from the objects);
//   - READDIR pages are limited in bytes, VirtualReadDir pages in entries:
//     a reply with k entries and eof = false is a page of size k, with
//     eof = true a page of size k+1 (one more would have fitted);
//   - REMOVE is VirtualRemove(true, true); OPEN is closed again at once;
//   - the handle of a removed directory is stale (PUTFH fails): the dump
//     records that as "handle released", and calls on such a directory
//     use the direct API; a file without links cannot be named at all.
package main

import (
	"context"
	"encoding/binary"
	"fmt"
	"time"

	"github.com/buildbarn/bb-remote-execution/pkg/filesystem/virtual"
	nfs "github.com/buildbarn/bb-remote-execution/pkg/filesystem/virtual/nfsv4"
	"github.com/buildbarn/bb-storage/pkg/clock"
	"github.com/buildbarn/bb-storage/pkg/filesystem/path"
	"github.com/buildbarn/go-xdr/pkg/protocols/nfsv4"
)

// frozenClock: time does not pass, so the lease never expires.
type frozenClock struct{}

func (frozenClock) Now() time.Time { return time.Unix(1000000, 0) }
func (frozenClock) NewContextWithTimeout(parent context.Context, timeout time.Duration) (context.Context, context.CancelFunc) {
	panic("not used")
}
func (frozenClock) NewTimer(d time.Duration) (clock.Timer, <-chan time.Time)   { panic("not used") }
func (frozenClock) NewTicker(d time.Duration) (clock.Ticker, <-chan time.Time) { panic("not used") }

type nfsFront struct {
	w        *world
	minor    uint32 // 1: NFSv4.1, 0: NFSv4.0
	program  nfsv4.Nfs4Program
	protocol func(string)
	clientID uint64
	session  [16]byte
	seq      uint32
	owners   uint32  // 4.0: open-owners used so far
	verifier [8]byte // cookie verifier of the last READDIR reply
}

var nfsChanAttrs = nfsv4.ChannelAttrs4{CaMaxrequestsize: 1 << 20, CaMaxresponsesize: 1 << 20, CaMaxresponsesizeCached: 1 << 20, CaMaxoperations: 16, CaMaxrequests: 1}

func newNFSFront(w *world, root virtual.Directory, alloc *virtual.NFSStatefulHandleAllocator, protocol func(string), minor uint32) (*nfsFront, error) {
	n := &nfsFront{w: w, protocol: protocol, minor: minor}
	pool := nfs.NewOpenedFilesPool(alloc.ResolveHandle)
	ctx := context.Background()
	if minor == 0 {
		n.program = nfs.NewNFS40Program(root, pool, &counterRNG{}, nfsv4.Verifier4{7}, [4]byte{9, 9, 9, 9},
			frozenClock{}, time.Hour, 2*time.Hour, path.UNIXFormat, nil)
		res, err := n.program.NfsV4Nfsproc4Compound(ctx, &nfsv4.Compound4args{Argarray: []nfsv4.NfsArgop4{
			&nfsv4.NfsArgop4_OP_SETCLIENTID{Opsetclientid: nfsv4.Setclientid4args{
				Client:   nfsv4.NfsClientId4{Verifier: nfsv4.Verifier4{1}, Id: []byte("dir-harness")},
				Callback: nfsv4.CbClient4{CbProgram: 1, CbLocation: nfsv4.Netaddr4{NaRNetid: "tcp", NaRAddr: "127.0.0.1.0.1"}},
			}},
		}})
		if err != nil || res.Status != nfsv4.NFS4_OK {
			return nil, fmt.Errorf("SETCLIENTID failed: %v %v", err, res)
		}
		ok := res.Resarray[0].(*nfsv4.NfsResop4_OP_SETCLIENTID).Opsetclientid.(*nfsv4.Setclientid4res_NFS4_OK).Resok4
		n.clientID = ok.Clientid
		res, err = n.program.NfsV4Nfsproc4Compound(ctx, &nfsv4.Compound4args{Argarray: []nfsv4.NfsArgop4{
			&nfsv4.NfsArgop4_OP_SETCLIENTID_CONFIRM{OpsetclientidConfirm: nfsv4.SetclientidConfirm4args{Clientid: ok.Clientid, SetclientidConfirm: ok.SetclientidConfirm}},
		}})
		if err != nil || res.Status != nfsv4.NFS4_OK {
			return nil, fmt.Errorf("SETCLIENTID_CONFIRM failed: %v %v", err, res)
		}
		return n, nil
	}
	attrs := nfsChanAttrs
	n.program = nfs.NewNFS41Program(
		root, pool,
		nfsv4.ServerOwner4{SoMinorId: 1, SoMajorId: []byte("verif")},
		[]byte("scope"),
		&attrs,
		&counterRNG{},
		nfsv4.Verifier4{7},
		frozenClock{},
		time.Hour, 2*time.Hour,
		path.UNIXFormat,
		nil,
	)
	res, err := n.program.NfsV4Nfsproc4Compound(ctx, &nfsv4.Compound4args{Minorversion: 1, Argarray: []nfsv4.NfsArgop4{
		&nfsv4.NfsArgop4_OP_EXCHANGE_ID{OpexchangeId: nfsv4.ExchangeId4args{
			EiaClientowner:  nfsv4.ClientOwner4{CoVerifier: nfsv4.Verifier4{1}, CoOwnerid: []byte("dir-harness")},
			EiaStateProtect: &nfsv4.StateProtect4A_SP4_NONE{},
		}},
	}})
	if err != nil || res.Status != nfsv4.NFS4_OK {
		return nil, fmt.Errorf("EXCHANGE_ID failed: %v %v", err, res)
	}
	exid := res.Resarray[0].(*nfsv4.NfsResop4_OP_EXCHANGE_ID).OpexchangeId.(*nfsv4.ExchangeId4res_NFS4_OK).EirResok4
	n.clientID = exid.EirClientid
	res, err = n.program.NfsV4Nfsproc4Compound(ctx, &nfsv4.Compound4args{Minorversion: 1, Argarray: []nfsv4.NfsArgop4{
		&nfsv4.NfsArgop4_OP_CREATE_SESSION{OpcreateSession: nfsv4.CreateSession4args{
			CsaClientid: n.clientID, CsaSequence: exid.EirSequenceid, CsaForeChanAttrs: nfsChanAttrs, CsaBackChanAttrs: nfsChanAttrs,
		}},
	}})
	if err != nil || res.Status != nfsv4.NFS4_OK {
		return nil, fmt.Errorf("CREATE_SESSION failed: %v %v", err, res)
	}
	n.session = res.Resarray[0].(*nfsv4.NfsResop4_OP_CREATE_SESSION).OpcreateSession.(*nfsv4.CreateSession4res_NFS4_OK).CsrResok4.CsrSessionid
	return n, nil
}

// reply of one COMPOUND: status, and the results of the operations after SEQUENCE.
type nfsReply struct {
	status nfsv4.Nfsstat4
	res    []nfsv4.NfsResop4
}

// failedAt: index of the operation that failed (= number of results - 1).
func (r nfsReply) failedAt() int { return len(r.res) - 1 }

func (n *nfsFront) compound(ops ...nfsv4.NfsArgop4) nfsReply {
	if n.minor == 0 {
		res, err := n.program.NfsV4Nfsproc4Compound(context.Background(), &nfsv4.Compound4args{Argarray: ops})
		if err != nil {
			panic(err)
		}
		if len(res.Resarray) == 0 {
			n.protocol("empty-compound-reply")
		}
		return nfsReply{status: res.Status, res: res.Resarray}
	}
	n.seq++
	args := nfsv4.Compound4args{Minorversion: 1, Argarray: append([]nfsv4.NfsArgop4{
		&nfsv4.NfsArgop4_OP_SEQUENCE{Opsequence: nfsv4.Sequence4args{SaSessionid: n.session, SaSequenceid: n.seq}},
	}, ops...)}
	res, err := n.program.NfsV4Nfsproc4Compound(context.Background(), &args)
	if err != nil {
		panic(err)
	}
	if len(res.Resarray) == 0 {
		n.protocol("empty-compound-reply")
		return nfsReply{status: res.Status}
	}
	if len(res.Resarray) == 1 && res.Status != nfsv4.NFS4_OK {
		n.protocol("sequence-failed")
	}
	return nfsReply{status: res.Status, res: res.Resarray[1:]}
}

var nfsStatusNames = map[nfsv4.Nfsstat4]string{
	0: "SOK", 1: "SPerm", 2: "SNoEnt", 5: "SIO", 17: "SExist", 18: "SXDev", 20: "SNotDir", 21: "SIsDir", 22: "SInval",
	66: "SNotEmpty", 70: "SStale", 10029: "SSymlink", 10083: "SWrongType",
}

func (n *nfsFront) name() string {
	if n.minor == 0 {
		return "nfs40"
	}
	return "nfs41"
}

func (n *nfsFront) st(r *result, s nfsv4.Nfsstat4) {
	r.status = "SOther"
	if name, ok := nfsStatusNames[s]; ok {
		r.status = name
	}
	r.rawStatus = fmt.Sprintf("(nfs_status %d%%N)", uint32(s))
}

func handleOf(key uint64) []byte {
	var b [8]byte
	binary.LittleEndian.PutUint64(b[:], key)
	return b[:]
}

func (n *nfsFront) putDir(d int) nfsv4.NfsArgop4 {
	if d == 0 {
		return &nfsv4.NfsArgop4_OP_PUTROOTFH{}
	}
	return &nfsv4.NfsArgop4_OP_PUTFH{Opputfh: nfsv4.Putfh4args{Object: handleOf(n.w.dirKey[d])}}
}

// attributes requested of every object: type, change, filehandle, numlinks
var nfsAttrRequest = []uint32{1<<nfsv4.FATTR4_TYPE | 1<<nfsv4.FATTR4_CHANGE | 1<<nfsv4.FATTR4_FILEHANDLE, 1 << (nfsv4.FATTR4_NUMLINKS - 32)}

func getattrOp() nfsv4.NfsArgop4 {
	return &nfsv4.NfsArgop4_OP_GETATTR{Opgetattr: nfsv4.Getattr4args{AttrRequest: nfsAttrRequest}}
}

type nfsAttrs struct {
	ftype    uint32
	change   uint64
	handle   uint64
	numlinks uint32
	ok       bool
}

func (n *nfsFront) decodeAttrs(f *nfsv4.Fattr4) (a nfsAttrs) {
	if len(f.Attrmask) != 2 || f.Attrmask[0] != nfsAttrRequest[0] || f.Attrmask[1] != nfsAttrRequest[1] {
		n.protocol("attribute-bitmap")
		return
	}
	b := f.AttrVals
	if len(b) != 4+8+4+8+4 || binary.BigEndian.Uint32(b[12:]) != 8 {
		n.protocol("attribute-encoding")
		return
	}
	a.ftype = binary.BigEndian.Uint32(b[0:])
	a.change = binary.BigEndian.Uint64(b[4:])
	a.handle = binary.LittleEndian.Uint64(b[16:])
	a.numlinks = binary.BigEndian.Uint32(b[24:])
	a.ok = true
	return
}

func ftypeOfKind(kind int) uint32 {
	switch kind {
	case kFile:
		return uint32(nfsv4.NF4REG)
	case kSymlink:
		return uint32(nfsv4.NF4LNK)
	case kFifo:
		return uint32(nfsv4.NF4FIFO)
	default:
		return uint32(nfsv4.NF4SOCK)
	}
}

// object identifies what a file handle stands for and checks type and
// handle attribute; returns the attribute value of the result record
// (change counter of a directory, link count of a leaf).
func (n *nfsFront) object(handle uint64, a nfsAttrs) (term string, leaf *fakeLeaf, attr int64) {
	term, leaf, _, ok := n.w.childOfKey(handle)
	if !ok {
		n.protocol("unknown-file-handle")
		return term, nil, -1
	}
	if !a.ok {
		return term, leaf, -1
	}
	if a.handle != handle {
		n.protocol("filehandle-attribute-differs-from-getfh")
	}
	want := uint32(nfsv4.NF4DIR)
	if leaf != nil {
		want = ftypeOfKind(leaf.kind)
	}
	if a.ftype != want {
		n.protocol("file-type")
	}
	if leaf != nil {
		return term, leaf, int64(a.numlinks)
	}
	return term, nil, int64(a.change)
}

// current takes the results of GETFH, GETATTR (at res[i], res[i+1]).
func (n *nfsFront) current(r *result, res []nfsv4.NfsResop4, i int) *fakeLeaf {
	fh, ok1 := res[i].(*nfsv4.NfsResop4_OP_GETFH).Opgetfh.(*nfsv4.Getfh4res_NFS4_OK)
	ga, ok2 := res[i+1].(*nfsv4.NfsResop4_OP_GETATTR).Opgetattr.(*nfsv4.Getattr4res_NFS4_OK)
	if !ok1 || !ok2 || len(fh.Resok4.Object) != 8 {
		n.protocol("getfh-getattr")
		return nil
	}
	var leaf *fakeLeaf
	r.child, leaf, r.attr = n.object(binary.LittleEndian.Uint64(fh.Resok4.Object), n.decodeAttrs(&ga.Resok4.ObjAttributes))
	return leaf
}

func cinfo(c nfsv4.ChangeInfo4) [2]uint64 { return [2]uint64{c.Before, c.After} }

// staleDir: the COMPOUND failed at the PUTFH of a directory whose handle the
// directory code has released: the call cannot be delivered.
func (n *nfsFront) staleDir(rep nfsReply, at int, d int) bool {
	return rep.status == nfsv4.NFS4ERR_STALE && rep.failedAt() == at && n.w.released[d] > 0
}

func (n *nfsFront) lookup(d int, name string) *result {
	rep := n.compound(n.putDir(d), &nfsv4.NfsArgop4_OP_LOOKUP{Oplookup: nfsv4.Lookup4args{Objname: name}},
		&nfsv4.NfsArgop4_OP_GETFH{}, getattrOp())
	if n.staleDir(rep, 0, d) {
		return nil
	}
	r := newResult()
	n.st(r, rep.status)
	if rep.status == nfsv4.NFS4_OK {
		n.current(r, rep.res, 2)
	}
	return r
}

func (n *nfsFront) open(d int, name string, create, existing bool) *result {
	if !create && !existing {
		return nil
	}
	var how nfsv4.Openflag4 = &nfsv4.Openflag4_default{Opentype: nfsv4.OPEN4_NOCREATE}
	if create && existing {
		how = &nfsv4.Openflag4_OPEN4_CREATE{How: &nfsv4.Createhow4_UNCHECKED4{}}
	} else if create {
		how = &nfsv4.Openflag4_OPEN4_CREATE{How: &nfsv4.Createhow4_GUARDED4{}}
	}
	before := len(n.w.leaves)
	owner, seqid := []byte("o"), uint32(0)
	if n.minor == 0 {
		// a fresh open-owner: any seqid is accepted, the open has to be confirmed
		n.owners++
		owner, seqid = []byte(fmt.Sprintf("o%d", n.owners)), 10
	}
	rep := n.compound(n.putDir(d), &nfsv4.NfsArgop4_OP_OPEN{Opopen: nfsv4.Open4args{
		Seqid: seqid, ShareAccess: nfsv4.OPEN4_SHARE_ACCESS_READ, ShareDeny: nfsv4.OPEN4_SHARE_DENY_NONE,
		Owner:   nfsv4.StateOwner4{Clientid: n.clientID, Owner: owner},
		Openhow: how, Claim: &nfsv4.OpenClaim4_CLAIM_NULL{File: name},
	}}, &nfsv4.NfsArgop4_OP_GETFH{}, getattrOp())
	if n.staleDir(rep, 0, d) {
		return nil
	}
	r := newResult()
	n.st(r, rep.status)
	if rep.status != nfsv4.NFS4_OK {
		return r
	}
	ok := rep.res[1].(*nfsv4.NfsResop4_OP_OPEN).Opopen.(*nfsv4.Open4res_NFS4_OK).Resok4
	if leaf := n.current(r, rep.res, 2); leaf != nil && len(n.w.leaves) > before {
		r.tag = leaf.tag
	}
	r.ci = [][2]uint64{cinfo(ok.Cinfo)}
	// close it again
	handle := rep.res[2].(*nfsv4.NfsResop4_OP_GETFH).Opgetfh.(*nfsv4.Getfh4res_NFS4_OK).Resok4.Object
	putfh := &nfsv4.NfsArgop4_OP_PUTFH{Opputfh: nfsv4.Putfh4args{Object: handle}}
	stateid := ok.Stateid
	if n.minor == 0 {
		if ok.Rflags&nfsv4.OPEN4_RESULT_CONFIRM == 0 {
			n.protocol("open-of-new-owner-not-to-be-confirmed")
		}
		seqid++
		c := n.compound(putfh, &nfsv4.NfsArgop4_OP_OPEN_CONFIRM{OpopenConfirm: nfsv4.OpenConfirm4args{OpenStateid: stateid, Seqid: seqid}})
		if c.status != nfsv4.NFS4_OK {
			n.protocol("open-confirm-failed")
			return r
		}
		stateid = c.res[1].(*nfsv4.NfsResop4_OP_OPEN_CONFIRM).OpopenConfirm.(*nfsv4.OpenConfirm4res_NFS4_OK).Resok4.OpenStateid
		seqid++
	}
	if c := n.compound(putfh, &nfsv4.NfsArgop4_OP_CLOSE{Opclose: nfsv4.Close4args{Seqid: seqid, OpenStateid: stateid}}); c.status != nfsv4.NFS4_OK {
		n.protocol("close-failed")
	}
	return r
}

func (n *nfsFront) create(d int, name string, objtype nfsv4.Createtype4) *result {
	rep := n.compound(n.putDir(d), &nfsv4.NfsArgop4_OP_CREATE{Opcreate: nfsv4.Create4args{Objtype: objtype, Objname: name}},
		&nfsv4.NfsArgop4_OP_GETFH{}, getattrOp())
	if n.staleDir(rep, 0, d) {
		return nil
	}
	r := newResult()
	n.st(r, rep.status)
	if rep.status == nfsv4.NFS4_OK {
		if leaf := n.current(r, rep.res, 2); leaf != nil {
			r.tag = leaf.tag
		}
		r.ci = [][2]uint64{cinfo(rep.res[1].(*nfsv4.NfsResop4_OP_CREATE).Opcreate.(*nfsv4.Create4res_NFS4_OK).Resok4.Cinfo)}
	}
	return r
}

func (n *nfsFront) mkdir(d int, name string) *result {
	return n.create(d, name, &nfsv4.Createtype4_NF4DIR{})
}

func (n *nfsFront) mknod(d int, name string, kind int) *result {
	switch kind {
	case 0:
		return n.create(d, name, &nfsv4.Createtype4_NF4LNK{Linkdata: []byte("target")})
	case 1:
		return n.create(d, name, &nfsv4.Createtype4_NF4FIFO{})
	case 2:
		return n.create(d, name, &nfsv4.Createtype4_NF4SOCK{})
	default:
		return n.create(d, name, &nfsv4.Createtype4_NF4BLK{Devdata: nfsv4.Specdata4{Specdata1: 8, Specdata2: 1}})
	}
}

func (n *nfsFront) linkDead(l *fakeLeaf) bool { return false }

func (n *nfsFront) link(d int, name string, l int) *result {
	leaf := n.w.leaves[l]
	rep := n.compound(n.putDir(d),
		&nfsv4.NfsArgop4_OP_PUTFH{Opputfh: nfsv4.Putfh4args{Object: handleOf(leaf.key)}}, &nfsv4.NfsArgop4_OP_SAVEFH{},
		n.putDir(d), &nfsv4.NfsArgop4_OP_LINK{Oplink: nfsv4.Link4args{Newname: name}},
		&nfsv4.NfsArgop4_OP_RESTOREFH{}, &nfsv4.NfsArgop4_OP_GETFH{}, getattrOp())
	if n.staleDir(rep, 0, d) {
		return nil
	}
	r := newResult()
	n.st(r, rep.status)
	if rep.status == nfsv4.NFS4_OK {
		got := newResult()
		if n.current(got, rep.res, 6) != leaf {
			n.protocol("link-source-changed")
		}
		r.attr = got.attr
		r.ci = [][2]uint64{cinfo(rep.res[4].(*nfsv4.NfsResop4_OP_LINK).Oplink.(*nfsv4.Link4res_NFS4_OK).Resok4.Cinfo)}
	}
	return r
}

func (n *nfsFront) remove(d int, name string, rmdir, rmleaf, pick bool) (*result, bool, bool) {
	rep := n.compound(n.putDir(d), &nfsv4.NfsArgop4_OP_REMOVE{Opremove: nfsv4.Remove4args{Target: name}})
	if n.staleDir(rep, 0, d) {
		return nil, false, false
	}
	r := newResult()
	n.st(r, rep.status)
	if rep.status == nfsv4.NFS4_OK {
		r.ci = [][2]uint64{cinfo(rep.res[1].(*nfsv4.NfsResop4_OP_REMOVE).Opremove.(*nfsv4.Remove4res_NFS4_OK).Resok4.Cinfo)}
	}
	return r, true, true
}

func (n *nfsFront) rename(d int, name string, d2 int, name2 string) *result {
	rep := n.compound(n.putDir(d2), n.putDir(d), &nfsv4.NfsArgop4_OP_SAVEFH{}, n.putDir(d2),
		&nfsv4.NfsArgop4_OP_RENAME{Oprename: nfsv4.Rename4args{Oldname: name, Newname: name2}})
	if n.staleDir(rep, 0, d2) || n.staleDir(rep, 1, d) {
		return nil
	}
	r := newResult()
	n.st(r, rep.status)
	if rep.status == nfsv4.NFS4_OK {
		ok := rep.res[4].(*nfsv4.NfsResop4_OP_RENAME).Oprename.(*nfsv4.Rename4res_NFS4_OK).Resok4
		r.ci = [][2]uint64{cinfo(ok.SourceCinfo), cinfo(ok.TargetCinfo)}
	}
	return r
}

func (n *nfsFront) readdir(d int, cookie uint64, page, variant int) (*result, string, int) {
	args := nfsv4.Readdir4args{AttrRequest: nfsAttrRequest}
	if cookie > 0 {
		if n.verifier == [8]byte{} {
			// no READDIR reply seen yet: a client has no cookie to resume from
			return nil, "", 0
		}
		args.Cookie = cookie + 2
		args.Cookieverf = n.verifier
		if variant&1 != 0 {
			// A cookie is only good together with the verifier it was handed
			// out with (RFC 7530 16.24.4, RFC 8881 18.23.3): with any other
			// verifier, the all-zero one of a first request included, the
			// answer must be NFS4ERR_NOT_SAME.
			probe := args
			probe.Cookieverf = [8]byte{}
			probe.Maxcount = 4096
			if rep := n.compound(n.putDir(d), &nfsv4.NfsArgop4_OP_READDIR{Opreaddir: probe}); !n.staleDir(rep, 0, d) && rep.status != nfsv4.NFS4ERR_NOT_SAME {
				n.protocol("readdir-accepts-cookie-with-foreign-verifier")
			}
		}
	}
	cookieTerm := fmt.Sprintf("(cookie_of_off %d%%N)", args.Cookie)
	// room for about [page] entries (names of up to four bytes take 64 bytes each)
	args.Maxcount = uint32(16 + 64*page + 4)
	if variant&2 != 0 {
		args.Dircount = uint32(16 * page) // cookie and name only: 8 + 8 bytes per entry
	}
	var rep nfsReply
	for {
		rep = n.compound(n.putDir(d), &nfsv4.NfsArgop4_OP_READDIR{Opreaddir: args})
		if rep.status != nfsv4.NFS4ERR_TOOSMALL || args.Maxcount > 1<<16 {
			break
		}
		// not even one entry fits (maxcount, or the dircount hint, which this
		// server enforces): the client asks again with larger limits
		args.Maxcount *= 2
		args.Dircount *= 2
	}
	if n.staleDir(rep, 0, d) {
		return nil, "", 0
	}
	r := newResult()
	n.st(r, rep.status)
	if rep.status != nfsv4.NFS4_OK {
		return r, cookieTerm, page
	}
	ok := rep.res[1].(*nfsv4.NfsResop4_OP_READDIR).Opreaddir.(*nfsv4.Readdir4res_NFS4_OK).Resok4
	n.verifier = ok.Cookieverf
	for e := ok.Reply.Entries; e != nil; e = e.Nextentry {
		a := n.decodeAttrs(&e.Attrs)
		re := rentry{name: e.Name, attr: -1, rawCookie: fmt.Sprintf("(cookie_of_off %d%%N)", e.Cookie)}
		if e.Cookie >= 2 {
			re.cookie = e.Cookie - 2
		}
		re.child, _, re.attr = n.object(a.handle, a)
		r.entries = append(r.entries, re)
	}
	// k entries, more to come: a page of k; k entries and eof: one more would have fitted
	size := len(r.entries)
	if ok.Reply.Eof {
		size++
	} else if size == 0 {
		n.protocol("empty-page-without-eof")
	}
	return r, cookieTerm, size
}

// dirState: the change attribute through GETATTR; a stale handle is what a
// client sees of a removed directory.
func (n *nfsFront) dirState(d int) (uint64, bool, bool) {
	// (also for the root: PUTROOTFH never fails, but the handle a client got
	// for the root by GETFH goes stale like any other)
	rep := n.compound(&nfsv4.NfsArgop4_OP_PUTFH{Opputfh: nfsv4.Putfh4args{Object: handleOf(n.w.dirKey[d])}}, getattrOp())
	switch {
	case rep.status == nfsv4.NFS4ERR_STALE && rep.failedAt() == 0:
		return 0, false, true
	case rep.status != nfsv4.NFS4_OK:
		n.protocol("getattr-of-directory-failed")
		return 0, false, n.w.released[d] > 0
	}
	a := n.decodeAttrs(&rep.res[1].(*nfsv4.NfsResop4_OP_GETATTR).Opgetattr.(*nfsv4.Getattr4res_NFS4_OK).Resok4.ObjAttributes)
	if !a.ok {
		return 0, false, false
	}
	if a.ftype != uint32(nfsv4.NF4DIR) || a.handle != n.w.dirKey[d] {
		n.protocol("directory-attributes")
	}
	return a.change, true, false
}

// leafLinks: numlinks through GETATTR; a file without links has a stale handle.
func (n *nfsFront) leafLinks(l *fakeLeaf) int64 {
	rep := n.compound(&nfsv4.NfsArgop4_OP_PUTFH{Opputfh: nfsv4.Putfh4args{Object: handleOf(l.key)}}, getattrOp())
	switch {
	case rep.status == nfsv4.NFS4ERR_STALE && rep.failedAt() == 0:
		return 0
	case rep.status != nfsv4.NFS4_OK:
		n.protocol("getattr-of-file-failed")
		return -1
	}
	a := n.decodeAttrs(&rep.res[1].(*nfsv4.NfsResop4_OP_GETATTR).Opgetattr.(*nfsv4.Getattr4res_NFS4_OK).Resok4.ObjAttributes)
	if a.ok && (a.ftype != ftypeOfKind(l.kind) || a.handle != l.key) {
		n.protocol("file-attributes")
	}
	return int64(a.numlinks)
}

func (n *nfsFront) needsLookup() bool    { return false }
func (n *nfsFront) forget(sel, mode int) {}
func (n *nfsFront) finish()              {}
