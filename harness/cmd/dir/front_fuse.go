// FUSE front end: fuse.NewSimpleRawFileSystem in process, no mount.  The
// harness plays the kernel: it addresses objects by the node ids the file
// system handed out, keeps count of the lookups it was given, forgets
// nodes, and resumes directory listings at the offsets it received.
//
// Canonicalisation (everything else is compared as is):
//   - node id = inode number = the number the FUSE handle allocator drew
//     for the object; the root is FUSE_ROOT_ID;
//   - fuse.Status and directory offsets go into the case file under
//     Front.v's fuse_status / cookie_of_off;
//   - "." and ".." at offsets 1 and 2 are checked here (they must be
//     exactly these) and stripped; the page size of the equivalent
//     VirtualReadDir call is the capacity left after them;
//   - entry/attribute validity, generation, owner, permissions, size and
//     times are ignored; the file type bits of Attr.Mode / DirEntry.Mode
//     must be the type of the object;
//   - FUSE has no change attribute and no change_info: the change counter
//     of a returned directory and the ChangeInfo of a mutation are taken
//     from the dumps around the call; plain ReadDir has no link counts:
//     taken from the dump;
//   - open(O_RDONLY) of an existing name without O_CREAT is LOOKUP + OPEN as
//     the kernel does it, and EISDIR for a directory is the kernel's answer;
//   - unlink()/rmdir() are VirtualRemove(false,true)/(true,false);
//   - mknod() of a device node is refused by the front end before the
//     directory is consulted (EPERM even where the direct API says EEXIST
//     or ENOENT); the kernel looks the name up first, so it is only sent
//     after a LOOKUP that found nothing in a directory that still exists.
package main

import (
	"context"
	"fmt"
	"sort"
	"syscall"

	"github.com/buildbarn/bb-remote-execution/pkg/filesystem/virtual"
	vfuse "github.com/buildbarn/bb-remote-execution/pkg/filesystem/virtual/fuse"
	"github.com/hanwen/go-fuse/v2/fuse"
)

type fuseFront struct {
	w        *world
	rfs      vfuse.RawFileSystem
	lookups  map[uint64]uint64 // node id -> lookups the kernel was given and has not forgotten
	protocol func(string)
}

func newFuseFront(w *world, root virtual.Directory, alloc *virtual.FUSEStatefulHandleAllocator, protocol func(string)) *fuseFront {
	return &fuseFront{
		w:        w,
		rfs:      vfuse.NewSimpleRawFileSystem(root, alloc.RegisterRemovalNotifier, vfuse.AllowAuthenticator),
		lookups:  map[uint64]uint64{},
		protocol: protocol,
	}
}

var fuseStatusNames = map[fuse.Status]string{
	0: "SOK", 1: "SPerm", 2: "SNoEnt", 5: "SIO", 9: "SWrongType", 17: "SExist", 18: "SXDev", 20: "SNotDir",
	21: "SIsDir", 22: "SInval", 39: "SNotEmpty", 95: "SSymlink", 116: "SStale",
}

// st records a fuse.Status: by name for the harness' own bookkeeping, as a
// number under fuse_status for the case file.
func (f *fuseFront) st(r *result, s fuse.Status) {
	r.status = "SOther"
	if n, ok := fuseStatusNames[s]; ok {
		r.status = n
	}
	if s >= 0 {
		r.rawStatus = fmt.Sprintf("(fuse_status %d%%N)", int32(s))
	}
}

func (f *fuseFront) node(d int) uint64 {
	if d == 0 {
		return fuse.FUSE_ROOT_ID
	}
	return f.w.dirKey[d]
}

func (f *fuseFront) known(d int) bool { return d == 0 || f.lookups[f.w.dirKey[d]] > 0 }

func (f *fuseFront) header(d int) fuse.InHeader { return fuse.InHeader{NodeId: f.node(d)} }

func modeOfKind(kind int) uint32 {
	switch kind {
	case kFile:
		return syscall.S_IFREG
	case kSymlink:
		return syscall.S_IFLNK
	case kFifo:
		return syscall.S_IFIFO
	default:
		return syscall.S_IFSOCK
	}
}

// object identifies what an inode number stands for and checks the file type.
func (f *fuseFront) object(ino uint64, mode uint32) (term string, leaf *fakeLeaf, dir int, ok bool) {
	term, leaf, dir, ok = f.w.childOfKey(ino)
	if !ok {
		f.protocol("unknown-inode")
		return
	}
	want := uint32(syscall.S_IFDIR)
	if leaf != nil {
		want = modeOfKind(leaf.kind)
	}
	if mode&syscall.S_IFMT != want {
		f.protocol("file-type")
	}
	return
}

// entry takes over an EntryOut: the kernel now holds one more lookup of the node.
func (f *fuseFront) entry(r *result, out *fuse.EntryOut) *fakeLeaf {
	if out.NodeId != out.Ino {
		f.protocol("nodeid-differs-from-inode")
	}
	term, leaf, dir, ok := f.object(out.NodeId, out.Mode)
	r.child = term
	if !ok {
		return nil
	}
	f.lookups[out.NodeId]++
	if leaf != nil {
		r.attr = int64(out.Nlink)
	} else {
		r.attrDir = dir
	}
	return leaf
}

func (f *fuseFront) lookup(d int, name string) *result {
	if !f.known(d) {
		return nil
	}
	r := newResult()
	var out fuse.EntryOut
	h := f.header(d)
	s := f.rfs.Lookup(nil, &h, name, &out)
	f.st(r, s)
	if s == fuse.OK {
		f.entry(r, &out)
	}
	return r
}

func (f *fuseFront) open(d int, name string, create, existing bool) *result {
	if !f.known(d) {
		return nil
	}
	r := newResult()
	if create {
		flags := uint32(syscall.O_RDONLY)
		if !existing {
			flags |= syscall.O_EXCL
		}
		before := len(f.w.leaves)
		var out fuse.CreateOut
		s := f.rfs.Create(nil, &fuse.CreateIn{InHeader: f.header(d), Flags: flags, Mode: 0o644}, name, &out)
		f.st(r, s)
		if s != fuse.OK {
			return r
		}
		if leaf := f.entry(r, &out.EntryOut); leaf != nil && len(f.w.leaves) > before {
			r.tag = leaf.tag
		}
		r.ciDirs = []int{d}
		f.rfs.Release(nil, &fuse.ReleaseIn{InHeader: fuse.InHeader{NodeId: out.NodeId}, Flags: syscall.O_RDONLY})
		return r
	}
	if !existing {
		return nil
	}
	// open() of an existing name: LOOKUP, then OPEN of the node
	var out fuse.EntryOut
	h := f.header(d)
	s := f.rfs.Lookup(nil, &h, name, &out)
	f.st(r, s)
	if s != fuse.OK {
		return r
	}
	found := newResult()
	leaf := f.entry(found, &out)
	if leaf == nil {
		// a directory: the kernel answers EISDIR itself
		r.status, r.rawStatus = "SIsDir", ""
		return r
	}
	s = f.rfs.Open(nil, &fuse.OpenIn{InHeader: fuse.InHeader{NodeId: out.NodeId}, Flags: syscall.O_RDONLY}, &fuse.OpenOut{})
	f.st(r, s)
	if s != fuse.OK {
		return r
	}
	r.child, r.attr = found.child, found.attr
	r.ciDirs = []int{d}
	f.rfs.Release(nil, &fuse.ReleaseIn{InHeader: fuse.InHeader{NodeId: out.NodeId}, Flags: syscall.O_RDONLY})
	return r
}

func (f *fuseFront) mkdir(d int, name string) *result {
	if !f.known(d) {
		return nil
	}
	r := newResult()
	var out fuse.EntryOut
	s := f.rfs.Mkdir(nil, &fuse.MkdirIn{InHeader: f.header(d), Mode: 0o755}, name, &out)
	f.st(r, s)
	if s == fuse.OK {
		f.entry(r, &out)
		r.ciDirs = []int{d}
	}
	return r
}

func (f *fuseFront) mknod(d int, name string, kind int) *result {
	if !f.known(d) {
		return nil
	}
	r := newResult()
	var out fuse.EntryOut
	var s fuse.Status
	switch kind {
	case 0:
		h := f.header(d)
		s = f.rfs.Symlink(nil, &h, "target", name, &out)
	case 1:
		s = f.rfs.Mknod(nil, &fuse.MknodIn{InHeader: f.header(d), Mode: syscall.S_IFIFO | 0o644}, name, &out)
	case 2:
		s = f.rfs.Mknod(nil, &fuse.MknodIn{InHeader: f.header(d), Mode: syscall.S_IFSOCK | 0o644}, name, &out)
	default:
		s = f.rfs.Mknod(nil, &fuse.MknodIn{InHeader: f.header(d), Mode: syscall.S_IFBLK | 0o644, Rdev: 0x801}, name, &out)
	}
	f.st(r, s)
	if s == fuse.OK {
		if leaf := f.entry(r, &out); leaf != nil {
			r.tag = leaf.tag
		}
		r.ciDirs = []int{d}
	}
	return r
}

func (f *fuseFront) linkDead(l *fakeLeaf) bool { return l.kind == kFile }

func (f *fuseFront) link(d int, name string, l int) *result {
	leaf := f.w.leaves[l]
	if !f.known(d) || f.lookups[leaf.key] == 0 {
		return nil
	}
	r := newResult()
	var out fuse.EntryOut
	s := f.rfs.Link(nil, &fuse.LinkIn{InHeader: f.header(d), Oldnodeid: leaf.key}, name, &out)
	f.st(r, s)
	if s == fuse.OK {
		got := newResult()
		if f.entry(got, &out) != leaf {
			f.protocol("link-returned-another-node")
		}
		r.attr = got.attr
		r.ciDirs = []int{d}
	}
	return r
}

func (f *fuseFront) remove(d int, name string, rmdir, rmleaf, pick bool) (*result, bool, bool) {
	if !f.known(d) || (!rmdir && !rmleaf) {
		return nil, false, false
	}
	if rmdir && rmleaf {
		rmdir, rmleaf = pick, !pick
	}
	r := newResult()
	h := f.header(d)
	var s fuse.Status
	if rmdir {
		s = f.rfs.Rmdir(nil, &h, name)
	} else {
		s = f.rfs.Unlink(nil, &h, name)
	}
	f.st(r, s)
	r.ciDirs = []int{d}
	return r, rmdir, rmleaf
}

func (f *fuseFront) rename(d int, name string, d2 int, name2 string) *result {
	if !f.known(d) || !f.known(d2) {
		return nil
	}
	r := newResult()
	s := f.rfs.Rename(nil, &fuse.RenameIn{InHeader: f.header(d), Newdir: f.node(d2)}, name, name2)
	f.st(r, s)
	r.ciDirs = []int{d, d2}
	return r
}

// fuseList is the reply buffer of READDIR / READDIRPLUS: it holds a fixed
// number of entries.
type fuseList struct {
	room    int
	entries []fuse.DirEntry
	outs    []*fuse.EntryOut
}

func (l *fuseList) AddDirEntry(e fuse.DirEntry) bool {
	if len(l.entries) >= l.room {
		return false
	}
	l.entries = append(l.entries, e)
	l.outs = append(l.outs, nil)
	return true
}

func (l *fuseList) AddDirLookupEntry(e fuse.DirEntry) *fuse.EntryOut {
	if len(l.entries) >= l.room {
		return nil
	}
	out := &fuse.EntryOut{}
	l.entries = append(l.entries, e)
	l.outs = append(l.outs, out)
	return out
}

func (f *fuseFront) read(plus bool, d int, offset uint64, l *fuseList) fuse.Status {
	in := &fuse.ReadIn{InHeader: f.header(d), Offset: offset}
	if plus {
		return f.rfs.ReadDirPlus(nil, in, l)
	}
	return f.rfs.ReadDir(nil, in, l)
}

var dotNames = []string{".", ".."}

func isReserved(e fuse.DirEntry, idx int) bool {
	return e.Name == dotNames[idx] && e.Off == uint64(idx+1) && e.Mode&syscall.S_IFMT == syscall.S_IFDIR
}

func (f *fuseFront) readdir(d int, cookie uint64, page, variant int) (*result, string, int) {
	if !f.known(d) {
		return nil, "", 0
	}
	plus := variant&1 != 0
	r := newResult()
	offset, reservedLeft := uint64(0), 2
	if cookie > 0 {
		offset, reservedLeft = cookie+2, 0
	} else if variant&2 != 0 {
		// a reply buffer that only holds ".": the listing continues at offset 1
		l := &fuseList{room: 1}
		if s := f.read(plus, d, 0, l); s != fuse.OK || len(l.entries) != 1 || !isReserved(l.entries[0], 0) {
			f.protocol("reserved-entries")
		}
		offset, reservedLeft = 1, 1
	}
	cookieTerm := fmt.Sprintf("(cookie_of_off %d%%N)", offset)
	l := &fuseList{room: page + reservedLeft}
	s := f.read(plus, d, offset, l)
	f.st(r, s)
	if s != fuse.OK {
		return r, cookieTerm, page
	}
	es, outs := l.entries, l.outs
	for i := 0; i < reservedLeft; i++ {
		if len(es) == 0 || !isReserved(es[0], 2-reservedLeft+i) {
			f.protocol("reserved-entries")
			break
		}
		es, outs = es[1:], outs[1:]
	}
	for i, e := range es {
		term, leaf, dir, ok := f.object(e.Ino, e.Mode)
		re := rentry{name: e.Name, child: term, attr: -1, rawCookie: fmt.Sprintf("(cookie_of_off %d%%N)", e.Off)}
		if e.Off >= 2 {
			re.cookie = e.Off - 2
		}
		if out := outs[i]; out != nil && ok {
			// READDIRPLUS: a lookup of the object comes with the entry
			if out.NodeId != e.Ino || out.Ino != e.Ino {
				f.protocol("nodeid-differs-from-inode")
			}
			if out.Mode&syscall.S_IFMT != e.Mode&syscall.S_IFMT {
				f.protocol("file-type")
			}
			f.lookups[e.Ino]++
			if leaf != nil {
				re.attr = int64(out.Nlink)
			} else {
				re.fill, re.fillID = fillDirChange, dir
			}
		} else if ok {
			if leaf != nil {
				re.fill, re.fillID = fillLeafLinks, leaf.id
			} else {
				re.fill, re.fillID = fillDirChange, dir
			}
		}
		r.entries = append(r.entries, re)
	}
	return r, cookieTerm, page
}

// dirState: FUSE attributes carry no change counter, and a removed
// directory stays addressable for as long as the kernel holds its node.
func (f *fuseFront) dirState(d int) (uint64, bool, bool) { return 0, false, f.w.released[d] > 0 }

// leafLinks: st_nlink through GETATTR if the kernel holds the node.
func (f *fuseFront) leafLinks(l *fakeLeaf) int64 {
	if f.lookups[l.key] > 0 {
		var out fuse.AttrOut
		var s fuse.Status
		if safely(func() {
			s = f.rfs.GetAttr(nil, &fuse.GetAttrIn{InHeader: fuse.InHeader{NodeId: l.key}}, &out)
		}) || s != fuse.OK {
			f.protocol("getattr-of-held-node-failed")
			return -1
		}
		if out.Mode&syscall.S_IFMT != modeOfKind(l.kind) {
			f.protocol("file-type")
		}
		return int64(out.Nlink)
	}
	var attributes virtual.Attributes
	l.self.VirtualGetAttributes(context.Background(), virtual.AttributesMaskLinkCount, &attributes)
	return int64(attributes.GetLinkCount())
}

func (f *fuseFront) needsLookup() bool { return true }

func (f *fuseFront) held() []uint64 {
	var nodes []uint64
	for n, c := range f.lookups {
		if c > 0 {
			nodes = append(nodes, n)
		}
	}
	sort.Slice(nodes, func(i, j int) bool { return nodes[i] < nodes[j] })
	return nodes
}

// forget: the kernel drops all (mode 0) or one (mode 1) of its lookups of a node.
func (f *fuseFront) forget(sel, mode int) {
	nodes := f.held()
	if len(nodes) == 0 {
		return
	}
	n := nodes[sel%len(nodes)]
	count := f.lookups[n]
	if mode == 1 {
		count = 1
	}
	if safely(func() { f.rfs.Forget(n, count) }) {
		f.protocol("forget-does-not-balance-lookups")
	}
	f.lookups[n] -= count
}

// finish: at unmount the kernel forgets everything it holds.  The file
// system must have counted the same lookups (Forget panics if it counted
// fewer) and must not know the nodes afterwards (it counted more).  The
// second check comes last: asking about an unknown node makes the file
// system panic with its node lock read-held.
func (f *fuseFront) finish() {
	nodes := f.held()
	for _, n := range nodes {
		if safely(func() { f.rfs.Forget(n, f.lookups[n]) }) {
			f.protocol("forget-does-not-balance-lookups")
			return
		}
		f.lookups[n] = 0
	}
	for _, n := range nodes {
		if !safely(func() {
			f.rfs.GetAttr(nil, &fuse.GetAttrIn{InHeader: fuse.InHeader{NodeId: n}}, &fuse.AttrOut{})
		}) {
			f.protocol("node-still-known-after-forget")
			return
		}
	}
}
