// Harness for C13 (and the dynamic part of C14): drives the real
// virtual.NewInMemoryPrepopulatedDirectory through generated histories of
// kernel-facing (Virtual*) and worker-facing calls, with fakes for the file
// allocator, symlink factory and handle allocator that give every object an
// identity in allocation order, and records after every call its result,
// the change counter of every directory, the link count of every leaf, and
// whether every directory lock is free again (VerifLockIsFree).
package main

import (
	"context"
	"encoding/json"
	"errors"
	"fmt"
	"sort"
	"strings"
	"syscall"
	"time"

	"github.com/buildbarn/bb-remote-execution/pkg/filesystem/pool"
	"github.com/buildbarn/bb-remote-execution/pkg/filesystem/virtual"
	"github.com/buildbarn/bb-storage/pkg/clock"
	"github.com/buildbarn/bb-storage/pkg/filesystem"
	"github.com/buildbarn/bb-storage/pkg/filesystem/path"

	g "verif/harness/internal/gallina"
	"verif/harness/internal/hcommon"
	"verif/harness/internal/rng"
)

// ---- histories -------------------------------------------------------------

type cspec struct {
	N int `json:"n"` // name index
	K int `json:"k"` // 0 directory, 1 file, 2 symlink, 3 fifo, 4 socket
}

type hop struct {
	K  string  `json:"k"`
	D  int     `json:"d"`
	N  int     `json:"n,omitempty"`
	D2 int     `json:"d2,omitempty"`
	N2 int     `json:"n2,omitempty"`
	L  int     `json:"l,omitempty"`
	A  bool    `json:"a,omitempty"` // create / rmdir / overwrite / forbid / remove-uninitialised
	B  bool    `json:"b,omitempty"` // existing / rmleaf
	F  bool    `json:"f,omitempty"` // inject allocator failure
	M  int     `json:"m,omitempty"` // mknod kind / cookie mode
	P  int     `json:"p,omitempty"` // page size / raw cookie
	C  []cspec `json:"c,omitempty"`
	R  []int   `json:"r,omitempty"` // filter: leaves to remove
	S  int     `json:"s,omitempty"` // filter: 1 + leaf to stop at
	T  int     `json:"t,omitempty"` // hooks tag
}

type history struct {
	CI  bool  `json:"ci"`
	Ops []hop `json:"ops"`
}

var names = []string{"a", "A", ".h", "b", "B", ".H", "c", ".hx", "d", "C"}

const maxDirs = 10

type area struct{}

func (area) Requires() string {
	return "From VF Require Import Common.Verdict Dir.Model Dir.Corr.\nOpen Scope string_scope."
}
func (area) Check() string { return "check_case" }
func (area) Rule() string {
	return "histories of 40-100 calls (thorough: up to 300) on a tree of <=10 directories below a fresh root, names from {a,A,b,B,c,C,d,.h,.H,.hx} (.h* hidden), case-insensitive normaliser in every second history; calls: VirtualLookup/OpenChild/Mkdir/Mknod/Link/Remove/Rename/ReadDir (pages of 1-4, resumed from the last, an earlier or an arbitrary cookie), LookupChild, LookupAllChildren, ReadDir, Remove, RemoveAll, RemoveAllChildren, CreateChildren, CreateAndEnterPrepopulatedDirectory, FilterChildren, InstallHooks; 3% of the calls are a VirtualReadDir racing with a rename/mknod/unlink in the same directory while a parked VirtualOpenChild holds the lock of a child directory (the listing drops its lock and re-seeks; recorded as the two pages it must be equivalent to); allocator failures injected in 5% of creations; every history ends with a full listing of every directory; non-trivial = at least one successful rename that replaced an entry or crossed directories, one successful removal, and one multi-page listing read to its end; distinct by hash of the full case term"
}

func (area) Generate(r *rng.R, thorough bool, index int) json.RawMessage {
	n := 40 + r.Intn(61)
	if thorough {
		n = 60 + r.Intn(241)
	}
	h := history{CI: index%2 == 1}
	nd := 3 + r.Intn(6) // directory indices are taken modulo the number of existing directories
	nn := 3 + r.Intn(5)
	name := func() int { return r.Intn(nn) }
	for i := 0; i < n; i++ {
		o := hop{D: r.Intn(nd), N: name()}
		switch x := r.Intn(100); {
		case x < 8:
			o.K = "vlookup"
		case x < 17:
			o.K = "vopen"
			switch r.Intn(4) {
			case 0:
				o.A = true
			case 1:
				o.B = true
			default:
				o.A, o.B = true, true
			}
			o.F = r.Chance(5)
		case x < 27:
			o.K = "vmkdir"
		case x < 32:
			o.K = "vmknod"
			o.M = r.Intn(4)
			if r.Chance(10) {
				o.M = 3
			}
			o.F = r.Chance(5)
		case x < 38:
			o.K = "vlink"
			o.L = r.Intn(16)
			if r.Chance(5) {
				o.K = "vlinkforeign"
			}
		case x < 47:
			o.K = "vremove"
			switch r.Intn(4) {
			case 0:
				o.A = true
			case 1:
				o.B = true
			default:
				o.A, o.B = true, true
			}
		case x < 62:
			o.K = "vrename"
			o.D2, o.N2 = r.Intn(nd), name()
			if r.Chance(35) {
				o.D2 = o.D
			}
		case x < 77:
			o.K = "vreaddir"
			o.P = 1 + r.Intn(4)
			switch y := r.Intn(100); {
			case y < 25:
				o.M = 0
			case y < 85:
				o.M = 1
			case y < 93:
				o.M = 2
				o.L = r.Intn(8)
			default:
				o.M = 3
				o.L = r.Intn(12)
			}
		case x < 79:
			o.K = "lookupchild"
		case x < 81:
			o.K = "lookupall"
		case x < 83:
			o.K = "readdir"
		case x < 86:
			o.K = "remove"
		case x < 88:
			o.K = "removeall"
		case x < 90:
			o.K = "removeallchildren"
			o.A = r.Chance(50)
		case x < 94:
			o.K = "createchildren"
			o.A = r.Chance(50)
			for j, m := 0, 1+r.Intn(4); j < m; j++ {
				o.C = append(o.C, cspec{N: name(), K: r.Intn(5)})
			}
		case x < 97:
			o.K = "createandenter"
		case x < 99:
			o.K = "filter"
			for j, m := 0, r.Intn(4); j < m; j++ {
				o.R = append(o.R, r.Intn(16))
			}
			if r.Chance(30) {
				o.S = 1 + r.Intn(16)
			}
			o.A = r.Chance(50)
		default:
			o.K = "installhooks"
			o.T = 1 + r.Intn(3)
		}
		if r.Chance(3) {
			o = hop{K: "race", D: r.Intn(nd), N: name(), D2: r.Intn(nd), L: r.Intn(8), M: r.Intn(3), P: 1 + r.Intn(6)}
		}
		h.Ops = append(h.Ops, o)
	}
	data, _ := json.Marshal(h)
	return data
}

// ---- fakes -----------------------------------------------------------------

type world struct {
	dirs     []virtual.PrepopulatedDirectory
	dirID    map[virtual.Directory]int
	released []int
	leaves   []*fakeLeaf
	failNext bool
	logged   int

	// race support: the next NewFile parks (holding the lock of the directory
	// it creates the file in) until released; GetAttributes of directory
	// watchDir signals that VirtualReadDir is about to lock it.
	parkNext bool
	parked   chan struct{}
	release  chan struct{}
	watchDir int
	reached  chan int
	rows     func() int
}

const (
	kFile = iota + 1
	kSymlink
	kFifo
	kSocket
)

// fakeLeaf is the LinkableLeaf of the harness: an identity, a kind and a
// link count that follows Link()/Unlink().
type fakeLeaf struct {
	id    int
	kind  int
	nlink int
	tag   int
}

func (w *world) newLeaf(kind, tag int) *fakeLeaf {
	l := &fakeLeaf{id: len(w.leaves), kind: kind, nlink: 1, tag: tag}
	w.leaves = append(w.leaves, l)
	return l
}

func (l *fakeLeaf) fileType() filesystem.FileType {
	switch l.kind {
	case kFile:
		return filesystem.FileTypeRegularFile
	case kSymlink:
		return filesystem.FileTypeSymlink
	case kFifo:
		return filesystem.FileTypeFIFO
	default:
		return filesystem.FileTypeSocket
	}
}

func (l *fakeLeaf) VirtualGetAttributes(ctx context.Context, requested virtual.AttributesMask, attributes *virtual.Attributes) {
	attributes.SetChangeID(0)
	attributes.SetFileType(l.fileType())
	attributes.SetLinkCount(uint32(int32(l.nlink)))
	attributes.SetPermissions(virtual.PermissionsRead | virtual.PermissionsWrite)
	attributes.SetSizeBytes(0)
	attributes.SetInodeNumber(uint64(1000 + l.id))
}

func (l *fakeLeaf) VirtualSetAttributes(ctx context.Context, in *virtual.Attributes, requested virtual.AttributesMask, attributes *virtual.Attributes) virtual.Status {
	l.VirtualGetAttributes(ctx, requested, attributes)
	return virtual.StatusOK
}
func (l *fakeLeaf) VirtualApply(data any) bool { return false }
func (l *fakeLeaf) VirtualOpenNamedAttributes(ctx context.Context, createDirectory bool, requested virtual.AttributesMask, attributes *virtual.Attributes) (virtual.Directory, virtual.Status) {
	return nil, virtual.StatusErrNoEnt
}
func (l *fakeLeaf) VirtualAllocate(ctx context.Context, off, size uint64) virtual.Status {
	return virtual.StatusErrWrongType
}
func (l *fakeLeaf) VirtualSeek(ctx context.Context, offset uint64, regionType filesystem.RegionType) (*uint64, virtual.Status) {
	return nil, virtual.StatusErrWrongType
}
func (l *fakeLeaf) VirtualOpenSelf(ctx context.Context, shareAccess virtual.ShareMask, options *virtual.OpenExistingOptions, requested virtual.AttributesMask, attributes *virtual.Attributes) virtual.Status {
	switch l.kind {
	case kFile:
		l.VirtualGetAttributes(ctx, requested, attributes)
		return virtual.StatusOK
	case kSymlink:
		return virtual.StatusErrSymlink
	default:
		return virtual.StatusErrWrongType
	}
}
func (l *fakeLeaf) VirtualRead(ctx context.Context, buf []byte, offset uint64) (int, bool, virtual.Status) {
	return 0, true, virtual.StatusOK
}
func (l *fakeLeaf) VirtualClose(shareAccess virtual.ShareMask) {}
func (l *fakeLeaf) VirtualWrite(ctx context.Context, buf []byte, offset uint64) (int, virtual.Status) {
	return 0, virtual.StatusErrWrongType
}
func (l *fakeLeaf) Link() virtual.Status {
	// Like pool backed files: a regular file without links is gone.
	if l.kind == kFile && l.nlink <= 0 {
		return virtual.StatusErrStale
	}
	l.nlink++
	return virtual.StatusOK
}
func (l *fakeLeaf) Unlink() { l.nlink-- }

// foreignLeaf is a Leaf that is not a LinkableLeaf.
type foreignLeaf struct{ virtual.Leaf }

type fileAllocator struct {
	w   *world
	tag int
}

func (a *fileAllocator) NewFile(holeSource pool.HoleSource, isExecutable bool, size uint64, shareAccess virtual.ShareMask) (virtual.LinkableLeaf, error) {
	if a.w.failNext {
		a.w.failNext = false
		return nil, errors.New("injected allocation failure")
	}
	if a.w.parkNext {
		a.w.parkNext = false
		a.w.parked <- struct{}{}
		<-a.w.release
	}
	return a.w.newLeaf(kFile, a.tag), nil
}

type symlinkFactory struct {
	w   *world
	tag int
}

func (f *symlinkFactory) LookupSymlink(target path.Parser) (virtual.LinkableLeaf, error) {
	if f.w.failNext {
		f.w.failNext = false
		return nil, errors.New("injected symlink failure")
	}
	return f.w.newLeaf(kSymlink, f.tag), nil
}

type errorLogger struct{ w *world }

func (e errorLogger) Log(err error) { e.w.logged++ }

type handleAllocator struct{ w *world }

func (a *handleAllocator) New() virtual.StatefulHandleAllocation { return &handleAllocation{w: a.w} }

type handleAllocation struct{ w *world }

func (h *handleAllocation) AsStatelessAllocator() virtual.StatelessHandleAllocator {
	panic("harness: AsStatelessAllocator not expected")
}
func (h *handleAllocation) AsResolvableAllocator(resolver virtual.HandleResolver) virtual.ResolvableHandleAllocator {
	panic("harness: AsResolvableAllocator not expected")
}
func (h *handleAllocation) AsStatelessDirectory(directory virtual.Directory) virtual.Directory {
	panic("harness: AsStatelessDirectory not expected")
}
func (h *handleAllocation) AsLeaf(leaf virtual.Leaf) virtual.Leaf {
	panic("harness: AsLeaf not expected")
}

// AsLinkableLeaf is used for FIFOs and sockets made by VirtualMknod: the
// special file gets an identity and a link count like every other leaf.
func (h *handleAllocation) AsLinkableLeaf(leaf virtual.LinkableLeaf) virtual.LinkableLeaf {
	var attributes virtual.Attributes
	leaf.VirtualGetAttributes(context.Background(), virtual.AttributesMaskFileType, &attributes)
	kind := kSocket
	if attributes.GetFileType() == filesystem.FileTypeFIFO {
		kind = kFifo
	}
	return h.w.newLeaf(kind, 0)
}

type dirHandle struct {
	w  *world
	id int
}

func (h *handleAllocation) AsStatefulDirectory(directory virtual.Directory) virtual.StatefulDirectoryHandle {
	w := h.w
	id := len(w.dirs)
	w.dirs = append(w.dirs, directory.(virtual.PrepopulatedDirectory))
	w.dirID[directory] = id
	w.released = append(w.released, 0)
	return &dirHandle{w: w, id: id}
}
func (h *dirHandle) GetAttributes(requested virtual.AttributesMask, attributes *virtual.Attributes) {
	attributes.SetInodeNumber(uint64(h.id))
	if w := h.w; w.watchDir == h.id && w.reached != nil {
		ch := w.reached
		w.reached = nil
		ch <- w.rows()
	}
}
func (h *dirHandle) NotifyRemoval(name path.Component) {}
func (h *dirHandle) Release()                          { h.w.released[h.id]++ }

func hiddenMatcher(s string) bool { return strings.HasPrefix(s, ".h") }

// ---- printing --------------------------------------------------------------

var statusNames = map[virtual.Status]string{
	virtual.StatusOK: "SOK", virtual.StatusErrExist: "SExist", virtual.StatusErrIO: "SIO",
	virtual.StatusErrIsDir: "SIsDir", virtual.StatusErrNoEnt: "SNoEnt", virtual.StatusErrNotDir: "SNotDir",
	virtual.StatusErrNotEmpty: "SNotEmpty", virtual.StatusErrPerm: "SPerm", virtual.StatusErrStale: "SStale",
	virtual.StatusErrSymlink: "SSymlink", virtual.StatusErrWrongType: "SWrongType", virtual.StatusErrXDev: "SXDev",
	virtual.StatusErrInval: "SInval",
}

func statusName(s virtual.Status) string {
	if n, ok := statusNames[s]; ok {
		return n
	}
	return "SOther"
}

func errName(err error) string {
	if err == nil {
		return "SOK"
	}
	var errno syscall.Errno
	if errors.As(err, &errno) {
		switch errno {
		case syscall.ENOENT:
			return "SNoEnt"
		case syscall.EEXIST:
			return "SExist"
		case syscall.ENOTEMPTY:
			return "SNotEmpty"
		case syscall.EINVAL:
			return "SInval"
		}
	}
	return "SOther"
}

type rentry struct {
	cookie uint64
	name   string
	child  string
	attr   int64
}

type result struct {
	status  string
	child   string // "" = none
	attr    int64
	tag     int
	ci      [][2]uint64
	entries []rentry
	visited []int
	uninit  int
}

func newResult() *result { return &result{status: "SOK", attr: -1} }

func (r *result) term() string {
	child := "None"
	if r.child != "" {
		child = g.Some(r.child)
	}
	var ci, es, vs []string
	for _, c := range r.ci {
		ci = append(ci, "("+g.N(c[0])+", "+g.N(c[1])+")")
	}
	for _, e := range r.entries {
		es = append(es, g.App("mkR", g.N(e.cookie), g.Str(e.name), e.child, g.Z(e.attr)))
	}
	for _, v := range r.visited {
		vs = append(vs, fmt.Sprint(v))
	}
	return g.App("mkOut", r.status, child, g.Z(r.attr), fmt.Sprint(r.tag), g.List(ci), g.List(es), g.List(vs), fmt.Sprint(r.uninit))
}

func cdir(id int) string  { return fmt.Sprintf("(CDir %d)", id) }
func cleaf(id int) string { return fmt.Sprintf("(CLeaf %d)", id) }

// ---- execution -------------------------------------------------------------

const attrMask = virtual.AttributesMaskChangeID | virtual.AttributesMaskLinkCount | virtual.AttributesMaskFileType

type pageReporter struct {
	w    *world
	max  int
	rows []rentry
}

func (w *world) childTerm(directory virtual.Directory, leaf virtual.Leaf, attributes *virtual.Attributes) (string, int64) {
	if directory != nil {
		return cdir(w.dirID[directory]), int64(attributes.GetChangeID())
	}
	return cleaf(leaf.(*fakeLeaf).id), int64(int32(attributes.GetLinkCount()))
}

func (p *pageReporter) ReportEntry(nextCookie uint64, name path.Component, child virtual.DirectoryChild, attributes *virtual.Attributes) bool {
	if len(p.rows) >= p.max {
		return false
	}
	directory, leaf := child.GetPair()
	c, a := p.w.childTerm(directory, leaf, attributes)
	p.rows = append(p.rows, rentry{cookie: nextCookie, name: name.String(), child: c, attr: a})
	return true
}

// call runs f on its own goroutine so that a panic or a call that never
// returns ends the history instead of the harness.
func call(f func()) (status string) {
	done := make(chan string, 1)
	go func() {
		defer func() {
			if r := recover(); r != nil {
				done <- "SPanic"
			}
		}()
		f()
		done <- ""
	}()
	select {
	case s := <-done:
		return s
	case <-time.After(30 * time.Second):
		return "SHang"
	}
}

func (area) Execute(raw json.RawMessage) (term string, info *hcommon.Info, err error) {
	var h history
	if err := json.Unmarshal(raw, &h); err != nil {
		return "", nil, err
	}
	info = hcommon.NewInfo()
	ctx := context.Background()
	w := &world{dirID: map[virtual.Directory]int{}, watchDir: -1}
	normalizer := virtual.CaseSensitiveComponentNormalizer
	if h.CI {
		normalizer = virtual.CaseInsensitiveComponentNormalizer
	}
	norm := func(s string) string {
		if h.CI {
			return strings.ToLower(s)
		}
		return s
	}
	setter := func(requested virtual.AttributesMask, attributes *virtual.Attributes) {}
	virtual.NewInMemoryPrepopulatedDirectory(
		&fileAllocator{w: w}, &symlinkFactory{w: w}, errorLogger{w}, &handleAllocator{w: w},
		sort.Sort, hiddenMatcher, clock.SystemClock, normalizer, setter, virtual.NoNamedAttributesFactory)

	var ops, obs []string
	parent := map[int]int{}
	lastCookies := map[int][]uint64{} // cookies returned by the listing in progress, per directory
	stopped := false
	renameOK, removeOK, longListings := 0, 0, 0
	pagesInSession := map[int]int{}

	// observe appends the observation that follows a call.
	races := 0
	busy := -1                     // directory whose lock a parked call holds on purpose
	lastChange := map[int]uint64{} // change counters as last read
	observe := func(opTerm, method string, r *result) {
		ops = append(ops, opTerm)
		info.Events++
		info.Ops[method]++
		info.Outs[method+":"+r.status]++
		leak := ""
		free := make([]bool, len(w.dirs))
		for i, d := range w.dirs {
			free[i] = i != busy && virtual.VerifLockIsFree(d)
			if !free[i] && i != busy {
				leak = method
			}
		}
		var ds, ls []string
		for i, d := range w.dirs {
			changeID := lastChange[i] // a directory locked on purpose cannot have changed
			if free[i] {
				var attributes virtual.Attributes
				d.VirtualGetAttributes(ctx, virtual.AttributesMaskChangeID, &attributes)
				changeID = attributes.GetChangeID()
				lastChange[i] = changeID
			} else if i != busy {
				changeID = 0
			}
			ds = append(ds, "("+g.N(changeID)+", "+g.Bool(w.released[i] > 0)+")")
			if w.released[i] > 1 {
				info.Outs["double-release"]++
			}
		}
		for _, l := range w.leaves {
			ls = append(ls, g.Z(int64(l.nlink)))
		}
		obs = append(obs, g.App("mkObs", r.term(), g.App("mkDump", g.List(ds), g.List(ls)), g.Str(leak)))
		if leak != "" {
			info.Outs["lock-leak:"+method]++
			stopped = true
		}
		if r.status == "SPanic" || r.status == "SHang" {
			stopped = true
		}
		if len(w.dirs) > info.Extra["max_dirs"] {
			info.Extra["max_dirs"] = len(w.dirs)
		}
		if len(w.leaves) > info.Extra["max_leaves"] {
			info.Extra["max_leaves"] = len(w.leaves)
		}
	}

	// run executes body with the watchdog and fills in the status on panic/hang.
	run := func(r *result, body func()) {
		if s := call(body); s != "" {
			*r = *newResult()
			r.status = s
		}
	}

	vlookup := func(d int, name string) *result {
		r := newResult()
		run(r, func() {
			var attributes virtual.Attributes
			child, s := w.dirs[d].VirtualLookup(ctx, path.MustNewComponent(name), attrMask, &attributes)
			r.status = statusName(s)
			if s == virtual.StatusOK {
				directory, leaf := child.GetPair()
				r.child, r.attr = w.childTerm(directory, leaf, &attributes)
			}
		})
		observe(g.App("OVLookup", fmt.Sprint(d), g.Str(name)), "VirtualLookup", r)
		return r
	}

	readdirPage := func(d int, cookie uint64, page int) *result {
		r := newResult()
		run(r, func() {
			rep := &pageReporter{w: w, max: page}
			s := w.dirs[d].VirtualReadDir(ctx, cookie, attrMask, rep)
			r.status = statusName(s)
			r.entries = rep.rows
		})
		observe(g.App("OVReadDir", fmt.Sprint(d), g.N(cookie), fmt.Sprint(page)), "VirtualReadDir", r)
		return r
	}

	lookupAll := func(d int) {
		r := newResult()
		run(r, func() {
			directories, leaves, err := w.dirs[d].LookupAllChildren()
			r.status = errName(err)
			for _, e := range directories {
				r.entries = append(r.entries, rentry{name: e.Name.String(), child: cdir(w.dirID[virtual.Directory(e.Child)]), attr: -1})
			}
			for _, e := range leaves {
				r.entries = append(r.entries, rentry{name: e.Name.String(), child: cleaf(e.Child.(*fakeLeaf).id), attr: -1})
			}
		})
		observe(g.App("OLookupAll", fmt.Sprint(d)), "LookupAllChildren", r)
	}

	for _, o := range h.Ops {
		if stopped {
			break
		}
		d := o.D % len(w.dirs)
		dir := w.dirs[d]
		name := names[o.N%len(names)]
		comp := path.MustNewComponent(name)
		r := newResult()
		switch o.K {
		case "vlookup":
			vlookup(d, name)

		case "vopen":
			if !o.A && !o.B {
				continue
			}
			w.failNext = o.F
			run(r, func() {
				var createAttributes *virtual.Attributes
				if o.A {
					createAttributes = (&virtual.Attributes{}).SetPermissions(virtual.PermissionsRead | virtual.PermissionsWrite)
				}
				var existingOptions *virtual.OpenExistingOptions
				if o.B {
					existingOptions = &virtual.OpenExistingOptions{}
				}
				before := len(w.leaves)
				var attributes virtual.Attributes
				leaf, _, ci, s := dir.VirtualOpenChild(ctx, comp, virtual.ShareMaskRead, createAttributes, existingOptions, attrMask, &attributes)
				r.status = statusName(s)
				if s == virtual.StatusOK {
					fl := leaf.(*fakeLeaf)
					r.child = cleaf(fl.id)
					r.attr = int64(int32(attributes.GetLinkCount()))
					r.ci = [][2]uint64{{ci.Before, ci.After}}
					if len(w.leaves) > before {
						r.tag = fl.tag
					}
				}
			})
			w.failNext = false
			observe(g.App("OVOpen", fmt.Sprint(d), g.Str(name), g.Bool(o.A), g.Bool(o.B), g.Bool(o.F)), "VirtualOpenChild", r)

		case "vmkdir":
			if len(w.dirs) >= maxDirs {
				continue
			}
			run(r, func() {
				var attributes virtual.Attributes
				child, ci, s := dir.VirtualMkdir(ctx, comp, &virtual.Attributes{}, attrMask, &attributes)
				r.status = statusName(s)
				if s == virtual.StatusOK {
					id := w.dirID[child]
					r.child, r.attr = cdir(id), int64(attributes.GetChangeID())
					r.ci = [][2]uint64{{ci.Before, ci.After}}
					parent[id] = d
				}
			})
			observe(g.App("OVMkdir", fmt.Sprint(d), g.Str(name)), "VirtualMkdir", r)

		case "vmknod":
			kinds := []string{"MSymlink", "MFifo", "MSocket", "MBlock"}
			k := o.M % 4
			w.failNext = o.F && k == 0
			run(r, func() {
				createAttributes := &virtual.Attributes{}
				switch k {
				case 0:
					createAttributes.SetFileType(filesystem.FileTypeSymlink)
					createAttributes.SetSymlinkTarget(path.UNIXFormat.NewParser("target"))
				case 1:
					createAttributes.SetFileType(filesystem.FileTypeFIFO)
				case 2:
					createAttributes.SetFileType(filesystem.FileTypeSocket)
				default:
					createAttributes.SetFileType(filesystem.FileTypeBlockDevice)
				}
				var attributes virtual.Attributes
				leaf, ci, s := dir.VirtualMknod(ctx, comp, createAttributes, attrMask, &attributes)
				r.status = statusName(s)
				if s == virtual.StatusOK {
					fl := leaf.(*fakeLeaf)
					r.child, r.attr, r.tag = cleaf(fl.id), int64(int32(attributes.GetLinkCount())), fl.tag
					r.ci = [][2]uint64{{ci.Before, ci.After}}
				}
			})
			w.failNext = false
			observe(g.App("OVMknod", fmt.Sprint(d), g.Str(name), kinds[k], g.Bool(o.F && k == 0)), "VirtualMknod", r)

		case "vlink":
			if len(w.leaves) == 0 {
				continue
			}
			l := o.L % len(w.leaves)
			run(r, func() {
				var attributes virtual.Attributes
				ci, s := dir.VirtualLink(ctx, comp, w.leaves[l], attrMask, &attributes)
				r.status = statusName(s)
				if s == virtual.StatusOK {
					r.attr = int64(int32(attributes.GetLinkCount()))
					r.ci = [][2]uint64{{ci.Before, ci.After}}
				}
			})
			observe(g.App("OVLink", fmt.Sprint(d), g.Str(name), fmt.Sprint(l)), "VirtualLink", r)

		case "vlinkforeign":
			run(r, func() {
				var attributes virtual.Attributes
				_, s := dir.VirtualLink(ctx, comp, foreignLeaf{}, attrMask, &attributes)
				r.status = statusName(s)
			})
			observe(g.App("OVLinkForeign", fmt.Sprint(d), g.Str(name)), "VirtualLink", r)

		case "vremove":
			run(r, func() {
				ci, s := dir.VirtualRemove(ctx, comp, o.A, o.B)
				r.status = statusName(s)
				if s == virtual.StatusOK {
					r.ci = [][2]uint64{{ci.Before, ci.After}}
					removeOK++
				}
			})
			observe(g.App("OVRemove", fmt.Sprint(d), g.Str(name), g.Bool(o.A), g.Bool(o.B)), "VirtualRemove", r)

		case "vrename":
			d2 := o.D2 % len(w.dirs)
			name2 := names[o.N2%len(names)]
			// Learn what is about to be moved (a lookup is what the
			// kernel does before a rename anyway).
			pre := vlookup(d, name)
			if stopped {
				break
			}
			moved := -1
			if pre.status == "SOK" && strings.HasPrefix(pre.child, "(CDir ") {
				fmt.Sscanf(pre.child, "(CDir %d)", &moved)
			}
			replaced := false
			run(r, func() {
				ci1, ci2, s := dir.VirtualRename(ctx, comp, w.dirs[d2], path.MustNewComponent(name2))
				r.status = statusName(s)
				if s == virtual.StatusOK {
					r.ci = [][2]uint64{{ci1.Before, ci1.After}, {ci2.Before, ci2.After}}
					replaced = ci2.After-ci2.Before > 1 || d != d2
				}
			})
			observe(g.App("OVRename", fmt.Sprint(d), g.Str(name), fmt.Sprint(d2), g.Str(name2)), "VirtualRename", r)
			if r.status == "SOK" {
				if replaced {
					renameOK++
				}
				if moved >= 0 && (d != d2 || norm(name) != norm(name2)) {
					// Did the directory end up below itself?  From here on
					// the tree contains a cycle: recursive calls would not
					// terminate, so the history ends.
					for a, n := d2, 0; n <= len(w.dirs); n++ {
						if a == moved {
							info.Outs["moved-into-own-descendant"]++
							stopped = true
							break
						}
						p, ok := parent[a]
						if !ok {
							break
						}
						a = p
					}
					parent[moved] = d2
				}
			}

		case "vreaddir":
			cookie := uint64(0)
			prev := lastCookies[d]
			switch o.M {
			case 1:
				if len(prev) > 0 {
					cookie = prev[len(prev)-1]
				}
			case 2:
				if len(prev) > 0 {
					cookie = prev[o.L%len(prev)]
				}
			case 3:
				cookie = uint64(o.L)
			}
			page := o.P
			if page < 1 {
				page = 1
			}
			res := readdirPage(d, cookie, page)
			if res.status == "SOK" {
				if cookie == 0 {
					lastCookies[d] = nil
					pagesInSession[d] = 0
				} else if o.M == 2 || o.M == 3 {
					// rewind: keep the cookies up to the one resumed from
					keep := lastCookies[d][:0:0]
					found := false
					for _, c := range lastCookies[d] {
						if c <= cookie {
							keep = append(keep, c)
						}
						if c == cookie {
							found = true
						}
					}
					if !found {
						keep = nil
						pagesInSession[d] = -1000
					}
					lastCookies[d] = keep
				}
				for _, e := range res.entries {
					lastCookies[d] = append(lastCookies[d], e.cookie)
				}
				pagesInSession[d]++
				if len(res.entries) < page && pagesInSession[d] >= 2 {
					longListings++
				}
			}

		case "race":
			// VirtualReadDir of d racing with a mutation of d: a parked
			// VirtualOpenChild holds the lock of a child directory y, so the
			// listing has to drop d's lock when it reaches y; the mutation
			// runs in that window; then the parked call is released.  The
			// single listing is recorded as the two pages it must be
			// equivalent to: before y / from y on, with the mutation and the
			// parked call in between.
			full := readdirPage(d, 0, 1000)
			if stopped || full.status != "SOK" {
				break
			}
			var ys []int
			ynames := map[int]string{}
			for _, e := range full.entries {
				var id int
				if n, _ := fmt.Sscanf(e.child, "(CDir %d)", &id); n == 1 && id != d {
					ys = append(ys, id)
					ynames[id] = e.name
				}
			}
			if len(ys) == 0 {
				break
			}
			y := ys[o.L%len(ys)]
			page := o.P
			if page < 1 {
				page = 1
			}
			// 1. park a file creation inside y (y's lock stays held)
			w.parkNext, w.parked, w.release = true, make(chan struct{}, 1), make(chan struct{})
			fileName := "zz"
			g1 := newResult()
			g1done := make(chan string, 1)
			go func() {
				g1done <- call(func() {
					var attributes virtual.Attributes
					createAttributes := (&virtual.Attributes{}).SetPermissions(virtual.PermissionsRead)
					leaf, _, ci, s := w.dirs[y].VirtualOpenChild(ctx, path.MustNewComponent(fileName), virtual.ShareMaskRead, createAttributes, nil, attrMask, &attributes)
					g1.status = statusName(s)
					if s == virtual.StatusOK {
						fl := leaf.(*fakeLeaf)
						g1.child, g1.attr, g1.tag = cleaf(fl.id), int64(int32(attributes.GetLinkCount())), fl.tag
						g1.ci = [][2]uint64{{ci.Before, ci.After}}
					}
				})
			}()
			finishG1 := func() {
				if s := <-g1done; s != "" {
					*g1 = *newResult()
					g1.status = s
				}
				observe(g.App("OVOpen", fmt.Sprint(y), g.Str(fileName), "true", "false", "false"), "VirtualOpenChild", g1)
			}
			select {
			case <-w.parked:
			case s := <-g1done:
				// not parked: the name exists or y is removed; nothing to race with
				w.parkNext = false
				g1done <- s
				finishG1()
				continue
			}
			busy = y
			// 2. start the listing; it signals when it is about to lock y
			rep := &pageReporter{w: w, max: page}
			reached := make(chan int, 1)
			w.watchDir, w.reached, w.rows = y, reached, func() int { return len(rep.rows) }
			g2 := newResult()
			g2done := make(chan string, 1)
			go func() {
				g2done <- call(func() {
					s := w.dirs[d].VirtualReadDir(ctx, 0, attrMask, rep)
					g2.status = statusName(s)
				})
			}()
			k := -1
			select {
			case k = <-reached:
				// wait until the listing has let go of d
				for i := 0; i < 200000 && !virtual.VerifLockIsFree(w.dirs[d]); i++ {
					time.Sleep(10 * time.Microsecond)
				}
			case s := <-g2done:
				g2done <- s // the page ended before y
			}
			w.watchDir, w.reached = -1, nil
			if k >= 0 {
				info.Outs["race:listing-dropped-lock"]++
				// first half of the listing
				r1 := newResult()
				r1.entries = append([]rentry(nil), rep.rows[:k]...)
				observe(g.App("OVReadDir", fmt.Sprint(d), g.N(0), fmt.Sprint(k)), "VirtualReadDir", r1)
				// 3. the mutation
				mr := newResult()
				mut := o.M % 3
				if mut == 2 && norm(name) == norm(ynames[y]) {
					mut = 1 // unlinking y's name would need y's lock
				}
				switch mut {
				case 0: // move y (within d, or to a directory that is not below y)
					d2 := o.D2 % len(w.dirs)
					for a, n := d2, 0; n <= len(w.dirs); n++ {
						if a == y {
							d2 = d
							break
						}
						p, ok := parent[a]
						if !ok {
							break
						}
						a = p
					}
					races++
					newName := fmt.Sprintf("mv%d", races) // never bound: the rename must not need any child lock
					run(mr, func() {
						ci1, ci2, s := w.dirs[d].VirtualRename(ctx, path.MustNewComponent(ynames[y]), w.dirs[d2], path.MustNewComponent(newName))
						mr.status = statusName(s)
						if s == virtual.StatusOK {
							mr.ci = [][2]uint64{{ci1.Before, ci1.After}, {ci2.Before, ci2.After}}
							parent[y] = d2
							info.Outs["race:listed-entry-detached"]++
						}
					})
					observe(g.App("OVRename", fmt.Sprint(d), g.Str(ynames[y]), fmt.Sprint(d2), g.Str(newName)), "VirtualRename", mr)
				case 1: // add an entry to d
					newName := "added"
					run(mr, func() {
						var attributes virtual.Attributes
						createAttributes := (&virtual.Attributes{}).SetFileType(filesystem.FileTypeFIFO)
						leaf, ci, s := w.dirs[d].VirtualMknod(ctx, path.MustNewComponent(newName), createAttributes, attrMask, &attributes)
						mr.status = statusName(s)
						if s == virtual.StatusOK {
							fl := leaf.(*fakeLeaf)
							mr.child, mr.attr, mr.tag = cleaf(fl.id), int64(int32(attributes.GetLinkCount())), fl.tag
							mr.ci = [][2]uint64{{ci.Before, ci.After}}
						}
					})
					observe(g.App("OVMknod", fmt.Sprint(d), g.Str(newName), "MFifo", "false"), "VirtualMknod", mr)
				default: // unlink a file of d
					run(mr, func() {
						ci, s := w.dirs[d].VirtualRemove(ctx, comp, false, true)
						mr.status = statusName(s)
						if s == virtual.StatusOK {
							mr.ci = [][2]uint64{{ci.Before, ci.After}}
						}
					})
					observe(g.App("OVRemove", fmt.Sprint(d), g.Str(name), "false", "true"), "VirtualRemove", mr)
				}
			}
			// 4. let the parked creation finish, then the listing; both are
			// over before anything is observed again
			close(w.release)
			s1 := <-g1done
			s2 := <-g2done
			busy = -1
			g1done <- s1
			finishG1()
			if s2 != "" {
				*g2 = *newResult()
				g2.status = s2
			}
			if k < 0 {
				g2.entries = rep.rows
				observe(g.App("OVReadDir", fmt.Sprint(d), g.N(0), fmt.Sprint(page)), "VirtualReadDir", g2)
			} else {
				g2.entries = append([]rentry(nil), rep.rows[k:]...)
				c2 := uint64(0)
				if k > 0 {
					c2 = rep.rows[k-1].cookie
				}
				observe(g.App("OVReadDir", fmt.Sprint(d), g.N(c2), fmt.Sprint(page-k)), "VirtualReadDir", g2)
			}
			lastCookies[d] = nil
			pagesInSession[d] = -1000

		case "lookupchild":
			run(r, func() {
				child, err := dir.LookupChild(comp)
				r.status = errName(err)
				if err == nil {
					directory, leaf := child.GetPair()
					if directory != nil {
						r.child = cdir(w.dirID[virtual.Directory(directory)])
					} else {
						r.child = cleaf(leaf.(*fakeLeaf).id)
					}
				}
			})
			observe(g.App("OLookupChild", fmt.Sprint(d), g.Str(name)), "LookupChild", r)

		case "lookupall":
			lookupAll(d)

		case "readdir":
			run(r, func() {
				infos, err := dir.ReadDir()
				r.status = errName(err)
				for _, fi := range infos {
					e := rentry{name: fi.Name().String(), child: "(CLeaf 0)"}
					switch fi.Type() {
					case filesystem.FileTypeDirectory:
						e.child, e.attr = "(CDir 0)", 0
					case filesystem.FileTypeRegularFile:
						e.attr = 1
					case filesystem.FileTypeSymlink:
						e.attr = 2
					case filesystem.FileTypeFIFO:
						e.attr = 3
					case filesystem.FileTypeSocket:
						e.attr = 4
					default:
						e.attr = -1
					}
					r.entries = append(r.entries, e)
				}
			})
			observe(g.App("OReadDir", fmt.Sprint(d)), "ReadDir", r)

		case "remove":
			run(r, func() {
				err := dir.Remove(comp)
				r.status = errName(err)
				if err == nil {
					removeOK++
				}
			})
			observe(g.App("ORemove", fmt.Sprint(d), g.Str(name)), "Remove", r)

		case "removeall":
			run(r, func() { r.status = errName(dir.RemoveAll(comp)) })
			observe(g.App("ORemoveAll", fmt.Sprint(d), g.Str(name)), "RemoveAll", r)

		case "removeallchildren":
			run(r, func() { r.status = errName(dir.RemoveAllChildren(o.A)) })
			observe(g.App("ORemoveAllChildren", fmt.Sprint(d), g.Bool(o.A)), "RemoveAllChildren", r)

		case "createchildren":
			// Names that collide under the normaliser would make attach()
			// panic: callers must not pass them.
			seen := map[string]bool{}
			var cs []string
			children := map[path.Component]virtual.InitialChild{}
			var created []*fakeLeaf
			newDirs := 0
			for _, c := range o.C {
				n := names[c.N%len(names)]
				if seen[norm(n)] {
					continue
				}
				k := c.K % 5
				if k == 0 && len(w.dirs)+newDirs >= maxDirs {
					continue
				}
				seen[norm(n)] = true
				if k == 0 {
					newDirs++
					children[path.MustNewComponent(n)] = virtual.InitialChild{}.FromDirectory(virtual.EmptyInitialContentsFetcher)
					cs = append(cs, "("+g.Str(n)+", NewDirC)")
				} else {
					l := w.newLeaf(k, 0)
					created = append(created, l)
					children[path.MustNewComponent(n)] = virtual.InitialChild{}.FromLeaf(l)
					cs = append(cs, "("+g.Str(n)+", NewLeafC "+[]string{"", "KFile", "KSymlink", "KFifo", "KSocket"}[k]+")")
				}
			}
			before := len(w.dirs)
			run(r, func() {
				err := dir.CreateChildren(children, o.A)
				r.status = errName(err)
				if err != nil {
					// a failed call does not take over the references
					for _, l := range created {
						l.Unlink()
					}
				}
			})
			for id := before; id < len(w.dirs); id++ {
				parent[id] = d
			}
			observe(g.App("OCreateChildren", fmt.Sprint(d), g.List(cs), g.Bool(o.A)), "CreateChildren", r)

		case "createandenter":
			if len(w.dirs) >= maxDirs {
				continue
			}
			before := len(w.dirs)
			run(r, func() {
				child, err := dir.CreateAndEnterPrepopulatedDirectory(comp)
				r.status = errName(err)
				if err == nil {
					r.child = cdir(w.dirID[virtual.Directory(child)])
				}
			})
			for id := before; id < len(w.dirs); id++ {
				parent[id] = d
			}
			observe(g.App("OCreateAndEnter", fmt.Sprint(d), g.Str(name)), "CreateAndEnterPrepopulatedDirectory", r)

		case "filter":
			rm := map[int]bool{}
			var rmTerms []string
			stop := -1
			if len(w.leaves) > 0 {
				for _, x := range o.R {
					l := x % len(w.leaves)
					if !rm[l] {
						rm[l] = true
						rmTerms = append(rmTerms, fmt.Sprint(l))
					}
				}
				if o.S > 0 {
					stop = (o.S - 1) % len(w.leaves)
				}
			}
			run(r, func() {
				err := dir.FilterChildren(func(node virtual.InitialChild, remove virtual.ChildRemover) bool {
					_, leaf := node.GetPair()
					if leaf == nil {
						r.uninit++
						if o.A {
							remove()
						}
						return true
					}
					id := leaf.(*fakeLeaf).id
					r.visited = append(r.visited, id)
					if id == stop {
						return false
					}
					if rm[id] {
						remove()
					}
					return true
				})
				r.status = errName(err)
			})
			stopTerm := "None"
			if stop >= 0 {
				stopTerm = g.Some(fmt.Sprint(stop))
			}
			observe(g.App("OFilter", fmt.Sprint(d), g.List(rmTerms), stopTerm, g.Bool(o.A)), "FilterChildren", r)

		case "installhooks":
			tag := o.T
			run(r, func() {
				dir.InstallHooks(&fileAllocator{w: w, tag: tag}, &symlinkFactory{w: w, tag: tag}, errorLogger{w}, setter, virtual.NoNamedAttributesFactory)
			})
			observe(g.App("OInstallHooks", fmt.Sprint(d), fmt.Sprint(tag)), "InstallHooks", r)

		default:
			return "", nil, fmt.Errorf("unknown op %q", o.K)
		}
	}

	// Final contents: a complete listing of every directory, both ways.
	for d := 0; d < len(w.dirs) && !stopped; d++ {
		readdirPage(d, 0, 1000)
		if !stopped {
			lookupAll(d)
		}
	}

	info.Nontrivial = renameOK > 0 && removeOK > 0 && longListings > 0
	info.Extra["max_listing_sessions"] = longListings
	return g.App("mkCase", g.Bool(h.CI), g.List(ops), g.List(obs)), info, nil
}

func main() { hcommon.Main(area{}) }
