// Harness for C13 (and the dynamic part of C14): drives the real
// virtual.NewInMemoryPrepopulatedDirectory through generated histories of
// kernel-facing (Virtual*) and worker-facing calls, with fakes for the file
// allocator, symlink factory and handle allocator that give every object an
// identity in allocation order, and records after every call its result,
// the change counter of every directory, the link count of every leaf, and
// whether every directory lock is free again (VerifLockIsFree).
//
// A history names the front end its kernel-facing calls are delivered
// through: "direct" (the virtual.Directory API), "fuse"
// (fuse.NewSimpleRawFileSystem, front_fuse.go) or "nfs41" / "nfs40"
// (NewNFS41Program / NewNFS40Program COMPOUNDs over NewNFSHandleAllocator,
// front_nfs.go).  What the front end
// answers is canonicalised (front.go, coq/theories/Dir/Front.v) into the
// same case record and judged by the same Dir.Corr.check_case.
package main

import (
	"bytes"
	"context"
	"encoding/json"
	"errors"
	"fmt"
	"sort"
	"strings"
	"sync/atomic"
	"syscall"
	"time"

	"github.com/buildbarn/bb-remote-execution/pkg/filesystem/pool"
	"github.com/buildbarn/bb-remote-execution/pkg/filesystem/virtual"
	"github.com/buildbarn/bb-storage/pkg/clock"
	"github.com/buildbarn/bb-storage/pkg/filesystem"
	"github.com/buildbarn/bb-storage/pkg/filesystem/path"

	g "verif/harness/internal/gallina"
	"verif/harness/internal/hcommon"
	"verif/harness/internal/rng"
)

// ---- histories -------------------------------------------------------------

type cspec struct {
	N int `json:"n"` // name index
	K int `json:"k"` // 0 directory, 1 file, 2 symlink, 3 fifo, 4 socket
}

type hop struct {
	K  string  `json:"k"`
	D  int     `json:"d"`
	N  int     `json:"n,omitempty"`
	D2 int     `json:"d2,omitempty"`
	N2 int     `json:"n2,omitempty"`
	L  int     `json:"l,omitempty"`
	A  bool    `json:"a,omitempty"` // create / rmdir / overwrite / forbid / remove-uninitialised
	B  bool    `json:"b,omitempty"` // existing / rmleaf
	F  bool    `json:"f,omitempty"` // inject allocator failure
	M  int     `json:"m,omitempty"` // mknod kind / cookie mode
	P  int     `json:"p,omitempty"` // page size / raw cookie
	C  []cspec `json:"c,omitempty"`
	R  []int   `json:"r,omitempty"` // filter: leaves to remove
	S  int     `json:"s,omitempty"` // filter: 1 + leaf to stop at
	T  int     `json:"t,omitempty"` // hooks tag
	V  int     `json:"v,omitempty"` // front-end variant of a listing (FUSE: bit 0 ReadDirPlus, bit 1 "." and ".." fetched on their own; NFS: bit 0 zero cookie verifier, bit 1 dircount limit)
}

type history struct {
	CI    bool   `json:"ci"`
	Front string `json:"front,omitempty"` // "" / "direct", "fuse", "nfs41", "nfs40"
	Ops   []hop  `json:"ops"`
}

var names = []string{"a", "A", ".h", "b", "B", ".H", "c", ".hx", "d", "C"}

const maxDirs = 10

type area struct{}

func (area) Requires() string {
	return "From VF Require Import Common.Verdict Dir.Model Dir.Corr Dir.Front.\nOpen Scope string_scope."
}
func (area) Check() string { return "check_fcase" }
func (area) Rule() string {
	return "histories of 40-100 calls (thorough: up to 300) on a tree of <=10 directories below a fresh root, names from {a,A,b,B,c,C,d,.h,.H,.hx} (.h* hidden), case-insensitive normaliser in every second history; calls: VirtualLookup/OpenChild/Mkdir/Mknod/Link/Remove/Rename/ReadDir (pages of 1-4, resumed from the last, an earlier or an arbitrary cookie), LookupChild, LookupAllChildren, ReadDir, Remove, RemoveAll, RemoveAllChildren, CreateChildren, CreateAndEnterPrepopulatedDirectory, FilterChildren, InstallHooks; 3% of the calls are a VirtualReadDir racing with a rename/mknod/unlink in the same directory while a parked VirtualOpenChild holds the lock of a child directory (the listing drops its lock and re-seeks; recorded as the two pages it must be equivalent to); allocator failures injected in 5% of creations; the kernel-facing calls of a history are delivered through one front end: the virtual.Directory API (quick 70% / thorough 50%), fuse.NewSimpleRawFileSystem (15% / 25%: Lookup, Create, Open, Mkdir, Mknod, Symlink, Link, Unlink, Rmdir, Rename, ReadDir / ReadDirPlus at the offsets received, GetAttr, Forget of all or one lookup in 4% of the calls, everything forgotten at the end) or NFSv4 COMPOUNDs (15% / 25%, two thirds NewNFS41Program, one third NewNFS40Program, over NewNFSHandleAllocator: PUTROOTFH/PUTFH, LOOKUP, OPEN+CLOSE, CREATE, LINK, REMOVE, RENAME, READDIR with cookie and verifier, GETFH, GETATTR of type/change/filehandle/numlinks after every call for every object); calls a front end cannot deliver (node not held, stale handle) and the worker-facing calls use the API directly; every history ends with a full listing of every directory; non-trivial = at least one successful rename that replaced an entry or crossed directories, one successful removal, and one multi-page listing read to its end; distinct by hash of the full case term"
}

func (area) Generate(r *rng.R, thorough bool, index int) json.RawMessage {
	n := 40 + r.Intn(61)
	if thorough {
		n = 60 + r.Intn(241)
	}
	h := history{CI: index%2 == 1, Front: "direct"}
	// front end of the kernel-facing calls: quick 70/15/15, thorough 50/25/25
	cut := 70
	if thorough {
		cut = 50
	}
	if x := r.Intn(100); x >= cut+(100-cut)/2 {
		h.Front = "nfs41"
		if r.Intn(3) == 0 {
			h.Front = "nfs40" // NFSv4.0 has its own copies of the directory operations
		}
	} else if x >= cut {
		h.Front = "fuse"
	}
	nd := 3 + r.Intn(6) // directory indices are taken modulo the number of existing directories
	nn := 3 + r.Intn(5)
	name := func() int { return r.Intn(nn) }
	for i := 0; i < n; i++ {
		o := hop{D: r.Intn(nd), N: name()}
		switch x := r.Intn(100); {
		case x < 8:
			o.K = "vlookup"
		case x < 17:
			o.K = "vopen"
			switch r.Intn(4) {
			case 0:
				o.A = true
			case 1:
				o.B = true
			default:
				o.A, o.B = true, true
			}
			o.F = r.Chance(5)
		case x < 27:
			o.K = "vmkdir"
		case x < 32:
			o.K = "vmknod"
			o.M = r.Intn(4)
			if r.Chance(10) {
				o.M = 3
			}
			o.F = r.Chance(5)
		case x < 38:
			o.K = "vlink"
			o.L = r.Intn(16)
			if r.Chance(5) {
				o.K = "vlinkforeign"
			}
		case x < 47:
			o.K = "vremove"
			switch r.Intn(4) {
			case 0:
				o.A = true
			case 1:
				o.B = true
			default:
				o.A, o.B = true, true
			}
		case x < 62:
			o.K = "vrename"
			o.D2, o.N2 = r.Intn(nd), name()
			if r.Chance(35) {
				o.D2 = o.D
			}
		case x < 77:
			o.K = "vreaddir"
			o.P = 1 + r.Intn(4)
			o.V = r.Intn(4)
			switch y := r.Intn(100); {
			case y < 25:
				o.M = 0
			case y < 85:
				o.M = 1
			case y < 93:
				o.M = 2
				o.L = r.Intn(8)
			default:
				o.M = 3
				o.L = r.Intn(12)
			}
		case x < 79:
			o.K = "lookupchild"
		case x < 81:
			o.K = "lookupall"
		case x < 83:
			o.K = "readdir"
		case x < 86:
			o.K = "remove"
		case x < 88:
			o.K = "removeall"
		case x < 90:
			o.K = "removeallchildren"
			o.A = r.Chance(50)
		case x < 94:
			o.K = "createchildren"
			o.A = r.Chance(50)
			for j, m := 0, 1+r.Intn(4); j < m; j++ {
				o.C = append(o.C, cspec{N: name(), K: r.Intn(5)})
			}
		case x < 97:
			o.K = "createandenter"
		case x < 99:
			o.K = "filter"
			for j, m := 0, r.Intn(4); j < m; j++ {
				o.R = append(o.R, r.Intn(16))
			}
			if r.Chance(30) {
				o.S = 1 + r.Intn(16)
			}
			o.A = r.Chance(50)
		default:
			o.K = "installhooks"
			o.T = 1 + r.Intn(3)
		}
		if r.Chance(3) {
			o = hop{K: "race", D: r.Intn(nd), N: name(), D2: r.Intn(nd), L: r.Intn(8), M: r.Intn(3), P: 1 + r.Intn(6)}
		}
		if h.Front == "fuse" && r.Chance(4) {
			// the kernel drops (M=0: all, M=1: one of) its references to a node
			o = hop{K: "forget", L: r.Intn(32), M: r.Intn(2)}
		}
		h.Ops = append(h.Ops, o)
	}
	data, _ := json.Marshal(h)
	return data
}

// ---- fakes -----------------------------------------------------------------

type world struct {
	dirs     []virtual.PrepopulatedDirectory
	dirID    map[virtual.Directory]int
	released []int
	leaves   []*fakeLeaf
	failNext bool
	logged   int

	// front-end histories: objects get their handles from the real handle
	// allocator of the front end (inode numbers / file handles), wrapped so
	// that the harness still numbers them in allocation order.
	realAlloc virtual.StatefulHandleAllocator
	byObj     map[virtual.Leaf]*fakeLeaf // handle-decorated leaf -> fake
	keyDir    map[uint64]int             // inode number (= file handle) -> directory
	keyLeaf   map[uint64]int
	dirKey    []uint64

	// race support: the next NewFile parks (holding the lock of the directory
	// it creates the file in) until released; GetAttributes of directory
	// watchDir signals that VirtualReadDir is about to lock it.
	parkNext bool
	parked   chan struct{}
	release  chan struct{}
	watchDir int
	reached  chan int
	rows     func() int
}

const (
	kFile = iota + 1
	kSymlink
	kFifo
	kSocket
)

// fakeLeaf is the LinkableLeaf of the harness: an identity, a kind and a
// link count that follows Link()/Unlink().
type fakeLeaf struct {
	id    int
	kind  int
	nlink int
	tag   int
	self  virtual.LinkableLeaf // what directories hold: the leaf itself, or the leaf decorated by the front end's handle allocator
	key   uint64               // inode number given by the front end's handle allocator
}

func (w *world) newLeaf(kind, tag int) *fakeLeaf {
	l := &fakeLeaf{kind: kind, nlink: 1, tag: tag}
	l.self = l
	if w.realAlloc != nil {
		// (first the allocator, then the harness' tables: if the allocator
		// blocks forever no half-made object is left behind)
		l.self = w.realAlloc.New().AsLinkableLeaf(l)
		var attributes virtual.Attributes
		l.self.VirtualGetAttributes(context.Background(), virtual.AttributesMaskInodeNumber, &attributes)
		l.key = attributes.GetInodeNumber()
	}
	l.id = len(w.leaves)
	w.leaves = append(w.leaves, l)
	if w.realAlloc != nil {
		w.byObj[l.self] = l
		w.keyLeaf[l.key] = l.id
	}
	return l
}

// leafOf maps a leaf handed out by the directory code back to the fake.
func (w *world) leafOf(leaf virtual.Leaf) *fakeLeaf {
	if l, ok := leaf.(*fakeLeaf); ok {
		return l
	}
	if l, ok := w.byObj[leaf]; ok {
		return l
	}
	panic("harness: unknown leaf object")
}

func (l *fakeLeaf) fileType() filesystem.FileType {
	switch l.kind {
	case kFile:
		return filesystem.FileTypeRegularFile
	case kSymlink:
		return filesystem.FileTypeSymlink
	case kFifo:
		return filesystem.FileTypeFIFO
	default:
		return filesystem.FileTypeSocket
	}
}

func (l *fakeLeaf) VirtualGetAttributes(ctx context.Context, requested virtual.AttributesMask, attributes *virtual.Attributes) {
	attributes.SetChangeID(0)
	attributes.SetFileType(l.fileType())
	attributes.SetLinkCount(uint32(int32(l.nlink)))
	attributes.SetPermissions(virtual.PermissionsRead | virtual.PermissionsWrite)
	attributes.SetSizeBytes(0)
	attributes.SetInodeNumber(uint64(1000 + l.id))
	attributes.SetIsInNamedAttributeDirectory(false)
	attributes.SetHasNamedAttributes(false)
}

func (l *fakeLeaf) VirtualSetAttributes(ctx context.Context, in *virtual.Attributes, requested virtual.AttributesMask, attributes *virtual.Attributes) virtual.Status {
	l.VirtualGetAttributes(ctx, requested, attributes)
	return virtual.StatusOK
}
func (l *fakeLeaf) VirtualApply(data any) bool { return false }
func (l *fakeLeaf) VirtualOpenNamedAttributes(ctx context.Context, createDirectory bool, requested virtual.AttributesMask, attributes *virtual.Attributes) (virtual.Directory, virtual.Status) {
	return nil, virtual.StatusErrNoEnt
}
func (l *fakeLeaf) VirtualAllocate(ctx context.Context, off, size uint64) virtual.Status {
	return virtual.StatusErrWrongType
}
func (l *fakeLeaf) VirtualSeek(ctx context.Context, offset uint64, regionType filesystem.RegionType) (*uint64, virtual.Status) {
	return nil, virtual.StatusErrWrongType
}
func (l *fakeLeaf) VirtualOpenSelf(ctx context.Context, shareAccess virtual.ShareMask, options *virtual.OpenExistingOptions, requested virtual.AttributesMask, attributes *virtual.Attributes) virtual.Status {
	switch l.kind {
	case kFile:
		l.VirtualGetAttributes(ctx, requested, attributes)
		return virtual.StatusOK
	case kSymlink:
		return virtual.StatusErrSymlink
	default:
		return virtual.StatusErrWrongType
	}
}
func (l *fakeLeaf) VirtualRead(ctx context.Context, buf []byte, offset uint64) (int, bool, virtual.Status) {
	return 0, true, virtual.StatusOK
}
func (l *fakeLeaf) VirtualClose(shareAccess virtual.ShareMask) {}
func (l *fakeLeaf) VirtualWrite(ctx context.Context, buf []byte, offset uint64) (int, virtual.Status) {
	return 0, virtual.StatusErrWrongType
}
func (l *fakeLeaf) Link() virtual.Status {
	// Like pool backed files: a regular file without links is gone.
	if l.kind == kFile && l.nlink <= 0 {
		return virtual.StatusErrStale
	}
	l.nlink++
	return virtual.StatusOK
}
func (l *fakeLeaf) Unlink() { l.nlink-- }

// foreignLeaf is a Leaf that is not a LinkableLeaf.
type foreignLeaf struct{ virtual.Leaf }

type fileAllocator struct {
	w   *world
	tag int
}

func (a *fileAllocator) NewFile(holeSource pool.HoleSource, isExecutable bool, size uint64, shareAccess virtual.ShareMask) (virtual.LinkableLeaf, error) {
	if a.w.failNext {
		a.w.failNext = false
		return nil, errors.New("injected allocation failure")
	}
	if a.w.parkNext {
		a.w.parkNext = false
		a.w.parked <- struct{}{}
		<-a.w.release
	}
	return a.w.newLeaf(kFile, a.tag).self, nil
}

type symlinkFactory struct {
	w   *world
	tag int
}

func (f *symlinkFactory) LookupSymlink(target path.Parser) (virtual.LinkableLeaf, error) {
	if f.w.failNext {
		f.w.failNext = false
		return nil, errors.New("injected symlink failure")
	}
	return f.w.newLeaf(kSymlink, f.tag).self, nil
}

type errorLogger struct{ w *world }

func (e errorLogger) Log(err error) { e.w.logged++ }

type handleAllocator struct{ w *world }

func (a *handleAllocator) New() virtual.StatefulHandleAllocation { return &handleAllocation{w: a.w} }

type handleAllocation struct{ w *world }

func (h *handleAllocation) AsStatelessAllocator() virtual.StatelessHandleAllocator {
	panic("harness: AsStatelessAllocator not expected")
}
func (h *handleAllocation) AsResolvableAllocator(resolver virtual.HandleResolver) virtual.ResolvableHandleAllocator {
	panic("harness: AsResolvableAllocator not expected")
}
func (h *handleAllocation) AsStatelessDirectory(directory virtual.Directory) virtual.Directory {
	panic("harness: AsStatelessDirectory not expected")
}
func (h *handleAllocation) AsLeaf(leaf virtual.Leaf) virtual.Leaf {
	panic("harness: AsLeaf not expected")
}

// AsLinkableLeaf is used for FIFOs and sockets made by VirtualMknod: the
// special file gets an identity and a link count like every other leaf.
func (h *handleAllocation) AsLinkableLeaf(leaf virtual.LinkableLeaf) virtual.LinkableLeaf {
	var attributes virtual.Attributes
	leaf.VirtualGetAttributes(context.Background(), virtual.AttributesMaskFileType, &attributes)
	kind := kSocket
	if attributes.GetFileType() == filesystem.FileTypeFIFO {
		kind = kFifo
	}
	return h.w.newLeaf(kind, 0).self
}

type dirHandle struct {
	w    *world
	id   int
	real virtual.StatefulDirectoryHandle // front-end histories: the handle of the front end's allocator
}

func (h *handleAllocation) AsStatefulDirectory(directory virtual.Directory) virtual.StatefulDirectoryHandle {
	w := h.w
	dh := &dirHandle{w: w}
	var key uint64
	if w.realAlloc != nil {
		// (first the allocator, then the harness' tables: if the allocator
		// blocks forever no half-made directory is left behind)
		dh.real = w.realAlloc.New().AsStatefulDirectory(directory)
		var attributes virtual.Attributes
		dh.real.GetAttributes(virtual.AttributesMaskInodeNumber, &attributes)
		key = attributes.GetInodeNumber()
	}
	id := len(w.dirs)
	dh.id = id
	if w.realAlloc != nil {
		w.keyDir[key] = id
	} else {
		key = uint64(id)
	}
	w.dirs = append(w.dirs, directory.(virtual.PrepopulatedDirectory))
	w.dirID[directory] = id
	w.released = append(w.released, 0)
	w.dirKey = append(w.dirKey, key)
	return dh
}
func (h *dirHandle) GetAttributes(requested virtual.AttributesMask, attributes *virtual.Attributes) {
	if h.real != nil {
		h.real.GetAttributes(requested, attributes)
	} else {
		attributes.SetInodeNumber(uint64(h.id))
	}
	if w := h.w; w.watchDir == h.id && w.reached != nil {
		ch := w.reached
		w.reached = nil
		ch <- w.rows()
	}
}
func (h *dirHandle) NotifyRemoval(name path.Component) {
	if h.real != nil {
		h.real.NotifyRemoval(name)
	}
}
func (h *dirHandle) Release() {
	h.w.released[h.id]++
	if h.real != nil {
		h.real.Release()
	}
}

func hiddenMatcher(s string) bool { return strings.HasPrefix(s, ".h") }

// ---- printing --------------------------------------------------------------

var statusNames = map[virtual.Status]string{
	virtual.StatusOK: "SOK", virtual.StatusErrExist: "SExist", virtual.StatusErrIO: "SIO",
	virtual.StatusErrIsDir: "SIsDir", virtual.StatusErrNoEnt: "SNoEnt", virtual.StatusErrNotDir: "SNotDir",
	virtual.StatusErrNotEmpty: "SNotEmpty", virtual.StatusErrPerm: "SPerm", virtual.StatusErrStale: "SStale",
	virtual.StatusErrSymlink: "SSymlink", virtual.StatusErrWrongType: "SWrongType", virtual.StatusErrXDev: "SXDev",
	virtual.StatusErrInval: "SInval",
}

func statusName(s virtual.Status) string {
	if n, ok := statusNames[s]; ok {
		return n
	}
	return "SOther"
}

func errName(err error) string {
	if err == nil {
		return "SOK"
	}
	var errno syscall.Errno
	if errors.As(err, &errno) {
		switch errno {
		case syscall.ENOENT:
			return "SNoEnt"
		case syscall.EEXIST:
			return "SExist"
		case syscall.ENOTEMPTY:
			return "SNotEmpty"
		case syscall.EINVAL:
			return "SInval"
		}
	}
	return "SOther"
}

type rentry struct {
	cookie uint64
	name   string
	child  string
	attr   int64

	// front-end histories
	rawCookie string // the offset as the front end sent it, under the adapter's decoding function
	fill      int    // the front end does not transport the attribute: fillDirChange / fillLeafLinks from the dump
	fillID    int
}

const (
	fillNone = iota
	fillDirChange
	fillLeafLinks
)

type result struct {
	status  string
	child   string // "" = none
	attr    int64
	tag     int
	ci      [][2]uint64
	entries []rentry
	visited []int
	uninit  int

	// front-end histories
	rawStatus string // the status number as the front end sent it, under the adapter's decoding function
	attrDir   int    // >= 0: the front end does not transport change counters: attr = counter of that directory in the dump
	ciDirs    []int  // the front end does not transport ChangeInfo: (before, after) of these directories from the dumps
}

func newResult() *result { return &result{status: "SOK", attr: -1, attrDir: -1} }

func (r *result) term() string {
	child := "None"
	if r.child != "" {
		child = g.Some(r.child)
	}
	var ci, es, vs []string
	for _, c := range r.ci {
		ci = append(ci, "("+g.N(c[0])+", "+g.N(c[1])+")")
	}
	for _, e := range r.entries {
		cookie := g.N(e.cookie)
		if e.rawCookie != "" {
			cookie = e.rawCookie
		}
		es = append(es, g.App("mkR", cookie, g.Str(e.name), e.child, g.Z(e.attr)))
	}
	for _, v := range r.visited {
		vs = append(vs, fmt.Sprint(v))
	}
	status := r.status
	if r.rawStatus != "" {
		status = r.rawStatus
	}
	return g.App("mkOut", status, child, g.Z(r.attr), fmt.Sprint(r.tag), g.List(ci), g.List(es), g.List(vs), fmt.Sprint(r.uninit))
}

func cdir(id int) string  { return fmt.Sprintf("(CDir %d)", id) }
func cleaf(id int) string { return fmt.Sprintf("(CLeaf %d)", id) }

// ---- execution -------------------------------------------------------------

const attrMask = virtual.AttributesMaskChangeID | virtual.AttributesMaskLinkCount | virtual.AttributesMaskFileType

type pageReporter struct {
	w    *world
	max  int
	rows []rentry
}

func (w *world) childTerm(directory virtual.Directory, leaf virtual.Leaf, attributes *virtual.Attributes) (string, int64) {
	if directory != nil {
		return cdir(w.dirID[directory]), int64(attributes.GetChangeID())
	}
	return cleaf(w.leafOf(leaf).id), int64(int32(attributes.GetLinkCount()))
}

func (p *pageReporter) ReportEntry(nextCookie uint64, name path.Component, child virtual.DirectoryChild, attributes *virtual.Attributes) bool {
	if len(p.rows) >= p.max {
		return false
	}
	directory, leaf := child.GetPair()
	c, a := p.w.childTerm(directory, leaf, attributes)
	p.rows = append(p.rows, rentry{cookie: nextCookie, name: name.String(), child: c, attr: a})
	return true
}

// patience: the time the harness waits for a call that returns within
// microseconds on an intact implementation.  The machine may be heavily
// loaded, so the first few waits are generous; once several have expired in
// this process the implementation is evidently broken (the minimiser replays
// many variants of a blocking history) and later calls do not wait that
// long again.
var expiredWaits atomic.Int32

func patience() time.Duration {
	switch n := expiredWaits.Load(); {
	case n == 0:
		return 8 * time.Second
	case n < 3:
		return 2 * time.Second
	default:
		return 500 * time.Millisecond
	}
}

// call runs f on its own goroutine so that a panic or a call that never
// returns ends the history instead of the harness.  A call that does not
// return within patience() counts as blocked forever ("SHang"): its
// goroutine is leaked and the objects it may hold locks of are not touched
// again.
func call(f func()) (status string) { return callFor(patience(), f) }

func callFor(wait time.Duration, f func()) (status string) {
	done := make(chan string, 1)
	go func() {
		defer func() {
			if r := recover(); r != nil {
				done <- "SPanic"
			}
		}()
		f()
		done <- ""
	}()
	select {
	case s := <-done:
		return s
	case <-time.After(wait):
		expiredWaits.Add(1)
		return "SHang"
	}
}

func (area) Execute(raw json.RawMessage) (term string, info *hcommon.Info, err error) {
	var h history
	if err := json.Unmarshal(raw, &h); err != nil {
		return "", nil, err
	}
	info = hcommon.NewInfo()
	ctx := context.Background()
	w := &world{dirID: map[virtual.Directory]int{}, watchDir: -1,
		byObj: map[virtual.Leaf]*fakeLeaf{}, keyDir: map[uint64]int{}, keyLeaf: map[uint64]int{}}
	front := h.Front
	if front == "direct" {
		front = ""
	}
	var fuseAlloc *virtual.FUSEStatefulHandleAllocator
	var nfsAlloc *virtual.NFSStatefulHandleAllocator
	switch front {
	case "":
	case "fuse":
		fuseAlloc = virtual.NewFUSEHandleAllocator(&counterRNG{})
		w.realAlloc = fuseAlloc
	case "nfs41", "nfs40":
		nfsAlloc = virtual.NewNFSHandleAllocator(&counterRNG{})
		w.realAlloc = nfsAlloc
	default:
		return "", nil, fmt.Errorf("unknown front end %q", h.Front)
	}
	normalizer := virtual.CaseSensitiveComponentNormalizer
	if h.CI {
		normalizer = virtual.CaseInsensitiveComponentNormalizer
	}
	norm := func(s string) string {
		if h.CI {
			return strings.ToLower(s)
		}
		return s
	}
	setter := func(requested virtual.AttributesMask, attributes *virtual.Attributes) {}
	root := virtual.NewInMemoryPrepopulatedDirectory(
		&fileAllocator{w: w}, &symlinkFactory{w: w}, errorLogger{w}, &handleAllocator{w: w},
		sort.Sort, hiddenMatcher, clock.SystemClock, normalizer, setter, virtual.NoNamedAttributesFactory)

	var ops, obs []string
	// what the front end did against its own protocol (Front.v: fc_proto)
	// After a protocol violation, a panic or a hang the front end is in an
	// unknown state (simpleRawFileSystem, for one, panics with its node lock
	// read-held): the history ends and nothing more is asked of it.
	var proto []string
	stopped, frontBroken := false, false
	protocol := func(what string) {
		step := len(ops)
		proto = append(proto, fmt.Sprintf("(%d, %s)", step, g.Str(what)))
		info.Outs["front-protocol:"+what]++
		stopped, frontBroken = true, true
	}
	var fe frontEnd
	switch front {
	case "fuse":
		fe = newFuseFront(w, root, fuseAlloc, protocol)
	case "nfs41", "nfs40":
		var err error
		minor := uint32(1)
		if front == "nfs40" {
			minor = 0
		}
		if fe, err = newNFSFront(w, root, nfsAlloc, protocol, minor); err != nil {
			return "", nil, err
		}
	}
	frontName := front
	if frontName == "" {
		frontName = "direct"
	}
	info.Outs["history@"+frontName]++
	parent := map[int]int{}
	lastCookies := map[int][]uint64{} // cookies returned by the listing in progress, per directory
	renameOK, removeOK, longListings := 0, 0, 0
	pagesInSession := map[int]int{}

	// observe appends the observation that follows a call.
	races := 0
	busy := -1                     // directory whose lock a parked call holds on purpose
	lastChange := map[int]uint64{} // change counters as last read
	poolStuck := false
	lastLinks := map[int]int64{} // link counts as last read
	observe := func(opTerm, method string, r *result) {
		if nfsAlloc != nil && !poolStuck {
			// The directory locks have a try-lock hook; the lock of the NFS
			// handle pool has not: resolve the root's handle under the
			// watchdog (a short one if the call itself did not return).
			// Once the pool is stuck nothing that goes through it (the NFS
			// server, attributes of decorated leaves) is touched again.
			wait := patience()
			if r.status == "SHang" {
				wait = 500 * time.Millisecond
			}
			if callFor(wait, func() { nfsAlloc.ResolveHandle(bytes.NewBuffer(handleOf(w.dirKey[0]))) }) == "SHang" {
				poolStuck, stopped, frontBroken = true, true, true
				info.Outs["lock-leak:nfs-handle-pool"]++
			}
		}
		if r.status == "SHang" && !poolStuck {
			// P: every call returns (the model always does).  (With the
			// handle pool stuck that is the finding; the blocked call and
			// the directory locks it holds are consequences.)
			protocol("C14:call-blocked-forever:" + method)
		}
		ops = append(ops, opTerm)
		info.Events++
		info.Ops[method]++
		info.Outs[method+":"+r.status]++
		leak := ""
		free := make([]bool, len(w.dirs))
		for i, d := range w.dirs {
			free[i] = i != busy && virtual.VerifLockIsFree(d)
			if !free[i] && i != busy {
				leak = method
			}
		}
		if poolStuck {
			leak = "nfs-handle-pool"
		}
		var ds, ls []string
		before := map[int]uint64{}
		for i, c := range lastChange {
			before[i] = c
		}
		for i, d := range w.dirs {
			changeID := lastChange[i] // a directory locked on purpose cannot have changed
			released := w.released[i] > 0
			if free[i] {
				// through the front end where it transports the change
				// attribute (NFSv4 GETATTR), else from the object
				seen := false
				if fe != nil && !frontBroken {
					changeID, seen, released = fe.dirState(i)
				}
				if !seen {
					var attributes virtual.Attributes
					d.VirtualGetAttributes(ctx, virtual.AttributesMaskChangeID, &attributes)
					changeID = attributes.GetChangeID()
				}
				lastChange[i] = changeID
			} else if i != busy {
				changeID = 0
			}
			ds = append(ds, "("+g.N(changeID)+", "+g.Bool(released)+")")
			if w.released[i] > 1 {
				info.Outs["double-release"]++
			}
		}
		links := make([]int64, len(w.leaves))
		for i, l := range w.leaves {
			links[i] = int64(l.nlink)
			if poolStuck {
				if v, ok := lastLinks[i]; ok {
					links[i] = v
				}
			} else if fe != nil && !frontBroken {
				links[i] = fe.leafLinks(l)
			} else if fe != nil {
				var attributes virtual.Attributes
				l.self.VirtualGetAttributes(ctx, virtual.AttributesMaskLinkCount, &attributes)
				links[i] = int64(attributes.GetLinkCount())
			}
			lastLinks[i] = links[i]
			ls = append(ls, g.Z(links[i]))
		}
		// what the front end does not transport is taken from the dump
		if r.attrDir >= 0 {
			r.attr = int64(lastChange[r.attrDir])
		}
		if r.status == "SOK" {
			for _, i := range r.ciDirs {
				r.ci = append(r.ci, [2]uint64{before[i], lastChange[i]})
			}
		}
		for i := range r.entries {
			switch e := &r.entries[i]; e.fill {
			case fillDirChange:
				e.attr = int64(lastChange[e.fillID])
			case fillLeafLinks:
				if e.fillID < len(links) {
					e.attr = links[e.fillID]
				}
			}
		}
		obs = append(obs, g.App("mkObs", r.term(), g.App("mkDump", g.List(ds), g.List(ls)), g.Str(leak)))
		if leak != "" {
			info.Outs["lock-leak:"+method]++
			stopped = true
		}
		if r.status == "SPanic" || r.status == "SHang" {
			stopped = true
		}
		if len(w.dirs) > info.Extra["max_dirs"] {
			info.Extra["max_dirs"] = len(w.dirs)
		}
		if len(w.leaves) > info.Extra["max_leaves"] {
			info.Extra["max_leaves"] = len(w.leaves)
		}
	}

	// run executes body with the watchdog and fills in the status on panic/hang.
	run := func(r *result, body func()) {
		if s := call(body); s != "" {
			*r = *newResult()
			r.status = s
		}
	}

	// viaFront delivers a kernel-facing call through the front end of the
	// history.  ok = false: there is none, or it cannot address the objects
	// (a node the kernel does not hold, a handle that went stale with its
	// directory): the caller uses the direct API.
	viaFront := func(method string, f func() *result) (*result, bool) {
		if fe == nil || frontBroken {
			return nil, false
		}
		var fr *result
		r := newResult()
		run(r, func() { fr = f() })
		if r.status != "SOK" { // panic or hang inside the front end
			info.Ops[method+"@"+front]++
			frontBroken = true
			return r, true
		}
		if fr == nil {
			info.Ops[method+"@"+front+":direct-fallback"]++
			return nil, false
		}
		info.Ops[method+"@"+front]++
		return fr, true
	}
	dirOf := func(child string) int {
		id := -1
		fmt.Sscanf(child, "(CDir %d)", &id)
		return id
	}

	vlookup := func(d int, name string) *result {
		r, ok := viaFront("VirtualLookup", func() *result { return fe.lookup(d, name) })
		if !ok {
			r = newResult()
			run(r, func() {
				var attributes virtual.Attributes
				child, s := w.dirs[d].VirtualLookup(ctx, path.MustNewComponent(name), attrMask, &attributes)
				r.status = statusName(s)
				if s == virtual.StatusOK {
					directory, leaf := child.GetPair()
					r.child, r.attr = w.childTerm(directory, leaf, &attributes)
				}
			})
		}
		observe(g.App("OVLookup", fmt.Sprint(d), g.Str(name)), "VirtualLookup", r)
		return r
	}

	// readdirPage reads one page of directory d from cookie; through a front
	// end the page size is what the front end made of it (NFSv4 pages are
	// limited in bytes) and is returned.
	readdirPage := func(d int, cookie uint64, page, variant int, useFront bool) (*result, int) {
		cookieTerm := g.N(cookie)
		var r *result
		ok := false
		if useFront {
			r, ok = viaFront("VirtualReadDir", func() *result {
				fr, ct, p := fe.readdir(d, cookie, page, variant)
				if fr != nil {
					cookieTerm, page = ct, p
				}
				return fr
			})
		}
		if !ok {
			r = newResult()
			run(r, func() {
				rep := &pageReporter{w: w, max: page}
				s := w.dirs[d].VirtualReadDir(ctx, cookie, attrMask, rep)
				r.status = statusName(s)
				r.entries = rep.rows
			})
		}
		observe(g.App("OVReadDir", fmt.Sprint(d), cookieTerm, fmt.Sprint(page)), "VirtualReadDir", r)
		return r, page
	}

	lookupAll := func(d int) {
		r := newResult()
		run(r, func() {
			directories, leaves, err := w.dirs[d].LookupAllChildren()
			r.status = errName(err)
			for _, e := range directories {
				r.entries = append(r.entries, rentry{name: e.Name.String(), child: cdir(w.dirID[virtual.Directory(e.Child)]), attr: -1})
			}
			for _, e := range leaves {
				r.entries = append(r.entries, rentry{name: e.Name.String(), child: cleaf(w.leafOf(e.Child).id), attr: -1})
			}
		})
		observe(g.App("OLookupAll", fmt.Sprint(d)), "LookupAllChildren", r)
	}

	for _, o := range h.Ops {
		if stopped {
			break
		}
		d := o.D % len(w.dirs)
		dir := w.dirs[d]
		name := names[o.N%len(names)]
		comp := path.MustNewComponent(name)
		r := newResult()
		switch o.K {
		case "forget":
			// FUSE: the kernel lets go of a node (no model operation: the
			// file system must behave as before; later calls on a node the
			// kernel no longer holds use the direct API)
			if fe != nil && !frontBroken {
				fe.forget(o.L, o.M)
			}

		case "vlookup":
			vlookup(d, name)

		case "vopen":
			if !o.A && !o.B {
				continue
			}
			w.failNext = o.F
			if fr, ok := viaFront("VirtualOpenChild", func() *result { return fe.open(d, name, o.A, o.B) }); ok {
				r = fr
			} else {
				run(r, func() {
					var createAttributes *virtual.Attributes
					if o.A {
						createAttributes = (&virtual.Attributes{}).SetPermissions(virtual.PermissionsRead | virtual.PermissionsWrite)
					}
					var existingOptions *virtual.OpenExistingOptions
					if o.B {
						existingOptions = &virtual.OpenExistingOptions{}
					}
					before := len(w.leaves)
					var attributes virtual.Attributes
					leaf, _, ci, s := dir.VirtualOpenChild(ctx, comp, virtual.ShareMaskRead, createAttributes, existingOptions, attrMask, &attributes)
					r.status = statusName(s)
					if s == virtual.StatusOK {
						fl := w.leafOf(leaf)
						r.child = cleaf(fl.id)
						r.attr = int64(int32(attributes.GetLinkCount()))
						r.ci = [][2]uint64{{ci.Before, ci.After}}
						if len(w.leaves) > before {
							r.tag = fl.tag
						}
					}
				})
			}
			w.failNext = false
			observe(g.App("OVOpen", fmt.Sprint(d), g.Str(name), g.Bool(o.A), g.Bool(o.B), g.Bool(o.F)), "VirtualOpenChild", r)

		case "vmkdir":
			if len(w.dirs) >= maxDirs {
				continue
			}
			if fr, ok := viaFront("VirtualMkdir", func() *result { return fe.mkdir(d, name) }); ok {
				r = fr
			} else {
				run(r, func() {
					var attributes virtual.Attributes
					child, ci, s := dir.VirtualMkdir(ctx, comp, &virtual.Attributes{}, attrMask, &attributes)
					r.status = statusName(s)
					if s == virtual.StatusOK {
						id := w.dirID[child]
						r.child, r.attr = cdir(id), int64(attributes.GetChangeID())
						r.ci = [][2]uint64{{ci.Before, ci.After}}
					}
				})
			}
			if id := dirOf(r.child); r.status == "SOK" && id >= 0 {
				parent[id] = d
			}
			observe(g.App("OVMkdir", fmt.Sprint(d), g.Str(name)), "VirtualMkdir", r)

		case "vmknod":
			kinds := []string{"MSymlink", "MFifo", "MSocket", "MBlock"}
			k := o.M % 4
			w.failNext = o.F && k == 0
			if k == 3 && fe != nil && fe.needsLookup() {
				// FUSE refuses device nodes before consulting the directory;
				// the kernel only sends MKNOD after a LOOKUP that found nothing
				w.failNext = false
				pre := vlookup(d, name)
				if stopped {
					break
				}
				if pre.status != "SNoEnt" || w.released[d] > 0 {
					continue
				}
			}
			if fr, ok := viaFront("VirtualMknod", func() *result { return fe.mknod(d, name, k) }); ok {
				r = fr
			} else {
				run(r, func() {
					createAttributes := &virtual.Attributes{}
					switch k {
					case 0:
						createAttributes.SetFileType(filesystem.FileTypeSymlink)
						createAttributes.SetSymlinkTarget(path.UNIXFormat.NewParser("target"))
					case 1:
						createAttributes.SetFileType(filesystem.FileTypeFIFO)
					case 2:
						createAttributes.SetFileType(filesystem.FileTypeSocket)
					default:
						createAttributes.SetFileType(filesystem.FileTypeBlockDevice)
					}
					var attributes virtual.Attributes
					leaf, ci, s := dir.VirtualMknod(ctx, comp, createAttributes, attrMask, &attributes)
					r.status = statusName(s)
					if s == virtual.StatusOK {
						fl := w.leafOf(leaf)
						r.child, r.attr, r.tag = cleaf(fl.id), int64(int32(attributes.GetLinkCount())), fl.tag
						r.ci = [][2]uint64{{ci.Before, ci.After}}
					}
				})
			}
			w.failNext = false
			observe(g.App("OVMknod", fmt.Sprint(d), g.Str(name), kinds[k], g.Bool(o.F && k == 0)), "VirtualMknod", r)

		case "vlink":
			if len(w.leaves) == 0 {
				continue
			}
			l := o.L % len(w.leaves)
			if fe != nil && w.leaves[l].nlink <= 0 && !fe.linkDead(w.leaves[l]) {
				// A leaf without links: the handle allocators of both front ends
				// refuse to link it again whatever its kind (the harness' bare
				// leaves only do so for regular files), and an NFSv4 client
				// cannot even name it (stale handle).  Not sent.
				info.Outs["front:link-of-dead-leaf-not-sent"]++
				continue
			}
			if fr, ok := viaFront("VirtualLink", func() *result { return fe.link(d, name, l) }); ok {
				r = fr
			} else {
				run(r, func() {
					var attributes virtual.Attributes
					ci, s := dir.VirtualLink(ctx, comp, w.leaves[l].self, attrMask, &attributes)
					r.status = statusName(s)
					if s == virtual.StatusOK {
						r.attr = int64(int32(attributes.GetLinkCount()))
						r.ci = [][2]uint64{{ci.Before, ci.After}}
					}
				})
			}
			observe(g.App("OVLink", fmt.Sprint(d), g.Str(name), fmt.Sprint(l)), "VirtualLink", r)

		case "vlinkforeign":
			run(r, func() {
				var attributes virtual.Attributes
				_, s := dir.VirtualLink(ctx, comp, foreignLeaf{}, attrMask, &attributes)
				r.status = statusName(s)
			})
			observe(g.App("OVLinkForeign", fmt.Sprint(d), g.Str(name)), "VirtualLink", r)

		case "vremove":
			rmDir, rmLeaf := o.A, o.B
			if fr, ok := viaFront("VirtualRemove", func() *result {
				// FUSE has rmdir and unlink, NFSv4 a single REMOVE
				fr, a, b := fe.remove(d, name, o.A, o.B, (o.D+o.N)%2 == 0)
				if fr != nil {
					rmDir, rmLeaf = a, b
				}
				return fr
			}); ok {
				r = fr
			} else {
				run(r, func() {
					ci, s := dir.VirtualRemove(ctx, comp, o.A, o.B)
					r.status = statusName(s)
					if s == virtual.StatusOK {
						r.ci = [][2]uint64{{ci.Before, ci.After}}
					}
				})
			}
			if r.status == "SOK" {
				removeOK++
			}
			observe(g.App("OVRemove", fmt.Sprint(d), g.Str(name), g.Bool(rmDir), g.Bool(rmLeaf)), "VirtualRemove", r)

		case "vrename":
			d2 := o.D2 % len(w.dirs)
			name2 := names[o.N2%len(names)]
			// Learn what is about to be moved (a lookup is what the
			// kernel does before a rename anyway).
			pre := vlookup(d, name)
			if stopped {
				break
			}
			moved := -1
			if pre.status == "SOK" && strings.HasPrefix(pre.child, "(CDir ") {
				fmt.Sscanf(pre.child, "(CDir %d)", &moved)
			}
			if fr, ok := viaFront("VirtualRename", func() *result { return fe.rename(d, name, d2, name2) }); ok {
				r = fr
			} else {
				run(r, func() {
					ci1, ci2, s := dir.VirtualRename(ctx, comp, w.dirs[d2], path.MustNewComponent(name2))
					r.status = statusName(s)
					if s == virtual.StatusOK {
						r.ci = [][2]uint64{{ci1.Before, ci1.After}, {ci2.Before, ci2.After}}
					}
				})
			}
			observe(g.App("OVRename", fmt.Sprint(d), g.Str(name), fmt.Sprint(d2), g.Str(name2)), "VirtualRename", r)
			if r.status == "SOK" {
				replaced := d != d2 || (len(r.ci) == 2 && r.ci[1][1]-r.ci[1][0] > 1)
				if replaced {
					renameOK++
				}
				if moved >= 0 && (d != d2 || norm(name) != norm(name2)) {
					// Did the directory end up below itself?  From here on
					// the tree contains a cycle: recursive calls would not
					// terminate, so the history ends.
					for a, n := d2, 0; n <= len(w.dirs); n++ {
						if a == moved {
							info.Outs["moved-into-own-descendant"]++
							stopped = true
							break
						}
						p, ok := parent[a]
						if !ok {
							break
						}
						a = p
					}
					parent[moved] = d2
				}
			}

		case "vreaddir":
			cookie := uint64(0)
			prev := lastCookies[d]
			switch o.M {
			case 1:
				if len(prev) > 0 {
					cookie = prev[len(prev)-1]
				}
			case 2:
				if len(prev) > 0 {
					cookie = prev[o.L%len(prev)]
				}
			case 3:
				cookie = uint64(o.L)
			}
			page := o.P
			if page < 1 {
				page = 1
			}
			res, page := readdirPage(d, cookie, page, o.V, true)
			if res.status == "SOK" {
				if cookie == 0 {
					lastCookies[d] = nil
					pagesInSession[d] = 0
				} else if o.M == 2 || o.M == 3 {
					// rewind: keep the cookies up to the one resumed from
					keep := lastCookies[d][:0:0]
					found := false
					for _, c := range lastCookies[d] {
						if c <= cookie {
							keep = append(keep, c)
						}
						if c == cookie {
							found = true
						}
					}
					if !found {
						keep = nil
						pagesInSession[d] = -1000
					}
					lastCookies[d] = keep
				}
				for _, e := range res.entries {
					lastCookies[d] = append(lastCookies[d], e.cookie)
				}
				pagesInSession[d]++
				if len(res.entries) < page && pagesInSession[d] >= 2 {
					longListings++
				}
			}

		case "race":
			// VirtualReadDir of d racing with a mutation of d: a parked
			// VirtualOpenChild holds the lock of a child directory y, so the
			// listing has to drop d's lock when it reaches y; the mutation
			// runs in that window; then the parked call is released.  The
			// single listing is recorded as the two pages it must be
			// equivalent to: before y / from y on, with the mutation and the
			// parked call in between.
			full, _ := readdirPage(d, 0, 1000, 0, false)
			if stopped || full.status != "SOK" {
				break
			}
			var ys []int
			ynames := map[int]string{}
			for _, e := range full.entries {
				var id int
				if n, _ := fmt.Sscanf(e.child, "(CDir %d)", &id); n == 1 && id != d {
					ys = append(ys, id)
					ynames[id] = e.name
				}
			}
			if len(ys) == 0 {
				break
			}
			y := ys[o.L%len(ys)]
			page := o.P
			if page < 1 {
				page = 1
			}
			// 1. park a file creation inside y (y's lock stays held)
			w.parkNext, w.parked, w.release = true, make(chan struct{}, 1), make(chan struct{})
			fileName := "zz"
			g1 := newResult()
			g1done := make(chan string, 1)
			go func() {
				g1done <- call(func() {
					var attributes virtual.Attributes
					createAttributes := (&virtual.Attributes{}).SetPermissions(virtual.PermissionsRead)
					leaf, _, ci, s := w.dirs[y].VirtualOpenChild(ctx, path.MustNewComponent(fileName), virtual.ShareMaskRead, createAttributes, nil, attrMask, &attributes)
					g1.status = statusName(s)
					if s == virtual.StatusOK {
						fl := w.leafOf(leaf)
						g1.child, g1.attr, g1.tag = cleaf(fl.id), int64(int32(attributes.GetLinkCount())), fl.tag
						g1.ci = [][2]uint64{{ci.Before, ci.After}}
					}
				})
			}()
			finishG1 := func() {
				if s := <-g1done; s != "" {
					*g1 = *newResult()
					g1.status = s
				}
				observe(g.App("OVOpen", fmt.Sprint(y), g.Str(fileName), "true", "false", "false"), "VirtualOpenChild", g1)
			}
			select {
			case <-w.parked:
			case s := <-g1done:
				// not parked: the name exists or y is removed; nothing to race with
				w.parkNext = false
				g1done <- s
				finishG1()
				continue
			}
			busy = y
			// 2. start the listing; it signals when it is about to lock y
			rep := &pageReporter{w: w, max: page}
			reached := make(chan int, 1)
			w.watchDir, w.reached, w.rows = y, reached, func() int { return len(rep.rows) }
			g2 := newResult()
			g2done := make(chan string, 1)
			go func() {
				g2done <- call(func() {
					s := w.dirs[d].VirtualReadDir(ctx, 0, attrMask, rep)
					g2.status = statusName(s)
				})
			}()
			k := -1
			select {
			case k = <-reached:
				// wait until the listing has let go of d
				for i := 0; i < 200000 && !virtual.VerifLockIsFree(w.dirs[d]); i++ {
					time.Sleep(10 * time.Microsecond)
				}
			case s := <-g2done:
				g2done <- s // the page ended before y
			}
			w.watchDir, w.reached = -1, nil
			if k >= 0 {
				info.Outs["race:listing-dropped-lock"]++
				// first half of the listing
				r1 := newResult()
				r1.entries = append([]rentry(nil), rep.rows[:k]...)
				observe(g.App("OVReadDir", fmt.Sprint(d), g.N(0), fmt.Sprint(k)), "VirtualReadDir", r1)
				// 3. the mutation
				mr := newResult()
				mut := o.M % 3
				if mut == 2 && norm(name) == norm(ynames[y]) {
					mut = 1 // unlinking y's name would need y's lock
				}
				switch mut {
				case 0: // move y (within d, or to a directory that is not below y)
					d2 := o.D2 % len(w.dirs)
					for a, n := d2, 0; n <= len(w.dirs); n++ {
						if a == y {
							d2 = d
							break
						}
						p, ok := parent[a]
						if !ok {
							break
						}
						a = p
					}
					races++
					newName := fmt.Sprintf("mv%d", races) // never bound: the rename must not need any child lock
					run(mr, func() {
						ci1, ci2, s := w.dirs[d].VirtualRename(ctx, path.MustNewComponent(ynames[y]), w.dirs[d2], path.MustNewComponent(newName))
						mr.status = statusName(s)
						if s == virtual.StatusOK {
							mr.ci = [][2]uint64{{ci1.Before, ci1.After}, {ci2.Before, ci2.After}}
							parent[y] = d2
							info.Outs["race:listed-entry-detached"]++
						}
					})
					observe(g.App("OVRename", fmt.Sprint(d), g.Str(ynames[y]), fmt.Sprint(d2), g.Str(newName)), "VirtualRename", mr)
				case 1: // add an entry to d
					newName := "added"
					run(mr, func() {
						var attributes virtual.Attributes
						createAttributes := (&virtual.Attributes{}).SetFileType(filesystem.FileTypeFIFO)
						leaf, ci, s := w.dirs[d].VirtualMknod(ctx, path.MustNewComponent(newName), createAttributes, attrMask, &attributes)
						mr.status = statusName(s)
						if s == virtual.StatusOK {
							fl := w.leafOf(leaf)
							mr.child, mr.attr, mr.tag = cleaf(fl.id), int64(int32(attributes.GetLinkCount())), fl.tag
							mr.ci = [][2]uint64{{ci.Before, ci.After}}
						}
					})
					observe(g.App("OVMknod", fmt.Sprint(d), g.Str(newName), "MFifo", "false"), "VirtualMknod", mr)
				default: // unlink a file of d
					run(mr, func() {
						ci, s := w.dirs[d].VirtualRemove(ctx, comp, false, true)
						mr.status = statusName(s)
						if s == virtual.StatusOK {
							mr.ci = [][2]uint64{{ci.Before, ci.After}}
						}
					})
					observe(g.App("OVRemove", fmt.Sprint(d), g.Str(name), "false", "true"), "VirtualRemove", mr)
				}
			}
			// 4. let the parked creation finish, then the listing; both are
			// over before anything is observed again
			close(w.release)
			s1 := <-g1done
			s2 := <-g2done
			busy = -1
			g1done <- s1
			finishG1()
			if s2 != "" {
				*g2 = *newResult()
				g2.status = s2
			}
			if k < 0 {
				g2.entries = rep.rows
				observe(g.App("OVReadDir", fmt.Sprint(d), g.N(0), fmt.Sprint(page)), "VirtualReadDir", g2)
			} else {
				g2.entries = append([]rentry(nil), rep.rows[k:]...)
				c2 := uint64(0)
				if k > 0 {
					c2 = rep.rows[k-1].cookie
				}
				observe(g.App("OVReadDir", fmt.Sprint(d), g.N(c2), fmt.Sprint(page-k)), "VirtualReadDir", g2)
			}
			lastCookies[d] = nil
			pagesInSession[d] = -1000

		case "lookupchild":
			run(r, func() {
				child, err := dir.LookupChild(comp)
				r.status = errName(err)
				if err == nil {
					directory, leaf := child.GetPair()
					if directory != nil {
						r.child = cdir(w.dirID[virtual.Directory(directory)])
					} else {
						r.child = cleaf(w.leafOf(leaf).id)
					}
				}
			})
			observe(g.App("OLookupChild", fmt.Sprint(d), g.Str(name)), "LookupChild", r)

		case "lookupall":
			lookupAll(d)

		case "readdir":
			run(r, func() {
				infos, err := dir.ReadDir()
				r.status = errName(err)
				for _, fi := range infos {
					e := rentry{name: fi.Name().String(), child: "(CLeaf 0)"}
					switch fi.Type() {
					case filesystem.FileTypeDirectory:
						e.child, e.attr = "(CDir 0)", 0
					case filesystem.FileTypeRegularFile:
						e.attr = 1
					case filesystem.FileTypeSymlink:
						e.attr = 2
					case filesystem.FileTypeFIFO:
						e.attr = 3
					case filesystem.FileTypeSocket:
						e.attr = 4
					default:
						e.attr = -1
					}
					r.entries = append(r.entries, e)
				}
			})
			observe(g.App("OReadDir", fmt.Sprint(d)), "ReadDir", r)

		case "remove":
			run(r, func() {
				err := dir.Remove(comp)
				r.status = errName(err)
				if err == nil {
					removeOK++
				}
			})
			observe(g.App("ORemove", fmt.Sprint(d), g.Str(name)), "Remove", r)

		case "removeall":
			run(r, func() { r.status = errName(dir.RemoveAll(comp)) })
			observe(g.App("ORemoveAll", fmt.Sprint(d), g.Str(name)), "RemoveAll", r)

		case "removeallchildren":
			run(r, func() { r.status = errName(dir.RemoveAllChildren(o.A)) })
			observe(g.App("ORemoveAllChildren", fmt.Sprint(d), g.Bool(o.A)), "RemoveAllChildren", r)

		case "createchildren":
			// Names that collide under the normaliser would make attach()
			// panic: callers must not pass them.
			seen := map[string]bool{}
			var cs []string
			children := map[path.Component]virtual.InitialChild{}
			var created []*fakeLeaf
			newDirs := 0
			for _, c := range o.C {
				n := names[c.N%len(names)]
				if seen[norm(n)] {
					continue
				}
				k := c.K % 5
				if k == 0 && len(w.dirs)+newDirs >= maxDirs {
					continue
				}
				seen[norm(n)] = true
				if k == 0 {
					newDirs++
					children[path.MustNewComponent(n)] = virtual.InitialChild{}.FromDirectory(virtual.EmptyInitialContentsFetcher)
					cs = append(cs, "("+g.Str(n)+", NewDirC)")
				} else {
					l := w.newLeaf(k, 0)
					created = append(created, l)
					children[path.MustNewComponent(n)] = virtual.InitialChild{}.FromLeaf(l.self)
					cs = append(cs, "("+g.Str(n)+", NewLeafC "+[]string{"", "KFile", "KSymlink", "KFifo", "KSocket"}[k]+")")
				}
			}
			before := len(w.dirs)
			run(r, func() {
				err := dir.CreateChildren(children, o.A)
				r.status = errName(err)
				if err != nil {
					// a failed call does not take over the references
					for _, l := range created {
						l.self.Unlink()
					}
				}
			})
			for id := before; id < len(w.dirs); id++ {
				parent[id] = d
			}
			observe(g.App("OCreateChildren", fmt.Sprint(d), g.List(cs), g.Bool(o.A)), "CreateChildren", r)
			if fe != nil && fe.needsLookup() && r.status == "SOK" {
				// FUSE: the kernel learns about directories made behind its back
				// by looking them up
				for _, c := range o.C {
					if c.K%5 == 0 && !stopped {
						vlookup(d, names[c.N%len(names)])
					}
				}
			}

		case "createandenter":
			if len(w.dirs) >= maxDirs {
				continue
			}
			before := len(w.dirs)
			run(r, func() {
				child, err := dir.CreateAndEnterPrepopulatedDirectory(comp)
				r.status = errName(err)
				if err == nil {
					r.child = cdir(w.dirID[virtual.Directory(child)])
				}
			})
			for id := before; id < len(w.dirs); id++ {
				parent[id] = d
			}
			observe(g.App("OCreateAndEnter", fmt.Sprint(d), g.Str(name)), "CreateAndEnterPrepopulatedDirectory", r)
			if fe != nil && fe.needsLookup() && r.status == "SOK" && !stopped {
				vlookup(d, name)
			}

		case "filter":
			rm := map[int]bool{}
			var rmTerms []string
			stop := -1
			if len(w.leaves) > 0 {
				for _, x := range o.R {
					l := x % len(w.leaves)
					if !rm[l] {
						rm[l] = true
						rmTerms = append(rmTerms, fmt.Sprint(l))
					}
				}
				if o.S > 0 {
					stop = (o.S - 1) % len(w.leaves)
				}
			}
			run(r, func() {
				err := dir.FilterChildren(func(node virtual.InitialChild, remove virtual.ChildRemover) bool {
					_, leaf := node.GetPair()
					if leaf == nil {
						r.uninit++
						if o.A {
							remove()
						}
						return true
					}
					id := w.leafOf(leaf).id
					r.visited = append(r.visited, id)
					if id == stop {
						return false
					}
					if rm[id] {
						remove()
					}
					return true
				})
				r.status = errName(err)
			})
			stopTerm := "None"
			if stop >= 0 {
				stopTerm = g.Some(fmt.Sprint(stop))
			}
			observe(g.App("OFilter", fmt.Sprint(d), g.List(rmTerms), stopTerm, g.Bool(o.A)), "FilterChildren", r)

		case "installhooks":
			tag := o.T
			run(r, func() {
				dir.InstallHooks(&fileAllocator{w: w, tag: tag}, &symlinkFactory{w: w, tag: tag}, errorLogger{w}, setter, virtual.NoNamedAttributesFactory)
			})
			observe(g.App("OInstallHooks", fmt.Sprint(d), fmt.Sprint(tag)), "InstallHooks", r)

		default:
			return "", nil, fmt.Errorf("unknown op %q", o.K)
		}
	}

	// Final contents: a complete listing of every directory, both ways.
	for d := 0; d < len(w.dirs) && !stopped; d++ {
		readdirPage(d, 0, 1000, d, true)
		if !stopped {
			lookupAll(d)
		}
	}
	if fe != nil && !stopped {
		if call(fe.finish) != "" {
			protocol("C14:call-blocked-forever:Forget")
		}
	}

	info.Nontrivial = renameOK > 0 && removeOK > 0 && longListings > 0
	info.Extra["max_listing_sessions"] = longListings
	return g.App("mkFCase", g.Str(front), g.App("mkCase", g.Bool(h.CI), g.List(ops), g.List(obs)), g.List(proto)), info, nil
}

func main() { hcommon.Main(area{}) }
