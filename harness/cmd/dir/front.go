// Front ends of the directory harness: the kernel-facing calls of a history
// (lookup, open/create, mkdir, mknod/symlink, link, remove, rename, readdir)
// can be delivered through fuse.NewSimpleRawFileSystem (front_fuse.go) or
// through NFSv4.1 COMPOUNDs (front_nfs.go) instead of the virtual.Directory
// API.  Each front end turns its answer into the same result record the
// direct calls fill in:
//
//   - objects: node ids / inode numbers / file handles come from the real
//     handle allocator of the front end (NewFUSEHandleAllocator,
//     NewNFSHandleAllocator), wrapped by the harness so that it knows which
//     number belongs to the n-th directory / leaf;
//   - statuses and directory offsets are written into the case file as the
//     front end sent them, under the decoding functions of
//     coq/theories/Dir/Front.v (fuse_status, nfs_status, cookie_of_off);
//   - what a front end does not transport at all (FUSE: change counters and
//     ChangeInfo; plain FUSE ReadDir: link counts) is taken from the dump
//     that follows the call, so the corresponding checks of P are vacuous
//     there; NFSv4 transports all of it (change attribute, change_info4,
//     numlinks) and is checked on it;
//   - what cannot be canonicalised because the front end broke its own
//     protocol is reported as a protocol violation (Front.v: fc_proto).
package main

import (
	"encoding/binary"

	"github.com/buildbarn/bb-remote-execution/pkg/filesystem/virtual"
)

type frontEnd interface {
	// Kernel-facing calls.  A nil result means that the front end cannot
	// address the objects involved (FUSE: a node the kernel does not hold;
	// NFSv4: the handle of a removed directory is stale): the caller then
	// uses the direct API.
	lookup(d int, name string) *result
	open(d int, name string, create, existing bool) *result
	mkdir(d int, name string) *result
	mknod(d int, name string, kind int) *result // 0 symlink 1 fifo 2 socket 3 block device; status "SKIP": not expressible
	link(d int, name string, l int) *result
	// remove returns the flags of the VirtualRemove call the front end made of it.
	remove(d int, name string, rmdir, rmleaf, pick bool) (*result, bool, bool)
	rename(d int, name string, d2 int, name2 string) *result
	// readdir returns the Gallina term of the cookie resumed from and the
	// page size of the equivalent VirtualReadDir call.
	readdir(d int, cookie uint64, page, variant int) (*result, string, int)

	// The dump after a call, as far as the front end shows it.
	dirState(d int) (changeID uint64, seen, released bool)
	leafLinks(l *fakeLeaf) int64

	// linkDead: may a link to a leaf without links be attempted through this front end?
	linkDead(l *fakeLeaf) bool
	// needsLookup: does the front end have to look an object up before it can address it?
	needsLookup() bool
	forget(sel, mode int)
	finish()
}

// counterRNG is the random number generator handed to the handle
// allocators and the NFSv4 server: inode numbers, file handles, client and
// session ids are 1, 2, 3, ...
type counterRNG struct{ n uint64 }

func (r *counterRNG) IsThreadSafe()                      {}
func (r *counterRNG) Float64() float64                   { panic("not used") }
func (r *counterRNG) Int64N(n int64) int64               { panic("not used") }
func (r *counterRNG) IntN(n int) int                     { panic("not used") }
func (r *counterRNG) Shuffle(n int, swap func(i, j int)) { panic("not used") }
func (r *counterRNG) Uint32() uint32                     { r.n++; return uint32(r.n) }
func (r *counterRNG) Uint64() uint64                     { r.n++; return r.n }
func (r *counterRNG) Read(p []byte) (int, error) {
	r.n++
	for i := range p {
		p[i] = 0
	}
	var b [8]byte
	binary.LittleEndian.PutUint64(b[:], r.n)
	copy(p, b[:])
	return len(p), nil
}

// safely runs f and reports whether it panicked.
func safely(f func()) (panicked bool) {
	defer func() {
		if recover() != nil {
			panicked = true
		}
	}()
	f()
	return false
}

// childOfKey maps an inode number / file handle handed out by a front end
// back to the object it was allocated for.
func (w *world) childOfKey(key uint64) (term string, leaf *fakeLeaf, dir int, ok bool) {
	if id, found := w.keyDir[key]; found {
		return cdir(id), nil, id, true
	}
	if id, found := w.keyLeaf[key]; found {
		return cleaf(id), w.leaves[id], -1, true
	}
	return "(CLeaf 999999)", nil, -1, false
}

var _ virtual.StatefulHandleAllocator = (*handleAllocator)(nil)
