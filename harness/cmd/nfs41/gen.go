package main

import (
	"encoding/json"
	"math"

	"verif/harness/internal/rng"
)

func pick[T any](r *rng.R, xs ...T) T { return xs[r.Intn(len(xs))] }

func genAcc(r *rng.R) uint32 {
	if r.Chance(6) {
		return pick(r, uint32(0), 4, 0x101, 0x203, 7)
	}
	return uint32(1 + r.Intn(3))
}

func genRange(r *rng.R) (uint64, uint64) {
	off := uint64(r.Intn(7))
	ln := uint64(1 + r.Intn(4))
	switch r.Intn(20) {
	case 0:
		ln = 0
	case 1, 2:
		ln = math.MaxUint64
	case 3:
		off = math.MaxUint64 - 2
	case 4:
		off, ln = 0, math.MaxUint64-1
	}
	return off, ln
}

func genLt(r *rng.R) uint32 {
	if r.Chance(4) {
		return pick(r, uint32(0), 5)
	}
	return uint32(1 + r.Intn(4))
}

// genSid decorates a state ID reference with the occasional defect.
func genSid(r *rng.R, s sidRef) *sidRef {
	switch r.Intn(40) {
	case 0:
		s.SeqD = -1
	case 1:
		s.SeqD = 1
	case 2:
		s.Zero = true
	case 3:
		s.C = 1 + r.Intn(3)
	case 4:
		s.Hi = 1
	case 5:
		s = sidRef{K: "raw", Seq: uint32(r.Intn(3)), Oth: uint64(r.Intn(6))}
	case 6:
		s.SeqD = 40
	}
	return &s
}

func genIOSid(r *rng.R, ow, lo, f int) *sidRef {
	switch r.Intn(10) {
	case 0:
		return &sidRef{K: "anon"}
	case 1:
		return &sidRef{K: "bypass"}
	case 2, 3:
		return genSid(r, sidRef{K: "lock", Lo: lo, F: f})
	default:
		return genSid(r, sidRef{K: "open", Ow: ow, F: f})
	}
}

func genPutFH(r *rng.R, f int) cop {
	if r.Chance(4) {
		return cop{O: "putfh", F: -1, Raw: uint64(r.Intn(12))}
	}
	return cop{O: "putfh", F: f}
}

func genRandomOp(r *rng.R) cop {
	ow, lo, f := r.Intn(3), r.Intn(3), r.Intn(3)
	off, ln := genRange(r)
	switch r.Intn(30) {
	case 0:
		return cop{O: "putroot"}
	case 1:
		return genPutFH(r, f)
	case 2:
		return cop{O: "lookup", F: r.Intn(4)}
	case 3:
		return cop{O: "getfh"}
	case 4:
		return cop{O: "savefh"}
	case 5:
		return cop{O: "restorefh"}
	case 6:
		return cop{O: "getattr"}
	case 7:
		return cop{O: "remove", F: r.Intn(4)}
	case 8, 9:
		return cop{O: "open", Ow: ow, F: 1 + f, Acc: genAcc(r), How: r.Intn(4), Claim: pick(r, "null", "null", "fh", "prev", "prevd", "dcur", "dprev")}
	case 10:
		return cop{O: "downgrade", Sid: genSid(r, sidRef{K: pick(r, "open", "cur"), Ow: ow, F: f}), Acc: genAcc(r), Deny: uint32(r.Intn(8) / 7)}
	case 11, 12:
		return cop{O: "close", Sid: genSid(r, sidRef{K: pick(r, "open", "cur"), Ow: ow, F: f})}
	case 13, 14:
		return cop{O: "lock", New: true, Lo: lo, Lt: genLt(r), Off: off, Len: ln, Sid: genSid(r, sidRef{K: pick(r, "open", "cur"), Ow: ow, F: f})}
	case 15:
		return cop{O: "lock", Lt: genLt(r), Off: off, Len: ln, Sid: genSid(r, sidRef{K: pick(r, "lock", "cur"), Lo: lo, F: f})}
	case 16:
		return cop{O: "lockt", Lo: lo, Lt: genLt(r), Off: off, Len: ln}
	case 17:
		return cop{O: "locku", Off: off, Len: ln, Sid: genSid(r, sidRef{K: pick(r, "lock", "cur"), Lo: lo, F: f})}
	case 18, 19, 20:
		s := genIOSid(r, ow, lo, f)
		if r.Chance(30) {
			s = &sidRef{K: "cur"}
		}
		return cop{O: pick(r, "read", "write", "setattr"), Sid: s}
	case 21:
		return cop{O: "free", Sid: genSid(r, sidRef{K: pick(r, "lock", "lock", "open"), Lo: lo, Ow: ow, F: f})}
	case 22:
		return cop{O: "test", Sids: []sidRef{*genSid(r, sidRef{K: "open", Ow: ow, F: f}), *genSid(r, sidRef{K: "lock", Lo: lo, F: f}), {K: "cur"}}}
	case 23:
		return cop{O: pick(r, "delegpurge", "illegal", "nestedseq", "bind")}
	case 24:
		return cop{O: "exid", C: r.Intn(3), Ver: r.Intn(6) / 5}
	case 25:
		return cop{O: "cs", C: r.Intn(3), SeqD: pick(r, 0, 0, -1, 2)}
	case 26:
		return cop{O: "ds", C: r.Intn(3), Sess: r.Intn(3) - 1}
	case 27:
		return cop{O: "dc", C: r.Intn(3)}
	default:
		return cop{O: "getattr"}
	}
}

func genOps(r *rng.R) []cop {
	ow, lo, f := r.Intn(3), r.Intn(3), r.Intn(3)
	off, ln := genRange(r)
	switch x := r.Intn(100); {
	case x < 16:
		ops := []cop{{O: "putroot"}, {O: "open", Ow: ow, F: 1 + f, Acc: genAcc(r), Deny: uint32(r.Intn(30) / 29 * (1 + r.Intn(4))), How: pick(r, 1, 1, 1, 1, 0, 0, 2, 3), Claim: "null"}}
		if r.Chance(40) {
			ops = append(ops, cop{O: "getfh"})
		}
		return ops
	case x < 21:
		return []cop{genPutFH(r, f), {O: "open", Ow: ow, Acc: genAcc(r), How: pick(r, 0, 0, 1, 2), Claim: pick(r, "fh", "fh", "prev", "prev", "prevd", "dcur", "dprev")}}
	case x < 30:
		return []cop{genPutFH(r, f), {O: "close", Sid: genSid(r, sidRef{K: "open", Ow: ow, F: f})}}
	case x < 35:
		return []cop{genPutFH(r, f), {O: "downgrade", Sid: genSid(r, sidRef{K: "open", Ow: ow, F: f}), Acc: genAcc(r), Deny: uint32(r.Intn(12) / 11)}}
	case x < 46:
		return []cop{genPutFH(r, f), {O: "lock", New: true, Lo: lo, Lt: genLt(r), Off: off, Len: ln, Sid: genSid(r, sidRef{K: "open", Ow: ow, F: f})}}
	case x < 51:
		return []cop{genPutFH(r, f), {O: "lock", Lt: genLt(r), Off: off, Len: ln, Sid: genSid(r, sidRef{K: "lock", Lo: lo, F: f})}}
	case x < 58:
		return []cop{genPutFH(r, f), {O: "lockt", Lo: lo, Lt: genLt(r), Off: off, Len: ln}}
	case x < 63:
		return []cop{genPutFH(r, f), {O: "locku", Off: off, Len: ln, Sid: genSid(r, sidRef{K: "lock", Lo: lo, F: f})}}
	case x < 73:
		return []cop{genPutFH(r, f), {O: pick(r, "read", "write", "setattr"), Sid: genIOSid(r, ow, lo, f)}}
	case x < 77:
		ops := []cop{{O: "free", Sid: genSid(r, sidRef{K: "lock", Lo: lo, F: f})}}
		if r.Chance(50) {
			ops = append([]cop{genPutFH(r, f)}, ops...)
		}
		return ops
	case x < 79:
		return []cop{{O: "test", Sids: []sidRef{*genSid(r, sidRef{K: "open", Ow: ow, F: f}), *genSid(r, sidRef{K: "lock", Lo: lo, F: f}), {K: "anon"}}}}
	case x < 82:
		return []cop{{O: "putroot"}, {O: "remove", F: 1 + f}}
	case x < 84:
		return []cop{{O: "putroot"}, {O: "lookup", F: r.Intn(4)}, {O: "getfh"}}
	case x < 90:
		// The current state ID through a whole open-lock-I/O-close cycle.
		ops := []cop{{O: "putroot"}, {O: "open", Ow: ow, F: 1 + f, Acc: genAcc(r), How: 1, Claim: "null"}}
		if r.Chance(60) {
			ops = append(ops, cop{O: "lock", New: true, Lo: lo, Lt: genLt(r), Off: off, Len: ln, Sid: &sidRef{K: "cur"}})
		}
		if r.Chance(50) {
			ops = append(ops, cop{O: pick(r, "read", "write"), Sid: &sidRef{K: "cur"}})
		}
		if r.Chance(50) {
			ops = append(ops, cop{O: "close", Sid: &sidRef{K: pick(r, "cur", "open"), Ow: ow, F: f}})
		}
		return ops
	default:
		n := 1 + r.Intn(7)
		var ops []cop
		for i := 0; i < n; i++ {
			ops = append(ops, genRandomOp(r))
		}
		return ops
	}
}

// genCycle is an upgrade / downgrade / re-open cycle of one open-owner on
// one file while something else keeps the dropped access alive: a
// lock-owner file (share reservation cloned by LOCK) and/or READ/WRITE
// parked inside the file system (share reservation cloned for the I/O).
// These are the states in which shareCount and the open state ID's own
// share_access disagree.
func genCycle(r *rng.R, c int) []hop {
	ow, lo, f := r.Intn(3), r.Intn(3), r.Intn(3)
	open := sidRef{K: "open", Ow: ow, F: f}
	seq := func(ops []cop, plan []bool) hop {
		return hop{K: "seq", C: c, Mode: "next", Slot: r.Intn(3), Cache: r.Chance(50), Ops: ops, Plan: plan}
	}
	var hs []hop
	first := pick(r, uint32(3), 3, 3, 1, 2)
	hs = append(hs, seq([]cop{{O: "putroot"}, {O: "open", Ow: ow, F: 1 + f, Acc: first, How: 1, Claim: "null"}}, nil))
	rounds := 1 + r.Intn(2)
	for k := 0; k < rounds; k++ {
		holder := r.Intn(10)
		if holder < 6 { // lock-owner file
			off, ln := genRange(r)
			hs = append(hs, seq([]cop{genPutFH(r, f), {O: "lock", New: true, Lo: lo, Lt: genLt(r), Off: off, Len: ln, Sid: &open}}, nil))
		}
		if holder >= 4 && holder < 9 { // I/O parked in the file
			hs = append(hs, seq([]cop{{O: "putfh", F: f}, {O: pick(r, "write", "write", "read", "setattr"), Sid: &open}}, []bool{true}))
		}
		down := pick(r, uint32(1), 2, 1, 2, 3)
		hs = append(hs, seq([]cop{{O: "putfh", F: f}, {O: "downgrade", Sid: &open, Acc: down}}, nil))
		if r.Chance(25) {
			hs = append(hs, hop{K: "resume", T: r.Intn(3)})
		}
		re := pick(r, uint32(1), 2, 3, 3-down, 3-down)
		if re == 0 {
			re = 3
		}
		if r.Chance(70) {
			hs = append(hs, seq([]cop{{O: "putroot"}, {O: "open", Ow: ow, F: 1 + f, Acc: re, How: pick(r, 0, 0, 1), Claim: "null"}}, nil))
		} else {
			hs = append(hs, seq([]cop{{O: "putfh", F: f}, {O: "open", Ow: ow, Acc: re, Claim: pick(r, "fh", "fh", "prev")}}, nil))
		}
		switch r.Intn(5) {
		case 0:
			hs = append(hs, seq([]cop{{O: "putfh", F: f}, {O: "locku", Off: 0, Len: math.MaxUint64, Sid: &sidRef{K: "lock", Lo: lo, F: f}}}, nil))
			hs = append(hs, seq([]cop{{O: "free", Sid: &sidRef{K: "lock", Lo: lo, F: f}}}, nil))
		case 1, 2:
			hs = append(hs, hop{K: "resume", T: r.Intn(3)})
		}
	}
	if r.Chance(80) {
		hs = append(hs, seq([]cop{{O: "putfh", F: f}, {O: "close", Sid: &open}}, nil))
	}
	if r.Chance(50) {
		hs = append(hs, hop{K: "resume", T: 0})
	}
	return hs
}

// genLeaseIO: a client whose only traffic for several lease periods is
// SEQUENCE compounds (bare, or PUTFH + READ/WRITE/SETATTR with its open
// state ID), one every 0.3-0.9 lease, then one more READ; in 45 % of the
// macros one READ stays parked in the file system while other requests
// (which run enter()) move the clock 0.8-2.7 leases on.  Neither may cost
// the client its registration: SEQUENCE holds the client for the compound
// and release() stamps lastSeen (lease rule, SpecLease.v).
func genLeaseIO(r *rng.R, c, nclients int, lease uint64) []hop {
	const tag = "lease-io"
	ow, f := r.Intn(3), r.Intn(3)
	open := sidRef{K: "open", Ow: ow, F: f}
	seq := func(ops []cop, plan []bool) hop {
		return hop{K: "seq", C: c, Mode: "next", Slot: r.Intn(3), Cache: r.Chance(50), Ops: ops, Plan: plan, Tag: tag}
	}
	frac := func(lo, hi int) uint64 { // lo..hi percent of the lease
		return lease * uint64(lo+r.Intn(hi-lo+1)) / 100
	}
	var hs []hop
	if r.Chance(50) {
		// (re-)registration spread over time: CREATE_SESSION renews the lease as well
		hs = append(hs, hop{K: "solo", C: c, What: "exid", Tag: tag})
		if r.Chance(60) {
			hs = append(hs, hop{K: "adv", D: frac(40, 90), Tag: tag})
		}
		hs = append(hs, hop{K: "solo", C: c, What: "cs", Tag: tag})
		if r.Chance(60) {
			hs = append(hs, hop{K: "adv", D: frac(40, 90), Tag: tag})
		}
	}
	hs = append(hs, seq([]cop{{O: "putroot"}, {O: "open", Ow: ow, F: 1 + f, Acc: 3, How: 1, Claim: "null"}}, nil))
	style := r.Intn(100)
	n := 4 + r.Intn(5)
	for k := 0; k < n; k++ {
		hs = append(hs, hop{K: "adv", D: frac(30, 90), Tag: tag})
		switch {
		case style < 25: // bare SEQUENCE
			hs = append(hs, seq(nil, nil))
		case style < 40:
			hs = append(hs, seq([]cop{{O: "putfh", F: f}, {O: "getattr"}}, nil))
		default:
			hs = append(hs, seq([]cop{{O: "putfh", F: f}, {O: pick(r, "read", "read", "write", "setattr"), Sid: &open}}, nil))
		}
		if nclients > 1 && r.Chance(15) {
			// somebody else's request in between: enter() runs with the macro's client idle
			hs = append(hs, hop{K: "seq", C: (c + 1) % nclients, Mode: "next", Slot: r.Intn(3), Ops: []cop{{O: "putroot"}, {O: "getfh"}}, Tag: tag})
		}
	}
	if r.Chance(45) {
		// a READ parked in the leaf that outlasts the lease
		hs = append(hs, hop{K: "adv", D: frac(30, 90), Tag: tag})
		hs = append(hs, seq([]cop{{O: "putfh", F: f}, {O: "read", Sid: &open}}, []bool{true}))
		ticks := 2 + r.Intn(2)
		for k := 0; k < ticks; k++ {
			hs = append(hs, hop{K: "adv", D: frac(40, 90), Tag: tag})
			if nclients > 1 && r.Chance(50) {
				hs = append(hs, hop{K: "seq", C: (c + 1) % nclients, Mode: "next", Slot: r.Intn(3), Ops: []cop{{O: "putroot"}, {O: "getfh"}}, Tag: tag})
			} else {
				hs = append(hs, hop{K: "solo", C: c, What: "bind", Sess: -1, Tag: tag}) // BADSESSION, but enter() runs
			}
		}
		hs = append(hs, hop{K: "resume", T: 0, Tag: tag})
	}
	hs = append(hs, hop{K: "adv", D: frac(30, 90), Tag: tag})
	hs = append(hs, seq([]cop{{O: "putfh", F: f}, {O: "read", Sid: &open}}, nil))
	if r.Chance(50) {
		hs = append(hs, seq([]cop{{O: "putfh", F: f}, {O: "close", Sid: &open}}, nil))
	}
	return hs
}

func (area) Generate(r *rng.R, thorough bool, index int) json.RawMessage {
	h := history{Lease: uint64(1000 * (1 + r.Intn(4))), Slots: uint32(1 + r.Intn(3)), MaxOps: uint32(4 + r.Intn(5))}
	nclients := 1 + r.Intn(3)
	n := 20 + r.Intn(41)
	if thorough {
		n = 60 + r.Intn(120)
	}
	vanished := make([]bool, 3)
	needReg := make([]bool, 3) // the client (probably) has no session
	for c := 0; c < nclients; c++ {
		if r.Chance(92) {
			h.Ops = append(h.Ops, hop{K: "solo", C: c, What: "exid"})
			h.Ops = append(h.Ops, hop{K: "solo", C: c, What: "cs"})
		} else {
			needReg[c] = true
		}
	}
	// Most histories start with some files in place.
	for f := 0; f < 3; f++ {
		if r.Chance(60) {
			c := r.Intn(nclients)
			h.Ops = append(h.Ops, hop{K: "seq", C: c, Mode: "next", Cache: r.Chance(50), Ops: []cop{{O: "putroot"}, {O: "open", Ow: r.Intn(3), F: 1 + f, Acc: uint32(1 + r.Intn(3)), How: 1, Claim: "null"}}})
		}
	}
	for i := 0; i < n; i++ {
		c := r.Intn(nclients)
		if vanished[c] && r.Chance(85) {
			c = r.Intn(nclients)
		}
		if needReg[c] && !vanished[c] && r.Chance(70) {
			needReg[c] = false
			h.Ops = append(h.Ops, hop{K: "solo", C: c, What: "exid"})
			h.Ops = append(h.Ops, hop{K: "solo", C: c, What: "cs"})
		}
		if !vanished[c] && !needReg[c] && r.Chance(2) {
			// lease macro: ~30 % of the histories contain at least one
			h.Ops = append(h.Ops, genLeaseIO(r, c, nclients, h.Lease)...)
			continue
		}
		if !vanished[c] && r.Chance(9) {
			// share-count cycle, interleaved with other clients' requests
			for _, ch := range genCycle(r, c) {
				h.Ops = append(h.Ops, ch)
				if nclients > 1 && r.Chance(20) {
					h.Ops = append(h.Ops, hop{K: "seq", C: (c + 1) % nclients, Mode: "next", Slot: r.Intn(3), Cache: r.Chance(50), Ops: genOps(r)})
				}
			}
			continue
		}
		switch x := r.Intn(100); {
		case x < 4:
			h.Ops = append(h.Ops, hop{K: "adv", D: uint64(1 + r.Intn(int(h.Lease)/2))})
		case x < 6:
			h.Ops = append(h.Ops, hop{K: "adv", D: h.Lease + 1 + uint64(r.Intn(int(h.Lease)))})
			for k := range needReg {
				needReg[k] = true
			}
		case x < 7:
			vanished[c] = true
		case x < 9:
			// Client reboot: new verifier, new session.
			vanished[c] = false
			h.Ops = append(h.Ops, hop{K: "solo", C: c, What: "exid", Ver: 1})
			if r.Chance(85) {
				h.Ops = append(h.Ops, hop{K: "solo", C: c, What: "cs"})
			} else {
				needReg[c] = true
			}
		case x < 15:
			w := pick(r, "exid", "cs", "cs", "cs", "ds", "dc", "bind", "bindbad", "notonly", "notinsess", "minor", "empty")
			h.Ops = append(h.Ops, hop{K: "solo", C: c, What: w, SeqD: pick(r, 0, 0, -1, -1, 3), Sess: r.Intn(4) - 1})
			if w == "ds" || w == "dc" {
				needReg[c] = true
			}
		case x < 27:
			h.Ops = append(h.Ops, hop{K: "resume", T: r.Intn(4)})
		default:
			o := hop{K: "seq", C: c, Sess: r.Intn(10) / 8 * (r.Intn(3) - 1), Slot: r.Intn(3), Cache: r.Chance(50), Ops: genOps(r), T: r.Intn(4)}
			switch m := r.Intn(100); {
			case m < 68:
				o.Mode = "next"
			case m < 76:
				o.Mode = "same"
			case m < 81:
				o.Mode = "variant"
			case m < 85:
				o.Mode = "skip"
			case m < 87:
				o.Mode = "old"
			case m < 96:
				o.Mode = "dup"
			default:
				o.Mode = "next"
				o.Drop = true
			}
			if r.Chance(2) {
				o.Slot = 9
			}
			if r.Chance(30) {
				k := r.Intn(3)
				for j := 0; j <= k; j++ {
					o.Plan = append(o.Plan, j == k || r.Chance(25))
				}
			}
			for _, x := range o.Ops {
				if x.O == "ds" || x.O == "dc" || (x.O == "exid" && x.Ver != 0) {
					needReg[x.C%3] = true
				}
			}
			h.Ops = append(h.Ops, o)
		}
	}
	// Drain: resume everything, let every lease lapse, one more request.
	for k := 0; k < 14; k++ {
		h.Ops = append(h.Ops, hop{K: "resume", T: 0})
	}
	h.Ops = append(h.Ops, hop{K: "adv", D: 2*h.Lease + 1})
	h.Ops = append(h.Ops, hop{K: "solo", C: 0, What: "bind", Sess: -1})
	data, _ := json.Marshal(h)
	return data
}
