// Harness for C18/C19/C20 (NFSv4.1): runs the real nfs41Program +
// OpenedFilesPool in process over an instrumented fake file system, with a
// fake clock and an injected counter as random number generator.  Every
// COMPOUND runs in its own goroutine under a controller that lets exactly
// one goroutine run at a time; the file system parks goroutines where the
// history says so, which holds compounds in flight (in-flight duplicate
// SEQUENCE, I/O in flight during CLOSE / lease expiry, OPEN between its
// unlocked and locked halves).  After every step the harness records the
// replies that completed, the file system oracles consumed, the per-leaf
// open/close counters, what parked compounds hold, and a full dump of the
// program's state (verif hook VerifDump41).
package main

import (
	"bytes"
	"context"
	"crypto/sha256"
	"encoding/binary"
	"encoding/json"
	"fmt"
	"os"
	"runtime"
	"runtime/debug"
	"sort"
	"strconv"
	"strings"
	"time"

	nfs "github.com/buildbarn/bb-remote-execution/pkg/filesystem/virtual/nfsv4"
	"github.com/buildbarn/bb-remote-execution/pkg/filesystem/virtual"
	"github.com/buildbarn/bb-storage/pkg/clock"
	"github.com/buildbarn/bb-storage/pkg/filesystem/path"
	"github.com/buildbarn/go-xdr/pkg/protocols/nfsv4"

	g "verif/harness/internal/gallina"
	"verif/harness/internal/hcommon"
	"verif/harness/internal/rng"
)

// ---- history format --------------------------------------------------------

// sidRef refers to a state ID symbolically; it is resolved against what the
// client has learnt from earlier replies.
type sidRef struct {
	K    string `json:"k"`              // open, lock, cur, anon, bypass, raw
	Ow   int    `json:"ow,omitempty"`   // open-owner index
	Lo   int    `json:"lo,omitempty"`   // lock-owner index
	F    int    `json:"f,omitempty"`    // file index
	C    int    `json:"c,omitempty"`    // 1+client index to borrow the state ID from (0: own)
	SeqD int    `json:"sd,omitempty"`   // added to the known seqid
	Zero bool   `json:"z,omitempty"`    // use seqid 0
	Hi   uint32 `json:"hi,omitempty"`   // last four bytes of "other"
	Seq  uint32 `json:"seq,omitempty"`  // raw
	Oth  uint64 `json:"oth,omitempty"`  // raw
}

type cop struct {
	O     string   `json:"o"`
	F     int      `json:"f,omitempty"`
	Raw   uint64   `json:"raw,omitempty"` // putfh: explicit handle if F < 0
	Ow    int      `json:"ow,omitempty"`
	Lo    int      `json:"lo,omitempty"`
	Acc   uint32   `json:"acc,omitempty"`
	Deny  uint32   `json:"deny,omitempty"`
	How   int      `json:"how,omitempty"` // 0 nocreate 1 unchecked 2 guarded 3 exclusive
	Claim string   `json:"cl,omitempty"`  // null fh prev prevd dcur dprev
	New   bool     `json:"new,omitempty"`
	Sid   *sidRef  `json:"sid,omitempty"`
	Sids  []sidRef `json:"sids,omitempty"`
	Lt    uint32   `json:"lt,omitempty"`
	Off   uint64   `json:"off,omitempty"`
	Len   uint64   `json:"len,omitempty"`
	C     int      `json:"c,omitempty"`   // exid/cs/dc: client index
	Ver   int      `json:"ver,omitempty"` // exid: verifier
	SeqD  int      `json:"sd,omitempty"`  // cs: delta on the expected sequence
	Sess  int      `json:"sess,omitempty"`
}

type hop struct {
	K string `json:"k"` // adv, solo, seq, resume
	// adv
	D uint64 `json:"d,omitempty"`
	// solo / seq
	C    int    `json:"c,omitempty"`
	What string `json:"w,omitempty"` // solo: exid cs ds dc bind bindbad notonly notinsess minor empty
	Ver  int    `json:"ver,omitempty"`
	SeqD int    `json:"sd,omitempty"`
	Sess int    `json:"sess,omitempty"` // index into the client's sessions, newest first; <0: bogus
	// seq
	Slot  int    `json:"slot,omitempty"`
	Mode  string `json:"m,omitempty"` // next, same, variant, skip, old, dup
	Cache bool   `json:"cache,omitempty"`
	Drop  bool   `json:"drop,omitempty"` // the client never sees the reply
	Ops   []cop  `json:"ops,omitempty"`
	Plan  []bool `json:"plan,omitempty"`
	// resume / dup
	T int `json:"t,omitempty"`
	// generator macro the step belongs to (informational: counters only)
	Tag string `json:"tag,omitempty"`
}

type history struct {
	Lease  uint64 `json:"lease"`
	Slots  uint32 `json:"slots"`
	MaxOps uint32 `json:"maxops"`
	Ops    []hop  `json:"ops"`
}

// ---- fakes -----------------------------------------------------------------

type fakeClock struct{ ms uint64 }

var clockBase = time.Unix(1000000, 0)

const clock0 = 1000

func (c *fakeClock) Now() time.Time {
	return clockBase.Add(time.Duration(c.ms-clock0) * time.Millisecond)
}
func (c *fakeClock) NewContextWithTimeout(parent context.Context, timeout time.Duration) (context.Context, context.CancelFunc) {
	panic("not used")
}
func (c *fakeClock) NewTimer(d time.Duration) (clock.Timer, <-chan time.Time) {
	panic("not used")
}
func (c *fakeClock) NewTicker(d time.Duration) (clock.Ticker, <-chan time.Time) {
	panic("not used")
}

func msOf(t time.Time) uint64 {
	if t.IsZero() {
		return 0
	}
	return uint64(t.Sub(clockBase).Milliseconds()) + clock0
}

// counterRNG is the injected generator: every call returns the next
// counter value.
type counterRNG struct{ n uint64 }

func (r *counterRNG) Float64() float64         { panic("not used") }
func (r *counterRNG) Int64N(n int64) int64     { panic("not used") }
func (r *counterRNG) IntN(n int) int           { panic("not used") }
func (r *counterRNG) Shuffle(n int, swap func(i, j int)) { panic("not used") }
func (r *counterRNG) Uint32() uint32           { r.n++; return uint32(r.n) }
func (r *counterRNG) Uint64() uint64           { r.n++; return r.n }
func (r *counterRNG) Read(p []byte) (int, error) {
	r.n++
	for i := range p {
		p[i] = 0
	}
	binary.LittleEndian.PutUint64(p, r.n)
	return len(p), nil
}

// ---- identifiers <-> bytes --------------------------------------------------

func ownerBytes(prefix byte, k uint64) []byte { return []byte{prefix, byte(k)} }
func ownerKey(b string) uint64 {
	if len(b) == 2 {
		return uint64(b[1])
	}
	return 999
}
func verifierBytes(v uint64) (out [8]byte) {
	binary.LittleEndian.PutUint64(out[:], v)
	return
}
func sessionBytes(id uint64) (out [16]byte) {
	binary.LittleEndian.PutUint64(out[:], id)
	return
}
func sessionN(b [16]byte) uint64 {
	for _, x := range b[8:] {
		if x != 0 {
			return 1 << 62
		}
	}
	return binary.LittleEndian.Uint64(b[:8])
}
func fileName(f uint64) string {
	if f == 0 {
		return ""
	}
	return "f" + strconv.FormatUint(f, 10)
}

type sid struct {
	seq uint32
	lo  uint64
	hi  uint32
}

func (s sid) wire() (out nfsv4.Stateid4) {
	out.Seqid = s.seq
	binary.LittleEndian.PutUint64(out.Other[:8], s.lo)
	binary.LittleEndian.PutUint32(out.Other[8:], s.hi)
	return
}
func (s sid) term() string {
	return g.App("mkSid", g.N(uint64(s.seq)), g.N(s.lo), g.N(uint64(s.hi)))
}

// ---- client-side view ------------------------------------------------------

type slotView struct {
	cur     uint32 // sequence ID of the most recent new request
	lastReq *request
}

type sessionView struct {
	id    uint64
	slots []*slotView
}

type clientView struct {
	idx      int
	verifier uint64
	clientID uint64
	csSeq    uint32
	sessions []*sessionView // newest first
	regMs    uint64         // clock reading of the last EXCHANGE_ID / CREATE_SESSION that registered something new
	opens    map[[2]int]sid // (open-owner, file) -> state ID
	locks    map[[2]int]sid // (lock-owner, file) -> state ID
}

// request is a fully resolved SEQUENCE compound.
type request struct {
	client   int
	sess     uint64
	slot     uint32
	seq      uint32
	cache    bool
	args     []nfsv4.NfsArgop4
	opTerms  []string
	ops      []cop
	ioSpec   []bool
	selfAnon []bool
}

type thread struct {
	tid     uint64
	gid     uint64
	tk      *token
	req     *request // nil for solo compounds
	hop     hop
	view    *clientView
	done    bool
	blocked bool // observed waiting in opSequence for the original
	hung    bool
	soloC   *cop
	startMs uint64 // clock reading when the compound was sent
}

type completion struct {
	tid    uint64
	res    *nfsv4.Compound4res
	panicv interface{}
}

// ---- execution -------------------------------------------------------------

type world struct {
	fs      *fakeFS
	clock   *fakeClock
	rngc    *counterRNG
	program nfsv4.Nfs4Program
	events  chan fsEvent
	dones   chan completion
	threads []*thread
	clients []*clientView
	nextTid uint64
	info    *hcommon.Info
	slots   uint32
	lease   uint64
	wires   map[string]string // abstract reply -> wire hash
}

func newWorld(h *history, info *hcommon.Info) *world {
	w := &world{
		events: make(chan fsEvent, 64),
		dones:  make(chan completion, 64),
		clock:  &fakeClock{ms: clock0},
		rngc:   &counterRNG{},
		info:   info,
		slots:  h.Slots,
		lease:  h.Lease,
		wires:  map[string]string{},
	}
	w.fs = newFakeFS(w.events)
	pool := nfs.NewOpenedFilesPool(w.fs.resolve)
	w.program = nfs.NewNFS41Program(
		w.fs.root, pool,
		nfsv4.ServerOwner4{SoMinorId: 1, SoMajorId: []byte("verif")},
		[]byte("scope"),
		&nfsv4.ChannelAttrs4{
			CaHeaderpadsize: 0, CaMaxrequestsize: 1 << 20, CaMaxresponsesize: 1 << 20,
			CaMaxresponsesizeCached: 1 << 20, CaMaxoperations: h.MaxOps, CaMaxrequests: h.Slots,
		},
		w.rngc,
		nfsv4.Verifier4{1},
		w.clock,
		time.Duration(h.Lease)*time.Millisecond, 2*time.Duration(h.Lease)*time.Millisecond,
		path.UNIXFormat,
		nil,
	)
	for i := 0; i < 3; i++ {
		w.clients = append(w.clients, &clientView{idx: i, verifier: uint64(10 * (i + 1)), opens: map[[2]int]sid{}, locks: map[[2]int]sid{}})
	}
	return w
}

func goid() uint64 {
	var buf [64]byte
	n := runtime.Stack(buf[:], false)
	f := strings.Fields(string(buf[:n]))
	id, _ := strconv.ParseUint(f[1], 10, 64)
	return id
}

// goroutineState returns the wait state of goroutine gid ("" if it is gone).
func goroutineState(gid uint64) string {
	buf := make([]byte, 1<<16)
	for {
		n := runtime.Stack(buf, true)
		if n < len(buf) {
			buf = buf[:n]
			break
		}
		buf = make([]byte, 2*len(buf))
	}
	marker := fmt.Sprintf("goroutine %d [", gid)
	i := bytes.Index(buf, []byte(marker))
	if i < 0 {
		return ""
	}
	rest := buf[i+len(marker):]
	j := bytes.IndexByte(rest, ']')
	if j < 0 {
		return ""
	}
	return string(rest[:j])
}

const watchdog = 3 * time.Second

// launch runs a compound in a new goroutine.
func (w *world) launch(t *thread, args *nfsv4.Compound4args) {
	gidCh := make(chan uint64, 1)
	ctx := context.WithValue(context.Background(), tokenKey{}, t.tk)
	go func() {
		gidCh <- goid()
		var c completion
		c.tid = t.tid
		defer func() {
			if r := recover(); r != nil {
				c.panicv = r
				if os.Getenv("NFS41_DEBUG") != "" {
					fmt.Fprintf(os.Stderr, "PANIC tid=%d: %v\n%s\n", t.tid, r, debug.Stack())
				}
			}
			w.dones <- c
		}()
		res, err := w.program.NfsV4Nfsproc4Compound(ctx, args)
		if err != nil {
			panic(err)
		}
		c.res = res
	}()
	t.gid = <-gidCh
}

// settle waits until thread t has returned, parked or blocked, and
// collects every completion that arrives meanwhile.
func (w *world) settle(t *thread, comps *[]completion) (state string) {
	deadline := time.Now().Add(watchdog)
	spins := 0
	for {
		select {
		case c := <-w.dones:
			*comps = append(*comps, c)
			if c.tid == t.tid {
				return "done"
			}
			continue
		case ev := <-w.events:
			if ev.tid != t.tid {
				panic("unexpected park")
			}
			return "parked"
		default:
		}
		spins++
		if spins%20 == 0 {
			st := goroutineState(t.gid)
			if strings.HasPrefix(st, "chan receive") || strings.HasPrefix(st, "sync.") || strings.HasPrefix(st, "semacquire") || strings.HasPrefix(st, "select") {
				// Blocked.  Anything it sent before blocking is
				// already in the channels.
				select {
				case c := <-w.dones:
					*comps = append(*comps, c)
					if c.tid == t.tid {
						return "done"
					}
					continue
				case ev := <-w.events:
					if ev.tid != t.tid {
						panic("unexpected park")
					}
					return "parked"
				default:
				}
				if strings.HasPrefix(st, "chan receive") {
					return "blocked"
				}
				if time.Now().After(deadline) {
					return "deadlock"
				}
			}
		}
		if time.Now().After(deadline) {
			return "hang"
		}
		runtime.Gosched()
	}
}

// collectWoken waits for blocked duplicates that have been woken up.
func (w *world) collectWoken(comps *[]completion) {
	for _, t := range w.threads {
		if !t.blocked || t.done || t.hung {
			continue
		}
		already := false
		for _, c := range *comps {
			if c.tid == t.tid {
				already = true
			}
		}
		if already {
			continue
		}
		st := goroutineState(t.gid)
		if strings.HasPrefix(st, "chan receive") {
			continue // still waiting
		}
		if s := w.settle(t, comps); s != "done" {
			t.hung = true
		}
	}
}

// ---- reply decoding --------------------------------------------------------

type rd struct {
	b   []byte
	err bool
}

func (r *rd) u32() uint32 {
	if len(r.b) < 4 {
		r.err = true
		return 0
	}
	v := binary.BigEndian.Uint32(r.b)
	r.b = r.b[4:]
	return v
}
func (r *rd) u64() uint64 {
	if len(r.b) < 8 {
		r.err = true
		return 0
	}
	v := binary.BigEndian.Uint64(r.b)
	r.b = r.b[8:]
	return v
}
func (r *rd) bytesN(n int) []byte {
	if len(r.b) < n {
		r.err = true
		return make([]byte, n)
	}
	v := r.b[:n]
	r.b = r.b[n:]
	return v
}
func (r *rd) opaque() []byte {
	n := int(r.u32())
	v := r.bytesN(n)
	if pad := (4 - n%4) % 4; pad > 0 {
		r.bytesN(pad)
	}
	return v
}
func (r *rd) stateid() sid {
	seq := r.u32()
	o := r.bytesN(12)
	return sid{seq: seq, lo: binary.LittleEndian.Uint64(o[:8]), hi: binary.LittleEndian.Uint32(o[8:])}
}

// decoded result of one operation
type opResult struct {
	opnum  uint32
	status uint32
	term   string
	sid    *sid
	u1, u2 uint64 // exchange_id: clientid, seq; create_session: session, seq; getfh: handle
}

func decodeResop(res nfsv4.NfsResop4) opResult {
	var buf bytes.Buffer
	if _, err := res.WriteTo(&buf); err != nil {
		panic(err)
	}
	r := &rd{b: buf.Bytes()}
	o := opResult{}
	o.opnum = r.u32()
	o.status = r.u32()
	status := func() string { return g.App("RStatus", g.N(uint64(o.opnum)), g.N(uint64(o.status))) }
	denied := func() string {
		off, ln, lt, cid := r.u64(), r.u64(), r.u32(), r.u64()
		ow := r.opaque()
		return g.App("RDenied", g.N(uint64(o.opnum)), g.N(off), g.N(ln), g.N(uint64(lt)), g.N(cid), g.N(ownerKey(string(ow))))
	}
	stateidRes := func() string {
		s := r.stateid()
		o.sid = &s
		if s.hi != 0 {
			return g.App("RStatus", g.N(uint64(o.opnum)), g.N(999999))
		}
		return g.App("RStateid", g.N(uint64(o.opnum)), g.N(uint64(s.seq)), g.N(s.lo))
	}
	o.term = status()
	switch {
	case o.opnum == uint32(nfsv4.OP_SEQUENCE) && o.status == 0:
		var sb [16]byte
		copy(sb[:], r.bytesN(16))
		seq, slot, hi := r.u32(), r.u32(), r.u32()
		target, flags := r.u32(), r.u32()
		if target != hi || flags != 0 {
			o.term = g.App("RStatus", g.N(53), g.N(999998))
		} else {
			o.term = g.App("RSequenceOk", g.N(sessionN(sb)), g.N(uint64(seq)), g.N(uint64(slot)), g.N(uint64(hi)))
		}
	case o.opnum == uint32(nfsv4.OP_OPEN) && o.status == 0,
		o.opnum == uint32(nfsv4.OP_OPEN_DOWNGRADE) && o.status == 0,
		o.opnum == uint32(nfsv4.OP_LOCK) && o.status == 0,
		o.opnum == uint32(nfsv4.OP_LOCKU) && o.status == 0:
		o.term = stateidRes()
	case o.opnum == uint32(nfsv4.OP_CLOSE) && o.status == 0:
		s := r.stateid()
		if s.seq != 0xffffffff || s.lo != 0 || s.hi != 0 {
			o.term = g.App("RStatus", g.N(4), g.N(999997))
		}
	case (o.opnum == uint32(nfsv4.OP_LOCK) || o.opnum == uint32(nfsv4.OP_LOCKT)) && o.status == uint32(nfsv4.NFS4ERR_DENIED):
		o.term = denied()
	case o.opnum == uint32(nfsv4.OP_GETFH) && o.status == 0:
		id, ok := handleID(r.opaque())
		if !ok {
			id = 1 << 62
		}
		o.u1 = id
		o.term = g.App("RGetFH", g.N(id))
	case o.opnum == uint32(nfsv4.OP_TEST_STATEID) && o.status == 0:
		n := int(r.u32())
		var l []string
		for i := 0; i < n; i++ {
			l = append(l, g.N(uint64(r.u32())))
		}
		o.term = g.App("RTestStateid", g.List(l))
	case o.opnum == uint32(nfsv4.OP_EXCHANGE_ID) && o.status == 0:
		cid, seq, flags := r.u64(), r.u32(), r.u32()
		o.u1, o.u2 = cid, uint64(seq)
		confirmed := flags&nfsv4.EXCHGID4_FLAG_CONFIRMED_R != 0
		if flags&^uint32(nfsv4.EXCHGID4_FLAG_CONFIRMED_R) != nfsv4.EXCHGID4_FLAG_USE_NON_PNFS {
			o.term = g.App("RStatus", g.N(42), g.N(999996))
		} else {
			o.term = g.App("RExchangeId", g.N(cid), g.N(uint64(seq)), g.Bool(confirmed))
		}
	case o.opnum == uint32(nfsv4.OP_CREATE_SESSION) && o.status == 0:
		var sb [16]byte
		copy(sb[:], r.bytesN(16))
		seq := r.u32()
		o.u1, o.u2 = sessionN(sb), uint64(seq)
		o.term = g.App("RCreateSession", g.N(o.u1), g.N(uint64(seq)))
	}
	if r.err {
		o.term = g.App("RStatus", g.N(uint64(o.opnum)), g.N(999995))
	}
	return o
}

func decodeReply(res *nfsv4.Compound4res) (string, []opResult) {
	var terms []string
	var rs []opResult
	for _, r := range res.Resarray {
		o := decodeResop(r)
		rs = append(rs, o)
		terms = append(terms, o.term)
	}
	return g.App("mkReply", g.N(uint64(res.Status)), g.List(terms)), rs
}

// ---- request construction --------------------------------------------------

func (w *world) handleOf(f int) uint64 {
	name := fileName(uint64(f%3 + 1))
	w.fs.mu.Lock()
	defer w.fs.mu.Unlock()
	if l, ok := w.fs.names[name]; ok {
		return l.id
	}
	if id, ok := w.fs.lastFor[name]; ok {
		return id
	}
	return uint64(90 + f%3)
}

func (w *world) resolveSid(v *clientView, r *sidRef) sid {
	if r == nil {
		return sid{}
	}
	src := v
	if r.C > 0 {
		src = w.clients[(r.C-1)%len(w.clients)]
	}
	var s sid
	switch r.K {
	case "cur":
		return sid{seq: 1}
	case "anon":
		return sid{}
	case "bypass":
		return sid{seq: 0xffffffff, lo: 0xffffffffffffffff, hi: 0xffffffff}
	case "raw":
		return sid{seq: r.Seq, lo: r.Oth, hi: r.Hi}
	case "lock":
		s = pickSid(src.locks, [2]int{r.Lo % 3, r.F % 3}, sid{seq: 1, lo: 77})
	default:
		s = pickSid(src.opens, [2]int{r.Ow % 3, r.F % 3}, sid{seq: 1, lo: 66})
	}
	s.seq = uint32(int64(s.seq) + int64(r.SeqD))
	if r.Zero {
		s.seq = 0
	}
	s.hi = r.Hi
	return s
}

// pickSid returns the state ID known for key; if there is none, some other
// known state ID (two times out of three, so that unknown ones stay in
// the mix), else a bogus one.
func pickSid(m map[[2]int]sid, key [2]int, bogus sid) sid {
	if x, ok := m[key]; ok {
		return x
	}
	if len(m) == 0 || (key[0]+key[1])%3 == 2 {
		return bogus
	}
	var keys [][2]int
	for k := range m {
		keys = append(keys, k)
	}
	sort.Slice(keys, func(i, j int) bool {
		return keys[i][0] < keys[j][0] || (keys[i][0] == keys[j][0] && keys[i][1] < keys[j][1])
	})
	return m[keys[(key[0]*3+key[1])%len(keys)]]
}

func howTerm(h int) string {
	return []string{"HowNoCreate", "HowUnchecked", "HowGuarded", "HowExclusive"}[h&3]
}

func (w *world) sessionID(v *clientView, idx int) uint64 {
	if idx < 0 || len(v.sessions) == 0 {
		return uint64(5000 - idx)
	}
	return v.sessions[idx%len(v.sessions)].id
}

// buildOp resolves one operation: wire argument, Gallina term.
func (w *world) buildOp(v *clientView, o *cop, req *request) (nfsv4.NfsArgop4, string) {
	switch o.O {
	case "putroot":
		return &nfsv4.NfsArgop4_OP_PUTROOTFH{}, "OPutRootFH"
	case "putfh":
		h := o.Raw
		if o.F >= 0 {
			h = w.handleOf(o.F)
		}
		return &nfsv4.NfsArgop4_OP_PUTFH{Opputfh: nfsv4.Putfh4args{Object: handleBytes(h)}}, g.App("OPutFH", g.N(h))
	case "lookup":
		n := uint64(o.F%4)
		return &nfsv4.NfsArgop4_OP_LOOKUP{Oplookup: nfsv4.Lookup4args{Objname: fileName(n)}}, g.App("OLookup", g.N(n))
	case "getfh":
		return &nfsv4.NfsArgop4_OP_GETFH{}, "OGetFH"
	case "savefh":
		return &nfsv4.NfsArgop4_OP_SAVEFH{}, "OSaveFH"
	case "restorefh":
		return &nfsv4.NfsArgop4_OP_RESTOREFH{}, "ORestoreFH"
	case "getattr":
		return &nfsv4.NfsArgop4_OP_GETATTR{}, "OGetattr"
	case "remove":
		n := uint64(o.F%4)
		return &nfsv4.NfsArgop4_OP_REMOVE{Opremove: nfsv4.Remove4args{Target: fileName(n)}}, g.App("ORemove", g.N(n))
	case "open":
		ow := uint64(o.Ow % 3)
		args := nfsv4.Open4args{
			ShareAccess: o.Acc, ShareDeny: o.Deny,
			Owner: nfsv4.StateOwner4{Clientid: v.clientID, Owner: ownerBytes('o', ow)},
		}
		switch o.How & 3 {
		case 0:
			args.Openhow = &nfsv4.Openflag4_default{Opentype: nfsv4.OPEN4_NOCREATE}
		case 1:
			args.Openhow = &nfsv4.Openflag4_OPEN4_CREATE{How: &nfsv4.Createhow4_UNCHECKED4{}}
		case 2:
			args.Openhow = &nfsv4.Openflag4_OPEN4_CREATE{How: &nfsv4.Createhow4_GUARDED4{}}
		default:
			args.Openhow = &nfsv4.Openflag4_OPEN4_CREATE{How: &nfsv4.Createhow4_EXCLUSIVE4{}}
		}
		var cl string
		switch o.Claim {
		case "fh":
			args.Claim = &nfsv4.OpenClaim4_CLAIM_FH{}
			cl = "ClaimFH"
			req.selfAnon = append(req.selfAnon, false)
		case "prev":
			args.Claim = &nfsv4.OpenClaim4_CLAIM_PREVIOUS{DelegateType: nfsv4.OPEN_DELEGATE_NONE}
			cl = "(ClaimPrev true)"
			req.selfAnon = append(req.selfAnon, false)
		case "prevd":
			args.Claim = &nfsv4.OpenClaim4_CLAIM_PREVIOUS{DelegateType: nfsv4.OPEN_DELEGATE_READ}
			cl = "(ClaimPrev false)"
			req.selfAnon = append(req.selfAnon, false)
		case "dcur":
			args.Claim = &nfsv4.OpenClaim4_CLAIM_DELEG_CUR_FH{}
			cl = "ClaimDelegCur"
		case "dprev":
			args.Claim = &nfsv4.OpenClaim4_CLAIM_DELEG_PREV_FH{}
			cl = "ClaimDelegPrev"
		default:
			n := uint64(o.F%4)
			args.Claim = &nfsv4.OpenClaim4_CLAIM_NULL{File: fileName(n)}
			cl = g.App("ClaimNull", g.N(n))
		}
		return &nfsv4.NfsArgop4_OP_OPEN{Opopen: args},
			g.App("OOpen", g.N(ow), g.N(uint64(o.Acc)), g.N(uint64(o.Deny)), howTerm(o.How), cl)
	case "downgrade":
		s := w.resolveSid(v, o.Sid)
		return &nfsv4.NfsArgop4_OP_OPEN_DOWNGRADE{OpopenDowngrade: nfsv4.OpenDowngrade4args{OpenStateid: s.wire(), ShareAccess: o.Acc, ShareDeny: o.Deny}},
			g.App("OOpenDowngrade", s.term(), g.N(uint64(o.Acc)), g.N(uint64(o.Deny)))
	case "close":
		s := w.resolveSid(v, o.Sid)
		return &nfsv4.NfsArgop4_OP_CLOSE{Opclose: nfsv4.Close4args{OpenStateid: s.wire()}}, g.App("OClose", s.term())
	case "lock":
		s := w.resolveSid(v, o.Sid)
		args := nfsv4.Lock4args{Locktype: nfsv4.NfsLockType4(o.Lt), Offset: o.Off, Length: o.Len}
		var lk string
		if o.New {
			lo := uint64(o.Lo % 3)
			args.Locker = &nfsv4.Locker4_TRUE{OpenOwner: nfsv4.OpenToLockOwner4{
				OpenStateid: s.wire(),
				LockOwner:   nfsv4.StateOwner4{Clientid: v.clientID, Owner: ownerBytes('l', lo)},
			}}
			lk = g.App("LockerNew", s.term(), g.N(lo))
		} else {
			args.Locker = &nfsv4.Locker4_FALSE{LockOwner: nfsv4.ExistLockOwner4{LockStateid: s.wire()}}
			lk = g.App("LockerExisting", s.term())
		}
		return &nfsv4.NfsArgop4_OP_LOCK{Oplock: args},
			g.App("OLock", g.N(uint64(o.Lt)), g.N(o.Off), g.N(o.Len), lk)
	case "lockt":
		lo := uint64(o.Lo % 3)
		return &nfsv4.NfsArgop4_OP_LOCKT{Oplockt: nfsv4.Lockt4args{
				Locktype: nfsv4.NfsLockType4(o.Lt), Offset: o.Off, Length: o.Len,
				Owner: nfsv4.StateOwner4{Clientid: v.clientID, Owner: ownerBytes('l', lo)},
			}},
			g.App("OLockT", g.N(uint64(o.Lt)), g.N(o.Off), g.N(o.Len), g.N(lo))
	case "locku":
		s := w.resolveSid(v, o.Sid)
		return &nfsv4.NfsArgop4_OP_LOCKU{Oplocku: nfsv4.Locku4args{Locktype: nfsv4.READ_LT, LockStateid: s.wire(), Offset: o.Off, Length: o.Len}},
			g.App("OLockU", s.term(), g.N(o.Off), g.N(o.Len))
	case "read", "write", "setattr":
		s := w.resolveSid(v, o.Sid)
		special := s == (sid{}) || s == sid{seq: 0xffffffff, lo: 0xffffffffffffffff, hi: 0xffffffff}
		req.ioSpec = append(req.ioSpec, special)
		switch o.O {
		case "read":
			if special {
				req.selfAnon = append(req.selfAnon, true)
			}
			return &nfsv4.NfsArgop4_OP_READ{Opread: nfsv4.Read4args{Stateid: s.wire(), Count: 4}}, g.App("ORead", s.term())
		case "write":
			if special {
				req.selfAnon = append(req.selfAnon, true)
			}
			return &nfsv4.NfsArgop4_OP_WRITE{Opwrite: nfsv4.Write4args{Stateid: s.wire(), Data: []byte("x")}}, g.App("OWrite", s.term())
		default:
			return &nfsv4.NfsArgop4_OP_SETATTR{Opsetattr: nfsv4.Setattr4args{Stateid: s.wire()}}, g.App("OSetattr", s.term())
		}
	case "free":
		s := w.resolveSid(v, o.Sid)
		return &nfsv4.NfsArgop4_OP_FREE_STATEID{OpfreeStateid: nfsv4.FreeStateid4args{FsaStateid: s.wire()}}, g.App("OFreeStateid", s.term())
	case "test":
		var ws []nfsv4.Stateid4
		var ts []string
		for i := range o.Sids {
			s := w.resolveSid(v, &o.Sids[i])
			ws = append(ws, s.wire())
			ts = append(ts, s.term())
		}
		return &nfsv4.NfsArgop4_OP_TEST_STATEID{OptestStateid: nfsv4.TestStateid4args{TsStateids: ws}}, g.App("OTestStateid", g.List(ts))
	case "delegpurge":
		return &nfsv4.NfsArgop4_OP_DELEGPURGE{}, "ODelegPurge"
	case "nestedseq":
		return &nfsv4.NfsArgop4_OP_SEQUENCE{}, "ONestedSequence"
	case "bind":
		return &nfsv4.NfsArgop4_OP_BIND_CONN_TO_SESSION{}, "OBindConn"
	case "exid":
		c := w.clients[o.C%len(w.clients)]
		ver := c.verifier + uint64(o.Ver)
		return &nfsv4.NfsArgop4_OP_EXCHANGE_ID{OpexchangeId: exidArgs(uint64(c.idx), ver)}, g.App("OExchangeId", g.N(uint64(c.idx)), g.N(ver))
	case "cs":
		c := w.clients[o.C%len(w.clients)]
		seq := uint32(int64(c.csSeq) + int64(o.SeqD))
		return &nfsv4.NfsArgop4_OP_CREATE_SESSION{OpcreateSession: csArgs(c.clientID, seq)}, g.App("OCreateSession", g.N(c.clientID), g.N(uint64(seq)))
	case "ds":
		c := w.clients[o.C%len(w.clients)]
		id := w.sessionID(c, o.Sess)
		return &nfsv4.NfsArgop4_OP_DESTROY_SESSION{OpdestroySession: nfsv4.DestroySession4args{DsaSessionid: sessionBytes(id)}}, g.App("ODestroySession", g.N(id))
	case "dc":
		c := w.clients[o.C%len(w.clients)]
		return &nfsv4.NfsArgop4_OP_DESTROY_CLIENTID{OpdestroyClientid: nfsv4.DestroyClientid4args{DcaClientid: c.clientID}}, g.App("ODestroyClientid", g.N(c.clientID))
	default: // "illegal": an NFSv4.0-only operation
		return &nfsv4.NfsArgop4_OP_RENEW{}, "OIllegal"
	}
}

func exidArgs(owner, ver uint64) nfsv4.ExchangeId4args {
	return nfsv4.ExchangeId4args{
		EiaClientowner:  nfsv4.ClientOwner4{CoVerifier: verifierBytes(ver), CoOwnerid: ownerBytes('c', owner)},
		EiaStateProtect: &nfsv4.StateProtect4A_SP4_NONE{},
	}
}

var chanAttrs = nfsv4.ChannelAttrs4{CaMaxrequestsize: 4096, CaMaxresponsesize: 4096, CaMaxresponsesizeCached: 4096, CaMaxoperations: 16, CaMaxrequests: 8}

func csArgs(cid uint64, seq uint32) nfsv4.CreateSession4args {
	return nfsv4.CreateSession4args{CsaClientid: cid, CsaSequence: seq, CsaForeChanAttrs: chanAttrs, CsaBackChanAttrs: chanAttrs}
}

// ---- state dump -> Gallina ---------------------------------------------------

func ltypeTerm(t int) string {
	switch virtual.ByteRangeLockType(t) {
	case virtual.ByteRangeLockTypeLockedExclusive:
		return "LS.Exclusive"
	case virtual.ByteRangeLockTypeLockedShared:
		return "LS.Shared"
	}
	return "LS.Unlocked"
}

// keyed is a list of Gallina terms with their identifiers, sorted by identifier.
type keyed struct {
	ids   []uint64
	terms []string
}

func (k *keyed) add(id uint64, term string) {
	k.ids = append(k.ids, id)
	k.terms = append(k.terms, term)
}

// deltaTerm prints cur relative to prev as a [delta].
func deltaTerm(prev, cur *keyed) string {
	if prev != nil && len(prev.ids) == len(cur.ids) {
		same := true
		for i := range cur.ids {
			if prev.ids[i] != cur.ids[i] || prev.terms[i] != cur.terms[i] {
				same = false
				break
			}
		}
		if same {
			return "DSame"
		}
	}
	old := map[uint64]string{}
	if prev != nil {
		for i, id := range prev.ids {
			old[id] = prev.terms[i]
		}
	}
	var changed, removed []string
	seen := map[uint64]bool{}
	size := 0
	for i, id := range cur.ids {
		seen[id] = true
		if t, ok := old[id]; !ok || t != cur.terms[i] {
			changed = append(changed, cur.terms[i])
			size += len(cur.terms[i])
		}
	}
	if prev != nil {
		for _, id := range prev.ids {
			if !seen[id] {
				removed = append(removed, g.N(id))
			}
		}
	}
	full := 0
	for _, t := range cur.terms {
		full += len(t)
	}
	if prev == nil || size+10*len(removed) >= full {
		return g.App("DFull", g.List(cur.terms))
	}
	return g.App("DPatch", g.List(changed), g.List(removed))
}

type dumpParts struct {
	now                     uint64
	clients, sessions, pool *keyed
	idle                    string
}

// safeDump41 takes the state dump; nil if the program's locks are never
// released (a panic inside a critical section without deferred unlock).
func safeDump41(w *world) *nfs.Verif41Dump {
	ch := make(chan *nfs.Verif41Dump, 1)
	go func() { ch <- nfs.VerifDump41(w.program) }()
	select {
	case d := <-ch:
		return d
	case <-time.After(watchdog):
		return nil
	}
}

func dumpParts41(w *world) *dumpParts {
	d := safeDump41(w)
	if d == nil {
		return nil
	}
	out := &dumpParts{now: msOf(d.Now), clients: &keyed{}, sessions: &keyed{}, pool: &keyed{}}
	var idle []string
	for _, c := range d.Clients {
		var oofs, lows []string
		for _, o := range c.OpenOwnerFiles {
			var lofs []string
			for _, l := range o.LockOwnerFiles {
				lofs = append(lofs, g.App("mkDLofs", g.N(l.Other), g.N(uint64(l.Seq)), g.N(ownerKey(l.OwnerKey)), g.Z(int64(l.OwnerTag)), g.N(uint64(l.ShareAccess)), g.Z(int64(l.LockCount))))
			}
			h, ok := handleID(o.Handle)
			if !ok {
				h = 1 << 62
			}
			oofs = append(oofs, g.App("mkDOofs", g.N(o.Other), g.N(uint64(o.Seq)), g.N(ownerKey(o.OwnerKey)), g.N(h), g.N(uint64(o.ShareAccess)), g.Z(int64(o.Readers)), g.Z(int64(o.Writers)), g.List(lofs)))
		}
		for _, l := range c.LockOwners {
			lows = append(lows, fmt.Sprintf("(%s, %s)", g.N(ownerKey(l.Key)), g.Z(int64(l.FileCount))))
		}
		out.clients.add(c.ClientID, g.App("mkDClient", g.N(c.ClientID), g.N(ownerKey(c.OwnerID)), g.N(binary.LittleEndian.Uint64(c.Verifier[:])), g.Bool(c.Confirmed), g.Z(int64(c.HoldCount)), g.N(msOf(c.LastSeen)), g.N(uint64(c.LastSequenceID)), g.N(c.LastStateIDOther), g.N(uint64(c.OpenOwners)), g.N(uint64(c.LockOwnerFiles)), g.List(oofs), g.List(lows)))
	}
	ss := d.Sessions
	sort.Slice(ss, func(i, j int) bool { return sessionN(ss[i].SessionID) < sessionN(ss[j].SessionID) })
	for _, s := range ss {
		var slots []string
		for _, sl := range s.Slots {
			slots = append(slots, g.App("mkDSlot", g.N(uint64(sl.LastSequenceID)), g.N(uint64(sl.LastStatus)), g.N(uint64(sl.LastResults)), g.Bool(sl.InFlight), g.N(uint64(sl.Waiters))))
		}
		out.sessions.add(sessionN(s.SessionID), g.App("mkDSession", g.N(sessionN(s.SessionID)), g.N(s.ClientID), g.List(slots)))
	}
	for _, f := range d.Pool {
		var locks []string
		for _, l := range f.Locks {
			locks = append(locks, g.App("mkDLock", g.N(l.Start), g.N(l.End), g.N(l.ClientID), g.N(ownerKey(l.OwnerKey)), g.Z(int64(l.OwnerTag)), ltypeTerm(l.Type)))
		}
		h, ok := handleID(f.Handle)
		if !ok {
			h = 1 << 62
		}
		out.pool.add(h, g.App("mkDPfile", g.N(h), g.Z(int64(f.UseCount)), g.List(locks)))
		if len(f.Locks) > w.info.Extra["max_locks_per_file"] {
			w.info.Extra["max_locks_per_file"] = len(f.Locks)
		}
	}
	for _, id := range d.Idle {
		idle = append(idle, g.N(id))
	}
	out.idle = g.List(idle)
	if len(d.Clients) > w.info.Extra["max_clients"] {
		w.info.Extra["max_clients"] = len(d.Clients)
	}
	if len(d.Pool) > w.info.Extra["max_pool_files"] {
		w.info.Extra["max_pool_files"] = len(d.Pool)
	}
	return out
}

func (w *world) leavesKeyed() *keyed {
	w.fs.mu.Lock()
	defer w.fs.mu.Unlock()
	var ids []uint64
	for id := range w.fs.leaves {
		ids = append(ids, id)
	}
	sort.Slice(ids, func(i, j int) bool { return ids[i] < ids[j] })
	k := &keyed{}
	for _, id := range ids {
		x := w.fs.leaves[id]
		k.add(id, g.App("mkLeafCnt", g.N(id), g.Z(int64(x.openR)), g.Z(int64(x.openW)), g.Z(int64(x.closeR)), g.Z(int64(x.closeW))))
	}
	return k
}

// ---- running a step ----------------------------------------------------------

// learn updates the client's view from the reply to req.
func (w *world) learn(v *clientView, req *request, rs []opResult) {
	if len(rs) == 0 || rs[0].opnum != uint32(nfsv4.OP_SEQUENCE) || rs[0].status != 0 {
		return
	}
	file := -1
	for i, r := range rs[1:] {
		if i >= len(req.ops) {
			break
		}
		o := req.ops[i]
		if r.status != 0 {
			break
		}
		switch o.O {
		case "putfh":
			if o.F >= 0 {
				file = o.F % 3
			}
		case "putroot":
			file = -1
		case "open":
			if o.Claim == "" || o.Claim == "null" {
				if n := o.F % 4; n >= 1 {
					file = n - 1
				}
			}
			if r.sid != nil && file >= 0 {
				v.opens[[2]int{o.Ow % 3, file}] = *r.sid
			}
		case "downgrade":
			if r.sid != nil && o.Sid != nil && o.Sid.K == "open" && o.Sid.C == 0 {
				v.opens[[2]int{o.Sid.Ow % 3, o.Sid.F % 3}] = *r.sid
			}
		case "lock":
			if r.sid != nil {
				if o.New && file >= 0 {
					v.locks[[2]int{o.Lo % 3, file}] = *r.sid
				} else if o.Sid != nil && o.Sid.K == "lock" && o.Sid.C == 0 {
					v.locks[[2]int{o.Sid.Lo % 3, o.Sid.F % 3}] = *r.sid
				}
			}
		case "locku":
			if r.sid != nil && o.Sid != nil && o.Sid.K == "lock" && o.Sid.C == 0 {
				v.locks[[2]int{o.Sid.Lo % 3, o.Sid.F % 3}] = *r.sid
			}
		case "cs":
			w.learnCS(w.clients[o.C%len(w.clients)], r)
		case "exid":
			w.learnExid(w.clients[o.C%len(w.clients)], uint64(o.Ver), r)
		}
	}
}

func (w *world) learnExid(c *clientView, verDelta uint64, r opResult) {
	if r.opnum != uint32(nfsv4.OP_EXCHANGE_ID) || r.status != 0 {
		return
	}
	if r.u1 != c.clientID {
		// New incarnation: forget everything learnt so far.
		c.clientID = r.u1
		c.regMs = w.clock.ms
		c.sessions = nil
		c.opens = map[[2]int]sid{}
		c.locks = map[[2]int]sid{}
	}
	c.verifier += verDelta
	if r.u2 != 0 {
		c.csSeq = uint32(r.u2)
	}
}

func (w *world) learnCS(c *clientView, r opResult) {
	if r.opnum != uint32(nfsv4.OP_CREATE_SESSION) || r.status != 0 {
		return
	}
	for _, s := range c.sessions {
		if s.id == r.u1 {
			return // replayed reply
		}
	}
	sv := &sessionView{id: r.u1}
	for i := uint32(0); i < w.slots; i++ {
		sv.slots = append(sv.slots, &slotView{})
	}
	c.regMs = w.clock.ms
	c.sessions = append([]*sessionView{sv}, c.sessions...)
	c.csSeq = uint32(r.u2) + 1
}

func (w *world) inflight() []*thread {
	var l []*thread
	for _, t := range w.threads {
		if !t.done && !t.hung && !t.blocked && t.req != nil {
			l = append(l, t)
		}
	}
	return l
}

type stepOut struct {
	hopTerm string
	comps   []completion
	note    string
}

func (w *world) newThread(h hop, v *clientView, req *request, plan []bool) *thread {
	w.nextTid++
	t := &thread{tid: w.nextTid, hop: h, view: v, req: req, startMs: w.clock.ms}
	t.tk = &token{tid: t.tid, plan: plan, release: make(chan struct{})}
	if req != nil {
		t.tk.ioSpecial = req.ioSpec
		t.tk.selfAnon = req.selfAnon
	}
	w.threads = append(w.threads, t)
	return t
}

func (w *world) runStep(h hop) (string, []completion, bool) {
	var comps []completion
	info := w.info
	switch h.K {
	case "adv":
		w.clock.ms += h.D
		info.Ops["advance"]++
		return g.App("HAdvance", g.N(h.D)), nil, true
	case "resume":
		var parked []*thread
		for _, t := range w.threads {
			if !t.done && !t.hung && !t.blocked {
				parked = append(parked, t)
			}
		}
		if len(parked) == 0 {
			return "", nil, false
		}
		t := parked[h.T%len(parked)]
		info.Ops["resume"]++
		t.tk.release <- struct{}{}
		switch w.settle(t, &comps) {
		case "done", "parked":
		default:
			t.hung = true
		}
		w.collectWoken(&comps)
		return g.App("HResume", g.N(t.tid)), comps, true
	case "solo":
		v := w.clients[h.C%len(w.clients)]
		var args nfsv4.Compound4args
		args.Minorversion = 1
		var term string
		c := cop{C: h.C, Ver: h.Ver, SeqD: h.SeqD, Sess: h.Sess}
		switch h.What {
		case "exid":
			c.O = "exid"
			ver := v.verifier + uint64(h.Ver)
			args.Argarray = []nfsv4.NfsArgop4{&nfsv4.NfsArgop4_OP_EXCHANGE_ID{OpexchangeId: exidArgs(uint64(v.idx), ver)}}
			term = g.App("SExchangeId", g.N(uint64(v.idx)), g.N(ver))
		case "cs":
			c.O = "cs"
			seq := uint32(int64(v.csSeq) + int64(h.SeqD))
			args.Argarray = []nfsv4.NfsArgop4{&nfsv4.NfsArgop4_OP_CREATE_SESSION{OpcreateSession: csArgs(v.clientID, seq)}}
			term = g.App("SCreateSession", g.N(v.clientID), g.N(uint64(seq)))
		case "ds":
			id := w.sessionID(v, h.Sess)
			args.Argarray = []nfsv4.NfsArgop4{&nfsv4.NfsArgop4_OP_DESTROY_SESSION{OpdestroySession: nfsv4.DestroySession4args{DsaSessionid: sessionBytes(id)}}}
			term = g.App("SDestroySession", g.N(id))
		case "dc":
			args.Argarray = []nfsv4.NfsArgop4{&nfsv4.NfsArgop4_OP_DESTROY_CLIENTID{OpdestroyClientid: nfsv4.DestroyClientid4args{DcaClientid: v.clientID}}}
			term = g.App("SDestroyClientid", g.N(v.clientID))
		case "bind", "bindbad":
			id := w.sessionID(v, h.Sess)
			dir := nfsv4.CDFC4_FORE
			if h.What == "bindbad" {
				dir = 77
			}
			args.Argarray = []nfsv4.NfsArgop4{&nfsv4.NfsArgop4_OP_BIND_CONN_TO_SESSION{OpbindConnToSession: nfsv4.BindConnToSession4args{BctsaSessid: sessionBytes(id), BctsaDir: nfsv4.ChannelDirFromClient4(dir)}}}
			term = g.App("SBindConn", g.N(id), g.Bool(h.What == "bind"))
		case "notonly":
			args.Argarray = []nfsv4.NfsArgop4{&nfsv4.NfsArgop4_OP_EXCHANGE_ID{OpexchangeId: exidArgs(uint64(v.idx), v.verifier)}, &nfsv4.NfsArgop4_OP_PUTROOTFH{}}
			term = g.App("SNotOnlyOp", g.N(42))
		case "notinsess":
			args.Argarray = []nfsv4.NfsArgop4{&nfsv4.NfsArgop4_OP_PUTROOTFH{}}
			term = "SNotInSession"
		case "minor":
			args.Minorversion = 0
			args.Argarray = []nfsv4.NfsArgop4{&nfsv4.NfsArgop4_OP_PUTROOTFH{}}
			term = "SMinorMismatch"
		default:
			term = "SEmpty"
		}
		info.Ops["solo-"+h.What]++
		t := w.newThread(h, v, nil, nil)
		t.soloC = &c
		w.launch(t, &args)
		if s := w.settle(t, &comps); s != "done" {
			t.hung = true
		}
		w.collectWoken(&comps)
		return g.App("HSolo", g.N(t.tid), term), comps, true
	case "seq":
		v := w.clients[h.C%len(w.clients)]
		var req *request
		mode := h.Mode
		if mode == "dup" {
			fl := w.inflight()
			if len(fl) == 0 {
				mode = "next"
			} else {
				orig := fl[h.T%len(fl)]
				cp := *orig.req
				req = &cp
				v = orig.view
			}
		}
		if req == nil {
			sessID := w.sessionID(v, h.Sess)
			var sv *sessionView
			for _, s := range v.sessions {
				if s.id == sessID {
					sv = s
				}
			}
			slot := uint32(h.Slot)
			if sv != nil && h.Slot >= 0 && h.Slot < 8 {
				slot = uint32(h.Slot) % uint32(len(sv.slots))
				if mode == "next" || mode == "" {
					// Prefer a slot without a request in flight.
					for k := 0; k < len(sv.slots); k++ {
						busy := false
						for _, t := range w.inflight() {
							if t.req.sess == sessID && t.req.slot == slot && t.req.seq == sv.slots[slot].cur {
								busy = true
							}
						}
						if !busy {
							break
						}
						slot = (slot + 1) % uint32(len(sv.slots))
					}
				}
			}
			var sl *slotView
			if sv != nil && int(slot) < len(sv.slots) {
				sl = sv.slots[slot]
			}
			if mode == "same" && sl != nil && sl.lastReq != nil {
				cp := *sl.lastReq
				req = &cp
			} else {
				req = &request{client: v.idx, sess: sessID, slot: slot, cache: h.Cache, ops: h.Ops}
				cur := uint32(0)
				if sl != nil {
					cur = sl.cur
				}
				switch mode {
				case "variant", "same":
					req.seq = cur
				case "skip":
					req.seq = cur + 2 + uint32(h.T%3)
				case "old":
					req.seq = cur - 1
				default:
					mode = "next"
					req.seq = cur + 1
				}
				for i := range h.Ops {
					a, term := w.buildOp(v, &h.Ops[i], req)
					req.args = append(req.args, a)
					req.opTerms = append(req.opTerms, term)
				}
				if mode == "next" && sl != nil {
					sl.cur = req.seq
					sl.lastReq = req
				}
			}
		}
		info.Ops["seq-"+mode]++
		for _, o := range req.ops {
			info.Ops["op-"+o.O]++
		}
		args := nfsv4.Compound4args{Minorversion: 1}
		args.Argarray = append(args.Argarray, &nfsv4.NfsArgop4_OP_SEQUENCE{Opsequence: nfsv4.Sequence4args{
			SaSessionid: sessionBytes(req.sess), SaSequenceid: req.seq, SaSlotid: req.slot, SaHighestSlotid: req.slot, SaCachethis: req.cache,
		}})
		args.Argarray = append(args.Argarray, req.args...)
		var plan []string
		for _, b := range h.Plan {
			plan = append(plan, g.Bool(b))
		}
		t := w.newThread(h, v, req, h.Plan)
		w.launch(t, &args)
		switch w.settle(t, &comps) {
		case "done", "parked":
		case "blocked":
			t.blocked = true
			info.Outs["duplicate-waits"]++
		default:
			t.hung = true
		}
		w.collectWoken(&comps)
		return g.App("HSeq", g.N(t.tid), g.N(req.sess), g.N(uint64(req.slot)), g.N(uint64(req.seq)), g.Bool(req.cache), g.List(req.opTerms), g.List(plan)), comps, true
	}
	return "", nil, false
}

func (w *world) threadByTid(tid uint64) *thread {
	for _, t := range w.threads {
		if t.tid == tid {
			return t
		}
	}
	return nil
}

func (a area) Execute(raw json.RawMessage) (term string, info *hcommon.Info, err error) {
	var h history
	if err := json.Unmarshal(raw, &h); err != nil {
		return "", nil, err
	}
	if h.Lease == 0 {
		h.Lease = 2000
	}
	if h.Slots == 0 {
		h.Slots = 2
	}
	if h.MaxOps == 0 {
		h.MaxOps = 6
	}
	info = hcommon.NewInfo()
	w := newWorld(&h, info)
	var steps []string
	var prevDump *dumpParts
	var prevLeaves *keyed
	kinds := map[string]bool{}
	for _, o := range h.Ops {
		w.fs.mu.Lock()
		w.fs.oracles = nil
		w.fs.mu.Unlock()
		hopTerm, comps, ok := w.runStep(o)
		if !ok {
			continue
		}
		info.Events++
		if o.Tag != "" {
			info.Ops["macro:"+o.Tag]++
		}
		// Replies.
		var replies, panics []string
		sort.Slice(comps, func(i, j int) bool { return comps[i].tid < comps[j].tid })
		for _, c := range comps {
			t := w.threadByTid(c.tid)
			t.done = true
			if c.panicv != nil {
				panics = append(panics, g.N(c.tid))
				info.Outs["panic"]++
				continue
			}
			rt, rs := decodeReply(c.res)
			replies = append(replies, fmt.Sprintf("(%s, %s)", g.N(c.tid), rt))
			var wire bytes.Buffer
			c.res.WriteTo(&wire)
			sum := sha256.Sum256(wire.Bytes())
			if prev, ok := w.wires[rt]; ok && prev != string(sum[:]) {
				info.Outs["abstract-reply-collision"]++
			}
			w.wires[rt] = string(sum[:])
			info.Outs[fmt.Sprintf("status-%d", c.res.Status)]++
			kinds[fmt.Sprintf("%d", c.res.Status)] = true
			if t.req != nil && len(rs) >= 1 && rs[0].opnum == uint32(nfsv4.OP_SEQUENCE) && rs[0].status == 0 {
				// Lease scenarios: a client heard of through SEQUENCE compounds only.
				if t.view.clientID != 0 && t.view.idx == t.req.client {
					span := int(w.clock.ms - t.view.regMs)
					if uint64(span) > 2*w.lease {
						info.Outs["lease:seq-accepted-after-2-leases-of-seq-only"]++
					}
					if span > info.Extra["max_seq_only_span_ms"] {
						info.Extra["max_seq_only_span_ms"] = span
					}
				}
				if w.clock.ms-t.startMs > w.lease {
					info.Outs["lease:parked-compound-outlasts-lease"]++
				}
			}
			if t.hop.Drop {
				continue
			}
			if t.req != nil {
				w.learn(t.view, t.req, rs)
			} else if t.soloC != nil && len(rs) == 1 {
				switch t.soloC.O {
				case "exid":
					w.learnExid(t.view, uint64(t.soloC.Ver), rs[0])
				case "cs":
					w.learnCS(t.view, rs[0])
				}
			}
		}
		// What compounds in flight hold, and who is blocked / hung.
		var flight, blocked, hung []string
		for _, t := range w.threads {
			if t.done {
				continue
			}
			if t.hung {
				hung = append(hung, g.N(t.tid))
				continue
			}
			if t.blocked {
				blocked = append(blocked, g.N(t.tid))
				continue
			}
			if t.tk.flight != "" {
				flight = append(flight, t.tk.flight)
			}
		}
		w.fs.mu.Lock()
		orcs := append([]string(nil), w.fs.oracles...)
		w.fs.mu.Unlock()
		if len(hung) > 0 {
			info.Outs["hung"]++
		}
		var dp *dumpParts
		if len(panics) == 0 {
			dp = dumpParts41(w)
		}
		lv := w.leavesKeyed()
		if dp == nil {
			// A compound panicked (or the locks are stuck): the state can
			// no longer be observed.  The case ends with this step.
			if len(panics) == 0 {
				hung = append(hung, g.N(0))
				info.Outs["locks-stuck"]++
			}
			steps = append(steps, g.App("mkRStep", hopTerm, g.List(orcs), g.List(replies), g.List(panics), g.List(blocked), g.List(hung),
				deltaTerm(prevLeaves, lv), g.List(flight), g.N(func() uint64 {
					if prevDump != nil {
						return prevDump.now
					}
					return 0
				}()), "DSame", "None", "DSame", "DSame"))
			break
		}
		idle := "None"
		if prevDump == nil || prevDump.idle != dp.idle {
			idle = g.Some(dp.idle)
		}
		var pc, ps, pp *keyed
		if prevDump != nil {
			pc, ps, pp = prevDump.clients, prevDump.sessions, prevDump.pool
		}
		steps = append(steps, g.App("mkRStep", hopTerm, g.List(orcs), g.List(replies), g.List(panics), g.List(blocked), g.List(hung),
			deltaTerm(prevLeaves, lv), g.List(flight), g.N(dp.now), deltaTerm(pc, dp.clients), idle, deltaTerm(ps, dp.sessions), deltaTerm(pp, dp.pool)))
		prevDump, prevLeaves = dp, lv
		if len(hung) > 0 {
			break // goroutines are stuck; the case ends here
		}
	}
	info.Nontrivial = kinds["0"] && len(kinds) >= 4 && info.Ops["op-open"] > 0 && info.Ops["op-lock"] > 0
	cfg := g.App("mkConfig", g.N(h.Lease), g.N(uint64(h.Slots)), g.N(uint64(h.MaxOps)))
	return g.App("mkCase", cfg, g.N(clock0), g.List(steps)), info, nil
}

type area struct{}

func (area) Requires() string {
	return "From VF Require Import Common.Verdict Nfs41.Model Nfs41.Spec Nfs41.Corr."
}
func (area) Check() string { return "check_case" }
func (area) Rule() string {
	return "histories of 20-60 steps (quick) over <=3 clients, <=3 open-owners and <=3 lock-owners each, <=3 files: EXCHANGE_ID/CREATE_SESSION/DESTROY_*/BIND_CONN solo compounds, SEQUENCE compounds of 1-6 operations (OPEN with every claim/create mode, OPEN_DOWNGRADE, CLOSE, LOCK/LOCKT/LOCKU, READ/WRITE/SETATTR with open, lock, special and foreign state IDs, FREE_STATEID, TEST_STATEID, PUTFH/LOOKUP/REMOVE...), ~30% of requests retransmitted (same / different shape), misordered, sent while the original is parked in the file system (in-flight duplicate), or with the reply dropped; compounds parked in VirtualOpenChild/OpenSelf/Read/Write/SetAttributes and resumed later; clock advances below and beyond the lease time, clients re-registering with a new verifier or vanishing; every history ends by resuming everything, letting all leases lapse and one more request. non-trivial = at least one OK reply, >=4 distinct compound statuses, at least one OPEN and one LOCK operation; distinct by hash of the case term"
}

func main() { hcommon.Main(area{}) }

var _ = rng.New
