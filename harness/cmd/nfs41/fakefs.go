package main

// A minimal instrumented file system for the NFSv4.1 harness: one root
// directory holding regular files.  Every leaf counts VirtualOpenChild /
// VirtualOpenSelf / VirtualClose calls per share-access bit.  Calls that
// receive a context are "oracle" calls: their result is logged for the
// model and the calling goroutine may be parked afterwards, according to
// the plan of the compound it belongs to.

import (
	"context"
	"encoding/binary"
	"fmt"
	"io"
	"sync"

	"github.com/buildbarn/bb-remote-execution/pkg/filesystem/virtual"
	"github.com/buildbarn/bb-storage/pkg/filesystem"
	"github.com/buildbarn/bb-storage/pkg/filesystem/path"
)

type tokenKey struct{}

// token identifies the compound a file system call belongs to.
type token struct {
	tid     uint64
	plan    []bool // park after the n-th oracle call of this compound?
	calls   int
	release chan struct{}
	// What the goroutine holds while parked (for the flight report).
	flight string
	// For the n-th VirtualOpenSelf call of the compound: is it made by
	// READ/WRITE with a special state ID (true) or by OPEN (false)?  Both
	// lists are aligned with the calls because an operation that fails
	// ends the compound.
	selfAnon []bool
	selfIdx  int
	// For the n-th VirtualRead/Write/SetAttributes call: special state ID?
	ioSpecial []bool
	ioIdx     int
}

func tokenOf(ctx context.Context) *token {
	tk, _ := ctx.Value(tokenKey{}).(*token)
	return tk
}

func (tk *token) nextIOSpecial() bool {
	if tk == nil {
		return false
	}
	i := tk.ioIdx
	tk.ioIdx++
	return i < len(tk.ioSpecial) && tk.ioSpecial[i]
}

type fsEvent struct {
	parked bool
	tid    uint64
}

type fakeFS struct {
	mu      sync.Mutex
	nextID  uint64
	names   map[string]*fakeLeaf
	leaves  map[uint64]*fakeLeaf
	lastFor map[string]uint64
	root    *fakeDir
	oracles []string // Gallina fsres terms of the current step
	events  chan fsEvent
	// Share masks held by goroutines (by tid) through regular-state-ID I/O are
	// not visible here; only opens made through this file system are.
	failNext map[string]virtual.Status // scripted failures by call kind
}

func newFakeFS(events chan fsEvent) *fakeFS {
	fs := &fakeFS{
		nextID:  1,
		names:   map[string]*fakeLeaf{},
		leaves:  map[uint64]*fakeLeaf{},
		lastFor: map[string]uint64{},
		events:  events,
	}
	fs.root = &fakeDir{fs: fs}
	return fs
}

func handleBytes(id uint64) []byte {
	var b [8]byte
	binary.BigEndian.PutUint64(b[:], id)
	return b[:]
}

func handleID(b []byte) (uint64, bool) {
	if len(b) != 8 {
		return 0, false
	}
	return binary.BigEndian.Uint64(b), true
}

func (fs *fakeFS) resolve(r io.ByteReader) (virtual.DirectoryChild, virtual.Status) {
	var b []byte
	for {
		c, err := r.ReadByte()
		if err != nil {
			break
		}
		b = append(b, c)
	}
	id, ok := handleID(b)
	fs.mu.Lock()
	defer fs.mu.Unlock()
	if !ok {
		fs.oracles = append(fs.oracles, "(FsErr 10001%N)")
		return virtual.DirectoryChild{}, virtual.StatusErrBadHandle
	}
	if id == 0 {
		fs.oracles = append(fs.oracles, "(FsDir 0%N)")
		return virtual.DirectoryChild{}.FromDirectory(fs.root), virtual.StatusOK
	}
	if l, ok := fs.leaves[id]; ok && l.linked {
		fs.oracles = append(fs.oracles, fmt.Sprintf("(FsLeaf %d%%N)", id))
		return virtual.DirectoryChild{}.FromLeaf(l), virtual.StatusOK
	}
	fs.oracles = append(fs.oracles, "(FsErr 70%N)")
	return virtual.DirectoryChild{}, virtual.StatusErrStale
}

// afterCall logs the oracle and parks the goroutine if the plan says so.
func (fs *fakeFS) afterCall(ctx context.Context, oracle, flight string) {
	fs.mu.Lock()
	fs.oracles = append(fs.oracles, oracle)
	fs.mu.Unlock()
	tk := tokenOf(ctx)
	if tk == nil {
		return
	}
	i := tk.calls
	tk.calls++
	if i < len(tk.plan) && tk.plan[i] {
		tk.flight = flight
		fs.events <- fsEvent{parked: true, tid: tk.tid}
		<-tk.release
		tk.flight = ""
	}
}

func nfsStatusOf(s virtual.Status) uint32 {
	switch s {
	case virtual.StatusOK:
		return 0
	case virtual.StatusErrExist:
		return 17
	case virtual.StatusErrNoEnt:
		return 2
	case virtual.StatusErrStale:
		return 70
	case virtual.StatusErrIO:
		return 5
	case virtual.StatusErrInval:
		return 22
	case virtual.StatusErrBadHandle:
		return 10001
	case virtual.StatusErrNotDir:
		return 20
	case virtual.StatusErrIsDir:
		return 21
	case virtual.StatusErrAccess:
		return 13
	}
	panic("unmapped status")
}

func maskTerm(m virtual.ShareMask) string {
	return fmt.Sprintf("(mkMask %v %v)", m&virtual.ShareMaskRead != 0, m&virtual.ShareMaskWrite != 0)
}

// ---- leaf ----------------------------------------------------------------

type fakeLeaf struct {
	fs     *fakeFS
	id     uint64
	name   string
	linked bool
	openR, openW, closeR, closeW int
}

func (l *fakeLeaf) count(m virtual.ShareMask, open bool) {
	l.fs.mu.Lock()
	defer l.fs.mu.Unlock()
	if m&virtual.ShareMaskRead != 0 {
		if open {
			l.openR++
		} else {
			l.closeR++
		}
	}
	if m&virtual.ShareMaskWrite != 0 {
		if open {
			l.openW++
		} else {
			l.closeW++
		}
	}
}

func (l *fakeLeaf) VirtualGetAttributes(ctx context.Context, requested virtual.AttributesMask, attributes *virtual.Attributes) {
	attributes.SetFileType(filesystem.FileTypeRegularFile)
	attributes.SetFileHandle(handleBytes(l.id))
	attributes.SetInodeNumber(l.id)
	attributes.SetPermissions(virtual.PermissionsRead | virtual.PermissionsWrite)
	attributes.SetSizeBytes(0)
	attributes.SetChangeID(0)
	attributes.SetLinkCount(1)
}

func (l *fakeLeaf) VirtualSetAttributes(ctx context.Context, in *virtual.Attributes, requested virtual.AttributesMask, attributes *virtual.Attributes) virtual.Status {
	st := l.fs.scripted("setattr")
	flight := ""
	if !tokenOf(ctx).nextIOSpecial() {
		flight = fmt.Sprintf("(FlReg %d%%N %s)", l.id, maskTerm(virtual.ShareMaskWrite))
	}
	l.fs.afterCall(ctx, statusOracle(st), flight)
	return st
}

func (l *fakeLeaf) VirtualApply(data any) bool { return false }

func (l *fakeLeaf) VirtualOpenNamedAttributes(ctx context.Context, createDirectory bool, requested virtual.AttributesMask, attributes *virtual.Attributes) (virtual.Directory, virtual.Status) {
	return nil, virtual.StatusErrNoEnt
}

func (l *fakeLeaf) VirtualAllocate(ctx context.Context, off, size uint64) virtual.Status {
	return virtual.StatusOK
}

func (l *fakeLeaf) VirtualSeek(ctx context.Context, offset uint64, regionType filesystem.RegionType) (*uint64, virtual.Status) {
	return nil, virtual.StatusErrNXIO
}

func (l *fakeLeaf) VirtualOpenSelf(ctx context.Context, shareAccess virtual.ShareMask, options *virtual.OpenExistingOptions, requested virtual.AttributesMask, attributes *virtual.Attributes) virtual.Status {
	st := l.fs.scripted("openself")
	flight := ""
	if tk := tokenOf(ctx); tk != nil {
		tk.selfIdx++
	}
	if st == virtual.StatusOK {
		l.count(shareAccess, true)
		flight = fmt.Sprintf("(FlOpen %d%%N %s)", l.id, maskTerm(shareAccess))
	}
	l.fs.afterCall(ctx, statusOracle(st), flight)
	return st
}

func (l *fakeLeaf) ioFlight(ctx context.Context, m virtual.ShareMask) string {
	if tokenOf(ctx).nextIOSpecial() {
		return fmt.Sprintf("(FlOpen %d%%N %s)", l.id, maskTerm(m))
	}
	return fmt.Sprintf("(FlReg %d%%N %s)", l.id, maskTerm(m))
}

func (l *fakeLeaf) VirtualRead(ctx context.Context, buf []byte, offset uint64) (int, bool, virtual.Status) {
	st := l.fs.scripted("read")
	l.fs.afterCall(ctx, statusOracle(st), l.ioFlight(ctx, virtual.ShareMaskRead))
	return 0, true, st
}

func (l *fakeLeaf) VirtualWrite(ctx context.Context, buf []byte, offset uint64) (int, virtual.Status) {
	st := l.fs.scripted("write")
	l.fs.afterCall(ctx, statusOracle(st), l.ioFlight(ctx, virtual.ShareMaskWrite))
	return len(buf), st
}

func (l *fakeLeaf) VirtualClose(shareAccess virtual.ShareMask) {
	l.count(shareAccess, false)
}

// ---- root directory ------------------------------------------------------

type fakeDir struct {
	fs *fakeFS
}

func statusOracle(st virtual.Status) string {
	if st == virtual.StatusOK {
		return "FsOk"
	}
	return fmt.Sprintf("(FsErr %d%%N)", nfsStatusOf(st))
}

func (fs *fakeFS) scripted(kind string) virtual.Status {
	fs.mu.Lock()
	defer fs.mu.Unlock()
	if st, ok := fs.failNext[kind]; ok {
		delete(fs.failNext, kind)
		return st
	}
	return virtual.StatusOK
}

func (d *fakeDir) VirtualGetAttributes(ctx context.Context, requested virtual.AttributesMask, attributes *virtual.Attributes) {
	attributes.SetFileType(filesystem.FileTypeDirectory)
	attributes.SetFileHandle(handleBytes(0))
	attributes.SetInodeNumber(0)
	attributes.SetPermissions(virtual.PermissionsRead | virtual.PermissionsWrite | virtual.PermissionsExecute)
	attributes.SetSizeBytes(0)
	attributes.SetChangeID(0)
	attributes.SetLinkCount(2)
}

func (d *fakeDir) VirtualSetAttributes(ctx context.Context, in *virtual.Attributes, requested virtual.AttributesMask, attributes *virtual.Attributes) virtual.Status {
	st := d.fs.scripted("setattr")
	tokenOf(ctx).nextIOSpecial()
	d.fs.afterCall(ctx, statusOracle(st), "")
	return st
}

func (d *fakeDir) VirtualApply(data any) bool { return false }

func (d *fakeDir) VirtualOpenNamedAttributes(ctx context.Context, createDirectory bool, requested virtual.AttributesMask, attributes *virtual.Attributes) (virtual.Directory, virtual.Status) {
	return nil, virtual.StatusErrNoEnt
}

func (d *fakeDir) VirtualOpenChild(ctx context.Context, name path.Component, shareAccess virtual.ShareMask, createAttributes *virtual.Attributes, existingOptions *virtual.OpenExistingOptions, requested virtual.AttributesMask, openedFileAttributes *virtual.Attributes) (virtual.Leaf, virtual.AttributesMask, virtual.ChangeInfo, virtual.Status) {
	fs := d.fs
	st := fs.scripted("openchild")
	var leaf *fakeLeaf
	if st == virtual.StatusOK {
		fs.mu.Lock()
		n := name.String()
		if l, ok := fs.names[n]; ok {
			if existingOptions == nil {
				st = virtual.StatusErrExist
			} else {
				leaf = l
			}
		} else if createAttributes == nil {
			st = virtual.StatusErrNoEnt
		} else {
			leaf = &fakeLeaf{fs: fs, id: fs.nextID, name: n, linked: true}
			fs.nextID++
			fs.names[n] = leaf
			fs.leaves[leaf.id] = leaf
			fs.lastFor[n] = leaf.id
		}
		fs.mu.Unlock()
	}
	if st != virtual.StatusOK {
		fs.afterCall(ctx, statusOracle(st), "")
		return nil, 0, virtual.ChangeInfo{}, st
	}
	leaf.count(shareAccess, true)
	openedFileAttributes.SetFileHandle(handleBytes(leaf.id))
	fs.afterCall(ctx, fmt.Sprintf("(FsLeaf %d%%N)", leaf.id), fmt.Sprintf("(FlOpen %d%%N %s)", leaf.id, maskTerm(shareAccess)))
	return leaf, 0, virtual.ChangeInfo{}, virtual.StatusOK
}

func (d *fakeDir) VirtualLink(ctx context.Context, name path.Component, leaf virtual.Leaf, requested virtual.AttributesMask, attributes *virtual.Attributes) (virtual.ChangeInfo, virtual.Status) {
	return virtual.ChangeInfo{}, virtual.StatusErrPerm
}

func (d *fakeDir) VirtualLookup(ctx context.Context, name path.Component, requested virtual.AttributesMask, out *virtual.Attributes) (virtual.DirectoryChild, virtual.Status) {
	fs := d.fs
	st := fs.scripted("lookup")
	var leaf *fakeLeaf
	if st == virtual.StatusOK {
		fs.mu.Lock()
		l, ok := fs.names[name.String()]
		fs.mu.Unlock()
		if ok {
			leaf = l
		} else {
			st = virtual.StatusErrNoEnt
		}
	}
	if st != virtual.StatusOK {
		fs.afterCall(ctx, statusOracle(st), "")
		return virtual.DirectoryChild{}, st
	}
	out.SetFileHandle(handleBytes(leaf.id))
	fs.afterCall(ctx, fmt.Sprintf("(FsLeaf %d%%N)", leaf.id), "")
	return virtual.DirectoryChild{}.FromLeaf(leaf), virtual.StatusOK
}

func (d *fakeDir) VirtualMkdir(ctx context.Context, name path.Component, createAttributes *virtual.Attributes, requested virtual.AttributesMask, createdDirectoryAttributes *virtual.Attributes) (virtual.Directory, virtual.ChangeInfo, virtual.Status) {
	return nil, virtual.ChangeInfo{}, virtual.StatusErrPerm
}

func (d *fakeDir) VirtualMknod(ctx context.Context, name path.Component, createAttributes *virtual.Attributes, requested virtual.AttributesMask, createdFileAttributes *virtual.Attributes) (virtual.Leaf, virtual.ChangeInfo, virtual.Status) {
	return nil, virtual.ChangeInfo{}, virtual.StatusErrPerm
}

func (d *fakeDir) VirtualReadDir(ctx context.Context, firstCookie uint64, requested virtual.AttributesMask, reporter virtual.DirectoryEntryReporter) virtual.Status {
	return virtual.StatusOK
}

func (d *fakeDir) VirtualRename(ctx context.Context, oldName path.Component, newDirectory virtual.Directory, newName path.Component) (virtual.ChangeInfo, virtual.ChangeInfo, virtual.Status) {
	return virtual.ChangeInfo{}, virtual.ChangeInfo{}, virtual.StatusErrPerm
}

func (d *fakeDir) VirtualRemove(ctx context.Context, name path.Component, removeDirectory, removeLeaf bool) (virtual.ChangeInfo, virtual.Status) {
	fs := d.fs
	st := fs.scripted("remove")
	if st == virtual.StatusOK {
		fs.mu.Lock()
		if l, ok := fs.names[name.String()]; ok {
			l.linked = false
			delete(fs.names, name.String())
		} else {
			st = virtual.StatusErrNoEnt
		}
		fs.mu.Unlock()
	}
	fs.afterCall(ctx, statusOracle(st), "")
	return virtual.ChangeInfo{}, st
}
