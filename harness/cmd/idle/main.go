// Harness for C12 (area Idle): real cleaner.IdleInvoker (direct, behind
// runner.NewCleanRunner and behind builder.NewCleanBuildDirectoryCreator)
// under controlled interleavings, and the real directory creator stack
// Shared(Clean(Root(dir))) over an in-memory BuildDirectory with failure
// injection.
package main

import (
	"encoding/json"
	"fmt"
	"io"
	"log"

	"verif/harness/internal/hcommon"
	"verif/harness/internal/rng"
)

type area struct{}

func (area) Requires() string {
	return "From VF Require Import Common.Verdict Idle.Model Idle.Spec Idle.Corr."
}
func (area) Check() string { return "check_case" }
func (area) Rule() string {
	return "mode idle (3 of 4 histories on average): 1-4 threads of kinds {raw IdleInvoker, cleanRunner.Run, cleanRunner.CheckReadiness, cleanBuildDirectoryCreator over root} sharing one IdleInvoker, 15-60 requested steps (acq/rel/wake/cancel/done) chosen by a guidance simulation plus 5% noise, cleaner failure 15%, base runner failure 15%, unbalanced raw releases in 10% of histories; requested steps that are not enabled in the harness' observed thread state are skipped, the executed schedule is what the case records; non-trivial = some Acquire slept behind a running cleaner, some sleeper was woken and some cleaner run failed. " +
		"mode dirs (1 of 4): 10-40 operations get/close/write on Shared(Clean(Root)) with <=4 slots, digests from 3 hashes or none (counter names), failure flags 12% per injected call; non-trivial = at least one failed get after mkdir succeeded or failed close, and two directories open at once. distinct by hash of the case term"
}

type modeProbe struct {
	Mode string `json:"mode"`
}

func (area) Generate(r *rng.R, thorough bool, index int) json.RawMessage {
	// mode by the case's own generator, so that the modes spread over shards
	if r.Intn(4) == 3 {
		return generateDirs(r, thorough)
	}
	return generateIdle(r, thorough, index)
}

func (area) Execute(raw json.RawMessage) (string, *hcommon.Info, error) {
	var p modeProbe
	if err := json.Unmarshal(raw, &p); err != nil {
		return "", nil, err
	}
	switch p.Mode {
	case "idle", "":
		var h ihistory
		if err := json.Unmarshal(raw, &h); err != nil {
			return "", nil, err
		}
		return executeIdle(h)
	case "dirs":
		var h dhistory
		if err := json.Unmarshal(raw, &h); err != nil {
			return "", nil, err
		}
		return executeDirs(h)
	}
	return "", nil, fmt.Errorf("unknown mode %q", p.Mode)
}

// ---- generator for the concurrent part -------------------------------------

type simThread struct {
	kind    int
	phase   string
	call    string
	holds   int
	waitRun int
	runID   int
}

func generateIdle(r *rng.R, thorough bool, index int) json.RawMessage {
	n := 1 + r.Intn(4)
	if index%5 != 0 && n < 2 {
		n = 2
	}
	steps := 15 + r.Intn(46)
	if thorough {
		steps = 40 + r.Intn(160)
	}
	unbalanced := r.Chance(10)
	h := ihistory{Mode: "idle"}
	var ts []*simThread
	for i := 0; i < n; i++ {
		k := kindRaw
		if r.Chance(50) {
			k = r.Intn(numKinds)
		}
		h.Kinds = append(h.Kinds, k)
		ts = append(ts, &simThread{kind: k, phase: "idle", waitRun: -1})
	}
	users, cleaning := 0, false
	var runs []bool
	closed := func(t *simThread) bool { return t.waitRun >= 0 && runs[t.waitRun] }
	enter := func(t *simThread) {
		switch {
		case cleaning:
			t.phase, t.waitRun = "waiting", len(runs)-1
		case users == 0:
			t.phase, t.call, t.runID = "cleaning", "acq", len(runs)
			runs = append(runs, false)
			cleaning = true
		default:
			users++
			t.holds++
			t.phase = "idle"
			if t.kind != kindRaw {
				t.phase = "holding"
			}
		}
	}
	for i := 0; i < steps; i++ {
		if r.Chance(5) {
			ks := []string{"acq", "rel", "wake", "cancel", "done"}
			h.Ops = append(h.Ops, iop{K: ks[r.Intn(len(ks))], T: r.Intn(n), Ok: r.Chance(50)})
			// noise is normally skipped by the harness; if it is not, the
			// simulation merely guides less well afterwards
			continue
		}
		type cand struct {
			op iop
			w  int
		}
		var cs []cand
		for ti, t := range ts {
			switch t.phase {
			case "idle":
				cs = append(cs, cand{iop{K: "acq", T: ti}, 3})
				if t.kind == kindRaw {
					if t.holds > 0 {
						cs = append(cs, cand{iop{K: "rel", T: ti, Ok: true}, 3})
					} else if unbalanced {
						cs = append(cs, cand{iop{K: "rel", T: ti, Ok: true}, 1})
					}
				}
			case "holding":
				cs = append(cs, cand{iop{K: "rel", T: ti, Ok: !r.Chance(15)}, 3})
			case "waiting":
				if closed(t) {
					cs = append(cs, cand{iop{K: "wake", T: ti}, 4})
				} else {
					cs = append(cs, cand{iop{K: "cancel", T: ti}, 1})
				}
			case "cleaning":
				cs = append(cs, cand{iop{K: "done", T: ti, Ok: !r.Chance(15)}, 3})
			}
		}
		total := 0
		for _, c := range cs {
			total += c.w
		}
		if total == 0 {
			break
		}
		x := r.Intn(total)
		var op iop
		for _, c := range cs {
			if x < c.w {
				op = c.op
				break
			}
			x -= c.w
		}
		h.Ops = append(h.Ops, op)
		t := ts[op.T]
		switch op.K {
		case "acq", "wake":
			enter(t)
		case "cancel":
			t.phase = "idle"
		case "done":
			runs[t.runID] = true
			cleaning = false
			if t.call == "acq" && op.Ok {
				users++
				t.holds++
				t.phase = "idle"
				if t.kind != kindRaw {
					t.phase = "holding"
				}
			} else {
				t.phase = "idle"
			}
		case "rel":
			if users == 0 {
				break
			}
			users--
			if t.holds > 0 {
				t.holds--
			}
			t.phase = "idle"
			if users == 0 {
				t.phase, t.call, t.runID = "cleaning", "rel", len(runs)
				runs = append(runs, false)
				cleaning = true
			}
		}
	}
	data, _ := json.Marshal(h)
	return data
}

func main() {
	// the creators log failed best-effort removals; not an observable here
	log.SetOutput(io.Discard)
	hcommon.Main(area{})
}
