package main

import (
	"encoding/json"
	"fmt"

	"verif/harness/internal/hcommon"
	"verif/harness/internal/rng"
)

type dhistory struct {
	Mode string `json:"mode"`
}

func generateDirs(r *rng.R, thorough bool) json.RawMessage { return generateIdle(r, thorough, 1) }

func executeDirs(h dhistory) (string, *hcommon.Info, error) { return "", nil, fmt.Errorf("not yet") }
