// Sequential part of the C12 harness: the real creator stack
// NewSharedBuildDirectoryCreator(NewCleanBuildDirectoryCreator(
// NewRootBuildDirectoryCreator(root), idleInvoker), counter) as wired in
// cmd/bb_worker/main.go, over an in-memory BuildDirectory whose calls fail
// according to the flags of the current operation, with a directory
// cleaner (empties the root) that counts its invocations.
package main

import (
	"context"
	"encoding/json"
	"fmt"
	"os"
	"sort"
	"sync/atomic"
	"syscall"

	remoteexecution "github.com/bazelbuild/remote-apis/build/bazel/remote/execution/v2"
	"github.com/buildbarn/bb-remote-execution/pkg/builder"
	"github.com/buildbarn/bb-remote-execution/pkg/cleaner"
	"github.com/buildbarn/bb-storage/pkg/digest"
	"github.com/buildbarn/bb-storage/pkg/filesystem/path"

	"google.golang.org/grpc/codes"
	"google.golang.org/grpc/status"

	g "verif/harness/internal/gallina"
	"verif/harness/internal/hcommon"
	"verif/harness/internal/rng"
)

type dop struct {
	K    string `json:"k"` // get, close, write
	Slot int    `json:"s"`
	Dig  int    `json:"d,omitempty"`  // get: 0 = none (counter name), i>0 = hashes[i-1]
	File string `json:"f,omitempty"`  // write
	Fl   []bool `json:"fl,omitempty"` // get: clean,mkdir,enter,remove,clean2; close: child,removeall,clean; exec/ready: the five then the three
	Fp   int    `json:"fp,omitempty"` // exec/ready: failure point inside the executor
}

type dhistory struct {
	Mode string `json:"mode"`
	Ops  []dop  `json:"ops"`
}

// Two hashes share their first 16 characters (the creator uses only those),
// one consists of decimal digits only (the name space counter names live in).
var hashes = []string{
	"aaaaaaaaaaaaaaaa000000000000000000000000000000000000000000000000",
	"aaaaaaaaaaaaaaaa111111111111111111111111111111111111111111111111",
	"0123456789012345222222222222222222222222222222222222222222222222",
	"bbbbbbbbbbbbbbbbbbbbbbbbbbbbbbbbbbbbbbbbbbbbbbbbbbbbbbbbbbbbbbbb",
}

type node struct {
	name     string
	children []*node
}

func (n *node) find(name string) (int, *node) {
	for i, c := range n.children {
		if c.name == name {
			return i, c
		}
	}
	return -1, nil
}

type dharness struct {
	root   *node
	fl     []bool // flags of the current creator call
	isGet  bool
	cleans int // cleaner invocations since the last recorded event

	// executor operations
	fp        int  // failure point inside Execute/CheckReadiness
	recording bool // between GetBuildDirectory and Close of an executor run
	recSlot   int

	info     *hcommon.Info
	ops, obs []string
}

func (h *dharness) emit(kind, op, out string) {
	h.info.Events++
	h.info.Ops[kind]++
	if len(out) > 5 && out[1:5] == "DGot" {
		h.info.Outs["DGot"]++
	} else {
		h.info.Outs[out]++
	}
	if h.cleans > h.info.Extra["max_cleans_per_op"] {
		h.info.Extra["max_cleans_per_op"] = h.cleans
	}
	h.ops = append(h.ops, op)
	h.obs = append(h.obs, g.App("mkObs", out, g.Nat(h.cleans), h.listing()))
	h.cleans = 0
}

func (h *dharness) flag(i int) bool { return i < len(h.fl) && h.fl[i] }

var errInjected = status.Error(codes.Unavailable, "injected directory failure")

// memDirectory implements builder.BuildDirectory; only the methods the
// creators use do anything.
type memDirectory struct {
	builder.BuildDirectory
	h      *dharness
	n      *node
	atRoot bool
	depth  int // 0 = root build directory, 1 = an action's directory
}

// failsInExecutor: failure points of the executor on the action's directory.
func (d *memDirectory) failsInExecutor(call, name string) bool {
	if d.depth != 1 || !d.h.recording {
		return false
	}
	switch d.h.fp {
	case fpMkdirRoot:
		return call == "mkdir" && (name == "root" || name == "check_readiness")
	case fpEnterRoot:
		return call == "enter" && name == "root"
	case fpMkdirTmp:
		return call == "mkdir" && name == "tmp"
	case fpMkdirLogs:
		return call == "mkdir" && name == "server_logs"
	}
	return false
}

func (d *memDirectory) Mkdir(name path.Component, perm os.FileMode) error {
	if d.atRoot && d.h.flag(1) {
		return errInjected
	}
	if d.failsInExecutor("mkdir", name.String()) {
		return errInjected
	}
	_, c := d.n.find(name.String())
	if c == nil {
		d.n.children = append(d.n.children, &node{name: name.String()})
	}
	if d.depth == 1 && d.h.recording {
		// the executor populates the action's directory: a DWrite of the model
		d.h.emit("write", g.App("DWrite", g.Nat(d.h.recSlot), g.Str(name.String())), g.App("DWrote", g.Bool(c == nil)))
	}
	if c != nil {
		// what a real directory answers (bb-storage's localDirectory returns
		// the errno of mkdirat; the virtual directory returns an error for
		// which os.IsExist holds as well): callers test it with os.IsExist
		return &os.PathError{Op: "mkdir", Path: name.String(), Err: syscall.EEXIST}
	}
	return nil
}

func (d *memDirectory) EnterBuildDirectory(name path.Component) (builder.BuildDirectory, error) {
	if d.atRoot && d.h.flag(2) {
		return nil, errInjected
	}
	if d.failsInExecutor("enter", name.String()) {
		return nil, errInjected
	}
	_, c := d.n.find(name.String())
	if c == nil {
		return nil, status.Error(codes.NotFound, "no such directory")
	}
	return &memDirectory{h: d.h, n: c, depth: d.depth + 1}, nil
}

func (d *memDirectory) Remove(name path.Component) error {
	if d.atRoot && d.h.flag(3) {
		return errInjected
	}
	i, c := d.n.find(name.String())
	if c == nil {
		return status.Error(codes.NotFound, "no such directory")
	}
	if len(c.children) > 0 {
		return status.Error(codes.FailedPrecondition, "not empty")
	}
	d.n.children = append(d.n.children[:i:i], d.n.children[i+1:]...)
	return nil
}

func (d *memDirectory) RemoveAll(name path.Component) error {
	if d.atRoot && d.h.flag(1) {
		return errInjected
	}
	i, c := d.n.find(name.String())
	if c == nil {
		return status.Error(codes.NotFound, "no such directory")
	}
	d.n.children = append(d.n.children[:i:i], d.n.children[i+1:]...)
	return nil
}

func (d *memDirectory) Close() error {
	if d.depth == 1 && d.h.flag(0) {
		return status.Error(codes.Aborted, "injected close failure")
	}
	return nil
}

func (h *dharness) cleaner(ctx context.Context) error {
	h.cleans++
	var fail bool
	if h.isGet {
		if h.cleans == 1 {
			fail = h.flag(0)
		} else {
			fail = h.flag(4)
		}
	} else {
		fail = h.flag(2)
	}
	if fail {
		return status.Error(codes.DataLoss, "injected cleaner failure")
	}
	h.root.children = nil
	return nil
}

func (h *dharness) listing() string {
	var items []string
	for _, c := range h.root.children {
		var fs []string
		for _, f := range c.children {
			fs = append(fs, g.Str(f.name))
		}
		items = append(items, "("+g.Str(c.name)+", "+g.List(fs)+")")
	}
	return g.List(items)
}

func executeDirs(hist dhistory) (string, *hcommon.Info, error) {
	info := hcommon.NewInfo()
	h := &dharness{root: &node{}, info: info}
	inv := cleaner.NewIdleInvoker(h.cleaner)
	var counter atomic.Uint64
	creator := builder.NewSharedBuildDirectoryCreator(
		builder.NewCleanBuildDirectoryCreator(
			builder.NewRootBuildDirectoryCreator(&memDirectory{h: h, n: h.root, atRoot: true}),
			inv),
		&counter)
	slots := map[int]builder.BuildDirectory{}
	names := map[int]string{} // directory name of each open slot
	// coverage: a request whose directory name is held by a live action
	noteCollision := func(dig int) {
		if dig <= 0 {
			return
		}
		want := hashes[(dig-1)%len(hashes)][:16]
		for _, n := range names {
			if n == want {
				info.Outs["request-for-name-in-use"]++
				return
			}
		}
	}
	sawFailAfterMkdir, sawTwoOpen, sawExec := false, false, false
	ctx := context.Background()
	for _, o := range hist.Ops {
		slot := ((o.Slot % 4) + 4) % 4
		h.cleans = 0
		h.fl = o.Fl
		switch o.K {
		case "get":
			h.isGet = true
			digTerm := "None"
			var dp *digest.Digest
			if o.Dig > 0 {
				hi := (o.Dig - 1) % len(hashes)
				d := digest.MustNewDigest("verif", remoteexecution.DigestFunction_SHA256, hashes[hi], 42)
				dp = &d
				digTerm = g.Some(fmt.Sprintf("hash%d", hi)) // constants of Corr.v, same strings as hashes[]
			}
			opTerm := g.App("DGet", g.Nat(slot), digTerm,
				g.App("mkGF", g.Bool(h.flag(0)), g.Bool(h.flag(1)), g.Bool(h.flag(2)), g.Bool(h.flag(3)), g.Bool(h.flag(4))))
			if _, busy := slots[slot]; busy {
				h.emit("get", opTerm, "DSkip")
				break
			}
			noteCollision(o.Dig)
			d, p, err := creator.GetBuildDirectory(ctx, dp)
			if err != nil {
				h.emit("get", opTerm, g.App("DErr", g.N(uint64(status.Code(err)))))
				if h.flag(2) && !h.flag(1) {
					sawFailAfterMkdir = true
				}
			} else {
				slots[slot] = d
				names[slot] = p.GetUNIXString()
				h.emit("get", opTerm, g.App("DGot", g.Str(p.GetUNIXString())))
				if len(slots) >= 2 {
					sawTwoOpen = true
				}
			}
		case "close":
			h.isGet = false
			opTerm := g.App("DClose", g.Nat(slot),
				g.App("mkCF", g.Bool(h.flag(0)), g.Bool(h.flag(1)), g.Bool(h.flag(2))))
			d, open := slots[slot]
			if !open {
				h.emit("close", opTerm, "DSkip")
				break
			}
			delete(slots, slot)
			delete(names, slot)
			err := d.Close()
			h.emit("close", opTerm, g.App("DClosed", g.N(uint64(status.Code(err)))))
			if err != nil {
				sawFailAfterMkdir = true
			}
		case "write":
			opTerm := g.App("DWrite", g.Nat(slot), g.Str(o.File))
			h.fl = nil
			d, open := slots[slot]
			if !open {
				h.emit("write", opTerm, "DSkip")
				break
			}
			err := d.Mkdir(path.MustNewComponent(o.File), 0o777)
			h.emit("write", opTerm, g.App("DWrote", g.Bool(err == nil)))
		case "exec", "ready":
			if _, busy := slots[slot]; busy {
				break
			}
			if o.K == "exec" {
				noteCollision(o.Dig)
			}
			h.runExecutor(creator, o, slot, o.K == "ready")
			sawExec = true
		}
		h.fl = nil
	}
	info.Nontrivial = sawFailAfterMkdir && (sawTwoOpen || sawExec)
	return g.App("CDirs", g.App("mkDCase", g.List(h.ops), g.List(h.obs))), info, nil
}

func generateDirs(r *rng.R, thorough bool) json.RawMessage {
	n := 10 + r.Intn(31)
	if thorough {
		n = 20 + r.Intn(60)
	}
	h := dhistory{Mode: "dirs"}
	files := []string{"x", "y", "input_root"}
	flags := func(k int) []bool {
		fl := make([]bool, k)
		for i := range fl {
			fl[i] = r.Chance(12)
		}
		return fl
	}
	// guidance only: which slots are probably open (a get may fail), and
	// with which digest, so that overlapping actions with equal digests
	// (same action under two instance names, worker concurrency > 1) occur
	open := map[int]bool{}
	openDig := map[int]int{}
	collide := func() int {
		var c []int
		for sl, d := range openDig {
			if open[sl] && d > 0 {
				c = append(c, d)
			}
		}
		if len(c) == 0 {
			return 0
		}
		sort.Ints(c)
		return c[r.Intn(len(c))]
	}
	pick := func(want bool) int {
		var c []int
		for sl := 0; sl < 4; sl++ {
			if open[sl] == want {
				c = append(c, sl)
			}
		}
		if len(c) == 0 || r.Chance(8) {
			return r.Intn(4)
		}
		return c[r.Intn(len(c))]
	}
	for i := 0; i < n; i++ {
		var o dop
		switch x := r.Intn(100); {
		case x < 40:
			o.K = "get"
			o.Slot = pick(false)
			if r.Chance(55) {
				o.Dig = 1 + r.Intn(len(hashes))
			}
			if d := collide(); d > 0 && r.Chance(30) {
				o.Dig = d
			}
			o.Fl = flags(5)
			if !o.Fl[0] && !o.Fl[1] && !o.Fl[2] {
				open[o.Slot] = true
				openDig[o.Slot] = o.Dig
			}
		case x < 72:
			o.K = "close"
			o.Slot = pick(true)
			o.Fl = flags(3)
			open[o.Slot] = false
		case x < 90:
			o.K = "write"
			o.Slot = pick(true)
			o.File = files[r.Intn(len(files))]
		default:
			o.K = "exec"
			if r.Chance(25) {
				o.K = "ready"
			}
			o.Slot = pick(false)
			if r.Chance(55) {
				o.Dig = 1 + r.Intn(len(hashes))
			}
			if d := collide(); d > 0 && r.Chance(30) {
				o.Dig = d
			}
			o.Fl = flags(8)
			if r.Chance(60) {
				o.Fp = r.Intn(numFailPoints)
			}
		}
		h.Ops = append(h.Ops, o)
	}
	data, _ := json.Marshal(h)
	return data
}
