// Concurrent part of the C12 harness: real cleaner.IdleInvoker driven through
// arbitrary interleavings of its critical sections.
//
// Every point at which a goroutine inside Acquire/Release gives up i.lock
// is a fake under harness control:
//   - the Cleaner (instrumented: overlap counter, parks until released with
//     a scripted result);
//   - the select in Acquire's wait loop: the call's context is a harness
//     context whose Done() method parks the caller.  Done() is evaluated by
//     the select statement after i.lock was released and the wakeup channel
//     was captured, so a goroutine parked there is exactly a sleeper of the
//     model (PWait g).  It is released either with an open channel after its
//     captured cleaner run has finished (Wake: only the wakeup case is ready)
//     or with a closed channel while that run is still in flight
//     (CancelWait: only the ctx case is ready), never both, so Go's random
//     select choice never arises;
//   - the base runner behind runner.NewCleanRunner parks inside
//     Run/CheckReadiness.
//
// Exactly one goroutine runs at a time: after releasing one, the controller
// waits for its next event (parked somewhere, returned, panicked).  No
// sleeps; a 10 s watchdog timer only turns a hang into an OStuck observation.
package main

import (
	"context"
	"fmt"
	"sync/atomic"
	"time"

	"github.com/buildbarn/bb-remote-execution/pkg/builder"
	"github.com/buildbarn/bb-remote-execution/pkg/cleaner"
	runner_pb "github.com/buildbarn/bb-remote-execution/pkg/proto/runner"
	"github.com/buildbarn/bb-remote-execution/pkg/runner"

	"google.golang.org/grpc/codes"
	"google.golang.org/grpc/status"
	"google.golang.org/protobuf/types/known/emptypb"

	g "verif/harness/internal/gallina"
	"verif/harness/internal/hcommon"
)

// Thread kinds: how a model thread performs acquire/release on the shared
// IdleInvoker.
const (
	kindRaw       = 0 // IdleInvoker.Acquire / Release directly
	kindRun       = 1 // cleanRunner.Run (holding = inside base.Run)
	kindReadiness = 2 // cleanRunner.CheckReadiness
	kindDirectory = 3 // cleanBuildDirectoryCreator.GetBuildDirectory / Close over the root creator
	numKinds      = 4
)

type evKind int

const (
	evDonePark evKind = iota
	evCleanerPark
	evBasePark
	evReturned
	evPanicked
	evStuck
)

type evt struct {
	tid     int
	kind    evKind
	err     error
	overlap int32
}

type resumeMsg struct {
	cancel bool // Done(): return a closed channel
	ok     bool // cleaner / base runner result
}

type thr struct {
	id, kind int
	cmd      chan func()
	resume   chan resumeMsg
	phase    string // idle, waiting, cleaning, holding
	call     string // acq or rel: the call in progress while waiting/cleaning
	waitRun  int
	runID    int
	dir      builder.BuildDirectory
}

type hctx struct {
	h         *iharness
	t         *thr
	cancelled atomic.Bool
}

func (c *hctx) Deadline() (time.Time, bool) { return time.Time{}, false }
func (c *hctx) Value(key any) any           { return nil }
func (c *hctx) Err() error {
	if c.cancelled.Load() {
		return context.Canceled
	}
	return nil
}

func (c *hctx) Done() <-chan struct{} {
	c.h.events <- evt{tid: c.t.id, kind: evDonePark}
	m := <-c.t.resume
	ch := make(chan struct{})
	if m.cancel {
		c.cancelled.Store(true)
		close(ch)
	}
	return ch
}

type iharness struct {
	events  chan evt
	running atomic.Int32
	runs    []bool // cleaner runs started; true = finished
	threads []*thr
	inv     *cleaner.IdleInvoker
	runner  runner_pb.RunnerServer
	creator builder.BuildDirectoryCreator
}

var (
	errCleaner = status.Error(codes.DataLoss, "injected cleaner failure")
	errBase    = status.Error(codes.Aborted, "injected base failure")
)

func (h *iharness) cleanerFunc(ctx context.Context) error {
	c := ctx.(*hctx)
	n := h.running.Add(1)
	h.events <- evt{tid: c.t.id, kind: evCleanerPark, overlap: n}
	m := <-c.t.resume
	h.running.Add(-1)
	if m.ok {
		return nil
	}
	return errCleaner
}

type parkingRunner struct{ h *iharness }

func (r parkingRunner) park(ctx context.Context) error {
	c := ctx.(*hctx)
	r.h.events <- evt{tid: c.t.id, kind: evBasePark}
	m := <-c.t.resume
	if m.ok {
		return nil
	}
	return errBase
}

func (r parkingRunner) Run(ctx context.Context, req *runner_pb.RunRequest) (*runner_pb.RunResponse, error) {
	if err := r.park(ctx); err != nil {
		return nil, err
	}
	return &runner_pb.RunResponse{}, nil
}

func (r parkingRunner) CheckReadiness(ctx context.Context, req *runner_pb.CheckReadinessRequest) (*emptypb.Empty, error) {
	if err := r.park(ctx); err != nil {
		return nil, err
	}
	return &emptypb.Empty{}, nil
}

// stubDirectory is the root handed to NewRootBuildDirectoryCreator in the
// concurrent part; no method of it is ever called (rootBuildDirectory
// overrides Close).
type stubDirectory struct{ builder.BuildDirectory }

func newIHarness(kinds []int) *iharness {
	h := &iharness{events: make(chan evt)}
	h.inv = cleaner.NewIdleInvoker(h.cleanerFunc)
	h.runner = runner.NewCleanRunner(parkingRunner{h}, h.inv)
	h.creator = builder.NewCleanBuildDirectoryCreator(builder.NewRootBuildDirectoryCreator(stubDirectory{}), h.inv)
	for i, k := range kinds {
		t := &thr{id: i, kind: k, cmd: make(chan func()), resume: make(chan resumeMsg), phase: "idle", waitRun: -1}
		h.threads = append(h.threads, t)
		go func() {
			for f := range t.cmd {
				f()
			}
		}()
	}
	return h
}

// launch runs f on the thread's goroutine; f's error result is reported as
// evReturned, a panic as evPanicked.
func (h *iharness) launch(t *thr, f func() error) {
	t.cmd <- func() {
		defer func() {
			if r := recover(); r != nil {
				h.events <- evt{tid: t.id, kind: evPanicked}
			}
		}()
		err := f()
		h.events <- evt{tid: t.id, kind: evReturned, err: err}
	}
}

func (h *iharness) await(t *thr) (evt, error) {
	select {
	case e := <-h.events:
		if e.tid != t.id {
			return e, fmt.Errorf("event from thread %d while thread %d was released", e.tid, t.id)
		}
		return e, nil
	case <-time.After(10 * time.Second):
		return evt{tid: t.id, kind: evStuck}, nil
	}
}

func (h *iharness) closedRun(t *thr) bool {
	return t.waitRun >= 0 && t.waitRun < len(h.runs) && h.runs[t.waitRun]
}

func relClass(err error) string {
	switch status.Code(err) {
	case codes.OK:
		return "ROk"
	case codes.Aborted:
		return "RBaseErr"
	default:
		return "RCleanErr"
	}
}

// settle interprets the event a released thread produced and updates the
// harness' view of that thread. Returns the Gallina output term.
func (h *iharness) settle(t *thr, e evt, info *hcommon.Info) string {
	switch e.kind {
	case evDonePark:
		t.phase = "waiting"
		t.waitRun = len(h.runs) - 1
		return "OBlocked"
	case evCleanerPark:
		t.phase = "cleaning"
		t.runID = len(h.runs)
		h.runs = append(h.runs, false)
		if int(e.overlap) > info.Extra["max_cleaner_overlap"] {
			info.Extra["max_cleaner_overlap"] = int(e.overlap)
		}
		return "OCleaning"
	case evBasePark:
		t.phase = "holding"
		return "OAcquired"
	case evPanicked:
		t.phase = "idle"
		return "OPanic"
	case evStuck:
		t.phase = "stuck"
		return "OStuck"
	}
	// evReturned
	call := t.call
	t.phase = "idle"
	if call == "acq" {
		switch {
		case e.err == nil && (t.kind == kindRaw || t.kind == kindDirectory):
			if t.kind == kindDirectory {
				t.phase = "holding"
			}
			return "OAcquired"
		case status.Code(e.err) == codes.Canceled:
			return "OCancelled"
		default:
			// the Cleaner's error, or a wrapper that returned without
			// reaching its base call
			return "OAcqFailed"
		}
	}
	return g.App("OReleased", relClass(e.err))
}

func (h *iharness) doAcquire(t *thr) {
	ctx := &hctx{h: h, t: t}
	t.call = "acq"
	switch t.kind {
	case kindRaw:
		h.launch(t, func() error { return h.inv.Acquire(ctx) })
	case kindRun:
		h.launch(t, func() error {
			// Acquire, base.Run (parks: the thread is "holding"), Release
			_, err := h.runner.Run(ctx, &runner_pb.RunRequest{})
			return err
		})
	case kindReadiness:
		h.launch(t, func() error {
			_, err := h.runner.CheckReadiness(ctx, &runner_pb.CheckReadinessRequest{})
			return err
		})
	case kindDirectory:
		h.launch(t, func() error {
			d, _, err := h.creator.GetBuildDirectory(ctx, nil)
			if err == nil {
				t.dir = d
			}
			return err
		})
	}
}

type iop struct {
	K  string `json:"k"` // acq, rel, wake, cancel, done
	T  int    `json:"t"`
	Ok bool   `json:"ok,omitempty"` // done: cleaner result; rel: base call result
}

type ihistory struct {
	Mode  string `json:"mode"`
	Kinds []int  `json:"kinds"`
	Ops   []iop  `json:"ops"`
}

func executeIdle(hist ihistory) (string, *hcommon.Info, error) {
	info := hcommon.NewInfo()
	kinds := hist.Kinds
	if len(kinds) == 0 {
		kinds = []int{kindRaw}
	}
	for i := range kinds {
		kinds[i] = ((kinds[i] % numKinds) + numKinds) % numKinds
	}
	h := newIHarness(kinds)
	var evs, outs []string
	sawBlocked, sawWake, sawFail, stuck := false, false, false, false
	for _, o := range hist.Ops {
		if stuck {
			break
		}
		t := h.threads[((o.T%len(kinds))+len(kinds))%len(kinds)]
		var ev string
		switch o.K {
		case "acq":
			if t.phase != "idle" {
				continue
			}
			ev = g.App("AcqStart", g.Nat(t.id))
			h.doAcquire(t)
		case "wake":
			if t.phase != "waiting" || !h.closedRun(t) {
				continue
			}
			ev = g.App("Wake", g.Nat(t.id))
			t.resume <- resumeMsg{}
			sawWake = true
		case "cancel":
			if t.phase != "waiting" || h.closedRun(t) {
				continue
			}
			ev = g.App("CancelWait", g.Nat(t.id))
			t.resume <- resumeMsg{cancel: true}
		case "done":
			if t.phase != "cleaning" {
				continue
			}
			ev = g.App("CleanDone", g.Nat(t.id), g.Bool(o.Ok))
			if !o.Ok {
				sawFail = true
			}
			t.resume <- resumeMsg{ok: o.Ok}
		case "rel":
			switch t.kind {
			case kindRaw:
				if t.phase != "idle" {
					continue
				}
				ev = g.App("RelStart", g.Nat(t.id), "true")
				t.call = "rel"
				ctx := &hctx{h: h, t: t}
				h.launch(t, func() error { return h.inv.Release(ctx) })
			case kindRun, kindReadiness:
				if t.phase != "holding" {
					continue
				}
				ev = g.App("RelStart", g.Nat(t.id), g.Bool(o.Ok))
				t.call = "rel"
				t.resume <- resumeMsg{ok: o.Ok}
			case kindDirectory:
				if t.phase != "holding" {
					continue
				}
				ev = g.App("RelStart", g.Nat(t.id), "true")
				t.call = "rel"
				d := t.dir
				t.dir = nil
				h.launch(t, func() error { return d.Close() })
			}
		default:
			continue
		}
		wasCleaning, runID := t.phase == "cleaning", t.runID
		e, err := h.await(t)
		if err != nil {
			return "", nil, err
		}
		out := h.settle(t, e, info)
		if wasCleaning && o.K == "done" {
			h.runs[runID] = true
		}
		if out == "OStuck" {
			stuck = true
		}
		if out == "OBlocked" {
			sawBlocked = true
		}
		info.Events++
		info.Ops[o.K]++
		info.Outs[out]++
		evs = append(evs, ev)
		outs = append(outs, out)
	}
	if !stuck {
		h.drain()
	}
	info.Nontrivial = sawBlocked && sawWake && sawFail
	return g.App("CIdle", g.App("mkICase", g.List(evs), g.List(outs))), info, nil
}

// drain lets every goroutine finish so that nothing stays parked.
func (h *iharness) drain() {
	scratch := hcommon.NewInfo()
	for round := 0; round < 1000; round++ {
		progressed := false
		for _, t := range h.threads {
			switch t.phase {
			case "cleaning":
				runID := t.runID
				t.resume <- resumeMsg{ok: true}
				e, _ := h.await(t)
				h.settle(t, e, scratch)
				h.runs[runID] = true
				progressed = true
			case "waiting":
				if h.closedRun(t) {
					t.resume <- resumeMsg{}
				} else if h.running.Load() == 0 {
					t.resume <- resumeMsg{cancel: true}
				} else {
					continue
				}
				e, _ := h.await(t)
				h.settle(t, e, scratch)
				progressed = true
			case "holding":
				if t.kind == kindDirectory {
					d := t.dir
					t.dir = nil
					t.call = "rel"
					h.launch(t, func() error { return d.Close() })
				} else {
					t.call = "rel"
					t.resume <- resumeMsg{ok: true}
				}
				e, _ := h.await(t)
				h.settle(t, e, scratch)
				progressed = true
			}
			if t.phase == "stuck" {
				return
			}
		}
		if !progressed {
			break
		}
	}
	for _, t := range h.threads {
		if t.phase == "idle" {
			close(t.cmd)
		}
	}
}
