// Executor part of the C12 harness: the real builder.NewLocalBuildExecutor
// (Execute and CheckReadiness) on top of the real creator stack.  Recording
// wrappers around the creator and the directory it hands out decompose one
// Execute call, by observation, into the creator operations the model
// knows: DGet, DWrite* (directories the executor creates in the action's
// directory), DClose (the deferred Close), and finally DReturn (the executor
// returned; DLeaked if Close was never called).
package main

import (
	"context"
	"fmt"
	"os"

	remoteexecution "github.com/bazelbuild/remote-apis/build/bazel/remote/execution/v2"
	"github.com/buildbarn/bb-remote-execution/pkg/builder"
	"github.com/buildbarn/bb-remote-execution/pkg/filesystem/access"
	"github.com/buildbarn/bb-remote-execution/pkg/filesystem/pool"
	"github.com/buildbarn/bb-remote-execution/pkg/proto/remoteworker"
	runner_pb "github.com/buildbarn/bb-remote-execution/pkg/proto/runner"
	"github.com/buildbarn/bb-storage/pkg/blobstore"
	"github.com/buildbarn/bb-storage/pkg/blobstore/buffer"
	"github.com/buildbarn/bb-storage/pkg/clock"
	"github.com/buildbarn/bb-storage/pkg/digest"
	"github.com/buildbarn/bb-storage/pkg/filesystem"
	"github.com/buildbarn/bb-storage/pkg/filesystem/path"
	"github.com/buildbarn/bb-storage/pkg/util"

	"google.golang.org/grpc"
	"google.golang.org/grpc/status"
	"google.golang.org/protobuf/types/known/durationpb"
	"google.golang.org/protobuf/types/known/emptypb"

	g "verif/harness/internal/gallina"
)

const emptySHA256 = "e3b0c44298fc1c149afbf4c8996fb92427ae41e4649b934ca495991b7852b855"

// Failure points of Execute, in program order.
const (
	fpNone = iota
	fpMkdirRoot
	fpEnterRoot
	fpMerge
	fpCommand
	fpMkdirTmp
	fpMkdirLogs
	fpRun
	numFailPoints
)

// ---- additional BuildDirectory methods the executor uses --------------------

func (d *memDirectory) InstallHooks(filePool pool.FilePool, errorLogger util.ErrorLogger) {}

func (d *memDirectory) MergeDirectoryContents(ctx context.Context, errorLogger util.ErrorLogger, dg digest.Digest, monitor access.UnreadDirectoryMonitor) error {
	if d.h.fp == fpMerge {
		return errInjected
	}
	return nil
}

func (d *memDirectory) UploadFile(ctx context.Context, name path.Component, digestFunction digest.Function, writableFileUploadDelay <-chan struct{}) (digest.Digest, error) {
	return digest.MustNewDigest("verif", remoteexecution.DigestFunction_SHA256, emptySHA256, 0), nil
}

func (d *memDirectory) EnterUploadableDirectory(name path.Component) (builder.UploadableDirectory, error) {
	_, c := d.n.find(name.String())
	if c == nil {
		return nil, status.Error(5, "no such directory")
	}
	return &memDirectory{h: d.h, n: c, depth: d.depth + 1}, nil
}

func (d *memDirectory) EnterParentPopulatableDirectory(name path.Component) (builder.ParentPopulatableDirectory, error) {
	_, c := d.n.find(name.String())
	if c == nil {
		return nil, status.Error(5, "no such directory")
	}
	return &memDirectory{h: d.h, n: c, depth: d.depth + 1}, nil
}

func (d *memDirectory) ReadDir() ([]filesystem.FileInfo, error) { return nil, nil }

func (d *memDirectory) Mknod(name path.Component, perm os.FileMode, deviceNumber filesystem.DeviceNumber) error {
	return nil
}

// ---- recording wrappers -------------------------------------------------------

type recCreator struct {
	h     *dharness
	inner builder.BuildDirectoryCreator
	slot  int
	gf    []bool
	cf    []bool
	dig   string // Gallina term of the digest option
	dir   *recDirectory
}

func (c *recCreator) GetBuildDirectory(ctx context.Context, dg *digest.Digest) (builder.BuildDirectory, *path.Trace, error) {
	h := c.h
	h.isGet, h.fl, h.cleans = true, c.gf, 0
	d, p, err := c.inner.GetBuildDirectory(ctx, dg)
	op := g.App("DGet", g.Nat(c.slot), c.dig,
		g.App("mkGF", g.Bool(h.flag(0)), g.Bool(h.flag(1)), g.Bool(h.flag(2)), g.Bool(h.flag(3)), g.Bool(h.flag(4))))
	var out string
	if err != nil {
		out = g.App("DErr", g.N(uint64(status.Code(err))))
	} else {
		out = g.App("DGot", g.Str(p.GetUNIXString()))
	}
	h.emit("get", op, out)
	h.fl = nil
	if err != nil {
		return nil, nil, err
	}
	c.dir = &recDirectory{BuildDirectory: d, c: c}
	h.recSlot = c.slot
	h.recording = true
	return c.dir, p, nil
}

type recDirectory struct {
	builder.BuildDirectory
	c      *recCreator
	closes int
}

func (d *recDirectory) Close() error {
	h := d.c.h
	h.recording = false
	h.isGet, h.fl, h.cleans = false, d.c.cf, 0
	err := d.BuildDirectory.Close()
	d.closes++
	op := g.App("DClose", g.Nat(d.c.slot), g.App("mkCF", g.Bool(h.flag(0)), g.Bool(h.flag(1)), g.Bool(h.flag(2))))
	h.emit("close", op, g.App("DClosed", g.N(uint64(status.Code(err)))))
	h.fl = nil
	return err
}

// ---- fakes around the executor ------------------------------------------------

type commandStore struct {
	blobstore.BlobAccess
	h *dharness
}

func (s commandStore) Get(ctx context.Context, dg digest.Digest) buffer.Buffer {
	if s.h.fp == fpCommand {
		return buffer.NewBufferFromError(errInjected)
	}
	return buffer.NewProtoBufferFromProto(&remoteexecution.Command{Arguments: []string{"true"}}, buffer.UserProvided)
}

type scriptedRunnerClient struct{ h *dharness }

func (r scriptedRunnerClient) Run(ctx context.Context, in *runner_pb.RunRequest, opts ...grpc.CallOption) (*runner_pb.RunResponse, error) {
	if r.h.fp == fpRun {
		return nil, errInjected
	}
	return &runner_pb.RunResponse{}, nil
}

func (r scriptedRunnerClient) CheckReadiness(ctx context.Context, in *runner_pb.CheckReadinessRequest, opts ...grpc.CallOption) (*emptypb.Empty, error) {
	if r.h.fp == fpRun {
		return nil, errInjected
	}
	return &emptypb.Empty{}, nil
}

// runExecutor performs one exec/ready operation; the events it causes are
// appended through h.emit by the wrappers.
func (h *dharness) runExecutor(inner builder.BuildDirectoryCreator, o dop, slot int, ready bool) {
	digTerm, hash := "None", ""
	if o.Dig > 0 && !ready {
		hi := (o.Dig - 1) % len(hashes)
		hash = hashes[hi]
		digTerm = g.Some(fmt.Sprintf("hash%d", hi))
	}
	gf, cf := o.Fl, []bool(nil)
	if len(gf) > 5 {
		gf, cf = o.Fl[:5], o.Fl[5:]
	}
	rc := &recCreator{h: h, inner: inner, slot: slot, gf: gf, cf: cf, dig: digTerm}
	h.fp = ((o.Fp % numFailPoints) + numFailPoints) % numFailPoints
	executor := builder.NewLocalBuildExecutor(commandStore{h: h}, rc, scriptedRunnerClient{h}, clock.SystemClock,
		0, nil, 1<<20, nil, false)
	ctx := context.Background()
	if ready {
		executor.CheckReadiness(ctx)
	} else {
		digestFunction := digest.MustNewFunction("verif", remoteexecution.DigestFunction_SHA256)
		actionHash := hash
		if actionHash == "" {
			actionHash = emptySHA256
		}
		updates := make(chan *remoteworker.CurrentState_Executing, 16)
		executor.Execute(ctx, nil, nil, digestFunction, &remoteworker.DesiredState_Executing{
			ActionDigest: &remoteexecution.Digest{Hash: actionHash, SizeBytes: 42},
			Action: &remoteexecution.Action{
				CommandDigest:   &remoteexecution.Digest{Hash: emptySHA256, SizeBytes: 0},
				InputRootDigest: &remoteexecution.Digest{Hash: emptySHA256, SizeBytes: 0},
				Timeout:         durationpb.New(3600e9),
				DoNotCache:      hash == "",
			},
		}, updates)
	}
	h.fp = fpNone
	h.recording = false
	h.cleans = 0
	out := "DRet"
	if rc.dir != nil && rc.dir.closes == 0 {
		out = "DLeaked"
	}
	h.emit("return", g.App("DReturn", g.Nat(slot)), out)
}
