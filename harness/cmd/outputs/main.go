// Harness for C10: runs the real NewOutputHierarchy, CreateParentDirectories
// and UploadOutputs of pkg/builder against an in-memory directory tree and a
// blob-capturing CAS, and (second half of every case) the real
// LocalBuildExecutor.Execute with the same command, input root and action
// behaviour. Everything observable is written as a Gallina case term:
// the command, the directory before / after parent creation / after the
// action, the ActionResult, the digest graph (every digest seen, numbered,
// with the decoded blob it names) and the CAS traffic.
package main

import (
	"bytes"
	"context"
	"encoding/json"
	"fmt"
	"os"
	"sort"
	"strings"
	"syscall"
	"time"

	remoteexecution "github.com/bazelbuild/remote-apis/build/bazel/remote/execution/v2"
	"github.com/buildbarn/bb-remote-execution/pkg/builder"
	"github.com/buildbarn/bb-remote-execution/pkg/filesystem/access"
	"github.com/buildbarn/bb-remote-execution/pkg/filesystem/pool"
	"github.com/buildbarn/bb-remote-execution/pkg/proto/remoteworker"
	runner_pb "github.com/buildbarn/bb-remote-execution/pkg/proto/runner"
	"github.com/buildbarn/bb-storage/pkg/blobstore"
	"github.com/buildbarn/bb-storage/pkg/blobstore/buffer"
	"github.com/buildbarn/bb-storage/pkg/blobstore/slicing"
	"github.com/buildbarn/bb-storage/pkg/clock"
	"github.com/buildbarn/bb-storage/pkg/digest"
	"github.com/buildbarn/bb-storage/pkg/filesystem"
	"github.com/buildbarn/bb-storage/pkg/filesystem/path"
	"github.com/buildbarn/bb-storage/pkg/util"
	"google.golang.org/grpc"
	"google.golang.org/grpc/codes"
	"google.golang.org/grpc/status"
	"google.golang.org/protobuf/encoding/protowire"
	"google.golang.org/protobuf/proto"
	"google.golang.org/protobuf/types/known/durationpb"
	"google.golang.org/protobuf/types/known/emptypb"

	g "verif/harness/internal/gallina"
	"verif/harness/internal/hcommon"
	"verif/harness/internal/rng"
)

// ---------------------------------------------------------------------------
// History format

// op kinds: "path" (declare output path P), "pre"/"post" (put a node of type
// T at location Loc of the input root / of the directory the action leaves
// behind; intermediate directories are created; a location that is blocked by
// a non-directory is skipped; an existing final name is replaced for "post"
// and kept for "pre"), "rm" (the action removes Loc).
type op struct {
	K   string   `json:"k"`
	P   string   `json:"p,omitempty"`
	Loc []string `json:"loc,omitempty"`
	T   string   `json:"t,omitempty"` // file, dir, sym, special
	X   bool     `json:"x,omitempty"`
	D   string   `json:"d,omitempty"` // file contents / symlink target
}

type history struct {
	WD          string   `json:"wd"`
	TAD         int      `json:"format"` // Command.output_directory_format
	Force       bool     `json:"force"`
	LegacyFiles []string `json:"legacy_files,omitempty"`
	LegacyDirs  []string `json:"legacy_dirs,omitempty"`
	Ops         []op     `json:"ops"`
}

// ---------------------------------------------------------------------------
// In-memory directory tree

const (
	kFile = iota
	kDir
	kSym
	kSpecial
)

type fnode struct {
	kind     int
	exec     bool
	data     string
	children []*fent
}

type fent struct {
	name string
	n    *fnode
}

func (n *fnode) find(name string) *fnode {
	for _, e := range n.children {
		if e.name == name {
			return e.n
		}
	}
	return nil
}

func (n *fnode) clone() *fnode {
	c := &fnode{kind: n.kind, exec: n.exec, data: n.data}
	for _, e := range n.children {
		c.children = append(c.children, &fent{e.name, e.n.clone()})
	}
	return c
}

func (n *fnode) count() int {
	c := 1
	for _, e := range n.children {
		c += e.n.count()
	}
	return c
}

func mkNode(o op) *fnode {
	switch o.T {
	case "file":
		return &fnode{kind: kFile, exec: o.X, data: o.D}
	case "dir":
		return &fnode{kind: kDir}
	case "sym":
		return &fnode{kind: kSym, data: o.D}
	default:
		return &fnode{kind: kSpecial}
	}
}

func validName(s string) bool {
	_, ok := path.NewComponent(s)
	return ok
}

func put(root *fnode, o op, replace bool) {
	if len(o.Loc) == 0 {
		return
	}
	for _, c := range o.Loc {
		if !validName(c) {
			return
		}
	}
	d := root
	for _, c := range o.Loc[:len(o.Loc)-1] {
		n := d.find(c)
		if n == nil {
			n = &fnode{kind: kDir}
			d.children = append(d.children, &fent{c, n})
		}
		if n.kind != kDir {
			return
		}
		d = n
	}
	last := o.Loc[len(o.Loc)-1]
	for _, e := range d.children {
		if e.name == last {
			if replace && !(e.n.kind == kDir && o.T == "dir") {
				e.n = mkNode(o)
			}
			return
		}
	}
	d.children = append(d.children, &fent{last, mkNode(o)})
}

func remove(root *fnode, loc []string) {
	if len(loc) == 0 {
		return
	}
	d := root
	for _, c := range loc[:len(loc)-1] {
		n := d.find(c)
		if n == nil || n.kind != kDir {
			return
		}
		d = n
	}
	for i, e := range d.children {
		if e.name == loc[len(loc)-1] {
			d.children = append(d.children[:i:i], d.children[i+1:]...)
			return
		}
	}
}

// gstr prints a Go string (arbitrary bytes) as a Gallina string.
func gstr(s string) string {
	plain := true
	for i := 0; i < len(s); i++ {
		if s[i] < 0x20 || s[i] > 0x7e {
			plain = false
		}
	}
	if plain {
		return g.Str(s)
	}
	var b strings.Builder
	closeN := 0
	i := 0
	for i < len(s) {
		if s[i] < 0x20 || s[i] > 0x7e {
			fmt.Fprintf(&b, "(String \"%03d\"%%char ", s[i])
			closeN++
			i++
			continue
		}
		j := i
		for j < len(s) && s[j] >= 0x20 && s[j] <= 0x7e {
			j++
		}
		fmt.Fprintf(&b, "(String.append %s ", g.Str(s[i:j]))
		closeN++
		i = j
	}
	b.WriteString("EmptyString")
	b.WriteString(strings.Repeat(")", closeN))
	return b.String()
}

func nodeTerm(n *fnode) string {
	switch n.kind {
	case kFile:
		return g.App("File", g.Bool(n.exec), gstr(n.data))
	case kDir:
		return g.App("Dir", entriesTerm(n))
	case kSym:
		return g.App("Symlink", gstr(n.data))
	default:
		return "Special"
	}
}

func entriesTerm(n *fnode) string {
	var items []string
	for _, e := range n.children {
		items = append(items, "("+gstr(e.name)+", "+nodeTerm(e.n)+")")
	}
	return g.List(items)
}

// ---------------------------------------------------------------------------
// The environment: UploadableDirectory / ParentPopulatableDirectory over fnode

type world struct {
	digestFunction digest.Function
	calls          int               // directory method calls
	fileBlobs      map[string]string // digest key -> contents, filled by UploadFile
	uploads        []digest.Digest   // UploadFile results in call order
	puts           []digest.Digest   // CAS Put calls in call order
	putData        map[string][]byte
	extra          map[string][]byte // blobs served by Get only (executor mode)
}

func newWorld() *world {
	return &world{
		digestFunction: digest.MustNewFunction("", remoteexecution.DigestFunction_SHA256),
		fileBlobs:      map[string]string{},
		putData:        map[string][]byte{},
		extra:          map[string][]byte{},
	}
}

func dkey(d digest.Digest) string {
	return fmt.Sprintf("%s-%d", d.GetHashString(), d.GetSizeBytes())
}

func pkey(d *remoteexecution.Digest) string {
	if d == nil {
		return "nil"
	}
	return fmt.Sprintf("%s-%d", d.Hash, d.SizeBytes)
}

func (w *world) sum(data []byte) digest.Digest {
	gen := w.digestFunction.NewGenerator(int64(len(data)))
	gen.Write(data)
	return gen.Sum()
}

type fdir struct {
	w *world
	n *fnode
}

func (d *fdir) Close() error { return nil }

func (d *fdir) enter(name path.Component) (*fdir, error) {
	d.w.calls++
	c := d.n.find(name.String())
	if c == nil {
		return nil, syscall.ENOENT
	}
	if c.kind != kDir {
		return nil, syscall.ENOTDIR
	}
	return &fdir{d.w, c}, nil
}

func (d *fdir) EnterUploadableDirectory(name path.Component) (builder.UploadableDirectory, error) {
	c, err := d.enter(name)
	if err != nil {
		return nil, err
	}
	return c, nil
}

func (d *fdir) EnterParentPopulatableDirectory(name path.Component) (builder.ParentPopulatableDirectory, error) {
	c, err := d.enter(name)
	if err != nil {
		return nil, err
	}
	return c, nil
}

func fileInfo(name path.Component, n *fnode) filesystem.FileInfo {
	switch n.kind {
	case kFile:
		return filesystem.NewFileInfo(name, filesystem.FileTypeRegularFile, n.exec)
	case kDir:
		return filesystem.NewFileInfo(name, filesystem.FileTypeDirectory, false)
	case kSym:
		return filesystem.NewFileInfo(name, filesystem.FileTypeSymlink, false)
	default:
		t := []filesystem.FileType{filesystem.FileTypeOther, filesystem.FileTypeFIFO, filesystem.FileTypeSocket,
			filesystem.FileTypeCharacterDevice, filesystem.FileTypeBlockDevice}[len(name.String())%5]
		return filesystem.NewFileInfo(name, t, false)
	}
}

func (d *fdir) Lstat(name path.Component) (filesystem.FileInfo, error) {
	d.w.calls++
	c := d.n.find(name.String())
	if c == nil {
		return filesystem.FileInfo{}, syscall.ENOENT
	}
	return fileInfo(name, c), nil
}

func (d *fdir) ReadDir() ([]filesystem.FileInfo, error) {
	d.w.calls++
	var l []filesystem.FileInfo
	for _, e := range d.n.children {
		l = append(l, fileInfo(path.MustNewComponent(e.name), e.n))
	}
	return l, nil
}

func (d *fdir) Readlink(name path.Component) (path.Parser, error) {
	d.w.calls++
	c := d.n.find(name.String())
	if c == nil {
		return nil, syscall.ENOENT
	}
	if c.kind != kSym {
		return nil, syscall.EINVAL
	}
	return path.UNIXFormat.NewParser(c.data), nil
}

func (d *fdir) UploadFile(ctx context.Context, name path.Component, digestFunction digest.Function, writableFileUploadDelay <-chan struct{}) (digest.Digest, error) {
	d.w.calls++
	c := d.n.find(name.String())
	if c == nil {
		return digest.BadDigest, syscall.ENOENT
	}
	if c.kind != kFile {
		return digest.BadDigest, syscall.EISDIR
	}
	gen := digestFunction.NewGenerator(int64(len(c.data)))
	gen.Write([]byte(c.data))
	dg := gen.Sum()
	d.w.fileBlobs[dkey(dg)] = c.data
	d.w.uploads = append(d.w.uploads, dg)
	return dg, nil
}

func (d *fdir) Mkdir(name path.Component, perm os.FileMode) error {
	d.w.calls++
	if d.n.find(name.String()) != nil {
		return syscall.EEXIST
	}
	d.n.children = append(d.n.children, &fent{name.String(), &fnode{kind: kDir}})
	return nil
}

// CAS capturing Put calls.
type fakeCAS struct{ w *world }

func (c fakeCAS) GetCapabilities(ctx context.Context, instanceName digest.InstanceName) (*remoteexecution.ServerCapabilities, error) {
	return nil, status.Error(codes.Unimplemented, "not used")
}

func (c fakeCAS) Get(ctx context.Context, d digest.Digest) buffer.Buffer {
	if data, ok := c.w.extra[dkey(d)]; ok {
		return buffer.NewValidatedBufferFromByteSlice(data)
	}
	return buffer.NewBufferFromError(status.Error(codes.NotFound, "no such blob"))
}

func (c fakeCAS) GetFromComposite(ctx context.Context, parentDigest, childDigest digest.Digest, slicer slicing.BlobSlicer) buffer.Buffer {
	return buffer.NewBufferFromError(status.Error(codes.Unimplemented, "not used"))
}

func (c fakeCAS) Put(ctx context.Context, d digest.Digest, b buffer.Buffer) error {
	data, err := b.ToByteSlice(1 << 24)
	if err != nil {
		return err
	}
	c.w.puts = append(c.w.puts, d)
	c.w.putData[dkey(d)] = data
	return nil
}

func (c fakeCAS) FindMissing(ctx context.Context, digests digest.Set) (digest.Set, error) {
	return digest.EmptySet, nil
}

var _ blobstore.BlobAccess = fakeCAS{}

// ---------------------------------------------------------------------------
// Executor mode: the same command through LocalBuildExecutor.Execute

// bdir is a builder.BuildDirectory over fnode. MergeDirectoryContents
// installs the input root of the history; everything else is the fdir
// behaviour.
type bdir struct {
	*fdir
	x *xworld
}

type xworld struct {
	w        *world
	pre      *fnode   // input root to install
	postOps  []op     // what the action does
	build    *fnode   // the build directory
	root     *fnode   // the input root directory inside it (once created)
	merged   bool     // input root installed
	callsAtMerge int  // directory calls made until the input root was installed
	callsAtNew   int  // directory calls at the last moment before NewOutputHierarchy could have run
	ran      bool
	atRun    *fnode   // input root when the runner was invoked
	callsAtRun int
}

func (d *bdir) EnterBuildDirectory(name path.Component) (builder.BuildDirectory, error) {
	c, err := d.enter(name)
	if err != nil {
		return nil, err
	}
	if d.n == d.x.build && name.String() == "root" {
		d.x.root = c.n
	}
	return &bdir{c, d.x}, nil
}

func (d *bdir) EnterUploadableDirectory(name path.Component) (builder.UploadableDirectory, error) {
	return d.EnterBuildDirectory(name)
}

func (d *bdir) EnterParentPopulatableDirectory(name path.Component) (builder.ParentPopulatableDirectory, error) {
	return d.EnterBuildDirectory(name)
}

func (d *bdir) InstallHooks(filePool pool.FilePool, errorLogger util.ErrorLogger) {}

func (d *bdir) MergeDirectoryContents(ctx context.Context, errorLogger util.ErrorLogger, dg digest.Digest, monitor access.UnreadDirectoryMonitor) error {
	d.n.children = d.x.pre.clone().children
	d.x.merged = true
	d.x.callsAtMerge = d.w.calls
	return nil
}

func (d *bdir) Mknod(name path.Component, perm os.FileMode, deviceNumber filesystem.DeviceNumber) error {
	return status.Error(codes.Unimplemented, "not used")
}

func (d *bdir) Remove(name path.Component) error {
	d.w.calls++
	remove(d.n, []string{name.String()})
	return nil
}

func (d *bdir) RemoveAll(name path.Component) error { return d.Remove(name) }

type bcreator struct{ x *xworld }

func (c bcreator) GetBuildDirectory(ctx context.Context, actionDigestIfNotRunInParallel *digest.Digest) (builder.BuildDirectory, *path.Trace, error) {
	return &bdir{&fdir{c.x.w, c.x.build}, c.x}, nil, nil
}

// frunner plays the action: it records the input root it finds, applies
// the history's post operations to it and leaves empty stdout/stderr files.
type frunner struct{ x *xworld }

func (r frunner) CheckReadiness(ctx context.Context, in *runner_pb.CheckReadinessRequest, opts ...grpc.CallOption) (*emptypb.Empty, error) {
	return &emptypb.Empty{}, nil
}

func (r frunner) Run(ctx context.Context, in *runner_pb.RunRequest, opts ...grpc.CallOption) (*runner_pb.RunResponse, error) {
	x := r.x
	x.ran = true
	x.callsAtRun = x.w.calls
	if x.root == nil {
		return nil, status.Error(codes.Internal, "no input root")
	}
	x.atRun = x.root.clone()
	for _, o := range x.postOps {
		switch o.K {
		case "post":
			put(x.root, o, true)
		case "rm":
			remove(x.root, o.Loc)
		}
	}
	put(x.build, op{Loc: []string{"stdout"}, T: "file"}, true)
	put(x.build, op{Loc: []string{"stderr"}, T: "file"}, true)
	return &runner_pb.RunResponse{}, nil
}

// runExecutor drives LocalBuildExecutor.Execute and returns the response.
func runExecutor(h *history, command *remoteexecution.Command, pre *fnode) (*xworld, *remoteexecution.ExecuteResponse) {
	w := newWorld()
	x := &xworld{w: w, pre: pre, build: &fnode{kind: kDir}}
	for _, o := range h.Ops {
		if o.K == "post" || o.K == "rm" {
			x.postOps = append(x.postOps, o)
		}
	}
	commandData, _ := proto.Marshal(command)
	commandDigest := w.sum(commandData)
	w.extra[dkey(commandDigest)] = commandData
	action := &remoteexecution.Action{
		CommandDigest:   commandDigest.GetProto(),
		InputRootDigest: w.sum(nil).GetProto(),
		Timeout:         durationpb.New(time.Hour),
		DoNotCache:      true,
	}
	actionData, _ := proto.Marshal(action)
	be := builder.NewLocalBuildExecutor(fakeCAS{w}, bcreator{x}, frunner{x}, clock.SystemClock, time.Hour,
		nil, 1<<20, map[string]string{}, h.Force)
	updates := make(chan *remoteworker.CurrentState_Executing, 16)
	response := be.Execute(context.Background(), nil, nil, w.digestFunction, &remoteworker.DesiredState_Executing{
		ActionDigest: w.sum(actionData).GetProto(),
		Action:       action,
	}, updates)
	return x, response
}

// ---------------------------------------------------------------------------
// Digest graph -> numbered table of decoded blobs

type table struct {
	ids   map[string]int
	order []string
	// key -> kind -> Gallina blob term. One digest can name blobs of
	// several kinds: SHA-256 is taken over the serialised bytes, and e.g. the
	// empty file and the empty Directory message serialise to the same bytes.
	blobs map[string]map[string]string
}

func newTable() *table { return &table{ids: map[string]int{}, blobs: map[string]map[string]string{}} }

func (t *table) set(key, kind, term string) {
	t.id(key)
	if t.blobs[key] == nil {
		t.blobs[key] = map[string]string{}
	}
	t.blobs[key][kind] = term
}

func (t *table) id(key string) int {
	if v, ok := t.ids[key]; ok {
		return v
	}
	v := len(t.ids) + 1
	t.ids[key] = v
	t.order = append(t.order, key)
	return v
}

func (t *table) idTerm(key string) string { return g.N(uint64(t.id(key))) }

func (t *table) dirMsgTerm(d *remoteexecution.Directory) string {
	var files, dirs, syms []string
	for _, f := range d.Files {
		files = append(files, g.App("mkFN", gstr(f.Name), t.idTerm(pkey(f.Digest)), g.Bool(f.IsExecutable)))
	}
	for _, c := range d.Directories {
		dirs = append(dirs, g.App("mkDN", gstr(c.Name), t.idTerm(pkey(c.Digest))))
	}
	for _, s := range d.Symlinks {
		syms = append(syms, g.App("mkSN", gstr(s.Name), gstr(s.Target)))
	}
	return g.App("mkDM", g.List(files), g.List(dirs), g.List(syms))
}

// addTree decodes the wire form of a Tree: a sequence of (field, bytes)
// records. Returns false if it is not of that shape.
func (t *table) addTree(w *world, key string, data []byte) bool {
	var items []string
	for len(data) > 0 {
		num, typ, n := protowire.ConsumeTag(data)
		if n < 0 || typ != protowire.BytesType || (num != 1 && num != 2) {
			return false
		}
		data = data[n:]
		b, n := protowire.ConsumeBytes(data)
		if n < 0 {
			return false
		}
		data = data[n:]
		var d remoteexecution.Directory
		if err := proto.Unmarshal(b, &d); err != nil {
			return false
		}
		msg := t.dirMsgTerm(&d)
		items = append(items, "("+g.Bool(num == 1)+", "+msg+")")
		// The directory itself is a blob with a digest, whether or not it was stored.
		t.set(dkey(w.sum(b)), "BDirectory", g.App("BDirectory", msg))
	}
	t.set(key, "BTree", g.App("BTree", g.List(items)))
	return true
}

func (t *table) addDirectory(key string, data []byte) bool {
	var d remoteexecution.Directory
	if err := proto.Unmarshal(data, &d); err != nil {
		return false
	}
	t.set(key, "BDirectory", g.App("BDirectory", t.dirMsgTerm(&d)))
	return true
}

func (t *table) term() string {
	var items []string
	// ids may grow while terms are built; iterate until stable
	for i := 0; i < len(t.order); i++ {
		k := t.order[i]
		for _, kind := range []string{"BFile", "BDirectory", "BTree"} {
			if b, ok := t.blobs[k][kind]; ok {
				items = append(items, "("+g.N(uint64(t.ids[k]))+", "+b+")")
			}
		}
	}
	return g.List(items)
}

// ---------------------------------------------------------------------------

type area struct{}

func (area) Requires() string {
	return "From VF Require Import Common.Verdict Outputs.Model Outputs.Spec Outputs.Corr.\nOpen Scope string_scope. Open Scope list_scope."
}
func (area) Check() string { return "check_case" }
func (area) Rule() string {
	return "commands with 0-8 output paths of 1-5 components over {a,b,c,.,..,<empty>,...} (2% absolute, 1% NUL byte, 20% duplicates), working directory of 0-3 such components, legacy output_files/output_directories filled in 30%, output_directory_format and force flag random; input root of 0-6 nodes; the action leaves <=40 nodes (files with contents from a 5-element set, executable 30%, directories, symlinks with targets from a set with //, ., .., trailing /, absolute, empty, NUL; special files; 2-3 copies of a sub-tree template in 50%; removals); non-trivial = hierarchy accepted and at least two outputs reported; distinct by hash of the case term"
}

var compAlphabet = []string{"a", "b", "a", "b", "c", ".", "..", "", "..."}
var nameAlphabet = []string{"a", "b", "c", "d"}
var contents = []string{"", "x", "y", "hello", "x"}
var targets = []string{"a", "a//b", "../x", "/", "a/", "", ".", "./a/./b/", "/../a", "a/..", "b", "/a//b", ".."}

func genPath(r *rng.R, maxDepth int) string {
	if r.Chance(4) {
		return []string{"", ".", "./", "a/.."}[r.Intn(4)]
	}
	n := 1 + r.Intn(maxDepth)
	cs := make([]string, n)
	for i := range cs {
		if r.Chance(65) {
			cs[i] = nameAlphabet[r.Intn(3)]
		} else {
			cs[i] = compAlphabet[r.Intn(len(compAlphabet))]
		}
	}
	p := strings.Join(cs, "/")
	if r.Chance(2) {
		p = "/" + p
	}
	if r.Chance(1) {
		p = p + "\x00"
	}
	return p
}

func genLoc(r *rng.R, maxDepth int) []string {
	n := 1 + r.Intn(maxDepth)
	l := make([]string, n)
	for i := range l {
		l[i] = nameAlphabet[r.Intn(len(nameAlphabet))]
		if r.Chance(70) {
			l[i] = nameAlphabet[r.Intn(2)]
		}
	}
	return l
}

func genNodeOp(r *rng.R, kind string, loc []string) op {
	o := op{K: kind, Loc: loc}
	switch x := r.Intn(100); {
	case x < 52:
		o.T = "file"
		o.X = r.Chance(30)
		o.D = contents[r.Intn(len(contents))]
	case x < 72:
		o.T = "dir"
	case x < 94:
		o.T = "sym"
		o.D = targets[r.Intn(len(targets))]
		if r.Chance(1) {
			o.D = "a\x00b"
		}
	default:
		o.T = "special"
	}
	return o
}

// lexical resolves a relative path the way the generator needs it (to aim
// output paths at existing locations); nil, false if it escapes.
func lexical(base []string, p string) ([]string, bool) {
	st := append([]string(nil), base...)
	for _, c := range strings.Split(p, "/") {
		switch c {
		case "", ".":
		case "..":
			if len(st) == 0 {
				return nil, false
			}
			st = st[:len(st)-1]
		default:
			st = append(st, c)
		}
	}
	return st, true
}

// decorate renders a component list as a path string with redundant
// components that do not change its meaning.
func decorate(r *rng.R, comps []string) string {
	var out []string
	for _, c := range comps {
		if r.Chance(8) {
			out = append(out, ".")
		}
		if r.Chance(6) && len(out) > 0 {
			out = append(out, "")
		}
		out = append(out, c)
		if r.Chance(6) && c != ".." {
			out = append(out, nameAlphabet[r.Intn(3)], "..")
		}
	}
	p := strings.Join(out, "/")
	switch x := r.Intn(100); {
	case x < 8:
		p += "/"
	case x < 12:
		p += "/."
	case x < 14 && len(comps) > 0 && comps[len(comps)-1] != "..":
		p += "/c/.."
	}
	return p
}

// relativeTo gives the components leading from directory w to location l.
func relativeTo(w, l []string) []string {
	i := 0
	for i < len(w) && i < len(l) && w[i] == l[i] {
		i++
	}
	var out []string
	for j := i; j < len(w); j++ {
		out = append(out, "..")
	}
	return append(out, l[i:]...)
}

func (area) Generate(r *rng.R, thorough bool, index int) json.RawMessage {
	var h history
	h.TAD = r.Intn(4)
	h.Force = r.Chance(25)

	// What the action leaves behind.
	var postOps []op
	budget := 8 + r.Intn(28)
	if thorough {
		budget = 8 + r.Intn(33)
	}
	if r.Chance(50) {
		// a template sub-tree, instantiated under several prefixes
		var tmpl []op
		for i := 1 + r.Intn(5); i > 0; i-- {
			tmpl = append(tmpl, genNodeOp(r, "post", genLoc(r, 2)))
		}
		for copies := 2 + r.Intn(2); copies > 0; copies-- {
			prefix := genLoc(r, 3)
			for _, t := range tmpl {
				o := t
				o.Loc = append(append([]string(nil), prefix...), t.Loc...)
				postOps = append(postOps, o)
				budget--
			}
		}
	}
	for ; budget > 0; budget-- {
		if r.Chance(3) {
			postOps = append(postOps, op{K: "rm", Loc: genLoc(r, 3)})
		} else {
			postOps = append(postOps, genNodeOp(r, "post", genLoc(r, 5)))
		}
	}
	// Input root: a few nodes, mostly directories and deeper files.
	var preOps []op
	for i := r.Intn(6); i > 0; i-- {
		o := genNodeOp(r, "pre", genLoc(r, 3))
		if len(o.Loc) < 3 && r.Chance(75) {
			o.T = "dir"
		}
		preOps = append(preOps, o)
	}
	// Locations to aim output paths at: mostly nodes of the final tree
	// (simulated without the parent directories), sometimes locations that
	// an operation named but that ended up blocked or removed.
	sim := &fnode{kind: kDir}
	for _, o := range preOps {
		put(sim, o, false)
	}
	var rawLocs, locs [][]string
	for _, o := range postOps {
		if o.K == "rm" {
			remove(sim, o.Loc)
		} else {
			put(sim, o, true)
		}
		for i := 1; i <= len(o.Loc); i++ {
			rawLocs = append(rawLocs, o.Loc[:i])
		}
	}
	var collect func(n *fnode, here []string)
	collect = func(n *fnode, here []string) {
		for _, e := range n.children {
			l := append(append([]string(nil), here...), e.name)
			locs = append(locs, l)
			collect(e.n, l)
		}
	}
	collect(sim, nil)
	for i := len(locs) / 6; i > 0 && len(rawLocs) > 0; i-- {
		locs = append(locs, rawLocs[r.Intn(len(rawLocs))])
	}

	// Working directory.
	var wdComps []string
	wdOK := true
	switch x := r.Intn(100); {
	case x < 45:
		h.WD = ""
	case x < 80:
		wdComps = genLoc(r, 2)
		if r.Chance(50) && len(locs) > 0 {
			wdComps = locs[r.Intn(len(locs))]
			if len(wdComps) > 2 {
				wdComps = wdComps[:2]
			}
		}
		h.WD = decorate(r, wdComps)
	default:
		h.WD = genPath(r, 3)
		wdComps, wdOK = lexical(nil, h.WD)
	}

	// Output paths: aimed at locations of the final tree (under several
	// spellings), aliases of earlier ones, or random.
	npaths := r.Intn(9)
	var targets [][]string
	var paths []string
	for i := 0; i < npaths; i++ {
		switch x := r.Intn(100); {
		case x < 55 && len(locs) > 0 && wdOK:
			l := locs[r.Intn(len(locs))]
			targets = append(targets, l)
			paths = append(paths, decorate(r, relativeTo(wdComps, l)))
		case x < 70 && len(targets) > 0 && wdOK:
			l := targets[r.Intn(len(targets))]
			paths = append(paths, decorate(r, relativeTo(wdComps, l)))
		case x < 80 && len(paths) > 0:
			paths = append(paths, paths[r.Intn(len(paths))])
		case x < 84 && wdOK:
			paths = append(paths, decorate(r, relativeTo(wdComps, nil))) // the input root itself
		default:
			paths = append(paths, genPath(r, 5))
		}
	}
	if r.Chance(30) {
		for i := r.Intn(3); i > 0; i-- {
			h.LegacyFiles = append(h.LegacyFiles, genPath(r, 3))
		}
		for i := r.Intn(3); i > 0; i-- {
			h.LegacyDirs = append(h.LegacyDirs, genPath(r, 3))
		}
	}
	for _, p := range paths {
		h.Ops = append(h.Ops, op{K: "path", P: p})
	}
	h.Ops = append(h.Ops, preOps...)
	h.Ops = append(h.Ops, postOps...)
	data, _ := json.Marshal(h)
	return data
}

func idList(t *table, ds []digest.Digest) string {
	var l []string
	for _, d := range ds {
		l = append(l, t.idTerm(dkey(d)))
	}
	return g.List(l)
}

func (area) Execute(raw json.RawMessage) (term string, info *hcommon.Info, err error) {
	var h history
	if err := json.Unmarshal(raw, &h); err != nil {
		return "", nil, err
	}
	info = hcommon.NewInfo()
	ctx := context.Background()

	command := &remoteexecution.Command{
		WorkingDirectory:      h.WD,
		OutputFiles:           h.LegacyFiles,
		OutputDirectories:     h.LegacyDirs,
		OutputDirectoryFormat: remoteexecution.Command_OutputDirectoryFormat(h.TAD % 3),
	}
	pre := &fnode{kind: kDir}
	for _, o := range h.Ops {
		info.Events++
		info.Ops[o.K]++
		switch o.K {
		case "path":
			command.OutputPaths = append(command.OutputPaths, o.P)
		case "pre":
			put(pre, o, false)
		case "post", "rm":
		default:
			return "", nil, fmt.Errorf("unknown op %q", o.K)
		}
	}
	tad := command.OutputDirectoryFormat == remoteexecution.Command_DIRECTORY_ONLY ||
		command.OutputDirectoryFormat == remoteexecution.Command_TREE_AND_DIRECTORY
	var pathTerms []string
	for _, p := range command.OutputPaths {
		pathTerms = append(pathTerms, gstr(p))
	}
	cmdTerm := g.App("mkCmd", gstr(h.WD), g.List(pathTerms), g.Bool(tad))

	w := newWorld()
	root := pre.clone()
	rootDir := &fdir{w, root}
	t := newTable()

	newOK, mkOK, upErr := false, false, false
	mid, post := &fnode{kind: kDir}, &fnode{kind: kDir}
	result := &remoteexecution.ActionResult{}
	var visits []string
	touched := false

	oh, herr := builder.NewOutputHierarchy(command)
	if herr != nil {
		info.Outs["rejected"]++
		touched = w.calls > 0
	} else {
		newOK = true
		mkOK = oh.CreateParentDirectories(rootDir) == nil
		if !mkOK {
			info.Outs["parents-failed"]++
		}
		mid = root.clone()
		for _, o := range h.Ops {
			switch o.K {
			case "post":
				put(root, o, true)
			case "rm":
				remove(root, o.Loc)
			}
		}
		post = root.clone()
		if c := post.count(); c > info.Extra["max_nodes"] {
			info.Extra["max_nodes"] = c
		}
		uerr := oh.UploadOutputs(ctx, rootDir, fakeCAS{w}, w.digestFunction, nil, result, h.Force)
		upErr = uerr != nil
		if upErr {
			info.Outs["upload-error"]++
			// error text is only classified for the coverage histogram, never compared
			msg := status.Convert(uerr).Message()
			if i := strings.Index(msg, " \""); i > 0 {
				msg = msg[:i]
			}
			info.Outs["upload-error: "+msg]++
		} else {
			info.Outs["upload-ok"]++
		}
	}

	// Digest table: trees first (named by the ActionResult), then the other
	// Put blobs (Directory objects), then file contents.
	treeKeys := map[string]bool{}
	for _, od := range result.OutputDirectories {
		treeKeys[pkey(od.TreeDigest)] = true
	}
	var tk []string
	for k := range treeKeys {
		tk = append(tk, k)
	}
	sort.Strings(tk)
	for _, k := range tk {
		data, ok := w.putData[k]
		if !ok {
			continue
		}
		if !t.addTree(w, k, data) {
			return "", nil, fmt.Errorf("tree blob %s does not decode", k)
		}
		// An independent consumer of topologically sorted trees.
		verr := blobstore.VisitTopologicallySortedTree(bytes.NewReader(data), w.digestFunction, 1<<20, new(int),
			func(d *remoteexecution.Directory, argument *int, childArguments []*int) error { return nil })
		visits = append(visits, "("+t.idTerm(k)+", "+g.Bool(verr == nil)+")")
		if n := len(strings.Split(t.blobs[k]["BTree"], "mkDM")) - 1; n > info.Extra["max_tree_directories"] {
			info.Extra["max_tree_directories"] = n
		}
	}
	for _, d := range w.puts {
		k := dkey(d)
		if treeKeys[k] {
			continue
		}
		if !t.addDirectory(k, w.putData[k]) {
			return "", nil, fmt.Errorf("put blob %s does not decode as Directory", k)
		}
	}
	var fk []string
	for k := range w.fileBlobs {
		fk = append(fk, k)
	}
	sort.Strings(fk)
	for _, k := range fk {
		t.set(k, "BFile", g.App("BFile", gstr(w.fileBlobs[k])))
	}

	resultTerms := func(result *remoteexecution.ActionResult) (files, dirs, syms []string) {
		for _, f := range result.OutputFiles {
			files = append(files, g.App("mkOF", gstr(f.Path), t.idTerm(pkey(f.Digest)), g.Bool(f.IsExecutable)))
		}
		for _, d := range result.OutputDirectories {
			rootDigest := "None"
			if d.RootDirectoryDigest != nil {
				rootDigest = g.Some(t.idTerm(pkey(d.RootDirectoryDigest)))
			}
			dirs = append(dirs, g.App("mkOD", gstr(d.Path), t.idTerm(pkey(d.TreeDigest)), g.Bool(d.IsTopologicallySorted), rootDigest))
		}
		for _, s := range result.OutputSymlinks {
			syms = append(syms, g.App("mkOS", gstr(s.Path), gstr(s.Target)))
		}
		return
	}
	files, dirs, syms := resultTerms(result)

	// The same command, input root and action through LocalBuildExecutor.
	x, response := runExecutor(&h, command, pre)
	xOK := response.Status == nil || response.Status.Code == 0
	xTouched := !x.ran && (x.w.calls > x.callsAtMerge || len(x.w.puts) > 0)
	if !x.merged {
		return "", nil, fmt.Errorf("executor did not install the input root: %v", response.Status)
	}
	xMid := &fnode{kind: kDir}
	if x.atRun != nil {
		xMid = x.atRun
	}
	xFiles, xDirs, xSyms := resultTerms(response.Result)
	switch {
	case !x.ran && xOK:
		info.Outs["executor: not run, no error"]++
	case !x.ran:
		info.Outs["executor: not run, error"]++
	case xOK:
		info.Outs["executor: run, ok"]++
	default:
		info.Outs["executor: run, error"]++
	}
	xTerm := g.App("mkExec", g.Bool(x.ran), g.Bool(xTouched), entriesTerm(xMid),
		g.List(xFiles), g.List(xDirs), g.List(xSyms), g.Bool(xOK))
	info.Outs[fmt.Sprintf("files=%d", min(len(files), 4))]++
	info.Outs[fmt.Sprintf("dirs=%d", min(len(dirs), 4))]++
	info.Outs[fmt.Sprintf("syms=%d", min(len(syms), 4))]++
	info.Nontrivial = newOK && len(files)+len(dirs)+len(syms) >= 2
	// Anything else set in the ActionResult by UploadOutputs is unexpected.
	other := len(result.OutputFileSymlinks) + len(result.OutputDirectorySymlinks)
	if result.StdoutDigest != nil || result.StderrDigest != nil || result.ExitCode != 0 {
		other++
	}

	putsTerm := idList(t, w.puts)
	uploadsTerm := idList(t, w.uploads)
	tableTerm := t.term()
	term = g.App("mkCase",
		cmdTerm, g.Bool(h.Force), entriesTerm(pre),
		g.Bool(newOK), g.Bool(touched),
		g.Bool(mkOK), entriesTerm(mid), entriesTerm(post),
		tableTerm,
		g.List(files), g.List(dirs), g.List(syms), g.Bool(upErr), g.Nat(other),
		putsTerm, uploadsTerm, g.List(visits), xTerm)
	return term, info, nil
}

func main() { hcommon.Main(area{}) }
