// Harness for C15: drives the real quota-enforcing, block-device-backed
// file pool with the real bitmap sector allocator.  The block device, the
// hole sources and a failing base pool are fakes with injectable failures;
// the allocator and the device are wrapped so that every call the files
// make on them is recorded.  After every operation the size of every open
// file (Len) and the quota still available (probed through NewFile/Close)
// are observed.
package main

import (
	"encoding/json"
	"fmt"
	"io"
	"strings"

	"github.com/buildbarn/bb-remote-execution/pkg/filesystem/pool"
	"github.com/buildbarn/bb-storage/pkg/filesystem"
	"google.golang.org/grpc/codes"
	"google.golang.org/grpc/status"

	g "verif/harness/internal/gallina"
	"verif/harness/internal/hcommon"
	"verif/harness/internal/rng"
)

const nslots = 5
const poison = '#'

// ---- history format -------------------------------------------------------

type op struct {
	K    string `json:"k"` // new read write trunc seek close rawalloc rawfree final
	Slot int    `json:"s,omitempty"`
	Off  int64  `json:"off,omitempty"`
	Len  int    `json:"len,omitempty"`
	Data string `json:"data,omitempty"` // bytes written / hole source contents (letters)
	Size uint64 `json:"size,omitempty"`
	FB   bool   `json:"fb,omitempty"`   // base pool NewFile fails
	IsD  bool   `json:"isd,omitempty"`  // seek: data (else hole)
	AsL  bool   `json:"asl,omitempty"`  // rawfree through FreeList
	FW   []int  `json:"fw,omitempty"`   // device write failure: [index, bytes]
	FR   []int  `json:"fr,omitempty"`   // device read failure: [index, bytes, short(0/1)]
	FH   []int  `json:"fh,omitempty"`   // hole source failure: [index, bytes, short(0/1)]
}

type history struct {
	SS       int    `json:"ss"`
	NSec     int    `json:"nsec"`
	MaxFiles uint64 `json:"maxfiles"`
	MaxBytes uint64 `json:"maxbytes"`
	Ops      []op   `json:"ops"`
}

// ---- fakes ----------------------------------------------------------------

type oracle struct {
	active  bool
	count   int
	partial int
	short   bool
}

func (o *oracle) set(v []int) {
	*o = oracle{}
	if len(v) >= 2 {
		o.active, o.count, o.partial = true, v[0], v[1]
		o.short = len(v) >= 3 && v[2] != 0
	}
}

// tick returns (true, bytes, short) if this call is the failing one.
func (o *oracle) tick(n int) (bool, int, bool) {
	if !o.active {
		return false, 0, false
	}
	if o.count > 0 {
		o.count--
		return false, 0, false
	}
	o.active = false
	k := o.partial
	if k > n-1 {
		k = n - 1
	}
	if k < 0 {
		k = 0
	}
	return true, k, o.short
}

var errInjected = status.Error(codes.Unavailable, "injected failure")

type env struct {
	ss     int
	events []string
	muted  bool
	fw     oracle
	fr     oracle
	fh     oracle
	failed int
}

func (e *env) log(s string) {
	if !e.muted {
		e.events = append(e.events, s)
	}
}

type fakeDevice struct {
	e    *env
	data []byte
}

func (d *fakeDevice) ReadAt(p []byte, off int64) (int, error) {
	s, o := int(off)/d.e.ss, int(off)%d.e.ss
	if off < 0 || int(off)+len(p) > len(d.data) {
		d.e.log(g.App("EvDevRead", g.Nat(s), g.Nat(o), g.Nat(len(p)), g.Nat(0), "false"))
		return 0, status.Error(codes.OutOfRange, "device read out of range")
	}
	if fail, k, short := d.e.fr.tick(len(p)); fail {
		copy(p[:k], d.data[off:])
		d.e.failed++
		d.e.log(g.App("EvDevRead", g.Nat(s), g.Nat(o), g.Nat(len(p)), g.Nat(k), "false"))
		if short {
			return k, nil
		}
		return k, errInjected
	}
	copy(p, d.data[off:])
	d.e.log(g.App("EvDevRead", g.Nat(s), g.Nat(o), g.Nat(len(p)), g.Nat(len(p)), "true"))
	return len(p), nil
}

func (d *fakeDevice) WriteAt(p []byte, off int64) (int, error) {
	s, o := int(off)/d.e.ss, int(off)%d.e.ss
	if off < 0 || int(off)+len(p) > len(d.data) {
		d.e.log(g.App("EvDevWrite", g.Nat(s), g.Nat(o), g.Nat(len(p)), g.Nat(0), "false"))
		return 0, status.Error(codes.OutOfRange, "device write out of range")
	}
	if fail, k, _ := d.e.fw.tick(len(p)); fail {
		copy(d.data[off:], p[:k])
		d.e.failed++
		d.e.log(g.App("EvDevWrite", g.Nat(s), g.Nat(o), g.Nat(len(p)), g.Nat(k), "false"))
		return k, errInjected
	}
	copy(d.data[off:], p)
	d.e.log(g.App("EvDevWrite", g.Nat(s), g.Nat(o), g.Nat(len(p)), g.Nat(len(p)), "true"))
	return len(p), nil
}

func (d *fakeDevice) Sync() error  { return nil }
func (d *fakeDevice) Close() error { return nil }

// fakeHole is a byte prefix followed by null bytes; [0, len) is data.
type fakeHole struct {
	e    *env
	data []byte
}

func (h *fakeHole) ReadAt(p []byte, off int64) (int, error) {
	fill := func(q []byte) {
		for i := range q {
			if x := off + int64(i); x >= 0 && x < int64(len(h.data)) {
				q[i] = h.data[x]
			} else {
				q[i] = 0
			}
		}
	}
	if fail, k, short := h.e.fh.tick(len(p)); fail {
		fill(p[:k])
		h.e.failed++
		h.e.log(g.App("EvHole", "HRead", g.N(uint64(off)), g.Nat(len(p)), "false"))
		if short {
			return k, nil
		}
		return k, errInjected
	}
	fill(p)
	h.e.log(g.App("EvHole", "HRead", g.N(uint64(off)), g.Nat(len(p)), "true"))
	return len(p), nil
}

func (h *fakeHole) call(kind string, off int64) bool {
	if fail, _, _ := h.e.fh.tick(1); fail {
		h.e.failed++
		h.e.log(g.App("EvHole", kind, g.N(uint64(off)), g.Nat(0), "false"))
		return false
	}
	h.e.log(g.App("EvHole", kind, g.N(uint64(off)), g.Nat(0), "true"))
	return true
}

func (h *fakeHole) Close() error {
	if !h.call("HClose", 0) {
		return errInjected
	}
	return nil
}

func (h *fakeHole) Truncate(size int64) error {
	if !h.call("HTrunc", size) {
		return errInjected
	}
	if size < int64(len(h.data)) {
		h.data = h.data[:size]
	}
	return nil
}

func (h *fakeHole) GetNextRegionOffset(off int64, regionType filesystem.RegionType) (int64, error) {
	if !h.call("HSeek", off) {
		return 0, errInjected
	}
	if off >= int64(len(h.data)) {
		return 0, io.EOF
	}
	if regionType == filesystem.Data {
		return off, nil
	}
	return int64(len(h.data)), nil
}

// recAllocator records every call made on the real allocator.
type recAllocator struct {
	e    *env
	base pool.SectorAllocator
}

func (a *recAllocator) AllocateContiguous(maximum int) (uint32, int, error) {
	first, n, err := a.base.AllocateContiguous(maximum)
	if err != nil {
		a.e.log(g.App("EvAllocFail", g.Nat(maximum)))
	} else {
		a.e.log(g.App("EvAlloc", g.Nat(maximum), g.Nat(int(first)), g.Nat(n)))
	}
	return first, n, err
}

func (a *recAllocator) FreeContiguous(first uint32, count int) {
	a.e.log(g.App("EvFreeContig", g.Nat(int(first)), g.Nat(count)))
	a.base.FreeContiguous(first, count)
}

func (a *recAllocator) FreeList(sectors []uint32) {
	var l []string
	for _, s := range sectors {
		l = append(l, g.Nat(int(s)))
	}
	a.e.log(g.App("EvFreeList", g.List(l)))
	a.base.FreeList(sectors)
}

// failPool is the base pool seen by the quota layer; NewFile fails on demand.
type failPool struct {
	e        *env
	base     pool.FilePool
	failNext bool
}

func (p *failPool) NewFile(holeSource pool.HoleSource, size uint64) (filesystem.FileReadWriter, error) {
	if p.failNext {
		p.failNext = false
		p.e.failed++
		p.e.log(g.App("EvBaseNew", "false"))
		return nil, errInjected
	}
	p.e.log(g.App("EvBaseNew", "true"))
	return p.base.NewFile(holeSource, size)
}

// ---- encoding -------------------------------------------------------------

func bytesTerm(b []byte) (string, error) {
	var sb strings.Builder
	for _, c := range b {
		switch {
		case c == 0:
			sb.WriteByte('.')
		case c == '.' || c == '"' || c < 33 || c > 126:
			return "", fmt.Errorf("byte %d cannot be encoded", c)
		default:
			sb.WriteByte(c)
		}
	}
	return g.App("bs", g.Str(sb.String())), nil
}

func errKind(err error) (string, error) {
	if err == nil {
		return "ENone", nil
	}
	if err == io.EOF {
		return "EEOF", nil
	}
	switch status.Code(err) {
	case codes.InvalidArgument:
		return "EInvalid", nil
	case codes.ResourceExhausted:
		return "EExhausted", nil
	case codes.Internal:
		return "EInternal", nil
	case codes.Unavailable:
		return "EInjected", nil
	}
	return "", fmt.Errorf("unexpected error: %v", err)
}

func orcTerm(v []int) string {
	if len(v) < 2 {
		return "None"
	}
	short := len(v) >= 3 && v[2] != 0
	return g.Some(fmt.Sprintf("(%s, %s, %s)", g.Nat(v[0]), g.Nat(v[1]), g.Bool(short)))
}

// ---- generation -----------------------------------------------------------

type area struct{}

func (area) Requires() string {
	return "From VF Require Import Common.Verdict Pool.Model Pool.Spec Pool.Corr."
}
func (area) Check() string { return "check_case" }
func (area) Rule() string {
	return "histories of 30-80 operations (newfile with hole source prefix <= size, write, read, truncate, region seek, close, direct allocator calls) on <=5 file slots over a device of 1-200 sectors of 16-128 bytes behind the real bitmap allocator and quota layer (file count 1-8, byte quota tight or unbounded); ~10% of operations carry a failure of the k-th device write/read, hole source call or of the base pool; each history ends with close-everything-then-reallocate-full-capacity; non-trivial = at least one fragmented or failed allocation, one operation that returned an injected/exhaustion/quota error and two files open at once; distinct by hash of the case term"
}

const letters = "abcdefghijklmnopqrstuvwxyzABCDEFGHIJKLMNOPQRSTUVWXYZ0123456789"

func genData(r *rng.R, n int) string {
	b := make([]byte, n)
	for i := range b {
		b[i] = letters[r.Intn(len(letters))]
	}
	return string(b)
}

func pick(r *rng.R, v ...int) int { return v[r.Intn(len(v))] }

func (area) Generate(r *rng.R, thorough bool, index int) json.RawMessage {
	var h history
	h.SS = pick(r, 16, 16, 17, 24, 32, 32, 64, 100, 128, 16+r.Intn(113))
	switch x := r.Intn(10); {
	case x < 3:
		h.NSec = 1 + r.Intn(8)
	case x < 7:
		h.NSec = 9 + r.Intn(32)
	case x < 9:
		h.NSec = 41 + r.Intn(100)
	default:
		h.NSec = 120 + r.Intn(81)
	}
	switch x := r.Intn(4); {
	case x < 2:
		h.MaxFiles = uint64(6 + r.Intn(3))
	case x == 2:
		h.MaxFiles = uint64(1 + r.Intn(5))
	default:
		h.MaxFiles = 6
	}
	capBytes := h.NSec * h.SS
	if r.Chance(40) {
		h.MaxBytes = 1 << 40
	} else {
		h.MaxBytes = uint64(capBytes*(30+r.Intn(120))/100 + r.Intn(h.SS))
	}
	n := 30 + r.Intn(51)
	if thorough {
		n = 60 + r.Intn(180)
	}
	// Approximate view of the pool, to keep operations meaningful.
	open := make([]bool, nslots)
	size := make([]int64, nslots)
	offset := func(s int) int64 {
		ss := int64(h.SS)
		maxSec := size[s]/ss + 2
		if r.Chance(10) {
			maxSec += int64(r.Intn(60))
		}
		sec := int64(r.Intn(int(maxSec) + 1))
		within := int64(pick(r, 0, 0, 1, h.SS-1, h.SS/2, r.Intn(h.SS)))
		if r.Chance(15) {
			return size[s] + int64(pick(r, -1, 0, 0, 1, 2))*int64(r.Intn(2*h.SS)+1)/2
		}
		return sec*ss + within
	}
	length := func() int {
		switch x := r.Intn(20); {
		case x == 0:
			return 0
		case x < 8:
			return 1 + r.Intn(h.SS)
		case x < 16:
			return 1 + r.Intn(3*h.SS)
		default:
			return 1 + r.Intn(10*h.SS)
		}
	}
	for i := 0; i < n; i++ {
		var o op
		var openSlots, freeSlots []int
		for s := 0; s < nslots; s++ {
			if open[s] {
				openSlots = append(openSlots, s)
			} else {
				freeSlots = append(freeSlots, s)
			}
		}
		x := r.Intn(100)
		if len(openSlots) == 0 && x >= 20 {
			x = 0
		}
		if len(openSlots) > 0 {
			o.Slot = openSlots[r.Intn(len(openSlots))]
			if r.Chance(2) {
				o.Slot = r.Intn(nslots + 1)
			}
		}
		switch {
		case x < 12:
			o.K = "new"
			if len(freeSlots) > 0 && !r.Chance(3) {
				o.Slot = freeSlots[r.Intn(len(freeSlots))]
			}
			if r.Chance(50) {
				o.Size = uint64(r.Intn(4*h.SS + 1))
				if r.Chance(60) {
					o.Data = genData(r, r.Intn(int(o.Size)+1))
				}
			}
			o.FB = r.Chance(12)
			if !o.FB && o.Slot < nslots {
				open[o.Slot], size[o.Slot] = true, int64(o.Size)
			}
		case x < 47:
			o.K = "write"
			o.Off = offset(o.Slot % nslots)
			o.Data = genData(r, length())
			if r.Chance(1) {
				o.Off = -1 - int64(r.Intn(5))
			}
			if e := o.Off + int64(len(o.Data)); o.Slot < nslots && len(o.Data) > 0 && e > size[o.Slot] {
				size[o.Slot] = e
			}
		case x < 67:
			o.K = "read"
			o.Off = offset(o.Slot % nslots)
			o.Len = length()
			if r.Chance(25) {
				o.Off, o.Len = 0, 4096
			}
			if r.Chance(1) {
				o.Off = -1 - int64(r.Intn(5))
			}
		case x < 78:
			o.K = "trunc"
			o.Off = offset(o.Slot % nslots)
			if r.Chance(30) {
				o.Off = size[o.Slot%nslots] * int64(r.Intn(100)) / 100
			}
			if r.Chance(1) {
				o.Off = -1 - int64(r.Intn(5))
			}
			if o.Off >= 0 && o.Slot < nslots {
				size[o.Slot] = o.Off
			}
		case x < 86:
			o.K = "seek"
			o.Off = offset(o.Slot % nslots)
			o.IsD = r.Chance(50)
			if r.Chance(1) {
				o.Off = -1 - int64(r.Intn(5))
			}
		case x < 92:
			o.K = "close"
			if o.Slot < nslots {
				open[o.Slot] = false
				size[o.Slot] = 0
			}
		case x < 96:
			o.K = "rawalloc"
			o.Len = pick(r, 1, 2, 3, 1+r.Intn(8), 1+r.Intn(70), 1+r.Intn(200), 64, 65, 128)
			if r.Chance(2) {
				o.Len = 0
			}
		default:
			o.K = "rawfree"
			o.Len = r.Intn(8)
			o.AsL = r.Chance(40)
		}
		if r.Chance(12) {
			switch r.Intn(3) {
			case 0:
				o.FW = []int{r.Intn(4), pick(r, 0, 0, 1, r.Intn(h.SS), r.Intn(3*h.SS))}
			case 1:
				o.FR = []int{r.Intn(3), pick(r, 0, 0, 1, r.Intn(h.SS), r.Intn(3*h.SS)), pick(r, 0, 0, 0, 1)}
			default:
				o.FH = []int{r.Intn(3), pick(r, 0, 0, 1, r.Intn(h.SS)), pick(r, 0, 0, 0, 1)}
			}
		}
		h.Ops = append(h.Ops, o)
	}
	h.Ops = append(h.Ops, op{K: "final"})
	data, _ := json.Marshal(h)
	return data
}

// ---- execution ------------------------------------------------------------

type runner struct {
	h     history
	e     *env
	dev   *fakeDevice
	alloc *recAllocator
	fpool *failPool
	qpool pool.FilePool
	files [nslots]filesystem.FileReadWriter
	raw   [][2]int
}

func newRunner(h history) *runner {
	e := &env{ss: h.SS}
	dev := &fakeDevice{e: e, data: []byte(strings.Repeat(string(rune(poison)), h.SS*h.NSec))}
	alloc := &recAllocator{e: e, base: pool.NewBitmapSectorAllocator(uint32(h.NSec))}
	fpool := &failPool{e: e, base: pool.NewBlockDeviceBackedFilePool(dev, alloc, h.SS)}
	return &runner{h: h, e: e, dev: dev, alloc: alloc, fpool: fpool,
		qpool: pool.NewQuotaEnforcingFilePool(fpool, h.MaxFiles, h.MaxBytes)}
}

func optN(v uint64, ok bool) string {
	if !ok {
		return "None"
	}
	return g.Some(g.N(v))
}

// observe returns the obs term: Len of every slot and the quota available.
func (r *runner) observe() (string, error) {
	r.e.muted = true
	defer func() { r.e.muted = false }()
	var lens []string
	for _, f := range r.files {
		if f == nil {
			lens = append(lens, "None")
			continue
		}
		l, err := f.Len()
		if err != nil {
			return "", err
		}
		lens = append(lens, g.Some(g.N(uint64(l))))
	}
	// Files remaining: create empty files until refused.
	var probes []filesystem.FileReadWriter
	limit := int(r.h.MaxFiles) + 8
	for len(probes) < limit {
		f, err := r.qpool.NewFile(pool.ZeroHoleSource, 0)
		if err != nil {
			break
		}
		probes = append(probes, f)
	}
	remf := len(probes)
	for _, f := range probes {
		f.Close()
	}
	remb, known := uint64(0), false
	if remf > 0 {
		try := func(k uint64) bool {
			f, err := r.qpool.NewFile(pool.ZeroHoleSource, k)
			if err != nil {
				return false
			}
			f.Close()
			return true
		}
		lo, hi := uint64(0), 2*r.h.MaxBytes+(1<<20)
		for lo < hi { // largest k in [lo, hi] with try(k)
			mid := lo + (hi-lo+1)/2
			if try(mid) {
				lo = mid
			} else {
				hi = mid - 1
			}
		}
		remb, known = lo, true
	}
	return g.App("mkObs", g.List(lens), g.N(uint64(remf)), optN(remb, known)), nil
}

func res(n int64, e string, data string) string {
	if data == "" {
		data = "[]"
	}
	return g.App("ORes", g.Z(n), e, data)
}

// exec runs one operation; returns (op kind term, out term).
func (r *runner) exec(o op, info *hcommon.Info) (kterm, out string, err error) {
	slotOK := o.Slot >= 0 && o.Slot < nslots
	var f filesystem.FileReadWriter
	if slotOK {
		f = r.files[o.Slot]
	}
	out = "OSkip"
	ek := "ENone"
	switch o.K {
	case "new":
		hb, herr := bytesTerm([]byte(o.Data))
		if herr != nil {
			return "", "", herr
		}
		kterm = g.App("KNew", g.Nat(o.Slot), hb, g.N(o.Size), g.Bool(o.FB))
		if slotOK && f == nil {
			r.fpool.failNext = o.FB
			nf, e := r.qpool.NewFile(&fakeHole{e: r.e, data: []byte(o.Data)}, o.Size)
			r.fpool.failNext = false
			if ek, err = errKind(e); err != nil {
				return
			}
			if e == nil {
				r.files[o.Slot] = nf
			}
			out = res(0, ek, "")
		}
	case "read":
		kterm = g.App("KRead", g.Nat(o.Slot), g.Z(o.Off), g.Nat(o.Len))
		if f != nil {
			buf := make([]byte, o.Len)
			n, e := f.ReadAt(buf, o.Off)
			if ek, err = errKind(e); err != nil {
				return
			}
			var d string
			if d, err = bytesTerm(buf[:n]); err != nil {
				return
			}
			out = res(int64(n), ek, d)
		}
	case "write":
		db, derr := bytesTerm([]byte(o.Data))
		if derr != nil {
			return "", "", derr
		}
		kterm = g.App("KWrite", g.Nat(o.Slot), g.Z(o.Off), db)
		if f != nil {
			n, e := f.WriteAt([]byte(o.Data), o.Off)
			if ek, err = errKind(e); err != nil {
				return
			}
			out = res(int64(n), ek, "")
		}
	case "trunc":
		kterm = g.App("KTrunc", g.Nat(o.Slot), g.Z(o.Off))
		if f != nil {
			e := f.Truncate(o.Off)
			if ek, err = errKind(e); err != nil {
				return
			}
			out = res(0, ek, "")
		}
	case "seek":
		kterm = g.App("KSeek", g.Nat(o.Slot), g.Z(o.Off), g.Bool(o.IsD))
		if f != nil {
			rt := filesystem.Hole
			if o.IsD {
				rt = filesystem.Data
			}
			n, e := f.GetNextRegionOffset(o.Off, rt)
			if ek, err = errKind(e); err != nil {
				return
			}
			out = res(n, ek, "")
		}
	case "close":
		kterm = g.App("KClose", g.Nat(o.Slot))
		if f != nil {
			e := f.Close()
			r.files[o.Slot] = nil
			if ek, err = errKind(e); err != nil {
				return
			}
			out = res(0, ek, "")
		}
	case "rawalloc":
		kterm = g.App("KRawAlloc", g.Nat(o.Len))
		if o.Len > 0 {
			first, n, e := r.alloc.AllocateContiguous(o.Len)
			if ek, err = errKind(e); err != nil {
				return
			}
			if e == nil {
				r.raw = append(r.raw, [2]int{int(first), n})
			}
			out = res(int64(n), ek, "")
		}
	case "rawfree":
		kterm = g.App("KRawFree", g.Nat(o.Len), g.Bool(o.AsL))
		if len(r.raw) > 0 {
			i := o.Len % len(r.raw)
			run := r.raw[i]
			r.raw = append(append([][2]int{}, r.raw[:i]...), r.raw[i+1:]...)
			if o.AsL {
				var l []uint32
				for s := 0; s < run[1]; s++ {
					l = append(l, uint32(run[0]+s))
				}
				r.alloc.FreeList(l)
			} else {
				r.alloc.FreeContiguous(uint32(run[0]), run[1])
			}
			out = res(0, "ENone", "")
		}
	case "final":
		kterm = "KFinal"
		for i, f := range r.files {
			if f != nil {
				f.Close()
				r.files[i] = nil
			}
		}
		for _, run := range r.raw {
			r.alloc.FreeContiguous(uint32(run[0]), run[1])
		}
		r.raw = nil
		maxReq := r.h.NSec
		if maxReq < 1 {
			maxReq = 1
		}
		var runs [][2]int
		total := 0
		for i := 0; i < r.h.NSec+1; i++ {
			first, n, e := r.alloc.AllocateContiguous(maxReq)
			if e != nil {
				break
			}
			runs = append(runs, [2]int{int(first), n})
			total += n
		}
		for _, run := range runs {
			r.alloc.FreeContiguous(uint32(run[0]), run[1])
		}
		out = res(int64(total), "ENone", "")
	default:
		return "", "", fmt.Errorf("unknown op %q", o.K)
	}
	if out != "OSkip" && ek != "ENone" && ek != "EEOF" {
		info.Extra["error_ops"]++
	}
	info.Outs[o.K+":"+map[bool]string{true: "skip", false: ek}[out == "OSkip"]]++
	return
}

func (area) Execute(raw json.RawMessage) (term string, info *hcommon.Info, err error) {
	var h history
	if err := json.Unmarshal(raw, &h); err != nil {
		return "", nil, err
	}
	if h.SS < 1 || h.NSec < 0 || h.NSec > 100000 {
		return "", nil, fmt.Errorf("bad configuration")
	}
	info = hcommon.NewInfo()
	r := newRunner(h)
	var steps []string
	fragmented, errors, twoOpen := false, false, false
	for _, o := range h.Ops {
		info.Events++
		info.Ops[o.K]++
		r.e.events = nil
		r.e.fw.set(o.FW)
		r.e.fr.set(o.FR)
		r.e.fh.set(o.FH)
		var kterm, out string
		panicked := false
		func() {
			defer func() {
				if rec := recover(); rec != nil {
					panicked = true
					info.Outs["panic"]++
				}
			}()
			kterm, out, err = r.exec(o, info)
		}()
		if err != nil {
			return "", nil, err
		}
		r.e.fw.set(nil)
		r.e.fr.set(nil)
		r.e.fh.set(nil)
		if panicked {
			// The operation term is needed even though exec did not return.
			saved := r.e.events
			kterm = kindTerm(o)
			out = "OPanic"
			r.e.events = saved
		}
		for _, ev := range r.e.events {
			if strings.HasPrefix(ev, "(EvAllocFail") {
				fragmented = true
			}
			if strings.HasPrefix(ev, "(EvAlloc ") {
				var mx, first, n int
				fmt.Sscanf(ev, "(EvAlloc %d%%nat %d%%nat %d%%nat)", &mx, &first, &n)
				if n < mx {
					fragmented = true
				}
			}
		}
		if info.Extra["error_ops"] > 0 {
			errors = true
		}
		nOpen := 0
		for _, f := range r.files {
			if f != nil {
				nOpen++
			}
		}
		if nOpen >= 2 {
			twoOpen = true
		}
		if nOpen > info.Extra["max_open_files"] {
			info.Extra["max_open_files"] = nOpen
		}
		evs := g.List(r.e.events)
		obsTerm := "(mkObs [] 0%N None)"
		if !panicked {
			if obsTerm, err = r.observe(); err != nil {
				return "", nil, err
			}
		}
		opTerm := g.App("mkOp", kterm, orcTerm(o.FW), orcTerm(o.FR), orcTerm(o.FH))
		steps = append(steps, g.App("mkT", opTerm, out, evs, obsTerm))
		if panicked {
			break
		}
	}
	info.Nontrivial = fragmented && errors && twoOpen
	cfg := g.App("mkCfg", g.Nat(h.SS), g.Nat(h.NSec), g.N(h.MaxFiles), g.N(h.MaxBytes))
	return g.App("mkCase", cfg, g.List(steps)), info, nil
}

// kindTerm rebuilds the operation term without executing it.
func kindTerm(o op) string {
	b := func(s string) string { t, _ := bytesTerm([]byte(s)); return t }
	switch o.K {
	case "new":
		return g.App("KNew", g.Nat(o.Slot), b(o.Data), g.N(o.Size), g.Bool(o.FB))
	case "read":
		return g.App("KRead", g.Nat(o.Slot), g.Z(o.Off), g.Nat(o.Len))
	case "write":
		return g.App("KWrite", g.Nat(o.Slot), g.Z(o.Off), b(o.Data))
	case "trunc":
		return g.App("KTrunc", g.Nat(o.Slot), g.Z(o.Off))
	case "seek":
		return g.App("KSeek", g.Nat(o.Slot), g.Z(o.Off), g.Bool(o.IsD))
	case "close":
		return g.App("KClose", g.Nat(o.Slot))
	case "rawalloc":
		return g.App("KRawAlloc", g.Nat(o.Len))
	case "rawfree":
		return g.App("KRawFree", g.Nat(o.Len), g.Bool(o.AsL))
	}
	return "KFinal"
}

func main() { hcommon.Main(area{}) }
