package main

import (
	"bytes"
	"runtime"
	"strconv"
	"time"
)

// curGID returns the id of the calling goroutine.
func curGID() uint64 {
	var buf [64]byte
	n := runtime.Stack(buf[:], false)
	// "goroutine 123 [running]:"
	f := bytes.Fields(buf[:n])
	if len(f) < 2 {
		return 0
	}
	id, _ := strconv.ParseUint(string(f[1]), 10, 64)
	return id
}

// gstate returns the scheduler state of goroutine gid as printed by
// runtime.Stack ("chan receive", "chan send", "select", "runnable", ...),
// or "" if the goroutine no longer exists.
func gstate(gid uint64) string {
	buf := make([]byte, 1<<16)
	for {
		n := runtime.Stack(buf, true)
		if n < len(buf) {
			buf = buf[:n]
			break
		}
		buf = make([]byte, 2*len(buf))
	}
	needle := []byte("goroutine " + strconv.FormatUint(gid, 10) + " [")
	for _, line := range bytes.Split(buf, []byte("\n")) {
		if bytes.HasPrefix(line, needle) {
			rest := line[len(needle):]
			if i := bytes.IndexByte(rest, ']'); i >= 0 {
				rest = rest[:i]
			}
			if i := bytes.IndexByte(rest, ','); i >= 0 {
				rest = rest[:i]
			}
			return string(rest)
		}
	}
	return ""
}

// waitState polls until pred(state of gid) holds or the deadline passes.
// It yields the processor between polls and never sleeps for long.
func waitState(gid uint64, d time.Duration, pred func(string) bool) (string, bool) {
	deadline := time.Now().Add(d)
	for i := 0; ; i++ {
		st := gstate(gid)
		if pred(st) {
			return st, true
		}
		if time.Now().After(deadline) {
			return st, false
		}
		if i < 50 {
			runtime.Gosched()
		} else {
			time.Sleep(50 * time.Microsecond)
		}
	}
}
