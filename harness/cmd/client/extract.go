package main

import (
	"fmt"
	"go/ast"
	"go/parser"
	"go/token"
	"reflect"
	"runtime"
	"strconv"
	"time"

	"github.com/buildbarn/bb-remote-execution/pkg/builder"
)

// Constants of build_client.go the model depends on, read from the source
// file this binary was compiled from: the grace period added in
// touchSchedulerMayThinkExecuting and the capacity of the update channel
// made in startExecution.

func sourceOfBuildClient() string {
	pc := reflect.ValueOf(builder.NewBuildClient).Pointer()
	f := runtime.FuncForPC(pc)
	if f == nil {
		return ""
	}
	file, _ := f.FileLine(pc)
	return file
}

var timeUnits = map[string]time.Duration{
	"Nanosecond": time.Nanosecond, "Microsecond": time.Microsecond, "Millisecond": time.Millisecond,
	"Second": time.Second, "Minute": time.Minute, "Hour": time.Hour,
}

func evalInt(e ast.Expr) (int64, error) {
	switch x := e.(type) {
	case *ast.BasicLit:
		if x.Kind == token.INT {
			v, err := strconv.ParseInt(x.Value, 0, 64)
			return v, err
		}
	case *ast.ParenExpr:
		return evalInt(x.X)
	case *ast.SelectorExpr:
		if id, ok := x.X.(*ast.Ident); ok && id.Name == "time" {
			if u, ok := timeUnits[x.Sel.Name]; ok {
				return int64(u), nil
			}
		}
	case *ast.BinaryExpr:
		a, err := evalInt(x.X)
		if err != nil {
			return 0, err
		}
		b, err := evalInt(x.Y)
		if err != nil {
			return 0, err
		}
		switch x.Op {
		case token.MUL:
			return a * b, nil
		case token.ADD:
			return a + b, nil
		case token.SUB:
			return a - b, nil
		case token.QUO:
			if b != 0 {
				return a / b, nil
			}
		}
	case *ast.CallExpr:
		// time.Duration(n)
		if len(x.Args) == 1 {
			return evalInt(x.Args[0])
		}
	}
	return 0, fmt.Errorf("cannot evaluate constant expression")
}

// extractConstants returns (grace in ms, channel capacity); -1 / 0 when the
// shape of the source is not the one the model was written against.
func extractConstants() (int64, int) {
	grace, capacity := int64(-1), 0
	file := sourceOfBuildClient()
	if file == "" {
		return grace, capacity
	}
	fset := token.NewFileSet()
	f, err := parser.ParseFile(fset, file, nil, 0)
	if err != nil {
		return grace, capacity
	}
	for _, d := range f.Decls {
		fd, ok := d.(*ast.FuncDecl)
		if !ok || fd.Body == nil {
			continue
		}
		switch fd.Name.Name {
		case "touchSchedulerMayThinkExecuting":
			ast.Inspect(fd.Body, func(n ast.Node) bool {
				if c, ok := n.(*ast.CallExpr); ok {
					if s, ok := c.Fun.(*ast.SelectorExpr); ok && s.Sel.Name == "Add" && len(c.Args) == 1 {
						if v, err := evalInt(c.Args[0]); err == nil && v%int64(time.Millisecond) == 0 {
							grace = v / int64(time.Millisecond)
						}
					}
				}
				return true
			})
		case "startExecution":
			ast.Inspect(fd.Body, func(n ast.Node) bool {
				if c, ok := n.(*ast.CallExpr); ok {
					if id, ok := c.Fun.(*ast.Ident); ok && id.Name == "make" && len(c.Args) >= 1 {
						if _, isChan := c.Args[0].(*ast.ChanType); isChan {
							capacity = 0
							if len(c.Args) == 2 {
								if v, err := evalInt(c.Args[1]); err == nil {
									capacity = int(v)
								}
							}
						}
					}
				}
				return true
			})
		}
	}
	return grace, capacity
}
