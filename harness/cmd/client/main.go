// Harness for C08: drives the real builder.BuildClient with a scripted
// scheduler (remoteworker.OperationQueueClient), a controllable
// BuildExecutor whose goroutine only moves when told to, a fake clock and a
// scripted readiness check.  Every blocking point of Run is a fake under the
// harness' control, so the interleaving of Run with the executor goroutine
// is replayed deterministically:
//
//   - clock.NewTimer (called right before Run's select on timer/updates) runs
//     the executor steps scheduled "during the select" and then hands back a
//     timer that has fired iff the update channel is still empty;
//   - Synchronize records the request, runs the executor steps scheduled
//     "while the RPC is in flight" and returns the scripted reply;
//   - when the executor sees ctx.Done() it reports that and waits; the harness
//     lets it finish only once the goroutine running Run is parked in the
//     channel receive of stopExecution (or has, wrongly, already returned).
//
// Shutdown (cancellation of the context passed to Run) begins either between
// two Runs (op "shutdown") or in the middle of a Run, between Run's two
// readings of ctx.Err() (run option "late"): inside CheckReadiness, or inside
// clock.NewTimer, i.e. while Run sleeps in its select.
package main

import (
	"context"
	"encoding/json"
	"fmt"
	"runtime"
	"strconv"
	"strings"
	"sync"
	"sync/atomic"
	"time"

	remoteexecution "github.com/bazelbuild/remote-apis/build/bazel/remote/execution/v2"
	"github.com/buildbarn/bb-remote-execution/pkg/builder"
	"github.com/buildbarn/bb-remote-execution/pkg/filesystem/access"
	"github.com/buildbarn/bb-remote-execution/pkg/filesystem/pool"
	"github.com/buildbarn/bb-remote-execution/pkg/proto/remoteworker"
	"github.com/buildbarn/bb-storage/pkg/clock"
	"github.com/buildbarn/bb-storage/pkg/digest"

	"google.golang.org/grpc"
	"google.golang.org/grpc/codes"
	"google.golang.org/grpc/status"
	"google.golang.org/protobuf/types/known/emptypb"
	"google.golang.org/protobuf/types/known/timestamppb"

	g "verif/harness/internal/gallina"
	"verif/harness/internal/hcommon"
	"verif/harness/internal/rng"
)

// ---- history format ----------------------------------------------------------

type xop struct {
	K   string `json:"k"` // upd | fin
	N   uint64 `json:"n,omitempty"`
	Ok  bool   `json:"ok,omitempty"`
	Tag uint64 `json:"tag,omitempty"`
}

type replyOp struct {
	K     string `json:"k"` // none | idle | exec | execbad | unknown | err
	Ts    int64  `json:"ts"`
	BadTs int    `json:"badts,omitempty"` // 1: nil timestamp, 2: out of range
	D     uint64 `json:"d,omitempty"`
	Bad   int    `json:"bad,omitempty"` // execbad: 0 instance name, 1 digest function
}

type op struct {
	K string `json:"k"` // run | upd | fin | shutdown
	// run
	Now      int64    `json:"now,omitempty"`
	Ready    bool     `json:"ready,omitempty"`
	Sel      []xop    `json:"sel,omitempty"`
	Sync     []xop    `json:"sync,omitempty"`
	Reply    *replyOp `json:"reply,omitempty"`
	OnCancel int      `json:"oncancel,omitempty"`
	// Cancel Run's context in the middle of this Run (no effect if it is
	// already cancelled): "ready" = while CheckReadiness is running, "select"
	// = while Run sleeps in the select on timer/updates, "any" = at whichever
	// of the two comes first.  Only has an effect if Run gets there.
	Late string `json:"late,omitempty"`
	// upd / fin
	N   uint64 `json:"n,omitempty"`
	Ok  bool   `json:"ok,omitempty"`
	Tag uint64 `json:"tag,omitempty"`
}

type history struct {
	T0  int64 `json:"t0"`
	Ops []op  `json:"ops"`
}

type area struct{}

func (area) Requires() string {
	return "From Coq Require Import ZArith NArith List.\nFrom VF Require Import Common.Verdict Client.Model Client.Spec Client.Corr.\nOpen Scope Z_scope."
}
func (area) Check() string { return "check_case" }
func (area) Rule() string {
	return "histories of 10-40 BuildClient.Run iterations (quick) interleaved with executor steps (progress update / finish) between Runs, during Run's select and during the Synchronize RPC; shutdown begins between two Runs or in the middle of a Run (scripted for 55% of the shutdowns, effective for about 40%: context cancelled inside CheckReadiness / inside the select on timer and updates / whichever comes first, scripted on up to 3 consecutive Runs and followed by a between-Runs shutdown so that it always begins; the case term records whether the cancellation really happened before Synchronize was called); scheduler replies execute(digest 0..3)/idle/no-change/RPC error/invalid timestamp/invalid execute request/unknown desired state; readiness failures 12%; clock advancing 0-30 s per Run with jumps past the one-minute grace and backwards; bursts of 9-13 updates to fill the 10-slot channel; in 12% of the gaps between Runs 1-3 progress updates followed by finish (Completed and close of the channel), so that the next Run finds updates, the Completed and the close queued at once; shutdown near the end in 70% of histories; 35% of histories end with an accepted idle reply, a delivered-but-locally-rejected reply (invalid timestamp / unknown desired state / invalid execute request), then shutdown (60%) and 1-3 further iterations; non-trivial = at least one executor started, one executor stopped or completed, one failing reply or readiness failure; distinct by hash of the case term"
}

// ---- generator ----------------------------------------------------------------

func genX(r *rng.R) xop {
	if r.Chance(30) {
		return xop{K: "fin", Ok: r.Chance(55), Tag: uint64(1 + r.Intn(50))}
	}
	return xop{K: "upd", N: uint64(r.Intn(3))}
}

func (area) Generate(r *rng.R, thorough bool, index int) json.RawMessage {
	runs := 10 + r.Intn(31)
	if thorough {
		runs = 20 + r.Intn(100)
	}
	h := history{T0: int64(r.Intn(100000))}
	now := h.T0
	shutdownAt := -1
	if r.Chance(70) {
		shutdownAt = runs - 1 - r.Intn(8)
	}
	// About 40% of the shutdowns begin in the middle of a Run (the option is
	// scripted for 55% of them and takes effect in about 7 of 10): it is put on
	// up to three consecutive Runs (the first one that reaches the scripted
	// point cancels), and a between-Runs shutdown follows in any case.
	lateFrom, lateTo, lateKind := -1, -1, ""
	if shutdownAt >= 0 && r.Chance(55) {
		lateFrom, lateTo = shutdownAt, shutdownAt+r.Intn(3)
		lateKind = []string{"ready", "select", "any"}[r.Intn(3)]
		shutdownAt = lateTo + 1
	}
	for i := 0; i < runs; i++ {
		if i == shutdownAt {
			h.Ops = append(h.Ops, op{K: "shutdown"})
		}
		// executor steps between Runs
		switch x := r.Intn(100); {
		case x < 8:
			for j, n := 0, 9+r.Intn(5); j < n; j++ {
				h.Ops = append(h.Ops, op{K: "upd", N: uint64(r.Intn(3))})
			}
		case x < 20:
			// The action finishes between two Runs: progress update(s), the
			// Completed and the close of the channel are all queued when the
			// next Run reaches its select.
			for j, n := 0, 1+r.Intn(3); j < n; j++ {
				h.Ops = append(h.Ops, op{K: "upd", N: uint64(r.Intn(3))})
			}
			h.Ops = append(h.Ops, op{K: "fin", Ok: r.Chance(55), Tag: uint64(1 + r.Intn(50))})
		case x < 50:
			for j, n := 0, 1+r.Intn(3); j < n; j++ {
				e := genX(r)
				h.Ops = append(h.Ops, op{K: e.K, N: e.N, Ok: e.Ok, Tag: e.Tag})
			}
		}
		// clock
		switch x := r.Intn(100); {
		case x < 10:
			now += 61000 + int64(r.Intn(70000))
		case x < 15:
			now -= int64(r.Intn(5000))
		case x < 25:
		default:
			now += int64(r.Intn(30000))
		}
		o := op{K: "run", Now: now, Ready: !r.Chance(12), OnCancel: r.Intn(4)}
		if i >= lateFrom && i <= lateTo {
			o.Late = lateKind
		}
		if r.Chance(40) {
			for j, n := 0, 1+r.Intn(3); j < n; j++ {
				o.Sel = append(o.Sel, genX(r))
			}
		}
		if r.Chance(20) {
			for j, n := 0, 1+r.Intn(2); j < n; j++ {
				o.Sync = append(o.Sync, genX(r))
			}
		}
		rp := &replyOp{}
		switch x := r.Intn(100); {
		case x < 30:
			rp.K, rp.D = "exec", uint64(r.Intn(4))
		case x < 65:
			rp.K = "none"
		case x < 77:
			rp.K = "idle"
		case x < 89:
			rp.K = "err"
		case x < 93:
			rp.K, rp.Bad = "execbad", r.Intn(2)
		default:
			rp.K = "unknown"
		}
		if r.Chance(6) {
			rp.BadTs = 1 + r.Intn(2)
		}
		switch x := r.Intn(100); {
		case x < 10:
			rp.Ts = now
		case x < 20:
			rp.Ts = now + 61000 + int64(r.Intn(10000))
		case x < 25:
			rp.Ts = now - int64(r.Intn(70000))
		default:
			rp.Ts = now + int64(r.Intn(30000))
		}
		o.Reply = rp
		h.Ops = append(h.Ops, o)
	}
	if shutdownAt >= runs {
		h.Ops = append(h.Ops, op{K: "shutdown"})
	}
	if r.Chance(35) {
		// A reply that is delivered but rejected locally (invalid timestamp,
		// unknown desired state, invalid execute request), preceded by an
		// accepted "idle" so that the scheduler-may-think-executing bound is
		// gone, and followed by shutdown and/or further iterations.
		now += int64(r.Intn(5000))
		h.Ops = append(h.Ops, op{K: "run", Now: now, Ready: true, Reply: &replyOp{K: "idle", Ts: now + int64(r.Intn(3000))}})
		now += int64(r.Intn(5000))
		rp := &replyOp{Ts: now + int64(r.Intn(20000)), D: uint64(r.Intn(4))}
		switch r.Intn(4) {
		case 0:
			rp.K, rp.BadTs = "exec", 1+r.Intn(2)
		case 1:
			rp.K = "unknown"
		case 2:
			rp.K, rp.Bad = "execbad", r.Intn(2)
		default:
			rp.K, rp.BadTs = "none", 1+r.Intn(2)
		}
		// The bound is gone, so this Run checks readiness: in 40% of the
		// histories that shut down here, the context is cancelled inside
		// that check (an idle worker that has just been found healthy).
		sd := r.Chance(60)
		late := ""
		if sd && r.Chance(40) {
			late = "ready"
		}
		h.Ops = append(h.Ops, op{K: "run", Now: now, Ready: true, Reply: rp, Late: late})
		if sd {
			h.Ops = append(h.Ops, op{K: "shutdown"})
		}
		for j, n := 0, 1+r.Intn(3); j < n; j++ {
			now += int64(r.Intn(40000))
			k := []string{"none", "err", "idle", "exec"}[r.Intn(4)]
			h.Ops = append(h.Ops, op{K: "run", Now: now, Ready: !r.Chance(10), Reply: &replyOp{K: k, Ts: now + int64(r.Intn(20000)), D: uint64(r.Intn(4))}})
		}
	}
	data, _ := json.Marshal(h)
	return data
}

// ---- the world -----------------------------------------------------------------

const baseSeconds = 1_700_000_000

func msToTime(ms int64) time.Time {
	return time.Unix(baseSeconds, 0).Add(time.Duration(ms) * time.Millisecond)
}
func timeToMs(t time.Time) int64 { return int64(t.Sub(time.Unix(baseSeconds, 0)) / time.Millisecond) }

// Time the harness is prepared to wait for something that happens within
// microseconds on an intact implementation.  The machine may be heavily
// loaded, so the first few waits are generous; once several have expired in
// this process the implementation is evidently broken and later histories
// do not wait that long again.
var anomalies atomic.Int32

func patience() time.Duration {
	if anomalies.Load() >= 3 {
		return 500 * time.Millisecond
	}
	return 8 * time.Second
}

type cmd struct {
	x     xop
	reply chan string
}

type exec struct {
	id       int
	gid      uint64
	updates  chan<- *remoteworker.CurrentState_Executing
	digest   *remoteexecution.Digest
	cmds     chan cmd
	release  chan struct{}
	mu       sync.Mutex
	blocked  bool
	returned bool
}

// send hands a command to the executor goroutine and waits for its answer.
func (e *exec) send(c cmd) (string, bool) {
	t := time.NewTimer(patience())
	defer t.Stop()
	select {
	case e.cmds <- c:
	case <-t.C:
		return "", false
	}
	select {
	case r := <-c.reply:
		return r, true
	case <-t.C:
		return "", false
	}
}

func (e *exec) hasReturned() bool { e.mu.Lock(); defer e.mu.Unlock(); return e.returned }

// isBlocked tells whether the executor goroutine is parked in a send on the
// full update channel.  The flag is lowered by the goroutine itself after
// the send went through, so a raised flag is confirmed with the scheduler
// state of the goroutine.
func (e *exec) isBlocked() bool {
	deadline := time.Now().Add(patience())
	for {
		e.mu.Lock()
		b := e.blocked
		e.mu.Unlock()
		if !b {
			return false
		}
		if gstate(e.gid) == "chan send" || time.Now().After(deadline) {
			return true
		}
		runtime.Gosched()
	}
}

type world struct {
	mu             sync.Mutex
	now            time.Time
	outs           []string
	execs          []*exec
	capRT          int
	cur            *exec
	run            *op // the Run op in flight
	synced         bool
	ctx            context.Context // the context handed to Run
	cancelCtx      context.CancelFunc
	lateDone       bool        // the context was cancelled during this Run, before Synchronize was called
	afterClose     string      // the executor's channel was closed before this Run began: what was still queued
	latePos        string      // where
	anomaly        atomic.Bool // something timed out or overlapped: stop after this item
	selDone        []string    // executor steps performed during select (Gallina terms)
	syncDone       []string
	started        chan *exec
	cancelObserved chan *exec
	quit           chan struct{}
	info           *hcommon.Info
}

func (w *world) noteAnomaly() {
	if !w.anomaly.Swap(true) {
		anomalies.Add(1)
	}
}

func (w *world) log(s string) {
	w.mu.Lock()
	w.outs = append(w.outs, s)
	w.mu.Unlock()
}

func xevTerm(x xop) string {
	if x.K == "fin" {
		return g.App("XFinish", g.Bool(x.Ok), g.N(x.Tag))
	}
	return g.App("XUpdate", g.N(x.N))
}

type piece struct {
	ev   string   // model event
	outs []string // what was observed for it
}

// takeOuts removes and returns the outputs logged since mark.
func (w *world) takeOuts(mark int) []string {
	w.mu.Lock()
	defer w.mu.Unlock()
	if mark > len(w.outs) {
		mark = len(w.outs)
	}
	t := append([]string(nil), w.outs[mark:]...)
	w.outs = w.outs[:mark]
	return t
}

func (w *world) mark() int {
	w.mu.Lock()
	defer w.mu.Unlock()
	return len(w.outs)
}

// doExec performs one executor step if the executor can take it now and
// returns the model events it amounts to, each with the outputs observed.
func (w *world) doExec(x xop) []piece {
	w.mu.Lock()
	e := w.cur
	w.mu.Unlock()
	if e == nil || e.hasReturned() || e.isBlocked() {
		return nil
	}
	mark := w.mark()
	switch x.K {
	case "upd":
		c := cmd{x: x, reply: make(chan string, 1)}
		res, ok := e.send(c)
		if !ok {
			w.noteAnomaly()
			w.info.Outs["executor-unresponsive"]++
			return nil
		}
		w.info.Outs["exec-update-"+res]++
		r := "XSent"
		if res == "blocked" {
			r = "XBlocked"
		}
		return []piece{{xevTerm(x), append(w.takeOuts(mark), g.App("OX", xevTerm(x), r))}}
	case "fin":
		if len(e.updates) >= cap(e.updates) {
			// The goroutine would park in "updates <- Completed" and close
			// the channel at a moment the harness cannot control.
			return nil
		}
		c := cmd{x: x, reply: make(chan string, 1)}
		if _, ok := e.send(c); !ok {
			w.noteAnomaly()
			w.info.Outs["executor-unresponsive"]++
			return nil
		}
		// Wait for "updates <- Completed; close(updates)" to be over.
		st, gone := waitState(e.gid, patience(), func(s string) bool { return s == "" })
		if !gone {
			w.noteAnomaly()
			w.info.Outs["exec-finish-stuck-"+st]++
			return []piece{{xevTerm(x), append(w.takeOuts(mark), g.App("OX", xevTerm(x), "XBlocked"))}}
		}
		w.info.Outs["exec-finish"]++
		return []piece{
			{xevTerm(x), append(w.takeOuts(mark), g.App("OX", xevTerm(x), "XSent"))},
			{"XClose", []string{g.App("OX", "XClose", "XClosed")}},
		}
	}
	return nil
}

// doExecInRun performs executor steps from inside one of Run's blocking
// points; the observed outputs become part of the Run's outputs.
func (w *world) doExecInRun(xs []xop) []string {
	var evs []string
	for _, x := range xs {
		for _, p := range w.doExec(x) {
			evs = append(evs, p.ev)
			for _, o := range p.outs {
				w.log(o)
			}
		}
	}
	return evs
}

func (w *world) curRun() *op {
	w.mu.Lock()
	defer w.mu.Unlock()
	return w.run
}

func (w *world) setRun(o *op) {
	w.mu.Lock()
	w.run = o
	w.mu.Unlock()
}

// lateCancel cancels Run's context from inside one of Run's blocking points
// if the Run in flight asks for it there and the context is still live.  What
// goes into the case term is what happened: the cancellation counts as "before
// the request was built" only if Synchronize has not been called yet.
func (w *world) lateCancel(pos string) {
	run := w.curRun()
	if run == nil || (run.Late != pos && run.Late != "any") {
		return
	}
	if w.ctx.Err() != nil {
		w.info.Outs["late-cancel-context-already-cancelled"]++
		return
	}
	w.cancelCtx()
	if w.synced {
		w.info.Outs["late-cancel-after-synchronize"]++
		return
	}
	w.lateDone, w.latePos = true, pos
	w.info.Outs["late-cancel-during-"+pos]++
}

// -- clock

type fakeTimer struct{}

func (fakeTimer) Stop() bool { return true }

func (w *world) Now() time.Time { return w.now }
func (w *world) NewContextWithTimeout(parent context.Context, d time.Duration) (context.Context, context.CancelFunc) {
	return context.WithCancel(parent)
}
func (w *world) NewTicker(d time.Duration) (clock.Ticker, <-chan time.Time) { panic("unused") }

func (w *world) NewTimer(d time.Duration) (clock.Timer, <-chan time.Time) {
	// The output is completed (did the timer or an update end the select)
	// once the executor steps scheduled during the select have run; it keeps
	// its place in front of their outputs.
	w.mu.Lock()
	pos := len(w.outs)
	w.outs = append(w.outs, "")
	w.mu.Unlock()
	setOut := func(fired bool) {
		w.mu.Lock()
		w.outs[pos] = g.App("OTimer", g.Z(int64(d/time.Millisecond)), g.Bool(fired))
		w.mu.Unlock()
	}
	avail := func() bool {
		w.mu.Lock()
		e := w.cur
		w.mu.Unlock()
		if e == nil {
			return false
		}
		if len(e.updates) > 0 {
			return true
		}
		// closed and empty: a receive yields nil at once
		return e.hasReturned() && !e.isBlocked() && gstate(e.gid) == ""
	}
	if run := w.curRun(); !avail() && run != nil {
		w.selDone = append(w.selDone, w.doExecInRun(run.Sel)...)
	}
	// Run is (about to be) asleep in the select: shutdown may begin now.
	w.lateCancel("select")
	if avail() {
		setOut(false)
		return fakeTimer{}, make(chan time.Time)
	}
	setOut(true)
	ch := make(chan time.Time, 1)
	ch <- w.now
	w.info.Outs["timer-fired"]++
	return fakeTimer{}, ch
}

// -- executor

func (w *world) CheckReadiness(ctx context.Context) error {
	w.log("OReady")
	// Shutdown may begin while the readiness check is running; its result is
	// the scripted one all the same.
	w.lateCancel("ready")
	if run := w.curRun(); run != nil && !run.Ready {
		w.info.Outs["readiness-failed"]++
		return status.Error(codes.ResourceExhausted, "scripted readiness failure")
	}
	return nil
}

func digestOf(d uint64) *remoteexecution.Digest {
	return &remoteexecution.Digest{Hash: fmt.Sprintf("%064x", d), SizeBytes: 123}
}

func digestToN(d *remoteexecution.Digest) uint64 {
	if d == nil || len(d.Hash) != 64 || d.SizeBytes != 123 {
		return 999999
	}
	v, err := strconv.ParseUint(d.Hash[40:], 16, 64)
	if err != nil || strings.Trim(d.Hash[:40], "0") != "" {
		return 999999
	}
	return v
}

func (w *world) Execute(ctx context.Context, filePool pool.FilePool, monitor access.UnreadDirectoryMonitor, digestFunction digest.Function, request *remoteworker.DesiredState_Executing, updates chan<- *remoteworker.CurrentState_Executing) *remoteexecution.ExecuteResponse {
	e := &exec{gid: curGID(), updates: updates, digest: request.ActionDigest, cmds: make(chan cmd), release: make(chan struct{})}
	w.mu.Lock()
	overlap := false
	for _, o := range w.execs {
		if !o.hasReturned() {
			overlap = true
			w.noteAnomaly()
		}
	}
	e.id = len(w.execs)
	w.execs = append(w.execs, e)
	w.cur = e
	w.capRT = cap(updates)
	w.outs = append(w.outs, g.App("OStart", g.N(uint64(e.id)), g.N(digestToN(request.ActionDigest)), g.Bool(overlap)))
	w.mu.Unlock()
	w.started <- e

	ret := func() {
		e.mu.Lock()
		e.returned = true
		e.mu.Unlock()
		w.log(g.App("OExit", g.N(uint64(e.id))))
	}
	for {
		select {
		case c := <-e.cmds:
			switch c.x.K {
			case "upd":
				u := &remoteworker.CurrentState_Executing{ActionDigest: request.ActionDigest}
				switch c.x.N {
				case 0:
					u.ExecutionState = &remoteworker.CurrentState_Executing_FetchingInputs{FetchingInputs: &emptypb.Empty{}}
				case 1:
					u.ExecutionState = &remoteworker.CurrentState_Executing_Running{Running: &emptypb.Empty{}}
				default:
					u.ExecutionState = &remoteworker.CurrentState_Executing_UploadingOutputs{UploadingOutputs: &emptypb.Empty{}}
				}
				select {
				case updates <- u:
					c.reply <- "sent"
				default:
					e.mu.Lock()
					e.blocked = true
					e.mu.Unlock()
					c.reply <- "blocked"
					updates <- u
					e.mu.Lock()
					e.blocked = false
					e.mu.Unlock()
				}
			case "fin":
				resp := &remoteexecution.ExecuteResponse{Result: &remoteexecution.ActionResult{}, Message: strconv.FormatUint(c.x.Tag, 10)}
				if !c.x.Ok {
					resp.Status = status.New(codes.Internal, "scripted failure").Proto()
				}
				ret()
				c.reply <- "ok"
				return resp
			}
		case <-w.quit:
			e.mu.Lock()
			e.returned = true
			e.mu.Unlock()
			return &remoteexecution.ExecuteResponse{}
		case <-ctx.Done():
			w.log(g.App("OCancel", g.N(uint64(e.id))))
			w.cancelObserved <- e
			<-e.release
			n := 0
			if run := w.curRun(); run != nil {
				n = run.OnCancel
			}
			for i := 0; i < n; i++ {
				select {
				case updates <- &remoteworker.CurrentState_Executing{ActionDigest: request.ActionDigest, ExecutionState: &remoteworker.CurrentState_Executing_Running{Running: &emptypb.Empty{}}}:
				default:
				}
			}
			ret()
			return &remoteexecution.ExecuteResponse{Status: status.New(codes.Canceled, "cancelled").Proto(), Message: "0"}
		}
	}
}

// -- scheduler

func stageTerm(x *remoteworker.CurrentState_Executing) string {
	switch s := x.ExecutionState.(type) {
	case *remoteworker.CurrentState_Executing_Started:
		return "StStarted"
	case *remoteworker.CurrentState_Executing_FetchingInputs:
		return g.App("StUpd", g.N(0))
	case *remoteworker.CurrentState_Executing_Running:
		return g.App("StUpd", g.N(1))
	case *remoteworker.CurrentState_Executing_UploadingOutputs:
		return g.App("StUpd", g.N(2))
	case *remoteworker.CurrentState_Executing_Completed:
		tag, err := strconv.ParseUint(s.Completed.GetMessage(), 10, 64)
		if err != nil {
			tag = 999999
		}
		return g.App("StDone", g.Bool(status.ErrorProto(s.Completed.GetStatus()) == nil), g.N(tag))
	}
	return g.App("StUpd", g.N(99))
}

func (w *world) Synchronize(ctx context.Context, in *remoteworker.SynchronizeRequest, opts ...grpc.CallOption) (*remoteworker.SynchronizeResponse, error) {
	st := "RIdle"
	kind := "idle"
	if x, ok := in.CurrentState.GetWorkerState().(*remoteworker.CurrentState_Executing_); ok {
		st = g.App("RExec", g.N(digestToN(x.Executing.ActionDigest)), stageTerm(x.Executing))
		kind = "executing"
		if _, ok := x.Executing.ExecutionState.(*remoteworker.CurrentState_Executing_Completed); ok {
			kind = "completed"
		}
	}
	w.info.Outs["sync-"+kind]++
	if in.PreferBeingIdle {
		w.info.Outs["sync-prefer-idle"]++
	}
	w.log(g.App("OSync", st, g.Bool(in.PreferBeingIdle), g.Bool(ctx.Err() == nil)))
	w.synced = true
	if w.afterClose != "" {
		w.info.Outs["run-after-close-"+w.afterClose+"-sync-"+kind]++
	}
	if w.lateDone {
		w.info.Outs["late-cancel-then-sync-"+kind]++
		if !in.PreferBeingIdle {
			w.info.Outs["late-cancel-then-sync-without-prefer-idle"]++
		}
		if ctx.Err() != nil {
			w.info.Outs["late-cancel-then-sync-on-cancelled-context"]++
		}
	}
	run := w.curRun()
	rp := run.Reply
	w.syncDone = append(w.syncDone, w.doExecInRun(run.Sync)...)
	w.info.Outs["reply-"+rp.K]++
	if rp.K == "err" {
		return nil, status.Error(codes.DataLoss, "scripted RPC failure")
	}
	resp := &remoteworker.SynchronizeResponse{}
	switch rp.BadTs {
	case 0:
		resp.NextSynchronizationAt = timestamppb.New(msToTime(rp.Ts))
	case 1:
		w.info.Outs["reply-invalid-timestamp"]++
	default:
		resp.NextSynchronizationAt = &timestamppb.Timestamp{Seconds: 1 << 60}
		w.info.Outs["reply-invalid-timestamp"]++
	}
	switch rp.K {
	case "idle":
		resp.DesiredState = &remoteworker.DesiredState{WorkerState: &remoteworker.DesiredState_Idle{Idle: &emptypb.Empty{}}}
	case "exec", "execbad":
		ex := &remoteworker.DesiredState_Executing{
			ActionDigest:   digestOf(rp.D),
			Action:         &remoteexecution.Action{},
			DigestFunction: remoteexecution.DigestFunction_SHA256,
		}
		if rp.K == "execbad" {
			if rp.Bad == 0 {
				ex.InstanceNameSuffix = "a/blobs/b"
			} else {
				ex.DigestFunction = remoteexecution.DigestFunction_UNKNOWN
			}
		}
		resp.DesiredState = &remoteworker.DesiredState{WorkerState: &remoteworker.DesiredState_Executing_{Executing: ex}}
	case "unknown":
		resp.DesiredState = &remoteworker.DesiredState{}
	}
	return resp, nil
}

// ---- executing a history ------------------------------------------------------

func errClass(err error) string {
	if err == nil {
		return "ENone"
	}
	switch status.Code(err) {
	case codes.ResourceExhausted:
		return "EReady"
	case codes.DataLoss:
		return "ESync"
	case codes.Unknown:
		return "ETs"
	case codes.InvalidArgument:
		return "EStart"
	case codes.Internal:
		return "EUnknown"
	}
	return "EOther"
}

func replyTerm(rp *replyOp) string {
	if rp.K == "err" {
		return "RpcErr"
	}
	ts := "None"
	if rp.BadTs == 0 {
		ts = g.Some(g.Z(rp.Ts))
	}
	ds := "DNone"
	switch rp.K {
	case "idle":
		ds = "DIdle"
	case "exec":
		ds = g.App("DExec", g.N(rp.D))
	case "execbad":
		ds = "DExecBad"
	case "unknown":
		ds = "DUnknown"
	}
	return g.App("Reply", ts, ds)
}

type runResult struct {
	may      bool
	err      error
	panicked bool
}

func (area) Execute(raw json.RawMessage) (string, *hcommon.Info, error) {
	var h history
	if err := json.Unmarshal(raw, &h); err != nil {
		return "", nil, err
	}
	info := hcommon.NewInfo()
	w := &world{now: msToTime(h.T0), started: make(chan *exec, 64), cancelObserved: make(chan *exec, 64), quit: make(chan struct{}), info: info}
	graceMs, capSrc := extractConstants()
	bc := builder.NewBuildClient(w, w, nil, w, map[string]string{"host": "h"}, mustInstanceName("pfx"), &remoteexecution.Platform{}, 0)
	ctx, cancelCtx := context.WithCancel(context.Background())
	defer cancelCtx()
	w.ctx, w.cancelCtx = ctx, cancelCtx

	var items []string
	hung := false
	starts, stops, failures := 0, 0, 0
	obsTerm := func() string {
		s := bc.VerifState()
		until := "None"
		if s.SchedulerMayThinkExecutingUntil != nil {
			until = g.Some(g.Z(timeToMs(*s.SchedulerMayThinkExecutingUntil)))
		}
		return g.App("mkObs", until, g.Z(timeToMs(s.NextSynchronizationAt)), g.Bool(s.HasExecution), g.Bool(s.PreferBeingIdle))
	}
	finish := func(ev string) {
		w.mu.Lock()
		outs := w.outs
		w.outs = nil
		w.mu.Unlock()
		for _, o := range outs {
			switch {
			case strings.HasPrefix(o, "(OStart"):
				starts++
			case strings.HasPrefix(o, "(OExit"):
				stops++
			}
		}
		items = append(items, g.App("mkItem", ev, g.List(outs), obsTerm()))
	}

	for i := range h.Ops {
		if hung || w.anomaly.Load() {
			break
		}
		o := &h.Ops[i]
		info.Ops[o.K]++
		switch o.K {
		case "shutdown":
			if ctx.Err() == nil {
				info.Outs["shutdown-between-runs"]++
			}
			cancelCtx()
		case "upd", "fin":
			for _, p := range w.doExec(xop{K: o.K, N: o.N, Ok: o.Ok, Tag: o.Tag}) {
				info.Events++
				for _, x := range p.outs {
					w.log(x)
				}
				finish(g.App("EExec", p.ev))
			}
		case "run":
			if o.Reply == nil {
				o.Reply = &replyOp{K: "none", Ts: o.Now}
			}
			info.Events++
			w.now = msToTime(o.Now)
			w.setRun(o)
			w.selDone, w.syncDone, w.synced = nil, nil, false
			w.lateDone, w.latePos = false, ""
			// Did the action finish (Completed sent, channel closed) before this
			// Run, while the client still holds its slot?  What is queued then?
			w.afterClose = ""
			w.mu.Lock()
			ce := w.cur
			w.mu.Unlock()
			if ce != nil && bc.VerifState().HasExecution && ce.hasReturned() && gstate(ce.gid) == "" {
				switch n := len(ce.updates); {
				case n >= 2:
					w.afterClose = "updates-and-completion-queued"
				case n == 1:
					w.afterClose = "completion-queued"
				default:
					w.afterClose = "drained"
				}
				info.Outs["run-after-close-"+w.afterClose]++
			}
			if o.Late != "" {
				info.Outs["late-scripted-"+o.Late]++
			}
			shutdown := ctx.Err() != nil
			gidCh := make(chan uint64, 1)
			done := make(chan runResult, 1)
			go func() {
				gidCh <- curGID()
				defer func() {
					if r := recover(); r != nil {
						done <- runResult{panicked: true}
					}
				}()
				may, err := bc.Run(ctx)
				done <- runResult{may: may, err: err}
			}()
			rgid := <-gidCh
			var res runResult
			got := false
			watchdog := time.After(patience())
			for !got && !hung {
				select {
				case res = <-done:
					got = true
				case e := <-w.cancelObserved:
					// Let the executor finish only when Run is parked in the
					// drain loop of stopExecution, or has already returned.
					deadline := time.Now().Add(patience())
					for !got {
						select {
						case res = <-done:
							got = true
							info.Outs["run-returned-before-executor-stopped"]++
							w.noteAnomaly()
							continue
						default:
						}
						if st := gstate(rgid); st == "chan receive" || time.Now().After(deadline) {
							break
						}
					}
					close(e.release)
					if got {
						waitState(e.gid, patience(), func(s string) bool { return s == "" || s == "chan send" })
					}
				case <-watchdog:
					hung = true
					w.noteAnomaly()
				}
			}
			ret := ""
			switch {
			case hung:
				ret = g.App("ORet", "false", "EHang")
				info.Outs["run-hang"]++
			case res.panicked:
				ret = g.App("ORet", "false", "EPanic")
				info.Outs["run-panic"]++
			default:
				ret = g.App("ORet", g.Bool(res.may), errClass(res.err))
				info.Outs["run-"+errClass(res.err)]++
				if res.may && shutdown {
					info.Outs["run-may-terminate-in-shutdown"]++
				}
				if res.err != nil {
					failures++
				}
			}
			if !hung && !res.panicked && res.err == nil && w.synced && o.Reply.K == "exec" && o.Reply.BadTs == 0 {
				select {
				case <-w.started:
				case <-time.After(patience()):
					info.Outs["executor-not-started"]++
					w.noteAnomaly()
				}
			} else {
				// an unexpected start still has to be waited for to be logged
				select {
				case <-w.started:
				default:
				}
			}
			w.log(ret)
			w.setRun(nil)
			if w.lateDone && !w.synced {
				info.Outs["late-cancel-run-returned-without-sync"]++
			}
			ev := g.App("ERun", g.App("mkRin", g.Bool(shutdown), g.Bool(w.lateDone), g.Z(o.Now), g.Bool(o.Ready), g.List(w.selDone), g.List(w.syncDone), replyTerm(o.Reply)))
			finish(ev)
		default:
			return "", nil, fmt.Errorf("unknown op %q", o.K)
		}
	}
	// Unblock whatever is left so that goroutines of this history go away.
	cancelCtx()
	close(w.quit)
	for _, e := range w.execs {
		if !e.hasReturned() {
			select {
			case <-e.release:
			default:
				close(e.release)
			}
		}
	}
	if len(w.execs) > info.Extra["max_executors"] {
		info.Extra["max_executors"] = len(w.execs)
	}
	info.Nontrivial = starts > 0 && stops > 0 && failures > 0
	term := g.App("mkCase", g.Z(h.T0), g.Z(graceMs), g.Nat(capSrc), g.Nat(w.capRT), g.List(items))
	return term, info, nil
}

func mustInstanceName(v string) digest.InstanceName {
	in, err := digest.NewInstanceName(v)
	if err != nil {
		panic(err)
	}
	return in
}

func main() { hcommon.Main(area{}) }
