// Harness for C17, hardlinking file fetcher: the real
// cas.NewHardlinkingFileFetcher over the real cas.NewBlobAccessFileFetcher
// (wrapped to count and park its calls) on a fake BlobAccess, with a cache
// directory and a build directory on the local file system (real hard
// links), eviction set = eviction.NewLRUSet.  After every call the file at
// the requested name (whose contents, executable bit) and the whole cache
// directory (file name parsed back to blob + executable bit, contents,
// mode) are recorded.
package main

import (
	"bytes"
	"context"
	"crypto/sha256"
	"encoding/hex"
	"encoding/json"
	"fmt"
	"os"
	"path/filepath"
	"runtime"
	"sort"
	"sync"
	"time"

	remoteexecution "github.com/bazelbuild/remote-apis/build/bazel/remote/execution/v2"
	"github.com/buildbarn/bb-remote-execution/pkg/cas"
	"github.com/buildbarn/bb-storage/pkg/blobstore"
	"github.com/buildbarn/bb-storage/pkg/blobstore/buffer"
	"github.com/buildbarn/bb-storage/pkg/digest"
	"github.com/buildbarn/bb-storage/pkg/eviction"
	"github.com/buildbarn/bb-storage/pkg/filesystem"
	"github.com/buildbarn/bb-storage/pkg/filesystem/path"
	"google.golang.org/grpc/codes"
	"google.golang.org/grpc/status"

	g "verif/harness/internal/gallina"
	"verif/harness/internal/hcommon"
	"verif/harness/internal/rng"
)

const maxBlobs = 8
const unknown = 999

type opJ struct {
	K     string `json:"k"` // get, pair, lose, clear
	D     int    `json:"d,omitempty"`
	X     bool   `json:"x,omitempty"`
	Inst  int    `json:"inst,omitempty"`
	Name  int    `json:"n,omitempty"`
	Name2 int    `json:"n2,omitempty"`
	Fail  bool   `json:"fail,omitempty"`  // the download (if one is needed) fails
	Fail2 bool   `json:"fail2,omitempty"` // pair: the second call's download fails
}

type history struct {
	Sizes    []int `json:"sizes"` // blob i has Sizes[i] bytes (1..), at most 8 blobs
	MaxFiles int   `json:"max_files"`
	MaxSize  int   `json:"max_size"`
	Ops      []opJ `json:"ops"`
}

type area struct{}

func (area) Requires() string {
	return "From VF Require Import Common.Verdict Cas.Hardlink.\nOpen Scope N_scope."
}
func (area) Check() string { return "check_hcase" }
func (area) Rule() string {
	return "histories of 5-40 calls on one hardlinking file fetcher (real base fetcher on a fake BlobAccess, cache and build directory on the local file system, LRU eviction): GetFile for one of 2-6 blobs (1-9 bytes) x executable bit x two instance names into one of 10 names of the build directory (so that names collide), 12% of the downloads fail; pairs of concurrent GetFile calls for one key, the second started while the first is parked inside the base fetcher; a cache file disappearing from the cache directory; build directory entries removed; maxFiles 0-4, maxSize 4-30 bytes; non-trivial = a cache hit, a download into a full cache (eviction) and an error or a lost cache file all occur"
}

func (area) Generate(r *rng.R, thorough bool, index int) json.RawMessage {
	h := history{MaxFiles: r.Intn(5), MaxSize: 4 + r.Intn(27)}
	nb := 2 + r.Intn(5)
	for i := 0; i < nb; i++ {
		h.Sizes = append(h.Sizes, 1+r.Intn(9))
	}
	n := 5 + r.Intn(36)
	if thorough {
		n = 5 + r.Intn(120)
	}
	for i := 0; i < n; i++ {
		o := opJ{D: r.Intn(nb), X: r.Chance(40), Inst: r.Intn(2), Name: r.Intn(10), Name2: r.Intn(10)}
		switch p := r.Intn(100); {
		case p < 58:
			o.K = "get"
			o.Fail = r.Chance(12)
		case p < 70:
			o.K = "pair"
			o.Fail = r.Chance(25)
			o.Fail2 = r.Chance(12)
		case p < 78:
			o.K = "lose"
		default:
			o.K = "clear"
		}
		h.Ops = append(h.Ops, o)
	}
	data, _ := json.Marshal(h)
	return data
}

// ---- fake BlobAccess and the counting / parking base fetcher -------------------

type ctxKey int

const (
	failKey ctxKey = iota
	whoKey
)

type fakeBlobAccess struct {
	blobstore.BlobAccess
	data map[string][]byte // hash -> contents
}

func (f *fakeBlobAccess) Get(ctx context.Context, d digest.Digest) buffer.Buffer {
	if fail, _ := ctx.Value(failKey).(bool); fail {
		return buffer.NewBufferFromError(status.Error(codes.Unavailable, "scripted download failure"))
	}
	data, ok := f.data[d.GetHashString()]
	if !ok {
		return buffer.NewBufferFromError(status.Error(codes.NotFound, "no such blob"))
	}
	return buffer.NewValidatedBufferFromByteSlice(data)
}

type baseFetcher struct {
	base cas.FileFetcher

	mu       sync.Mutex
	script   []bool // fail flags of the coming base calls
	calls    map[int]int
	lastErr  map[int]error
	parkNext bool
	parked   chan struct{}
	release  chan struct{}
	overlap  bool // a base call arrived while another one was parked
	inPark   bool
}

func (b *baseFetcher) GetFile(ctx context.Context, d digest.Digest, directory filesystem.Directory, name path.Component, isExecutable bool) error {
	who, _ := ctx.Value(whoKey).(int)
	b.mu.Lock()
	b.calls[who]++
	fail := false
	if len(b.script) > 0 {
		fail = b.script[0]
		b.script = b.script[1:]
	}
	park := b.parkNext
	b.parkNext = false
	if b.inPark {
		b.overlap = true
	}
	if park {
		b.inPark = true
	}
	b.mu.Unlock()
	if park {
		close(b.parked)
		<-b.release
		b.mu.Lock()
		b.inPark = false
		b.mu.Unlock()
	}
	err := b.base.GetFile(context.WithValue(ctx, failKey, fail), d, directory, name, isExecutable)
	b.mu.Lock()
	b.lastErr[who] = err
	b.mu.Unlock()
	return err
}

// ---- goroutine quiescence (as in cmd/store/controller.go) -------------------------

var blockedStates = map[string]bool{
	"chan receive": true, "chan send": true, "select": true, "select (no cases)": true,
	"sync.Mutex.Lock": true, "sync.RWMutex.Lock": true, "sync.RWMutex.RLock": true,
	"sync.WaitGroup.Wait": true, "sync.Cond.Wait": true,
}

// waitOthersBlocked spins until every goroutine except the caller is blocked
// on a channel / mutex, or a deadline passes (then the caller just goes on:
// the outcome of a pair does not depend on it, only how much of the waiting
// path of GetFile is exercised).
func waitOthersBlocked() bool {
	deadline := time.Now().Add(5 * time.Second)
	buf := make([]byte, 1<<16)
	for iter := 0; ; iter++ {
		runtime.Gosched()
		n := runtime.Stack(buf, true)
		for n == len(buf) {
			buf = make([]byte, 2*len(buf))
			n = runtime.Stack(buf, true)
		}
		all := true
		for i, gr := range bytes.Split(buf[:n], []byte("\n\n")) {
			if i == 0 {
				continue
			}
			hdr := gr
			if k := bytes.IndexByte(gr, '\n'); k >= 0 {
				hdr = gr[:k]
			}
			lb, rb := bytes.IndexByte(hdr, '['), bytes.LastIndexByte(hdr, ']')
			if lb < 0 || rb < lb {
				continue
			}
			st := string(hdr[lb+1 : rb])
			if k := bytes.IndexByte([]byte(st), ','); k >= 0 {
				st = st[:k]
			}
			if !blockedStates[st] {
				all = false
				break
			}
		}
		if all {
			return true
		}
		if iter%64 == 63 && time.Now().After(deadline) {
			return false
		}
	}
}

// ---- execution ---------------------------------------------------------------------

type world struct {
	nb        int
	data      [][]byte
	hash      []string
	keyOf     map[string][2]int // cache file name -> blob, executable
	dataIndex map[string]int
	cachePath string
	buildPath string
	cacheDir  filesystem.DirectoryCloser
	buildDir  filesystem.DirectoryCloser
}

func (w *world) digest(inst, d int) digest.Digest {
	return digest.MustNewDigest(fmt.Sprintf("i%d", inst), remoteexecution.DigestFunction_SHA256, w.hash[d], int64(len(w.data[d])))
}

func (w *world) keyName(d int, x bool) string {
	k := w.digest(0, d).GetKey(digest.KeyWithoutInstance)
	if x {
		return k + "+x"
	}
	return k + "-x"
}

// fileAt describes the file at a path: whose contents, executable bit.
func (w *world) fileAt(p string) (string, bool) {
	fi, err := os.Lstat(p)
	if err != nil {
		return "None", false
	}
	data, err := os.ReadFile(p)
	idx := unknown
	if err == nil {
		if i, ok := w.dataIndex[string(data)]; ok {
			idx = i
		}
	}
	return fmt.Sprintf("(Some (%s, %s))", g.N(uint64(idx)), g.Bool(fi.Mode()&0o111 != 0)), true
}

func (w *world) cacheListing() (string, int) {
	entries, err := os.ReadDir(w.cachePath)
	if err != nil {
		panic(err)
	}
	names := []string{}
	for _, e := range entries {
		names = append(names, e.Name())
	}
	sort.Strings(names)
	var items []string
	for _, n := range names {
		k, ok := w.keyOf[n]
		if !ok {
			k = [2]int{unknown, 0}
		}
		f, _ := w.fileAt(filepath.Join(w.cachePath, n))
		// f is "(Some (c, x))": strip the option
		items = append(items, fmt.Sprintf("((%s, %s), %s)", g.N(uint64(k[0])), g.Bool(k[1] == 1), f[6:len(f)-1]))
	}
	return g.List(items), len(names)
}

func nameOf(n int) path.Component { return path.MustNewComponent(fmt.Sprintf("f%d", n)) }

func (area) Execute(raw json.RawMessage) (term string, info *hcommon.Info, err error) {
	var h history
	if err := json.Unmarshal(raw, &h); err != nil {
		return "", nil, err
	}
	if len(h.Sizes) == 0 {
		h.Sizes = []int{3}
	}
	if len(h.Sizes) > maxBlobs {
		h.Sizes = h.Sizes[:maxBlobs]
	}
	if h.MaxFiles < 0 {
		h.MaxFiles = 0
	}
	info = hcommon.NewInfo()
	root, err := os.MkdirTemp("", "cashl")
	if err != nil {
		return "", nil, err
	}
	defer os.RemoveAll(root)
	w := &world{nb: len(h.Sizes), keyOf: map[string][2]int{}, dataIndex: map[string]int{},
		cachePath: filepath.Join(root, "cache"), buildPath: filepath.Join(root, "build")}
	fba := &fakeBlobAccess{data: map[string][]byte{}}
	var sizes []string
	for i, sz := range h.Sizes {
		if sz < 1 {
			sz = 1
		}
		if sz > 64 {
			sz = 64
		}
		data := bytes.Repeat([]byte{byte('A' + i)}, sz)
		sum := sha256.Sum256(data)
		w.data = append(w.data, data)
		w.hash = append(w.hash, hex.EncodeToString(sum[:]))
		w.dataIndex[string(data)] = i
		fba.data[w.hash[i]] = data
		sizes = append(sizes, g.Z(int64(sz)))
	}
	for i := range w.data {
		w.keyOf[w.keyName(i, true)] = [2]int{i, 1}
		w.keyOf[w.keyName(i, false)] = [2]int{i, 0}
	}
	for _, p := range []string{w.cachePath, w.buildPath} {
		if err := os.Mkdir(p, 0o777); err != nil {
			return "", nil, err
		}
	}
	if w.cacheDir, err = filesystem.NewLocalDirectory(path.LocalFormat.NewParser(w.cachePath)); err != nil {
		return "", nil, err
	}
	defer w.cacheDir.Close()
	if w.buildDir, err = filesystem.NewLocalDirectory(path.LocalFormat.NewParser(w.buildPath)); err != nil {
		return "", nil, err
	}
	defer w.buildDir.Close()

	base := &baseFetcher{base: cas.NewBlobAccessFileFetcher(fba), calls: map[int]int{}, lastErr: map[int]error{}}
	hl := cas.NewHardlinkingFileFetcher(base, w.cacheDir, h.MaxFiles, int64(h.MaxSize), eviction.NewLRUSet[string]())

	classify := func(who int, err error) int {
		if err == nil {
			return 0
		}
		base.mu.Lock()
		defer base.mu.Unlock()
		if err == base.lastErr[who] {
			return 1
		}
		if status.Code(err) == codes.Internal {
			return 2
		}
		return 3
	}
	getOne := func(who int, o opJ, name int) error {
		ctx := context.WithValue(context.Background(), whoKey, who)
		return hl.GetFile(ctx, w.digest(o.Inst%2, o.D), w.buildDir, nameOf(name), o.X)
	}
	goutTerm := func(st, calls int, name int) string {
		f, _ := w.fileAt(filepath.Join(w.buildPath, fmt.Sprintf("f%d", name)))
		return g.App("mkGO", g.N(uint64(st)), g.Nat(calls), f)
	}
	note := func(st, calls int) {
		switch {
		case st == 0 && calls == 0:
			info.Outs["hit"]++
		case st == 0:
			info.Outs["downloaded"]++
		case st == 1:
			info.Outs["base-error"]++
		case st == 2:
			info.Outs["internal-error"]++
		default:
			info.Outs["other-error"]++
		}
	}

	var ops, outs []string
	sawHit, sawEvict, sawTrouble := false, false, false
	prevCount := 0
	for _, o := range h.Ops {
		if o.D < 0 {
			o.D = -o.D
		}
		o.D %= w.nb
		if o.Name < 0 {
			o.Name = -o.Name
		}
		if o.Name2 < 0 {
			o.Name2 = -o.Name2
		}
		info.Events++
		info.Ops[o.K]++
		base.mu.Lock()
		base.calls = map[int]int{}
		base.lastErr = map[int]error{}
		base.overlap = false
		base.mu.Unlock()
		switch o.K {
		case "get":
			base.script = []bool{o.Fail}
			err := getOne(1, o, o.Name)
			st := classify(1, err)
			note(st, base.calls[1])
			if st == 0 && base.calls[1] == 0 {
				sawHit = true
			}
			if st != 0 {
				sawTrouble = true
			}
			ls, n := w.cacheListing()
			if st == 0 && base.calls[1] == 1 && n <= prevCount {
				sawEvict = true
				info.Outs["evicted"]++
			}
			prevCount = n
			ops = append(ops, g.App("HGet", g.N(uint64(o.D)), g.Bool(o.X), g.N(uint64(o.Name)), g.Bool(!o.Fail)))
			outs = append(outs, g.App("HOGet", goutTerm(st, base.calls[1], o.Name), ls))
		case "pair":
			base.mu.Lock()
			base.script = []bool{o.Fail, o.Fail2}
			base.parkNext = true
			base.parked = make(chan struct{})
			base.release = make(chan struct{})
			base.mu.Unlock()
			var err1, err2 error
			done1 := make(chan struct{})
			go func() { err1 = getOne(1, o, o.Name); close(done1) }()
			select {
			case <-done1:
				// the first call never reached the base fetcher: nothing to overlap with
				base.mu.Lock()
				base.parkNext = false
				// the script's first entry was meant for the first call
				if len(base.script) == 2 {
					base.script = base.script[1:]
				}
				base.mu.Unlock()
				err2 = getOne(2, o, o.Name2)
			case <-base.parked:
				info.Outs["pair-parked"]++
				done2 := make(chan struct{})
				go func() { err2 = getOne(2, o, o.Name2); close(done2) }()
				if waitOthersBlocked() {
					info.Outs["pair-second-waiting"]++
				}
				close(base.release)
				<-done1
				<-done2
			}
			st1, st2 := classify(1, err1), classify(2, err2)
			note(st1, base.calls[1])
			note(st2, base.calls[2])
			if st2 == 0 && base.calls[2] == 0 {
				sawHit = true
			}
			if st1 != 0 || st2 != 0 {
				sawTrouble = true
			}
			if base.overlap {
				info.Outs["overlapping-downloads"]++
			}
			ls, n := w.cacheListing()
			prevCount = n
			ops = append(ops, g.App("HPair", g.N(uint64(o.D)), g.Bool(o.X), g.N(uint64(o.Name)), g.N(uint64(o.Name2)), g.Bool(!o.Fail), g.Bool(!o.Fail2)))
			outs = append(outs, g.App("HOPair", goutTerm(st1, base.calls[1], o.Name), goutTerm(st2, base.calls[2], o.Name2), ls))
		case "lose":
			if err := os.Remove(filepath.Join(w.cachePath, w.keyName(o.D, o.X))); err == nil {
				sawTrouble = true
				info.Outs["cache-file-lost"]++
			}
			ls, n := w.cacheListing()
			prevCount = n
			ops = append(ops, g.App("HLose", g.N(uint64(o.D)), g.Bool(o.X)))
			outs = append(outs, g.App("HONone", ls))
		case "clear":
			os.Remove(filepath.Join(w.buildPath, fmt.Sprintf("f%d", o.Name)))
			ls, n := w.cacheListing()
			prevCount = n
			ops = append(ops, g.App("HClear", g.N(uint64(o.Name))))
			outs = append(outs, g.App("HONone", ls))
		default:
			return "", nil, fmt.Errorf("unknown op %q", o.K)
		}
	}
	info.Nontrivial = sawHit && sawEvict && sawTrouble
	info.Extra["blobs"] = w.nb
	return g.App("mkHCase", g.List(sizes), g.Nat(h.MaxFiles), g.Z(int64(h.MaxSize)), g.List(ops), g.List(outs)), info, nil
}

func main() { hcommon.Main(area{}) }
