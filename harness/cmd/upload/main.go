// Harness for C09: the worker's upload pipeline.  Real
// NewBatchedStoreBlobAccess, NewStorageFlushingBuildExecutor and
// NewCachingBuildExecutor, composed in the order of cmd/bb_worker/main.go,
// over a fake CAS / AC with scripted failures and a fake innermost
// BuildExecutor that uploads scripted blobs through the batching layer and
// returns a scripted ExecuteResponse.
package main

import (
	"context"
	"crypto/sha256"
	"encoding/hex"
	"encoding/json"
	"fmt"
	"io"
	"net/url"
	"os"
	"sort"
	"strings"
	"sync"

	remoteexecution "github.com/bazelbuild/remote-apis/build/bazel/remote/execution/v2"
	re_blobstore "github.com/buildbarn/bb-remote-execution/pkg/blobstore"
	"github.com/buildbarn/bb-remote-execution/pkg/builder"
	"github.com/buildbarn/bb-remote-execution/pkg/filesystem/access"
	"github.com/buildbarn/bb-remote-execution/pkg/filesystem/pool"
	"github.com/buildbarn/bb-remote-execution/pkg/proto/remoteworker"
	"github.com/buildbarn/bb-storage/pkg/blobstore"
	"github.com/buildbarn/bb-storage/pkg/blobstore/buffer"
	"github.com/buildbarn/bb-storage/pkg/blobstore/slicing"
	"github.com/buildbarn/bb-storage/pkg/digest"
	"golang.org/x/sync/semaphore"
	"google.golang.org/grpc/codes"
	"google.golang.org/grpc/status"

	g "verif/harness/internal/gallina"
	"verif/harness/internal/hcommon"
	"verif/harness/internal/rng"
	"verif/harness/internal/uploadorder"
)

const universe = 12

type blobOp struct {
	D    int    `json:"d"`
	Role string `json:"r,omitempty"` // file, tree, stdout, stderr, "" = not referenced by the result
}

type actionOp struct {
	Blobs     []blobOp `json:"blobs"`
	Exit      int      `json:"exit,omitempty"`
	Status    int      `json:"status,omitempty"` // gRPC code the innermost executor reports
	DNC       bool     `json:"dnc,omitempty"`
	FailFM    []int    `json:"fail_fm,omitempty"`  // which FindMissing calls of this action fail
	FailPut   []int    `json:"fail_put,omitempty"` // CAS Put of these digests fails
	FailFinal bool     `json:"fail_final,omitempty"`
	// The caller's context is cancelled at a scripted point of the action:
	// "start" (before Execute), "upload" (before the CancelN-th upload of the
	// innermost executor, i.e. between Puts of the batching layer), "fm"
	// (while the CancelN-th FindMissing of the action is in progress), "put"
	// (while the CancelN-th CAS Put of the action is in progress), "flush"
	// (after the innermost executor returned, before the flush), "final"
	// (after the flush, before the AC / historical-response write).
	// CancelErr: the call during which the cancellation happens returns
	// CANCELLED itself (otherwise the backend still completes it).  Every
	// storage call entered with a done context returns CANCELLED, like a
	// gRPC client does.
	Cancel    string `json:"cancel,omitempty"`
	CancelN   int    `json:"cancel_n,omitempty"`
	CancelErr bool   `json:"cancel_err,omitempty"`
}

type history struct {
	Batch int        `json:"batch"`
	Sem   int        `json:"sem"`
	CAS0  []int      `json:"cas0,omitempty"`
	Ops   []actionOp `json:"ops"`
}

type area struct{}

func (area) Requires() string {
	return "From VF Require Import Common.Verdict Upload.Model Upload.Spec Upload.Corr.\nOpen Scope N_scope."
}
func (area) Check() string { return "check_case" }
func (area) Rule() string {
	return "histories of 1-4 actions run through caching(flushing(fake local)) over one batched store: 0-12 uploads per action from a universe of 12 blobs with duplicates, roles file/tree/stdout/stderr/unreferenced, batch size 1-5, upload concurrency 1-3, CAS pre-populated with a random subset, exit code / status / do_not_cache scripted, failures scripted per FindMissing call, per digest Put and for the final AC / historical-response write; in 35% of the actions the caller's context is cancelled at a scripted point (before the action, between uploads, while a FindMissing or a CAS Put is in progress, before the flush, before the final write), storage calls entered with a done context return CANCELLED; non-trivial = at least one storage failure and at least one flush triggered by a full batch; distinct by hash of the case term"
}

var roles = []string{"file", "file", "tree", "stdout", "stderr", "", ""}

func (area) Generate(r *rng.R, thorough bool, index int) json.RawMessage {
	h := history{Batch: 1 + r.Intn(5), Sem: 1 + r.Intn(3)}
	for d := 0; d < universe; d++ {
		if r.Chance(25) {
			h.CAS0 = append(h.CAS0, d)
		}
	}
	na := 1 + r.Intn(4)
	if thorough {
		na = 1 + r.Intn(8)
	}
	for i := 0; i < na; i++ {
		a := actionOp{}
		nb := r.Intn(13)
		pool := 2 + r.Intn(universe-1)
		hasOut, hasErr := false, false
		for j := 0; j < nb; j++ {
			b := blobOp{D: r.Intn(pool), Role: roles[r.Intn(len(roles))]}
			if b.Role == "stdout" {
				if hasOut {
					b.Role = "file"
				}
				hasOut = true
			}
			if b.Role == "stderr" {
				if hasErr {
					b.Role = "file"
				}
				hasErr = true
			}
			a.Blobs = append(a.Blobs, b)
		}
		if r.Chance(25) {
			a.Exit = 1 + r.Intn(3)
		}
		if r.Chance(15) {
			a.Status = []int{4, 13, 14}[r.Intn(3)]
		}
		a.DNC = r.Chance(20)
		if r.Chance(35) {
			a.FailFM = append(a.FailFM, r.Intn(4))
		}
		if r.Chance(40) {
			for k := 1 + r.Intn(2); k > 0; k-- {
				a.FailPut = append(a.FailPut, r.Intn(pool))
			}
		}
		a.FailFinal = r.Chance(15)
		if r.Chance(35) {
			a.Cancel = []string{"start", "upload", "upload", "fm", "fm", "put", "put", "put", "flush", "final"}[r.Intn(10)]
			switch a.Cancel {
			case "upload":
				a.CancelN = r.Intn(nb + 1)
			case "fm":
				a.CancelN = r.Intn(4)
			case "put":
				a.CancelN = r.Intn(6)
			}
			a.CancelErr = r.Chance(50)
		}
		h.Ops = append(h.Ops, a)
	}
	data, _ := json.Marshal(h)
	return data
}

// ---- blobs -------------------------------------------------------------------

var (
	digestFunction = digest.MustNewFunction("inst", remoteexecution.DigestFunction_SHA256)
	blobData       [universe][]byte
	blobDigest     [universe]digest.Digest
	blobIndex      = map[string]int{}
)

func init() {
	for i := 0; i < universe; i++ {
		blobData[i] = []byte(fmt.Sprintf("blob-%d-contents", i))
		sum := sha256.Sum256(blobData[i])
		blobDigest[i] = digest.MustNewDigest("inst", remoteexecution.DigestFunction_SHA256, hex.EncodeToString(sum[:]), int64(len(blobData[i])))
		blobIndex[blobDigest[i].GetHashString()] = i
	}
}

func indexOfHash(h string) int {
	if i, ok := blobIndex[h]; ok {
		return i
	}
	return -1
}

// countingReader is the payload of an upload; Close is what both
// buffer.Discard and a completed read end in.
type countingReader struct {
	io.Reader
	closes *int
}

func (c countingReader) Close() error { *c.closes++; return nil }

// ---- fake storage ------------------------------------------------------------

type storageCall struct {
	kind    string // fm, put, ac, hist
	args    []int  // fm: digests asked (sorted); put: the digest
	code    int
	missing int // fm: number of digests reported missing
}

type fakeStorage struct {
	mu       sync.Mutex
	cas      map[int]bool
	histPuts int
	ac       map[string][]int // action digest hash -> refs of stored result
	log      []storageCall
	fmCount  int
	putCount int
	script   *actionOp
	cancel   func() // cancels the context of the action being executed
}

func cancelled() error { return status.Error(codes.Canceled, "context canceled") }

type fakeCAS struct {
	blobstore.BlobAccess
	s *fakeStorage
}

func (f fakeCAS) Get(ctx context.Context, d digest.Digest) buffer.Buffer { panic("not used") }
func (f fakeCAS) GetFromComposite(ctx context.Context, parentDigest, childDigest digest.Digest, slicer slicing.BlobSlicer) buffer.Buffer {
	panic("not used")
}

func (f fakeCAS) FindMissing(ctx context.Context, digests digest.Set) (digest.Set, error) {
	s := f.s
	s.mu.Lock()
	defer s.mu.Unlock()
	var args []int
	missing := digest.NewSetBuilder(digests.Length())
	for _, d := range digests.Items() {
		i := indexOfHash(d.GetHashString())
		args = append(args, i)
		if !s.cas[i] {
			missing.Add(d)
		}
	}
	sort.Ints(args)
	k := s.fmCount
	s.fmCount++
	if ctx.Err() != nil {
		s.log = append(s.log, storageCall{kind: "fm", args: args, code: int(codes.Canceled)})
		return digest.EmptySet, cancelled()
	}
	if s.script.Cancel == "fm" && s.script.CancelN == k {
		s.cancel()
		if s.script.CancelErr {
			s.log = append(s.log, storageCall{kind: "fm", args: args, code: int(codes.Canceled)})
			return digest.EmptySet, cancelled()
		}
	}
	for _, x := range s.script.FailFM {
		if x == k {
			s.log = append(s.log, storageCall{kind: "fm", args: args, code: int(codes.Unavailable)})
			return digest.EmptySet, status.Error(codes.Unavailable, "scripted FindMissing failure")
		}
	}
	missingSet := missing.Build()
	s.log = append(s.log, storageCall{kind: "fm", args: args, missing: missingSet.Length()})
	return missingSet, nil
}

func (f fakeCAS) Put(ctx context.Context, d digest.Digest, b buffer.Buffer) error {
	s := f.s
	i := indexOfHash(d.GetHashString())
	if i < 0 {
		// the HistoricalExecuteResponse written by the caching executor
		b.Discard()
		s.mu.Lock()
		defer s.mu.Unlock()
		if ctx.Err() != nil {
			s.log = append(s.log, storageCall{kind: "hist", code: int(codes.Canceled)})
			return cancelled()
		}
		if s.script.FailFinal {
			s.log = append(s.log, storageCall{kind: "hist", code: int(codes.ResourceExhausted)})
			return status.Error(codes.ResourceExhausted, "scripted historical response write failure")
		}
		s.histPuts++
		s.log = append(s.log, storageCall{kind: "hist"})
		return nil
	}
	s.mu.Lock()
	k := s.putCount
	s.putCount++
	done := ctx.Err() != nil
	if !done && s.script.Cancel == "put" && s.script.CancelN == k {
		s.cancel()
		done = s.script.CancelErr
	}
	if done {
		s.log = append(s.log, storageCall{kind: "put", args: []int{i}, code: int(codes.Canceled)})
		s.mu.Unlock()
		b.Discard()
		return cancelled()
	}
	s.mu.Unlock()
	fail := false
	for _, x := range s.script.FailPut {
		if x == i {
			fail = true
		}
	}
	if fail {
		b.Discard()
		s.mu.Lock()
		defer s.mu.Unlock()
		s.log = append(s.log, storageCall{kind: "put", args: []int{i}, code: int(codes.Internal)})
		return status.Error(codes.Internal, "scripted Put failure")
	}
	data, err := b.ToByteSlice(1 << 20)
	s.mu.Lock()
	defer s.mu.Unlock()
	if err != nil {
		s.log = append(s.log, storageCall{kind: "put", args: []int{i}, code: int(status.Code(err))})
		return err
	}
	if string(data) != string(blobData[i]) {
		panic("CAS received wrong contents")
	}
	s.cas[i] = true
	s.log = append(s.log, storageCall{kind: "put", args: []int{i}})
	return nil
}

type fakeAC struct {
	blobstore.BlobAccess
	s *fakeStorage
}

func resultRefs(r *remoteexecution.ActionResult) []int {
	var refs []int
	for _, f := range r.GetOutputFiles() {
		refs = append(refs, indexOfHash(f.GetDigest().GetHash()))
	}
	for _, d := range r.GetOutputDirectories() {
		refs = append(refs, indexOfHash(d.GetTreeDigest().GetHash()))
	}
	if d := r.GetStdoutDigest(); d != nil {
		refs = append(refs, indexOfHash(d.GetHash()))
	}
	if d := r.GetStderrDigest(); d != nil {
		refs = append(refs, indexOfHash(d.GetHash()))
	}
	return refs
}

func (f fakeAC) Put(ctx context.Context, d digest.Digest, b buffer.Buffer) error {
	s := f.s
	m, err := b.ToProto(&remoteexecution.ActionResult{}, 1<<20)
	s.mu.Lock()
	defer s.mu.Unlock()
	if err != nil {
		panic(err)
	}
	if ctx.Err() != nil {
		s.log = append(s.log, storageCall{kind: "ac", code: int(codes.Canceled)})
		return cancelled()
	}
	if s.script.FailFinal {
		s.log = append(s.log, storageCall{kind: "ac", code: int(codes.ResourceExhausted)})
		return status.Error(codes.ResourceExhausted, "scripted AC write failure")
	}
	refs := resultRefs(m.(*remoteexecution.ActionResult))
	if refs == nil {
		refs = []int{}
	}
	s.ac[d.GetHashString()] = refs
	s.log = append(s.log, storageCall{kind: "ac"})
	return nil
}

// ---- the innermost executor ---------------------------------------------------

type observedCall struct {
	ret   int
	calls []storageCall
}

type fakeLocal struct {
	cas     blobstore.BlobAccess // the batched store
	s       *fakeStorage
	script  *actionOp
	closes  []*int
	putObs  []observedCall
	nextLog int
}

func (l *fakeLocal) CheckReadiness(ctx context.Context) error { return nil }

func (l *fakeLocal) takeLog() []storageCall {
	l.s.mu.Lock()
	defer l.s.mu.Unlock()
	out := append([]storageCall(nil), l.s.log[l.nextLog:]...)
	l.nextLog = len(l.s.log)
	return out
}

func digestProto(i int) *remoteexecution.Digest { return blobDigest[i].GetProto() }

func (l *fakeLocal) Execute(ctx context.Context, filePool pool.FilePool, monitor access.UnreadDirectoryMonitor, df digest.Function, request *remoteworker.DesiredState_Executing, updates chan<- *remoteworker.CurrentState_Executing) *remoteexecution.ExecuteResponse {
	response := builder.NewDefaultExecuteResponse(request)
	response.Result.ExitCode = int32(l.script.Exit)
	if l.script.Status != 0 {
		response.Status = status.New(codes.Code(l.script.Status), "scripted execution failure").Proto()
	}
	for bi, b := range l.script.Blobs {
		if l.script.Cancel == "upload" && l.script.CancelN == bi {
			l.s.cancel()
		}
		cnt := new(int)
		l.closes = append(l.closes, cnt)
		buf := buffer.NewCASBufferFromReader(blobDigest[b.D], countingReader{Reader: strings.NewReader(string(blobData[b.D])), closes: cnt}, buffer.UserProvided)
		err := l.cas.Put(ctx, blobDigest[b.D], buf)
		l.putObs = append(l.putObs, observedCall{ret: int(status.Code(err)), calls: l.takeLog()})
		if err != nil && response.Status.GetCode() == 0 {
			// what the real local executor does through attachErrorToExecuteResponse
			response.Status = status.Convert(err).Proto()
		}
		switch b.Role {
		case "file":
			response.Result.OutputFiles = append(response.Result.OutputFiles, &remoteexecution.OutputFile{Path: fmt.Sprintf("f%d", bi), Digest: digestProto(b.D)})
		case "tree":
			response.Result.OutputDirectories = append(response.Result.OutputDirectories, &remoteexecution.OutputDirectory{Path: fmt.Sprintf("d%d", bi), TreeDigest: digestProto(b.D)})
		case "stdout":
			if response.Result.StdoutDigest == nil {
				response.Result.StdoutDigest = digestProto(b.D)
			}
		case "stderr":
			if response.Result.StderrDigest == nil {
				response.Result.StderrDigest = digestProto(b.D)
			}
		}
	}
	if l.script.Cancel == "upload" && l.script.CancelN >= len(l.script.Blobs) {
		l.s.cancel()
	}
	return response
}

// ---- execution ----------------------------------------------------------------

func nl(xs []int) string {
	items := make([]string, len(xs))
	for i, x := range xs {
		items[i] = g.N(uint64(x))
	}
	return g.List(items)
}

func obsCallTerm(o observedCall) string {
	fm := "None"
	var puts []string
	for _, c := range o.calls {
		switch c.kind {
		case "fm":
			fm = fmt.Sprintf("(Some (%s, %s))", nl(c.args), g.N(uint64(c.code)))
		case "put":
			puts = append(puts, fmt.Sprintf("(%s, %s)", g.N(uint64(c.args[0])), g.N(uint64(c.code))))
		}
	}
	return g.App("mkOC", g.N(uint64(o.ret)), fm, g.List(puts))
}

func roleTerm(r string) string {
	switch r {
	case "file":
		return "RFile"
	case "tree":
		return "RTree"
	case "stdout":
		return "RStdout"
	case "stderr":
		return "RStderr"
	}
	return "ROther"
}

func optN(d *remoteexecution.Digest) string {
	if d == nil {
		return "None"
	}
	return g.Some(g.N(uint64(indexOfHash(d.GetHash()))))
}

func (area) Execute(raw json.RawMessage) (term string, info *hcommon.Info, err error) {
	var h history
	if err := json.Unmarshal(raw, &h); err != nil {
		return "", nil, err
	}
	if h.Batch < 1 {
		h.Batch = 1
	}
	if h.Sem < 1 {
		h.Sem = 1
	}
	info = hcommon.NewInfo()
	st := &fakeStorage{cas: map[int]bool{}, ac: map[string][]int{}}
	var cas0 []int
	for _, d := range h.CAS0 {
		if d >= 0 && d < universe && !st.cas[d] {
			st.cas[d] = true
			cas0 = append(cas0, d)
		}
	}
	sort.Ints(cas0)
	batched, flush := re_blobstore.NewBatchedStoreBlobAccess(fakeCAS{s: st}, digest.KeyWithoutInstance, h.Batch, semaphore.NewWeighted(int64(h.Sem)))
	local := &fakeLocal{cas: batched, s: st}
	var flushObs observedCall
	browserURL, _ := url.Parse("http://browser/")
	// The decorator order of cmd/bb_worker/main.go, restricted to the
	// decorators that touch storage (the extractor of checks/C09.py
	// compares this order with main.go on every run).
	flushFn := func(ctx context.Context) error {
		if st.script.Cancel == "flush" {
			st.cancel()
		}
		err := flush(ctx)
		flushObs = observedCall{ret: int(status.Code(err)), calls: local.takeLog()}
		if st.script.Cancel == "final" {
			st.cancel()
		}
		return err
	}
	var executor builder.BuildExecutor
	if cachingInsideFlushing() {
		// main.go of the tree under verification wraps the caching executor
		// in the flushing one: compose the real decorators the same way, so
		// that what this order does is observed (the model keeps the order
		// the theorems assume)
		executor = builder.NewStorageFlushingBuildExecutor(
			builder.NewCachingBuildExecutor(local, fakeCAS{s: st}, fakeAC{s: st}, browserURL), flushFn)
	} else {
		executor = builder.NewCachingBuildExecutor(
			builder.NewStorageFlushingBuildExecutor(local, flushFn),
			fakeCAS{s: st}, fakeAC{s: st}, browserURL)
	}

	sawFailure, sawBatchFlush := false, false
	var actions []string
	for ai, a := range h.Ops {
		a := a
		for i := range a.Blobs {
			if a.Blobs[i].D < 0 {
				a.Blobs[i].D = -a.Blobs[i].D
			}
			a.Blobs[i].D %= universe
		}
		if a.Exit < 0 {
			a.Exit = -a.Exit
		}
		if a.Status < 0 || a.Status > 16 {
			a.Status = 13
		}
		st.script = &a
		st.fmCount = 0
		st.putCount = 0
		ctx, cancel := context.WithCancel(context.Background())
		st.cancel = cancel
		if a.Cancel != "" {
			info.Outs["cancel-"+a.Cancel]++
		}
		if a.Cancel == "start" {
			cancel()
		}
		local.script = &a
		local.closes = nil
		local.putObs = nil
		local.nextLog = len(st.log)
		flushObs = observedCall{}
		actionData := []byte(fmt.Sprintf("action-%d", ai))
		sum := sha256.Sum256(actionData)
		actionDigest := &remoteexecution.Digest{Hash: hex.EncodeToString(sum[:]), SizeBytes: int64(len(actionData))}
		request := &remoteworker.DesiredState_Executing{
			ActionDigest: actionDigest,
			Action:       &remoteexecution.Action{DoNotCache: a.DNC},
		}
		response := executor.Execute(ctx, nil, nil, digestFunction, request, nil)
		finalCalls := local.takeLog()
		cancel()
		noteUnissued := func(o observedCall) {
			missing, nput, failed := -1, 0, false
			for _, c := range o.calls {
				switch c.kind {
				case "fm":
					if c.code == 0 {
						missing = c.missing
					}
				case "put":
					nput++
					if c.code != 0 {
						failed = true
					}
				}
			}
			if missing >= 0 && nput < missing {
				info.Outs["put-not-issued"]++
				if !failed {
					info.Outs["put-not-issued-without-put-failure"]++
				}
			}
		}
		for _, o := range local.putObs {
			noteUnissued(o)
		}
		noteUnissued(flushObs)

		info.Events++
		info.Ops["action"]++
		info.Ops["upload"] += len(a.Blobs)
		// script
		var blobs []string
		for _, b := range a.Blobs {
			blobs = append(blobs, g.App("mkBlob", g.N(uint64(b.D)), roleTerm(b.Role)))
		}
		script := g.App("mkAction", g.List(blobs), g.N(uint64(a.Exit)), g.N(uint64(a.Status)), g.Bool(a.DNC))
		// observations
		var puts []string
		for _, o := range local.putObs {
			puts = append(puts, obsCallTerm(o))
			if o.ret != 0 {
				info.Outs["upload-rejected"]++
			}
			for _, c := range o.calls {
				if c.kind == "fm" {
					sawBatchFlush = true
					info.Outs["batch-flush"]++
				}
				if c.code != 0 {
					sawFailure = true
					info.Outs["storage-failure-"+c.kind]++
				}
			}
		}
		for _, c := range flushObs.calls {
			if c.code != 0 {
				sawFailure = true
				info.Outs["storage-failure-"+c.kind]++
			}
		}
		if flushObs.ret != 0 {
			info.Outs["flush-failed"]++
		}
		final := "None"
		for _, c := range finalCalls {
			switch c.kind {
			case "ac":
				final = fmt.Sprintf("(Some (true, %s))", g.N(uint64(c.code)))
			case "hist":
				final = fmt.Sprintf("(Some (false, %s))", g.N(uint64(c.code)))
			default:
				return "", nil, fmt.Errorf("unexpected storage call %q after flush", c.kind)
			}
			if c.code != 0 {
				sawFailure = true
				info.Outs["storage-failure-"+c.kind]++
			}
		}
		msg := 0
		switch {
		case strings.HasPrefix(response.Message, "Action details (cached result)"):
			msg = 1
			info.Outs["cached"]++
		case strings.HasPrefix(response.Message, "Action details (uncached result)"):
			msg = 2
			info.Outs["uncached"]++
		default:
			info.Outs["no-link"]++
		}
		var files, trees []int
		for _, f := range response.GetResult().GetOutputFiles() {
			files = append(files, indexOfHash(f.GetDigest().GetHash()))
		}
		for _, d := range response.GetResult().GetOutputDirectories() {
			trees = append(trees, indexOfHash(d.GetTreeDigest().GetHash()))
		}
		resp := g.App("mkResp", g.N(uint64(response.GetStatus().GetCode())), g.N(uint64(response.GetResult().GetExitCode())),
			nl(files), nl(trees), optN(response.GetResult().GetStdoutDigest()), optN(response.GetResult().GetStderrDigest()), g.N(uint64(msg)))
		if response.GetStatus().GetCode() != 0 {
			info.Outs["response-error"]++
		}
		ac := "None"
		if refs, ok := st.ac[actionDigest.Hash]; ok {
			ac = g.Some(nl(refs))
		}
		var casNow []int
		for d := 0; d < universe; d++ {
			if st.cas[d] {
				casNow = append(casNow, d)
			}
		}
		var closes []string
		for _, c := range local.closes {
			closes = append(closes, g.Nat(*c))
		}
		obs := g.App("mkOA", g.List(puts), obsCallTerm(flushObs), final, resp, ac, nl(casNow), g.List(closes))
		actions = append(actions, fmt.Sprintf("(%s, %s)", script, obs))
	}
	info.Nontrivial = sawFailure && sawBatchFlush
	info.Extra["batch"] = h.Batch
	return g.App("mkCase", g.Nat(h.Batch), nl(cas0), g.List(actions)), info, nil
}

func main() { hcommon.Main(area{}) }

var (
	orderOnce    sync.Once
	orderCaching bool
)

// cachingInsideFlushing reads the decorator order of cmd/bb_worker/main.go of
// the tree under verification ($VERIF_REPO, default /repo).
func cachingInsideFlushing() bool {
	orderOnce.Do(func() {
		repo := os.Getenv("VERIF_REPO")
		if repo == "" {
			repo = "/repo"
		}
		if x, _, err := uploadorder.Extract(repo); err == nil {
			orderCaching = x.CachingInsideFlushing()
		}
	})
	return orderCaching
}
