// Lock-class order graph for property C14 ("concurrent calls never deadlock"
// outside LockPile).
//
// For every *blocking* acquisition of a mutex made while other mutexes may be
// held, an edge (class of the held mutex -> class of the acquired mutex) is
// emitted; class = package.StructType.field of the mutex.  The Coq side
// (Locks/Order.v) proves the generated graph acyclic with a verified checker.
//
//   - "held" is a may-analysis over the same trees the skeleton is printed
//     from: branches are joined by union, loops iterated to a fixed point,
//     deferred statements run at every exit with the union of what may be held
//     there.  Callees are accounted for at the call site: everything the
//     callee (transitively) may acquire is acquired "while holding" what the
//     caller holds at the call.  A function with an entry assumption (pre) is
//     analysed as entered holding it.
//   - Calls that cannot be resolved to one function are resolved *by method
//     name and arity over all analysed packages* (interfaces such as Leaf,
//     Directory, FileAllocator, StatefulHandleAllocation are implemented there);
//     a function literal used as a value is assumed to be called where it is
//     created, a call of a local function value may go to any literal of the
//     enclosing function.  `go` statements do not carry the spawner's locks.
//   - Acquisitions through a LockPile are try-lock/back-off (Pile.v proves
//     them deadlock free among themselves): a pile acquisition yields no edge
//     from locks held in the *same* pile, but it is a blocking acquisition
//     with respect to everything else that is held.
//   - A blocking acquisition of a mutex of the same class as one that is held
//     (not through the same LockPile) has no place in a class order: it must be
//     listed in summaries.json ("order"/"same_class") with a justification,
//     otherwise the translator stops.
package main

import (
	"fmt"
	"os"
	"sort"
	"strings"
)

type heldItem struct {
	key   string // mode|pile|lock expression
	class string
	pile  string
	pos   string // where it was acquired
}

type hset map[string]heldItem

func (h hset) clone() hset {
	o := hset{}
	for k, v := range h {
		o[k] = v
	}
	return o
}

func (h hset) addAll(o hset) bool {
	ch := false
	for k, v := range o {
		if _, ok := h[k]; !ok {
			h[k] = v
			ch = true
		}
	}
	return ch
}

type acqInfo struct {
	class string
	pile  string // "" = blocking mutex call; otherwise the LockPile it goes through (name in the current function, or "~..." if out of scope)
	lock  string // lock expression (in the acquiring function)
	fn    string // function containing the Lock call
	pos   string
	via   string // call chain from the current function down to fn (diagnostics)
	in    string // the lock expression in the *current* function's names, "" if it has none there
}

func (a acqInfo) id() string { return a.class + "|" + a.pile + "|" + a.pos }

func sortedHeld(h hset) []heldItem {
	keys := make([]string, 0, len(h))
	for k := range h {
		keys = append(keys, k)
	}
	sort.Strings(keys)
	out := make([]heldItem, 0, len(h))
	for _, k := range keys {
		out = append(out, h[k])
	}
	return out
}

func sortedAcq(m map[string]acqInfo) []acqInfo {
	keys := make([]string, 0, len(m))
	for k := range m {
		keys = append(keys, k)
	}
	sort.Strings(keys)
	out := make([]acqInfo, 0, len(m))
	for _, k := range keys {
		out = append(out, m[k])
	}
	return out
}

type edgeSite struct {
	From, To     string
	HeldLock     string `json:"held_lock"`
	HeldAt       string `json:"held_acquired_at"`
	InFunc       string `json:"in_function"`
	At           string `json:"at"` // the acquisition, or the call that leads to it
	AcquiredIn   string `json:"acquired_in"`
	AcquiredAt   string `json:"acquired_at"`
	AcquiredLock string `json:"acquired_lock"`
	Via          string `json:"via,omitempty"`
	ThroughPile  bool   `json:"through_lockpile"`
	JustifiedBy  string `json:"justified_by,omitempty"`
}

type orderResult struct {
	Edges     [][2]string           `json:"edges"`
	Sites     map[string][]edgeSite `json:"sites"` // "from -> to" -> first few sites
	SameClass []edgeSite            `json:"same_class_justified"`
	Classes   []string              `json:"classes"`
}

type orderAnalysis struct {
	acq       map[string]map[string]acqInfo // function -> id -> acquisition it may (transitively) perform
	byName    map[string][]*funcInfo
	byPath    map[string]*pkgInfo
	edges     map[[2]string][]edgeSite
	same      []edgeSite
	impls     map[tref][]tref
	usedSame  map[int]bool
	sameCount map[int]int
	usedNot   map[string]bool
	problems  []string
	classes   map[string]bool
}

func canonClass(c string) string {
	for i := 0; i < 8; i++ {
		n, ok := cfg.Order.Aliases[c]
		if !ok {
			break
		}
		c = n
	}
	return c
}

// classOfName finds the class of a lock expression given in fi's names.
func classOfName(fi *funcInfo, lock string) string {
	class := ""
	fi.tree.walk(func(n *node) {
		if (n.kind == "acq" || n.kind == "rel") && n.lock == lock && n.class != "" {
			class = n.class
		}
	})
	if class != "" {
		return class
	}
	parts := strings.Split(lock, ".")
	ty := fi.typeOfIdent(parts[0])
	for i := 1; i < len(parts)-1 && ty != ""; i++ {
		ty = fi.pkg.structs[ty][parts[i]]
	}
	if ty == "" || len(parts) < 2 {
		return ""
	}
	if strings.Contains(ty, ".") {
		return ty + "." + parts[len(parts)-1]
	}
	return fi.pkg.name + "." + ty + "." + parts[len(parts)-1]
}

type tref struct {
	p    *pkgInfo
	name string
}

// resolveType finds a named type of an analysed package; foreign reports a
// type of a package that is not analysed (its path is returned).
func (oa *orderAnalysis) resolveType(from *pkgInfo, ty string) (t tref, ok bool, foreign string) {
	ty = strings.TrimPrefix(ty, "...")
	if i := strings.Index(ty, "."); i >= 0 {
		path, isImp := from.impPath[ty[:i]]
		if !isImp {
			return tref{}, false, ""
		}
		for rel, q := range oa.byPath {
			if strings.HasSuffix(path, "/"+rel) && q.types[ty[i+1:]] {
				return tref{q, ty[i+1:]}, true, ""
			}
		}
		return tref{}, false, path
	}
	if from.types[ty] {
		return tref{from, ty}, true, ""
	}
	return tref{}, false, ""
}

// methodNames: the method set of a named type as far as it can be seen;
// open = it embeds something of a package that is not analysed.
func (oa *orderAnalysis) methodNames(t tref, seen map[tref]bool) (names map[string]bool, open bool) {
	names = map[string]bool{}
	if seen[t] {
		return names, false
	}
	seen[t] = true
	var embeds []string
	if it, ok := t.p.ifaces[t.name]; ok {
		for _, m := range it.methods {
			names[m] = true
		}
		embeds = it.embeds
	} else {
		for local := range t.p.funcs {
			if strings.HasPrefix(local, t.name+".") {
				names[local[len(t.name)+1:]] = true
			}
		}
		embeds = t.p.embeds[t.name]
	}
	for _, e := range embeds {
		et, ok, _ := oa.resolveType(t.p, e)
		if !ok {
			open = true
			continue
		}
		ns, o := oa.methodNames(et, seen)
		for m := range ns {
			names[m] = true
		}
		open = open || o
	}
	return names, open
}

func (oa *orderAnalysis) implementers(i tref) []tref {
	if r, ok := oa.impls[i]; ok {
		return r
	}
	want, _ := oa.methodNames(i, map[tref]bool{})
	var out []tref
	var rels []string
	for rel := range oa.byPath {
		rels = append(rels, rel)
	}
	sort.Strings(rels)
	for _, rel := range rels {
		q := oa.byPath[rel]
		var tys []string
		for ty := range q.types {
			if _, isI := q.ifaces[ty]; !isI {
				tys = append(tys, ty)
			}
		}
		sort.Strings(tys)
		for _, ty := range tys {
			have, open := oa.methodNames(tref{q, ty}, map[tref]bool{})
			ok := true
			for m := range want {
				if !have[m] && !open {
					ok = false
					break
				}
			}
			if ok && len(have) > 0 {
				out = append(out, tref{q, ty})
			}
		}
	}
	oa.impls[i] = out
	return out
}

// lookupMethod: the functions of the analysed packages that t.m() may run.
func (oa *orderAnalysis) lookupMethod(t tref, m string, seen map[tref]bool) []*funcInfo {
	if seen[t] {
		return nil
	}
	seen[t] = true
	if _, isI := t.p.ifaces[t.name]; isI {
		var out []*funcInfo
		for _, impl := range oa.implementers(t) {
			out = append(out, oa.lookupMethod(impl, m, seen)...)
		}
		return out
	}
	if f, ok := t.p.funcs[t.name+"."+m]; ok {
		return []*funcInfo{f}
	}
	var out []*funcInfo
	for _, e := range t.p.embeds[t.name] {
		if et, ok, _ := oa.resolveType(t.p, e); ok {
			if ns, open := oa.methodNames(et, map[tref]bool{}); ns[m] || open {
				out = append(out, oa.lookupMethod(et, m, seen)...)
			}
		}
	}
	return out
}

// dispatch resolves x.m() from the static type of x.  known=false: fall back
// to every method of that name.
func (oa *orderAnalysis) dispatch(from *pkgInfo, ty, m string) ([]*funcInfo, bool) {
	if ty == "" {
		return nil, false
	}
	t, ok, foreign := oa.resolveType(from, ty)
	if ok {
		if _, open := oa.methodNames(t, map[tref]bool{}); open {
			if _, isI := t.p.ifaces[t.name]; isI {
				return nil, false // embeds an interface we cannot see
			}
		}
		fs := oa.lookupMethod(t, m, map[tref]bool{})
		sort.Slice(fs, func(i, j int) bool { return fs[i].key < fs[j].key })
		return fs, true
	}
	if foreign != "" && !strings.Contains(strings.SplitN(foreign, "/", 2)[0], ".") && foreign != "io" {
		// a type of the standard library other than the io interfaces: its
		// methods do not call into the analysed packages
		return nil, true
	}
	return nil, false
}

func arityOK(fi *funcInfo, nargs int) bool {
	n := len(fi.params)
	if n > 0 && strings.HasPrefix(fi.params[n-1].typ, "...") {
		return nargs >= n-1
	}
	return nargs == n
}

// targets lists the functions a call node may reach (not for go statements).
func (oa *orderAnalysis) targets(fi *funcInfo, n *node) []*funcInfo {
	var out []*funcInfo
	switch n.kind {
	case "call", "mkclosure":
		if f, ok := allFuncs[n.fn]; ok {
			out = append(out, f)
		}
	case "xcall":
		i := strings.LastIndex(n.fn, "#")
		path, name := n.fn[:i], n.fn[i+1:]
		for rel, p := range oa.byPath {
			if strings.HasSuffix(path, "/"+rel) {
				if f, ok := p.funcs[name]; ok {
					out = append(out, f)
				}
			}
		}
	case "ucall":
		cands, known := oa.dispatch(fi.pkg, n.class, n.fn)
		if !known {
			cands = oa.byName[n.fn]
		}
		if d := os.Getenv("TRDEBUG"); d != "" && strings.Contains(n.pos, d) {
			var ks []string
			for _, c := range cands {
				ks = append(ks, c.key)
			}
			fmt.Fprintf(os.Stderr, "debug: %s %s.%s static type %q known=%v -> %v\n", n.pos, fi.key, n.fn, n.class, known, ks)
		}
		for _, c := range cands {
			if _, ex := cfg.Exempt[c.key]; ex {
				continue
			}
			if !arityOK(c, n.nargs) {
				continue
			}
			local := strings.TrimPrefix(c.key, c.pkg.name+".")
			if _, no := cfg.Order.NotCalled[fi.key][c.pkg.name+"."+local]; no {
				oa.usedNot[fi.key+"|"+c.pkg.name+"."+local] = true
				continue
			}
			out = append(out, c)
		}
	case "lcall":
		top := fi
		for top.parent != nil {
			top = top.parent
		}
		for _, f := range order {
			if f.closure && strings.HasPrefix(f.key, top.key+"$") {
				out = append(out, f)
			}
		}
	}
	return out
}

func liftPile(a acqInfo, n *node, callee *funcInfo) acqInfo {
	if a.via == "" {
		a.via = callee.key
	} else {
		a.via = callee.key + " > " + a.via
	}
	// the lock expression in the caller's names: through the renaming of the
	// call (locks the callee's summary mentions), or unchanged for a literal
	if a.in != "" {
		in := ""
		if n.kind == "call" {
			for _, p := range n.sigL {
				if p[0] == a.in {
					in = p[1]
				}
			}
		}
		if in == "" && callee.closure && (n.kind == "call" || n.kind == "mkclosure" || n.kind == "lcall") {
			in = a.in
		}
		a.in = in
	}
	if a.pile == "" {
		return a
	}
	if n.kind == "call" {
		for _, p := range n.sigP {
			if p[0] == a.pile {
				a.pile = p[1]
				return a
			}
		}
		if callee.closure && !strings.HasPrefix(a.pile, "~") {
			return a // a literal shares the variables of the enclosing function
		}
	}
	if n.kind == "mkclosure" || n.kind == "lcall" {
		if !strings.HasPrefix(a.pile, "~") {
			return a
		}
	}
	if !strings.HasPrefix(a.pile, "~") {
		a.pile = "~" + callee.key + "." + a.pile
	}
	return a
}

// computeAcquires: least fixed point of "what may be acquired below this function".
func (oa *orderAnalysis) computeAcquires() {
	for _, fi := range order {
		m := map[string]acqInfo{}
		if _, ex := cfg.Exempt[fi.key]; !ex {
			fi.tree.walk(func(n *node) {
				if n.kind == "acq" {
					pile := ""
					if n.mode == "P" {
						pile = n.pile
					}
					a := acqInfo{class: canonClass(n.class), pile: pile, lock: n.lock, fn: fi.key, pos: n.pos, in: n.lock}
					if n.class == "" {
						a.class = "?" + n.lock + "@" + fi.key
					}
					m[a.id()] = a
				}
			})
		}
		oa.acq[fi.key] = m
	}
	for changed := true; changed; {
		changed = false
		for _, fi := range order {
			if _, ex := cfg.Exempt[fi.key]; ex {
				continue
			}
			m := oa.acq[fi.key]
			fi.tree.walk(func(n *node) {
				if n.isGo {
					return
				}
				switch n.kind {
				case "call", "ucall", "xcall", "lcall", "mkclosure":
					for _, callee := range oa.targets(fi, n) {
						for _, a := range sortedAcq(oa.acq[callee.key]) {
							la := liftPile(a, n, callee)
							if _, ok := m[la.id()]; !ok {
								m[la.id()] = la
								changed = true
							}
						}
					}
				}
			})
		}
	}
}

type walkCtx struct {
	fi     *funcInfo
	exits  hset   // what may be held where the function (or inlined closure) is left
	breaks []hset // per enclosing loop
	conts  []hset
	defers []*node // in program order
}

func (oa *orderAnalysis) edge(fi *funcInfo, at string, h heldItem, a acqInfo) {
	if a.pile != "" && h.pile == a.pile {
		return // same LockPile: try-lock with back-off (Pile.v)
	}
	from, to := canonClass(h.class), a.class
	parts := strings.SplitN(h.key, "|", 3)
	if a.in != "" && parts[2] == a.in {
		// the very mutex that may be held is (re)acquired: Unlock ... Lock of
		// a lock held on entry (waitExecution, txOpen, IdleInvoker.clean), seen
		// through a may-analysis.  Not a question of order between two mutexes.
		return
	}
	site := edgeSite{From: from, To: to, HeldLock: parts[2], HeldAt: h.pos, InFunc: fi.key, At: at,
		AcquiredIn: a.fn, AcquiredAt: a.pos, AcquiredLock: a.lock, ThroughPile: a.pile != "", Via: a.via}
	if strings.HasPrefix(from, "?") || strings.HasPrefix(to, "?") || from == "" {
		oa.problems = append(oa.problems, fmt.Sprintf("%s: %s: cannot tell the class of a mutex in a nested acquisition (%s held, %s acquired at %s)", fi.key, at, from, to, a.pos))
		return
	}
	oa.classes[from] = true
	oa.classes[to] = true
	for i, sc := range cfg.Order.SameClass {
		held := sc.HeldClass
		if held == "" {
			held = sc.Class
		}
		if sc.AcquiredIn == a.fn && sc.Class == to && held == from && (sc.Via == "" || sc.Via == fi.key || strings.Contains(" > "+a.via+" > ", " > "+sc.Via+" > ")) {
			oa.usedSame[i] = true
			site.JustifiedBy = sc.Why
			if len(oa.sameCount) == 0 {
				oa.sameCount = map[int]int{}
			}
			oa.sameCount[i]++
			if oa.sameCount[i] <= 3 {
				oa.same = append(oa.same, site)
			}
			return
		}
	}
	if from == to {
		oa.problems = append(oa.problems, fmt.Sprintf(
			"%s: %s: blocking acquisition of a %s (%s, acquired at %s in %s) while a mutex of the same class is held (%s, acquired at %s), not through one LockPile, and no justification in summaries.json order/justified [call chain: %s]",
			fi.key, at, to, a.lock, a.pos, a.fn, parts[2], h.pos, a.via))
		return
	}
	k := [2]string{from, to}
	if len(oa.edges[k]) < 4 {
		oa.edges[k] = append(oa.edges[k], site)
	}
}

func itemKey(mode, pile, lock string) string {
	if mode != "P" {
		pile = ""
	}
	return mode + "|" + pile + "|" + lock
}

// walk returns what may be held after n, and whether control can fall through.
func (oa *orderAnalysis) walk(c *walkCtx, n *node, in hset) (hset, bool) {
	switch n.kind {
	case "skip", "setflag", "mark":
		return in, true
	case "acq":
		pile := ""
		if n.mode == "P" {
			pile = n.pile
		}
		class := canonClass(n.class)
		if n.class == "" {
			class = "?" + n.lock + "@" + c.fi.key
		}
		a := acqInfo{class: class, pile: pile, lock: n.lock, fn: c.fi.key, pos: n.pos, in: n.lock}
		for _, h := range sortedHeld(in) {
			oa.edge(c.fi, n.pos, h, a)
		}
		out := in.clone()
		k := itemKey(n.mode, n.pile, n.lock)
		if _, ok := out[k]; !ok {
			out[k] = heldItem{key: k, class: class, pile: pile, pos: n.pos}
		}
		return out, true
	case "rel":
		out := in.clone()
		delete(out, itemKey(n.mode, n.pile, n.lock))
		return out, true
	case "pua":
		out := hset{}
		for k, h := range in {
			if h.pile != n.pile {
				out[k] = h
			}
		}
		return out, true
	case "defer":
		c.defers = append(c.defers, n.kids[0])
		return in, true
	case "return", "panic":
		c.exits.addAll(in)
		return hset{}, false
	case "break":
		if len(c.breaks) > 0 {
			c.breaks[len(c.breaks)-1].addAll(in)
		}
		return hset{}, false
	case "continue":
		if len(c.conts) > 0 {
			c.conts[len(c.conts)-1].addAll(in)
		}
		return hset{}, false
	case "seq":
		cur := in
		for _, k := range n.kids {
			var ok bool
			cur, ok = oa.walk(c, k, cur)
			if !ok {
				return hset{}, false
			}
		}
		return cur, true
	case "alt", "ifflag":
		out := hset{}
		falls := false
		for _, k := range n.kids {
			o, ok := oa.walk(c, k, in)
			if ok {
				out.addAll(o)
				falls = true
			}
		}
		return out, falls
	case "loop":
		head := in.clone()
		brk := hset{}
		c.breaks = append(c.breaks, brk)
		cont := hset{}
		c.conts = append(c.conts, cont)
		broke := false
		for iter := 0; iter < 50; iter++ {
			nb := len(brk)
			o, ok := oa.walk(c, n.kids[0], head)
			ch := false
			if ok {
				ch = head.addAll(o)
			}
			if head.addAll(cont) {
				ch = true
			}
			if len(brk) != nb {
				ch = true
			}
			if !ch {
				break
			}
		}
		c.breaks = c.breaks[:len(c.breaks)-1]
		c.conts = c.conts[:len(c.conts)-1]
		broke = n.kids[0].has("break")
		out := brk.clone()
		if !n.inf {
			out.addAll(head)
		}
		return out, !n.inf || broke
	case "scope":
		// an inlined closure: return leaves the closure only
		sub := &walkCtx{fi: c.fi, exits: hset{}}
		o, ok := oa.walk(sub, n.kids[0], in)
		out := sub.exits
		if ok {
			out.addAll(o)
		}
		out = oa.runDefers(sub, out)
		return out, true
	case "call", "ucall", "xcall", "lcall", "mkclosure":
		out := in
		if !n.isGo {
			for _, callee := range oa.targets(c.fi, n) {
				for _, a := range sortedAcq(oa.acq[callee.key]) {
					la := liftPile(a, n, callee)
					for _, h := range sortedHeld(in) {
						oa.edge(c.fi, n.pos, h, la)
					}
				}
			}
		}
		if n.kind == "call" {
			if sm, ok := cfg.Summaries[n.fn]; ok {
				callee := allFuncs[n.fn]
				out = in.clone()
				ren := func(lock string) string {
					for _, p := range n.sigL {
						if p[0] == lock {
							return p[1]
						}
					}
					return lock
				}
				for _, d := range sm.Delta {
					sign, mode, lock, _ := parseItem(d)
					k := itemKey(mode, "", ren(lock))
					if sign == "+" {
						cl := classOfName(callee, lock)
						if cl == "" {
							cl = "?" + lock + "@" + callee.key
						}
						out[k] = heldItem{key: k, class: canonClass(cl), pos: n.pos + " (" + n.fn + ")"}
					} else {
						delete(out, k)
					}
				}
			}
		}
		return out, true
	}
	panic("order: unknown node kind " + n.kind)
}

func (oa *orderAnalysis) runDefers(c *walkCtx, at hset) hset {
	cur := at
	for i := len(c.defers) - 1; i >= 0; i-- {
		sub := &walkCtx{fi: c.fi, exits: hset{}}
		o, ok := oa.walk(sub, c.defers[i], cur)
		nx := sub.exits
		if ok {
			nx.addAll(o)
		}
		cur = nx
	}
	return cur
}

func lockOrder(pkgs []*pkgInfo) *orderResult {
	oa := &orderAnalysis{acq: map[string]map[string]acqInfo{}, byName: map[string][]*funcInfo{}, byPath: map[string]*pkgInfo{},
		edges: map[[2]string][]edgeSite{}, impls: map[tref][]tref{}, usedSame: map[int]bool{}, usedNot: map[string]bool{}, classes: map[string]bool{}}
	for _, p := range pkgs {
		oa.byPath[p.dir] = p
		for name, fs := range p.byName {
			oa.byName[name] = append(oa.byName[name], fs...)
		}
	}
	for name := range oa.byName {
		fs := oa.byName[name]
		sort.Slice(fs, func(i, j int) bool { return fs[i].key < fs[j].key })
	}
	for k, v := range cfg.Order.Aliases {
		if cfg.Order.AliasWhy[k] == "" {
			die("summaries.json: order/aliases: %s -> %s has no justification in alias_why", k, v)
		}
	}
	for _, sc := range cfg.Order.SameClass {
		if sc.Why == "" {
			die("summaries.json: order/justified: %s has no justification", sc.AcquiredIn)
		}
		for _, f := range []string{sc.AcquiredIn, sc.Via} {
			if _, ok := allFuncs[f]; !ok && f != "" {
				die("summaries.json: order/justified: function %s does not exist (stale entry)", f)
			}
		}
	}
	for caller, m := range cfg.Order.NotCalled {
		if _, ok := allFuncs[caller]; !ok {
			die("summaries.json: order/not_called: function %s does not exist (stale entry)", caller)
		}
		for cand, why := range m {
			if _, ok := allFuncs[cand]; !ok {
				die("summaries.json: order/not_called: function %s does not exist (stale entry)", cand)
			}
			if why == "" {
				die("summaries.json: order/not_called: %s / %s has no justification", caller, cand)
			}
		}
	}
	oa.computeAcquires()
	for _, fi := range order {
		if _, ex := cfg.Exempt[fi.key]; ex {
			continue
		}
		in := hset{}
		if sm, ok := cfg.Summaries[fi.key]; ok {
			for _, it := range sm.pre() {
				cl := classOfName(fi, it.lock)
				if cl == "" {
					cl = "?" + it.lock + "@" + fi.key
				}
				k := itemKey(it.mode, "", it.lock)
				in[k] = heldItem{key: k, class: canonClass(cl), pos: "entry of " + fi.key}
			}
		}
		c := &walkCtx{fi: fi, exits: hset{}}
		o, ok := oa.walk(c, fi.tree, in)
		ex := c.exits
		if ok {
			ex.addAll(o)
		}
		oa.runDefers(c, ex)
	}
	for i, sc := range cfg.Order.SameClass {
		if !oa.usedSame[i] {
			die("summaries.json: order/justified: %s / %s justifies nothing (stale entry)", sc.AcquiredIn, sc.Class)
		}
	}
	for caller, m := range cfg.Order.NotCalled {
		for cand := range m {
			if !oa.usedNot[caller+"|"+cand] {
				die("summaries.json: order/not_called: %s / %s excludes nothing (stale entry)", caller, cand)
			}
		}
	}
	if len(oa.problems) > 0 {
		sort.Strings(oa.problems)
		seen := map[string]bool{}
		for _, p := range oa.problems {
			if !seen[p] {
				seen[p] = true
				orderFatal = append(orderFatal, "lock order: "+p)
			}
		}
	}
	res := &orderResult{Sites: map[string][]edgeSite{}, SameClass: oa.same}
	for k := range oa.edges {
		res.Edges = append(res.Edges, k)
	}
	sort.Slice(res.Edges, func(i, j int) bool {
		if res.Edges[i][0] != res.Edges[j][0] {
			return res.Edges[i][0] < res.Edges[j][0]
		}
		return res.Edges[i][1] < res.Edges[j][1]
	})
	for _, e := range res.Edges {
		res.Sites[e[0]+" -> "+e[1]] = oa.edges[e]
	}
	for c := range oa.classes {
		res.Classes = append(res.Classes, c)
	}
	sort.Strings(res.Classes)
	return res
}
