// Command translator regenerates the lock skeleton of /repo for property C14.
//
// It walks every function, method and function literal of the packages C14
// names (non-test files, default build tags) and emits a Coq file defining
//
//	prog         : Checker.program   one structured skeleton per function that
//	                                 touches locks directly or through calls
//	entry_points : list string       functions without a declared summary
//
// over the statement language of coq/theories/Locks/Checker.v.  Lock names
// are the Go expressions the mutex methods are called on.  A construct that
// touches locks and that the translator does not understand is an error
// (exit status 2), never skipped.
//
// Assumption that lives here (and only here): a call that cannot be resolved
// to a function of the same package (calls into other packages, through
// interfaces or function values) has no net effect on the locks the caller
// holds.  This is backed by the obligation itself for the analysed packages:
// every function is checked to have net effect zero unless it is listed in
// summaries.json, and those listed are unexported, so they cannot be reached
// from another package or through an exported interface.
package main

import (
	_ "embed"
	"encoding/json"
	"flag"
	"fmt"
	"go/ast"
	"go/build/constraint"
	"go/parser"
	"go/token"
	"os"
	"path/filepath"
	"sort"
	"strings"
)

//go:embed summaries.json
var configJSON []byte

type summaryCfg struct {
	Delta []string `json:"delta"` // "+W f.lock", "-W bq.lock", "+R x.lock"
	Dirty []string `json:"dirty"` // LockPile parameters the function may add to
	Pre   []string `json:"pre"`   // "W bq.lock": mutexes the caller holds when it calls (every "-" item of delta is added)
	Plow  []string `json:"plow"`  // "W bq.lock": mutexes that may be released (net) when the function panics
	Why   string   `json:"why"`
}

type sameClassCfg struct {
	AcquiredIn string `json:"acquired_in"` // function that contains the Lock call
	Via        string `json:"via"`         // optional: a function the call chain from the holder to acquired_in goes through
	Class      string `json:"class"`       // lock class acquired ...
	HeldClass  string `json:"held_class"`  // ... while a lock of this class is held (default: the same class)
	Why        string `json:"why"`
}

type orderCfg struct {
	Aliases   map[string]string            `json:"aliases"`    // lock class -> class it is the same mutex as
	AliasWhy  map[string]string            `json:"alias_why"`  // justification per alias
	SameClass []sameClassCfg               `json:"justified"`  // nested acquisitions kept out of the class graph: same-class nesting outside LockPile (parent before child ...), or a nesting between instances the class abstraction cannot tell apart; each with the argument why no cycle goes through it
	NotCalled map[string]map[string]string `json:"not_called"` // caller -> "Type.method" candidate -> why it is not a target of a call by name
}

type sectionCfg struct {
	A    string `json:"a"`    // opening event, "call:<receiver expression>.<Method>"
	B    string `json:"b"`    // closing event (optional: the section is the event a alone)
	Lock string `json:"lock"` // mutex expression, in the function's names
	Mode string `json:"mode"` // "exclusive" | "shared" (at least shared)
	Why  string `json:"why"`
}

type watchedCfg struct {
	Type    string   `json:"type"`    // pkg.Type
	Methods []string `json:"methods"` // every call site of these methods must be covered by a section
	Why     string   `json:"why"`
}

type atomicCfg struct {
	Watched  []watchedCfg            `json:"watched"`
	Sections map[string][]sectionCfg `json:"sections"` // function -> its atomic sections
}

type config struct {
	Packages  []string              `json:"packages"`
	Summaries map[string]summaryCfg `json:"summaries"`
	Exempt    map[string]string     `json:"exempt"`
	Order     orderCfg              `json:"order"`
	Atomic    atomicCfg             `json:"atomic"`
}

// ---------------------------------------------------------------------------
// Skeleton nodes

type node struct {
	kind string // skip acq rel pua defer call return panic break continue alt loop seq scope setflag ifflag
	// only for the lock-order analysis (dropped from the emitted skeleton):
	// ucall (call by method name that cannot be resolved), xcall (function of another analysed package),
	// lcall (call of a local function value), mkclosure (function literal used as a value)
	class  string // acq/rel: lock class (pkg.Type.field)
	pos    string // file:line
	isGo   bool   // call: go statement (the callee does not run under the caller's locks)
	nargs  int    // ucall: number of arguments
	mode   string // W R P
	pile   string
	lock   string
	fn     string
	sigP   [][2]string
	sigL   [][2]string
	actual map[string]string // call: callee receiver/parameter name -> the argument as a lock-expression prefix in the caller
	inf    bool
	flag   string
	val    bool
	kids   []*node
}

func nSkip() *node { return &node{kind: "skip"} }
func nSeq(kids ...*node) *node {
	return &node{kind: "seq", kids: kids}
}

func q(s string) string { return "\"" + strings.ReplaceAll(s, "\"", "\"\"") + "\"" }

func pairs(ps [][2]string) string {
	var out []string
	for _, p := range ps {
		out = append(out, "("+q(p[0])+", "+q(p[1])+")")
	}
	return "[" + strings.Join(out, "; ") + "]"
}

func (n *node) coq() string {
	switch n.kind {
	case "skip", "ucall", "xcall", "lcall", "mkclosure":
		return "Skip"
	case "mark":
		return "Mark " + q(n.fn)
	case "acq", "rel":
		name := map[string]string{"acqW": "Lock", "acqR": "RLock", "acqP": "PileLock", "relW": "Unlock", "relR": "RUnlock", "relP": "PileUnlock"}[n.kind+n.mode]
		if n.mode == "P" {
			return name + " " + q(n.pile) + " " + q(n.lock)
		}
		return name + " " + q(n.lock)
	case "pua":
		return "PileUnlockAll " + q(n.pile)
	case "defer":
		return "Defer (" + n.kids[0].coq() + ")"
	case "call":
		return "Call " + q(n.fn) + " (mkS " + pairs(n.sigP) + " " + pairs(n.sigL) + ")"
	case "return":
		return "Return"
	case "panic":
		return "Panic"
	case "break":
		return "Break"
	case "continue":
		return "Continue"
	case "alt":
		var ks []string
		for _, k := range n.kids {
			ks = append(ks, k.coq())
		}
		return "Alts [" + strings.Join(ks, "; ") + "]"
	case "seq":
		var ks []string
		for _, k := range n.kids {
			ks = append(ks, k.coq())
		}
		return "Seqs [" + strings.Join(ks, "; ") + "]"
	case "loop":
		b := "false"
		if n.inf {
			b = "true"
		}
		return "Loop " + b + " (" + n.kids[0].coq() + ")"
	case "scope":
		return "Scope (" + n.kids[0].coq() + ")"
	case "setflag":
		b := "false"
		if n.val {
			b = "true"
		}
		return "SetFlag " + q(n.flag) + " " + b
	case "ifflag":
		return "IfFlag " + q(n.flag) + " (" + n.kids[0].coq() + ") (" + n.kids[1].coq() + ")"
	}
	panic("unknown node kind " + n.kind)
}

// walk calls f on every node of the tree.
func (n *node) walk(f func(*node)) {
	f(n)
	for _, k := range n.kids {
		k.walk(f)
	}
}

func (n *node) has(kinds ...string) bool {
	found := false
	n.walk(func(m *node) {
		for _, k := range kinds {
			if m.kind == k {
				found = true
			}
		}
	})
	return found
}

// simplify removes structure that cannot matter; keep says which calls stay.
func simplify(n *node, keep func(fn string) bool, liveFlags map[string]bool) *node {
	for i, k := range n.kids {
		n.kids[i] = simplify(k, keep, liveFlags)
	}
	switch n.kind {
	case "ucall", "xcall", "lcall", "mkclosure":
		return nSkip()
	case "call":
		if !keep(n.fn) {
			if mayPanic[n.fn] && !n.isGo {
				// a function that touches no lock but may panic: all the
				// caller needs to know
				return &node{kind: "alt", kids: []*node{{kind: "panic"}, nSkip()}}
			}
			return nSkip()
		}
	case "setflag":
		if !liveFlags[n.flag] {
			return nSkip()
		}
	case "seq":
		var ks []*node
		for _, k := range n.kids {
			if k.kind == "seq" {
				ks = append(ks, k.kids...)
			} else if k.kind != "skip" {
				ks = append(ks, k)
			}
		}
		// nothing after an unconditional jump is reachable
		for i, k := range ks {
			if k.kind == "return" || k.kind == "panic" || k.kind == "break" || k.kind == "continue" {
				ks = ks[:i+1]
				break
			}
		}
		if len(ks) == 0 {
			return nSkip()
		}
		if len(ks) == 1 {
			return ks[0]
		}
		n.kids = ks
	case "alt":
		seen := map[string]bool{}
		var ks []*node
		for _, k := range n.kids {
			s := k.coq()
			if !seen[s] {
				seen[s] = true
				ks = append(ks, k)
			}
		}
		if len(ks) == 1 {
			return ks[0]
		}
		n.kids = ks
	case "loop":
		if !n.inf && n.kids[0].kind == "skip" {
			return nSkip()
		}
	case "scope":
		if !n.kids[0].has("return", "break", "continue") {
			return n.kids[0]
		}
	case "defer":
		if n.kids[0].kind == "skip" {
			return nSkip()
		}
	case "ifflag":
		if n.kids[0].kind == "skip" && n.kids[1].kind == "skip" {
			return nSkip()
		}
		if !liveFlags[n.flag] {
			return &node{kind: "alt", kids: n.kids}
		}
	}
	return n
}

// ---------------------------------------------------------------------------
// Packages

type param struct {
	name string
	typ  string
}

type funcInfo struct {
	key      string // pkg.Type.method, pkg.func, parent$N
	pkg      *pkgInfo
	file     string
	line     int
	recv     *param
	params   []param
	results  []string
	body     *ast.BlockStmt
	exported bool
	closure  bool
	parent   *funcInfo // for closures: environment comes from here
	tree     *node
	direct   bool     // contains lock/pile operations itself
	problems []string // constructs not understood (fatal if the function matters)
	calls    map[string]bool
	nclos    int
	env      map[string]string
	flagVars map[string]bool
	aliases  map[string]string   // local x := recv.a.b (assigned once) -> "recv.a.b"
	defs     map[string]ast.Expr // locals defined exactly once: their defining expression
}

type pkgInfo struct {
	name    string
	dir     string
	structs map[string]map[string]string // type -> field -> type
	funcs   map[string]*funcInfo         // "T.m" or "f"
	byName  map[string][]*funcInfo       // method name -> methods
	imports map[string]bool              // local names of imported packages
	impPath map[string]string            // local name -> import path
	types   map[string]bool              // named types declared here
	ifaces  map[string]*ifaceInfo        // interface types declared here
	embeds  map[string][]string          // struct type -> embedded types
	tparams map[string][]string          // generic type -> its type parameters
	generic map[string][]string          // type X = G[A, B] -> [G, A, B]
}

type ifaceInfo struct {
	methods []string
	embeds  []string
	results map[string][]string // method -> result types
}

// ifaceResults: result types of method m of interface ty (declared in p),
// looking through embedded interfaces of the same package.
func (p *pkgInfo) ifaceResults(ty, m string, depth int) ([]string, bool) {
	it, ok := p.ifaces[ty]
	if !ok || depth > 8 {
		return nil, false
	}
	if rs, ok := it.results[m]; ok {
		return rs, true
	}
	for _, e := range it.embeds {
		if rs, ok := p.ifaceResults(e, m, depth+1); ok {
			return rs, true
		}
	}
	return nil, false
}

var (
	plowEff  = map[string][]sitem{} // panic bound per function: declared, or propagated from callees
	mayPanic = map[string]bool{}
	repoRoot string
	fset     = token.NewFileSet()
	cfg      config
	allFuncs = map[string]*funcInfo{}
	order    []*funcInfo
	fatal    []string
	// nested acquisitions that cannot be placed in the lock-class order: the
	// skeleton is still written (the balance obligations can be evaluated), exit status 3
	orderFatal []string
)

func typeBase(e ast.Expr) string {
	switch t := e.(type) {
	case *ast.Ident:
		return t.Name
	case *ast.StarExpr:
		return typeBase(t.X)
	case *ast.ParenExpr:
		return typeBase(t.X)
	case *ast.SelectorExpr:
		if x, ok := t.X.(*ast.Ident); ok {
			return x.Name + "." + t.Sel.Name
		}
	case *ast.IndexExpr:
		if b := typeBase(t.X); b == "atomic.Pointer" {
			if v := typeBase(t.Index); v != "" {
				return "atomicptr[]" + v
			}
		}
		return typeBase(t.X)
	case *ast.IndexListExpr:
		return typeBase(t.X)
	case *ast.MapType:
		if v := typeBase(t.Value); v != "" {
			return "map[]" + v
		}
	case *ast.ArrayType:
		if v := typeBase(t.Elt); v != "" {
			return "[]" + v
		}
	}
	return ""
}

// elemType: the element type of a map or slice type as typeBase renders it.
func elemType(ty string) string {
	if strings.HasPrefix(ty, "map[]") {
		return ty[5:]
	}
	if strings.HasPrefix(ty, "[]") {
		return ty[2:]
	}
	return ""
}

func isPileType(t string) bool { return t == "LockPile" || strings.HasSuffix(t, ".LockPile") }

var knownOS = map[string]bool{"aix": true, "android": true, "darwin": true, "dragonfly": true, "freebsd": true, "illumos": true, "ios": true, "js": true, "linux": true, "netbsd": true, "openbsd": true, "plan9": true, "solaris": true, "wasip1": true, "windows": true}
var knownArch = map[string]bool{"386": true, "amd64": true, "arm": true, "arm64": true, "loong64": true, "mips": true, "mips64": true, "mips64le": true, "mipsle": true, "ppc64": true, "ppc64le": true, "riscv64": true, "s390x": true, "wasm": true}

func tagOK(tag string) bool {
	switch tag {
	case "linux", "amd64", "unix", "gc":
		return true
	}
	return strings.HasPrefix(tag, "go1.")
}

func fileIncluded(path string, f *ast.File) bool {
	base := strings.TrimSuffix(filepath.Base(path), ".go")
	parts := strings.Split(base, "_")
	if n := len(parts); n >= 2 {
		last := parts[n-1]
		if knownOS[last] && last != "linux" {
			return false
		}
		if knownArch[last] {
			if last != "amd64" {
				return false
			}
			if n >= 3 && knownOS[parts[n-2]] && parts[n-2] != "linux" {
				return false
			}
		}
	}
	for _, cg := range f.Comments {
		if cg.Pos() >= f.Package {
			break
		}
		for _, c := range cg.List {
			if constraint.IsGoBuild(c.Text) {
				x, err := constraint.Parse(c.Text)
				if err == nil && !x.Eval(tagOK) {
					return false
				}
			}
		}
	}
	return true
}

func loadPackage(repo, rel string) *pkgInfo {
	dir := filepath.Join(repo, rel)
	entries, err := os.ReadDir(dir)
	if err != nil {
		die("cannot read package %s: %v", rel, err)
	}
	p := &pkgInfo{dir: rel, structs: map[string]map[string]string{}, funcs: map[string]*funcInfo{}, byName: map[string][]*funcInfo{}, imports: map[string]bool{}, impPath: map[string]string{}, types: map[string]bool{}, ifaces: map[string]*ifaceInfo{}, embeds: map[string][]string{}, tparams: map[string][]string{}, generic: map[string][]string{}}
	var files []*ast.File
	var names []string
	for _, e := range entries {
		n := e.Name()
		if e.IsDir() || !strings.HasSuffix(n, ".go") || strings.HasSuffix(n, "_test.go") {
			continue
		}
		path := filepath.Join(dir, n)
		f, err := parser.ParseFile(fset, path, nil, parser.ParseComments|parser.SkipObjectResolution)
		if err != nil {
			die("parse %s: %v", path, err)
		}
		if !fileIncluded(path, f) {
			continue
		}
		files = append(files, f)
		names = append(names, filepath.Join(rel, n))
		p.name = f.Name.Name
	}
	for _, f := range files {
		for _, im := range f.Imports {
			path := strings.Trim(im.Path.Value, "\"")
			name := path[strings.LastIndex(path, "/")+1:]
			if im.Name != nil {
				name = im.Name.Name
			}
			p.imports[name] = true
			p.impPath[name] = path
		}
		for _, d := range f.Decls {
			gd, ok := d.(*ast.GenDecl)
			if !ok || gd.Tok != token.TYPE {
				continue
			}
			for _, s := range gd.Specs {
				ts := s.(*ast.TypeSpec)
				p.types[ts.Name.Name] = true
				if ts.TypeParams != nil {
					for _, fl := range ts.TypeParams.List {
						for _, nm := range fl.Names {
							p.tparams[ts.Name.Name] = append(p.tparams[ts.Name.Name], nm.Name)
						}
					}
				}
				if il, ok := ts.Type.(*ast.IndexListExpr); ok {
					g := []string{typeBase(il.X)}
					for _, a := range il.Indices {
						g = append(g, typeBase(a))
					}
					p.generic[ts.Name.Name] = g
				} else if ie, ok := ts.Type.(*ast.IndexExpr); ok {
					p.generic[ts.Name.Name] = []string{typeBase(ie.X), typeBase(ie.Index)}
				}
				if it, ok := ts.Type.(*ast.InterfaceType); ok {
					info := &ifaceInfo{results: map[string][]string{}}
					for _, m := range it.Methods.List {
						if len(m.Names) == 0 {
							if tb := typeBase(m.Type); tb != "" {
								info.embeds = append(info.embeds, tb)
							}
						}
						for _, nm := range m.Names {
							info.methods = append(info.methods, nm.Name)
							if ft, ok := m.Type.(*ast.FuncType); ok {
								info.results[nm.Name] = resultsOf(ft)
							}
						}
					}
					p.ifaces[ts.Name.Name] = info
					continue
				}
				st, ok := ts.Type.(*ast.StructType)
				if !ok {
					continue
				}
				fields := map[string]string{}
				for _, fl := range st.Fields.List {
					tb := typeBase(fl.Type)
					if len(fl.Names) == 0 {
						nm := tb
						if i := strings.LastIndex(nm, "."); i >= 0 {
							nm = nm[i+1:]
						}
						fields[nm] = tb
						p.embeds[ts.Name.Name] = append(p.embeds[ts.Name.Name], tb)
					}
					for _, nm := range fl.Names {
						fields[nm.Name] = tb
					}
				}
				p.structs[ts.Name.Name] = fields
			}
		}
	}
	for i, f := range files {
		for _, d := range f.Decls {
			fd, ok := d.(*ast.FuncDecl)
			if !ok || fd.Body == nil {
				continue
			}
			fi := &funcInfo{pkg: p, file: names[i], line: fset.Position(fd.Pos()).Line, body: fd.Body, exported: fd.Name.IsExported(), calls: map[string]bool{}}
			local := fd.Name.Name
			if fd.Recv != nil && len(fd.Recv.List) == 1 {
				r := fd.Recv.List[0]
				tb := typeBase(r.Type)
				rp := param{typ: tb}
				if len(r.Names) == 1 {
					rp.name = r.Names[0].Name
				}
				fi.recv = &rp
				local = tb + "." + fd.Name.Name
				p.byName[fd.Name.Name] = append(p.byName[fd.Name.Name], fi)
			}
			fi.params = paramsOf(fd.Type)
			fi.results = resultsOf(fd.Type)
			fi.key = p.name + "." + local
			if _, dup := p.funcs[local]; dup {
				if local == "init" || local == "_" {
					fi.key = fmt.Sprintf("%s.%s@%s:%d", p.name, local, filepath.Base(names[i]), fi.line)
					local = fi.key
				} else {
					die("duplicate function %s in %s", local, rel)
				}
			}
			p.funcs[local] = fi
			register(fi)
		}
	}
	return p
}

func paramsOf(ft *ast.FuncType) []param {
	var ps []param
	if ft.Params == nil {
		return ps
	}
	for _, fl := range ft.Params.List {
		tb := typeBase(fl.Type)
		if el, ok := fl.Type.(*ast.Ellipsis); ok {
			tb = "..." + typeBase(el.Elt)
		}
		if len(fl.Names) == 0 {
			ps = append(ps, param{typ: tb})
		}
		for _, nm := range fl.Names {
			ps = append(ps, param{name: nm.Name, typ: tb})
		}
	}
	return ps
}

func resultsOf(ft *ast.FuncType) []string {
	var rs []string
	if ft.Results == nil {
		return rs
	}
	for _, fl := range ft.Results.List {
		n := len(fl.Names)
		if n == 0 {
			n = 1
		}
		for i := 0; i < n; i++ {
			rs = append(rs, typeBase(fl.Type))
		}
	}
	return rs
}

func register(fi *funcInfo) {
	if _, dup := allFuncs[fi.key]; dup {
		die("duplicate function key %s", fi.key)
	}
	allFuncs[fi.key] = fi
	order = append(order, fi)
}

func die(format string, args ...any) {
	fmt.Fprintf(os.Stderr, "translator: "+format+"\n", args...)
	os.Exit(2)
}

// ---------------------------------------------------------------------------
// Per-function translation

type tr struct {
	fi *funcInfo // function whose tree is being built (closures: the closure)
}

func (t *tr) problem(pos token.Pos, format string, args ...any) {
	p := fset.Position(pos)
	t.fi.problems = append(t.fi.problems, fmt.Sprintf("%s:%d: ", filepath.Base(p.Filename), p.Line)+fmt.Sprintf(format, args...))
}

// env lookups go through the chain of enclosing functions.
func (fi *funcInfo) typeOfIdent(name string) string {
	for f := fi; f != nil; f = f.parent {
		if ty, ok := f.env[name]; ok {
			return ty
		}
	}
	return ""
}

func (fi *funcInfo) isFlag(name string) bool {
	for f := fi; f != nil; f = f.parent {
		if f.flagVars[name] {
			return true
		}
	}
	return false
}

func (fi *funcInfo) isLocal(name string) bool {
	for f := fi; f != nil; f = f.parent {
		if _, ok := f.env[name]; ok {
			return true
		}
	}
	return false
}

func (t *tr) typeOf(e ast.Expr) string {
	switch x := e.(type) {
	case *ast.Ident:
		return t.fi.typeOfIdent(x.Name)
	case *ast.ParenExpr:
		return t.typeOf(x.X)
	case *ast.StarExpr:
		return t.typeOf(x.X)
	case *ast.UnaryExpr:
		if x.Op == token.AND {
			return t.typeOf(x.X)
		}
	case *ast.SelectorExpr:
		if ty := t.typeOf(x.X); ty != "" {
			if fs, ok := t.fi.pkg.structs[ty]; ok {
				return fs[x.Sel.Name]
			}
		}
	case *ast.CompositeLit:
		if x.Type != nil {
			return typeBase(x.Type)
		}
	case *ast.CallExpr:
		if rs := t.resultTypes(x); len(rs) == 1 {
			return rs[0]
		}
		if sel, ok := x.Fun.(*ast.SelectorExpr); ok && sel.Sel.Name == "Load" && len(x.Args) == 0 {
			if ty := t.typeOf(sel.X); strings.HasPrefix(ty, "atomicptr[]") {
				return ty[len("atomicptr[]"):]
			}
		}
	case *ast.TypeAssertExpr:
		if x.Type != nil {
			return typeBase(x.Type)
		}
	case *ast.IndexExpr:
		return elemType(t.typeOf(x.X))
	}
	return ""
}

// resultTypes gives the result types of a call to a function of this package
// whose receiver type is known.
func (t *tr) resultTypes(c *ast.CallExpr) []string {
	p := t.fi.pkg
	switch f := c.Fun.(type) {
	case *ast.Ident:
		if !t.fi.isLocal(f.Name) {
			if fi, ok := p.funcs[f.Name]; ok {
				return fi.results
			}
		}
	case *ast.SelectorExpr:
		if ty := t.typeOf(f.X); ty != "" {
			if fi, ok := p.funcs[ty+"."+f.Sel.Name]; ok {
				return fi.results
			}
			if rs, ok := p.ifaceResults(ty, f.Sel.Name, 0); ok {
				return rs
			}
			// an instantiated generic type: type X = G[A, B]
			if g, ok := p.generic[ty]; ok {
				if fi, ok := p.funcs[g[0]+"."+f.Sel.Name]; ok {
					tp := p.tparams[g[0]]
					out := make([]string, len(fi.results))
					for i, r := range fi.results {
						out[i] = r
						for j, name := range tp {
							if r == name && j+1 < len(g) {
								out[i] = g[j+1]
							}
						}
						if r == g[0] {
							out[i] = ty
						}
					}
					return out
				}
			}
		}
	}
	return nil
}

// buildEnv records the types of receiver, parameters and simply typed locals,
// and finds the boolean locals that are only ever assigned constants.
func (t *tr) buildEnv(ft *ast.FuncType) {
	fi := t.fi
	fi.env = map[string]string{}
	fi.flagVars = map[string]bool{}
	fi.aliases = map[string]string{}
	t.findAliases()
	if fi.recv != nil && fi.recv.name != "" {
		fi.env[fi.recv.name] = fi.recv.typ
	}
	for _, p := range fi.params {
		if p.name != "" {
			fi.env[p.name] = p.typ
		}
	}
	conflict := map[string]bool{}
	set := func(name, ty string) {
		if name == "_" {
			return
		}
		if old, ok := fi.env[name]; ok && old != ty {
			conflict[name] = true
		}
		fi.env[name] = ty
	}
	flagOK := map[string]bool{}
	flagBad := map[string]bool{}
	isBoolLit := func(e ast.Expr) bool {
		id, ok := e.(*ast.Ident)
		return ok && (id.Name == "true" || id.Name == "false")
	}
	depth := 0
	ast.Inspect(fi.body, func(n ast.Node) bool {
		switch s := n.(type) {
		case *ast.FuncLit:
			// assignments inside closures: a flag assigned in a closure that does
			// not run inline would escape our tracking; be conservative.
			depth++
			ast.Inspect(s.Body, func(m ast.Node) bool {
				if as, ok := m.(*ast.AssignStmt); ok {
					for _, l := range as.Lhs {
						if id, ok := l.(*ast.Ident); ok {
							flagBad[id.Name] = true
						}
					}
				}
				return true
			})
			depth--
			return false
		case *ast.AssignStmt:
			for i, l := range s.Lhs {
				id, ok := l.(*ast.Ident)
				if !ok {
					continue
				}
				if len(s.Rhs) == len(s.Lhs) {
					if s.Tok == token.DEFINE {
						set(id.Name, t.typeOf(s.Rhs[i]))
					}
					if isBoolLit(s.Rhs[i]) && (s.Tok == token.DEFINE || s.Tok == token.ASSIGN) {
						flagOK[id.Name] = true
					} else {
						flagBad[id.Name] = true
					}
				} else {
					if s.Tok == token.DEFINE {
						ty := ""
						if c, ok := s.Rhs[0].(*ast.CallExpr); ok && len(s.Rhs) == 1 {
							if rs := t.resultTypes(c); len(rs) == len(s.Lhs) {
								ty = rs[i]
							}
						}
						if ta, ok := s.Rhs[0].(*ast.TypeAssertExpr); ok && len(s.Rhs) == 1 && i == 0 && ta.Type != nil {
							ty = typeBase(ta.Type)
						}
						if ie, ok := s.Rhs[0].(*ast.IndexExpr); ok && len(s.Rhs) == 1 && i == 0 {
							ty = t.typeOf(ie) // v, ok := m[k]
						}
						set(id.Name, ty)
					}
					flagBad[id.Name] = true
				}
			}
		case *ast.ValueSpec:
			for i, nm := range s.Names {
				ty := ""
				if s.Type != nil {
					ty = typeBase(s.Type)
				} else if i < len(s.Values) {
					ty = t.typeOf(s.Values[i])
				}
				set(nm.Name, ty)
				if ty == "bool" && len(s.Values) == 0 {
					flagOK[nm.Name] = true
				} else if i < len(s.Values) && isBoolLit(s.Values[i]) {
					flagOK[nm.Name] = true
				} else {
					flagBad[nm.Name] = true
				}
			}
		case *ast.RangeStmt:
			for k, e := range []ast.Expr{s.Key, s.Value} {
				if id, ok := e.(*ast.Ident); ok {
					ty := ""
					if k == 1 && s.Tok == token.DEFINE {
						ty = elemType(t.typeOf(s.X))
					}
					set(id.Name, ty)
					flagBad[id.Name] = true
				}
			}
		case *ast.UnaryExpr:
			if s.Op == token.AND {
				if id, ok := s.X.(*ast.Ident); ok {
					flagBad[id.Name] = true
				}
			}
		case *ast.IncDecStmt:
			if id, ok := s.X.(*ast.Ident); ok {
				flagBad[id.Name] = true
			}
		}
		return true
	})
	for n := range conflict {
		fi.env[n] = ""
	}
	for n := range flagOK {
		if !flagBad[n] {
			if _, isParam := fi.env[n]; isParam && fi.env[n] != "" && fi.env[n] != "bool" {
				continue
			}
			fi.flagVars[n] = true
		}
	}
	// a closure that assigns a flag of an enclosing function invalidates it,
	// unless it runs inline (handled by translating it with the parent's tr)
	_ = depth
}

func (t *tr) at(pos token.Pos) string {
	p := fset.Position(pos)
	return fmt.Sprintf("%s:%d", strings.TrimPrefix(p.Filename, repoRoot+"/"), p.Line)
}

// lockClass names the class of a mutex: the struct type and field it lives
// in ("virtual.inMemoryPrepopulatedDirectory.lock").  "" if it cannot be
// told (a mutex held in a plain variable).
func (t *tr) lockClass(e ast.Expr) string {
	switch x := e.(type) {
	case *ast.ParenExpr:
		return t.lockClass(x.X)
	case *ast.StarExpr:
		return t.lockClass(x.X)
	case *ast.UnaryExpr:
		if x.Op == token.AND {
			return t.lockClass(x.X)
		}
	case *ast.IndexExpr:
		return t.lockClass(x.X)
	case *ast.SelectorExpr:
		if ty := t.typeOf(x.X); ty != "" {
			if strings.Contains(ty, ".") {
				return ty + "." + x.Sel.Name
			}
			return t.fi.pkg.name + "." + ty + "." + x.Sel.Name
		}
	case *ast.Ident:
		// l := &x.lock, defined once
		for f := t.fi; f != nil; f = f.parent {
			if _, ok := f.env[x.Name]; ok {
				if d, ok := f.defs[x.Name]; ok {
					return (&tr{fi: f}).lockClass(d)
				}
				break
			}
		}
	}
	return ""
}

// findAliases records the locals that are defined once, as a field path of
// the receiver or a parameter (p := s.program): lock expressions through them
// are rendered through the path, so that a summary can name them.
func (t *tr) findAliases() {
	fi := t.fi
	count := map[string]int{}
	def := map[string]ast.Expr{}
	note := func(e ast.Expr) {
		if id, ok := e.(*ast.Ident); ok {
			count[id.Name]++
		}
	}
	ast.Inspect(fi.body, func(n ast.Node) bool {
		switch s := n.(type) {
		case *ast.AssignStmt:
			for i, l := range s.Lhs {
				note(l)
				if id, ok := l.(*ast.Ident); ok && s.Tok == token.DEFINE && len(s.Lhs) == len(s.Rhs) {
					def[id.Name] = s.Rhs[i]
				}
			}
		case *ast.ValueSpec:
			for _, nm := range s.Names {
				count[nm.Name] += 2 // var declarations: not an alias
			}
		case *ast.RangeStmt:
			note(s.Key)
			note(s.Value)
		case *ast.IncDecStmt:
			note(s.X)
		case *ast.UnaryExpr:
			if s.Op == token.AND {
				note(s.X)
			}
		}
		return true
	})
	isParam := func(name string) bool {
		if fi.recv != nil && fi.recv.name == name {
			return true
		}
		for _, p := range fi.params {
			if p.name == name {
				return true
			}
		}
		return false
	}
	var path func(e ast.Expr, depth int) (string, bool)
	path = func(e ast.Expr, depth int) (string, bool) {
		switch x := e.(type) {
		case *ast.Ident:
			if isParam(x.Name) && count[x.Name] == 0 {
				return x.Name, true
			}
			if d, ok := def[x.Name]; ok && count[x.Name] == 1 && depth < 6 {
				return path(d, depth+1)
			}
		case *ast.ParenExpr:
			return path(x.X, depth)
		case *ast.StarExpr:
			return path(x.X, depth)
		case *ast.SelectorExpr:
			if s, ok := path(x.X, depth); ok {
				return s + "." + x.Sel.Name, true
			}
		}
		return "", false
	}
	fi.defs = map[string]ast.Expr{}
	for name, d := range def {
		if count[name] == 1 && !isParam(name) {
			if _, isId := d.(*ast.Ident); !isId {
				fi.defs[name] = d
			}
		}
	}
	for name, d := range def {
		if count[name] != 1 || isParam(name) {
			continue
		}
		if _, isSel := d.(*ast.SelectorExpr); !isSel {
			continue
		}
		if s, ok := path(d, 0); ok {
			fi.aliases[name] = s
		}
	}
}

func (fi *funcInfo) aliasOf(name string) (string, bool) {
	// the innermost function that knows the name decides
	for f := fi; f != nil; f = f.parent {
		if _, ok := f.env[name]; ok {
			a, ok := f.aliases[name]
			return a, ok
		}
	}
	return "", false
}

// lockName renders the expression a mutex method is called on.
func (t *tr) lockName(e ast.Expr) (string, bool) {
	switch x := e.(type) {
	case *ast.Ident:
		if a, ok := t.fi.aliasOf(x.Name); ok {
			return a, true
		}
		return x.Name, true
	case *ast.ParenExpr:
		return t.lockName(x.X)
	case *ast.StarExpr:
		return t.lockName(x.X)
	case *ast.UnaryExpr:
		if x.Op == token.AND {
			return t.lockName(x.X)
		}
	case *ast.SelectorExpr:
		if s, ok := t.lockName(x.X); ok {
			return s + "." + x.Sel.Name, true
		}
	case *ast.IndexExpr:
		s, ok := t.lockName(x.X)
		if !ok {
			return "", false
		}
		switch i := x.Index.(type) {
		case *ast.Ident:
			return s + "[" + i.Name + "]", true
		case *ast.BasicLit:
			return s + "[" + i.Value + "]", true
		}
	}
	return "", false
}

func rootOf(name string) string {
	for i, c := range name {
		if c == '.' || c == '[' {
			return name[:i]
		}
	}
	return name
}

func (t *tr) isPile(e ast.Expr) (string, bool) {
	for {
		switch x := e.(type) {
		case *ast.ParenExpr:
			e = x.X
			continue
		case *ast.StarExpr:
			e = x.X
			continue
		case *ast.UnaryExpr:
			if x.Op == token.AND {
				e = x.X
				continue
			}
		}
		break
	}
	if id, ok := e.(*ast.Ident); ok && isPileType(t.fi.typeOfIdent(id.Name)) {
		return id.Name, true
	}
	if isPileType(t.typeOf(e)) {
		if s, ok := t.lockName(e); ok {
			return s, true
		}
	}
	return "", false
}

var mutexMethods = map[string]bool{"Lock": true, "Unlock": true, "RLock": true, "RUnlock": true, "TryLock": true, "TryRLock": true, "UnlockAll": true, "RLocker": true}

// resolve finds the function of the same package a call goes to.
// specialName: some method of this name in the package has a declared summary.
func (p *pkgInfo) specialName(name string) bool {
	for _, c := range p.byName[name] {
		if _, ok := cfg.Summaries[c.key]; ok {
			return true
		}
	}
	if fi, ok := p.funcs[name]; ok {
		if _, ok := cfg.Summaries[fi.key]; ok {
			return true
		}
	}
	return false
}

func (t *tr) resolve(call *ast.CallExpr) (*funcInfo, ast.Expr) {
	p := t.fi.pkg
	switch f := call.Fun.(type) {
	case *ast.Ident:
		if t.fi.isLocal(f.Name) {
			return nil, nil // a local function value
		}
		return p.funcs[f.Name], nil
	case *ast.SelectorExpr:
		if id, ok := f.X.(*ast.Ident); ok && p.imports[id.Name] && !t.fi.isLocal(id.Name) {
			return nil, nil // other package
		}
		ty := t.typeOf(f.X)
		if ty != "" {
			if fi, ok := p.funcs[ty+"."+f.Sel.Name]; ok {
				return fi, f.X
			}
			if _, known := p.structs[ty]; known && !p.specialName(f.Sel.Name) {
				return nil, nil // promoted or interface method of a known type
			}
		}
		// Receiver type unknown.  Only names that matter must be resolved.
		cands := p.byName[f.Sel.Name]
		if !p.specialName(f.Sel.Name) {
			return nil, nil
		}
		if len(cands) == 1 && ty == "" {
			return cands[0], f.X
		}
		t.problem(call.Pos(), "call of %s: cannot tell which of %d methods of that name is meant, and one has a declared lock summary", f.Sel.Name, len(cands))
	}
	return nil, nil
}

// callNode builds the Call for a resolved callee, with the renaming of the
// names its summary mentions.
func (t *tr) callNode(call *ast.CallExpr, callee *funcInfo, recvExpr ast.Expr) *node {
	n := &node{kind: "call", fn: callee.key, pos: t.at(call.Pos())}
	t.fi.calls[callee.key] = true
	actual := map[string]ast.Expr{}
	if callee.recv != nil && callee.recv.name != "" && recvExpr != nil {
		actual[callee.recv.name] = recvExpr
	}
	for i, p := range callee.params {
		if p.name != "" && i < len(call.Args) && !strings.HasPrefix(p.typ, "...") {
			actual[p.name] = call.Args[i]
		}
	}
	n.actual = map[string]string{}
	for root, a := range actual {
		if an, ok := t.lockName(a); ok {
			n.actual[root] = an
		}
	}
	// LockPile arguments
	for i, p := range callee.params {
		if isPileType(p.typ) && i < len(call.Args) {
			if name, ok := t.isPile(call.Args[i]); ok {
				n.sigP = append(n.sigP, [2]string{p.name, name})
			} else {
				t.problem(call.Pos(), "LockPile argument of %s is not a LockPile variable", callee.key)
			}
		}
	}
	if sm, ok := cfg.Summaries[callee.key]; ok {
		seen := map[string]bool{}
		for _, it := range sm.items() {
			lock := it.lock
			if seen[lock] {
				continue
			}
			seen[lock] = true
			root := rootOf(lock)
			a, ok := actual[root]
			if !ok {
				t.problem(call.Pos(), "summary of %s mentions %s, which is not its receiver or a parameter", callee.key, lock)
				continue
			}
			an, ok := t.lockName(a)
			if !ok {
				t.problem(call.Pos(), "argument for %s of %s is not a plain variable/field expression", root, callee.key)
				continue
			}
			n.sigL = append(n.sigL, [2]string{lock, an + lock[len(root):]})
		}
	}
	return n
}

func (t *tr) newClosure(lit *ast.FuncLit) *funcInfo {
	parent := t.fi
	top := parent
	for top.parent != nil {
		top = top.parent
	}
	top.nclos++
	fi := &funcInfo{key: fmt.Sprintf("%s$%d", top.key, top.nclos), pkg: parent.pkg, file: parent.file, line: fset.Position(lit.Pos()).Line, body: lit.Body, closure: true, parent: parent, params: paramsOf(lit.Type), calls: map[string]bool{}}
	register(fi)
	ct := &tr{fi: fi}
	ct.buildEnv(lit.Type)
	fi.tree = ct.block(lit.Body.List)
	return fi
}

// exprs translates the calls inside expressions, in evaluation order.
func (t *tr) exprs(es ...ast.Expr) *node {
	out := nSeq()
	for _, e := range es {
		if e != nil {
			t.expr(e, out)
		}
	}
	return out
}

func (t *tr) expr(e ast.Expr, out *node) {
	add := func(n *node) { out.kids = append(out.kids, n) }
	switch x := e.(type) {
	case nil:
	case *ast.CallExpr:
		if self := t.call(x, out); self != nil {
			add(self)
		}
	case *ast.Ident:
		if !t.fi.isLocal(x.Name) && t.fi.pkg.specialName(x.Name) {
			if _, isFunc := t.fi.pkg.funcs[x.Name]; isFunc {
				t.problem(x.Pos(), "function %s (declared lock summary) used as a value", x.Name)
			}
		}
	case *ast.FuncLit:
		cl := t.newClosure(x) // checked on its own; creating it does nothing
		add(&node{kind: "mkclosure", fn: cl.key, pos: t.at(x.Pos())})
	case *ast.ParenExpr:
		t.expr(x.X, out)
	case *ast.SelectorExpr:
		if t.fi.pkg.specialName(x.Sel.Name) {
			t.problem(x.Pos(), "method value %s (a function with a declared lock summary) used without calling it", x.Sel.Name)
		}
		if mutexMethods[x.Sel.Name] {
			if id, isId := x.X.(*ast.Ident); !isId || !t.fi.pkg.imports[id.Name] || t.fi.isLocal(id.Name) {
				t.problem(x.Pos(), "method value %s used without calling it", x.Sel.Name)
			}
		}
		t.expr(x.X, out)
	case *ast.IndexExpr:
		t.expr(x.X, out)
		t.expr(x.Index, out)
	case *ast.IndexListExpr:
		t.expr(x.X, out)
	case *ast.SliceExpr:
		t.expr(x.X, out)
		t.expr(x.Low, out)
		t.expr(x.High, out)
		t.expr(x.Max, out)
	case *ast.StarExpr:
		t.expr(x.X, out)
	case *ast.UnaryExpr:
		t.expr(x.X, out)
	case *ast.TypeAssertExpr:
		t.expr(x.X, out)
	case *ast.KeyValueExpr:
		t.expr(x.Key, out)
		t.expr(x.Value, out)
	case *ast.CompositeLit:
		for _, el := range x.Elts {
			t.expr(el, out)
		}
	case *ast.BinaryExpr:
		t.expr(x.X, out)
		if x.Op == token.LAND || x.Op == token.LOR {
			r := t.exprs(x.Y)
			add(&node{kind: "alt", kids: []*node{r, nSkip()}})
		} else {
			t.expr(x.Y, out)
		}
	}
}

// call appends what evaluating the receiver and the arguments does to out
// and returns the node for the call itself (nil if it does nothing we track).
func (t *tr) call(c *ast.CallExpr, out *node) *node {
	self := t.callInner(c, out)
	if m := t.markFor(c); m != nil {
		if self == nil {
			return m
		}
		return nSeq(m, self)
	}
	return self
}

// sectionFunc is the function whose declared atomic sections apply here: the
// enclosing declared function or literal (inlined literals share t.fi).
func (t *tr) sectionKey() string { return t.fi.key }

// markFor: the event node for a call an atomic section is declared about;
// also the place where call sites of watched methods are checked to be covered.
func (t *tr) markFor(c *ast.CallExpr) *node {
	sel, ok := c.Fun.(*ast.SelectorExpr)
	if !ok {
		return nil
	}
	recv, ok := t.lockName(sel.X)
	if !ok {
		recv = "?"
	}
	tag := "call:" + recv + "." + sel.Sel.Name
	covered := false
	for _, sc := range cfg.Atomic.Sections[t.sectionKey()] {
		if sc.A == tag || sc.B == tag {
			covered = true
		}
	}
	ty := t.typeOf(sel.X)
	if ty != "" && !strings.Contains(ty, ".") {
		ty = t.fi.pkg.name + "." + ty
	}
	for _, w := range cfg.Atomic.Watched {
		if w.Type != ty {
			continue
		}
		if t.fi.recv != nil && t.fi.pkg.name+"."+t.fi.recv.typ == w.Type {
			continue // the type's own methods
		}
		for _, m := range w.Methods {
			if m == sel.Sel.Name && !covered {
				fatal = append(fatal, fmt.Sprintf("%s: %s: call of %s.%s (%s) is not covered by an atomic section declared for this function in summaries.json (atomic/sections)",
					t.fi.key, t.at(c.Pos()), w.Type, m, tag))
			}
		}
	}
	if covered {
		t.fi.direct = true
		return &node{kind: "mark", fn: tag, pos: t.at(c.Pos())}
	}
	return nil
}

func (t *tr) callInner(c *ast.CallExpr, out *node) *node {
	// builtin panic
	if id, ok := c.Fun.(*ast.Ident); ok && id.Name == "panic" && !t.fi.isLocal("panic") {
		for _, a := range c.Args {
			t.expr(a, out)
		}
		return &node{kind: "panic"}
	}
	if id, ok := c.Fun.(*ast.Ident); ok && id.Name == "recover" && !t.fi.isLocal("recover") {
		t.problem(c.Pos(), "recover(): panicking paths would no longer terminate the process")
	}
	// immediately invoked function literal
	if lit, ok := c.Fun.(*ast.FuncLit); ok {
		for _, a := range c.Args {
			t.expr(a, out)
		}
		return &node{kind: "scope", kids: []*node{t.inlineClosure(lit)}}
	}
	if sel, ok := c.Fun.(*ast.SelectorExpr); ok {
		name := sel.Sel.Name
		if pile, isP := t.isPile(sel.X); isP {
			t.fi.direct = true
			switch name {
			case "Lock":
				n := nSeq()
				for _, a := range c.Args {
					if l, ok := t.lockName(a); ok {
						n.kids = append(n.kids, &node{kind: "acq", mode: "P", pile: pile, lock: l, class: t.lockClass(a), pos: t.at(c.Pos())})
					} else {
						t.problem(c.Pos(), "LockPile.Lock argument is not a plain lock expression")
					}
				}
				if c.Ellipsis.IsValid() {
					t.problem(c.Pos(), "LockPile.Lock with a slice of locks")
				}
				return n
			case "Unlock":
				if len(c.Args) == 1 {
					if l, ok := t.lockName(c.Args[0]); ok {
						return &node{kind: "rel", mode: "P", pile: pile, lock: l, class: t.lockClass(c.Args[0]), pos: t.at(c.Pos())}
					}
				}
				t.problem(c.Pos(), "LockPile.Unlock argument is not a plain lock expression")
				return nil
			case "UnlockAll":
				return &node{kind: "pua", pile: pile}
			default:
				t.problem(c.Pos(), "unknown LockPile method %s", name)
				return nil
			}
		}
		if len(c.Args) == 0 && mutexMethods[name] {
			t.expr(sel.X, out)
			l, ok := t.lockName(sel.X)
			if !ok {
				t.problem(c.Pos(), "%s() on an expression that is not a plain variable/field", name)
				return nil
			}
			t.fi.direct = true
			switch name {
			case "Lock":
				return &node{kind: "acq", mode: "W", lock: l, class: t.lockClass(sel.X), pos: t.at(c.Pos())}
			case "Unlock":
				return &node{kind: "rel", mode: "W", lock: l, class: t.lockClass(sel.X), pos: t.at(c.Pos())}
			case "RLock":
				return &node{kind: "acq", mode: "R", lock: l, class: t.lockClass(sel.X), pos: t.at(c.Pos())}
			case "RUnlock":
				return &node{kind: "rel", mode: "R", lock: l, class: t.lockClass(sel.X), pos: t.at(c.Pos())}
			}
			t.problem(c.Pos(), "%s() is not understood", name)
			return nil
		}
		t.expr(sel.X, out)
	} else {
		t.expr(c.Fun, out)
	}
	for _, a := range c.Args {
		t.expr(a, out)
	}
	callee, recv := t.resolve(c)
	if callee != nil {
		return t.callNode(c, callee, recv)
	}
	// a LockPile handed to something we cannot see
	for _, a := range c.Args {
		if _, ok := t.isPile(a); ok {
			t.problem(c.Pos(), "LockPile passed to a call that cannot be resolved")
		}
	}
	// for the lock-order analysis: where may this call go?
	switch f := c.Fun.(type) {
	case *ast.Ident:
		if t.fi.isLocal(f.Name) {
			return &node{kind: "lcall", pos: t.at(c.Pos())}
		}
	case *ast.SelectorExpr:
		if id, ok := f.X.(*ast.Ident); ok && t.fi.pkg.imports[id.Name] && !t.fi.isLocal(id.Name) {
			return &node{kind: "xcall", fn: t.fi.pkg.impPath[id.Name] + "#" + f.Sel.Name, pos: t.at(c.Pos())}
		}
		return &node{kind: "ucall", fn: f.Sel.Name, nargs: len(c.Args), pos: t.at(c.Pos()), class: t.typeOf(f.X)}
	default:
		return &node{kind: "lcall", pos: t.at(c.Pos())}
	}
	return nil
}

// inlineClosure translates a closure that runs in place (defer func(){}(),
// func(){}()): it shares the variables of the enclosing function.
func (t *tr) inlineClosure(lit *ast.FuncLit) *node {
	return t.block(lit.Body.List)
}

func (t *tr) block(stmts []ast.Stmt) *node {
	out := nSeq()
	for _, s := range stmts {
		out.kids = append(out.kids, t.stmt(s))
	}
	return out
}

func boolLit(e ast.Expr) (bool, bool) {
	if id, ok := e.(*ast.Ident); ok {
		if id.Name == "true" {
			return true, true
		}
		if id.Name == "false" {
			return false, true
		}
	}
	return false, false
}

func (t *tr) stmt(s ast.Stmt) *node {
	switch x := s.(type) {
	case nil:
		return nSkip()
	case *ast.ExprStmt:
		return t.exprs(x.X)
	case *ast.AssignStmt:
		n := t.exprs(x.Rhs...)
		for _, l := range x.Lhs {
			if _, isId := l.(*ast.Ident); !isId {
				t.expr(l, n)
			}
		}
		if len(x.Lhs) == len(x.Rhs) {
			for i, l := range x.Lhs {
				if id, ok := l.(*ast.Ident); ok && t.fi.isFlag(id.Name) {
					if v, ok := boolLit(x.Rhs[i]); ok {
						n.kids = append(n.kids, &node{kind: "setflag", flag: id.Name, val: v})
					}
				}
			}
		}
		return n
	case *ast.DeclStmt:
		n := nSeq()
		if gd, ok := x.Decl.(*ast.GenDecl); ok {
			for _, sp := range gd.Specs {
				if vs, ok := sp.(*ast.ValueSpec); ok {
					for _, v := range vs.Values {
						t.expr(v, n)
					}
					for i, nm := range vs.Names {
						if t.fi.isFlag(nm.Name) {
							v := false
							if i < len(vs.Values) {
								v, _ = boolLit(vs.Values[i])
							}
							n.kids = append(n.kids, &node{kind: "setflag", flag: nm.Name, val: v})
						}
					}
				}
			}
		}
		return n
	case *ast.IncDecStmt:
		return t.exprs(x.X)
	case *ast.SendStmt:
		return t.exprs(x.Chan, x.Value)
	case *ast.EmptyStmt:
		return nSkip()
	case *ast.BlockStmt:
		return t.block(x.List)
	case *ast.LabeledStmt:
		return t.stmt(x.Stmt)
	case *ast.GoStmt:
		n := nSeq()
		for _, a := range x.Call.Args {
			t.expr(a, n)
		}
		if lit, ok := x.Call.Fun.(*ast.FuncLit); ok {
			cl := t.newClosure(lit)
			t.fi.calls[cl.key] = true
			n.kids = append(n.kids, &node{kind: "call", fn: cl.key, isGo: true, pos: t.at(x.Pos())})
			return n
		}
		if sel, ok := x.Call.Fun.(*ast.SelectorExpr); ok {
			t.expr(sel.X, n)
		}
		if callee, recv := t.resolve(x.Call); callee != nil {
			cn := t.callNode(x.Call, callee, recv)
			cn.isGo = true
			n.kids = append(n.kids, cn)
		}
		return n
	case *ast.DeferStmt:
		n := nSeq()
		if lit, ok := x.Call.Fun.(*ast.FuncLit); ok {
			for _, a := range x.Call.Args {
				t.expr(a, n)
			}
			n.kids = append(n.kids, &node{kind: "defer", kids: []*node{{kind: "scope", kids: []*node{t.inlineClosure(lit)}}}})
			return n
		}
		// arguments (and the receiver) are evaluated now, the call later
		if self := t.call(x.Call, n); self != nil {
			n.kids = append(n.kids, &node{kind: "defer", kids: []*node{self}})
		}
		return n
	case *ast.ReturnStmt:
		n := t.exprs(x.Results...)
		n.kids = append(n.kids, &node{kind: "return"})
		return n
	case *ast.BranchStmt:
		switch x.Tok {
		case token.BREAK, token.CONTINUE:
			if x.Label != nil {
				t.problem(x.Pos(), "labelled %s", x.Tok)
				return nSkip()
			}
			if x.Tok == token.BREAK {
				return &node{kind: "break"}
			}
			return &node{kind: "continue"}
		default:
			t.problem(x.Pos(), "%s statement", x.Tok)
			return nSkip()
		}
	case *ast.IfStmt:
		n := nSeq(t.stmt(x.Init), t.exprs(x.Cond))
		th := t.block(x.Body.List)
		el := nSkip()
		if x.Else != nil {
			el = t.stmt(x.Else)
		}
		cond := x.Cond
		neg := false
		for {
			if p, ok := cond.(*ast.ParenExpr); ok {
				cond = p.X
				continue
			}
			if u, ok := cond.(*ast.UnaryExpr); ok && u.Op == token.NOT {
				cond = u.X
				neg = !neg
				continue
			}
			break
		}
		if id, ok := cond.(*ast.Ident); ok && t.fi.isFlag(id.Name) {
			if neg {
				th, el = el, th
			}
			n.kids = append(n.kids, &node{kind: "ifflag", flag: id.Name, kids: []*node{th, el}})
		} else {
			n.kids = append(n.kids, &node{kind: "alt", kids: []*node{th, el}})
		}
		return n
	case *ast.ForStmt:
		n := nSeq(t.stmt(x.Init))
		post := t.stmt(x.Post)
		body := nSeq(t.exprs(x.Cond), t.breakable(x.Body.List, true), post)
		n.kids = append(n.kids, &node{kind: "loop", inf: x.Cond == nil, kids: []*node{body}})
		return n
	case *ast.RangeStmt:
		n := t.exprs(x.X)
		n.kids = append(n.kids, &node{kind: "loop", kids: []*node{t.breakable(x.Body.List, true)}})
		return n
	case *ast.SwitchStmt:
		n := nSeq(t.stmt(x.Init), t.exprs(x.Tag))
		n.kids = append(n.kids, t.clauses(x.Body.List))
		return n
	case *ast.TypeSwitchStmt:
		n := nSeq(t.stmt(x.Init), t.stmt(x.Assign))
		n.kids = append(n.kids, t.clauses(x.Body.List))
		return n
	case *ast.SelectStmt:
		n := &node{kind: "alt"}
		for _, c := range x.Body.List {
			cc := c.(*ast.CommClause)
			b := nSeq(t.stmt(cc.Comm))
			b.kids = append(b.kids, t.breakable(cc.Body, false))
			n.kids = append(n.kids, b)
		}
		if len(n.kids) == 0 {
			return &node{kind: "loop", inf: true, kids: []*node{nSkip()}} // select {} blocks forever
		}
		return n
	}
	t.problem(s.Pos(), "statement %T", s)
	return nSkip()
}

// breakable translates the body of a loop (isLoop) or of a switch/select
// clause.  An unlabelled break inside a switch/select clause leaves the
// switch, which the skeleton language has no construct for: reported.
func (t *tr) breakable(list []ast.Stmt, isLoop bool) *node {
	if !isLoop {
		for _, s := range list {
			if breaksOut(s) {
				t.problem(s.Pos(), "break out of a switch/select clause")
			}
		}
	}
	return t.block(list)
}

// breaksOut reports an unlabelled break that binds to the enclosing
// switch/select clause (not nested in a loop or another switch).
func breaksOut(s ast.Stmt) bool {
	found := false
	var visit func(n ast.Node) bool
	visit = func(n ast.Node) bool {
		switch x := n.(type) {
		case *ast.ForStmt, *ast.RangeStmt, *ast.SwitchStmt, *ast.TypeSwitchStmt, *ast.SelectStmt, *ast.FuncLit:
			return false
		case *ast.BranchStmt:
			if x.Tok == token.BREAK && x.Label == nil {
				found = true
			}
		}
		return true
	}
	ast.Inspect(s, visit)
	return found
}

func (t *tr) clauses(list []ast.Stmt) *node {
	n := &node{kind: "alt"}
	hasDefault := false
	for _, c := range list {
		cc := c.(*ast.CaseClause)
		if cc.List == nil {
			hasDefault = true
		}
		b := t.exprs(cc.List...)
		for _, s := range cc.Body {
			if br, ok := s.(*ast.BranchStmt); ok && br.Tok == token.FALLTHROUGH {
				t.problem(br.Pos(), "fallthrough")
			}
		}
		b.kids = append(b.kids, t.breakable(cc.Body, false))
		n.kids = append(n.kids, b)
	}
	if !hasDefault {
		n.kids = append(n.kids, nSkip())
	}
	return n
}

// checkRoots reports variables that name a lock (root of a lock expression
// used by this function) and are assigned at more than one place: the
// syntactic lock name would then not denote one lock.
func checkRoots(fi *funcInfo) {
	roots := map[string]bool{}
	fi.tree.walk(func(n *node) {
		if n.kind == "acq" || n.kind == "rel" {
			roots[rootOf(n.lock)] = true
		}
	})
	if len(roots) == 0 {
		return
	}
	sites := map[string]int{}
	count := func(e ast.Expr) {
		if id, ok := e.(*ast.Ident); ok && roots[id.Name] {
			sites[id.Name]++
		}
	}
	ast.Inspect(fi.body, func(n ast.Node) bool {
		switch s := n.(type) {
		case *ast.AssignStmt:
			for _, l := range s.Lhs {
				count(l)
			}
		case *ast.ValueSpec:
			for _, nm := range s.Names {
				count(nm)
			}
		case *ast.RangeStmt:
			count(s.Key)
			count(s.Value)
		case *ast.IncDecStmt:
			count(s.X)
		}
		return true
	})
	for r, n := range sites {
		limit := 1
		if fi.recv != nil && fi.recv.name == r {
			limit = 0
		}
		for _, p := range fi.params {
			if p.name == r {
				limit = 0
			}
		}
		if n > limit {
			fi.problems = append(fi.problems, fmt.Sprintf("%s:%d: variable %s names a lock and is assigned at %d places", filepath.Base(fi.file), fi.line, r, n))
		}
	}
}

// ---------------------------------------------------------------------------

type sitem struct {
	sign, mode, lock string
}

// items lists everything a summary mentions: delta, then pre, then plow.
func (sm summaryCfg) items() []sitem {
	var out []sitem
	for _, d := range sm.Delta {
		sign, mode, lock, _ := parseItem(d)
		out = append(out, sitem{sign, mode, lock})
	}
	for _, it := range sm.pre() {
		out = append(out, it)
	}
	for _, d := range sm.Plow {
		mode, lock, _ := parseHeld(d)
		out = append(out, sitem{"", mode, lock})
	}
	return out
}

// pre is the entry assumption: what is declared, and everything the
// function releases on net (it cannot release what is not held).
func (sm summaryCfg) pre() []sitem {
	var out []sitem
	for _, d := range sm.Pre {
		mode, lock, _ := parseHeld(d)
		out = append(out, sitem{"", mode, lock})
	}
	for _, d := range sm.Delta {
		sign, mode, lock, _ := parseItem(d)
		if sign == "-" {
			out = append(out, sitem{"", mode, lock})
		}
	}
	return out
}

func parseHeld(s string) (mode, lock string, err error) {
	f := strings.Fields(s)
	if len(f) != 2 || (f[0] != "W" && f[0] != "R") {
		return "", "", fmt.Errorf("bad summary item %q (want \"W x.lock\")", s)
	}
	return f[0], f[1], nil
}

func parseItem(s string) (sign, mode, lock string, err error) {
	f := strings.Fields(s)
	if len(f) != 2 || len(f[0]) != 2 || (f[0][0] != '+' && f[0][0] != '-') || (f[0][1] != 'W' && f[0][1] != 'R') {
		return "", "", "", fmt.Errorf("bad summary item %q (want \"+W x.lock\")", s)
	}
	return f[0][:1], f[0][1:], f[1], nil
}

func summaryCoq(fi *funcInfo) string {
	sm := cfg.Summaries[fi.key] // zero value if there is none
	var items []string
	for _, d := range sm.Delta {
		sign, mode, lock, _ := parseItem(d)
		z := "1"
		if sign == "-" {
			z = "(-1)"
		}
		items = append(items, fmt.Sprintf("((M%s, %s), %s%%Z)", mode, q(lock), z))
	}
	var dirty []string
	for _, d := range sm.Dirty {
		dirty = append(dirty, q(d))
	}
	held := func(its []sitem) string {
		var out []string
		for _, it := range its {
			out = append(out, fmt.Sprintf("((M%s, %s), 1%%Z)", it.mode, q(it.lock)))
		}
		return "[" + strings.Join(out, "; ") + "]"
	}
	var secs []string
	for _, sc := range cfg.Atomic.Sections[fi.key] {
		b := "None"
		if sc.B != "" {
			b = "(Some " + q(sc.B) + ")"
		}
		secs = append(secs, fmt.Sprintf("mkAsec %s %s %s %s", q(sc.A), b, q(sc.Lock), coqBool(sc.Mode == "shared")))
	}
	plow := plowEff[fi.key]
	if len(items) == 0 && len(dirty) == 0 && len(sm.pre()) == 0 && len(plow) == 0 && len(secs) == 0 && !mayPanic[fi.key] {
		return "neutral"
	}
	return "(mkSum [" + strings.Join(items, "; ") + "] [" + strings.Join(dirty, "; ") + "] " + held(sm.pre()) + " " + held(plow) + " " + coqBool(mayPanic[fi.key]) + " [" + strings.Join(secs, "; ") + "])"
}

func atomicCount() int {
	n := 0
	for _, v := range cfg.Atomic.Sections {
		n += len(v)
	}
	return n
}

func coqBool(b bool) string {
	if b {
		return "true"
	}
	return "false"
}

func main() {
	repo := flag.String("repo", "", "repository root (default $VERIF_REPO or /repo)")
	out := flag.String("out", "", "output .v file (default stdout)")
	statsOut := flag.String("stats", "", "write statistics as JSON to this file")
	orderOut := flag.String("order", "", "write the lock-order graph with acquisition sites as JSON to this file")
	flag.Parse()
	if *repo == "" {
		*repo = os.Getenv("VERIF_REPO")
	}
	if *repo == "" {
		*repo = "/repo"
	}
	repoRoot = strings.TrimSuffix(*repo, "/")
	if err := json.Unmarshal(configJSON, &cfg); err != nil {
		die("summaries.json: %v", err)
	}
	var pkgs []*pkgInfo
	for _, rel := range cfg.Packages {
		pkgs = append(pkgs, loadPackage(*repo, rel))
	}
	// configuration must describe existing, unexported functions
	for key, sm := range cfg.Summaries {
		fi, ok := allFuncs[key]
		if !ok && !strings.Contains(key, "$") {
			die("summaries.json: %s does not exist (stale entry)", key)
		}
		if ok && fi.exported {
			die("summaries.json: %s is exported; only unexported helpers may have a lock summary", key)
		}
		for _, d := range sm.Delta {
			if _, _, _, err := parseItem(d); err != nil {
				die("summaries.json: %s: %v", key, err)
			}
		}
		for _, d := range append(append([]string(nil), sm.Pre...), sm.Plow...) {
			if _, _, err := parseHeld(d); err != nil {
				die("summaries.json: %s: %v", key, err)
			}
		}
		if sm.Why == "" {
			die("summaries.json: %s has no justification", key)
		}
	}
	for key := range cfg.Exempt {
		if _, ok := allFuncs[key]; !ok {
			die("summaries.json: exempt function %s does not exist (stale entry)", key)
		}
	}

	// translate (closures are appended to order while we go)
	top := append([]*funcInfo(nil), order...)
	for _, fi := range top {
		t := &tr{fi: fi}
		t.buildEnv(nil)
		fi.tree = t.block(fi.body.List)
	}
	for key := range cfg.Summaries {
		if _, ok := allFuncs[key]; !ok {
			die("summaries.json: %s does not exist (stale entry)", key)
		}
	}
	// summaries: roots must be receiver/parameters (closures: any captured name)
	for key, sm := range cfg.Summaries {
		fi := allFuncs[key]
		for _, it := range sm.items() {
			lock := it.lock
			root := rootOf(lock)
			ok := fi.closure || (fi.recv != nil && fi.recv.name == root)
			for _, p := range fi.params {
				ok = ok || p.name == root
			}
			if !ok {
				die("summaries.json: %s: %s is not rooted at the receiver or a parameter", key, lock)
			}
		}
		for _, d := range sm.Dirty {
			ok := false
			for _, p := range fi.params {
				ok = ok || (p.name == d && isPileType(p.typ))
			}
			if !ok {
				die("summaries.json: %s: %s is not a LockPile parameter", key, d)
			}
		}
	}

	// atomic sections: declared for existing functions, about events and locks that occur in them
	for _, w := range cfg.Atomic.Watched {
		if w.Why == "" || len(w.Methods) == 0 {
			die("summaries.json: atomic/watched: %s needs methods and a justification", w.Type)
		}
	}
	for key, secs := range cfg.Atomic.Sections {
		fi, ok := allFuncs[key]
		if !ok {
			die("summaries.json: atomic/sections: function %s does not exist (stale entry)", key)
		}
		for _, sc := range secs {
			if sc.Why == "" {
				die("summaries.json: atomic/sections: %s has a section without justification", key)
			}
			if sc.Mode != "exclusive" && sc.Mode != "shared" {
				die("summaries.json: atomic/sections: %s: mode must be \"exclusive\" or \"shared\"", key)
			}
			if sc.A == "" || sc.A == sc.B {
				die("summaries.json: atomic/sections: %s: needs an opening event a, different from b", key)
			}
			seenLock := false
			tags := map[string]bool{}
			fi.tree.walk(func(n *node) {
				if (n.kind == "acq" || n.kind == "rel") && n.mode != "P" && n.lock == sc.Lock {
					seenLock = true
				}
				if n.kind == "mark" {
					tags[n.fn] = true
				}
			})
			if sm, ok := cfg.Summaries[key]; ok {
				for _, it := range sm.pre() {
					if it.lock == sc.Lock {
						seenLock = true
					}
				}
			}
			if !seenLock {
				die("summaries.json: atomic/sections: %s: the mutex %s is neither locked nor assumed held in this function (stale entry)", key, sc.Lock)
			}
			if !tags[sc.A] || (sc.B != "" && !tags[sc.B]) {
				die("summaries.json: atomic/sections: %s: event %s / %s does not occur in this function (stale entry)", key, sc.A, sc.B)
			}
		}
	}

	// which functions matter
	interesting := map[string]bool{}
	for _, fi := range order {
		if _, ex := cfg.Exempt[fi.key]; ex {
			continue
		}
		if _, ok := cfg.Summaries[fi.key]; ok || fi.tree.has("acq", "rel", "pua") {
			interesting[fi.key] = true
		}
		if len(cfg.Atomic.Sections[fi.key]) > 0 {
			interesting[fi.key] = true
		}
	}
	for changed := true; changed; {
		changed = false
		for _, fi := range order {
			if interesting[fi.key] {
				continue
			}
			if _, ex := cfg.Exempt[fi.key]; ex {
				continue
			}
			for c := range fi.calls {
				if interesting[c] {
					interesting[fi.key] = true
					changed = true
					break
				}
			}
		}
	}
	// which functions may end in a panic (explicit panic statements, their own
	// or those of the functions of the package they call)
	for _, fi := range order {
		if fi.tree.has("panic") {
			mayPanic[fi.key] = true
		}
	}
	for changed := true; changed; {
		changed = false
		for _, fi := range order {
			if mayPanic[fi.key] {
				continue
			}
			for c := range fi.calls {
				if mayPanic[c] {
					mayPanic[fi.key] = true
					changed = true
					break
				}
			}
		}
	}
	// panic bounds: a function that calls one whose panic may leave a mutex
	// released inherits that bound, in its own names (the Coq checker verifies
	// every bound, so this propagation only has to be generous enough)
	for key, sm := range cfg.Summaries {
		for _, d := range sm.Plow {
			mode, lock, _ := parseHeld(d)
			plowEff[key] = append(plowEff[key], sitem{"", mode, lock})
		}
	}
	for changed := true; changed; {
		changed = false
		for _, fi := range order {
			if _, ex := cfg.Exempt[fi.key]; ex {
				continue
			}
			fi.tree.walk(func(n *node) {
				if n.kind != "call" || n.isGo {
					return
				}
				for _, it := range plowEff[n.fn] {
					name := it.lock
					if n.actual != nil {
						root := rootOf(it.lock)
						a, ok := n.actual[root]
						if !ok {
							fi.problems = append(fi.problems, fmt.Sprintf("%s: when %s panics it may have released %s, which cannot be named here", n.pos, n.fn, it.lock))
							continue
						}
						name = a + it.lock[len(root):]
					}
					have := false
					for _, p := range n.sigL {
						if p[0] == it.lock {
							have = true
						}
					}
					if !have {
						n.sigL = append(n.sigL, [2]string{it.lock, name})
					}
					dup := false
					for _, old := range plowEff[fi.key] {
						if old.mode == it.mode && old.lock == name {
							dup = true
						}
					}
					if !dup {
						if len(plowEff[fi.key]) > 8 {
							return
						}
						plowEff[fi.key] = append(plowEff[fi.key], sitem{"", it.mode, name})
						changed = true
					}
				}
			})
		}
	}
	// lock-order graph (needs the trees before they are simplified)
	orderEdges := lockOrder(pkgs)

	// a closure's problems count for itself; an inline closure's for its parent (same tr)
	var emitted []*funcInfo
	withLocks := 0
	for _, fi := range order {
		if fi.tree.has("acq", "rel", "pua") {
			withLocks++
		}
		if _, ex := cfg.Exempt[fi.key]; ex {
			continue
		}
		if !interesting[fi.key] {
			continue
		}
		checkRoots(fi)
		for _, p := range fi.problems {
			fatal = append(fatal, fi.key+": "+p)
		}
		for c := range fi.calls {
			if _, ex := cfg.Exempt[c]; ex && interesting[fi.key] {
				// calls into functions modelled elsewhere are fine only if they
				// are LockPile methods reached as pile operations, which never
				// produce a call node; anything else is unexpected
				fatal = append(fatal, fi.key+": calls exempt function "+c)
			}
		}
		live := map[string]bool{}
		fi.tree.walk(func(n *node) {
			if n.kind == "ifflag" {
				live[n.flag] = true
			}
		})
		fi.tree = simplify(fi.tree, func(fn string) bool { return interesting[fn] }, live)
		emitted = append(emitted, fi)
	}
	if len(fatal) > 0 {
		sort.Strings(fatal)
		for _, f := range fatal {
			fmt.Fprintln(os.Stderr, "translator: not understood: "+f)
		}
		os.Exit(2)
	}
	sort.Slice(emitted, func(i, j int) bool { return emitted[i].key < emitted[j].key })

	var b strings.Builder
	b.WriteString("(* GENERATED by /verif/translator from the Go sources; do not edit. *)\n")
	b.WriteString("From Coq Require Import String List ZArith.\nFrom VF Require Import Locks.Checker.\nImport ListNotations.\nOpen Scope string_scope.\n\n")
	for i, fi := range emitted {
		fmt.Fprintf(&b, "(* %s:%d  %s *)\nDefinition body_%d : stmt :=\n  %s.\n", fi.file, fi.line, fi.key, i, fi.tree.coq())
	}
	b.WriteString("\nDefinition prog : program := [\n")
	for i, fi := range emitted {
		sep := ";"
		if i == len(emitted)-1 {
			sep = ""
		}
		fmt.Fprintf(&b, "  (%s, (body_%d, %s))%s\n", q(fi.key), i, summaryCoq(fi), sep)
	}
	b.WriteString("].\n\n")
	var eps []string
	for _, fi := range emitted {
		if _, ok := cfg.Summaries[fi.key]; !ok {
			eps = append(eps, q(fi.key))
		}
	}
	b.WriteString("(* lock-class order: (class of a mutex that may be held, class of a mutex acquired blocking meanwhile) *)\nDefinition lock_edges : list (string * string) := [\n")
	for i, e := range orderEdges.Edges {
		sep := ";"
		if i == len(orderEdges.Edges)-1 {
			sep = ""
		}
		st := orderEdges.Sites[e[0]+" -> "+e[1]][0]
		fmt.Fprintf(&b, "  (* %s holds %s, %s acquires %s *)\n  (%s, %s)%s\n", st.InFunc, st.HeldLock, st.AcquiredAt, st.AcquiredLock, q(e[0]), q(e[1]), sep)
	}
	b.WriteString("].\n\n")
	if *orderOut != "" {
		data, _ := json.MarshalIndent(orderEdges, "", " ")
		os.WriteFile(*orderOut, data, 0o644)
	}
	b.WriteString("(* declared atomic sections (summaries.json, atomic/sections) *)\nDefinition atomic_table : list (string * asec) := [\n")
	var akeys []string
	for k := range cfg.Atomic.Sections {
		akeys = append(akeys, k)
	}
	sort.Strings(akeys)
	var rows []string
	for _, k := range akeys {
		for _, sc := range cfg.Atomic.Sections[k] {
			bb := "None"
			if sc.B != "" {
				bb = "(Some " + q(sc.B) + ")"
			}
			rows = append(rows, fmt.Sprintf("  (%s, mkAsec %s %s %s %s)", q(k), q(sc.A), bb, q(sc.Lock), coqBool(sc.Mode == "shared")))
		}
	}
	b.WriteString(strings.Join(rows, ";\n") + "\n].\n\n")
	b.WriteString("(* functions that must leave every lock as they found it *)\nDefinition entry_points : list string := [\n  " + strings.Join(eps, ";\n  ") + "\n].\n")
	if *out == "" {
		fmt.Print(b.String())
	} else if err := os.WriteFile(*out, []byte(b.String()), 0o644); err != nil {
		die("%v", err)
	}

	closures := 0
	for _, fi := range order {
		if fi.closure {
			closures++
		}
	}
	stats := map[string]any{
		"packages": cfg.Packages, "functions_seen": len(order), "function_literals": closures,
		"functions_with_lock_operations": withLocks, "functions_emitted": len(emitted),
		"functions_with_declared_summary": len(cfg.Summaries), "functions_modelled_elsewhere": len(cfg.Exempt),
		"entry_points": len(eps), "lock_classes": len(orderEdges.Classes), "lock_order_edges": len(orderEdges.Edges),
		"justified_nestings": len(cfg.Order.SameClass), "functions_that_may_panic": len(mayPanic), "functions_with_panic_bound": len(plowEff),
		"atomic_sections": atomicCount(), "functions_with_atomic_sections": len(cfg.Atomic.Sections),
	}
	data, _ := json.MarshalIndent(stats, "", " ")
	if *statsOut != "" {
		os.WriteFile(*statsOut, data, 0o644)
	}
	fmt.Fprintln(os.Stderr, string(data))
	if len(orderFatal) > 0 {
		for _, f := range orderFatal {
			fmt.Fprintln(os.Stderr, "translator: not understood: "+f)
		}
		os.Exit(3)
	}
}
