module verif/translator

go 1.23
