(* Evaluator for the case files written by harness/cmd/locks. *)
From VF Require Import Common.Verdict Locks.Model Locks.Spec Locks.Pile.
From Coq Require Import Bool Arith.
Open Scope string_scope.

Inductive case :=
| mkCase (steps : list Model.step)              (* calls on an in-memory directory tree *)
| mkPileCase (obs : list pile_obs).       (* one thread driving a LockPile with scripted TryLockers *)

(* ---- directories ---------------------------------------------------------- *)

Fixpoint viol_from (i : nat) (tr : list Model.step) : verdict :=
  match tr with
  | [] => VOk
  | s :: tr' =>
    let k := p_step s in
    if String.eqb k "" then viol_from (S i) tr' else VViolation i k
  end.

Fixpoint list_beq (a b : list bool) : bool :=
  match a, b with
  | [], [] => true
  | x :: a', y :: b' => Bool.eqb x y && list_beq a' b'
  | _, _ => false
  end.

(* model vs implementation: the model says "returned, everything free". *)
Fixpoint mism_from (i : nat) (tr : list Model.step) : verdict :=
  match tr with
  | [] => VOk
  | s :: tr' =>
    match s_result s with
    | RPanicked => VOk     (* the harness stops a history at a panic *)
    | RHung => VMismatch i "call did not return"
    | RReturned =>
      if list_beq (s_free s) (model_free (length (s_free s))) then mism_from (S i) tr'
      else VMismatch i "lock state"
    end
  end.

(* ---- LockPile --------------------------------------------------------------- *)

Definition action_eqb (a b : action) : bool :=
  match a, b with
  | ATryLock m x, ATryLock n y => Nat.eqb m n && Bool.eqb x y
  | ALock m, ALock n | AUnlock m, AUnlock n => Nat.eqb m n
  | ATau, ATau => true
  | _, _ => false
  end.

Fixpoint actions_eqb (a b : list action) : bool :=
  match a, b with
  | [], [] => true
  | x :: a', y :: b' => action_eqb x y && actions_eqb a' b'
  | _, _ => false
  end.

Fixpoint pile_viol (i : nat) (st : list mutex * list mutex) (obs : list pile_obs) : verdict :=
  match obs with
  | [] => VOk
  | o :: t =>
    let (k, st') := pile_p st o in
    if String.eqb k "" then pile_viol (S i) st' t else VViolation i k
  end.

Definition pile_fuel := 2000%nat.

(* the sequential runner of the model against the recorded calls *)
Fixpoint pile_mism (i : nat) (pile : list entry) (obs : list pile_obs) : verdict :=
  match obs with
  | [] => VOk
  | o :: t =>
    match run_cmd pile_fuel pile (po_cmd o) (po_oracle o) with
    | None => if po_panicked o then pile_mism (S i) pile t else VMismatch i "model panics, code does not"
    | Some (tr, Idle pile') =>
      if po_panicked o then VMismatch i "code panics, model does not"
      else if actions_eqb tr (po_calls o) then pile_mism (S i) pile' t
      else VMismatch i "mutex calls"
    | Some _ => VMismatch i "model call did not finish"
    end
  end.

Definition check_case (c : case) : verdict :=
  match c with
  | mkCase steps => vcombine (viol_from 0 steps) (mism_from 0 steps)
  | mkPileCase obs => vcombine (pile_viol 0 ([], []) obs) (pile_mism 0 [] obs)
  end.
