(* Evaluator for the case files written by harness/cmd/locks. *)
From VF Require Import Common.Verdict Locks.Model Locks.Spec.
From Coq Require Import Bool.
Open Scope string_scope.

Record case := mkCase { c_steps : list step }.

Fixpoint viol_from (i : nat) (tr : list step) : verdict :=
  match tr with
  | [] => VOk
  | s :: tr' =>
    let k := p_step s in
    if String.eqb k "" then viol_from (S i) tr' else VViolation i k
  end.

Fixpoint list_beq (a b : list bool) : bool :=
  match a, b with
  | [], [] => true
  | x :: a', y :: b' => Bool.eqb x y && list_beq a' b'
  | _, _ => false
  end.

(* model vs implementation: the model says "returned, everything free". *)
Fixpoint mism_from (i : nat) (tr : list step) : verdict :=
  match tr with
  | [] => VOk
  | s :: tr' =>
    match s_result s with
    | RPanicked => VOk     (* the harness stops a history at a panic *)
    | RHung => VMismatch i "call did not return"
    | RReturned =>
      if list_beq (s_free s) (model_free (length (s_free s))) then mism_from (S i) tr'
      else VMismatch i "lock state"
    end
  end.

Definition check_case (c : case) : verdict :=
  vcombine (viol_from 0 (c_steps c)) (mism_from 0 (c_steps c)).
