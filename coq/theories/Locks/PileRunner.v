(* C14, LockPile: the sequential runner of the model ([Pile.run_cmd], the
   function the harness compares call for call with the real LockPile)
   satisfies the monitor [Spec.pile_p] that Corr.v evaluates on the code's
   recorded mutex calls -- for every script, every TryLock oracle and every
   fuel.  Consequently a recorded trace that matches the model
   ([Corr.pile_mism] = VOk) can never be flagged by the monitor
   ([Corr.pile_viol] = VOk): the two halves of [check_case] for pile cases
   are linked by a theorem, not only by evaluation per generated case.

   The proof carries an invariant [PInv pile want held] between the model's
   pile and the monitor's state (want, held):
     - the pile has no duplicate mutex,
     - held is a permutation of the pile's mutexes,
     - every mutex occurs in want exactly (recursion count + 1) times if it
       is in the pile and not at all otherwise.  *)
From Coq Require Import List Arith Bool Lia Permutation String.
From VF Require Import Common.Verdict Locks.Pile Locks.Model Locks.Spec Locks.Corr.
Import ListNotations.
Local Open Scope list_scope.

(* what the model runner "observes" for a script: one pile_obs per command,
   the pile carried along *)
Fixpoint model_obs (fuel : nat) (pile : list entry) (script : list (cmd * list bool)) : list pile_obs :=
  match script with
  | [] => []
  | (c, orc) :: t =>
    match run_cmd fuel pile c orc with
    | None => mkPO c orc true [] :: model_obs fuel pile t          (* the call panics; pile unchanged *)
    | Some (tr, Idle pile') => mkPO c orc false tr :: model_obs fuel pile' t
    | Some (_, _) => []                                             (* out of fuel: the observation stops *)
    end
  end.

(* ---- multiset view of the caller's list ----------------------------------- *)

Fixpoint occ (l : list mutex) (m : mutex) : nat :=
  match l with
  | [] => 0
  | x :: t => (if Nat.eqb x m then 1 else 0) + occ t m
  end.

(* how often the caller must still unlock m according to the pile *)
Definition cnt (p : list entry) (m : mutex) : nat :=
  match recursion p m with Some n => S n | None => 0 end.

Record PInv (pile : list entry) (want held : list mutex) : Prop := mkPInv {
  pi_nodup : NoDup (mutexes pile);
  pi_held : Permutation held (mutexes pile);
  pi_want : forall m, occ want m = cnt pile m }.

Lemma mem_true m l : mem m l = true <-> In m l.
Proof.
  unfold mem. rewrite existsb_exists. split.
  - intros [x [Hx He]]. apply Nat.eqb_eq in He; subst; assumption.
  - intros H; exists m; split; [assumption | apply Nat.eqb_refl].
Qed.

Lemma mem_false m l : mem m l = false <-> ~ In m l.
Proof. rewrite <- mem_true. destruct (mem m l); intuition congruence. Qed.

Lemma occ_app a b m : occ (a ++ b) m = occ a m + occ b m.
Proof. induction a as [|x a IH]; cbn [occ app]; [reflexivity | rewrite IH; lia]. Qed.

Lemma occ_pos l m : occ l m <> 0 <-> In m l.
Proof.
  induction l as [|x l IH]; cbn [occ In]; [tauto|].
  destruct (Nat.eqb_spec x m) as [Heq|Hne].
  - split; [auto | lia].
  - rewrite <- IH. change (0 + occ l m) with (occ l m). tauto.
Qed.

Lemma occ_remove_one m l x :
  occ (remove_one m l) x = if Nat.eqb x m then pred (occ l x) else occ l x.
Proof.
  induction l as [|y l IH]; cbn [remove_one occ].
  - destruct (Nat.eqb x m); reflexivity.
  - destruct (Nat.eqb_spec y m) as [Hym|Hym].
    + subst y. rewrite (Nat.eqb_sym x m). destruct (Nat.eqb m x); reflexivity.
    + cbn [occ]. rewrite IH. destruct (Nat.eqb_spec x m) as [Hxm|Hxm]; [|reflexivity].
      subst x. destruct (Nat.eqb_spec y m) as [Hym'|_]; [contradiction | reflexivity].
Qed.

Lemma remove_one_perm m l : In m l -> Permutation l (m :: remove_one m l).
Proof.
  induction l as [|y l IH]; cbn [remove_one In]; [contradiction|].
  intros Hin. destruct (Nat.eqb_spec y m) as [Heq|Hne]; [subst y; reflexivity|].
  destruct Hin as [Hin|Hin]; [contradiction|].
  eapply perm_trans; [apply perm_skip, IH, Hin | apply perm_swap].
Qed.

Lemma perm_remove_one m held l :
  Permutation held (m :: l) -> Permutation (remove_one m held) l.
Proof.
  intros Hp. apply Permutation_cons_inv with (a := m).
  eapply perm_trans; [apply Permutation_sym, remove_one_perm | exact Hp].
  eapply Permutation_in; [apply Permutation_sym, Hp | left; reflexivity].
Qed.

(* ---- recursion counts ------------------------------------------------------ *)

Lemma recursion_none p m : recursion p m = None <-> ~ In m (mutexes p).
Proof.
  induction p as [|e p IH]; cbn [recursion mutexes map In]; [tauto|].
  fold (mutexes p).
  destruct (Nat.eqb_spec (fst e) m) as [He|He].
  - split; [discriminate | intros H; exfalso; apply H; left; exact He].
  - rewrite IH. tauto.
Qed.

Lemma recursion_some_in p m n : recursion p m = Some n -> In (m, n) p.
Proof.
  induction p as [|[k c] p IH]; cbn [recursion fst snd In]; [discriminate|].
  destruct (Nat.eqb_spec k m) as [Heq|Hne].
  - intros H; inversion H; subst; left; reflexivity.
  - intros H; right; auto.
Qed.

Lemma in_recursion p m n : NoDup (mutexes p) -> In (m, n) p -> recursion p m = Some n.
Proof.
  induction p as [|[k c] p IH]; cbn [recursion fst snd In mutexes map]; [contradiction|].
  fold (mutexes p). intros Hnd [Heq|Hin].
  - inversion Heq; subst. rewrite Nat.eqb_refl. reflexivity.
  - inversion Hnd as [|? ? Hnot Hnd']; subst.
    destruct (Nat.eqb_spec k m) as [Hkm|Hne].
    + exfalso. apply Hnot. subst k. apply (in_map fst) in Hin. exact Hin.
    + apply IH; assumption.
Qed.

Lemma cnt_perm p q m : NoDup (mutexes p) -> Permutation p q -> cnt p m = cnt q m.
Proof.
  intros Hnd Hp.
  assert (Hnq : NoDup (mutexes q)).
  { eapply Permutation_NoDup; [apply Permutation_map, Hp | exact Hnd]. }
  unfold cnt. destruct (recursion p m) as [n|] eqn:Hr.
  - apply recursion_some_in in Hr. apply (Permutation_in _ Hp) in Hr.
    rewrite (in_recursion _ _ _ Hnq Hr). reflexivity.
  - apply recursion_none in Hr.
    assert (Hq : ~ In m (mutexes q)).
    { intro H; apply Hr. eapply Permutation_in; [apply Permutation_sym, Permutation_map, Hp | exact H]. }
    apply recursion_none in Hq. rewrite Hq. reflexivity.
Qed.

Lemma cnt_pos p m : cnt p m <> 0 <-> In m (mutexes p).
Proof.
  unfold cnt. destruct (recursion p m) as [n|] eqn:Hr.
  - split; [intros _; eapply recursion_in; exact Hr | intros _; discriminate].
  - apply recursion_none in Hr. split; [congruence | contradiction].
Qed.

Lemma recursion_app a b m :
  recursion (a ++ b) m = match recursion a m with Some n => Some n | None => recursion b m end.
Proof.
  induction a as [|e a IH]; cbn [app recursion]; [reflexivity|].
  destruct (Nat.eqb (fst e) m); [reflexivity | exact IH].
Qed.

Lemma recursion_bump p m x :
  recursion (bump p m) x = if Nat.eqb m x then option_map S (recursion p x) else recursion p x.
Proof.
  induction p as [|e p IH]; cbn [bump recursion].
  - destruct (Nat.eqb m x); reflexivity.
  - destruct (Nat.eqb_spec (fst e) m) as [Hem|Hem]; cbn [recursion fst snd].
    + destruct (Nat.eqb_spec (fst e) x) as [Hex|Hex];
        destruct (Nat.eqb_spec m x) as [Hmx|Hmx]; try congruence; reflexivity.
    + rewrite IH. destruct (Nat.eqb_spec (fst e) x) as [Hex|Hex]; [|reflexivity].
      destruct (Nat.eqb_spec m x) as [Hmx|Hmx]; [congruence | reflexivity].
Qed.

Lemma recursion_unbump p m x :
  recursion (unbump p m) x = if Nat.eqb m x then option_map pred (recursion p x) else recursion p x.
Proof.
  induction p as [|e p IH]; cbn [unbump recursion].
  - destruct (Nat.eqb m x); reflexivity.
  - destruct (Nat.eqb_spec (fst e) m) as [Hem|Hem]; cbn [recursion fst snd].
    + destruct (Nat.eqb_spec (fst e) x) as [Hex|Hex];
        destruct (Nat.eqb_spec m x) as [Hmx|Hmx]; try congruence; reflexivity.
    + rewrite IH. destruct (Nat.eqb_spec (fst e) x) as [Hex|Hex]; [|reflexivity].
      destruct (Nat.eqb_spec m x) as [Hmx|Hmx]; [congruence | reflexivity].
Qed.

Lemma has_false_rec p m : has p m = false -> recursion p m = None.
Proof.
  intros H. apply recursion_none. intro Hin. apply has_true in Hin. congruence.
Qed.

Lemma has_true_rec p m : has p m = true -> exists k, recursion p m = Some k.
Proof.
  intros H. destruct (recursion p m) as [k|] eqn:Hr; [eauto|].
  apply recursion_none in Hr. apply has_true in H. contradiction.
Qed.

(* lp.insert adds one to the count of the inserted mutex, whatever branch *)
Lemma cnt_insert a r m a' r' x :
  insert (a, r) m = (a', r') ->
  cnt (a' ++ r') x = cnt (a ++ r) x + (if Nat.eqb m x then 1 else 0).
Proof.
  unfold insert, cnt. destruct (has a m) eqn:Ha.
  - intros H; inversion H; subst; clear H. rewrite !recursion_app, recursion_bump.
    destruct (Nat.eqb_spec m x) as [Hmx|Hne]; [subst x | rewrite Nat.add_0_r; reflexivity].
    destruct (has_true_rec _ _ Ha) as [k Hk]. rewrite Hk. cbn [option_map]. lia.
  - destruct (has r m) eqn:Hr.
    + intros H; inversion H; subst; clear H. rewrite !recursion_app, recursion_bump.
      destruct (Nat.eqb_spec m x) as [Hmx|Hne]; [subst x | rewrite Nat.add_0_r; reflexivity].
      rewrite (has_false_rec _ _ Ha). destruct (has_true_rec _ _ Hr) as [k Hk]. rewrite Hk.
      cbn [option_map]. lia.
    + intros H; inversion H; subst; clear H. rewrite !recursion_app. cbn [recursion fst snd].
      destruct (Nat.eqb_spec m x) as [Hmx|Hne].
      * subst x. rewrite (has_false_rec _ _ Ha), (has_false_rec _ _ Hr). reflexivity.
      * rewrite Nat.add_0_r. destruct (recursion a' x); [reflexivity|].
        destruct (recursion r x); reflexivity.
Qed.

Lemma cnt_insert_all news : forall a r a' r' x,
  fold_left insert news (a, r) = (a', r') ->
  cnt (a' ++ r') x = cnt (a ++ r) x + occ news x.
Proof.
  induction news as [|m news IH]; intros a r a' r' x H; cbn [fold_left occ] in *.
  - inversion H; subst. lia.
  - destruct (insert (a, r) m) as [a1 r1] eqn:Hi.
    rewrite (IH _ _ _ _ x H), (cnt_insert _ _ _ _ _ x Hi). lia.
Qed.

(* ---- one step of a running call ------------------------------------------- *)

(* the pile the running call will leave behind, up to order *)
Definition fin (p : pc) : list entry :=
  match p with
  | UnlockingAll _ => []
  | _ => pile_of p
  end.

Lemma calls_ok_tau held a tr :
  calls_ok held (match a with ATau => tr | _ => a :: tr end) = calls_ok held (a :: tr).
Proof. destruct a; reflexivity. Qed.

Lemma next_ok p b a p' held :
  NoDup (mutexes (pile_of p)) ->
  Permutation held (mutexes (held_of p)) ->
  next p (fun _ => b) = Some (a, p') ->
  NoDup (mutexes (pile_of p')) /\
  Permutation (fin p) (fin p') /\
  exists held1, Permutation held1 (mutexes (held_of p')) /\
    forall tr, calls_ok held (a :: tr) = calls_ok held1 tr.
Proof.
  intros Hnd Hheld Hnext.
  destruct p as [pile | g acq rest | g done todo rest | g e others | todo];
    cbn [next] in Hnext.
  - discriminate.
  - destruct rest as [|e r].
    + inversion Hnext; subst a p'; clear Hnext.
      cbn [pile_of fin held_of] in *. rewrite app_nil_r in *.
      split; [exact Hnd|]. split; [reflexivity|].
      exists held. split; [exact Hheld | reflexivity].
    + destruct acq as [|a0 acq].
      * inversion Hnext; subst a p'; clear Hnext.
        cbn [pile_of fin held_of app] in *.
        split; [exact Hnd|]. split; [reflexivity|].
        exists held. split; [exact Hheld | reflexivity].
      * destruct b; inversion Hnext; subst a p'; clear Hnext.
        -- cbn [pile_of fin held_of] in *.
           change (a0 :: acq ++ [e]) with ((a0 :: acq) ++ [e]).
           split; [rewrite <- app_assoc; exact Hnd|].
           split; [rewrite <- app_assoc; reflexivity|].
           exists (fst e :: held). split.
           ++ rewrite mutexes_app. change (mutexes [e]) with [fst e].
              eapply perm_trans; [apply perm_skip, Hheld | apply Permutation_cons_append].
           ++ intro tr. cbn [calls_ok].
              assert (Hm : mem (fst e) held = false).
              { apply mem_false. intro Hin.
                apply (Permutation_in _ Hheld) in Hin.
                rewrite mutexes_app in Hnd. change (mutexes (e :: r)) with (fst e :: mutexes r) in Hnd.
                apply NoDup_remove_2 in Hnd. apply Hnd, in_or_app. left; exact Hin. }
              rewrite Hm. reflexivity.
        -- cbn [pile_of fin held_of app] in *.
           split; [exact Hnd|]. split; [reflexivity|].
           exists held. split; [exact Hheld | reflexivity].
  - destruct todo as [|x todo].
    + destruct done as [|a0 acq']; [discriminate|]. destruct rest as [|e r]; [discriminate|].
      inversion Hnext; subst a p'; clear Hnext.
      assert (Hp : Permutation ((a0 :: acq') ++ [] ++ e :: r) (e :: acq' ++ a0 :: r)).
      { cbn [app].
        eapply perm_trans; [apply perm_skip, Permutation_sym, Permutation_middle|].
        eapply perm_trans; [apply perm_swap|].
        apply perm_skip, Permutation_middle. }
      cbn [pile_of fin held_of] in *.
      split; [eapply Permutation_NoDup; [apply Permutation_map, Hp | exact Hnd]|].
      split; [exact Hp|].
      exists held. split; [exact Hheld | reflexivity].
    + inversion Hnext; subst a p'; clear Hnext.
      cbn [pile_of fin held_of] in *.
      split; [rewrite <- app_assoc; exact Hnd|].
      split; [rewrite <- app_assoc; reflexivity|].
      exists (remove_one (fst x) held). split.
      * apply perm_remove_one. exact Hheld.
      * intro tr. cbn [calls_ok].
        assert (Hm : mem (fst x) held = true).
        { apply mem_true. eapply Permutation_in; [apply Permutation_sym, Hheld | left; reflexivity]. }
        rewrite Hm. reflexivity.
  - inversion Hnext; subst a p'; clear Hnext.
    cbn [pile_of fin held_of app] in *.
    split; [exact Hnd|]. split; [reflexivity|].
    exists [fst e]. split; [reflexivity|].
    intro tr. apply Permutation_sym, Permutation_nil in Hheld. subst held. reflexivity.
  - destruct todo as [|x todo]; inversion Hnext; subst a p'; clear Hnext;
      cbn [pile_of fin held_of] in *.
    + split; [constructor|]. split; [reflexivity|].
      exists held. split; [exact Hheld | reflexivity].
    + split; [inversion Hnd; assumption|]. split; [reflexivity|].
      exists (remove_one (fst x) held). split.
      * apply perm_remove_one. exact Hheld.
      * intro tr. cbn [calls_ok].
        assert (Hm : mem (fst x) held = true).
        { apply mem_true. eapply Permutation_in; [apply Permutation_sym, Hheld | left; reflexivity]. }
        rewrite Hm. reflexivity.
Qed.

(* ---- a call run to wherever the fuel lets it get --------------------------- *)

Lemma run_pc_ok fuel : forall p orc tr q held,
  NoDup (mutexes (pile_of p)) ->
  Permutation held (mutexes (held_of p)) ->
  run_pc fuel p orc = (tr, q) ->
  exists held', calls_ok held tr = inr held' /\
    Permutation held' (mutexes (held_of q)) /\
    NoDup (mutexes (pile_of q)) /\
    Permutation (fin p) (fin q).
Proof.
  induction fuel as [|fuel IH]; intros p orc tr q held Hnd Hheld Hrun; cbn [run_pc] in Hrun.
  - inversion Hrun; subst. exists held. repeat split; auto.
  - set (b := match orc with [] => true | b0 :: _ => b0 end) in Hrun.
    destruct (next p (fun _ => b)) as [[a p']|] eqn:Hnext.
    + destruct (run_pc fuel p' (match a with ATryLock _ _ => tl orc | _ => orc end)) as [tr' q'] eqn:Hrun'.
      inversion Hrun; subst tr q; clear Hrun.
      destruct (next_ok p b a p' held Hnd Hheld Hnext) as (Hnd' & Hfin & held1 & Hheld1 & Hcalls).
      destruct (IH _ _ _ _ held1 Hnd' Hheld1 Hrun') as (held' & Hc & Hh & Hn & Hf).
      exists held'. rewrite calls_ok_tau, Hcalls. repeat split; auto.
      eapply perm_trans; eassumption.
    + inversion Hrun; subst. exists held. repeat split; auto.
Qed.

Lemma run_pc_idle fuel pile orc : run_pc fuel (Idle pile) orc = ([], Idle pile).
Proof. destruct fuel; reflexivity. Qed.

(* ---- one command: the monitor's state follows the pile --------------------- *)

Lemma run_cmd_ok fuel pile c orc tr pile' want held :
  PInv pile want held ->
  run_cmd fuel pile c orc = Some (tr, Idle pile') ->
  exists held', calls_ok held tr = inr held' /\ PInv pile' (want_after want c) held'.
Proof.
  intros [Hnd Hheld Hwant]. unfold run_cmd.
  destruct (start pile c) as [[a p]|] eqn:Hs; [|discriminate].
  destruct (run_pc fuel p orc) as [tr0 q] eqn:Hr.
  intros H; inversion H; subst tr q; clear H. rewrite calls_ok_tau.
  destruct c as [news | m |]; cbn [start want_after] in *.
  - (* Lock *)
    destruct (insert_all pile news) as [acq rest] eqn:Hi.
    destruct (insert_all_spec news _ _ _ _ Hi) as (E & N & _).
    rewrite app_nil_r in N.
    destruct (acq ++ rest) as [|e0 l0] eqn:Har; [discriminate|]. rewrite <- Har in *.
    inversion Hs; subst a p; clear Hs.
    assert (Hheld0 : Permutation held (mutexes (held_of (Loop (mutexes pile ++ news) acq rest)))).
    { cbn [held_of]. rewrite E. exact Hheld. }
    destruct (run_pc_ok fuel (Loop (mutexes pile ++ news) acq rest) orc tr0 (Idle pile') held
                (N Hnd) Hheld0 Hr) as (held' & Hc & Hh & Hn & Hf).
    cbn [fin pile_of held_of] in *.
    exists held'. split; [exact Hc|]. constructor; [exact Hn | exact Hh |].
    intro x. rewrite occ_app, Hwant, <- (cnt_perm _ _ x (N Hnd) Hf).
    unfold insert_all in Hi. rewrite (cnt_insert_all _ _ _ _ _ x Hi), app_nil_r. reflexivity.
  - (* Unlock *)
    destruct (recursion pile m) as [[|n]|] eqn:Hrec; [| |discriminate];
      inversion Hs; subst a p; clear Hs;
      rewrite run_pc_idle in Hr; inversion Hr; subst tr0 pile'; clear Hr.
    + pose proof (recursion_in _ _ _ Hrec) as Hin.
      destruct (swap_remove_perm pile m Hin) as [e [He Hp]].
      destruct (swap_remove_spec pile m Hnd Hin) as [Hnd' Hiff].
      assert (Hpm : Permutation (mutexes pile) (m :: mutexes (swap_remove pile m))).
      { pose proof (Permutation_map fst Hp) as Hpm. cbn [map] in Hpm. rewrite He in Hpm. exact Hpm. }
      assert (Hm : mem m held = true).
      { apply mem_true. eapply Permutation_in; [apply Permutation_sym, Hheld | exact Hin]. }
      cbn [calls_ok]. rewrite Hm.
      exists (remove_one m held). split; [reflexivity|].
      constructor; [exact Hnd' | |].
      * apply perm_remove_one. eapply perm_trans; [exact Hheld | exact Hpm].
      * intro x. rewrite occ_remove_one, Hwant.
        assert (Hnot : recursion (swap_remove pile m) m = None).
        { apply recursion_none. intro Hx. apply Hiff in Hx. destruct Hx as [Hx _]. congruence. }
        destruct (Nat.eqb_spec x m) as [Hxm|Hxm].
        -- subst x. unfold cnt. rewrite Hrec, Hnot. reflexivity.
        -- rewrite (cnt_perm _ _ x Hnd Hp). unfold cnt. cbn [recursion]. rewrite He.
           destruct (Nat.eqb_spec m x) as [Hmx|_]; [congruence | reflexivity].
    + cbn [calls_ok]. exists held. split; [reflexivity|].
      constructor.
      * rewrite mutexes_unbump. exact Hnd.
      * rewrite mutexes_unbump. exact Hheld.
      * intro x. rewrite occ_remove_one, Hwant. unfold cnt. rewrite recursion_unbump.
        rewrite (Nat.eqb_sym x m).
        destruct (Nat.eqb_spec m x) as [Hmx|Hmx]; [|reflexivity].
        subst x. rewrite Hrec. reflexivity.
  - (* UnlockAll *)
    inversion Hs; subst a p; clear Hs.
    assert (Hheld0 : Permutation held (mutexes (held_of (UnlockingAll pile)))) by exact Hheld.
    destruct (run_pc_ok fuel (UnlockingAll pile) orc tr0 (Idle pile') held
                Hnd Hheld0 Hr) as (held' & Hc & Hh & Hn & Hf).
    cbn [fin pile_of held_of] in *. apply Permutation_nil in Hf. subst pile'.
    exists held'. split; [exact Hc|]. constructor; [exact Hn | exact Hh | reflexivity].
Qed.

(* between calls the monitor's two lists are equal as sets *)
Lemma pinv_set_eqb pile want held : PInv pile want held -> set_eqb held want = true.
Proof.
  intros [Hnd Hheld Hwant]. unfold set_eqb. apply andb_true_intro. split; apply forallb_forall; intros x Hx; apply mem_true.
  - apply (Permutation_in _ Hheld) in Hx. apply cnt_pos in Hx. rewrite <- Hwant in Hx.
    apply occ_pos. exact Hx.
  - apply occ_pos in Hx. rewrite Hwant in Hx. apply cnt_pos in Hx.
    eapply Permutation_in; [apply Permutation_sym, Hheld | exact Hx].
Qed.

Lemma pinv_init : PInv [] [] [].
Proof. constructor; [constructor | reflexivity | reflexivity]. Qed.

(* the monitor accepts a completed model call and moves to a related state *)
Lemma pile_p_model fuel pile c orc tr pile' want held :
  PInv pile want held ->
  run_cmd fuel pile c orc = Some (tr, Idle pile') ->
  exists held', pile_p (want, held) (mkPO c orc false tr) = (""%string, (want_after want c, held')) /\
    PInv pile' (want_after want c) held'.
Proof.
  intros HI Hr. destruct (run_cmd_ok _ _ _ _ _ _ _ _ HI Hr) as (held' & Hc & HI').
  exists held'. split; [|exact HI'].
  unfold pile_p. cbn [po_panicked po_calls po_cmd]. rewrite Hc, (pinv_set_eqb _ _ _ HI'). reflexivity.
Qed.

Lemma pile_p_panic st c orc calls : pile_p st (mkPO c orc true calls) = (""%string, st).
Proof. destruct st; reflexivity. Qed.

(* ---- the theorems ------------------------------------------------------------ *)

Lemma model_obs_ok fuel : forall script i pile want held,
  PInv pile want held -> pile_viol i (want, held) (model_obs fuel pile script) = VOk.
Proof.
  induction script as [|[c orc] t IH]; intros i pile want held HI; cbn [model_obs]; [reflexivity|].
  destruct (run_cmd fuel pile c orc) as [[tr [pile'| | | |]]|] eqn:Hr; try reflexivity.
  - destruct (pile_p_model _ _ _ _ _ _ _ _ HI Hr) as (held' & Hp & HI').
    cbn [pile_viol]. rewrite Hp. cbn [String.eqb]. apply IH, HI'.
  - cbn [pile_viol]. rewrite pile_p_panic. cbn [String.eqb]. apply IH, HI.
Qed.

Theorem pile_runner_satisfies_monitor : forall fuel script,
  pile_viol 0 ([], []) (model_obs fuel [] script) = VOk.
Proof. intros fuel script. apply model_obs_ok, pinv_init. Qed.

Lemma action_eqb_eq a b : action_eqb a b = true -> a = b.
Proof.
  destruct a as [m x|m|m|], b as [n y|n|n|]; cbn [action_eqb]; try discriminate; intros H.
  - apply andb_prop in H as [H1 H2]. apply Nat.eqb_eq in H1. apply Bool.eqb_prop in H2. congruence.
  - apply Nat.eqb_eq in H. congruence.
  - apply Nat.eqb_eq in H. congruence.
  - reflexivity.
Qed.

Lemma actions_eqb_eq : forall a b, actions_eqb a b = true -> a = b.
Proof.
  induction a as [|x a IH]; intros [|y b]; cbn [actions_eqb]; try discriminate; intros H; [reflexivity|].
  apply andb_prop in H as [H1 H2]. apply action_eqb_eq in H1. apply IH in H2. congruence.
Qed.

Lemma pile_mism_viol : forall obs i pile want held,
  PInv pile want held -> pile_mism i pile obs = VOk -> pile_viol i (want, held) obs = VOk.
Proof.
  induction obs as [|[c orc pan calls] t IH]; intros i pile want held HI Hm;
    cbn [pile_mism pile_viol po_cmd po_oracle po_panicked po_calls] in *; [reflexivity|].
  destruct (run_cmd pile_fuel pile c orc) as [[tr [pile'| | | |]]|] eqn:Hr; try discriminate.
  - destruct pan; [discriminate|].
    destruct (actions_eqb tr calls) eqn:He; [|discriminate].
    apply actions_eqb_eq in He. subst calls.
    destruct (pile_p_model _ _ _ _ _ _ _ _ HI Hr) as (held' & Hp & HI').
    rewrite Hp. cbn [String.eqb]. exact (IH _ _ _ _ HI' Hm).
  - destruct pan; [|discriminate].
    rewrite pile_p_panic. cbn [String.eqb]. exact (IH _ _ _ _ HI Hm).
Qed.

(* What Corr.check_case evaluates for a pile case is
   vcombine (pile_viol 0 ([],[]) obs) (pile_mism 0 [] obs): whenever the
   code's recorded calls equal the model's, the monitor holds of them. *)
Theorem pile_match_implies_monitor : forall obs,
  pile_mism 0 [] obs = VOk -> pile_viol 0 ([], []) obs = VOk.
Proof. intros obs. apply pile_mism_viol, pinv_init. Qed.

(* The observation of the model runner is itself a trace pile_mism accepts
   (at the evaluator's fuel), so the first theorem at [pile_fuel] is also an
   instance of the second. *)
Lemma action_eqb_refl a : action_eqb a a = true.
Proof.
  destruct a as [m x|m|m|]; cbn [action_eqb]; rewrite ?Nat.eqb_refl, ?Bool.eqb_reflx; reflexivity.
Qed.

Lemma actions_eqb_refl a : actions_eqb a a = true.
Proof.
  induction a as [|x a IH]; cbn [actions_eqb]; [reflexivity|].
  rewrite action_eqb_refl, IH. reflexivity.
Qed.

Lemma model_obs_matches : forall script i pile,
  pile_mism i pile (model_obs pile_fuel pile script) = VOk.
Proof.
  induction script as [|[c orc] t IH]; intros i pile; cbn [model_obs]; [reflexivity|].
  destruct (run_cmd pile_fuel pile c orc) as [[tr [pile'| | | |]]|] eqn:Hr; try reflexivity;
    cbn [pile_mism po_cmd po_oracle po_panicked po_calls]; rewrite Hr.
  - rewrite actions_eqb_refl. apply IH.
  - apply IH.
Qed.

Corollary pile_runner_satisfies_monitor_at_pile_fuel : forall script,
  pile_viol 0 ([], []) (model_obs pile_fuel [] script) = VOk.
Proof. intros script. apply pile_match_implies_monitor, model_obs_matches. Qed.

(* ---- non-vacuity -------------------------------------------------------------- *)

(* A script that exercises every branch: first Lock blocks on lp[0] and
   try-locks the rest; a failed TryLock releases everything, swaps and blocks
   on the contended mutex; recursive Unlock (no call), Unlock of a lock not
   in the pile (panic), last Unlock, Lock of nothing on a non-empty pile,
   UnlockAll, Lock of nothing on an empty pile (panic). *)
Definition demo_script : list (cmd * list bool) :=
  [ (CLock [1; 2], []); (CLock [3; 1], [false; true; true]); (CUnlock 1, []); (CUnlock 7, []);
    (CUnlock 1, []); (CLock [], []); (CUnlockAll, []); (CLock [], []) ].

Example demo_script_obs :
  map (fun o => (po_panicked o, po_calls o)) (model_obs 50 [] demo_script) =
  [ (false, [ALock 1; ATryLock 2 true]);
    (false, [ATryLock 3 false; AUnlock 1; AUnlock 2; ALock 3; ATryLock 2 true; ATryLock 1 true]);
    (false, []); (true, []); (false, [AUnlock 1]); (false, []);
    (false, [AUnlock 3; AUnlock 2]); (true, []) ].
Proof. vm_compute. reflexivity. Qed.

(* with too little fuel the observation stops where the model call does not finish *)
Example demo_script_short_fuel : model_obs 3 [] demo_script = [].
Proof. vm_compute. reflexivity. Qed.

(* the monitor is not trivially satisfied: it rejects a Lock that returns
   holding nothing, and a blocking Lock issued while a mutex is held *)
Example monitor_rejects_missing_lock :
  pile_viol 0 ([], []) [mkPO (CLock [1]) [] false []] = VViolation 0 "pile-holds-wrong-set".
Proof. vm_compute. reflexivity. Qed.

Example monitor_rejects_blocking_while_holding :
  pile_viol 0 ([], []) [mkPO (CLock [1; 2]) [] false [ALock 1; ALock 2]]
  = VViolation 0 "pile-blocks-while-holding".
Proof. vm_compute. reflexivity. Qed.

Print Assumptions pile_runner_satisfies_monitor.
Print Assumptions pile_match_implies_monitor.
Print Assumptions pile_runner_satisfies_monitor_at_pile_fuel.
