(* C14 as a predicate on observed traces: after every call that returned,
   every directory lock is free; and no call hangs. *)
From Coq Require Import String List Bool.
From VF Require Import Locks.Model.
Import ListNotations.
Open Scope string_scope.

(* "" = fine, otherwise the kind of violation (known-finding signature). *)
Definition p_step (s : step) : string :=
  match s_result s with
  | RHung => "hang:" ++ s_method s
  | RPanicked => ""          (* a panic ends the process; nothing is promised *)
  | RReturned => if forallb (fun b => b) (s_free s) then "" else "lock-leak:" ++ s_method s
  end.

Definition trace_ok (tr : list step) : bool :=
  forallb (fun s => String.eqb (p_step s) "") tr.
