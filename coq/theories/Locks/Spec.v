(* C14 as a predicate on observed traces: after every call that returned,
   every directory lock is free; and no call hangs. *)
From Coq Require Import String List Bool.
From VF Require Import Locks.Model.
Import ListNotations.
Open Scope string_scope.

(* "" = fine, otherwise the kind of violation (known-finding signature). *)
Definition p_step (s : step) : string :=
  match s_result s with
  | RHung => "hang:" ++ s_method s
  | RPanicked => ""          (* a panic ends the process; nothing is promised *)
  | RReturned => if forallb (fun b => b) (s_free s) then "" else "lock-leak:" ++ s_method s
  end.

Definition trace_ok (tr : list step) : bool :=
  forallb (fun s => String.eqb (p_step s) "") tr.

(* ---- LockPile, seen from outside ------------------------------------------ *)
(* The harness drives the real LockPile of one thread with scripted
   TryLockers and records every mutex call.  From those calls alone:
   - a blocking Lock() is only issued while nothing is held
     (pile_blocks_bare), TryLock is never issued on a mutex already held,
     Unlock only on a held mutex;
   - after every call that returns, the set of held mutexes is the set of
     locks the caller has requested and not yet unlocked
     (pile_holds_exactly; recursion counts make it a multiset on the
     caller's side). *)
From VF Require Import Locks.Pile.
From Coq Require Import Arith.

Fixpoint remove_one (m : mutex) (l : list mutex) : list mutex :=
  match l with
  | [] => []
  | x :: t => if Nat.eqb x m then t else x :: remove_one m t
  end.

Definition mem (m : mutex) (l : list mutex) : bool := existsb (Nat.eqb m) l.

Definition set_eqb (a b : list mutex) : bool :=
  forallb (fun x => mem x b) a && forallb (fun x => mem x a) b.

(* held mutexes after a sequence of calls, or the kind of the first bad call *)
Fixpoint calls_ok (held : list mutex) (calls : list action) : string + list mutex :=
  match calls with
  | [] => inr held
  | ATryLock m true :: t => if mem m held then inl "pile-trylock-of-held-mutex" else calls_ok (m :: held) t
  | ATryLock m false :: t => calls_ok held t
  | ALock m :: t =>
    match held with
    | [] => calls_ok [m] t
    | _ => inl "pile-blocks-while-holding"
    end
  | AUnlock m :: t => if mem m held then calls_ok (remove_one m held) t else inl "pile-unlock-of-free-mutex"
  | ATau :: t => calls_ok held t
  end.

Record pile_obs := mkPO {
  po_cmd : cmd;
  po_oracle : list bool;     (* answers the scripted TryLocks gave, in order *)
  po_panicked : bool;
  po_calls : list action }.

(* caller's view: locks requested and not yet unlocked (with multiplicity) *)
Definition want_after (want : list mutex) (c : cmd) : list mutex :=
  match c with
  | CLock news => want ++ news
  | CUnlock m => remove_one m want
  | CUnlockAll => []
  end.

(* state of the monitor: (want, held) *)
Definition pile_p (st : list mutex * list mutex) (o : pile_obs) : string * (list mutex * list mutex) :=
  let (want, held) := st in
  if po_panicked o then ("", st)      (* Go panics: Lock() of nothing on an empty pile, Unlock of a lock not in the pile *)
  else
    match calls_ok held (po_calls o) with
    | inl k => (k, st)
    | inr held' =>
      let want' := want_after want (po_cmd o) in
      if set_eqb held' want' then ("", (want', held')) else ("pile-holds-wrong-set", (want', held'))
    end.
