(* C14 — the property theorems, and nothing else.
   (The generated obligation [repo_balanced] and its corollary for the
   repository's entry points are re-proved on every run against the skeleton
   the translator extracts from the current sources; see checks/C14.py.) *)
From Coq Require Import String List ZArith Bool.
From VF Require Import Locks.Checker Locks.Model Locks.Spec Locks.Proofs.
Import ListNotations.

(* If every function of a program passes the executable check, every
   returning path of every function (any branch choices, any number of loop
   iterations, deferred statements run last-in-first-out, callees executed
   recursively) changes the locks held by exactly the function's declared
   summary ... *)
Theorem balanced_sound_all : forall prog,
  forallb (balanced prog) (map fst prog) = true ->
  forall f h, fn_returns prog f h ->
  exists body sm, assoc f prog = Some (body, sm) /\ meets sm h.
Proof. exact Checker.balanced_sound_all. Qed.
Print Assumptions balanced_sound_all.

(* ... in particular a function without a declared summary returns holding
   exactly the locks it was called with: the signed count of every lock,
   relative to function entry, is zero. *)
Theorem balanced_sound : forall prog,
  forallb (balanced prog) (map fst prog) = true ->
  forall f body, assoc f prog = Some (body, neutral) ->
  forall h, fn_returns prog f h -> forall i, cnt h i = 0%Z.
Proof. exact Checker.balanced_sound. Qed.
Print Assumptions balanced_sound.

(* Dynamic side: the model the harness compares the code with satisfies the
   trace predicate for all call sequences, and the predicate reports every
   leaked lock. *)
Theorem model_never_leaks : forall (calls : list (string * nat)),
  trace_ok (map (fun c => model_step (fst c) (snd c)) calls) = true.
Proof. exact model_trace_ok. Qed.
Print Assumptions model_never_leaks.

Theorem leak_is_reported : forall m free, In false free ->
  p_step (mkStep m RReturned free) = ("lock-leak:" ++ m)%string.
Proof. exact leak_detected. Qed.
Print Assumptions leak_is_reported.
