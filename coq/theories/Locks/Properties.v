(* C14 — the property theorems, and nothing else.
   (The generated obligation [repo_balanced] and its corollary for the
   repository's entry points are re-proved on every run against the skeleton
   the translator extracts from the current sources; see checks/C14.py.) *)
From Coq Require Import String List ZArith Bool.
From VF Require Import Locks.Checker Locks.Model Locks.Spec Locks.Proofs.
Import ListNotations.

(* If every function of a program passes the executable check, every
   returning path of every function (any branch choices, any number of loop
   iterations, deferred statements run last-in-first-out, callees executed
   recursively) changes the locks held by exactly the function's declared
   summary ... *)
Theorem balanced_sound_all : forall prog,
  forallb (balanced prog) (map fst prog) = true ->
  forall f h, fn_returns prog f h ->
  exists body sm, assoc f prog = Some (body, sm) /\ meets sm h.
Proof. exact Checker.balanced_sound_all. Qed.
Print Assumptions balanced_sound_all.

(* ... in particular a function without a declared summary returns holding
   exactly the locks it was called with: the signed count of every lock,
   relative to function entry, is zero. *)
Theorem balanced_sound : forall prog,
  forallb (balanced prog) (map fst prog) = true ->
  forall f body, assoc f prog = Some (body, neutral) ->
  forall h, fn_returns prog f h -> forall i, cnt h i = 0%Z.
Proof. exact Checker.balanced_sound. Qed.
Print Assumptions balanced_sound.

(* Dynamic side: the model the harness compares the code with satisfies the
   trace predicate for all call sequences, and the predicate reports every
   leaked lock. *)
Theorem model_never_leaks : forall (calls : list (string * nat)),
  trace_ok (map (fun c => model_step (fst c) (snd c)) calls) = true.
Proof. exact model_trace_ok. Qed.
Print Assumptions model_never_leaks.

Theorem leak_is_reported : forall m free, In false free ->
  p_step (mkStep m RReturned free) = ("lock-leak:" ++ m)%string.
Proof. exact leak_detected. Qed.
Print Assumptions leak_is_reported.

(* ---- LockPile (model of pkg/sync/lock_pile.go, Locks/Pile.v) --------------- *)
From VF Require Import Locks.Pile.

(* For all reachable states of any number of threads using LockPiles over
   shared try-lockable mutexes, under every interleaving: *)

(* between calls a thread holds exactly the mutexes of its pile, and when
   Lock() is about to return it holds exactly the goal of that call (the
   previous pile plus the requested locks, see [lock_goal]) ... *)
Theorem pile_holds_exactly : forall s, reachable s -> forall t,
  (forall pile, ts s t = Idle pile -> forall m, owner s m = Some t <-> In m (mutexes pile)) /\
  (forall g acq, ts s t = Loop g acq [] -> forall m, owner s m = Some t <-> In m g).
Proof. exact pile_holds_exactly_thm. Qed.
Print Assumptions pile_holds_exactly.

Theorem lock_call_goal : forall pile news a p,
  start pile (CLock news) = Some (a, p) ->
  exists acq rest, p = Loop (mutexes pile ++ news) acq rest /\ a = ATau.
Proof. exact lock_goal. Qed.
Print Assumptions lock_call_goal.

Theorem lock_returns_holding_its_goal : forall s, reachable s ->
  forall t g acq s', ts s t = Loop g acq [] -> step s t s' ->
  ts s' t = Idle acq /\ forall m, owner s' m = Some t <-> In m g.
Proof. exact lock_returns_holding_goal. Qed.
Print Assumptions lock_returns_holding_its_goal.

(* ... a thread sits in the blocking Lock() only while it holds none of the
   mutexes of its pile ... *)
Theorem pile_blocks_bare : forall s, reachable s ->
  forall t g e others, ts s t = Block g e others -> forall m, owner s m <> Some t.
Proof. exact pile_blocks_bare_thm. Qed.
Print Assumptions pile_blocks_bare.

(* ... hence no non-empty set of threads can be waiting on mutexes owned
   within the set: there is no deadlock among LockPile users ... *)
Theorem no_deadlock : forall s, reachable s ->
  forall S : tid -> Prop, (exists t, S t) ->
  ~ (forall t, S t -> exists m t', waiting s t m /\ owner s m = Some t' /\ S t').
Proof. exact no_deadlock_thm. Qed.
Print Assumptions no_deadlock.

(* ... and the owner of a mutex somebody waits for always has a step to
   take (enabledness; that it is eventually scheduled, and that the try-lock
   back-off does not livelock, is NOT proved: partial). *)
Theorem contended_owner_can_run : forall s, reachable s ->
  forall t m, waiting s t m -> exists t' s', owner s m = Some t' /\ step s t' s'.
Proof. exact owner_of_contended_mutex_can_run. Qed.
Print Assumptions contended_owner_can_run.

(* Non-vacuity: the classic two-lock deadlock shape is reachable up to the
   point where LockPile backs off. *)
Theorem backoff_state_reachable :
  exists s, reachable s /\ waiting s 0 2 /\ owner s 1 = None /\ owner s 2 = Some 1.
Proof. exact demo_reaches_block. Qed.
Print Assumptions backoff_state_reachable.
