(* C14 — the property theorems, and nothing else.
   (The generated obligation [repo_balanced] and its corollary for the
   repository's entry points are re-proved on every run against the skeleton
   the translator extracts from the current sources; see checks/C14.py.) *)
From Coq Require Import String List ZArith Bool.
From VF Require Import Locks.Checker Locks.Model Locks.Spec Locks.Proofs.
Import ListNotations.

(* If every function of a program passes the executable check, every
   returning path of every function (any branch choices, any number of loop
   iterations, deferred statements run last-in-first-out, callees executed
   recursively) changes the locks held by exactly the function's declared
   summary ... *)
Theorem balanced_sound_all : forall prog,
  forallb (balanced prog) (map fst prog) = true ->
  forall f h, fn_returns prog f h ->
  exists body sm, assoc f prog = Some (body, sm) /\ meets sm h.
Proof. exact Checker.balanced_sound_all. Qed.
Print Assumptions balanced_sound_all.

(* ... in particular a function whose summary declares no net effect returns
   holding exactly the locks it was called with: the signed count of every
   lock, relative to function entry, is zero. *)
Theorem balanced_sound : forall prog,
  forallb (balanced prog) (map fst prog) = true ->
  forall f body sm, assoc f prog = Some (body, sm) -> s_delta sm = [] -> s_dirty sm = [] ->
  forall h, fn_returns prog f h -> forall i, cnt h i = 0%Z.
Proof. exact Checker.balanced_sound. Qed.
Print Assumptions balanced_sound.

(* A function may only release what it holds: no run of any function --
   returning or panicking, in its body, in its deferred statements, in
   anything it calls at any depth -- executes an Unlock/RUnlock of a mutex
   whose count relative to function entry, plus the declared entry
   assumption, is not positive, or calls a function whose entry assumption
   it does not meet ([OFault] propagates to the top from wherever it
   arises).  An Unlock-then-Lock slip with net effect zero is a fault. *)
Theorem balanced_no_fault : forall prog,
  forallb (balanced prog) (map fst prog) = true -> forall f, ~ fn_faults prog f.
Proof. exact Checker.balanced_no_fault. Qed.
Print Assumptions balanced_no_fault.

(* Panicking paths: deferred statements run (a deferred call that panics
   does not stop the older ones); when the panic is the function's own,
   every lock covered by a pending deferred statement is back at the
   declared net effect afterwards.  Only locks no pending defer covers are
   exempt (no recover() in the analysed packages: the process ends). *)
Theorem balanced_panic_covered : forall prog,
  forallb (balanced prog) (map fst prog) = true ->
  forall f sm ds h, fn_panics_own prog f sm ds h ->
  forall i, covered prog ds i = true -> in_piles (s_dirty sm) i = false ->
  cnt h i = cnt (s_delta sm) i.
Proof. exact Checker.balanced_panic_covered. Qed.
Print Assumptions balanced_panic_covered.

(* A function whose summary says it does not panic never does (explicit
   panic statements, its own or its callees'). *)
Theorem balanced_no_panic : forall prog,
  forallb (balanced prog) (map fst prog) = true ->
  forall f sm o1 fr1 o2 fr2, fn_run prog f sm o1 fr1 o2 fr2 -> s_panics sm = false ->
  is_panic o1 = false /\ is_panic o2 = false.
Proof. exact Checker.balanced_no_panic. Qed.
Print Assumptions balanced_no_panic.

(* Non-vacuity of the fault: Unlock-then-Lock has net effect zero and is
   rejected; with the entry assumption declared it is accepted, and a caller
   that does not hold the lock is rejected. *)
Example slip_prog : program :=
  [("slip"%string, (Seqs [Unlock "l"; Lock "l"], neutral))].
Example slip_rejected : balanced slip_prog "slip" = false.
Proof. vm_compute. reflexivity. Qed.
Example slip_faults : fn_faults slip_prog "slip".
Proof.
  exists (Seqs [Unlock "l"; Lock "l"]), neutral. split; [reflexivity|]. left.
  eexists. apply E_SeqX; [apply E_RelFault; reflexivity | discriminate].
Qed.
Example wait_prog : program :=
  [("wait"%string, (Seqs [Unlock "l"; Lock "l"], mkSum [] [] [((MW, "l"%string), 1%Z)] [] false []));
   ("good"%string, (Seqs [Lock "l"; Call "wait" (mkS [] []); Unlock "l"], neutral));
   ("bad"%string, (Call "wait" (mkS [] []), neutral))].
Example wait_accepted : map (balanced wait_prog) ["wait"; "good"; "bad"]%string = [true; true; false].
Proof. vm_compute. reflexivity. Qed.
(* a deferred Unlock that would run on a panic raised while the mutex is
   released is rejected; the same panic before the release is accepted *)
Example panic_prog : program :=
  [("p1"%string, (Seqs [Lock "l"; Defer (Unlock "l"); Unlock "l"; Alts [Panic; Skip]; Lock "l"], mkSum [] [] [] [] true []));
   ("p2"%string, (Seqs [Lock "l"; Defer (Unlock "l"); Alts [Panic; Skip]; Unlock "l"; Lock "l"], mkSum [] [] [] [] true []))].
Example panic_cases : map (balanced panic_prog) ["p1"; "p2"]%string = [false; true].
Proof. vm_compute. reflexivity. Qed.

(* Dynamic side: the model the harness compares the code with satisfies the
   trace predicate for all call sequences, and the predicate reports every
   leaked lock. *)
Theorem model_never_leaks : forall (calls : list (string * nat)),
  trace_ok (map (fun c => model_step (fst c) (snd c)) calls) = true.
Proof. exact model_trace_ok. Qed.
Print Assumptions model_never_leaks.

Theorem leak_is_reported : forall m free, In false free ->
  p_step (mkStep m RReturned free) = ("lock-leak:" ++ m)%string.
Proof. exact leak_detected. Qed.
Print Assumptions leak_is_reported.

(* ---- LockPile (model of pkg/sync/lock_pile.go, Locks/Pile.v) --------------- *)
From VF Require Import Locks.Pile.

(* For all reachable states of any number of threads using LockPiles over
   shared try-lockable mutexes, under every interleaving: *)

(* between calls a thread holds exactly the mutexes of its pile, and when
   Lock() is about to return it holds exactly the goal of that call (the
   previous pile plus the requested locks, see [lock_goal]) ... *)
Theorem pile_holds_exactly : forall s, reachable s -> forall t,
  (forall pile, ts s t = Idle pile -> forall m, owner s m = Some t <-> In m (mutexes pile)) /\
  (forall g acq, ts s t = Loop g acq [] -> forall m, owner s m = Some t <-> In m g).
Proof. exact pile_holds_exactly_thm. Qed.
Print Assumptions pile_holds_exactly.

Theorem lock_call_goal : forall pile news a p,
  start pile (CLock news) = Some (a, p) ->
  exists acq rest, p = Loop (mutexes pile ++ news) acq rest /\ a = ATau.
Proof. exact lock_goal. Qed.
Print Assumptions lock_call_goal.

Theorem lock_returns_holding_its_goal : forall s, reachable s ->
  forall t g acq s', ts s t = Loop g acq [] -> step s t s' ->
  ts s' t = Idle acq /\ forall m, owner s' m = Some t <-> In m g.
Proof. exact lock_returns_holding_goal. Qed.
Print Assumptions lock_returns_holding_its_goal.

(* ... a thread sits in the blocking Lock() only while it holds none of the
   mutexes of its pile ... *)
Theorem pile_blocks_bare : forall s, reachable s ->
  forall t g e others, ts s t = Block g e others -> forall m, owner s m <> Some t.
Proof. exact pile_blocks_bare_thm. Qed.
Print Assumptions pile_blocks_bare.

(* ... hence no non-empty set of threads can be waiting on mutexes owned
   within the set: there is no deadlock among LockPile users ... *)
Theorem no_deadlock : forall s, reachable s ->
  forall S : tid -> Prop, (exists t, S t) ->
  ~ (forall t, S t -> exists m t', waiting s t m /\ owner s m = Some t' /\ S t').
Proof. exact no_deadlock_thm. Qed.
Print Assumptions no_deadlock.

(* ... and the owner of a mutex somebody waits for always has a step to
   take (enabledness; that it is eventually scheduled, and that the try-lock
   back-off does not livelock, is NOT proved: partial). *)
Theorem contended_owner_can_run : forall s, reachable s ->
  forall t m, waiting s t m -> exists t' s', owner s m = Some t' /\ step s t' s'.
Proof. exact owner_of_contended_mutex_can_run. Qed.
Print Assumptions contended_owner_can_run.

(* Non-vacuity: the classic two-lock deadlock shape is reachable up to the
   point where LockPile backs off. *)
Theorem backoff_state_reachable :
  exists s, reachable s /\ waiting s 0 2 /\ owner s 1 = None /\ owner s 2 = Some 1.
Proof. exact demo_reaches_block. Qed.
Print Assumptions backoff_state_reachable.

(* Atomic sections (check-then-act under one lock, e.g. OpenedFile.Lock:
   locks.Test -> locks.Set under of.locksLock held exclusively): if the
   program passes and [atomic_section prog f e] holds, [e] is declared for [f]
   and no run of [f] faults -- where (Checker: mark_fault_iff, mark_ok_holds,
   mark_mon_opens, rel_breaks_open, call_breaks_open) an opening or closing
   event without the mutex held, and a release of the mutex or a call of a
   function whose summary mentions it while the section is open, are faults. *)
Theorem atomic_section_sound : forall prog,
  forallb (balanced prog) (map fst prog) = true ->
  forall f e, atomic_section prog f e = true ->
  exists body sm,
    assoc f prog = Some (body, sm) /\ In e (s_atomic sm) /\
    forall o fr, exec prog (ctx_of sm) body frame0 o fr -> o <> OFault.
Proof. exact Checker.atomic_section_sound. Qed.
Print Assumptions atomic_section_sound.

(* Non-vacuity: test-then-set under one exclusive hold is accepted; the test
   under a read lock that is dropped before the write lock is taken (the
   shape of seeded/C20b) is rejected, as is unlock/re-lock of the exclusive
   lock in between. *)
Example atomic_prog : program :=
  let e := [mkAsec "Test" (Some "Set") "m" false] in
  [("ok"%string, (Seqs [Lock "m"; Defer (Unlock "m"); Mark "Test"; Alts [Return; Skip]; Mark "Set"], mkSum [] [] [] [] false e));
   ("rw"%string, (Seqs [RLock "m"; Mark "Test"; Alts [Seqs [RUnlock "m"; Return]; Skip]; RUnlock "m"; Lock "m"; Defer (Unlock "m"); Mark "Set"], mkSum [] [] [] [] false e));
   ("gap"%string, (Seqs [Lock "m"; Mark "Test"; Unlock "m"; Lock "m"; Mark "Set"; Unlock "m"], mkSum [] [] [] [] false e))].
Example atomic_cases : map (fun f => atomic_section atomic_prog f (mkAsec "Test" (Some "Set") "m" false)) ["ok"; "rw"; "gap"]%string = [true; false; false].
Proof. vm_compute. reflexivity. Qed.

(* ---- the sequential LockPile runner satisfies the monitor (Locks/PileRunner.v) ---- *)
From VF Require Import Common.Verdict Locks.Corr Locks.PileRunner.

(* For every script (commands with scripted TryLock answers) and every fuel,
   the calls the model runner makes satisfy the monitor [pile_p] that Corr.v
   evaluates on the code's recorded calls ... *)
Theorem pile_runner_satisfies_monitor : forall fuel script,
  pile_viol 0 ([], []) (model_obs fuel [] script) = VOk.
Proof. exact PileRunner.pile_runner_satisfies_monitor. Qed.
Print Assumptions pile_runner_satisfies_monitor.

(* ... hence whenever the code's calls equal the model's (no mismatch), the
   monitor holds on the code's trace: a pile violation can only be reported
   together with a mismatch. *)
Theorem pile_match_implies_monitor : forall obs,
  pile_mism 0 [] obs = VOk -> pile_viol 0 ([], []) obs = VOk.
Proof. exact PileRunner.pile_match_implies_monitor. Qed.
Print Assumptions pile_match_implies_monitor.

(* ---- lock-class order outside LockPile (Locks/Order.v) ----------------------- *)
From VF Require Import Locks.Order.
From Coq Require Import Relations.

(* The executable check the generated obligation [repo_lock_order_acyclic]
   runs on the graph extracted from the sources is sound: no lock class
   reaches itself through "acquired while holding" edges ... *)
Theorem acyclic_sound : forall g, acyclic g = true ->
  forall v, ~ clos_trans string (edge g) v v.
Proof. exact Order.acyclic_sound. Qed.
Print Assumptions acyclic_sound.

(* ... and if every (held class, awaited class) pair of every thread is an
   edge of such a graph, no non-empty set of threads can each be blocked on a
   mutex held inside the set. *)
Theorem order_no_deadlock : forall (thread : Type) (holds waits : thread -> string -> Prop) g,
  acyclic g = true ->
  (forall t c1 c2, holds t c1 -> waits t c2 -> edge g c1 c2) ->
  forall S : thread -> Prop, (exists t, S t) ->
  ~ (forall t, S t -> exists c t', waits t c /\ holds t' c /\ S t').
Proof. exact Order.order_no_deadlock. Qed.
Print Assumptions order_no_deadlock.
