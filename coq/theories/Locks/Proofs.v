(* Small facts tying the harness model to the trace predicate. *)
From Coq Require Import String List Bool.
From VF Require Import Locks.Model Locks.Spec.
Import ListNotations.
Open Scope string_scope.

Lemma forallb_repeat_true n : forallb (fun b : bool => b) (repeat true n) = true.
Proof. induction n; cbn; auto. Qed.

(* The model never violates the trace predicate, for every sequence of calls
   on any number of directories. *)
Lemma model_trace_ok : forall (calls : list (string * nat)),
  trace_ok (map (fun c => model_step (fst c) (snd c)) calls) = true.
Proof.
  induction calls as [|[m n] t IH]; cbn; [reflexivity|].
  unfold p_step; cbn. unfold model_free. rewrite forallb_repeat_true. cbn. exact IH.
Qed.

(* A leaked lock or a call that does not return is always reported. *)
Lemma leak_detected : forall m free, In false free ->
  p_step (mkStep m RReturned free) = "lock-leak:" ++ m.
Proof.
  intros m free Hin. unfold p_step; cbn.
  destruct (forallb (fun b => b) free) eqn:H; [|reflexivity].
  rewrite forallb_forall in H. specialize (H false Hin). discriminate.
Qed.
