(* C14, dynamic part: what a call on an in-memory prepopulated directory
   leaves behind, as far as locks are concerned.  The model is deliberately
   trivial: whatever the call and whatever its outcome, every directory
   mutex is free afterwards.  That this is what the code does on every path
   is the generated obligation [repo_balanced] (coq/theories/Locks/Checker.v +
   the translator); the harness harness/cmd/locks compares it with the real
   mutexes through the VerifLockIsFree hook after every call. *)
From Coq Require Import String List Bool.
Import ListNotations.

Inductive result := RReturned | RPanicked | RHung.

(* One observed call: the method, how it ended, and for every directory the
   harness knows whether its mutex could be taken (TryLock) afterwards. *)
Record step := mkStep {
  s_method : string;
  s_result : result;
  s_free : list bool }.

(* The model's answer for [n] directories. *)
Definition model_free (n : nat) : list bool := repeat true n.

Definition model_step (method : string) (n : nat) : step :=
  mkStep method RReturned (model_free n).
